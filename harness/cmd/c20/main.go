// Driver c20: (a) executes emission sequences and every row of the regenerated metric table against
// the real Prometheus wrapper (pkg/metrics/prometheus) in child processes with a fresh default
// registry each; (b) sends hostile requests through the real etcd.RPCServer and brain.Server
// handlers of a leader node built with the real Prometheus client, in a child process, each
// request followed by a create+get health probe and a revision-progress probe.
// A crash of a child is an observation (process exit), never a crash of the checker.
package main

import (
	"bufio"
	"context"
	"encoding/json"
	"flag"
	"fmt"
	"io"
	"math"
	"net"
	"net/http"
	"os"
	"os/exec"
	"path/filepath"
	"strings"
	"sync"
	"sync/atomic"
	"syscall"
	"time"

	"go.etcd.io/etcd/api/v3/etcdserverpb"
	"google.golang.org/grpc"
	"google.golang.org/grpc/metadata"

	proto "github.com/kubewharf/kubebrain-client/api/v2rpc"

	"github.com/kubewharf/kubebrain/pkg/backend"
	"github.com/kubewharf/kubebrain/pkg/metrics"
	kbprom "github.com/kubewharf/kubebrain/pkg/metrics/prometheus"
	"github.com/kubewharf/kubebrain/pkg/server/brain"
	"github.com/kubewharf/kubebrain/pkg/server/etcd"
	"github.com/kubewharf/kubebrain/pkg/server/service"
	"github.com/kubewharf/kubebrain/pkg/server/service/leader"
	"github.com/kubewharf/kubebrain/pkg/storage"
	smetrics "github.com/kubewharf/kubebrain/pkg/storage/metrics"

	"kbverif/lib"
)

// ---------- shared between parent and children ----------

type Emission struct {
	Kind   string      `json:"kind"`
	Name   []byte      `json:"name"`
	Labels [][2][]byte `json:"labels"`
	Neg    bool        `json:"neg"`
}

type EmitJob struct {
	Globals [][2][]byte `json:"globals"`
	Ems     []Emission  `json:"ems"`
}

func coqKV(kv [2][]byte) string { return lib.Pair(lib.Bytes(kv[0]), lib.Bytes(kv[1])) }

func coqEmission(e Emission) string {
	ls := make([]string, len(e.Labels))
	for i, l := range e.Labels {
		ls[i] = coqKV(l)
	}
	return fmt.Sprintf("{| e_kind := %s; e_name := %s; e_labels := %s; e_neg := %s |}", e.Kind, lib.Bytes(e.Name), lib.List(ls), lib.Bool(e.Neg))
}

func coqOutcomes(p []bool) string {
	xs := make([]string, len(p))
	for i, b := range p {
		if b {
			xs[i] = "Panic"
		} else {
			xs[i] = "Ok"
		}
	}
	return lib.List(xs)
}

// ---------- child: emissions ----------

func childEmit(in, out string) {
	var job EmitJob
	b, err := os.ReadFile(in)
	if err != nil {
		panic(err)
	}
	if err := json.Unmarshal(b, &job); err != nil {
		panic(err)
	}
	var gl []metrics.T
	for _, g := range job.Globals {
		gl = append(gl, metrics.Tag(string(g[0]), string(g[1])))
	}
	m := kbprom.NewMetrics(gl...)
	res := make([]bool, len(job.Ems))
	for i, e := range job.Ems {
		res[i] = func() (panicked bool) {
			defer func() {
				if r := recover(); r != nil {
					panicked = true
				}
			}()
			var tags []metrics.T
			for _, l := range e.Labels {
				tags = append(tags, metrics.Tag(string(l[0]), string(l[1])))
			}
			v := 1
			if e.Neg {
				v = -1
			}
			switch e.Kind {
			case "Counter":
				_ = m.EmitCounter(string(e.Name), v, tags...)
			case "Gauge":
				_ = m.EmitGauge(string(e.Name), v, tags...)
			default:
				_ = m.EmitHistogram(string(e.Name), v, tags...)
			}
			return false
		}()
	}
	ob, _ := json.Marshal(res)
	if err := os.WriteFile(out, ob, 0o644); err != nil {
		panic(err)
	}
}

// ---------- child: requests ----------

type fakeStream struct{ ctx context.Context }

func (f *fakeStream) SetHeader(metadata.MD) error  { return nil }
func (f *fakeStream) SendHeader(metadata.MD) error { return nil }
func (f *fakeStream) SetTrailer(metadata.MD)       {}
func (f *fakeStream) Context() context.Context     { return f.ctx }
func (f *fakeStream) SendMsg(m interface{}) error  { return nil }
func (f *fakeStream) RecvMsg(m interface{}) error  { return io.EOF }

type etcdWatchStream struct {
	fakeStream
	in       chan *etcdserverpb.WatchRequest
	mu       sync.Mutex
	sent     int
	failAt   int // Send fails from this message on (0 = never)
	sending  int32
	overlap  int32 // Send called while another Send was in progress
	created  []int64
	canceled map[int64]int // Canceled responses with CompactRevision == 0, per watch id
}

func (s *etcdWatchStream) createdID() (int64, bool) {
	s.mu.Lock()
	defer s.mu.Unlock()
	if len(s.created) == 0 {
		return 0, false
	}
	return s.created[0], true
}
func (s *etcdWatchStream) canceledFor(id int64) int {
	s.mu.Lock()
	defer s.mu.Unlock()
	return s.canceled[id]
}

func (s *etcdWatchStream) Recv() (*etcdserverpb.WatchRequest, error) {
	select {
	case m, ok := <-s.in:
		if !ok {
			return nil, io.EOF
		}
		return m, nil
	case <-s.ctx.Done():
		return nil, s.ctx.Err()
	}
}
func (s *etcdWatchStream) Send(r *etcdserverpb.WatchResponse) error {
	if atomic.AddInt32(&s.sending, 1) > 1 {
		atomic.StoreInt32(&s.overlap, 1)
	}
	defer atomic.AddInt32(&s.sending, -1)
	s.mu.Lock()
	defer s.mu.Unlock()
	s.sent++
	if r.Created {
		s.created = append(s.created, r.WatchId)
	}
	if r.Canceled && r.CompactRevision == 0 {
		if s.canceled == nil {
			s.canceled = map[int64]int{}
		}
		s.canceled[r.WatchId]++
	}
	if s.failAt > 0 && s.sent >= s.failAt {
		return fmt.Errorf("send failed (injected)")
	}
	return nil
}

type brainWatchStream struct {
	fakeStream
	mu     sync.Mutex
	sent   int
	failAt int
}

func (s *brainWatchStream) Send(r *proto.WatchResponse) error {
	s.mu.Lock()
	defer s.mu.Unlock()
	s.sent++
	if s.failAt > 0 && s.sent >= s.failAt {
		return fmt.Errorf("send failed (injected)")
	}
	return nil
}

// recWatchStream records what a native watch delivers; while `hold` is open-ended (non-nil and not closed)
// Send blocks: a client that does not read its stream
type recWatchStream struct {
	fakeStream
	hold    chan struct{}
	maxRev  uint64 // highest event revision seen (atomic)
	batches int64
}

func (s *recWatchStream) Send(r *proto.WatchResponse) error {
	if s.hold != nil {
		select {
		case <-s.hold:
		case <-s.ctx.Done():
			return s.ctx.Err()
		}
	}
	atomic.AddInt64(&s.batches, 1)
	for _, e := range r.Events {
		for {
			old := atomic.LoadUint64(&s.maxRev)
			if e.Revision <= old || atomic.CompareAndSwapUint64(&s.maxRev, old, e.Revision) {
				break
			}
		}
	}
	return nil
}

type brainRangeStream struct {
	fakeStream
	mu     sync.Mutex
	sent   int
	failAt int
}

func (s *brainRangeStream) Send(r *proto.StreamRangeResponse) error {
	s.mu.Lock()
	defer s.mu.Unlock()
	s.sent++
	if s.failAt > 0 && s.sent >= s.failAt {
		return fmt.Errorf("send failed (injected)")
	}
	return nil
}

func wrapStorage(kv storage.KvStorage, m metrics.Metrics) storage.KvStorage {
	return smetrics.NewKvStorage(kv, m)
}

// recMetrics forwards to the real metrics client and records what the current request's own goroutine emits
type recMetrics struct {
	inner metrics.Metrics
	cur   int64 // goroutine id of the handler call being observed (0: none)
	mu    sync.Mutex
	ems   []Emission
}

func (m *recMetrics) GetGrpcServerOption() []grpc.ServerOption { return m.inner.GetGrpcServerOption() }
func (m *recMetrics) GetHttpHandlers() map[string]http.Handler { return m.inner.GetHttpHandlers() }
func (m *recMetrics) rec(kind, name string, v interface{}, tags []metrics.T) {
	cur := atomic.LoadInt64(&m.cur)
	if cur == 0 || lib.GoID() != cur {
		return
	}
	e := Emission{Kind: kind, Name: []byte(name)}
	for _, t := range tags {
		e.Labels = append(e.Labels, [2][]byte{[]byte(t.Name), []byte(t.Value)})
	}
	switch x := v.(type) {
	case int:
		e.Neg = x < 0
	case int64:
		e.Neg = x < 0
	case float64:
		e.Neg = x < 0
	}
	m.mu.Lock()
	if len(m.ems) < 64 {
		m.ems = append(m.ems, e)
	}
	m.mu.Unlock()
}
func (m *recMetrics) EmitCounter(name string, v interface{}, t ...metrics.T) error {
	m.rec("Counter", name, v, t)
	return m.inner.EmitCounter(name, v, t...)
}
func (m *recMetrics) EmitGauge(name string, v interface{}, t ...metrics.T) error {
	m.rec("Gauge", name, v, t)
	return m.inner.EmitGauge(name, v, t...)
}
func (m *recMetrics) EmitHistogram(name string, v interface{}, t ...metrics.T) error {
	m.rec("Histogram", name, v, t)
	return m.inner.EmitHistogram(name, v, t...)
}
func (m *recMetrics) begin() {
	m.mu.Lock()
	m.ems = nil
	m.mu.Unlock()
	atomic.StoreInt64(&m.cur, lib.GoID())
}
func (m *recMetrics) end() []Emission {
	atomic.StoreInt64(&m.cur, 0)
	m.mu.Lock()
	defer m.mu.Unlock()
	out := m.ems
	m.ems = nil
	return out
}

// emissions of the handler rows' namespace: what the handlers themselves emit (the backend's own metrics,
// emitted on the same goroutine below the handler, are other rows of the table)
var handlerNames = func() map[string]bool {
	m := map[string]bool{}
	for _, base := range []string{"brain.server.write", "brain.server.read", "brain.server.watch"} {
		for _, sfx := range []string{"", ".latency", ".fail", ".responsesize"} {
			m[base+sfx] = true
		}
	}
	for _, n := range []string{"brain.watch.event", "read", "read.latency", "read.responsesize", "write", "write.latency", "write.responsesize", "write.fail",
		"watch.watch_id", "watch.range", "watch.watch", "watch.cancel", "watch.close", "watcher.receive.cancel", "watch.client.cancel",
		"watch.request.unsupported", "invalid.watch.key", "watch.backend.err", "watch.backend.list_stream.err", "watch.list_stream.eof",
		"watch.list_stream.latency", "watch.list_stream.push", "watch.list_stream.push.size", "watch.list_stream.push.err",
		"watch.watch_stream.push", "watch.watch_stream.push.size", "watch.watch_stream.push.err"} {
		m[n] = true
	}
	return m
}()

// the names of Model/HandlerMetrics.all_handler_rows
func handlerLevel(e Emission) bool { return handlerNames[string(e.Name)] }

type node struct {
	rec   *recMetrics
	b     backend.Backend
	peers service.PeerService
	es    *etcd.RPCServer
	bs    *brain.Server
}

func newNode(engine, scratch string) (*node, error) {
	kv, _, err := lib.NewEngine(lib.EngMem, scratch)
	if err != nil {
		return nil, err
	}
	rm := &recMetrics{inner: kbprom.NewMetrics(metrics.Tag("cluster", "verif"))}
	var m metrics.Metrics = rm
	if engine == lib.EngWrapMem {
		// the production wiring of --enable-storage-metrics: the wrapper shares the node's metrics client
		kv = wrapStorage(kv, m)
	}
	// a small --watch-cache-size: the event ring wraps after a few dozen writes instead of 200 000, so that
	// watches from recent revisions read a full, wrapped ring at every cursor position
	cache := 16
	if engine == lib.EngWrapMem {
		cache = 40
	}
	b := backend.NewBackend(kv, backend.Config{Prefix: "/registry", Identity: "127.0.0.1:3379", EnableEtcdCompatibility: true, WatchCacheSize: cache}, m)
	le := leader.NewLeaderElection(b, m, func(context.Context) {}, func() {})
	peers := service.NewPeerService(le, m, b, service.Config{})
	n := &node{b: b, peers: peers, rec: rm}
	n.es = etcd.New(b, m, peers)
	n.bs = brain.New(b, m, peers) // starts the election campaign and the compact loop
	if !lib.WaitUntil(10*time.Second, func() bool { return peers.IsLeader() }) {
		return nil, fmt.Errorf("node did not become leader")
	}
	return n, nil
}

// one generated request: the Coq term of its reduced form, a readable rendering, and how to run it
type genReq struct {
	Coq   string
	JSON  map[string]interface{}
	Kind  string
	Run   func(n *node) (isErr bool)
	Extra int64 // revisions the scenario itself allocates on top of the request (none so far)
	List  *listObs
	// Verdict, when set by Run, says why the node no longer serves (reported as a wedge)
	Verdict *string
	// ExtraFn: revisions the scenario allocated itself, known only after it ran
	ExtraFn func() int64
}

// what a list-shaped response contained
type listObs struct {
	Set   bool
	Count int64
	More  bool
}

var keyPool = [][]byte{
	nil, {}, []byte("/registry/a"), []byte("/registry/b"), []byte("/registry/pods/ns/x"), []byte("/registry/events/e1"),
	{0xff, 0xfe}, {0x00}, []byte("/registry/\xff"), []byte("/\xff"), []byte("/registry/a\x00"), {0xff, 0xff, 0xff},
	[]byte("registry/noslash"), []byte("/registry/compact_key"), []byte("/registry/election"), []byte("compact_rev_key"),
	[]byte("/registry/a$"), []byte("/"), []byte(strings.Repeat("/registry/long", 40)),
}
var valPool = [][]byte{nil, {}, []byte("v"), []byte("tombstone"), {0xff}, []byte(strings.Repeat("x", 1500)), {0, 0, 0, 0, 0, 0, 0, 1}}

// longKey builds a valid UTF-8 key of 129..400 bytes from multi-byte runes such that a rune straddles
// byte offset `cut` (128 or 256) with `lead` of its bytes before the cut: whoever truncates, slices or
// re-buffers a key at a byte offset splits it
func longKey(prefix string, runeStr string, cut, lead, total int) []byte {
	rb := []byte(runeStr)
	k := []byte(prefix)
	// ASCII padding so that the rune sequence is aligned as requested
	pad := (cut - lead - len(k)) % len(rb)
	if pad < 0 {
		pad += len(rb)
	}
	for i := 0; i < pad; i++ {
		k = append(k, 'a')
	}
	for len(k) < total {
		k = append(k, rb...)
	}
	return k
}

var multiByteRunes = []string{"é", "键", "😀"} // 2, 3 and 4 bytes

func genLongKey(r *lib.Rand) []byte {
	rs := multiByteRunes[r.Intn(len(multiByteRunes))]
	cut := []int{128, 256}[r.Intn(2)]
	lead := 1 + r.Intn(len(rs)-1)
	total := cut + 1 + r.Intn(400-cut)
	if total < cut+len(rs) {
		total = cut + len(rs)
	}
	prefix := []string{"/registry/configmaps/", "/registry/events/", "/", "/registry/pods/ns/"}[r.Intn(4)]
	return longKey(prefix, rs, cut, lead, total)
}

func genKey(r *lib.Rand) []byte {
	if r.Chance(1, 6) {
		return genLongKey(r)
	}
	return keyPool[r.Intn(len(keyPool))]
}
func genVal(r *lib.Rand) []byte { return valPool[r.Intn(len(valPool))] }

// numeric pool shared by revisions and limits: boundaries of int64/uint64 (and their images under the
// signed<->unsigned casts of the shims), powers of two in the range where a value used as an allocation
// size would ask for gigabytes to terabytes, and small values
var numPool = []int64{
	0, 1, 2, 3, -1, -2, math.MinInt64, math.MinInt64 + 1, math.MaxInt64, math.MaxInt64 - 1, 1 << 62, 1<<62 + 1, -(1 << 62),
	1 << 31, 1<<31 - 1, 1 << 32, 1<<32 + 1, 1 << 33, 1 << 34, 1 << 36, 1 << 38, 1 << 40, 1 << 42, 1 << 44, 1 << 48, 1 << 56,
}

func genNum(r *lib.Rand) int64 {
	if r.Chance(1, 5) {
		return int64(1) << uint(33+r.Intn(12)) // 1<<33 .. 1<<44
	}
	return numPool[r.Intn(len(numPool))]
}

func genRevI(r *lib.Rand, cur uint64) int64 {
	switch r.Intn(16) {
	case 12, 13:
		return int64(cur) - int64(r.Intn(16)) // inside the event ring
	case 14:
		return -int64(1 + r.Intn(3)) // range stream at an ancient revision
	case 15:
		return -(int64(cur) - int64(r.Intn(40)))
	case 0, 1, 2, 3:
		return genNum(r)
	case 4:
		return int64(cur) + 1000000 // far future
	case 5:
		return int64(cur)
	case 6:
		return int64(cur) - int64(r.Intn(20))
	case 7:
		return int64(cur) + 1
	case 8:
		return etcd.GetPartitionMagic
	case 9:
		return -int64(cur)
	case 10:
		return -int64(cur) - int64(r.Intn(3)) + 1
	default:
		return int64(r.Intn(50))
	}
}
func genLimit(r *lib.Rand) int64 {
	if r.Chance(1, 3) {
		return int64(r.Intn(4))
	}
	return genNum(r)
}

func coqOp(o *etcdserverpb.RequestOp) string {
	if o == nil {
		return "OpNil"
	}
	if p := o.GetRequestPut(); p != nil {
		return fmt.Sprintf("(OpPut %s %s %s)", lib.Bool(p.IgnoreLease), lib.Bool(p.IgnoreValue), lib.Bool(p.PrevKv))
	}
	if o.GetRequestRange() != nil {
		return "OpRange"
	}
	if o.GetRequestDeleteRange() != nil {
		return "OpDeleteRange"
	}
	if o.GetRequestTxn() != nil {
		return "OpTxn"
	}
	return "OpNil"
}

func coqTxn(t *etcdserverpb.TxnRequest) string {
	var cs, ss, fs []string
	for _, c := range t.Compare {
		cs = append(cs, fmt.Sprintf("{| c_target := %d; c_result := %d; c_modrev := %s; c_key := %s |}",
			int32(c.Target), int32(c.Result), lib.Z(c.GetModRevision()), lib.Bytes(c.Key)))
	}
	for _, o := range t.Success {
		ss = append(ss, coqOp(o))
	}
	for _, o := range t.Failure {
		fs = append(fs, coqOp(o))
	}
	return lib.App("ETxn", lib.List(cs), lib.List(ss), lib.List(fs))
}

func opPut(k, v []byte, lease int64, il, iv, pk bool) *etcdserverpb.RequestOp {
	return &etcdserverpb.RequestOp{Request: &etcdserverpb.RequestOp_RequestPut{RequestPut: &etcdserverpb.PutRequest{Key: k, Value: v, Lease: lease, IgnoreLease: il, IgnoreValue: iv, PrevKv: pk}}}
}
func opRange(k []byte) *etcdserverpb.RequestOp {
	return &etcdserverpb.RequestOp{Request: &etcdserverpb.RequestOp_RequestRange{RequestRange: &etcdserverpb.RangeRequest{Key: k}}}
}
func opDel(k []byte) *etcdserverpb.RequestOp {
	return &etcdserverpb.RequestOp{Request: &etcdserverpb.RequestOp_RequestDeleteRange{RequestDeleteRange: &etcdserverpb.DeleteRangeRequest{Key: k}}}
}
func cmpMod(k []byte, rev int64) *etcdserverpb.Compare {
	return &etcdserverpb.Compare{Target: etcdserverpb.Compare_MOD, Result: etcdserverpb.Compare_EQUAL, Key: k,
		TargetUnion: &etcdserverpb.Compare_ModRevision{ModRevision: rev}}
}

func genTxn(r *lib.Rand, cur uint64) *etcdserverpb.TxnRequest {
	k, v := genKey(r), genVal(r)
	rev := genRevI(r, cur)
	lease := []int64{0, 0, -1, math.MaxInt64, 5}[r.Intn(5)]
	t := &etcdserverpb.TxnRequest{}
	switch r.Intn(6) {
	case 0: // create
		t.Compare = []*etcdserverpb.Compare{cmpMod(k, 0)}
		t.Success = []*etcdserverpb.RequestOp{opPut(k, v, lease, r.Chance(1, 12), r.Chance(1, 12), r.Chance(1, 12))}
	case 1: // update
		t.Compare = []*etcdserverpb.Compare{cmpMod(k, rev)}
		t.Success = []*etcdserverpb.RequestOp{opPut(k, v, lease, false, false, false)}
		t.Failure = []*etcdserverpb.RequestOp{opRange(k)}
	case 2: // guarded delete
		t.Compare = []*etcdserverpb.Compare{cmpMod(k, rev)}
		t.Success = []*etcdserverpb.RequestOp{opDel(k)}
		t.Failure = []*etcdserverpb.RequestOp{opRange(k)}
	case 3: // unguarded delete
		t.Success = []*etcdserverpb.RequestOp{opRange(k), opDel(k)}
	case 4: // compact
		t.Compare = []*etcdserverpb.Compare{{Target: etcdserverpb.Compare_VERSION, Result: etcdserverpb.Compare_EQUAL, Key: []byte("compact_rev_key"),
			TargetUnion: &etcdserverpb.Compare_Version{Version: rev}}}
		t.Success = []*etcdserverpb.RequestOp{opPut([]byte("compact_rev_key"), v, 0, false, false, false)}
		t.Failure = []*etcdserverpb.RequestOp{opRange([]byte("compact_rev_key"))}
	default: // arbitrary
		for i := r.Intn(3); i > 0; i-- {
			t.Compare = append(t.Compare, cmpMod(genKey(r), genRevI(r, cur)))
		}
	}
	// mutations
	for m := r.Intn(3); m > 0; m-- {
		switch r.Intn(10) {
		case 0:
			if len(t.Compare) > 0 {
				t.Compare[0].Target = etcdserverpb.Compare_CompareTarget(r.Intn(5))
			}
		case 1:
			if len(t.Compare) > 0 {
				t.Compare[0].Result = etcdserverpb.Compare_CompareResult(r.Intn(4))
			}
		case 2:
			if len(t.Compare) > 0 {
				t.Compare[0].TargetUnion = &etcdserverpb.Compare_Version{Version: rev}
			}
		case 3:
			if len(t.Compare) > 0 {
				t.Compare[0].TargetUnion = nil
			}
		case 4:
			t.Success = append(t.Success, opRange(k))
		case 5:
			t.Failure = append(t.Failure, opDel(k))
		case 6:
			if len(t.Success) > 0 {
				t.Success[0] = &etcdserverpb.RequestOp{} // no request inside
			}
		case 7:
			t.Success, t.Failure = t.Failure, t.Success
		case 8:
			if len(t.Compare) > 0 {
				t.Compare[0].Key = genKey(r)
			}
		case 9:
			t.Compare = append(t.Compare, cmpMod(k, rev))
		}
	}
	return t
}

func js(kv ...interface{}) map[string]interface{} {
	m := map[string]interface{}{}
	for i := 0; i+1 < len(kv); i += 2 {
		if b, ok := kv[i+1].([]byte); ok {
			m[kv[i].(string)] = lib.Q(b)
		} else if n, ok := kv[i+1].(int64); ok {
			m[kv[i].(string)] = fmt.Sprint(n) // exact: the log is re-read through float64-typed JSON numbers
		} else if n, ok := kv[i+1].(uint64); ok {
			m[kv[i].(string)] = fmt.Sprint(n)
		} else {
			m[kv[i].(string)] = kv[i+1]
		}
	}
	return m
}

func genRequest(r *lib.Rand, cur uint64) genReq {
	ctx := context.Background()
	k, v, e := genKey(r), genVal(r), genKey(r)
	ri := genRevI(r, cur)
	ru := uint64(ri)
	lim := genLimit(r)
	lo := &listObs{}
	switch r.Intn(14) {
	case 0:
		return genReq{Kind: "brain.Create", Coq: lib.App("BCreate", lib.Bytes(k), lib.Bytes(v)), JSON: js("api", "brain.Create", "key", k, "value", v),
			Run: func(n *node) bool {
				_, err := n.bs.Create(ctx, &proto.CreateRequest{Key: k, Value: v, Lease: lim})
				return err != nil
			}}
	case 1:
		present := !r.Chance(1, 6)
		return genReq{Kind: "brain.Update", Coq: lib.App("BUpdate", lib.Bool(present), lib.Bytes(k), lib.Bytes(v), lib.N(ru)),
			JSON: js("api", "brain.Update", "kv_present", present, "key", k, "value", v, "revision", ru),
			Run: func(n *node) bool {
				req := &proto.UpdateRequest{Lease: lim}
				if present {
					req.Kv = &proto.KeyValue{Key: k, Value: v, Revision: ru}
				}
				_, err := n.bs.Update(ctx, req)
				return err != nil
			}}
	case 2:
		return genReq{Kind: "brain.Delete", Coq: lib.App("BDelete", lib.Bytes(k), lib.N(ru)), JSON: js("api", "brain.Delete", "key", k, "revision", ru),
			Run: func(n *node) bool {
				_, err := n.bs.Delete(ctx, &proto.DeleteRequest{Key: k, Revision: ru})
				return err != nil
			}}
	case 3:
		return genReq{Kind: "brain.Compact", Coq: lib.App("BCompact", lib.N(ru)), JSON: js("api", "brain.Compact", "revision", ru),
			Run: func(n *node) bool {
				_, err := n.bs.Compact(ctx, &proto.CompactRequest{Revision: ru, Physical: r.Bool()})
				return err != nil
			}}
	case 4:
		return genReq{Kind: "brain.Get", Coq: lib.App("BGet", lib.Bytes(k), lib.N(ru)), JSON: js("api", "brain.Get", "key", k, "revision", ru),
			Run: func(n *node) bool {
				_, err := n.bs.Get(ctx, &proto.GetRequest{Key: k, Revision: ru})
				return err != nil
			}}
	case 5:
		return genReq{Kind: "brain.Range", Coq: lib.App("BRange", lib.Bytes(k), lib.Bytes(e), lib.N(ru), lib.Z(lim)),
			JSON: js("api", "brain.Range", "key", k, "end", e, "revision", ru, "limit", lim),
			List: lo,
			Run: func(n *node) bool {
				resp, err := n.bs.Range(ctx, &proto.RangeRequest{Key: k, End: e, Revision: ru, Limit: lim})
				if err == nil && resp != nil {
					*lo = listObs{true, int64(len(resp.Kvs)), resp.More}
				}
				return err != nil
			}}
	case 6:
		return genReq{Kind: "brain.Count", Coq: lib.App("BCount", lib.Bytes(k), lib.Bytes(e)), JSON: js("api", "brain.Count", "key", k, "end", e),
			Run: func(n *node) bool {
				_, err := n.bs.Count(ctx, &proto.CountRequest{Key: k, End: e})
				return err != nil
			}}
	case 7:
		return genReq{Kind: "brain.ListPartition", Coq: lib.App("BListPartition", lib.Bytes(k), lib.Bytes(e)), JSON: js("api", "brain.ListPartition", "key", k, "end", e),
			Run: func(n *node) bool {
				_, err := n.bs.ListPartition(ctx, &proto.ListPartitionRequest{Key: k, End: e})
				return err != nil
			}}
	case 8:
		fail := r.Intn(3)
		return genReq{Kind: "brain.RangeStream", Coq: lib.App("BRangeStream", lib.Bytes(k), lib.Bytes(e), lib.N(ru)),
			JSON: js("api", "brain.RangeStream", "key", k, "end", e, "revision", ru, "send_fails_at", fail),
			Run: func(n *node) bool {
				c, cancel := context.WithTimeout(ctx, 3*time.Second)
				defer cancel()
				return n.bs.RangeStream(&proto.RangeRequest{Key: k, End: e, Revision: ru}, &brainRangeStream{fakeStream: fakeStream{c}, failAt: fail}) != nil
			}}
	case 9:
		fail := r.Intn(3)
		return genReq{Kind: "brain.Watch", Coq: lib.App("BWatch", lib.Bytes(k), lib.N(ru)), JSON: js("api", "brain.Watch", "key", k, "revision", ru, "send_fails_at", fail),
			Run: func(n *node) bool {
				c, cancel := context.WithCancel(ctx)
				go func() { time.Sleep(15 * time.Millisecond); cancel() }()
				err := n.bs.Watch(&proto.WatchRequest{Key: k, End: e, Revision: ru}, &brainWatchStream{fakeStream: fakeStream{c}, failAt: fail})
				time.Sleep(5 * time.Millisecond) // the watch's closing emission runs in its own goroutine
				return err != nil
			}}
	case 10:
		co := r.Chance(1, 4)
		return genReq{Kind: "etcd.Range", Coq: lib.App("ERange", lib.Bytes(k), lib.Bytes(e), lib.Z(ri), lib.Z(lim), lib.Bool(co)),
			JSON: js("api", "etcd.Range", "key", k, "range_end", e, "revision", ri, "limit", lim, "count_only", co),
			List: lo,
			Run: func(n *node) bool {
				resp, err := n.es.Range(ctx, &etcdserverpb.RangeRequest{Key: k, RangeEnd: e, Revision: ri, Limit: lim, CountOnly: co})
				if err == nil && resp != nil && len(e) > 0 && ri != etcd.GetPartitionMagic && !co {
					*lo = listObs{true, int64(len(resp.Kvs)), resp.More}
				}
				return err != nil
			}}
	case 11, 12:
		t := genTxn(r, cur)
		return genReq{Kind: "etcd.Txn", Coq: coqTxn(t), JSON: js("api", "etcd.Txn", "txn", t.String()),
			Run: func(n *node) bool {
				_, err := n.es.Txn(ctx, t)
				return err != nil
			}}
	default:
		fail := r.Intn(4)
		cancelID := int64(r.Intn(5))
		return genReq{Kind: "etcd.Watch", Coq: lib.App("EWatch", lib.Bytes(k), lib.Z(ri)),
			JSON: js("api", "etcd.Watch", "key", k, "range_end", e, "start_revision", ri, "send_fails_at", fail),
			Run: func(n *node) bool {
				c, cancel := context.WithCancel(ctx)
				defer cancel()
				ws := &etcdWatchStream{fakeStream: fakeStream{c}, in: make(chan *etcdserverpb.WatchRequest, 4), failAt: fail}
				ws.in <- &etcdserverpb.WatchRequest{RequestUnion: &etcdserverpb.WatchRequest_CreateRequest{CreateRequest: &etcdserverpb.WatchCreateRequest{Key: k, RangeEnd: e, StartRevision: ri}}}
				ws.in <- &etcdserverpb.WatchRequest{RequestUnion: &etcdserverpb.WatchRequest_CancelRequest{CancelRequest: &etcdserverpb.WatchCancelRequest{WatchId: cancelID}}}
				ws.in <- &etcdserverpb.WatchRequest{} // unsupported
				go func() { time.Sleep(15 * time.Millisecond); close(ws.in) }()
				err := n.es.Watch(ws)
				time.Sleep(5 * time.Millisecond)
				return err != nil
			}}
	}
}

// fixed corpus: witnesses of the defects fixed in 83355f7 and 17d91b5, and of the explicit panic sources
func corpus(cur uint64) []genReq {
	ctx := context.Background()
	var out []genReq
	// 83355f7: etcd update with a negative mod-revision (cast to a huge unsigned expected revision)
	for _, rev := range []int64{-5, math.MinInt64, int64(cur) + 1<<40} {
		rev := rev
		k := []byte("/registry/a")
		t := &etcdserverpb.TxnRequest{Compare: []*etcdserverpb.Compare{cmpMod(k, rev)},
			Success: []*etcdserverpb.RequestOp{opPut(k, []byte("v"), 0, false, false, false)}, Failure: []*etcdserverpb.RequestOp{opRange(k)}}
		out = append(out, genReq{Kind: "corpus.etcd.Txn.update.rev", Coq: coqTxn(t), JSON: js("api", "etcd.Txn", "txn", t.String(), "corpus", "83355f7"),
			Run: func(n *node) bool { _, err := n.es.Txn(ctx, t); return err != nil }})
		d := &etcdserverpb.TxnRequest{Compare: []*etcdserverpb.Compare{cmpMod(k, rev)},
			Success: []*etcdserverpb.RequestOp{opDel(k)}, Failure: []*etcdserverpb.RequestOp{opRange(k)}}
		out = append(out, genReq{Kind: "corpus.etcd.Txn.delete.rev", Coq: coqTxn(d), JSON: js("api", "etcd.Txn", "txn", d.String(), "corpus", "83355f7"),
			Run: func(n *node) bool { _, err := n.es.Txn(ctx, d); return err != nil }})
		ru := uint64(rev)
		out = append(out, genReq{Kind: "corpus.brain.Update.rev", Coq: lib.App("BUpdate", "true", lib.Bytes(k), lib.Str("v"), lib.N(ru)),
			JSON: js("api", "brain.Update", "key", k, "revision", ru, "corpus", "83355f7"),
			Run: func(n *node) bool {
				_, err := n.bs.Update(ctx, &proto.UpdateRequest{Kv: &proto.KeyValue{Key: k, Value: []byte("v"), Revision: ru}})
				return err != nil
			}})
	}
	// 17d91b5: a watch whose prefix is not valid UTF-8 (the prefix is a metric label when the watch ends)
	for _, k := range [][]byte{[]byte("/\xff"), []byte("/registry/\xc3\x28"), {0xff}} {
		k := k
		out = append(out, genReq{Kind: "corpus.brain.Watch.nonutf8", Coq: lib.App("BWatch", lib.Bytes(k), "0"), JSON: js("api", "brain.Watch", "key", k, "corpus", "17d91b5"),
			Run: func(n *node) bool {
				c, cancel := context.WithCancel(ctx)
				go func() { time.Sleep(15 * time.Millisecond); cancel() }()
				err := n.bs.Watch(&proto.WatchRequest{Key: k}, &brainWatchStream{fakeStream: fakeStream{c}})
				time.Sleep(30 * time.Millisecond) // the label is emitted by a goroutine after the hub closed the channel
				return err != nil
			}})
		out = append(out, genReq{Kind: "corpus.etcd.Watch.nonutf8", Coq: lib.App("EWatch", lib.Bytes(k), "0%Z"), JSON: js("api", "etcd.Watch", "key", k, "corpus", "17d91b5"),
			Run: func(n *node) bool {
				c, cancel := context.WithCancel(ctx)
				defer cancel()
				ws := &etcdWatchStream{fakeStream: fakeStream{c}, in: make(chan *etcdserverpb.WatchRequest, 4)}
				ws.in <- &etcdserverpb.WatchRequest{RequestUnion: &etcdserverpb.WatchRequest_CreateRequest{CreateRequest: &etcdserverpb.WatchCreateRequest{Key: k}}}
				go func() { time.Sleep(15 * time.Millisecond); close(ws.in) }()
				err := n.es.Watch(ws)
				time.Sleep(30 * time.Millisecond)
				return err != nil
			}})
	}
	// seed C20-3: watch prefixes that are valid UTF-8, longer than 128 / 256 bytes, with a rune straddling the
	// offset at every alignment; the watch is ended so that the prefix-labelled counter is emitted
	for _, rs := range multiByteRunes {
		for _, cut := range []int{128, 256} {
			for lead := 1; lead < len(rs); lead++ {
				k := longKey("/registry/configmaps/", rs, cut, lead, cut+40)
				out = append(out, genReq{Kind: "corpus.brain.Watch.longutf8", Coq: lib.App("BWatch", lib.Bytes(k), "0"),
					JSON: js("api", "brain.Watch", "key", k, "key_bytes", len(k), "rune_straddles_offset", cut, "corpus", "seed C20-3"),
					Run: func(n *node) bool {
						c, cancel := context.WithCancel(ctx)
						go func() { time.Sleep(15 * time.Millisecond); cancel() }()
						err := n.bs.Watch(&proto.WatchRequest{Key: k}, &brainWatchStream{fakeStream: fakeStream{c}})
						time.Sleep(30 * time.Millisecond)
						return err != nil
					}})
				out = append(out, genReq{Kind: "corpus.etcd.Watch.longutf8", Coq: lib.App("EWatch", lib.Bytes(k), "0%Z"),
					JSON: js("api", "etcd.Watch", "key", k, "key_bytes", len(k), "rune_straddles_offset", cut, "corpus", "seed C20-3"),
					Run: func(n *node) bool {
						c, cancel := context.WithCancel(ctx)
						defer cancel()
						ws := &etcdWatchStream{fakeStream: fakeStream{c}, in: make(chan *etcdserverpb.WatchRequest, 4)}
						ws.in <- &etcdserverpb.WatchRequest{RequestUnion: &etcdserverpb.WatchRequest_CreateRequest{CreateRequest: &etcdserverpb.WatchCreateRequest{Key: k}}}
						go func() { time.Sleep(15 * time.Millisecond); close(ws.in) }()
						err := n.es.Watch(ws)
						time.Sleep(30 * time.Millisecond)
						return err != nil
					}})
			}
		}
	}
	// limits that must never be used as an allocation size: MaxInt64-1 and 1<<62 (makeslice: cap out of range
	// if they were), 1<<33 / 1<<40 (giga- to terabytes if they were); MaxInt64 itself overflows to "unlimited"
	for _, lim := range []int64{math.MaxInt64 - 1, 1 << 62, 1 << 40, 1 << 33, math.MaxInt64, math.MinInt64} {
		lim := lim
		k, e := []byte("/registry/"), []byte("/registry0")
		lo1, lo2 := &listObs{}, &listObs{}
		out = append(out, genReq{Kind: "corpus.etcd.Range.limit", Coq: lib.App("ERange", lib.Bytes(k), lib.Bytes(e), "0%Z", lib.Z(lim), "false"),
			JSON: js("api", "etcd.Range", "key", k, "range_end", e, "revision", 0, "limit", lim, "corpus", "seed C20-2"), List: lo1,
			Run: func(n *node) bool {
				resp, err := n.es.Range(ctx, &etcdserverpb.RangeRequest{Key: k, RangeEnd: e, Limit: lim})
				if err == nil && resp != nil {
					*lo1 = listObs{true, int64(len(resp.Kvs)), resp.More}
				}
				return err != nil
			}})
		out = append(out, genReq{Kind: "corpus.brain.Range.limit", Coq: lib.App("BRange", lib.Bytes(k), lib.Bytes(e), "0", lib.Z(lim)),
			JSON: js("api", "brain.Range", "key", k, "end", e, "revision", 0, "limit", lim, "corpus", "seed C20-2"), List: lo2,
			Run: func(n *node) bool {
				resp, err := n.bs.Range(ctx, &proto.RangeRequest{Key: k, End: e, Limit: lim})
				if err == nil && resp != nil {
					*lo2 = listObs{true, int64(len(resp.Kvs)), resp.More}
				}
				return err != nil
			}})
	}
	// nil Kv
	out = append(out, genReq{Kind: "corpus.brain.Update.nilkv", Coq: lib.App("BUpdate", "false", "[]", "[]", "0"), JSON: js("api", "brain.Update", "kv_present", false),
		Run: func(n *node) bool { _, err := n.bs.Update(ctx, &proto.UpdateRequest{}); return err != nil }})
	return out
}

// second part of the fixed corpus: requests that refer to the node's current revision, built one at a time.
// By now the event ring (16 / 40 slots) has wrapped several times.
func corpusDynamic() []func(cur uint64) genReq {
	ctx := context.Background()
	var out []func(cur uint64) genReq
	brainWatchFrom := func(k []byte, back uint64, tag string) func(cur uint64) genReq {
		return func(cur uint64) genReq {
			rev := cur - back
			return genReq{Kind: "corpus.brain.Watch.recent", Coq: lib.App("BWatch", lib.Bytes(k), lib.N(rev)),
				JSON: js("api", "brain.Watch", "key", k, "revision", rev, "revisions_behind_current", back, "corpus", tag),
				Run: func(n *node) bool {
					c, cancel := context.WithCancel(ctx)
					go func() { time.Sleep(15 * time.Millisecond); cancel() }()
					err := n.bs.Watch(&proto.WatchRequest{Key: k, Revision: rev}, &brainWatchStream{fakeStream: fakeStream{c}})
					time.Sleep(5 * time.Millisecond)
					return err != nil
				}}
		}
	}
	etcdWatchFrom := func(k, end []byte, mkRev func(cur uint64) int64, kind, tag string) func(cur uint64) genReq {
		return func(cur uint64) genReq {
			rev := mkRev(cur)
			return genReq{Kind: kind, Coq: lib.App("EWatch", lib.Bytes(k), lib.Z(rev)),
				JSON: js("api", "etcd.Watch", "key", k, "range_end", end, "start_revision", rev, "current_revision", cur, "corpus", tag),
				Run: func(n *node) bool {
					c, cancel := context.WithCancel(ctx)
					defer cancel()
					ws := &etcdWatchStream{fakeStream: fakeStream{c}, in: make(chan *etcdserverpb.WatchRequest, 4)}
					ws.in <- &etcdserverpb.WatchRequest{RequestUnion: &etcdserverpb.WatchRequest_CreateRequest{CreateRequest: &etcdserverpb.WatchCreateRequest{Key: k, RangeEnd: end, StartRevision: rev}}}
					go func() { time.Sleep(25 * time.Millisecond); close(ws.in) }()
					err := n.es.Watch(ws)
					time.Sleep(10 * time.Millisecond) // the watch / range-stream goroutines end on their own
					return err != nil
				}}
		}
	}
	// seed C20-6: watches that start at one of the newest cached revisions of a full, wrapped ring; consecutive
	// requests see the ring's cursor at consecutive positions (each is followed by the probe's create)
	for _, back := range []uint64{0, 1, 2, 3, 4, 5, 7, 9, 12, 15} {
		back := back
		out = append(out, brainWatchFrom([]byte("/registry/"), back, "seed C20-6"))
		out = append(out, etcdWatchFrom([]byte("/registry/"), nil, func(cur uint64) int64 { return int64(cur - back) }, "corpus.etcd.Watch.recent", "seed C20-6"))
	}
	// seed C20-5: a range stream (watch create with a negative start revision) at a revision below the compact
	// revision: the scan fails and the stream must end with an error response, not with the process
	out = append(out, func(cur uint64) genReq {
		return genReq{Kind: "corpus.brain.Compact.current", Coq: lib.App("BCompact", lib.N(cur)), JSON: js("api", "brain.Compact", "revision", cur, "corpus", "seed C20-5"),
			Run: func(n *node) bool {
				_, err := n.bs.Compact(ctx, &proto.CompactRequest{Revision: cur})
				return err != nil
			}}
	})
	for _, mk := range []func(cur uint64) int64{
		func(cur uint64) int64 { return -1 },
		func(cur uint64) int64 { return -2 },
		func(cur uint64) int64 { return -int64(cur - 30) },
		func(cur uint64) int64 { return -int64(cur) },
	} {
		out = append(out, etcdWatchFrom([]byte("/registry/"), []byte("/registry0"), mk, "corpus.etcd.Watch.rangestream", "seed C20-5"))
	}
	// seed C20-8: a watch whose client stops reading while the node keeps committing writes to its prefix.
	// After resultChanLength (100) + watchBuffer (10000) undelivered batches the hub must drop that subscriber
	// and go on: a NEW watch must be accepted and must deliver the next write.
	if os.Getenv("C20_SLOW_WATCH") != "0" {
		out = append(out, func(cur uint64) genReq {
			verdict := new(string)
			var creates int64
			k := []byte("/registry/slow/")
			return genReq{Kind: "corpus.brain.Watch.slowclient", Coq: lib.App("BWatch", lib.Bytes(k), "0"),
				JSON:    js("api", "brain.Watch", "key", k, "scenario", "the client does not read its stream; 10300 creates under the prefix, one event batch each; then a new watch on the prefix and one more create", "corpus", "seed C20-8"),
				Verdict: verdict, ExtraFn: func() int64 { return atomic.LoadInt64(&creates) },
				Run: func(n *node) bool {
					n.rec.end() // a scenario of many calls, not one handler call: its emissions are not attributed to the watch
					c, cancel := context.WithCancel(ctx)
					defer cancel()
					hold := make(chan struct{})
					slow := &recWatchStream{fakeStream: fakeStream{c}, hold: hold}
					slowDone := make(chan error, 1)
					go func() {
						defer func() { _ = recover() }()
						slowDone <- n.bs.Watch(&proto.WatchRequest{Key: k}, slow)
					}()
					time.Sleep(20 * time.Millisecond)
					create := func(key string) uint64 {
						atomic.AddInt64(&creates, 1)
						cr, err := n.bs.Create(ctx, &proto.CreateRequest{Key: []byte(key), Value: []byte("v")})
						if err != nil || cr == nil || cr.Header == nil {
							return 0
						}
						// one event batch per write: wait until it has been sequenced
						for t0 := time.Now(); n.b.GetCurrentRevision() < cr.Header.Revision && time.Since(t0) < 2*time.Second; {
							time.Sleep(20 * time.Microsecond)
						}
						return cr.Header.Revision
					}
					for i := 0; i < 10300; i++ {
						if create(fmt.Sprintf("/registry/slow/k%05d", i)) == 0 {
							*verdict = fmt.Sprintf("create %d under /registry/slow/ failed while a slow watch was open", i)
							break
						}
					}
					// a new watch must be answered and must see the next write
					c2, cancel2 := context.WithCancel(ctx)
					fresh := &recWatchStream{fakeStream: fakeStream{c2}}
					freshDone := make(chan struct{})
					go func() {
						defer close(freshDone)
						defer func() { _ = recover() }()
						_ = n.bs.Watch(&proto.WatchRequest{Key: k}, fresh)
					}()
					time.Sleep(30 * time.Millisecond)
					rev := create("/registry/slow/after")
					if *verdict == "" && (rev == 0 || !lib.WaitUntil(3*time.Second, func() bool { return atomic.LoadUint64(&fresh.maxRev) >= rev })) {
						*verdict = fmt.Sprintf("WEDGED: after a client stopped reading its watch for 10300 writes, a new watch on %s did not receive the next write (revision %d) within 3s: the watcher hub no longer delivers", k, rev)
					}
					cancel2()
					select {
					case <-freshDone:
					case <-time.After(3 * time.Second):
						if *verdict == "" {
							*verdict = "WEDGED: the new watch's handler does not return after its context was cancelled (blocked in the watcher hub)"
						}
					}
					close(hold)
					cancel()
					select {
					case err := <-slowDone:
						return err != nil
					case <-time.After(3 * time.Second):
						if *verdict == "" {
							*verdict = "WEDGED: the slow watch's handler does not return after its client resumed and cancelled"
						}
						return true
					}
				}}
		})
	}
	return out
}

type logLine struct {
	I        int                    `json:"i"`
	Phase    string                 `json:"phase"` // start | done
	Kind     string                 `json:"kind,omitempty"`
	Coq      string                 `json:"coq,omitempty"`
	Req      map[string]interface{} `json:"req,omitempty"`
	Outcome  string                 `json:"outcome,omitempty"`
	Alloc    int64                  `json:"alloc"`
	Health   bool                   `json:"health"`
	Progress bool                   `json:"progress"`
	Note     string                 `json:"note,omitempty"`
	List     *listObs               `json:"list,omitempty"`
	Ems      string                 `json:"ems,omitempty"` // Coq list of the handler-level emissions of the call's goroutine
	EmsN     int                    `json:"ems_n,omitempty"`
	// phase "cancel": one pure watch on an etcd stream, ended by a client cancel request (or not)
	ClientCancel bool `json:"client_cancel,omitempty"`
	Canceled     int  `json:"canceled,omitempty"`
}

func childReq(engine string, seed uint64, count int, logPath, scratch string) {
	// an address-space ceiling: a request that makes the node ask for a giant buffer fails at once
	// (fatal out-of-memory = process exit, an observation) instead of loading the machine
	_ = syscall.Setrlimit(syscall.RLIMIT_AS, &syscall.Rlimit{Cur: 24 << 30, Max: 24 << 30})
	backend.VerifYieldHook = func(p string) {
		if p == "seq.idle" {
			time.Sleep(50 * time.Microsecond)
		}
	}
	lf, err := os.Create(logPath)
	if err != nil {
		panic(err)
	}
	wr := func(l logLine) {
		b, _ := json.Marshal(l)
		lf.Write(append(b, '\n'))
	}
	n, err := newNode(engine, scratch)
	if err != nil {
		wr(logLine{I: -1, Phase: "done", Outcome: "setup-failed", Note: err.Error()})
		os.Exit(3)
	}
	ctx := context.Background()
	probeNo := 0
	// returns the probe's revision, health and progress
	// a long-lived native watch on the probe keys: every probe's create must reach it (watch liveness)
	var sentinel *recWatchStream
	var sentinelDone chan struct{}
	sentinelStarts := 0
	startSentinel := func() {
		sentinelStarts++
		sentinel = &recWatchStream{fakeStream: fakeStream{ctx}}
		sentinelDone = make(chan struct{})
		st, dn := sentinel, sentinelDone
		go func() {
			defer close(dn)
			defer func() { _ = recover() }()
			_ = n.bs.Watch(&proto.WatchRequest{Key: []byte("/registry/probe/")}, st)
		}()
		time.Sleep(20 * time.Millisecond)
	}
	startSentinel()
	watchNote := ""
	probe := func() (uint64, bool, bool) {
		select {
		case <-sentinelDone: // the hub closed it (or the handler failed): a new one must be accepted
			startSentinel()
		default:
		}
		probeNo++
		key := []byte(fmt.Sprintf("/registry/probe/%06d", probeNo))
		val := []byte(fmt.Sprintf("v%d", probeNo))
		type res struct {
			rev      uint64
			ok, prog bool
		}
		ch := make(chan res, 1)
		go func() {
			defer func() {
				if r := recover(); r != nil {
					ch <- res{}
				}
			}()
			cr, err := n.bs.Create(ctx, &proto.CreateRequest{Key: key, Value: val})
			if err != nil || cr == nil || !cr.Succeeded || cr.Header == nil || cr.Header.Revision == 0 {
				ch <- res{}
				return
			}
			rev := cr.Header.Revision
			prog := lib.WaitUntil(3*time.Second, func() bool { return n.b.GetCurrentRevision() >= rev })
			gr, err := n.bs.Get(ctx, &proto.GetRequest{Key: key})
			ok := err == nil && gr != nil && gr.Kv != nil && string(gr.Kv.Value) == string(val) && gr.Kv.Revision == rev
			er, err := n.es.Range(ctx, &etcdserverpb.RangeRequest{Key: key})
			ok = ok && err == nil && er != nil && len(er.Kvs) == 1 && string(er.Kvs[0].Value) == string(val)
			// watch liveness: the sentinel watch receives this create
			st := sentinel
			if !lib.WaitUntil(3*time.Second, func() bool { return atomic.LoadUint64(&st.maxRev) >= rev }) {
				watchNote = fmt.Sprintf("watch liveness: the open watch on /registry/probe/ did not receive the create at revision %d within 3s (last event it saw: %d, watch restarted %d times)", rev, atomic.LoadUint64(&st.maxRev), sentinelStarts-1)
				ok = false
			}
			ch <- res{rev, ok, prog}
		}()
		select {
		case r := <-ch:
			return r.rev, r.ok, r.prog
		case <-time.After(8 * time.Second):
			return 0, false, false
		}
	}
	last, ok0, prog0 := probe()
	if !ok0 || !prog0 {
		wr(logLine{I: -1, Phase: "done", Outcome: "setup-failed", Note: "initial probe failed"})
		os.Exit(3)
	}
	// how many Canceled responses (CompactRevision 0) one pure watch gets: with and without a client cancel request
	for _, clientCancel := range []bool{true, false, true} {
		c, cancel := context.WithCancel(ctx)
		ws := &etcdWatchStream{fakeStream: fakeStream{c}, in: make(chan *etcdserverpb.WatchRequest, 4)}
		done := make(chan struct{})
		go func() {
			defer func() { _ = recover() }()
			_ = n.es.Watch(ws)
			close(done)
		}()
		ws.in <- &etcdserverpb.WatchRequest{RequestUnion: &etcdserverpb.WatchRequest_CreateRequest{CreateRequest: &etcdserverpb.WatchCreateRequest{Key: []byte("/registry/")}}}
		var id int64
		okID := lib.WaitUntil(3*time.Second, func() bool { var ok bool; id, ok = ws.createdID(); return ok })
		time.Sleep(10 * time.Millisecond)
		if okID && clientCancel {
			ws.in <- &etcdserverpb.WatchRequest{RequestUnion: &etcdserverpb.WatchRequest_CancelRequest{CancelRequest: &etcdserverpb.WatchCancelRequest{WatchId: id}}}
			time.Sleep(30 * time.Millisecond)
		}
		close(ws.in)
		select {
		case <-done:
		case <-time.After(5 * time.Second):
		}
		cancel()
		if okID {
			wr(logLine{I: -2, Phase: "cancel", ClientCancel: clientCancel, Canceled: ws.canceledFor(id)})
		}
	}
	// a cancel request for an id that was never created, and a second cancel request for a watch that has been
	// cancelled already: no response to either, and the stream stays usable (a later create is answered)
	{
		c, cancel := context.WithCancel(ctx)
		ws := &etcdWatchStream{fakeStream: fakeStream{c}, in: make(chan *etcdserverpb.WatchRequest, 8)}
		done := make(chan struct{})
		go func() {
			defer func() { _ = recover() }()
			_ = n.es.Watch(ws)
			close(done)
		}()
		mkCancel := func(id int64) *etcdserverpb.WatchRequest {
			return &etcdserverpb.WatchRequest{RequestUnion: &etcdserverpb.WatchRequest_CancelRequest{CancelRequest: &etcdserverpb.WatchCancelRequest{WatchId: id}}}
		}
		mkCreate := func() *etcdserverpb.WatchRequest {
			return &etcdserverpb.WatchRequest{RequestUnion: &etcdserverpb.WatchRequest_CreateRequest{CreateRequest: &etcdserverpb.WatchCreateRequest{Key: []byte("/registry/")}}}
		}
		const unknownID = 987654321
		ws.in <- mkCancel(unknownID)
		ws.in <- mkCreate()
		var id int64
		okID := lib.WaitUntil(3*time.Second, func() bool { var ok bool; id, ok = ws.createdID(); return ok })
		extra := 0
		usable := false
		if okID {
			ws.in <- mkCancel(id)
			lib.WaitUntil(2*time.Second, func() bool { return ws.canceledFor(id) >= 1 })
			ws.in <- mkCancel(id) // already cancelled
			time.Sleep(40 * time.Millisecond)
			if n := ws.canceledFor(id); n > 1 {
				extra = n - 1
			}
			ws.in <- mkCreate()
			usable = lib.WaitUntil(3*time.Second, func() bool { ws.mu.Lock(); defer ws.mu.Unlock(); return len(ws.created) >= 2 })
		}
		responses := ws.canceledFor(unknownID) + extra
		close(ws.in)
		select {
		case <-done:
		case <-time.After(5 * time.Second):
		}
		cancel()
		wr(logLine{I: -3, Phase: "cancel-unknown", Canceled: responses, ClientCancel: usable})
	}
	if p2, ok2, prog2 := probe(); ok2 && prog2 {
		last = p2
	}
	r := lib.NewRand(seed)
	reqs := corpus(last)
	i := 0
	runOne := func(g genReq) {
		wr(logLine{I: i, Phase: "start", Kind: g.Kind, Coq: g.Coq, Req: g.JSON})
		done := make(chan string, 1)
		emsCoq, emsN := "[]", 0
		go func() {
			defer func() {
				if rec := recover(); rec != nil {
					done <- "OPanic:" + fmt.Sprint(rec)
				}
			}()
			n.rec.begin()
			isErr := g.Run(n)
			var hl []string
			for _, e := range n.rec.end() {
				if handlerLevel(e) {
					hl = append(hl, coqEmission(e))
				}
			}
			emsCoq, emsN = lib.List(hl), len(hl)
			if isErr {
				done <- "OErr"
			} else {
				done <- "OResp"
			}
		}()
		outcome, note := "", ""
		select {
		case o := <-done:
			outcome = o
			if strings.HasPrefix(o, "OPanic:") {
				outcome, note = "OPanic", o[7:]
			}
		case <-time.After(40 * time.Second):
			outcome = "OWedge"
			note = "handler did not return within 40s"
		}
		if g.Verdict != nil && *g.Verdict != "" && (outcome == "OResp" || outcome == "OErr") {
			outcome, note = "OWedge", *g.Verdict
		}
		if g.ExtraFn != nil {
			g.Extra = g.ExtraFn()
		}
		watchNote = ""
		rev, health, prog := probe()
		if watchNote != "" {
			if note != "" {
				note += "; "
			}
			note += watchNote
		}
		alloc := int64(rev) - int64(last) - 1 - g.Extra
		if rev == 0 {
			alloc = 0
		} else {
			last = rev
		}
		dl := logLine{I: i, Phase: "done", Outcome: outcome, Alloc: alloc, Health: health, Progress: prog, Note: note}
		if outcome == "OResp" || outcome == "OErr" {
			dl.Ems, dl.EmsN = emsCoq, emsN
		}
		if g.List != nil && g.List.Set && outcome == "OResp" {
			dl.List = g.List
		}
		wr(dl)
		i++
		if outcome == "OWedge" || !prog {
			os.Exit(4) // the node is no longer usable: stop here, the parent reports it
		}
	}
	for _, g := range reqs {
		runOne(g)
	}
	for _, mk := range corpusDynamic() {
		runOne(mk(n.b.GetCurrentRevision()))
	}
	for i < count {
		runOne(genRequest(r, n.b.GetCurrentRevision()))
	}
	lf.Close()
	os.Exit(0)
}

// ---------- child: a follower that forwards watches through its etcd proxy ----------

// Two nodes on one storage engine, as two KubeBrain processes on one TiKV: L wins the election and serves
// the etcd API on a loopback gRPC listener (its identity is that address), F stays follower with
// --enable-etcd-proxy. The client talks to F only: WatchCreateRequest, then WatchCancelRequest for the
// watch id it was given, again and again. F forwards the watch to L with the etcd client library; L answers
// a cancelled watch with two Canceled responses, and the second one can make the library panic inside F.
func childProxy(maxIter int, budget time.Duration, logPath, scratch string) {
	backend.VerifYieldHook = func(p string) {
		if p == "seq.idle" {
			time.Sleep(200 * time.Microsecond)
		}
	}
	lf, _ := os.Create(logPath)
	note := func(format string, a ...interface{}) { fmt.Fprintf(lf, format+"\n", a...) }
	lis, err := net.Listen("tcp", "127.0.0.1:0")
	if err != nil {
		note("SETUP-FAILED no loopback listener: %v", err)
		os.Exit(3)
	}
	kv, _, err := lib.NewEngine(lib.EngMem, scratch)
	if err != nil {
		note("SETUP-FAILED %v", err)
		os.Exit(3)
	}
	m := kbprom.NewMetrics(metrics.Tag("cluster", "verif"))
	mk := func(identity string, proxy bool) (*etcd.RPCServer, service.PeerService) {
		b := backend.NewBackend(kv, backend.Config{Prefix: "/registry", Identity: identity, EnableEtcdCompatibility: true}, m)
		le := leader.NewLeaderElection(b, m, func(context.Context) {}, func() {})
		peers := service.NewPeerService(le, m, b, service.Config{EnableEtcdProxy: proxy})
		es := etcd.New(b, m, peers)
		_ = brain.New(b, m, peers) // starts the campaign
		return es, peers
	}
	esL, peersL := mk(lis.Addr().String(), false)
	if !lib.WaitUntil(10*time.Second, func() bool { return peersL.IsLeader() }) {
		note("SETUP-FAILED L did not become leader")
		os.Exit(3)
	}
	srv := grpc.NewServer()
	esL.Register(srv)
	go func() { _ = srv.Serve(lis) }()
	esF, peersF := mk("127.0.0.1:1", true)
	// F's proxy is connected once a forwarded watch can be created
	ready := lib.WaitUntil(15*time.Second, func() bool {
		c, cancel := context.WithTimeout(context.Background(), 200*time.Millisecond)
		defer cancel()
		_, err := peersF.Watch(c, "/registry/", 0)
		return err == nil
	})
	if !ready || peersF.IsLeader() {
		note("SETUP-FAILED follower proxy not ready (ready=%v, follower leads=%v)", ready, peersF.IsLeader())
		os.Exit(3)
	}
	note("READY leader=%s", lis.Addr().String())
	deadline := time.Now().Add(budget)
	var iters int64
	var wgp sync.WaitGroup
	for g := 0; g < 4; g++ {
		wgp.Add(1)
		go func(g int) {
			defer wgp.Done()
			for it := 0; int(atomic.LoadInt64(&iters)) < maxIter && time.Now().Before(deadline); it++ {
				if os.Getenv("C20_PROXY_DIRECT") == "1" {
					c, cancel := context.WithTimeout(context.Background(), time.Duration(5+(it*7+g*3)%40)*time.Millisecond)
					if ch, err := peersF.Watch(c, "/registry/pods/", 0); err == nil {
						for range ch {
						}
					}
					cancel()
				} else {
					proxyIteration(esF, it+g)
				}
				note("ITER %d", atomic.AddInt64(&iters, 1))
			}
		}(g)
	}
	wgp.Wait()
	note("SURVIVED")
	os.Exit(0)
}

func proxyIteration(esF *etcd.RPCServer, it int) {
	func() {
		defer func() {
			if r := recover(); r != nil {
				fmt.Fprintf(os.Stderr, "FOLLOWER-HANDLER-PANIC %v\n", r)
				os.Exit(5)
			}
		}()
		c, cancel := context.WithTimeout(context.Background(), 300*time.Millisecond)
		defer cancel()
		rng := lib.NewRand(uint64(it) + 99)
		_, _ = esF.Txn(c, genTxn(rng, 1000)) // forwarded to the leader by the proxy
		if it%8 == 0 {
			_, _ = esF.Range(c, &etcdserverpb.RangeRequest{Key: genKey(rng), RangeEnd: genKey(rng), Limit: genLimit(rng), Revision: genRevI(rng, 1000)})
		}
	}()
	{
		c, cancel := context.WithCancel(context.Background())
		ws := &etcdWatchStream{fakeStream: fakeStream{c}, in: make(chan *etcdserverpb.WatchRequest, 4)}
		done := make(chan struct{})
		go func() { _ = esF.Watch(ws); close(done) }()
		ws.in <- &etcdserverpb.WatchRequest{RequestUnion: &etcdserverpb.WatchRequest_CreateRequest{CreateRequest: &etcdserverpb.WatchCreateRequest{Key: []byte("/registry/")}}}
		var id int64
		if lib.WaitUntil(2*time.Second, func() bool { var ok bool; id, ok = ws.createdID(); return ok }) {
			time.Sleep(time.Duration(it%4) * time.Millisecond)
			ws.in <- &etcdserverpb.WatchRequest{RequestUnion: &etcdserverpb.WatchRequest_CancelRequest{CancelRequest: &etcdserverpb.WatchCancelRequest{WatchId: id}}}
		}
		time.Sleep(2 * time.Millisecond)
		close(ws.in)
		select {
		case <-done:
		case <-time.After(3 * time.Second):
		}
		cancel()
	}
}

// ---------- parent ----------

func verifDir() string {
	if d := os.Getenv("VERIF_DIR"); d != "" {
		return d
	}
	if exe, err := os.Executable(); err == nil {
		d := filepath.Dir(filepath.Dir(filepath.Dir(exe)))
		if _, err := os.Stat(filepath.Join(d, "coq")); err == nil {
			return d
		}
	}
	return "/verif"
}

func runEmitChild(dir string, id int, job EmitJob) ([]bool, error) {
	in := filepath.Join(dir, fmt.Sprintf("emit_%d.in.json", id))
	out := filepath.Join(dir, fmt.Sprintf("emit_%d.out.json", id))
	b, _ := json.Marshal(job)
	if err := os.WriteFile(in, b, 0o644); err != nil {
		return nil, err
	}
	exe, _ := os.Executable()
	ctx, cancel := context.WithTimeout(context.Background(), 60*time.Second)
	defer cancel()
	cmd := exec.CommandContext(ctx, exe, "-child", "emit", "-in", in, "-out", out)
	if err := cmd.Run(); err != nil {
		return nil, fmt.Errorf("emit child: %v", err)
	}
	ob, err := os.ReadFile(out)
	if err != nil {
		return nil, err
	}
	var res []bool
	if err := json.Unmarshal(ob, &res); err != nil {
		return nil, err
	}
	_ = os.Remove(in)
	_ = os.Remove(out)
	return res, nil
}

type tableRow struct {
	Site   int      `json:"site"`
	Pos    string   `json:"pos"`
	Func   string   `json:"func"`
	Chain  []string `json:"chain"`
	Kind   string   `json:"kind"`
	Name   *string  `json:"name"`
	Labels []struct {
		Name   string   `json:"name"`
		Class  string   `json:"class"`
		Consts []string `json:"consts"`
	} `json:"labels"`
	Known bool   `json:"labels_known"`
	Sign  string `json:"sign"`
	Dead  bool   `json:"dead"`
	Note  string `json:"note"`
}

func emissionsOfRow(r tableRow) []Emission {
	if r.Name == nil || !r.Known {
		return nil
	}
	// one emission per position of the longest constant list, so every constant is executed once
	n := 1
	for _, l := range r.Labels {
		if len(l.Consts) > n {
			n = len(l.Consts)
		}
		if (l.Class == "VSanitised" || l.Class == "VServer") && n < 6 {
			n = 6
		}
	}
	var out []Emission
	for i := 0; i < n; i++ {
		e := Emission{Kind: r.Kind, Name: []byte(*r.Name), Neg: r.Kind == "Counter" && r.Sign == "AnySign"}
		for _, l := range r.Labels {
			var v []byte
			switch l.Class {
			case "VConst", "VOneOf":
				v = []byte(l.Consts[i%len(l.Consts)])
			case "VFmt":
				v = []byte([]string{"true", "false", "12"}[i%3])
			case "VSanitised":
				// what ToValidUTF8 lets through: long, valid, a rune across byte 128 (and 256 for the second variant)
				v = longKey("/registry/?", multiByteRunes[i%3], []int{128, 256}[i%2], 1, 300)
			case "VServer":
				v = longKey("node-", multiByteRunes[(i+1)%3], 128, 1, 200)
			case "VRaw":
				v = []byte("/\xff") // what a client can send
			default:
				return nil
			}
			e.Labels = append(e.Labels, [2][]byte{[]byte(l.Name), v})
		}
		out = append(out, e)
	}
	return out
}

var seqNames = []string{"a.b", "a_b", "a.c", "x", "go.goroutines", "9bad", "ok:1", "bad-name", "", "a.b.c", "é"}
var seqLabelNames = []string{"m", "n", "cluster", "le", "__r", "1x", "", "m", "n"}
var seqValues = []string{string(longKey("/k/", "键", 128, 1, 180)), string(longKey("/k/", "😀", 128, 2, 140)), string(longKey("", "é", 256, 1, 300)), strings.Repeat("x", 300), "v", "\xff", "é", "\xc3", "", "w", "a\xe2\x82", "\xed\xa0\x80", "\xf4\x90\x80\x80", "\xf0\x9f\x98\x80"}
var seqGlobals = [][][2][]byte{
	nil,
	{{[]byte("cluster"), []byte("c")}},
	{{[]byte("cluster"), []byte("c")}, {[]byte("cluster"), []byte("d")}},
	{{[]byte("g"), []byte("\xff")}},
	{{[]byte("cluster"), []byte("c")}, {[]byte("zone"), []byte("z")}},
}

func genSeq(r *lib.Rand, n int) EmitJob {
	job := EmitJob{Globals: seqGlobals[r.Intn(len(seqGlobals))]}
	if r.Chance(2, 3) {
		job.Globals = seqGlobals[r.Intn(2)]
	}
	names := seqNames
	if r.Chance(1, 2) {
		names = seqNames[:4]
	}
	for i := 0; i < n; i++ {
		e := Emission{Kind: []string{"Counter", "Gauge", "Histogram"}[r.Intn(3)], Name: []byte(names[r.Intn(len(names))])}
		nl := r.Intn(3)
		for j := 0; j < nl; j++ {
			ln := seqLabelNames[r.Intn(len(seqLabelNames))]
			if r.Chance(3, 4) {
				ln = []string{"m", "n"}[r.Intn(2)]
			}
			v := seqValues[r.Intn(len(seqValues))]
			if r.Chance(2, 3) {
				v = "v"
			}
			e.Labels = append(e.Labels, [2][]byte{[]byte(ln), []byte(v)})
		}
		e.Neg = r.Chance(1, 10)
		job.Ems = append(job.Ems, e)
	}
	return job
}

func main() {
	child := flag.String("child", "", "internal: child mode (emit|req)")
	in := flag.String("in", "", "internal")
	out := flag.String("out", "", "internal")
	engine := flag.String("engine", lib.EngMem, "internal")
	count := flag.Int("count", 100, "internal")
	budget := flag.Duration("budget", 10*time.Second, "internal")
	lib.QuietLogs()
	args := lib.ParseArgs()
	switch *child {
	case "emit":
		childEmit(*in, *out)
		return
	case "req":
		childReq(*engine, args.Seed, *count, *out, args.Scratch)
		return
	case "proxy":
		childProxy(*count, *budget, *out, args.Scratch)
		return
	}

	vdir := verifDir()
	header := "From KB Require Import Base.Cases Model.Metrics Model.Handlers Model.C20Cases Gen.MetricsTable.\n" +
		"Definition table_valid := Eval vm_compute in check_program metrics_globals metrics_table.\n" +
		"(* = c20_check_covered metrics_globals metrics_table by Proofs.C20Cases.c20_check_covered_with_eq *)\n" +
		"Definition c20_check_t := c20_check_covered_with table_valid metrics_globals metrics_table.\nDefinition c20_oracle_t := c20_oracle metrics_globals metrics_table."
	w := lib.NewWriter(args, "C20", "c20", header, "c20_case", "c20_check_t", "c20_oracle_t", 400)
	work := filepath.Join(args.Scratch, fmt.Sprintf("c20-%d", os.Getpid()))
	_ = os.MkdirAll(work, 0o755)
	defer os.RemoveAll(work)
	rng := lib.NewRand(args.Seed)

	invalidCases := 0
	emitted := 0
	nSeq, seqLen, nReq := 40, 30, 1000
	switch args.Tier {
	case "thorough":
		nSeq, seqLen, nReq = 300, 40, 8000
	case "search":
		nSeq, seqLen, nReq = 80, 30, 3000
	}

	// ---- (b) table rows against the real wrapper
	var table struct {
		Globals []struct {
			Name string `json:"name"`
		} `json:"globals"`
		GlobalsKnown bool       `json:"globals_known"`
		Rows         []tableRow `json:"rows"`
		WrapperPath  struct {
			Identity bool     `json:"identity"`
			Notes    []string `json:"notes"`
		} `json:"wrapper_path"`
	}
	tb, err := os.ReadFile(filepath.Join(vdir, "build", "gen", "metrics_table.json"))
	if err != nil {
		w.Fail(lib.ImplFailure{CaseID: -1, What: "metric table missing: run the gen step (gen_metrics) first: " + err.Error()})
	} else if err := json.Unmarshal(tb, &table); err != nil {
		w.Fail(lib.ImplFailure{CaseID: -1, What: "metric table unreadable: " + err.Error()})
	} else {
		if !table.WrapperPath.Identity {
			invalidCases++
		}
		pathNote := strings.Join(table.WrapperPath.Notes, "; ")
		w.Add(lib.Case{Kind: "wrapper-path", Coq: lib.App("KPath", lib.Bool(table.WrapperPath.Identity)),
			JSON:     map[string]interface{}{"what": "structural check that Emit*/labelsToMap/extractLabelNames hand label names and values to client_golang unchanged", "identity": table.WrapperPath.Identity, "deviations": pathNote},
			Outcomes: []string{fmt.Sprintf("wrapper-path-identity-%v", table.WrapperPath.Identity)}})
		var globals [][2][]byte
		for _, g := range table.Globals {
			globals = append(globals, [2][]byte{[]byte(g.Name), []byte("verif")})
		}
		job := EmitJob{Globals: globals}
		var sites []string
		type ref struct{ row, first, n int }
		var refs []ref
		for ri, r := range table.Rows {
			if r.Dead {
				continue
			}
			es := emissionsOfRow(r)
			refs = append(refs, ref{ri, len(job.Ems), len(es)})
			for _, e := range es {
				job.Ems = append(job.Ems, e)
				sites = append(sites, lib.N(uint64(r.Site)))
			}
		}
		res, err := runEmitChild(work, 0, job)
		if err != nil {
			w.Fail(lib.ImplFailure{CaseID: -1, What: "executing the table rows against the real wrapper failed: " + err.Error()})
		} else {
			gs := make([]string, len(globals))
			for i, g := range globals {
				gs[i] = coqKV(g)
			}
			es := make([]string, len(job.Ems))
			for i, e := range job.Ems {
				es[i] = coqEmission(e)
			}
			npanic := 0
			var panicking []map[string]interface{}
			for _, rf := range refs {
				for k := 0; k < rf.n; k++ {
					if res[rf.first+k] {
						npanic++
						r := table.Rows[rf.row]
						panicking = append(panicking, map[string]interface{}{"site": r.Site, "pos": r.Pos, "kind": r.Kind, "name": r.Name, "labels": r.Labels})
					}
				}
			}
			w.Add(lib.Case{Kind: "rows", Coq: lib.App("KRows", lib.List(gs), lib.List(sites), lib.List(es), coqOutcomes(res)),
				JSON:     map[string]interface{}{"what": "every executable table row once, one registry", "rows": len(refs), "emissions": len(job.Ems), "panics": npanic, "panicking_rows": panicking},
				Outcomes: []string{fmt.Sprintf("rows-panics-%d", npanic)}})
			for _, rf := range refs {
				r := table.Rows[rf.row]
				emis := "None"
				obs := "Ok"
				oc := "row-ok"
				if rf.n > 0 {
					emis = lib.Some(coqEmission(job.Ems[rf.first]))
					for k := 0; k < rf.n; k++ {
						if res[rf.first+k] {
							obs, oc = "Panic", "row-panic"
							emis = lib.Some(coqEmission(job.Ems[rf.first+k]))
						}
					}
				} else {
					oc = "row-unresolved"
				}
				w.Add(lib.Case{Kind: "row", Coq: lib.App("KRow", lib.N(uint64(r.Site)), emis, obs),
					JSON:    map[string]interface{}{"site": r.Site, "pos": r.Pos, "func": r.Func, "chain": r.Chain, "kind": r.Kind, "name": r.Name, "labels": r.Labels, "sign": r.Sign, "note": r.Note, "observed": obs},
					Trivial: false, Outcomes: []string{oc}})
			}
		}
	}

	// ---- (a) random emission sequences, one fresh process each
	type seqRes struct {
		job EmitJob
		res []bool
		err error
	}
	seqs := make([]seqRes, nSeq)
	for i := range seqs {
		seqs[i].job = genSeq(rng.Fork(), seqLen)
	}
	var wg sync.WaitGroup
	sem := make(chan struct{}, 8)
	for i := range seqs {
		wg.Add(1)
		go func(i int) {
			defer wg.Done()
			sem <- struct{}{}
			defer func() { <-sem }()
			seqs[i].res, seqs[i].err = runEmitChild(work, 100+i, seqs[i].job)
		}(i)
	}
	wg.Wait()
	reg0 := lib.List([]string{lib.Str("go_goroutines"), lib.Str("go_threads")})
	for i, s := range seqs {
		if s.err != nil {
			w.Fail(lib.ImplFailure{CaseID: -1, What: fmt.Sprintf("emission sequence %d: %v", i, s.err)})
			continue
		}
		gs := make([]string, len(s.job.Globals))
		for j, g := range s.job.Globals {
			gs[j] = coqKV(g)
		}
		es := make([]string, len(s.job.Ems))
		np := 0
		for j, e := range s.job.Ems {
			es[j] = coqEmission(e)
			if s.res[j] {
				np++
			}
		}
		ocs := []string{"seq-ok"}
		if np > 0 {
			ocs = append(ocs, "seq-panic")
		}
		if np == len(s.res) {
			ocs = []string{"seq-panic"}
		}
		w.Add(lib.Case{Kind: "seq", Coq: lib.App("KSeq", reg0, lib.List(gs), lib.List(es), coqOutcomes(s.res)),
			JSON: map[string]interface{}{"globals": len(s.job.Globals), "emissions": len(s.job.Ems), "panics": np}, Trivial: np == 0 || np == len(s.res), Outcomes: ocs})
	}

	// ---- (c) requests, one child per engine
	exe, _ := os.Executable()
	// the request children (one per engine) run side by side
	type childRun struct {
		runErr   error
		timedOut bool
		stderr   strings.Builder
	}
	engines := []string{lib.EngMem, lib.EngWrapMem}
	runs := make([]*childRun, len(engines))
	var wgc sync.WaitGroup
	for ei, eng := range engines {
		runs[ei] = &childRun{}
		wgc.Add(1)
		go func(ei int, eng string) {
			defer wgc.Done()
			ctx, cancel := context.WithTimeout(context.Background(), time.Duration(150+nReq/5)*time.Second)
			defer cancel()
			slow := "0"
			if eng == lib.EngMem || args.Tier == "thorough" {
				slow = "1" // the slow-client scenario (10300 writes): one engine in the quick tier
			}
			cmd := exec.CommandContext(ctx, exe, "-child", "req", "-engine", eng, "-count", fmt.Sprint(nReq/2), "-out", filepath.Join(work, "req_"+eng+".log"),
				"-seed", fmt.Sprint(args.Seed*7919+uint64(ei)), "-scratch", work)
			cmd.Env = append(os.Environ(), "C20_SLOW_WATCH="+slow)
			cmd.Stderr = &tailWriter{sb: &runs[ei].stderr}
			runs[ei].runErr = cmd.Run()
			runs[ei].timedOut = ctx.Err() != nil
		}(ei, eng)
	}
	wgc.Wait()
	for ei, eng := range engines {
		logPath := filepath.Join(work, "req_"+eng+".log")
		runErr, timedOut := runs[ei].runErr, runs[ei].timedOut
		stderr := &runs[ei].stderr
		lines := readLog(logPath)
		starts := map[int]logLine{}
		var order []int
		dones := map[int]logLine{}
		for _, l := range lines {
			if l.Phase == "cancel" {
				oc := fmt.Sprintf("cancel-responses-%d", l.Canceled)
				w.Add(lib.Case{Kind: "watch-cancel", Coq: lib.App("KCancel", lib.Bool(l.ClientCancel), lib.N(uint64(l.Canceled))),
					JSON: map[string]interface{}{"engine": eng, "api": "etcd.Watch", "sequence": "WatchCreateRequest{key:/registry/} ; " + map[bool]string{true: "WatchCancelRequest{watch_id} ; ", false: ""}[l.ClientCancel] + "end of stream",
						"canceled_responses_with_compact_revision_0": l.Canceled}, Outcomes: []string{oc}})
				continue
			}
			if l.Phase == "cancel-unknown" {
				w.Add(lib.Case{Kind: "watch-cancel-unknown", Coq: lib.App("KCancelUnknown", lib.N(uint64(l.Canceled)), lib.Bool(l.ClientCancel)),
					JSON: map[string]interface{}{"engine": eng, "api": "etcd.Watch", "sequence": "on one stream: WatchCancelRequest{watch_id: 987654321 (never created)} ; WatchCreateRequest{key:/registry/} ; WatchCancelRequest{id} ; WatchCancelRequest{id} again ; WatchCreateRequest{key:/registry/}",
						"canceled_responses_to_the_unknown_and_the_repeated_cancel": l.Canceled, "second_create_answered": l.ClientCancel},
					Outcomes: []string{fmt.Sprintf("cancel-unknown-responses-%d", l.Canceled)}})
				continue
			}
			if l.Phase == "start" {
				starts[l.I] = l
				order = append(order, l.I)
			} else {
				dones[l.I] = l
			}
		}
		if d, ok := dones[-1]; ok {
			w.Fail(lib.ImplFailure{CaseID: -1, What: "request child (" + eng + ") could not set up a leader node: " + d.Note})
			continue
		}
		for _, i := range order {
			s := starts[i]
			d, finished := dones[i]
			if !finished {
				// the process died (or was killed on time-out) while this request was in flight
				oc := "OExit"
				if timedOut {
					oc = "OWedge"
				}
				es := stderr.String()
				hint := ""
				if strings.Contains(fmt.Sprint(runErr), "exit status 255") {
					hint = " (255 = klog.Fatal*: the node terminated itself)"
				}
				head := es
				if len(head) > 700 {
					head = head[:700] + " [...] " + tail(es, 700)
				}
				d = logLine{Outcome: oc, Note: fmt.Sprintf("child ended: %v%s; stderr: %s", runErr, hint, head)}
			}
			s.Req["engine"] = eng
			s.Req["outcome"] = d.Outcome
			s.Req["alloc"] = d.Alloc
			s.Req["health"] = d.Health
			s.Req["progress"] = d.Progress
			if d.Note != "" {
				s.Req["note"] = d.Note
			}
			if !d.Health || !d.Progress {
				invalidCases++
			}
			ems := "[]"
			if d.Ems != "" {
				ems = d.Ems
				s.Req["handler_emissions"] = d.EmsN
				emitted += d.EmsN
			}
			lst := "None"
			if d.List != nil {
				lst = lib.Some(lib.Pair(lib.Z(d.List.Count), lib.Bool(d.List.More)))
				s.Req["returned"] = d.List.Count
				s.Req["more"] = d.List.More
			}
			if !finished || d.Outcome == "OPanic" || d.Outcome == "OWedge" || !d.Health || !d.Progress {
				// the request log up to here is the replay
				var logTail []map[string]interface{}
				for _, j := range order {
					if j > i {
						break
					}
					if j >= i-5 && j < i {
						cp := map[string]interface{}{}
						for k, v := range starts[j].Req {
							if k != "preceding_requests" {
								cp[k] = v
							}
						}
						logTail = append(logTail, cp)
					}
				}
				s.Req["preceding_requests"] = logTail
			}
			w.Add(lib.Case{Kind: "req:" + strings.TrimPrefix(s.Kind, "corpus."), Coq: lib.App("KReq", s.Coq, d.Outcome, lib.Z(d.Alloc), lib.Bool(d.Health), lib.Bool(d.Progress), lst, ems),
				JSON: s.Req, Trivial: false, Outcomes: []string{eng + ":" + d.Outcome}})
		}
		if len(order) == 0 {
			w.Fail(lib.ImplFailure{CaseID: -1, What: fmt.Sprintf("request child (%s) produced no log: %v %s", eng, runErr, tail(stderr.String(), 800))})
		}
	}

	// ---- (d) a follower that forwards through its etcd proxy: watch create/cancel, Txn, Range
	{
		pb := 3 * time.Second
		switch args.Tier {
		case "thorough":
			pb = 25 * time.Second
		case "search":
			pb = 10 * time.Second
		}
		logPath := filepath.Join(work, "proxy.log")
		ctx, cancel := context.WithTimeout(context.Background(), pb+60*time.Second)
		cmd := exec.CommandContext(ctx, exe, "-child", "proxy", "-count", "10000000", "-budget", pb.String(), "-out", logPath, "-scratch", work)
		var stderr strings.Builder
		cmd.Stderr = &tailWriter{sb: &stderr}
		runErr := cmd.Run()
		cancel()
		lb, _ := os.ReadFile(logPath)
		lg := string(lb)
		iters := strings.Count(lg, "ITER ")
		w.Stats.Extra["follower_proxy_iterations"] = iters
		switch {
		case strings.Contains(lg, "SETUP-FAILED"):
			w.Stats.Extra["follower_proxy"] = "not run: " + tail(lg, 300)
		case strings.Contains(lg, "SURVIVED"):
			w.Stats.Extra["follower_proxy"] = "survived"
		default:
			var noise []string
			for _, l := range strings.Split(stderr.String(), "\n") {
				if !strings.HasPrefix(l, "{") {
					noise = append(noise, l)
				}
			}
			code := 0 // every death of the follower child is a violation (C20-F1, the duplicate cancel response, is fixed)
			w.Fail(lib.ImplFailure{CaseID: -1, Code: code, What: fmt.Sprintf("a follower node with the etcd proxy enabled died after %d rounds of {WatchCreateRequest, WatchCancelRequest, forwarded Txn} from a client (%v)", iters, runErr),
				Case: map[string]interface{}{"sequence": "per round, on a new stream to the follower: WatchCreateRequest{key:/registry/} ; WatchCancelRequest{watch_id: the id just created} ; end of stream; plus one generated Txn and every 8th round a Range", "rounds": iters,
					"stderr_tail": tail(strings.Join(noise, "\n"), 3000)}})
		}
	}

	w.Stats.Extra["invalid_cases"] = invalidCases
	w.Stats.Extra["handler_emissions_checked_against_model"] = emitted
	w.Stats.Extra["invalid_cases_note"] = "cases outside the scope of C20_oracle_sound: requests whose probes failed and a deviating wrapper path (both are oracle failures as well); table cases are valid iff the gen obligation table_ok holds; a case that is neither valid nor rejected by the oracle is a mismatch (c20_check_covered)"
	if err := w.Finish("a case is trivial iff it is an emission sequence in which every emission had the same outcome; table rows and requests always count (each is a distinct call site / request)"); err != nil {
		fmt.Fprintln(os.Stderr, err)
		os.Exit(1)
	}
}

type tailWriter struct {
	sb *strings.Builder
}

func (t *tailWriter) Write(p []byte) (int, error) {
	if t.sb.Len() < 1<<20 {
		t.sb.Write(p)
	}
	return len(p), nil
}

func tail(s string, n int) string {
	if len(s) > n {
		return s[len(s)-n:]
	}
	return s
}

func readLog(path string) []logLine {
	f, err := os.Open(path)
	if err != nil {
		return nil
	}
	defer f.Close()
	var out []logLine
	sc := bufio.NewScanner(f)
	sc.Buffer(make([]byte, 1<<20), 1<<24)
	for sc.Scan() {
		var l logLine
		if json.Unmarshal(sc.Bytes(), &l) == nil {
			out = append(out, l)
		}
	}
	return out
}
