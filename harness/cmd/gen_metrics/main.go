// gen_metrics: translator for C20(a). Lists every Emit{Counter,Gauge,Histogram} call site of the
// program (cmd/... and what it depends on inside the module), resolves kind, metric name, label
// names and label-value classes per call chain, and writes
//
//	$VERIF_DIR/coq/Gen/MetricsTable.v    (the table: always compiles)
//	$VERIF_DIR/coq/Gen/MetricsTableOk.v  (Theorem table_ok : check_program ... = true, by vm_compute)
//	$VERIF_DIR/build/gen/metrics_table.json (the same rows with source positions, for the driver)
//
// Anything it cannot resolve is emitted as unknown (None / VUnknown), which fails the check.
package main

import (
	"encoding/json"
	"fmt"
	"go/ast"
	"go/constant"
	"go/printer"
	"go/token"
	"go/types"
	"os"
	"path/filepath"
	"sort"
	"strings"
	"unicode/utf8"

	"kbverif/srcload"
)

// ---------- value classes ----------

const (
	cConst = iota
	cOneOf
	cFmt
	cSan
	cServer
	cRaw
	cUnknown
)

var className = []string{"VConst", "VOneOf", "VFmt", "VSanitised", "VServer", "VRaw", "VUnknown"}

type sval struct {
	known bool     // a single known constant (class cConst)
	s     string   // the constant
	alts  []string // cOneOf
	class int
	why   string
}

func constS(s string) sval          { return sval{known: true, s: s, class: cConst} }
func classS(c int, why string) sval { return sval{class: c, why: why} }

func (v sval) consts() []string {
	switch v.class {
	case cConst:
		return []string{v.s}
	case cOneOf:
		return v.alts
	}
	return nil
}

func allValid(ss []string) bool {
	for _, s := range ss {
		if !utf8.ValidString(s) {
			return false
		}
	}
	return true
}

// join of two possible values of the same expression on different paths
func joinS(a, b sval) sval {
	if a.class <= cOneOf && b.class <= cOneOf {
		set := map[string]bool{}
		for _, s := range append(a.consts(), b.consts()...) {
			set[s] = true
		}
		var l []string
		for s := range set {
			l = append(l, s)
		}
		sort.Strings(l)
		if len(l) == 1 {
			return constS(l[0])
		}
		return sval{class: cOneOf, alts: l}
	}
	// one side is not a constant: the join is the weaker class, constants must be valid UTF-8 to stay safe
	hi, lo := a, b
	if b.class > a.class {
		hi, lo = b, a
	}
	if lo.class <= cOneOf && hi.class < cRaw && !allValid(lo.consts()) {
		return classS(cRaw, "joined with a constant that is not valid UTF-8")
	}
	return hi
}

// concatenation
func concatS(a, b sval) sval {
	if a.known && b.known {
		return constS(a.s + b.s)
	}
	if a.class <= cOneOf && b.class <= cOneOf {
		var l []string
		for _, x := range a.consts() {
			for _, y := range b.consts() {
				l = append(l, x+y)
			}
		}
		sort.Strings(l)
		return sval{class: cOneOf, alts: l}
	}
	// concatenation of valid UTF-8 strings is valid UTF-8
	hi, lo := a, b
	if b.class > a.class {
		hi, lo = b, a
	}
	if lo.class <= cOneOf && !allValid(lo.consts()) {
		return classS(cRaw, "concatenated with a constant that is not valid UTF-8")
	}
	return classS(hi.class, hi.why)
}

type tval struct {
	nameKnown bool
	name      string
	val       sval
}

// ---------- program index ----------

type fnInfo struct {
	obj  *types.Func
	decl *ast.FuncDecl
	pkg  *srcload.Pkg
}

type callSite struct {
	caller *fnInfo // nil: package-level initialiser
	call   *ast.CallExpr
	pkg    *srcload.Pkg
}

type fieldWrite struct {
	kind string // lit | assign | inc | dec | op
	rhs  ast.Expr
	fn   *fnInfo
	pkg  *srcload.Pkg
}

var (
	prog        *srcload.Program
	fnByObj     = map[*types.Func]*fnInfo{}
	callers     = map[*types.Func][]callSite{}
	valueUse    = map[*types.Func]bool{}
	live        = map[*types.Func]bool{}
	fieldWrites = map[*types.Var][]fieldWrite{}
	litsOfType  = map[*types.Named][]*ast.CompositeLit{}
	pkgVarInit  = map[*types.Var]struct {
		e   ast.Expr
		pkg *srcload.Pkg
	}{}
	pkgVarAssigned = map[*types.Var]bool{}
	ifaces         []*types.Interface
	serverSources  = []string{
		"result of a call to a method named GetLeaderInfo (leader address from the election record)",
		"first result of getLeaderAndVersion (holder identity from the election record)",
		"a field of a struct declared in cmd/option (command-line flags)",
	}
)

func calleeFunc(info *types.Info, call *ast.CallExpr) *types.Func {
	var id *ast.Ident
	switch f := ast.Unparen(call.Fun).(type) {
	case *ast.Ident:
		id = f
	case *ast.SelectorExpr:
		id = f.Sel
	default:
		return nil
	}
	if fn, ok := info.Uses[id].(*types.Func); ok {
		return fn
	}
	return nil
}

func index() {
	// functions
	prog.FuncDecls(func(pkg *srcload.Pkg, fd *ast.FuncDecl) {
		if obj, ok := pkg.Info.Defs[fd.Name].(*types.Func); ok {
			fnByObj[obj] = &fnInfo{obj: obj, decl: fd, pkg: pkg}
		}
	})
	// interfaces seen anywhere in the program (for "may be called through an interface")
	seenI := map[*types.Interface]bool{}
	for _, pkg := range prog.Pkgs {
		for _, tv := range pkg.Info.Types {
			if tv.Type == nil {
				continue
			}
			if it, ok := tv.Type.Underlying().(*types.Interface); ok && !seenI[it] && it.NumMethods() > 0 {
				seenI[it] = true
				ifaces = append(ifaces, it)
			}
		}
	}
	// calls, function values, field writes, composite literals, package variables
	for _, pkg := range prog.Pkgs {
		for _, file := range pkg.Files {
			for _, d := range file.Decls {
				var cur *fnInfo
				if fd, ok := d.(*ast.FuncDecl); ok {
					if obj, ok := pkg.Info.Defs[fd.Name].(*types.Func); ok {
						cur = fnByObj[obj]
					}
				}
				if gd, ok := d.(*ast.GenDecl); ok && gd.Tok == token.VAR {
					for _, sp := range gd.Specs {
						vs := sp.(*ast.ValueSpec)
						for i, n := range vs.Names {
							if v, ok := pkg.Info.Defs[n].(*types.Var); ok && i < len(vs.Values) && len(vs.Values) == len(vs.Names) {
								pkgVarInit[v] = struct {
									e   ast.Expr
									pkg *srcload.Pkg
								}{vs.Values[i], pkg}
							}
						}
					}
				}
				calleeIdents := map[*ast.Ident]bool{}
				ast.Inspect(d, func(n ast.Node) bool {
					switch x := n.(type) {
					case *ast.CallExpr:
						if fn := calleeFunc(pkg.Info, x); fn != nil {
							callers[fn] = append(callers[fn], callSite{caller: cur, call: x, pkg: pkg})
							switch f := ast.Unparen(x.Fun).(type) {
							case *ast.Ident:
								calleeIdents[f] = true
							case *ast.SelectorExpr:
								calleeIdents[f.Sel] = true
							}
						}
					case *ast.Ident:
						if fn, ok := pkg.Info.Uses[x].(*types.Func); ok && !calleeIdents[x] {
							valueUse[fn] = true
						}
					case *ast.CompositeLit:
						t := pkg.Info.Types[x].Type
						if t != nil {
							if p, ok := t.(*types.Pointer); ok {
								t = p.Elem()
							}
							if nt, ok := t.(*types.Named); ok {
								litsOfType[nt] = append(litsOfType[nt], x)
							}
						}
						for _, el := range x.Elts {
							if kv, ok := el.(*ast.KeyValueExpr); ok {
								if id, ok := kv.Key.(*ast.Ident); ok {
									if fv, ok := pkg.Info.Uses[id].(*types.Var); ok && fv.IsField() {
										fieldWrites[fv] = append(fieldWrites[fv], fieldWrite{"lit", kv.Value, cur, pkg})
									}
								}
							}
						}
					case *ast.AssignStmt:
						for i, l := range x.Lhs {
							var rhs ast.Expr
							if len(x.Rhs) == len(x.Lhs) {
								rhs = x.Rhs[i]
							}
							kind := "assign"
							if x.Tok != token.ASSIGN && x.Tok != token.DEFINE {
								kind = "op"
							}
							switch le := ast.Unparen(l).(type) {
							case *ast.SelectorExpr:
								if sel, ok := pkg.Info.Selections[le]; ok {
									if fv, ok := sel.Obj().(*types.Var); ok && fv.IsField() {
										fieldWrites[fv] = append(fieldWrites[fv], fieldWrite{kind, rhs, cur, pkg})
									}
								}
							case *ast.Ident:
								if v, ok := pkg.Info.Uses[le].(*types.Var); ok && v.Parent() == v.Pkg().Scope() {
									pkgVarAssigned[v] = true
								}
							}
						}
					case *ast.IncDecStmt:
						if le, ok := ast.Unparen(x.X).(*ast.SelectorExpr); ok {
							if sel, ok := pkg.Info.Selections[le]; ok {
								if fv, ok := sel.Obj().(*types.Var); ok && fv.IsField() {
									k := "inc"
									if x.Tok == token.DEC {
										k = "dec"
									}
									fieldWrites[fv] = append(fieldWrites[fv], fieldWrite{k, nil, cur, pkg})
								}
							}
						}
					case *ast.UnaryExpr:
						if x.Op == token.AND {
							if id, ok := ast.Unparen(x.X).(*ast.Ident); ok {
								if v, ok := pkg.Info.Uses[id].(*types.Var); ok && v.Pkg() != nil && v.Parent() == v.Pkg().Scope() {
									pkgVarAssigned[v] = true // address taken: may be written elsewhere
								}
							}
						}
					}
					return true
				})
			}
		}
	}
	// liveness: main, init, every method, everything referenced from live code or package initialisers
	refs := map[*types.Func][]*types.Func{}
	var rootRefs []*types.Func
	for _, pkg := range prog.Pkgs {
		for _, file := range pkg.Files {
			for _, d := range file.Decls {
				var cur *types.Func
				if fd, ok := d.(*ast.FuncDecl); ok {
					cur, _ = pkg.Info.Defs[fd.Name].(*types.Func)
				}
				ast.Inspect(d, func(n ast.Node) bool {
					if id, ok := n.(*ast.Ident); ok {
						if fn, ok := pkg.Info.Uses[id].(*types.Func); ok {
							if cur != nil {
								refs[cur] = append(refs[cur], fn)
							} else {
								rootRefs = append(rootRefs, fn)
							}
						}
					}
					return true
				})
			}
		}
	}
	var work []*types.Func
	mark := func(f *types.Func) {
		if f != nil && !live[f] {
			live[f] = true
			work = append(work, f)
		}
	}
	for obj, fi := range fnByObj {
		sig := obj.Type().(*types.Signature)
		if sig.Recv() != nil || obj.Name() == "init" || (obj.Name() == "main" && fi.pkg.Types.Name() == "main") {
			mark(obj)
		}
	}
	for _, f := range rootRefs {
		mark(f)
	}
	for len(work) > 0 {
		f := work[len(work)-1]
		work = work[:len(work)-1]
		for _, g := range refs[f] {
			mark(g)
		}
	}
}

// a method that implements an interface method (or a function whose value is taken) can be called from
// places the static call list does not show
func mayHaveUnknownCallers(f *types.Func) bool {
	if valueUse[f] {
		return true
	}
	sig := f.Type().(*types.Signature)
	if sig.Recv() == nil {
		return false
	}
	rt := sig.Recv().Type()
	for _, it := range ifaces {
		for i := 0; i < it.NumMethods(); i++ {
			m := it.Method(i)
			if m.Name() != f.Name() || (!m.Exported() && m.Pkg() != f.Pkg()) {
				continue
			}
			if types.Implements(rt, it) || types.Implements(types.NewPointer(rt), it) {
				return true
			}
		}
	}
	return false
}

// ---------- evaluation under a world (a choice of call site per function) ----------

type world map[*types.Func]int // index into callers[f]; -1 = caller outside the static call list

type needChoice struct{ f *types.Func }

type ectx struct {
	fn    *fnInfo
	pkg   *srcload.Pkg
	w     world
	depth int
}

func (c ectx) info() *types.Info { return c.pkg.Info }

func isMetricsPkg(p *types.Package) bool {
	return p != nil && strings.HasSuffix(p.Path(), "/pkg/metrics")
}

func isTagType(t types.Type) bool {
	nt, ok := t.(*types.Named)
	return ok && nt.Obj().Name() == "T" && isMetricsPkg(nt.Obj().Pkg())
}

// paramIndex returns the index of v among fn's parameters, or -1
func paramIndex(fn *fnInfo, v *types.Var) int {
	if fn == nil {
		return -1
	}
	sig := fn.obj.Type().(*types.Signature)
	for i := 0; i < sig.Params().Len(); i++ {
		if sig.Params().At(i) == v {
			return i
		}
	}
	return -1
}

// argument(s) bound to parameter i at the call site chosen for c.fn
func (c ectx) boundArgs(i int) (args []ast.Expr, spread bool, caller ectx, external bool) {
	f := c.fn.obj
	idx, ok := c.w[f]
	if !ok {
		panic(needChoice{f})
	}
	if idx < 0 || c.depth > 10 {
		return nil, false, c, true
	}
	cs := callers[f][idx]
	sig := f.Type().(*types.Signature)
	cc := ectx{fn: cs.caller, pkg: cs.pkg, w: c.w, depth: c.depth + 1}
	if sig.Variadic() && i == sig.Params().Len()-1 {
		if cs.call.Ellipsis.IsValid() {
			return []ast.Expr{cs.call.Args[len(cs.call.Args)-1]}, true, cc, false
		}
		if i <= len(cs.call.Args) {
			return cs.call.Args[i:], false, cc, false
		}
		return nil, false, cc, false
	}
	if i >= len(cs.call.Args) {
		return nil, false, c, true
	}
	return []ast.Expr{cs.call.Args[i]}, false, cc, false
}

type localDef struct {
	rhs      ast.Expr // nil: zero value / unsupported
	resIndex int      // >= 0: result index of a multi-value call in rhs
	zero     bool
	nested   bool // inside a branch or loop
	pos      token.Pos
	isAppend bool
}

// definitions of a local variable inside the enclosing function
func localDefs(c ectx, v *types.Var) []localDef {
	var defs []localDef
	if c.fn == nil || c.fn.decl.Body == nil {
		return nil
	}
	info := c.info()
	var walk func(n ast.Node, nested bool)
	walk = func(n ast.Node, nested bool) {
		ast.Inspect(n, func(m ast.Node) bool {
			if m == nil || m == n {
				return true
			}
			switch x := m.(type) {
			case *ast.IfStmt, *ast.ForStmt, *ast.RangeStmt, *ast.SwitchStmt, *ast.TypeSwitchStmt, *ast.SelectStmt, *ast.FuncLit:
				if rs, ok := x.(*ast.RangeStmt); ok {
					for _, e := range []ast.Expr{rs.Key, rs.Value} {
						if id, ok := e.(*ast.Ident); ok && (info.Defs[id] == v || info.Uses[id] == v) {
							defs = append(defs, localDef{resIndex: -1, nested: true, pos: id.Pos()})
						}
					}
				}
				walk(x, true)
				return false
			case *ast.AssignStmt:
				for i, l := range x.Lhs {
					id, ok := l.(*ast.Ident)
					if !ok || !(info.Defs[id] == v || info.Uses[id] == v) {
						continue
					}
					d := localDef{resIndex: -1, nested: nested, pos: id.Pos()}
					if x.Tok != token.ASSIGN && x.Tok != token.DEFINE {
						d.rhs = nil
					} else if len(x.Rhs) == len(x.Lhs) {
						d.rhs = x.Rhs[i]
					} else if len(x.Rhs) == 1 {
						d.rhs = x.Rhs[0]
						d.resIndex = i
					}
					defs = append(defs, d)
				}
			case *ast.ValueSpec:
				for i, id := range x.Names {
					if info.Defs[id] != v {
						continue
					}
					d := localDef{resIndex: -1, nested: nested, pos: id.Pos()}
					if len(x.Values) == len(x.Names) {
						d.rhs = x.Values[i]
					} else if len(x.Values) == 1 {
						d.rhs = x.Values[0]
						d.resIndex = i
					} else {
						d.zero = true
					}
					defs = append(defs, d)
				}
			case *ast.IncDecStmt:
				if id, ok := x.X.(*ast.Ident); ok && info.Uses[id] == v {
					defs = append(defs, localDef{resIndex: -1, nested: nested, pos: id.Pos()})
				}
			}
			return true
		})
	}
	walk(c.fn.decl.Body, false)
	sort.Slice(defs, func(i, j int) bool { return defs[i].pos < defs[j].pos })
	return defs
}

func assignsTo(info *types.Info, s ast.Stmt, v *types.Var) bool {
	if as, ok := s.(*ast.AssignStmt); ok && (as.Tok == token.ASSIGN || as.Tok == token.DEFINE) {
		for _, l := range as.Lhs {
			if id, ok := l.(*ast.Ident); ok && (info.Uses[id] == v || info.Defs[id] == v) {
				return true
			}
		}
	}
	return false
}

// definitely assigned by this statement list (on every path that completes it)
func defAssign(info *types.Info, stmts []ast.Stmt, v *types.Var, before token.Pos) bool {
	for _, s := range stmts {
		if s.Pos() >= before {
			return false
		}
		if assignsTo(info, s, v) {
			return true
		}
		switch x := s.(type) {
		case *ast.BlockStmt:
			if defAssign(info, x.List, v, before) {
				return true
			}
		case *ast.IfStmt:
			if x.End() <= before && ifAssigns(info, x, v) {
				return true
			}
		case *ast.SwitchStmt:
			if x.End() <= before && switchAssigns(info, x.Body, v) {
				return true
			}
		}
		if s.End() > before { // the use is inside this statement
			switch x := s.(type) {
			case *ast.IfStmt:
				// inside one of the branches: look there
				for cur := ast.Stmt(x); cur != nil; {
					is, ok := cur.(*ast.IfStmt)
					if !ok {
						if b, ok := cur.(*ast.BlockStmt); ok && b.Pos() < before && before <= b.End() {
							return defAssign(info, b.List, v, before)
						}
						break
					}
					if is.Body.Pos() < before && before <= is.Body.End() {
						return defAssign(info, is.Body.List, v, before)
					}
					cur = is.Else
				}
			case *ast.BlockStmt:
				return defAssign(info, x.List, v, before)
			}
			return false
		}
	}
	return false
}

func ifAssigns(info *types.Info, x *ast.IfStmt, v *types.Var) bool {
	if !defAssign(info, x.Body.List, v, token.Pos(1<<40)) {
		return false
	}
	switch e := x.Else.(type) {
	case nil:
		return false
	case *ast.BlockStmt:
		return defAssign(info, e.List, v, token.Pos(1<<40))
	case *ast.IfStmt:
		return ifAssigns(info, e, v)
	}
	return false
}

func switchAssigns(info *types.Info, body *ast.BlockStmt, v *types.Var) bool {
	hasDefault := false
	for _, c := range body.List {
		cc := c.(*ast.CaseClause)
		if cc.List == nil {
			hasDefault = true
		}
		if !defAssign(info, cc.Body, v, token.Pos(1<<40)) {
			return false
		}
	}
	return hasDefault
}

func isPkgLevel(v *types.Var) bool {
	return v.Pkg() != nil && v.Parent() == v.Pkg().Scope()
}

func inOptionPkg(t types.Type) bool {
	if p, ok := t.(*types.Pointer); ok {
		t = p.Elem()
	}
	nt, ok := t.(*types.Named)
	return ok && nt.Obj().Pkg() != nil && strings.HasSuffix(nt.Obj().Pkg().Path(), "/cmd/option")
}

func pkgFuncName(info *types.Info, call *ast.CallExpr) (string, string) {
	fn := calleeFunc(info, call)
	if fn == nil || fn.Pkg() == nil {
		return "", ""
	}
	return fn.Pkg().Path(), fn.Name()
}

// evalStr classifies a string- or []byte-valued expression
func (c ectx) evalStr(e ast.Expr) sval {
	info := c.info()
	e = ast.Unparen(e)
	if tv, ok := info.Types[e]; ok && tv.Value != nil && tv.Value.Kind() == constant.String {
		return constS(constant.StringVal(tv.Value))
	}
	switch x := e.(type) {
	case *ast.BinaryExpr:
		if x.Op == token.ADD {
			return concatS(c.evalStr(x.X), c.evalStr(x.Y))
		}
	case *ast.Ident:
		v, ok := info.Uses[x].(*types.Var)
		if !ok {
			v, ok = info.Defs[x].(*types.Var)
		}
		if !ok {
			return classS(cUnknown, "identifier is not a variable")
		}
		if isPkgLevel(v) {
			if in, ok := pkgVarInit[v]; ok && !pkgVarAssigned[v] {
				return ectx{fn: nil, pkg: in.pkg, w: c.w, depth: c.depth + 1}.evalStr(in.e)
			}
			return classS(cRaw, "package variable "+v.Name()+" is assigned at run time")
		}
		if i := paramIndex(c.fn, v); i >= 0 {
			args, _, cc, ext := c.boundArgs(i)
			if ext || len(args) != 1 {
				return classS(cRaw, "parameter "+v.Name()+" of "+c.fn.obj.Name()+" comes from a caller outside the program's static calls (request data)")
			}
			return cc.evalStr(args[0])
		}
		return c.evalLocal(v, func(cc ectx, rhs ast.Expr, res int) sval {
			if res >= 0 {
				return cc.evalCallResult(rhs, res)
			}
			return cc.evalStr(rhs)
		})
	case *ast.CallExpr:
		// conversion string(x) / []byte(x)
		if tv, ok := info.Types[x.Fun]; ok && tv.IsType() && len(x.Args) == 1 {
			return c.evalStr(x.Args[0])
		}
		return c.evalCallResult(x, 0)
	case *ast.SelectorExpr:
		if tv, ok := info.Types[x.X]; ok && inOptionPkg(tv.Type) {
			return classS(cServer, "command-line flag "+x.Sel.Name)
		}
		return classS(cRaw, "field "+x.Sel.Name+" (not a constant, not sanitised)")
	}
	return classS(cRaw, "unclassified expression")
}

func (c ectx) evalCallResult(e ast.Expr, res int) sval {
	call, ok := ast.Unparen(e).(*ast.CallExpr)
	if !ok {
		return classS(cRaw, "unclassified expression")
	}
	info := c.info()
	pp, fn := pkgFuncName(info, call)
	switch {
	case pp == "strconv" && (fn == "FormatBool" || fn == "Itoa" || fn == "FormatInt" || fn == "FormatUint"):
		return classS(cFmt, "strconv."+fn)
	case pp == "strings" && fn == "ToValidUTF8" && len(call.Args) == 2:
		if r := c.evalStr(call.Args[1]); r.known && utf8.ValidString(r.s) {
			return classS(cSan, "strings.ToValidUTF8")
		}
	case pp == "fmt" && fn == "Sprintf" && len(call.Args) >= 1:
		if f := c.evalStr(call.Args[0]); f.known && utf8.ValidString(f.s) {
			okAll := true
			for _, a := range call.Args[1:] {
				t := info.Types[a].Type
				b, isBasic := t.Underlying().(*types.Basic)
				if !isBasic || b.Info()&(types.IsInteger|types.IsBoolean|types.IsFloat) == 0 {
					okAll = false
				}
			}
			if okAll {
				return classS(cFmt, "fmt.Sprintf of numbers")
			}
		}
	case fn == "GetLeaderInfo" && res == 0:
		return classS(cServer, "leader address from the election record")
	case fn == "getLeaderAndVersion" && res == 0:
		return classS(cServer, "holder identity from the election record")
	}
	return classS(cRaw, "result of "+fn+" (not a constant, not sanitised)")
}

// evalLocal joins the values of all definitions of a local variable
func (c ectx) evalLocal(v *types.Var, ev func(cc ectx, rhs ast.Expr, res int) sval) sval {
	defs := localDefs(c, v)
	if len(defs) == 0 {
		return classS(cRaw, "local "+v.Name()+" has no visible definition (closure parameter or named result)")
	}
	var out *sval
	for _, d := range defs {
		var s sval
		switch {
		case d.zero:
			s = constS("")
		case d.rhs == nil:
			s = classS(cRaw, "local "+v.Name()+" is modified in place")
		default:
			s = ev(c, d.rhs, d.resIndex)
		}
		if out == nil {
			out = &s
		} else {
			j := joinS(*out, s)
			out = &j
		}
	}
	return *out
}

var zeroTag = tval{nameKnown: true, name: "", val: constS("")}

// evalTag returns the possible values of an expression of type metrics.T
func (c ectx) evalTag(e ast.Expr, usePos token.Pos) []tval {
	info := c.info()
	e = ast.Unparen(e)
	unknown := []tval{{nameKnown: false, val: classS(cUnknown, "unresolved tag expression")}}
	switch x := e.(type) {
	case *ast.CallExpr:
		fn := calleeFunc(info, x)
		if fn == nil {
			return unknown
		}
		if fn.Name() == "Tag" && isMetricsPkg(fn.Pkg()) && len(x.Args) == 2 {
			n := c.evalStr(x.Args[0])
			return []tval{{nameKnown: n.known, name: n.s, val: c.evalStr(x.Args[1])}}
		}
		if fi, ok := fnByObj[fn]; ok && fi.decl.Body != nil && c.depth < 10 {
			// a program function returning a tag: every return statement, with this call as the chosen call site
			idx := -1
			for i, cs := range callers[fn] {
				if cs.call == x {
					idx = i
				}
			}
			w2 := world{}
			for k, v := range c.w {
				w2[k] = v
			}
			w2[fn] = idx
			cc := ectx{fn: fi, pkg: fi.pkg, w: w2, depth: c.depth + 1}
			var out []tval
			ast.Inspect(fi.decl.Body, func(n ast.Node) bool {
				switch r := n.(type) {
				case *ast.FuncLit:
					return false
				case *ast.ReturnStmt:
					if len(r.Results) == 1 {
						out = append(out, cc.evalTag(r.Results[0], r.Pos())...)
					} else {
						out = append(out, unknown...)
					}
				}
				return true
			})
			if len(out) > 0 {
				return out
			}
		}
		return unknown
	case *ast.CompositeLit:
		if tv, ok := info.Types[x]; ok && isTagType(tv.Type) {
			t := tval{nameKnown: true, name: "", val: constS("")}
			for i, el := range x.Elts {
				key, val := "", el
				if kv, ok := el.(*ast.KeyValueExpr); ok {
					key, val = kv.Key.(*ast.Ident).Name, kv.Value
				} else if i == 0 {
					key = "Name"
				} else {
					key = "Value"
				}
				s := c.evalStr(val)
				if key == "Name" {
					t.nameKnown, t.name = s.known, s.s
				} else {
					t.val = s
				}
			}
			return []tval{t}
		}
	case *ast.Ident:
		v, ok := info.Uses[x].(*types.Var)
		if !ok {
			return unknown
		}
		if isPkgLevel(v) {
			if in, ok := pkgVarInit[v]; ok && !pkgVarAssigned[v] {
				return ectx{fn: nil, pkg: in.pkg, w: c.w, depth: c.depth + 1}.evalTag(in.e, token.NoPos)
			}
			return unknown
		}
		if i := paramIndex(c.fn, v); i >= 0 {
			args, _, cc, ext := c.boundArgs(i)
			if ext || len(args) != 1 {
				return unknown
			}
			return cc.evalTag(args[0], args[0].Pos())
		}
		defs := localDefs(c, v)
		var out []tval
		for _, d := range defs {
			switch {
			case d.zero:
				if c.fn != nil && !defAssign(info, c.fn.decl.Body.List, v, usePos) {
					out = append(out, zeroTag)
				}
			case d.rhs == nil || d.resIndex >= 0:
				out = append(out, unknown...)
			default:
				out = append(out, c.evalTag(d.rhs, d.rhs.Pos())...)
			}
		}
		if len(out) > 0 {
			return out
		}
	}
	return unknown
}

// alternatives of a whole label list
type tagList struct {
	known bool
	tags  []tval
	why   string
}

func crossTags(lists [][]tval) []tagList {
	out := []tagList{{known: true}}
	for _, alts := range lists {
		// merge alternatives with the same known name
		byName := map[string]*tval{}
		var order []string
		var unknown *tval
		for _, a := range alts {
			if !a.nameKnown {
				u := a
				unknown = &u
				continue
			}
			if t, ok := byName[a.name]; ok {
				t.val = joinS(t.val, a.val)
			} else {
				cp := a
				byName[a.name] = &cp
				order = append(order, a.name)
			}
		}
		var merged []tval
		for _, n := range order {
			merged = append(merged, *byName[n])
		}
		if unknown != nil {
			merged = append(merged, *unknown)
		}
		var next []tagList
		for _, o := range out {
			for _, m := range merged {
				tl := tagList{known: o.known && m.nameKnown, tags: append(append([]tval{}, o.tags...), m)}
				next = append(next, tl)
			}
		}
		out = next
		if len(out) > 64 {
			return []tagList{{known: false, why: "too many label alternatives"}}
		}
	}
	return out
}

// evalSlice: possible contents of a []metrics.T expression
func (c ectx) evalSlice(e ast.Expr, usePos token.Pos) []tagList {
	info := c.info()
	e = ast.Unparen(e)
	unknown := []tagList{{known: false, why: "unresolved label slice"}}
	switch x := e.(type) {
	case *ast.CompositeLit:
		var lists [][]tval
		for _, el := range x.Elts {
			lists = append(lists, c.evalTag(el, el.Pos()))
		}
		return crossTags(lists)
	case *ast.CallExpr:
		if id, ok := x.Fun.(*ast.Ident); ok && id.Name == "make" {
			if len(x.Args) >= 2 {
				if tv := info.Types[x.Args[1]]; tv.Value != nil && constant.Sign(tv.Value) == 0 {
					return []tagList{{known: true}}
				}
			}
		}
		return unknown
	case *ast.Ident:
		if x.Name == "nil" {
			return []tagList{{known: true}}
		}
		v, ok := info.Uses[x].(*types.Var)
		if !ok {
			return unknown
		}
		if i := paramIndex(c.fn, v); i >= 0 {
			args, spread, cc, ext := c.boundArgs(i)
			if ext {
				return unknown
			}
			sig := c.fn.obj.Type().(*types.Signature)
			if sig.Variadic() && i == sig.Params().Len()-1 && !spread {
				var lists [][]tval
				for _, a := range args {
					lists = append(lists, cc.evalTag(a, a.Pos()))
				}
				return crossTags(lists)
			}
			if len(args) == 1 {
				return cc.evalSlice(args[0], args[0].Pos())
			}
			return unknown
		}
		if isPkgLevel(v) {
			return unknown
		}
		// straight-line construction only: declaration, then appends at the top level of the function
		cur := []tagList{{known: true}}
		seen := false
		for _, d := range localDefs(c, v) {
			if d.pos >= usePos {
				break
			}
			if d.nested {
				return []tagList{{known: false, why: "label slice " + v.Name() + " is built inside a branch or loop"}}
			}
			seen = true
			switch {
			case d.zero:
				cur = []tagList{{known: true}}
			case d.rhs == nil:
				return unknown
			default:
				if call, ok := ast.Unparen(d.rhs).(*ast.CallExpr); ok {
					if id, ok := call.Fun.(*ast.Ident); ok && id.Name == "append" && len(call.Args) >= 1 {
						if b, ok := call.Args[0].(*ast.Ident); ok && info.Uses[b] == v && !call.Ellipsis.IsValid() {
							var lists [][]tval
							for _, a := range call.Args[1:] {
								lists = append(lists, c.evalTag(a, a.Pos()))
							}
							ext := crossTags(lists)
							var next []tagList
							for _, p := range cur {
								for _, q := range ext {
									next = append(next, tagList{known: p.known && q.known, tags: append(append([]tval{}, p.tags...), q.tags...)})
								}
							}
							cur = next
							continue
						}
					}
				}
				cur = c.evalSlice(d.rhs, d.rhs.Pos())
			}
		}
		if seen {
			return cur
		}
		return unknown
	case *ast.SelectorExpr:
		sel, ok := info.Selections[x]
		if !ok {
			return unknown
		}
		fv, ok := sel.Obj().(*types.Var)
		if !ok || !fv.IsField() {
			return unknown
		}
		var out []tagList
		for _, w := range fieldWrites[fv] {
			if w.kind != "lit" && w.kind != "assign" || w.rhs == nil {
				return []tagList{{known: false, why: "field " + fv.Name() + " is modified in place"}}
			}
			cc := ectx{fn: w.fn, pkg: w.pkg, w: c.w, depth: c.depth + 1}
			out = append(out, cc.evalSlice(w.rhs, w.rhs.Pos())...)
		}
		// composite literals of the owner type that leave the field out: nil slice
		if owner := fieldOwner(fv); owner != nil {
			for _, lit := range litsOfType[owner] {
				has := false
				for _, el := range lit.Elts {
					if kv, ok := el.(*ast.KeyValueExpr); ok {
						if id, ok := kv.Key.(*ast.Ident); ok && id.Name == fv.Name() {
							has = true
						}
					}
				}
				if !has {
					out = append(out, tagList{known: true})
				}
			}
		}
		if len(out) > 0 {
			return out
		}
	}
	return unknown
}

func fieldOwner(fv *types.Var) *types.Named {
	for _, pkg := range prog.Pkgs {
		sc := pkg.Types.Scope()
		for _, n := range sc.Names() {
			if tn, ok := sc.Lookup(n).(*types.TypeName); ok {
				if nt, ok := tn.Type().(*types.Named); ok {
					if st, ok := nt.Underlying().(*types.Struct); ok {
						for i := 0; i < st.NumFields(); i++ {
							if st.Field(i) == fv {
								return nt
							}
						}
					}
				}
			}
		}
	}
	return nil
}

// evalSign: can the emitted value be negative?
func (c ectx) evalSign(e ast.Expr, depth int) bool { // true = NonNeg
	info := c.info()
	e = ast.Unparen(e)
	tv := info.Types[e]
	if tv.Value != nil {
		switch tv.Value.Kind() {
		case constant.Int, constant.Float:
			return constant.Sign(tv.Value) >= 0
		case constant.Bool:
			return true
		}
		return false
	}
	if tv.Type != nil {
		if b, ok := tv.Type.Underlying().(*types.Basic); ok && b.Info()&types.IsUnsigned != 0 {
			return true
		}
		if b, ok := tv.Type.Underlying().(*types.Basic); ok && b.Info()&types.IsBoolean != 0 {
			return true
		}
	}
	if depth > 6 {
		return false
	}
	switch x := e.(type) {
	case *ast.CallExpr:
		if id, ok := x.Fun.(*ast.Ident); ok && (id.Name == "len" || id.Name == "cap") {
			return true
		}
		if ft, ok := info.Types[x.Fun]; ok && ft.IsType() && len(x.Args) == 1 {
			return c.evalSign(x.Args[0], depth+1)
		}
	case *ast.SelectorExpr:
		if sel, ok := info.Selections[x]; ok {
			if fv, ok := sel.Obj().(*types.Var); ok && fv.IsField() {
				for _, w := range fieldWrites[fv] {
					switch w.kind {
					case "inc":
					case "lit", "assign":
						if w.rhs == nil || !(ectx{fn: w.fn, pkg: w.pkg, w: c.w, depth: c.depth + 1}).evalSign(w.rhs, depth+1) {
							return false
						}
					default:
						return false
					}
				}
				return true
			}
		}
	case *ast.Ident:
		if v, ok := info.Uses[x].(*types.Var); ok && !isPkgLevel(v) {
			if i := paramIndex(c.fn, v); i >= 0 {
				args, _, cc, ext := c.boundArgs(i)
				if ext || len(args) != 1 {
					return false
				}
				return cc.evalSign(args[0], depth+1)
			}
			defs := localDefs(c, v)
			if len(defs) == 0 {
				return false
			}
			for _, d := range defs {
				if d.zero {
					continue
				}
				if d.rhs == nil || d.resIndex >= 0 || !c.evalSign(d.rhs, depth+1) {
					return false
				}
			}
			return true
		}
	}
	return false
}

// ---------- the wrapper's own label path ----------

// wrapperPath checks structurally that the Prometheus wrapper hands label names and values on unchanged:
//
//	Emit<Kind>: pw.mustGet<Kind>Vec(name, labels).With(pw.labelsToMap(labels)) with the parameters as given;
//	labelsToMap: only `m[x.Name] = x.Value` for x ranging over the global labels / the parameter;
//	extractLabelNames: only `ret[i] = <global name>` / `ret[i+offset] = x.Name`.
//
// Anything else (a call, a slice expression, a conversion around a value) means the table's value classes
// are not what reaches client_golang.
func wrapperPath() (bool, []string) {
	var notes []string
	ok := true
	bad := func(pos token.Pos, format string, a ...interface{}) {
		ok = false
		notes = append(notes, prog.Rel(pos)+": "+fmt.Sprintf(format, a...))
	}
	var wpkg *srcload.Pkg
	for _, pkg := range prog.Pkgs {
		if strings.HasSuffix(pkg.Path, "/pkg/metrics/prometheus") {
			wpkg = pkg
		}
	}
	if wpkg == nil {
		return false, []string{"package pkg/metrics/prometheus not found"}
	}
	info := wpkg.Info
	found := map[string]bool{}
	// x.F where x is bound by `for _, x := range <labels>`
	rangeVarField := func(fd *ast.FuncDecl, e ast.Expr, field string) bool {
		se, isSel := ast.Unparen(e).(*ast.SelectorExpr)
		if !isSel || se.Sel.Name != field {
			return false
		}
		id, isID := se.X.(*ast.Ident)
		if !isID {
			return false
		}
		obj := info.Uses[id]
		res := false
		ast.Inspect(fd.Body, func(n ast.Node) bool {
			if rs, isR := n.(*ast.RangeStmt); isR {
				if v, isV := rs.Value.(*ast.Ident); isV && info.Defs[v] == obj {
					if tv, has := info.Types[rs.X]; has {
						if sl, isSl := tv.Type.Underlying().(*types.Slice); isSl && isTagType(sl.Elem()) {
							res = true
						}
					}
				}
			}
			return true
		})
		return res
	}
	for _, file := range wpkg.Files {
		for _, d := range file.Decls {
			fd, isF := d.(*ast.FuncDecl)
			if !isF || fd.Recv == nil || fd.Body == nil {
				continue
			}
			switch fd.Name.Name {
			case "EmitCounter", "EmitGauge", "EmitHistogram":
				found[fd.Name.Name] = true
				params := fd.Type.Params.List
				nameP, labelsP := params[0].Names[0].Name, params[len(params)-1].Names[0].Name
				seen := false
				ast.Inspect(fd.Body, func(n ast.Node) bool {
					switch x := n.(type) {
					case *ast.AssignStmt:
						for _, l := range x.Lhs {
							if id, isID := l.(*ast.Ident); isID && (id.Name == nameP || id.Name == labelsP) && x.Tok == token.ASSIGN {
								bad(x.Pos(), "%s reassigns its parameter %s", fd.Name.Name, id.Name)
							}
						}
					case *ast.CallExpr:
						if se, isSel := x.Fun.(*ast.SelectorExpr); isSel && se.Sel.Name == "With" && len(x.Args) == 1 {
							seen = true
							inner, isCall := x.Args[0].(*ast.CallExpr)
							good := false
							if isCall && len(inner.Args) == 1 {
								if ise, isS := inner.Fun.(*ast.SelectorExpr); isS && ise.Sel.Name == "labelsToMap" {
									if id, isID := inner.Args[0].(*ast.Ident); isID && id.Name == labelsP {
										good = true
									}
								}
							}
							if !good {
								bad(x.Pos(), "%s does not call With(pw.labelsToMap(%s))", fd.Name.Name, labelsP)
							}
							// the vector: pw.mustGet*Vec(name, labels)
							if vc, isVC := se.X.(*ast.CallExpr); isVC && len(vc.Args) == 2 {
								a0, ok0 := vc.Args[0].(*ast.Ident)
								a1, ok1 := vc.Args[1].(*ast.Ident)
								if !ok0 || !ok1 || a0.Name != nameP || a1.Name != labelsP {
									bad(vc.Pos(), "%s does not pass (name, labels) on unchanged", fd.Name.Name)
								}
							} else {
								bad(x.Pos(), "%s: unexpected receiver of With", fd.Name.Name)
							}
						}
					}
					return true
				})
				if !seen {
					bad(fd.Pos(), "%s has no With call", fd.Name.Name)
				}
			case "labelsToMap":
				found["labelsToMap"] = true
				ast.Inspect(fd.Body, func(n ast.Node) bool {
					as, isA := n.(*ast.AssignStmt)
					if !isA {
						return true
					}
					for i, l := range as.Lhs {
						ix, isIx := l.(*ast.IndexExpr)
						if !isIx {
							continue
						}
						if i >= len(as.Rhs) || as.Tok != token.ASSIGN {
							bad(as.Pos(), "labelsToMap: unexpected assignment form")
							continue
						}
						if !rangeVarField(fd, ix.Index, "Name") {
							bad(as.Pos(), "labelsToMap: the map key is not <label>.Name")
						}
						if !rangeVarField(fd, as.Rhs[i], "Value") {
							bad(as.Pos(), "labelsToMap stores %s, not the label's Value unchanged", exprString(as.Rhs[i]))
						}
					}
					return true
				})
			case "extractLabelNames":
				found["extractLabelNames"] = true
				ast.Inspect(fd.Body, func(n ast.Node) bool {
					as, isA := n.(*ast.AssignStmt)
					if !isA {
						return true
					}
					for i, l := range as.Lhs {
						if _, isIx := l.(*ast.IndexExpr); !isIx || i >= len(as.Rhs) {
							continue
						}
						r := ast.Unparen(as.Rhs[i])
						if rangeVarField(fd, r, "Name") {
							continue
						}
						if id, isID := r.(*ast.Ident); isID { // the global label name being copied
							if v, isV := info.Uses[id].(*types.Var); isV {
								if b, isB := v.Type().Underlying().(*types.Basic); isB && b.Kind() == types.String {
									continue
								}
							}
						}
						bad(as.Pos(), "extractLabelNames stores %s, not a label name unchanged", exprString(r))
					}
					return true
				})
			}
		}
	}
	for _, f := range []string{"EmitCounter", "EmitGauge", "EmitHistogram", "labelsToMap", "extractLabelNames"} {
		if !found[f] {
			ok = false
			notes = append(notes, "method "+f+" of the wrapper not found")
		}
	}
	return ok, notes
}

func exprString(e ast.Expr) string {
	var sb strings.Builder
	_ = printer.Fprint(&sb, prog.Fset, e)
	return sb.String()
}

// ---------- rows ----------

type labelOut struct {
	Name   string   `json:"name"`
	Class  string   `json:"class"`
	Consts []string `json:"consts,omitempty"`
	Why    string   `json:"why,omitempty"`
}

type rowOut struct {
	Site   int        `json:"site"`
	Pos    string     `json:"pos"`
	Func   string     `json:"func"`
	Chain  []string   `json:"chain,omitempty"`
	Kind   string     `json:"kind"`
	Name   *string    `json:"name"`
	Labels []labelOut `json:"labels"`
	Known  bool       `json:"labels_known"`
	Sign   string     `json:"sign"`
	Dead   bool       `json:"dead"`
	Note   string     `json:"note,omitempty"`
}

func (r rowOut) key() string {
	b, _ := json.Marshal(struct {
		P, K string
		N    *string
		L    []labelOut
		Kn   bool
		S    string
	}{r.Pos, r.Kind, r.Name, r.Labels, r.Known, r.Sign})
	return string(b)
}

func chainOf(w world) []string {
	var out []string
	for f, i := range w {
		if i < 0 {
			out = append(out, f.Name()+" <- (caller outside the static call list)")
		} else {
			out = append(out, f.Name()+" <- "+prog.Rel(callers[f][i].call.Pos()))
		}
	}
	sort.Strings(out)
	return out
}

// enumerate evaluates f under every consistent choice of call sites it turns out to need
func enumerate(f func(w world)) (tooMany bool) {
	worlds := []world{{}}
	done := 0
	for len(worlds) > 0 {
		w := worlds[len(worlds)-1]
		worlds = worlds[:len(worlds)-1]
		var need *types.Func
		func() {
			defer func() {
				if r := recover(); r != nil {
					if nc, ok := r.(needChoice); ok {
						need = nc.f
						return
					}
					panic(r)
				}
			}()
			f(w)
		}()
		if need == nil {
			done++
			continue
		}
		n := len(callers[need])
		fork := func(i int) {
			w2 := world{}
			for k, v := range w {
				w2[k] = v
			}
			w2[need] = i
			worlds = append(worlds, w2)
		}
		for i := 0; i < n; i++ {
			fork(i)
		}
		if n == 0 || mayHaveUnknownCallers(need) {
			fork(-1)
		}
		if len(worlds)+done > 512 {
			return true
		}
	}
	return false
}

func toLabels(tl tagList) ([]labelOut, bool) {
	if !tl.known {
		return nil, false
	}
	var out []labelOut
	for _, t := range tl.tags {
		l := labelOut{Name: t.name, Class: className[t.val.class], Why: t.val.why}
		l.Consts = t.val.consts()
		out = append(out, l)
	}
	if out == nil {
		out = []labelOut{}
	}
	return out, true
}

func main() {
	repo := srcload.RepoDir()
	vdir := srcload.VerifDir()
	var err error
	prog, err = srcload.Load(repo, "./cmd/...")
	if err != nil {
		fmt.Fprintln(os.Stderr, "gen_metrics:", err)
		os.Exit(2)
	}
	index()

	var rows []rowOut
	seen := map[string]bool{}
	add := func(r rowOut) {
		k := r.key()
		if seen[k] {
			return
		}
		seen[k] = true
		r.Site = len(rows)
		rows = append(rows, r)
	}
	kinds := map[string]string{"EmitCounter": "Counter", "EmitGauge": "Gauge", "EmitHistogram": "Histogram"}

	// global labels: the NewMetrics call(s) of the program
	var globals []labelOut
	globalsKnown := false
	nNew := 0
	for fn, css := range callers {
		if fn.Name() != "NewMetrics" || fn.Pkg() == nil || !strings.HasSuffix(fn.Pkg().Path(), "/pkg/metrics/prometheus") {
			continue
		}
		for _, cs := range css {
			if cs.caller != nil && !live[cs.caller.obj] {
				continue
			}
			nNew++
			var got []tagList
			tooMany := enumerate(func(w world) {
				c := ectx{fn: cs.caller, pkg: cs.pkg, w: w}
				var lists [][]tval
				for _, a := range cs.call.Args {
					lists = append(lists, c.evalTag(a, a.Pos()))
				}
				got = append(got, crossTags(lists)...)
			})
			if !tooMany && len(got) == 1 && !cs.call.Ellipsis.IsValid() {
				globals, globalsKnown = toLabels(got[0])
			}
		}
	}
	if nNew != 1 {
		globalsKnown = false
	}

	for _, pkg := range prog.Pkgs {
		if strings.HasSuffix(pkg.Path, "/pkg/metrics/mock") {
			continue
		}
		for _, file := range pkg.Files {
			for _, d := range file.Decls {
				var cur *fnInfo
				if fd, ok := d.(*ast.FuncDecl); ok {
					if obj, ok := pkg.Info.Defs[fd.Name].(*types.Func); ok {
						cur = fnByObj[obj]
					}
				}
				ast.Inspect(d, func(n ast.Node) bool {
					call, ok := n.(*ast.CallExpr)
					if !ok {
						return true
					}
					se, ok := call.Fun.(*ast.SelectorExpr)
					if !ok {
						return true
					}
					kind, ok := kinds[se.Sel.Name]
					if !ok {
						return true
					}
					fn, _ := pkg.Info.Uses[se.Sel].(*types.Func)
					if fn == nil || len(call.Args) < 2 {
						return true
					}
					// the method of the metrics.Metrics interface, or of a type with that method set
					sig := fn.Type().(*types.Signature)
					if sig.Params().Len() != 3 || !sig.Variadic() {
						return true
					}
					if st, ok := sig.Params().At(2).Type().(*types.Slice); !ok || !isTagType(st.Elem()) {
						return true
					}
					base := rowOut{Pos: prog.Rel(call.Pos()), Kind: kind}
					if cur != nil {
						base.Func = cur.obj.FullName()
						base.Dead = !live[cur.obj]
					}
					tooMany := enumerate(func(w world) {
						c := ectx{fn: cur, pkg: pkg, w: w}
						name := c.evalStr(call.Args[0])
						var lists []tagList
						if call.Ellipsis.IsValid() {
							lists = c.evalSlice(call.Args[len(call.Args)-1], call.Pos())
						} else {
							var ls [][]tval
							for _, a := range call.Args[2:] {
								ls = append(ls, c.evalTag(a, call.Pos()))
							}
							lists = crossTags(ls)
						}
						nonneg := c.evalSign(call.Args[1], 0)
						names := []sval{name}
						if name.class == cOneOf {
							names = nil
							for _, s := range name.alts {
								names = append(names, constS(s))
							}
						}
						for _, nm := range names {
							for _, tl := range lists {
								r := base
								r.Chain = chainOf(w)
								if nm.known {
									s := nm.s
									r.Name = &s
								} else {
									r.Note = "metric name: " + nm.why
								}
								r.Labels, r.Known = toLabels(tl)
								if !r.Known {
									r.Note += " labels: " + tl.why
									for _, t := range tl.tags {
										if !t.nameKnown {
											r.Note += " (" + t.val.why + ")"
										}
									}
								}
								r.Sign = "AnySign"
								if nonneg {
									r.Sign = "NonNeg"
								}
								add(r)
							}
						}
					})
					if tooMany {
						r := base
						r.Note = "too many call chains"
						add(r)
					}
					return true
				})
			}
		}
	}
	sort.SliceStable(rows, func(i, j int) bool { return rows[i].Pos < rows[j].Pos })
	for i := range rows {
		rows[i].Site = i
	}

	// ---- outputs
	gen := filepath.Join(vdir, "coq", "Gen")
	_ = os.MkdirAll(gen, 0o755)
	_ = os.MkdirAll(filepath.Join(vdir, "build", "gen"), 0o755)
	var sb strings.Builder
	fmt.Fprintf(&sb, "(* generated by harness/cmd/gen_metrics from %s; regenerated on every check, never committed.\n", repo)
	sb.WriteString("   Server-side value sources taken on trust (class VServer):\n")
	for _, s := range serverSources {
		fmt.Fprintf(&sb, "     - %s\n", s)
	}
	sb.WriteString("*)\nFrom KB Require Import Base.Bytes Model.Metrics.\nOpen Scope N_scope.\n\n")
	coqLabel := func(l labelOut) string {
		cl := l.Class
		switch l.Class {
		case "VConst":
			cl = "VConst " + srcload.CoqBytes(l.Consts[0])
		case "VOneOf":
			var xs []string
			for _, s := range l.Consts {
				xs = append(xs, srcload.CoqBytes(s))
			}
			cl = "VOneOf [" + strings.Join(xs, "; ") + "]"
		}
		return fmt.Sprintf("(%s, %s)", srcload.CoqBytes(l.Name), cl)
	}
	identity, pathNotes := wrapperPath()
	fmt.Fprintf(&sb, "(* the wrapper hands label names and values on unchanged (structural check of Emit*, labelsToMap, extractLabelNames) *)\nDefinition wrapper_value_path_identity : bool := %v.\n\n", identity)
	if globalsKnown {
		var gs []string
		for _, g := range globals {
			gs = append(gs, srcload.CoqBytes(g.Name))
		}
		fmt.Fprintf(&sb, "Definition metrics_globals : option (list str) := Some [%s].\n\n", strings.Join(gs, "; "))
	} else {
		sb.WriteString("Definition metrics_globals : option (list str) := None.\n\n")
	}
	sb.WriteString("Definition metrics_table : list row := [\n")
	first := true
	nLive, nDead := 0, 0
	for _, r := range rows {
		if r.Dead {
			nDead++
			continue
		}
		nLive++
		if !first {
			sb.WriteString(";\n")
		}
		first = false
		name := "None"
		if r.Name != nil {
			name = "(Some " + srcload.CoqBytes(*r.Name) + ")"
		}
		labels := "None"
		if r.Known {
			var ls []string
			for _, l := range r.Labels {
				ls = append(ls, coqLabel(l))
			}
			labels = "(Some [" + strings.Join(ls, "; ") + "])"
		}
		nm := "?"
		if r.Name != nil {
			nm = *r.Name
		}
		fmt.Fprintf(&sb, "  (* %s %s %q *)\n  {| r_site := %d; r_kind := %s; r_name := %s; r_labels := %s; r_sign := %s |}",
			r.Pos, r.Kind, nm, r.Site, r.Kind, name, labels, r.Sign)
	}
	sb.WriteString("\n].\n")
	if err := os.WriteFile(filepath.Join(gen, "MetricsTable.v"), []byte(sb.String()), 0o644); err != nil {
		fmt.Fprintln(os.Stderr, err)
		os.Exit(2)
	}
	ok := "(* generated by harness/cmd/gen_metrics; the obligation a code edit breaks *)\n" +
		"From KB Require Import Base.Bytes Model.Metrics Model.HandlerMetrics Gen.MetricsTable.\n" +
		"Theorem table_ok : check_translated wrapper_value_path_identity metrics_globals metrics_table = true.\nProof. vm_compute. reflexivity. Qed.\n" +
		"(* every metric row of the handler model (Model/HandlerMetrics.v) is covered by a row of the regenerated table *)\n" +
		"Theorem handlers_covered : covers metrics_table all_handler_rows = true.\nProof. vm_compute. reflexivity. Qed.\n"
	if err := os.WriteFile(filepath.Join(gen, "MetricsTableOk.v"), []byte(ok), 0o644); err != nil {
		fmt.Fprintln(os.Stderr, err)
		os.Exit(2)
	}
	js := map[string]interface{}{"repo": repo, "globals_known": globalsKnown, "globals": globals, "rows": rows,
		"server_sources": serverSources, "live_rows": nLive, "dead_rows": nDead,
		"wrapper_path": map[string]interface{}{"identity": identity, "notes": pathNotes}}
	b, _ := json.MarshalIndent(js, "", " ")
	if err := os.WriteFile(filepath.Join(vdir, "build", "gen", "metrics_table.json"), b, 0o644); err != nil {
		fmt.Fprintln(os.Stderr, err)
		os.Exit(2)
	}
	fmt.Printf("gen_metrics: %d rows (%d live, %d in unreachable code), globals known=%v, wrapper label path unchanged=%v %v\n", len(rows), nLive, nDead, globalsKnown, identity, pathNotes)
}
