// Driver c07: histories with multi-version keys, tombstones and re-created keys on a real Backend;
// for every compaction revision R a real Backend.Compact over a restored copy of the store, fault-free,
// with delete call #i failing (plain error / compare failure) or the compactor dying at call #i, and with
// writer requests interleaved between the pass's delete calls; Get/List at every revision >= R before
// and after; a create/update/delete round on every key afterwards.
package main

import (
	"bytes"
	"context"
	"errors"
	"fmt"
	"os"
	"sort"
	"sync"
	"sync/atomic"
	"time"

	"github.com/kubewharf/kubebrain/pkg/backend"
	"github.com/kubewharf/kubebrain/pkg/backend/coder"
	"github.com/kubewharf/kubebrain/pkg/storage"
	imetrics "github.com/kubewharf/kubebrain/pkg/storage/metrics"

	"kbverif/lib"
)

const prefix = "/registry"
const initRev = 100

var keyPool = []string{"/registry/pods/a", "/registry/pods/b", "/registry/leases/l", "/registry/skip/x",
	"/registry/skip/sub/y", "/registryfoo/z", "/other/k", "/registry/pods/c", "/registry/pods.archive/q", "/registry/leases.k8s.io/m"}

var tab = lib.CsNewIntern(keyPool)
var cd = coder.NewNormalCoder()

type config struct {
	name    string
	skipped []string
	// emptyPrefix: the backend is configured with Prefix "" (getCompactBorders turns it into "/")
	emptyPrefix bool
}

func (c config) prefix() string {
	if c.emptyPrefix {
		return ""
	}
	return prefix
}

var configs = []config{
	{"none", nil, false},
	{"one", []string{"/registry/skip"}, false},
	{"two-disjoint", []string{"/registry/skip", "/registry/leases"}, false},
	{"nested", []string{"/registry/skip", "/registry/skip/sub"}, false},
	{"duplicate", []string{"/registry/skip", "/registry/skip"}, false},
	{"sibling", []string{"/registryfoo"}, false},
	// one skipped prefix is a string prefix of another one, followed by a byte below '/'
	{"dot", []string{"/registry/pods", "/registry/pods.archive"}, false},
	{"dot2", []string{"/registry/leases.k8s.io", "/registry/leases", "/registry/skip"}, false},
	// a skipped prefix that contains the whole prefix range: nothing is compacted
	{"covering", []string{"/registry/skip", "/registry"}, false},
	// no prefix configured: the compaction covers everything under "/" (minus the skipped prefixes)
	{"empty-prefix", nil, true},
	{"empty-prefix-skip", []string{"/registry/skip", "/other"}, true},
}

// ---------- an engine slot that can be swapped under a live backend ----------

type swapKV struct{ cur atomic.Value } // holds *holder
type holder struct{ kv storage.KvStorage }

func (s *swapKV) in() storage.KvStorage { return s.cur.Load().(*holder).kv }
func (s *swapKV) set(kv storage.KvStorage) { s.cur.Store(&holder{kv}) }
func (s *swapKV) GetTimestampOracle(ctx context.Context) (uint64, error) {
	return s.in().GetTimestampOracle(ctx)
}
func (s *swapKV) GetPartitions(ctx context.Context, a, b []byte) ([]storage.Partition, error) {
	return s.in().GetPartitions(ctx, a, b)
}
func (s *swapKV) Get(ctx context.Context, k []byte) ([]byte, error) { return s.in().Get(ctx, k) }
func (s *swapKV) Iter(ctx context.Context, a, b []byte, ts, l uint64) (storage.Iter, error) {
	return s.in().Iter(ctx, a, b, ts, l)
}
func (s *swapKV) BeginBatchWrite() storage.BatchWrite                       { return s.in().BeginBatchWrite() }
func (s *swapKV) Del(ctx context.Context, k []byte) error                   { return s.in().Del(ctx, k) }
func (s *swapKV) DelCurrent(ctx context.Context, it storage.Iter) error     { return s.in().DelCurrent(ctx, it) }
func (s *swapKV) SupportTTL() bool                                          { return s.in().SupportTTL() }
func (s *swapKV) Close() error                                              { return nil }

// ---------- one worker = one backend per configuration, engines swapped per run ----------

type worker struct {
	scratch string
	bes     map[string]*lib.CsBackend
	sw      map[string]*swapKV
	base    map[string]uint64
}

func (w *worker) backendFor(cfg config) (*lib.CsBackend, *swapKV, error) {
	if be, ok := w.bes[cfg.name]; ok {
		return be, w.sw[cfg.name], nil
	}
	sw := &swapKV{}
	kv, _, _ := lib.NewEngine(lib.EngMem, w.scratch)
	sw.set(kv)
	be, err := lib.CsNewBackend(sw, cfg.prefix(), cfg.skipped, 1000)
	if err != nil {
		return nil, nil, err
	}
	w.bes[cfg.name], w.sw[cfg.name], w.base[cfg.name] = be, sw, 1000
	return be, sw, nil
}

type fault struct {
	at   int
	kind string // other | cas | die
}

type envWrite struct {
	at int
	// idxKey: instead of a fixed call number, the request is placed exactly before the pass's next delete call on
	// the INDEX record of this key, whichever kind of delete that is
	idxKey []byte
	w      lib.CsWrite
}

type runSpec struct {
	engine string
	// metrics: the production stack - the metrics wrapper (pkg/storage/metrics) sits ABOVE the failing engine, so the
	// compactor sees a delete error only if the wrapper passes it on
	metrics bool
	req    string // "R" | "zero" | "above"
	R      uint64
	faults []fault
	env    []envWrite
	round  []lib.CsWrite // op kinds and keys; expected revisions filled at run time
	roundMode []int
	// splits: the engine reports its key space cut at these raw keys (GetPartitions): the pass runs one concurrent
	// worker per (adjusted) partition. Engine "tikv-split": a TiKV mock whose regions are split there.
	splits [][]byte
	// iterFail: the n-th iterator Next() of the pass fails once (n >= 1); the worker's own retry follows
	iterFail int
}

const engTiKVSplit = "tikv-split"

// cutPartitions is GetPartitions of an engine whose regions are cut at the given raw keys.
func cutPartitions(splits [][]byte) func(start, end []byte) []storage.Partition {
	ss := append([][]byte{}, splits...)
	sort.Slice(ss, func(i, j int) bool { return bytes.Compare(ss[i], ss[j]) < 0 })
	return func(start, end []byte) []storage.Partition {
		var ps []storage.Partition
		cur := start
		for _, sp := range ss {
			if bytes.Compare(sp, cur) > 0 && bytes.Compare(sp, end) < 0 {
				ps = append(ps, storage.Partition{Start: cur, End: sp})
				cur = sp
			}
		}
		return append(ps, storage.Partition{Start: cur, End: end})
	}
}

type readSpec struct {
	get   bool
	key   []byte
	lo, hi []byte
	rev   uint64
	limit int64
}

func (r readSpec) coq() string {
	if r.get {
		return lib.App("RdGet", tab.B(r.key), lib.N(r.rev))
	}
	return lib.App("RdList", tab.B(r.lo), tab.B(r.hi), lib.N(r.rev), lib.N(uint64(r.limit)))
}

func doReads(be *lib.CsBackend, reads []readSpec) []string {
	out := make([]string, len(reads))
	for i, r := range reads {
		if r.get {
			kv, ok, isErr := be.Get(r.key, r.rev)
			switch {
			case isErr:
				out[i] = "RFailed"
			case ok:
				out[i] = lib.App("RGot", lib.Some(lib.Pair(lib.N(kv.Rev), lib.Bytes(kv.V))))
			default:
				out[i] = "(RGot None)"
			}
		} else {
			kvs, more, isErr := be.List(r.lo, r.hi, r.rev, r.limit)
			if isErr {
				out[i] = "RFailed"
			} else {
				out[i] = lib.App("RListed", lib.CsKvrCoqI(kvs, tab), lib.Bool(more))
			}
		}
	}
	return out
}

func sameStrings(a, b []string) bool {
	if len(a) != len(b) {
		return false
	}
	for i := range a {
		if a[i] != b[i] {
			return false
		}
	}
	return true
}

func restore(kv storage.KvStorage, dump []lib.KV) error {
	for _, e := range dump {
		b := kv.BeginBatchWrite()
		b.Put(e.K, e.V, 0)
		if err := b.Commit(context.Background()); err != nil {
			return err
		}
	}
	return nil
}

func sortedDump(kv storage.KvStorage) ([]lib.KV, error) {
	d, err := lib.CsDataDump(kv)
	if err != nil {
		return nil, err
	}
	sort.Slice(d, func(i, j int) bool { return bytes.Compare(d[i].K, d[j].K) < 0 })
	return d, nil
}

func decodedDump(kv storage.KvStorage) ([]lib.CsRec, error) {
	d, err := sortedDump(kv)
	if err != nil {
		return nil, err
	}
	return lib.CsDecodeDump(d)
}

func wopCoq(w lib.CsWrite) string {
	switch w.Op {
	case "create":
		return lib.App("WCreate", tab.B(w.Key), lib.Bytes(w.Val))
	case "update":
		return lib.App("WUpdate", tab.B(w.Key), lib.Bytes(w.Val), lib.N(w.Rev))
	}
	return lib.App("WDelete", tab.B(w.Key), lib.N(w.Rev))
}

func addsCoq(w lib.CsWrite, class string, hdr uint64) string {
	if class != "ok" {
		return "[]"
	}
	if w.Op == "delete" {
		return lib.List([]string{lib.App("RIdx", tab.B(w.Key), lib.N(hdr), "true"),
			lib.App("RVer", tab.B(w.Key), lib.N(hdr), "tombstone")})
	}
	return lib.List([]string{lib.App("RIdx", tab.B(w.Key), lib.N(hdr), "false"),
		lib.App("RVer", tab.B(w.Key), lib.N(hdr), lib.Bytes(w.Val))})
}

var errInjected = errors.New("verif: injected delete failure")

type variantOut struct {
	nnext int // iterator steps of the pass
	coq      string
	json     map[string]interface{}
	outcomes []string
	ndel     int
	fail     string
	changed  bool
	kinds    []string
}

// resolveWrite fills the expected revision of a planned write from the key's latest state.
func resolveWrite(be *lib.CsBackend, w lib.CsWrite, mode int, hist uint64) lib.CsWrite {
	kv, ok, _ := be.Get(w.Key, 0)
	switch w.Op {
	case "update":
		switch {
		case ok && mode%4 != 3:
			w.Rev = kv.Rev
		case mode%4 == 3:
			w.Rev = initRev + 1 + uint64(mode)%(hist-initRev+1)
		default:
			w.Rev = 0
		}
		if mode%7 == 6 {
			w.Rev = 0
		}
	case "delete":
		switch {
		case ok && mode%3 == 0:
			w.Rev = kv.Rev
		case mode%3 == 1:
			w.Rev = 0
		default:
			w.Rev = initRev + 1 + uint64(mode)%(hist-initRev+1)
		}
	}
	return w
}

func (w *worker) runVariant(cfg config, pre []lib.KV, preDec []lib.CsRec, hist uint64, reads []readSpec, caseBefore []string, rs runSpec) (vo variantOut) {
	be, sw, err := w.backendFor(cfg)
	if err != nil {
		vo.fail = err.Error()
		return
	}
	freshEngine := func() (storage.KvStorage, func(), error) {
		var inner storage.KvStorage
		var closer func()
		var err error
		if rs.engine == engTiKVSplit {
			inner, closer, err = lib.NewTiKVSplit(rs.splits...)
		} else {
			inner, closer, err = lib.NewEngine(rs.engine, w.scratch)
		}
		if err != nil {
			return nil, nil, err
		}
		if err := restore(inner, pre); err != nil {
			closer()
			return nil, nil, err
		}
		return inner, closer, nil
	}
	inner, closer, err := freshEngine()
	if err != nil {
		vo.fail = err.Error()
		return
	}
	defer closer()
	// a committed revision above everything this backend has dealt so far
	w.base[cfg.name] += 1000
	D := w.base[cfg.name]
	be.B.SetCurrentRevision(D)

	ctx, cancel := context.WithCancel(context.Background())
	defer cancel()
	var mu sync.Mutex
	calls, inCompact := 0, false
	var kinds []string
	var ocs []string // per call: (adds, outcome)
	type done struct {
		w     lib.CsWrite
		class string
		hdr   uint64
	}
	var executed []done
	faultAt := map[int]string{}
	for _, f := range rs.faults {
		faultAt[f.at] = f.kind
	}
	firedIdx := map[int]bool{}
	ifk := &iterFaultKV{KvStorage: inner, failAt: rs.iterFail}
	wrap := &lib.Wrap{KvStorage: ifk}
	if rs.splits != nil && rs.engine != engTiKVSplit {
		wrap.Partitions = cutPartitions(rs.splits)
	}
	// with several partitions the workers run concurrently: the delete calls are collected with their raw key and
	// put in key order afterwards - the order of one worker per range, as long as no key is split over two workers
	type pcall struct {
		key  []byte
		kind string
	}
	var pcalls []pcall
	wrap.Before = func(kind string, key []byte) error {
		if kind != "del" && kind != "delcur" {
			return nil
		}
		mu.Lock()
		if !inCompact {
			mu.Unlock()
			return nil
		}
		if rs.splits != nil {
			calls++
			k := "KDel"
			if kind == "delcur" {
				k = "KDelCur"
			}
			pcalls = append(pcalls, pcall{append([]byte{}, key...), k})
			mu.Unlock()
			return nil
		}
		i := calls
		calls++
		mu.Unlock()
		if kind == "del" {
			kinds = append(kinds, "KDel")
		} else {
			kinds = append(kinds, "KDelCur")
		}
		adds := "[]"
		var addl []string
		for mi, e := range rs.env {
			hit := e.idxKey == nil && e.at == i
			if e.idxKey != nil && !firedIdx[mi] {
				if uk, rev, derr := cd.Decode(key); derr == nil && rev == 0 && bytes.Equal(uk, e.idxKey) {
					hit = true
					firedIdx[mi] = true
				}
			}
			if hit {
				wr := resolveWrite(be, e.w, mi*5+i, hist)
				class, hdr, synced := be.Do(wr)
				if !synced {
					vo.fail = "committed revision stalled after a writer request interleaved with the pass"
				}
				executed = append(executed, done{wr, class, hdr})
				if a := addsCoq(wr, class, hdr); a != "[]" {
					addl = append(addl, a)
				}
			}
		}
		if len(addl) > 0 {
			adds = "(" + addl[0]
			for _, a := range addl[1:] {
				adds += " ++ " + a
			}
			adds += ")"
		}
		switch faultAt[i] {
		case "other":
			ocs = append(ocs, lib.Pair(adds, "OFailOther"))
			return errInjected
		case "cas":
			ocs = append(ocs, lib.Pair(adds, "OFailCond"))
			return storage.ErrCASFailed
		case "die":
			ocs = append(ocs, lib.Pair(adds, "ODie"))
			cancel()
			return errInjected
		}
		ocs = append(ocs, lib.Pair(adds, "OOk"))
		return nil
	}
	var top storage.KvStorage = wrap
	if rs.metrics {
		top = imetrics.NewKvStorage(wrap, &lib.NopMetrics{})
	}
	sw.set(top)

	req := rs.R
	switch rs.req {
	case "zero":
		req = 0
	case "above":
		req = D + 7
	}
	mu.Lock()
	inCompact = true
	mu.Unlock()
	ifk.arm(true)
	resp, cerr := be.B.Compact(ctx, req)
	ifk.arm(false)
	mu.Lock()
	inCompact = false
	mu.Unlock()
	vo.nnext = ifk.nexts
	if rs.iterFail != 0 && !ifk.fired {
		vo.fail = "internal: the iterator fault was not reached"
		return
	}
	_ = cerr
	if rs.splits != nil {
		sort.SliceStable(pcalls, func(i, j int) bool { return bytes.Compare(pcalls[i].key, pcalls[j].key) < 0 })
		for _, c := range pcalls {
			kinds = append(kinds, c.kind)
			ocs = append(ocs, lib.Pair("[]", "OOk"))
		}
	}
	hdr := resp.GetHeader().GetRevision()
	cur2 := be.B.GetCurrentRevision()
	post, err := decodedDump(inner)
	if err != nil {
		vo.fail = err.Error()
		return
	}
	after := doReads(be, reads)

	// the same writer requests without the pass
	before := caseBefore
	beforeCoq, afterCoq := "None", "None"
	if len(executed) > 0 {
		// the allocator of the pass's backend cannot be rewound: the writer-only replay runs on a second
		// backend of this worker, initialised at the same committed revision
		beA, swA, err := w.backendFor(config{name: cfg.name + "#A", skipped: cfg.skipped, emptyPrefix: cfg.emptyPrefix})
		if err != nil {
			vo.fail = err.Error()
			return
		}
		innerA, closerA, err := freshEngine()
		if err != nil {
			vo.fail = err.Error()
			return
		}
		defer closerA()
		swA.set(&lib.Wrap{KvStorage: innerA})
		if w.base[cfg.name+"#A"] > D {
			vo.fail = "internal: replay backend is ahead"
			return
		}
		w.base[cfg.name+"#A"] = D + 500
		beA.B.SetCurrentRevision(D)
		for _, e := range executed {
			class, h, synced := beA.Do(e.w)
			if !synced || class != e.class || h != e.hdr {
				vo.fail = fmt.Sprintf("a writer request (%s %s) answers differently with (%s,%d) and without (%s,%d) the concurrent pass",
					e.w.Op, e.w.Key, e.class, e.hdr, class, h)
				return
			}
		}
		before = doReads(beA, reads)
		beforeCoq = lib.Some(lib.List(before))
		sw.set(top)
	}
	if !sameStrings(before, after) {
		afterCoq = lib.Some(lib.List(after))
		vo.changed = true
	}

	// write round: one request per key
	var round []string
	var roundJ []interface{}
	for i, pw := range rs.round {
		wr := resolveWrite(be, pw, rs.roundMode[i], hist)
		class, _, synced := be.Do(wr)
		if !synced {
			vo.fail = "committed revision stalled in the write round after compaction"
			return
		}
		round = append(round, lib.Pair(wopCoq(wr), lib.CsWresCoq(class)))
		roundJ = append(roundJ, map[string]interface{}{"op": wr.Op, "key": string(wr.Key), "rev": wr.Rev, "res": class})
		vo.outcomes = append(vo.outcomes, "round-"+wr.Op+"-"+class)
	}
	final, err := decodedDump(inner)
	if err != nil {
		vo.fail = err.Error()
		return
	}
	postDiff, rmi := lib.CsDiff(preDec, post, tab)
	finalDiff, _ := lib.CsDiff(post, final, tab)
	vo.ndel = len(kinds)
	vo.kinds = kinds
	vo.coq = lib.App("mkV7", lib.N(D), lib.N(req), lib.List(ocs), lib.N(hdr), lib.N(cur2), lib.List(kinds),
		beforeCoq, postDiff, afterCoq, lib.List(round), finalDiff, lib.N(uint64(rs.iterFail)))
	var envJ []interface{}
	for _, e := range executed {
		envJ = append(envJ, map[string]interface{}{"op": e.w.Op, "key": string(e.w.Key), "rev": e.w.Rev, "res": e.class, "hdr": e.hdr})
	}
	vo.json = map[string]interface{}{"engine": rs.engine, "metrics_wrapper_above": rs.metrics, "cur": D, "req": req, "hdr": hdr, "faults": fmt.Sprint(rs.faults),
		"delete_calls": kinds, "removed_positions": rmi, "writers": envJ, "round": roundJ, "reads_changed": vo.changed}
	for _, f := range rs.faults {
		vo.outcomes = append(vo.outcomes, "fault-"+f.kind)
	}
	if rs.iterFail != 0 {
		vo.json["iterator_next_failed"] = rs.iterFail
		vo.outcomes = append(vo.outcomes, "iterator-fault-retried")
	}
	if rs.splits != nil {
		var sj []string
		for _, sp := range rs.splits {
			uk, rev, _ := cd.Decode(sp)
			sj = append(sj, fmt.Sprintf("%s@%d", uk, rev))
		}
		vo.json["partition_borders"] = sj
		vo.outcomes = append(vo.outcomes, fmt.Sprintf("partitions-%d-%s", len(rs.splits)+1, rs.engine))
	}
	if len(executed) > 0 {
		vo.outcomes = append(vo.outcomes, "interleaved-writers")
	}
	if rs.metrics {
		vo.outcomes = append(vo.outcomes, "metrics-wrapper-above-faulty-engine")
	}
	return
}

// ---------- histories ----------

type history struct {
	cfg   config
	dec   []lib.CsRec
	pre   []lib.KV
	hist  uint64
	json  []interface{}
	revs  []uint64 // revisions at which something was written
	hot   bool     // scripted: one key with a long version run, deleted
}

func buildHistory(r *lib.Rand, cfg config, scratch string, corpus int) (*history, error) {
	inner, closer, err := lib.NewEngine(lib.EngMem, scratch)
	if err != nil {
		return nil, err
	}
	defer closer()
	failAt := int32(-1)
	var calls int32
	wrap := &lib.Wrap{KvStorage: inner, Before: func(kind string, key []byte) error {
		if kind == "del" || kind == "delcur" {
			if atomic.AddInt32(&calls, 1)-1 == atomic.LoadInt32(&failAt) {
				return errInjected
			}
		}
		return nil
	}}
	be, err := lib.CsNewBackend(wrap, cfg.prefix(), cfg.skipped, initRev)
	if err != nil {
		return nil, err
	}
	defer be.Retire()
	h := &history{cfg: cfg}
	do := func(op string, key string, val string) {
		w := lib.CsWrite{Op: op, Key: []byte(key), Val: []byte(val)}
		if op != "create" {
			if kv, ok, _ := be.Get(w.Key, 0); ok {
				w.Rev = kv.Rev
			}
		}
		class, hdr, _ := be.Do(w)
		h.json = append(h.json, map[string]interface{}{"op": op, "key": key, "val": val, "rev": w.Rev, "res": class, "hdr": hdr})
	}
	switch corpus {
	case 1: // multi-version key, tombstone, re-creation; another key deleted for good
		do("create", "/registry/pods/a", "a1")
		do("update", "/registry/pods/a", "a2")
		do("delete", "/registry/pods/a", "")
		do("create", "/registry/pods/a", "a4")
		do("create", "/registry/pods/b", "b5")
		do("update", "/registry/pods/b", "b6")
		do("delete", "/registry/pods/b", "")
		do("create", "/registry/skip/x", "x8")
		do("update", "/registry/skip/x", "x9")
		do("create", "/registry/skip/sub/y", "y10")
		do("delete", "/registry/skip/sub/y", "")
		do("create", "/registryfoo/z", "z12")
		do("update", "/registryfoo/z", "z13")
		do("create", "/other/k", "k14")
		do("update", "/other/k", "k15")
		do("create", "/registry/pods.archive/q", "q16")
		do("update", "/registry/pods.archive/q", "q17")
		do("delete", "/registry/pods.archive/q", "")
		do("create", "/registry/leases.k8s.io/m", "m19")
		do("delete", "/registry/leases.k8s.io/m", "")
		do("create", "/registry/leases/l", "l21")
		do("update", "/registry/leases/l", "l22")
		do("delete", "/registry/leases/l", "")
	case 4: // a hot key: created, updated five times, deleted; neighbours on both sides; a second, live, hot key
		h.hot = true
		do("create", "/registry/pods/a", "a1")
		for i := 2; i <= 6; i++ {
			do("update", "/registry/pods/a", fmt.Sprintf("a%d", i))
		}
		do("delete", "/registry/pods/a", "")
		do("create", "/registry/leases/l", "l8")
		do("create", "/registry/pods/b", "b9")
		do("update", "/registry/pods/b", "b10")
		do("update", "/registry/pods/b", "b11")
		do("update", "/registry/pods/b", "b12")
		do("create", "/registry/skip/x", "x13")
	case 3: // value,tombstone / value,value,tombstone / value,value: the order of the pass's deletes is load-bearing
		do("create", "/registry/pods/a", "a1")
		do("delete", "/registry/pods/a", "")
		do("create", "/registry/pods/b", "b3")
		do("update", "/registry/pods/b", "b4")
		do("delete", "/registry/pods/b", "")
		do("create", "/registry/pods/c", "c6")
		do("update", "/registry/pods/c", "c7")
	case 2: // an earlier pass that failed right after removing the index: index missing above [v, tombstone]
		do("create", "/registry/pods/a", "a1")
		do("update", "/registry/pods/a", "a2")
		do("delete", "/registry/pods/a", "")
		do("create", "/registry/pods/b", "b4")
		atomic.StoreInt32(&calls, 0)
		atomic.StoreInt32(&failAt, 1)
		_, _ = be.B.Compact(context.Background(), 0)
		atomic.StoreInt32(&failAt, -1)
		h.json = append(h.json, map[string]interface{}{"op": "compact", "rev": 0, "fail_delete_call": 1})
		do("update", "/registry/pods/b", "b5")
		do("create", "/registry/pods/c", "c6")
		do("delete", "/registry/pods/c", "")
	default:
		n := 8 + r.Intn(16)
		for i := 0; i < n; i++ {
			key := keyPool[r.Intn(len(keyPool))]
			if r.Chance(1, 2) {
				key = keyPool[r.Intn(3)]
			}
			_, present, _ := be.Get([]byte(key), 0)
			op := "create"
			if present {
				op = []string{"update", "update", "delete", "delete", "create"}[r.Intn(5)]
			} else if r.Chance(1, 8) {
				op = []string{"update", "delete"}[r.Intn(2)]
			}
			do(op, key, fmt.Sprintf("v%d", i))
			if r.Chance(1, 14) { // an earlier, possibly failing, compaction: leaves relaxed states behind
				rev := uint64(initRev + 1 + r.Intn(i+1))
				atomic.StoreInt32(&calls, 0)
				fa := int32(-1)
				if r.Chance(2, 3) {
					fa = int32(r.Intn(4))
				}
				atomic.StoreInt32(&failAt, fa)
				_, _ = be.B.Compact(context.Background(), rev)
				atomic.StoreInt32(&failAt, -1)
				h.json = append(h.json, map[string]interface{}{"op": "compact", "rev": rev, "fail_delete_call": fa})
			}
		}
	}
	h.hist = be.B.GetCurrentRevision()
	h.pre, err = sortedDump(inner)
	if err != nil {
		return nil, err
	}
	h.dec, err = lib.CsDecodeDump(h.pre)
	return h, err
}

func main() {
	lib.QuietLogs()
	args := lib.ParseArgs()
	backend.VerifSetIntervals(time.Hour, time.Hour)
	rnd := lib.NewRand(args.Seed)
	nHist, faultRs, dieEvery, envPer, par := 9, 2, 3, 2, 64
	switch args.Tier {
	case "thorough":
		nHist, faultRs, dieEvery, envPer, par = 150, 3, 1, 3, 64
	case "search":
		nHist, faultRs, dieEvery, envPer, par = 40, 3, 2, 3, 64
	}
	w := lib.NewWriter(args, "C07", "c07", "From KB Require Import Model.C07Cases Model.C07Valid.\n"+tab.Header(), "c07_case", "c07_check_v", "c07_oracle", 20)

	type caseJob struct {
		h       *history
		R       uint64
		req     string
		reads   []readSpec
		specs   []runSpec
		kind    string
		idx     int
		corpus  bool
	}
	var cases []*caseJob
	// histories (sequential, cheap)
	var hists []*history
	for i := 0; i < nHist+3*len(configs); i++ {
		cfg := configs[i%len(configs)]
		corpus := 0
		if i < len(configs) {
			corpus = 1
		} else if i < 2*len(configs) {
			corpus = 2
		} else if i < 3*len(configs) {
			corpus = 3
		}
		h, err := buildHistory(rnd.Fork(), cfg, args.Scratch, corpus)
		if err != nil {
			w.Fail(lib.ImplFailure{CaseID: -1, What: "history: " + err.Error()})
			continue
		}
		hists = append(hists, h)
	}
	nPlain := len(hists)
	for _, ci := range []int{0, 1, 3} { // none, one, nested
		h, err := buildHistory(rnd.Fork(), configs[ci], args.Scratch, 4)
		if err != nil {
			w.Fail(lib.ImplFailure{CaseID: -1, What: "history: " + err.Error()})
			continue
		}
		hists = append(hists, h)
	}
	_ = nPlain
	// the borders of every configuration, observed on a real backend
	borders := map[string]string{}
	for _, cfg := range configs {
		kv, cl, _ := lib.NewEngine(lib.EngMem, args.Scratch)
		be, err := lib.CsNewBackend(kv, cfg.prefix(), cfg.skipped, initRev)
		if err != nil {
			fmt.Fprintln(os.Stderr, err)
			os.Exit(2)
		}
		var bs []string
		for _, b := range backend.VerifCompactBorders(be.B) {
			bs = append(bs, lib.Bytes(b))
		}
		borders[cfg.name] = lib.List(bs)
		be.Retire()
		cl()
	}

	engines := []string{lib.EngMem, lib.EngMem, lib.EngMem, lib.EngMem, lib.EngMem, lib.EngTiKV}
	if args.Tier != "quick" {
		engines = []string{lib.EngMem, lib.EngMem, lib.EngTiKV, lib.EngMem, lib.EngMem, lib.EngMem, lib.EngTiKV, lib.EngMem, lib.EngMem, lib.EngBadger}
	}
	for hi, h := range hists {
		r := rnd.Fork()
		// every R: each revision of the history, plus "zero" and "above current"
		var Rs []uint64
		for rev := uint64(initRev); rev <= h.hist; rev++ {
			Rs = append(Rs, rev)
		}
		faultSet := map[int]bool{}
		isCorpus := hi < 3*len(configs) || h.hot
		nFault := faultRs
		if isCorpus {
			nFault = faultRs + 1
			faultSet[len(Rs)-1] = true
		}
		for len(faultSet) < nFault && len(faultSet) < len(Rs) {
			// prefer large R: more deletes
			faultSet[len(Rs)-1-r.Intn((len(Rs)+1)/2)] = true
		}
		mk := func(R uint64, reqMode string, withFaults bool, ci int) {
			cj := &caseJob{h: h, R: R, req: reqMode, kind: h.cfg.name, idx: hi, corpus: isCorpus}
			// reads: Get of every key and List (whole key space, and one limited) at every revision >= R, and at latest
			lo, hi2 := []byte("/"), []byte("0")
			top := h.hist + 1
			from := R
			if reqMode != "R" {
				from = top + 1 // compaction at the committed revision: only reads at the latest revision are protected
			}
			for rev := from; rev <= top; rev++ {
				cj.reads = append(cj.reads, readSpec{lo: lo, hi: hi2, rev: rev})
				if r.Chance(1, 3) {
					cj.reads = append(cj.reads, readSpec{lo: []byte("/registry/pods/"), hi: []byte("/registry/pods0"), rev: rev, limit: int64(1 + r.Intn(2))})
				}
				if isCorpus || rev == from || rev == top || rev == (from+top)/2 {
					for _, k := range keyPool {
						cj.reads = append(cj.reads, readSpec{get: true, key: []byte(k), rev: rev})
					}
				}
			}
			cj.reads = append(cj.reads, readSpec{lo: lo, hi: hi2, rev: 0}, readSpec{lo: lo, hi: hi2, rev: 0, limit: 2})
			for _, k := range keyPool {
				cj.reads = append(cj.reads, readSpec{get: true, key: []byte(k), rev: 0})
			}
			newRound := func() ([]lib.CsWrite, []int) {
				var ws []lib.CsWrite
				var ms []int
				for _, pi := range r.Perm(len(keyPool)) {
					op := []string{"create", "update", "delete"}[r.Intn(3)]
					ws = append(ws, lib.CsWrite{Op: op, Key: []byte(keyPool[pi]), Val: []byte(fmt.Sprintf("r%d", r.Intn(100)))})
					ms = append(ms, r.Intn(40))
				}
				return ws, ms
			}
			eng := engines[(hi+ci)%len(engines)]
			rd, rm := newRound()
			cj.specs = append(cj.specs, runSpec{engine: eng, req: reqMode, R: R, round: rd, roundMode: rm})
			cases = append(cases, cj)
			if !withFaults {
				return
			}
			cj.kind += "/faults"
		}
		for ci, R := range Rs {
			mk(R, "R", faultSet[ci], ci)
		}
		mk(h.hist, "zero", hi%3 == 0, len(Rs))
		mk(h.hist, "above", false, len(Rs)+1)
	}

	// run: first the fault-free variant of every case (gives the number of delete calls), then the fault
	// and interleaving variants derived from it
	workers := make(chan *worker, par)
	for i := 0; i < par; i++ {
		workers <- &worker{scratch: args.Scratch, bes: map[string]*lib.CsBackend{}, sw: map[string]*swapKV{}, base: map[string]uint64{}}
	}
	type caseOut struct {
		before   []string
		variants []variantOut
	}
	outs := make([]caseOut, len(cases))
	var wg sync.WaitGroup
	var mu sync.Mutex
	runOne := func(ci int, rs runSpec, first bool) {
		defer wg.Done()
		wk := <-workers
		defer func() { workers <- wk }()
		cj := cases[ci]
		if first {
			// reads before: on a restored copy, no pass
			be, sw, err := wk.backendFor(cj.h.cfg)
			if err != nil {
				mu.Lock()
				outs[ci].variants = append(outs[ci].variants, variantOut{fail: err.Error()})
				mu.Unlock()
				return
			}
			inner, closer, _ := lib.NewEngine(lib.EngMem, wk.scratch)
			_ = restore(inner, cj.h.pre)
			sw.set(&lib.Wrap{KvStorage: inner})
			wk.base[cj.h.cfg.name] += 1000
			be.B.SetCurrentRevision(wk.base[cj.h.cfg.name])
			outs[ci].before = doReads(be, cj.reads)
			closer()
		}
		vo := wk.runVariant(cj.h.cfg, cj.h.pre, cj.h.dec, cj.h.hist, cj.reads, outs[ci].before, rs)
		mu.Lock()
		outs[ci].variants = append(outs[ci].variants, vo)
		mu.Unlock()
	}
	for ci := range cases {
		wg.Add(1)
		go runOne(ci, cases[ci].specs[0], true)
	}
	wg.Wait()
	for ci, cj := range cases {
		if len(outs[ci].variants) == 0 || outs[ci].variants[0].fail != "" {
			continue
		}
		// several partitions whose borders fall inside the version run of one key: adjustPartitionsBorders must keep
		// every key within one worker. Borders at versions of the key with the most versions (two consecutive borders
		// inside one run, and a single one); the engine reports them (lib.Wrap over memkv) or is a TiKV mock split there
		if cj.corpus && outs[ci].variants[0].ndel > 0 {
			var hotK []byte
			var hotRevs []uint64
			byKey := map[string][]uint64{}
			for _, rc := range cj.h.dec {
				if !rc.Idx {
					byKey[string(rc.K)] = append(byKey[string(rc.K)], rc.Rev)
				}
			}
			for _, k := range keyPool {
				if len(byKey[k]) > len(hotRevs) {
					hotK, hotRevs = []byte(k), byKey[k]
				}
			}
			if len(hotRevs) >= 3 {
				n := len(hotRevs)
				i1, i2 := n/3, (2*n)/3
				if i1 < 1 {
					i1 = 1
				}
				if i2 <= i1 {
					i2 = i1 + 1
				}
				two := [][]byte{cd.EncodeObjectKey(hotK, hotRevs[i1]), cd.EncodeObjectKey(hotK, hotRevs[i2])}
				one := [][]byte{cd.EncodeObjectKey(hotK, hotRevs[n-1])}
				base := cj.specs[0]
				spawn := func(rs runSpec) {
					rs.req, rs.R, rs.round, rs.roundMode = base.req, base.R, base.round, base.roundMode
					wg.Add(1)
					go runOne(ci, rs, false)
				}
				spawn(runSpec{engine: lib.EngMem, splits: two})
				if cj.h.hot || ci%3 == 0 {
					spawn(runSpec{engine: lib.EngMem, splits: one})
					spawn(runSpec{engine: lib.EngMem, splits: append(append([][]byte{}, two...), one...), metrics: true})
				}
				if (cj.h.hot && ci%2 == 0) || ci%7 == 0 {
					spawn(runSpec{engine: engTiKVSplit, splits: two})
				}
			}
		}
		if len(cj.kind) < 7 || cj.kind[len(cj.kind)-7:] != "/faults" {
			continue
		}
		r := rnd.Fork()
		ndel := outs[ci].variants[0].ndel
		kinds := outs[ci].variants[0].kinds
		base := cj.specs[0]
		nAdded := 0
		add := func(rs runSpec) {
			if rs.engine == "" {
				rs.engine = base.engine
			}
			rs.req, rs.R = base.req, base.R
			ms := rs.roundMode
			first := map[string]bool{}
			for _, w := range rs.round {
				first[string(w.Key)] = true
			}
			for _, pi := range r.Perm(len(keyPool)) {
				if first[keyPool[pi]] {
					continue
				}
				op := []string{"create", "update", "delete"}[r.Intn(3)]
				rs.round = append(rs.round, lib.CsWrite{Op: op, Key: []byte(keyPool[pi]), Val: []byte(fmt.Sprintf("r%d", r.Intn(100)))})
				ms = append(ms, r.Intn(40))
			}
			rs.roundMode = ms
			nAdded++
			rs.metrics = nAdded%2 == 1
			wg.Add(1)
			go runOne(ci, rs, false)
		}
		for i := 0; i < ndel; i++ {
			add(runSpec{faults: []fault{{i, "other"}}})
			if cj.corpus || (ci+i)%dieEvery == 0 {
				add(runSpec{faults: []fault{{i, "die"}}})
			}
			if kinds[i] == "KDelCur" {
				add(runSpec{faults: []fault{{i, "cas"}}})
			}
		}
		// a transient failure of one iterator step: the worker retries the pass from the start of its range (1 s backoff);
		// what the two attempts delete together is what one pass deletes
		if nn := outs[ci].variants[0].nnext; nn > 0 && cj.corpus {
			step := 1
			if args.Tier == "quick" && !cj.h.hot && nn > 4 {
				step = (nn + 3) / 4
			}
			for n := 1 + (ci % step); n <= nn; n += step {
				add(runSpec{iterFail: n, engine: lib.EngMem}) // memkv: the retried scan sees the store as it is; on TiKV it re-reads its timestamp's snapshot and re-issues the deletes
			}
		}
		if ndel >= 2 { // two failures in one pass
			add(runSpec{faults: []fault{{0, "other"}, {1 + r.Intn(ndel-1), "other"}}})
		}
		// a plain version delete answered with a compare failure (commit write conflict on TiKV): the key must be
		// marked as failed like for any other error (former finding C07-F2)
		for i := 0; i < ndel; i++ {
			if kinds[i] == "KDel" && r.Chance(1, 2) {
				add(runSpec{faults: []fault{{i, "cas"}}})
				break
			}
		}
		// a client Create of a tombstoned key lands exactly before the pass's delete call on that key's index record
		// (the index compare-and-delete must fail and leave the fresh index); afterwards Update at the true revision
		// must succeed (first request of the round) and the dump must show index = (c, live); memkv, Badger, TiKV mock
		nIdx := 0
		for _, rc := range cj.h.dec {
			if !rc.Idx || !rc.Del || (base.req == "R" && rc.Rev > base.R) || nIdx >= 3 {
				continue
			}
			eng := []string{lib.EngMem, lib.EngBadger, lib.EngTiKV}[(ci+nIdx)%3]
			add(runSpec{engine: eng,
				env:       []envWrite{{idxKey: rc.K, w: lib.CsWrite{Op: "create", Key: rc.K, Val: []byte("c")}}},
				round:     []lib.CsWrite{{Op: "update", Key: rc.K, Val: []byte("u")}},
				roundMode: []int{0}})
			nIdx++
		}
		// writers interleaved between the delete calls
		for e := 0; e < envPer && ndel > 0; e++ {
			var env []envWrite
			for j := 0; j < 1+r.Intn(3); j++ {
				op := []string{"create", "update", "delete", "create"}[r.Intn(4)]
				key := keyPool[r.Intn(len(keyPool))]
				if r.Chance(2, 3) {
					key = keyPool[r.Intn(3)]
				}
				env = append(env, envWrite{at: r.Intn(ndel), w: lib.CsWrite{Op: op, Key: []byte(key), Val: []byte(fmt.Sprintf("w%d", r.Intn(100)))}})
			}
			rs := runSpec{env: env}
			if r.Chance(1, 3) {
				rs.faults = []fault{{r.Intn(ndel), []string{"other", "die"}[r.Intn(2)]}}
			}
			add(rs)
		}
	}
	wg.Wait()

	for ci, cj := range cases {
		o := outs[ci]
		var vs []string
		var vj []interface{}
		var oc []string
		changed, ndel := false, 0
		failed := ""
		for _, v := range o.variants {
			if v.fail != "" {
				failed = v.fail
				continue
			}
			vs = append(vs, v.coq)
			vj = append(vj, v.json)
			oc = append(oc, v.outcomes...)
			changed = changed || v.changed
			ndel += v.ndel
		}
		// deterministic order of the concurrently produced variants
		sort.Strings(vs)
		j := map[string]interface{}{"config": cj.h.cfg.name, "skipped": cj.h.cfg.skipped, "history": cj.h.json, "history_rev": cj.h.hist,
			"R": cj.R, "req_mode": cj.req, "variants": vj}
		if failed != "" {
			w.Fail(lib.ImplFailure{CaseID: w.Len(), What: failed, Case: j})
		}
		var rcoq []string
		for _, rd := range cj.reads {
			rcoq = append(rcoq, rd.coq())
		}
		var sk []string
		for _, s := range cj.h.cfg.skipped {
			sk = append(sk, lib.Str(s))
		}
		coq := lib.App("mkC7", lib.Str(cj.h.cfg.prefix()), lib.List(sk), borders[cj.h.cfg.name], lib.CsRecsCoq(cj.h.dec, tab),
			lib.List(rcoq), lib.List(o.before), lib.List(vs))
		if ndel > 0 {
			oc = append(oc, "deletes")
		} else {
			oc = append(oc, "no-deletes")
		}
		w.Add(lib.Case{Kind: cj.kind, Coq: coq, JSON: j, Trivial: ndel == 0, Outcomes: oc})
	}
	if err := w.Finish("random histories over 8 keys (inside the prefix, under skipped prefixes, outside the prefix) with updates, deletes, re-creations and earlier (failing) compactions, plus two scripted ones, under 6 prefix/skipped-prefix configurations; one case per (history, R) for every revision R of the history, R=0 and R above current; variants: fault-free, delete call #i failing / dying / compare-failing for every i, two failures, writers interleaved between delete calls, a client Create of a tombstoned key placed exactly before the delete call on that key's index record (memkv, Badger, TiKV mock; the round then starts with an Update at the true revision); every second fault / interleaving variant runs with the storage metrics wrapper above the failing engine (the production stack); scripted cases also with one iterator step (Next) of the scan failing once, at every / at sampled positions, followed by the worker's own retry (memkv); configurations with an empty configured prefix (with and without skipped prefixes); scripted cases (incl. a hot key created, updated x5, deleted) also on engines reporting 2-4 partitions with borders inside one key's version run (memkv behind lib.Wrap.Partitions, TiKV mock split at those keys), delete calls collected in key order; distinct = SHA-256 of the Coq case; non-trivial = the pass issued at least one engine delete"); err != nil {
		fmt.Fprintln(os.Stderr, err)
		os.Exit(2)
	}
}
