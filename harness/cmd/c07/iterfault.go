package main

// An engine wrapper that fails one iterator step: the n-th Next() of the iterators opened while armed returns an
// error once (a transient scan failure); the scan worker's normal retry follows. It sits BELOW lib.Wrap, which
// unwraps its own iterator type before handing the iterator back for DelCurrent.

import (
	"context"
	"sync"

	"github.com/kubewharf/kubebrain/pkg/storage"
)

type iterFaultKV struct {
	storage.KvStorage
	mu     sync.Mutex
	armed  bool
	failAt int // 1-based index of the Next call that fails; 0 = never
	nexts  int // Next calls seen while armed
	fired  bool
}

type faultIter struct {
	storage.Iter
	kv *iterFaultKV
}

func (k *iterFaultKV) arm(on bool) { k.mu.Lock(); k.armed = on; k.mu.Unlock() }

func (k *iterFaultKV) Iter(ctx context.Context, start, end []byte, ts, limit uint64) (storage.Iter, error) {
	it, err := k.KvStorage.Iter(ctx, start, end, ts, limit)
	if err != nil {
		return nil, err
	}
	return &faultIter{Iter: it, kv: k}, nil
}

func (it *faultIter) Next(ctx context.Context) error {
	k := it.kv
	k.mu.Lock()
	fail := false
	if k.armed {
		k.nexts++
		if k.failAt != 0 && k.nexts == k.failAt && !k.fired {
			k.fired, fail = true, true
		}
	}
	k.mu.Unlock()
	if fail {
		return errInjected
	}
	return it.Iter.Next(ctx)
}

func unwrapFaultIter(it storage.Iter) storage.Iter {
	if fi, ok := it.(*faultIter); ok {
		return fi.Iter
	}
	return it
}

func (k *iterFaultKV) DelCurrent(ctx context.Context, it storage.Iter) error {
	return k.KvStorage.DelCurrent(ctx, unwrapFaultIter(it))
}

type faultBatch struct{ storage.BatchWrite }

func (k *iterFaultKV) BeginBatchWrite() storage.BatchWrite {
	return &faultBatch{k.KvStorage.BeginBatchWrite()}
}
func (b *faultBatch) DelCurrent(it storage.Iter) { b.BatchWrite.DelCurrent(unwrapFaultIter(it)) }
