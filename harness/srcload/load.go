// Package srcload loads the packages of the repository under verification with full type
// information: the module's own packages are parsed and type-checked from source (production
// build, no tags), everything else comes from compiler export data (`go list -export`).
// Standard library + the go command only.
package srcload

import (
	"bytes"
	"encoding/json"
	"fmt"
	"go/ast"
	"go/importer"
	"go/parser"
	"go/token"
	"go/types"
	"io"
	"os"
	"os/exec"
	"path/filepath"
	"sort"
	"strings"
)

type listPkg struct {
	ImportPath string
	Dir        string
	GoFiles    []string
	CgoFiles   []string
	Export     string
	Standard   bool
	ImportMap  map[string]string
	Module     *struct{ Path string }
	Error      *struct{ Err string }
}

// Pkg is one package of the module, checked from source.
type Pkg struct {
	Path  string
	Dir   string
	Files []*ast.File
	Types *types.Package
	Info  *types.Info
}

type Program struct {
	Repo   string
	Module string
	Fset   *token.FileSet
	Pkgs   []*Pkg // dependency order
	ByPath map[string]*Pkg
}

// RepoDir returns $VERIF_REPO or /repo; VerifDir returns $VERIF_DIR or /verif.
func RepoDir() string {
	if d := os.Getenv("VERIF_REPO"); d != "" {
		return d
	}
	return "/repo"
}
func VerifDir() string {
	if d := os.Getenv("VERIF_DIR"); d != "" {
		return d
	}
	return "/verif"
}

type imp struct {
	prog    *Program
	exports map[string]string
	gc      types.Importer
	cur     map[string]string // ImportMap of the package being checked
}

func (i *imp) Import(path string) (*types.Package, error) { return i.ImportFrom(path, "", 0) }
func (i *imp) ImportFrom(path, dir string, mode types.ImportMode) (*types.Package, error) {
	if m, ok := i.cur[path]; ok {
		path = m
	}
	if p, ok := i.prog.ByPath[path]; ok {
		return p.Types, nil
	}
	if path == "unsafe" {
		return types.Unsafe, nil
	}
	return i.gc.Import(path)
}

// Load lists patterns (e.g. "./cmd/...", "./pkg/...") inside repo and type-checks the module's packages.
func Load(repo string, patterns ...string) (*Program, error) {
	args := append([]string{"list", "-e", "-export", "-deps", "-json=ImportPath,Dir,GoFiles,CgoFiles,Export,Standard,ImportMap,Module,Error"}, patterns...)
	cmd := exec.Command("go", args...)
	cmd.Dir = repo
	// never write to the repository: its go.mod/go.sum are complete
	env := []string{}
	for _, e := range os.Environ() {
		if strings.HasPrefix(e, "GOFLAGS=") {
			continue
		}
		env = append(env, e)
	}
	cmd.Env = append(env, "GOFLAGS=-mod=readonly", "GOPROXY=off", "GOSUMDB=off", "GOTOOLCHAIN=local")
	var stderr bytes.Buffer
	cmd.Stderr = &stderr
	out, err := cmd.Output()
	if err != nil {
		return nil, fmt.Errorf("go list: %v: %s", err, stderr.String())
	}
	prog := &Program{Repo: repo, Fset: token.NewFileSet(), ByPath: map[string]*Pkg{}}
	exports := map[string]string{}
	var own []listPkg
	dec := json.NewDecoder(bytes.NewReader(out))
	for {
		var p listPkg
		if err := dec.Decode(&p); err == io.EOF {
			break
		} else if err != nil {
			return nil, err
		}
		if p.Export != "" {
			exports[p.ImportPath] = p.Export
		}
		if p.Module != nil && !p.Standard {
			if strings.HasPrefix(p.Dir, repo+string(filepath.Separator)) || p.Dir == repo {
				if prog.Module == "" {
					prog.Module = p.Module.Path
				}
				if p.Error != nil {
					return nil, fmt.Errorf("package %s: %s", p.ImportPath, p.Error.Err)
				}
				own = append(own, p)
			}
		}
	}
	im := &imp{prog: prog, exports: exports}
	im.gc = importer.ForCompiler(prog.Fset, "gc", func(path string) (io.ReadCloser, error) {
		f, ok := exports[path]
		if !ok {
			return nil, fmt.Errorf("no export data for %q", path)
		}
		return os.Open(f)
	})
	for _, lp := range own { // go list -deps prints dependencies first
		pkg := &Pkg{Path: lp.ImportPath, Dir: lp.Dir}
		files := append([]string{}, lp.GoFiles...)
		files = append(files, lp.CgoFiles...)
		sort.Strings(files)
		for _, f := range files {
			af, err := parser.ParseFile(prog.Fset, filepath.Join(lp.Dir, f), nil, parser.ParseComments)
			if err != nil {
				return nil, err
			}
			pkg.Files = append(pkg.Files, af)
		}
		pkg.Info = &types.Info{
			Types:      map[ast.Expr]types.TypeAndValue{},
			Defs:       map[*ast.Ident]types.Object{},
			Uses:       map[*ast.Ident]types.Object{},
			Selections: map[*ast.SelectorExpr]*types.Selection{},
			Implicits:  map[ast.Node]types.Object{},
			Scopes:     map[ast.Node]*types.Scope{},
		}
		im.cur = lp.ImportMap
		var firstErr error
		conf := types.Config{Importer: im, Error: func(err error) {
			if firstErr == nil {
				firstErr = err
			}
		}}
		tp, _ := conf.Check(lp.ImportPath, prog.Fset, pkg.Files, pkg.Info)
		if firstErr != nil {
			return nil, fmt.Errorf("type-check %s: %v", lp.ImportPath, firstErr)
		}
		pkg.Types = tp
		prog.Pkgs = append(prog.Pkgs, pkg)
		prog.ByPath[lp.ImportPath] = pkg
	}
	if len(prog.Pkgs) == 0 {
		return nil, fmt.Errorf("no packages of the module found under %s", repo)
	}
	return prog, nil
}

// Rel renders a position relative to the repository root ("pkg/x/y.go:12").
func (p *Program) Rel(pos token.Pos) string {
	po := p.Fset.Position(pos)
	r, err := filepath.Rel(p.Repo, po.Filename)
	if err != nil {
		r = po.Filename
	}
	return fmt.Sprintf("%s:%d", r, po.Line)
}

// PkgOf returns the program package that declares the given file position.
func (p *Program) PkgOf(obj types.Object) *Pkg {
	if obj == nil || obj.Pkg() == nil {
		return nil
	}
	return p.ByPath[obj.Pkg().Path()]
}

// FuncDecls enumerates every function declaration of the program.
func (p *Program) FuncDecls(f func(pkg *Pkg, fd *ast.FuncDecl)) {
	for _, pkg := range p.Pkgs {
		for _, file := range pkg.Files {
			for _, d := range file.Decls {
				if fd, ok := d.(*ast.FuncDecl); ok {
					f(pkg, fd)
				}
			}
		}
	}
}

// CoqBytes renders a Go string as a Coq list of N.
func CoqBytes(s string) string {
	if len(s) == 0 {
		return "[]"
	}
	var sb strings.Builder
	sb.WriteByte('[')
	for i := 0; i < len(s); i++ {
		if i > 0 {
			sb.WriteByte(';')
		}
		fmt.Fprintf(&sb, "%d", s[i])
	}
	sb.WriteByte(']')
	return sb.String()
}
