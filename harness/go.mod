module kbverif

go 1.14

require (
	github.com/kubewharf/kubebrain v0.0.0
	github.com/kubewharf/kubebrain-client v0.2.1
	github.com/pingcap/kvproto v0.0.0-20220106070556-3fa8fa04f898
	github.com/soheilhy/cmux v0.1.5
	github.com/tikv/client-go/v2 v2.0.1
	github.com/tikv/pd/client v0.0.0-20220216070739-26c668271201
	go.etcd.io/etcd/api/v3 v3.5.2
	google.golang.org/grpc v1.43.0
	k8s.io/apimachinery v0.20.4
	k8s.io/client-go v0.20.2
	k8s.io/klog/v2 v2.4.0
)

replace (
	github.com/googleapis/gnostic => github.com/googleapis/gnostic v0.3.1
	github.com/kubewharf/kubebrain => /repo
	google.golang.org/grpc => google.golang.org/grpc v1.38.0
	k8s.io/api => k8s.io/api v0.0.0-20191004102349-159aefb8556b
	k8s.io/apiextensions-apiserver => k8s.io/apiextensions-apiserver v0.0.0-20191004105649-b14e3c49469a
	k8s.io/apimachinery => k8s.io/apimachinery v0.0.0-20191004074956-c5d2f014d689
	k8s.io/apiserver => k8s.io/apiserver v0.0.0-20191109015554-8577c320c87f
	k8s.io/cli-runtime => k8s.io/cli-runtime v0.0.0-20191004110135-b9eb767d2e1a
	k8s.io/client-go => k8s.io/client-go v11.0.1-0.20191029005444-8e4128053008+incompatible
	k8s.io/cloud-provider => k8s.io/cloud-provider v0.0.0-20191002184608-9779a9fba520
	k8s.io/csi-translation-lib => k8s.io/csi-translation-lib v0.0.0-20191016015547-9213b55ba309
	k8s.io/kube-openapi => k8s.io/kube-openapi v0.0.0-20190228160746-b3a7cee44a30
	k8s.io/kubernetes => k8s.io/kubernetes v1.14.8
	k8s.io/metrics => k8s.io/metrics v0.0.0-20191004105854-2e8cf7d0888c
	k8s.io/utils => k8s.io/utils v0.0.0-20200327001022-6496210b90e8
)
