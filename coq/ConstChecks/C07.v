(* compiled after coq/Gen/Consts.v has been regenerated from the Go sources *)
From KB Require Import Base.Bytes Model.CompactSys Gen.Consts.
Theorem C07_consts_agree : (go_backend_tombStoneBytes, go_backend_events, go_scanner_revisionValueLengthWithDeletionFlag) = (CompactSys.tombstone, CompactSys.events_sub, 9%N).
Proof. reflexivity. Qed.
Print Assumptions C07_consts_agree.
