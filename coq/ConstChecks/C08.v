(* compiled after coq/Gen/Consts.v has been regenerated from the Go sources *)
From KB Require Import Base.Bytes Model.CompactSys Gen.Consts.
Theorem C08_consts_agree : (go_backend_tombStoneBytes, go_backend_compactKey) = (CompactSys.tombstone, [99;111;109;112;97;99;116;95;107;101;121]%N).
Proof. reflexivity. Qed.
Print Assumptions C08_consts_agree.
