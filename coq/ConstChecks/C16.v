(* compiled after coq/Gen/Consts.v has been regenerated from the Go sources *)
From KB Require Import Base.Bytes Model.Etcd Gen.Consts.
Theorem C16_consts_agree : (go_backend_tombStoneBytes, Z.of_N go_etcd_GetPartitionMagic) = (Etcd.tombstone, Etcd.partition_magic).
Proof. reflexivity. Qed.
Print Assumptions C16_consts_agree.

(* ---- C16Backlog: the batch-size arithmetic of Backend.catchUpEvents, extracted from pkg/backend/watch.go by
   harness/cmd/gen_c16expr (coq/Gen/C16Expr.v), is the one of the watch model (WatchSys.catchup_batch_size), whose bound
   "a backlog fits into the result channel" is C05_catchup_fits.  The 30051-event backlog case of the C16 driver exercises
   it at the real constants; this obligation breaks on any edit of the divisor or of the threshold. *)
From Coq Require Import String Ascii.
From KB Require Import Model.GoExpr Model.WatchSys Gen.C16Expr.

Fixpoint bytes_of_string (s : string) : bytes :=
  match s with
  | EmptyString => []
  | String a s' => N_of_ascii a :: bytes_of_string s'
  end.

Definition go_env (pa : params) (n : bytes) : option Z :=
  if beqb n (bytes_of_string "resultChanLength") then Some (Z.of_N (p_out pa))
  else if beqb n (bytes_of_string "eventBatchSize") then Some (Z.of_N (p_batch pa))
  else None.

Lemma go_env_out pa : go_env pa [114; 101; 115; 117; 108; 116; 67; 104; 97; 110; 76; 101; 110; 103; 116; 104]%N = Some (Z.of_N (p_out pa)).
Proof. reflexivity. Qed.
Lemma go_env_batch pa : go_env pa [101; 118; 101; 110; 116; 66; 97; 116; 99; 104; 83; 105; 122; 101]%N = Some (Z.of_N (p_batch pa)).
Proof. reflexivity. Qed.

Theorem C16_catchup_arithmetic_agrees : forall pa len, (1 <= p_out pa)%N ->
  gcatchup_eval (go_env pa) (Z.of_N len) go_catchup_batch_size = option_map Z.of_N (catchup_batch_size pa len).
Proof.
  intros pa len Hout. unfold go_catchup_batch_size, gcatchup_eval, gcond_eval, catchup_batch_size.
  cbn [g_extra g_cond g_then g_init geval]. rewrite !go_env_out, !go_env_batch.
  rewrite <- N2Z.inj_mul.
  assert (E : (Z.of_N len >? Z.of_N (p_out pa * p_batch pa))%Z = (p_out pa * p_batch pa <? len)%N).
  { rewrite Z.gtb_ltb. destruct (N.ltb_spec (p_out pa * p_batch pa) len), (Z.ltb_spec (Z.of_N (p_out pa * p_batch pa)) (Z.of_N len)); try reflexivity; lia. }
  rewrite E. destruct (p_out pa * p_batch pa <? len)%N; [|reflexivity].
  assert (E2 : ((Z.of_N (p_out pa) - 1 =? 0)%Z) = (p_out pa - 1 =? 0)%N).
  { destruct (Z.eqb_spec (Z.of_N (p_out pa) - 1) 0), (N.eqb_spec (p_out pa - 1) 0); try reflexivity; lia. }
  rewrite E2. destruct (N.eqb_spec (p_out pa - 1) 0); [reflexivity|].
  cbn [option_map]. f_equal. rewrite Z.quot_div_nonneg by lia.
  replace (Z.of_N (p_out pa) - 1)%Z with (Z.of_N (p_out pa - 1)) by lia. rewrite <- N2Z.inj_div. reflexivity.
Qed.
Print Assumptions C16_catchup_arithmetic_agrees.

(* non-vacuity at the real constants: the 30051-event backlog of the driver is cut into batches of 303 *)
Example C16_catchup_real : gcatchup_eval (go_env real_params) 30051 go_catchup_batch_size = Some 303%Z.
Proof. vm_compute. reflexivity. Qed.
