(* compiled after coq/Gen/Consts.v has been regenerated from the Go sources *)
From KB Require Import Base.Bytes Model.Etcd Gen.Consts.
Theorem C16_consts_agree : (go_backend_tombStoneBytes, Z.of_N go_etcd_GetPartitionMagic) = (Etcd.tombstone, Etcd.partition_magic).
Proof. reflexivity. Qed.
Print Assumptions C16_consts_agree.
