(* Compiled on every check AFTER coq/Gen/Consts.v has been regenerated from the Go sources:
   the constants the hand-written codec model uses are exactly the ones in the code. *)
From KB Require Import Base.Bytes Model.Coder Gen.Consts.
Theorem C10_consts_agree :
  (go_coder_magic, go_coder_splitByte, go_coder_RevisionValueLength, go_coder_RevisionValueLengthWithDeletionFlag, go_backend_noPrefixEnd)
  = (magic, split_byte, 8, 9, no_prefix_end).
Proof. reflexivity. Qed.
Print Assumptions C10_consts_agree.
