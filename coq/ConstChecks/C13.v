(* compiled after coq/Gen/Consts.v has been regenerated from the Go sources *)
From KB Require Import Base.Bytes Model.ReadSys Gen.Consts.
Theorem C13_consts_agree : (go_backend_tombStoneBytes, go_scanner_rangeStreamBatch) = (ReadSys.tombstone, N.of_nat ReadSys.stream_batch).
Proof. reflexivity. Qed.
Print Assumptions C13_consts_agree.
