(* compiled after coq/Gen/C18Rpc.v has been regenerated from the gRPC service registration of the two front-ends
   (harness/cmd/gen_c18rpc).  The role table of Model/Roles.v is tied to the RPCs the node really serves: every registered
   RPC has at least one request kind, no kind belongs to an RPC that is not registered, and every kind of all_kinds other
   than the two background ones (the compaction loop, the /status HTTP handler) belongs to a registered RPC. *)
From Coq Require Import String Ascii.
From KB Require Import Base.Bytes Model.Roles Gen.C18Rpc.
Local Open Scope N_scope.

Fixpoint bytes_of_string (s : string) : bytes :=
  match s with
  | EmptyString => []
  | String a s' => N_of_ascii a :: bytes_of_string s'
  end.
Definition b (s : string) : bytes := bytes_of_string s.

Scheme Equality for rmode.
Scheme Equality for revsel.
Scheme Equality for kind.

Definition range_at_kinds : list kind :=
  flat_map (fun m => map (ERangeAt m) [RvPinned; RvCurrent; RvFuture; RvMagic]) [MGet; MList; MCount].

(* which request kinds of the model enter through which registered RPC, in the order of the generated list *)
Definition rpc_kinds : list (bytes * list kind) := [
  (b "Read/Count", [BCount]);
  (b "Read/Get", [BGet]);
  (b "Read/ListPartition", [BListPartition]);
  (b "Read/Range", [BRange]);
  (b "Read/RangeStream", [BRangeStream]);
  (b "Watch/Watch", [BWatch]);
  (b "Write/Compact", [BCompact]);
  (b "Write/Create", [BCreate]);
  (b "Write/Delete", [BDelete]);
  (b "Write/Update", [BUpdate]);
  (b "etcdserverpb.Cluster/MemberAdd", [EMemberAdd]);
  (b "etcdserverpb.Cluster/MemberList", [EMemberList]);
  (b "etcdserverpb.Cluster/MemberPromote", [EMemberPromote]);
  (b "etcdserverpb.Cluster/MemberRemove", [EMemberRemove]);
  (b "etcdserverpb.Cluster/MemberUpdate", [EMemberUpdate]);
  (b "etcdserverpb.KV/Compact", [ECompact]);
  (b "etcdserverpb.KV/DeleteRange", [EDeleteRange]);
  (b "etcdserverpb.KV/Put", [EPut]);
  (b "etcdserverpb.KV/Range", [ERangeGet; ERangeList; ERangeCount; ERangePartition] ++ range_at_kinds);
  (b "etcdserverpb.KV/Txn", [ETxnCreate; ETxnDelete; ETxnUpdate; ETxnCompact; ETxnInvalid]);
  (b "etcdserverpb.Lease/LeaseGrant", [ELeaseGrant]);
  (b "etcdserverpb.Lease/LeaseKeepAlive", [ELeaseKeepAlive]);
  (b "etcdserverpb.Lease/LeaseLeases", [ELeaseLeases]);
  (b "etcdserverpb.Lease/LeaseRevoke", [ELeaseRevoke]);
  (b "etcdserverpb.Lease/LeaseTimeToLive", [ELeaseTimeToLive]);
  (b "etcdserverpb.Watch/Watch", [EWatchPure; EWatchStream; EWatchInvalidKey])
].

Definition background (k : kind) : bool := match k with CompactLoopTick | StatusHandler => true | _ => false end.
Definition in_table (k : kind) : bool := existsb (fun e => existsb (kind_beq k) (snd e)) rpc_kinds.

(* the RPCs of the table are exactly the registered ones, each with at least one kind *)
Theorem C18_rpc_table_is_registration :
  map fst rpc_kinds = go_registered_rpcs /\ forallb (fun e => negb (Nat.eqb (List.length (snd e)) 0)) rpc_kinds = true.
Proof. vm_compute. split; reflexivity. Qed.
Print Assumptions C18_rpc_table_is_registration.

(* every kind the theorems and the driver enumerate is a background kind or enters through a registered RPC, and the
   table mentions no kind outside all_kinds *)
Theorem C18_kinds_are_rpcs :
  forallb (fun k => background k || in_table k) all_kinds = true
  /\ forallb (fun e => forallb (fun k => existsb (kind_beq k) all_kinds) (snd e)) rpc_kinds = true.
Proof. vm_compute. split; reflexivity. Qed.
Print Assumptions C18_kinds_are_rpcs.

(* hence: for every registered RPC and every kind it carries, a follower neither writes nor serves a watch locally *)
Theorem C18_registered_rpcs_follower_safe : forall name ks k proxy l,
  In (name, ks) rpc_kinds -> In k ks ->
  f_backend (roles_effects k Follower proxy l) <> BMutate /\ f_backend (roles_effects k Follower proxy l) <> BWatchCall.
Proof. intros name ks k proxy l _ _. destruct k, proxy, l; cbn; split; discriminate. Qed.
Print Assumptions C18_registered_rpcs_follower_safe.
