(* compiled after coq/Gen/Consts.v has been regenerated from the Go sources *)
From KB Require Import Base.Bytes Model.RevSys Model.KeySys Gen.Consts.
Theorem C02_consts_agree : (go_backend_tombStoneBytes, go_backend_watchersChanCapacity) = (KeySys.tombstone, RevSys.cap).
Proof. reflexivity. Qed.
Print Assumptions C02_consts_agree.
