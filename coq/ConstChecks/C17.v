(* compiled after coq/Gen/Consts.v has been regenerated from the Go sources *)
From KB Require Import Base.Bytes Model.CompactSys Gen.Consts.
Theorem C17_consts_agree : (go_backend_tombStoneBytes, go_backend_events) = (CompactSys.tombstone, CompactSys.events_sub).
Proof. reflexivity. Qed.
Print Assumptions C17_consts_agree.
