(* compiled after coq/Gen/Consts.v has been regenerated from the Go sources *)
From KB Require Import Base.Bytes Model.WatchSys Gen.Consts.
Theorem C05_consts_agree : (go_backend_watchBuffer, go_backend_resultChanLength, go_backend_eventBatchSize, go_backend_watchersChanCapacity) = (p_hub real_params, p_out real_params, p_batch real_params, p_wchan real_params).
Proof. reflexivity. Qed.
Print Assumptions C05_consts_agree.
