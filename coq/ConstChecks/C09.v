(* compiled after coq/Gen/Consts.v has been regenerated from the Go sources *)
From KB Require Import Base.Bytes Model.RetrySys Gen.Consts.
Theorem C09_consts_agree : go_backend_tombStoneBytes = RetrySys.tombstone.
Proof. reflexivity. Qed.
Print Assumptions C09_consts_agree.
