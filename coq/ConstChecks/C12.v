(* compiled after coq/Gen/Consts.v has been regenerated from the Go sources *)
From KB Require Import Base.Bytes Model.BackendSeq Gen.Consts.
Theorem C12_consts_agree : go_backend_tombStoneBytes = BackendSeq.tombstone.
Proof. reflexivity. Qed.
Print Assumptions C12_consts_agree.
