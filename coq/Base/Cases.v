(* Generic frame of a correspondence shard: which cases disagree with the model, and on which
   cases the implementation's own observation violates the property's executable oracle. *)
From KB Require Export Base.Bytes.

Definition mismatches {A} (check : A -> bool) (cs : list (N * A)) : list N :=
  map fst (filter (fun c => negb (check (snd c))) cs).

(* an oracle returns None when the observation satisfies the property, Some code otherwise;
   code 0 = unlisted violation, code > 0 = signature of a finding in known_findings.json *)
Definition oracle_failures {A} (orc : A -> option N) (cs : list (N * A)) : list (N * N) :=
  flat_map (fun c => match orc (snd c) with Some code => [(fst c, code)] | None => [] end) cs.

Definition ok_if (b : bool) : option N := if b then None else Some 0.
Definition ok_or (b : bool) (code : N) : option N := if b then None else Some code.

Definition opt_eqb {A} (eqb : A -> A -> bool) (x y : option A) : bool :=
  match x, y with
  | None, None => true
  | Some a, Some b => eqb a b
  | _, _ => false
  end.

Fixpoint list_eqb {A} (eqb : A -> A -> bool) (x y : list A) : bool :=
  match x, y with
  | [], [] => true
  | a :: x', b :: y' => eqb a b && list_eqb eqb x' y'
  | _, _ => false
  end.

Definition cmp_to_Z (c : comparison) : Z := match c with Eq => 0%Z | Lt => (-1)%Z | Gt => 1%Z end.
