(* Byte strings as lists of N (each element < 256), with Go's bytes.Compare. *)
From Coq Require Export List NArith ZArith Lia Bool.
Export ListNotations.
Open Scope N_scope.

Definition bytes := list N.

Definition wf_bytes (b : bytes) : Prop := Forall (fun x => x < 256) b.
Definition wf_bytesb (b : bytes) : bool := forallb (fun x => x <? 256) b.

(* bytes.Compare *)
Fixpoint bcmp (a b : bytes) : comparison :=
  match a, b with
  | [], [] => Eq
  | [], _ :: _ => Lt
  | _ :: _, [] => Gt
  | x :: a', y :: b' =>
      match N.compare x y with
      | Eq => bcmp a' b'
      | c => c
      end
  end.

Definition beqb (a b : bytes) : bool := match bcmp a b with Eq => true | _ => false end.
Definition bltb (a b : bytes) : bool := match bcmp a b with Lt => true | _ => false end.
Definition bleb (a b : bytes) : bool := match bcmp a b with Gt => false | _ => true end.

(* bytes.HasPrefix k p *)
Fixpoint has_prefix (p k : bytes) : bool :=
  match p, k with
  | [], _ => true
  | _ :: _, [] => false
  | x :: p', y :: k' => (x =? y) && has_prefix p' k'
  end.

(* bytes.Contains k sub *)
Fixpoint contains (sub k : bytes) : bool :=
  has_prefix sub k || match k with [] => false | _ :: k' => contains sub k' end.

Lemma wf_bytesb_spec b : wf_bytesb b = true <-> wf_bytes b.
Proof.
  unfold wf_bytesb, wf_bytes. rewrite forallb_forall, Forall_forall.
  split; intros H x Hx; specialize (H x Hx); apply N.ltb_lt; exact H.
Qed.

Lemma bcmp_refl a : bcmp a a = Eq.
Proof. induction a as [|x a IH]; simpl; [reflexivity|]. rewrite N.compare_refl. exact IH. Qed.

Lemma bcmp_eq a b : bcmp a b = Eq <-> a = b.
Proof.
  split; [|intros ->; apply bcmp_refl].
  revert b; induction a as [|x a IH]; intros [|y b]; simpl; try discriminate; [reflexivity|].
  destruct (N.compare_spec x y) as [->|Hlt|Hgt]; try discriminate.
  intros H. f_equal. apply IH. exact H.
Qed.

Lemma bcmp_antisym a b : bcmp b a = CompOpp (bcmp a b).
Proof.
  revert b; induction a as [|x a IH]; intros [|y b]; simpl; try reflexivity.
  rewrite (N.compare_antisym x y).
  destruct (N.compare x y); simpl; [apply IH|reflexivity|reflexivity].
Qed.

Lemma bcmp_lt_trans a b c : bcmp a b = Lt -> bcmp b c = Lt -> bcmp a c = Lt.
Proof.
  revert b c; induction a as [|x a IH]; intros [|y b] [|z c]; simpl; try discriminate; try reflexivity.
  destruct (N.compare_spec x y) as [->|Hxy|Hxy]; try discriminate.
  - destruct (N.compare_spec y z) as [->|Hyz|Hyz]; try discriminate; [apply IH|reflexivity].
  - intros _. destruct (N.compare_spec y z) as [->|Hyz|Hyz]; try discriminate; intros _.
    + destruct (N.compare_spec x z); try lia; reflexivity.
    + destruct (N.compare_spec x z); try lia; reflexivity.
Qed.

Lemma bcmp_gt_lt a b : bcmp a b = Gt <-> bcmp b a = Lt.
Proof. rewrite (bcmp_antisym a b). destruct (bcmp a b); simpl; split; congruence. Qed.

Lemma bcmp_le_lt_trans a b c : bcmp a b <> Gt -> bcmp b c = Lt -> bcmp a c = Lt.
Proof.
  intros H1 H2. destruct (bcmp a b) eqn:E; try congruence.
  - apply bcmp_eq in E; subst; exact H2.
  - eapply bcmp_lt_trans; eauto.
Qed.

Lemma bcmp_lt_le_trans a b c : bcmp a b = Lt -> bcmp b c <> Gt -> bcmp a c = Lt.
Proof.
  intros H1 H2. destruct (bcmp b c) eqn:E; try congruence.
  - apply bcmp_eq in E; subst; exact H1.
  - eapply bcmp_lt_trans; eauto.
Qed.

Lemma bcmp_le_trans a b c : bcmp a b <> Gt -> bcmp b c <> Gt -> bcmp a c <> Gt.
Proof.
  intros H1 H2. destruct (bcmp b c) eqn:E; try congruence.
  - apply bcmp_eq in E; subst; exact H1.
  - rewrite (bcmp_le_lt_trans a b c H1 E). discriminate.
Qed.

Lemma bcmp_app_same p a b : bcmp (p ++ a) (p ++ b) = bcmp a b.
Proof. induction p as [|x p IH]; simpl; [reflexivity|]. rewrite N.compare_refl. exact IH. Qed.

Lemma beqb_eq a b : beqb a b = true <-> a = b.
Proof. unfold beqb. rewrite <- bcmp_eq. destruct (bcmp a b); split; congruence. Qed.

Lemma beqb_refl a : beqb a a = true.
Proof. apply beqb_eq; reflexivity. Qed.

Lemma beqb_neq a b : beqb a b = false <-> a <> b.
Proof. rewrite <- beqb_eq. destruct (beqb a b); split; congruence. Qed.

Lemma has_prefix_app p s : has_prefix p (p ++ s) = true.
Proof. induction p as [|x p IH]; simpl; [reflexivity|]. rewrite N.eqb_refl. exact IH. Qed.

Lemma has_prefix_spec p k : has_prefix p k = true <-> exists s, k = p ++ s.
Proof.
  split.
  - revert k; induction p as [|x p IH]; intros k H; [exists k; reflexivity|].
    destruct k as [|y k]; simpl in H; [discriminate|].
    apply andb_true_iff in H as [Hxy Hp]. apply N.eqb_eq in Hxy; subst y.
    destruct (IH k Hp) as [s ->]. exists s; reflexivity.
  - intros [s ->]. apply has_prefix_app.
Qed.

Lemma wf_bytes_app a b : wf_bytes (a ++ b) <-> wf_bytes a /\ wf_bytes b.
Proof. unfold wf_bytes. apply Forall_app. Qed.
