(* Watchers do not influence each other: what watcher i holds and has delivered after a run is what it holds after the
   same run with every step of another watcher j (its cache read, its spawn, its processEvents and client steps, its
   cancellation and ctx deleter) removed. This is the model-level content of "several watches multiplexed on one
   stream, or several clients, each get exactly their own events". *)
From Coq Require Import ZifyN ZifyNat ZifyBool Sorted.
From KB Require Import Base.Bytes Model.WatchSys Proofs.WatchRing Proofs.WatchSys Proofs.WatchCatchup Proofs.WatchNoPanic.
Local Open Scope N_scope.

Definition label_target (lb : label) : option nat :=
  match lb with
  | LCtxDelete w | LWatchRead w | LWatchSpawn w | LProc w | LConsume w | LCancel w => Some w
  | _ => None
  end.

Definition targets (j : nat) (lb : label) : bool :=
  match label_target lb with Some w => Nat.eqb w j | None => false end.

Lemma nth_upd_other {A} (f : A -> A) j i l : i <> j -> nth_error (upd_nth j f l) i = nth_error l i.
Proof.
  revert j i; induction l as [|h t IH]; intros [|j] [|i] H; cbn; try reflexivity; try congruence. apply IH. congruence.
Qed.

Lemma upd_length {A} (f : A -> A) j l : length (upd_nth j f l) = length l.
Proof. revert j; induction l as [|h t IH]; intros [|j]; cbn; auto. Qed.

(* equal up to watcher j (and the ghost log of dropped subscribers) *)
Record same_except (j : nat) (s s' : sys) : Prop := {
  se_committed : s_committed s = s_committed s';
  se_cur : s_cur s = s_cur s';
  se_pending : s_pending s = s_pending s';
  se_cache : s_cache s = s_cache s';
  se_wchan : s_wchan s = s_wchan s';
  se_panic : s_panic s = s_panic s';
  se_cached : s_cachedR s = s_cachedR s';
  se_hub : s_hubR s = s_hubR s';
  se_len : length (s_ws s) = length (s_ws s');
  se_ws : forall i, i <> j -> nth_error (s_ws s) i = nth_error (s_ws s') i
}.

Lemma se_refl j s : same_except j s s.
Proof. constructor; reflexivity. Qed.

Lemma no_send_panic l s : ginv l s -> existsb send_panics (s_ws s) = false.
Proof.
  intros G. apply not_true_is_false. intros Hex. apply existsb_exists in Hex as [w [Hin Hs]].
  pose proof (gi_ws _ _ G) as HW. rewrite Forall_forall in HW.
  unfold send_panics in Hs. apply andb_true_iff in Hs as [Hr Hc]. rewrite (wi_reg _ _ _ _ (HW w Hin) Hr) in Hc. discriminate.
Qed.

Lemma nth_map_eq {A B} (f : A -> B) l l' i : nth_error l i = nth_error l' i -> nth_error (map f l) i = nth_error (map f l') i.
Proof. intros H. rewrite !nth_error_map, H. reflexivity. Qed.

Lemma nth_app_eq {A} (l l' : list A) x i :
  length l = length l' -> (nth_error l i = nth_error l' i) -> nth_error (l ++ [x]) i = nth_error (l' ++ [x]) i.
Proof.
  intros Hl H. destruct (Nat.lt_ge_cases i (length l)) as [Hi|Hi].
  - rewrite !nth_error_app1 by lia. exact H.
  - rewrite !nth_error_app2 by lia. rewrite Hl. reflexivity.
Qed.

Lemma nth_upd {A} (f : A -> A) k l i :
  nth_error (upd_nth k f l) i = if Nat.eqb i k then option_map f (nth_error l i) else nth_error l i.
Proof.
  revert k i; induction l as [|h t IH]; intros [|k] [|i]; cbn; try reflexivity.
  - destruct (Nat.eqb i k); reflexivity.
  - apply IH.
Qed.

Lemma nth_upd_eq {A} (f g : A -> A) k l l' i :
  nth_error l i = nth_error l' i -> (forall x, nth_error l i = Some x -> f x = g x) ->
  nth_error (upd_nth k f l) i = nth_error (upd_nth k g l') i.
Proof.
  intros H Hf. rewrite !nth_upd, <- H. destruct (Nat.eqb i k); [|reflexivity].
  destruct (nth_error l i) as [x|]; [|reflexivity]. cbn. rewrite (Hf x eq_refl). reflexivity.
Qed.

(* a step that is not watcher j's, taken on both sides *)
Lemma se_step_both pa l j s s' lb :
  targets j lb = false -> ginv l s -> ginv l s' -> same_except j s s' -> same_except j (step pa s lb) (step pa s' lb).
Proof.
  intros Ht G G' [H1 H2 H3 H4 H5 H6 H7 H8 H9 H10].
  unfold step. rewrite <- H6. destruct (s_panic s) eqn:Hp; [constructor; try assumption; congruence|].
  destruct lb as [we| | |order|i|sr pf|i|i|i|i|i]; unfold targets in Ht; cbn [label_target] in Ht.
  - rewrite <- H2, <- H3, <- H1. destruct (s_cur s) eqn:Ecur; [constructor; try assumption; congruence|].
    destruct (_ && _); constructor; cbn; try assumption; try reflexivity; congruence.
  - rewrite <- H2, <- H4. destruct (s_cur s) eqn:Ecur; [|constructor; try assumption; congruence].
    destruct (ring_add _ _); constructor; cbn; try assumption; try reflexivity; congruence.
  - rewrite <- H2, <- H3, <- H5. destruct (s_cur s) eqn:Ecur; [constructor; try assumption; congruence|]. destruct (s_pending s) eqn:Epend; [constructor; try assumption; congruence|].
    destruct (_ <? _); constructor; cbn; try assumption; try reflexivity; congruence.
  - rewrite <- H5. destruct (s_wchan s) as [|item rest] eqn:Ewc; [constructor; try assumption; congruence|].
    rewrite (no_send_panic l s G), (no_send_panic l s' G').
    constructor; cbn [s_committed s_cur s_pending s_cache s_wchan s_panic s_cachedR s_hubR s_ws]; try assumption; try congruence.
    + rewrite !map_length. exact H9.
    + intros i Hi. apply nth_map_eq. apply H10. exact Hi.
  - assert (i <> j) by (intros ->; rewrite Nat.eqb_refl in Ht; discriminate).
    constructor; unfold upd_w, s_set_ws; cbn [s_committed s_cur s_pending s_cache s_wchan s_panic s_cachedR s_hubR s_ws]; try assumption; try congruence.
    + rewrite !upd_length. exact H9.
    + intros k Hk. apply nth_upd_eq; [apply H10; exact Hk|reflexivity].
  - constructor; unfold s_set_ws; cbn [s_committed s_cur s_pending s_cache s_wchan s_panic s_cachedR s_hubR s_ws]; try assumption; try congruence.
    + rewrite !app_length, H9. reflexivity.
    + intros k Hk. rewrite H8. apply nth_app_eq; [exact H9|apply H10; exact Hk].
  - assert (i <> j) by (intros ->; rewrite Nat.eqb_refl in Ht; discriminate).
    constructor; unfold upd_w, s_set_ws; cbn [s_committed s_cur s_pending s_cache s_wchan s_panic s_cachedR s_hubR s_ws]; try assumption; try congruence.
    + rewrite !upd_length. exact H9.
    + intros k Hk. apply nth_upd_eq; [apply H10; exact Hk|]. intros x _. unfold watch_read. rewrite H4. reflexivity.
  - assert (Hij : i <> j) by (intros ->; rewrite Nat.eqb_refl in Ht; discriminate).
    rewrite <- (H10 i Hij).
    assert (Hsp : forall x, watch_spawn pa s x = watch_spawn pa s' x) by (intros x; unfold watch_spawn; rewrite H1; reflexivity).
    assert (HU : same_except j (upd_w s i (watch_spawn pa s)) (upd_w s' i (watch_spawn pa s'))).
    { constructor; unfold upd_w, s_set_ws; cbn [s_committed s_cur s_pending s_cache s_wchan s_panic s_cachedR s_hubR s_ws]; try assumption; try congruence.
      - rewrite !upd_length. exact H9.
      - intros k Hk. apply nth_upd_eq; [apply H10; exact Hk|]. intros x _. apply Hsp. }
    destruct (nth_error (s_ws s) i) as [w|] eqn:Enth; [|constructor; try assumption; congruence].
    rewrite <- Hsp. destruct (w_phase (watch_spawn pa s w)); try exact HU.
    destruct HU as [U1 U2 U3 U4 U5 U6 U7 U8 U9 U10]. constructor; try assumption; reflexivity.
  - assert (i <> j) by (intros ->; rewrite Nat.eqb_refl in Ht; discriminate).
    constructor; unfold upd_w, s_set_ws; cbn [s_committed s_cur s_pending s_cache s_wchan s_panic s_cachedR s_hubR s_ws]; try assumption; try congruence.
    + rewrite !upd_length. exact H9.
    + intros k Hk. apply nth_upd_eq; [apply H10; exact Hk|reflexivity].
  - assert (i <> j) by (intros ->; rewrite Nat.eqb_refl in Ht; discriminate).
    constructor; unfold upd_w, s_set_ws; cbn [s_committed s_cur s_pending s_cache s_wchan s_panic s_cachedR s_hubR s_ws]; try assumption; try congruence.
    + rewrite !upd_length. exact H9.
    + intros k Hk. apply nth_upd_eq; [apply H10; exact Hk|reflexivity].
  - assert (i <> j) by (intros ->; rewrite Nat.eqb_refl in Ht; discriminate).
    constructor; unfold upd_w, s_set_ws; cbn [s_committed s_cur s_pending s_cache s_wchan s_panic s_cachedR s_hubR s_ws]; try assumption; try congruence.
    + rewrite !upd_length. exact H9.
    + intros k Hk. apply nth_upd_eq; [apply H10; exact Hk|reflexivity].
Qed.

(* a step of watcher j, taken on the left side only *)
Lemma se_step_left pa l j s s' lb :
  0 < l -> fits_params pa -> targets j lb = true -> ginv l s -> healthy s ->
  same_except j s s' -> same_except j (step pa s lb) s'.
Proof.
  intros Hl Hfit Ht G Hh [H1 H2 H3 H4 H5 H6 H7 H8 H9 H10].
  pose proof (healthy_step pa l s lb Hl Hfit G Hh) as [Hp' _].
  assert (Hupd : forall f, same_except j (upd_w s j f) s').
  { intros f. constructor; unfold upd_w, s_set_ws; cbn [s_committed s_cur s_pending s_cache s_wchan s_panic s_cachedR s_hubR s_ws]; try assumption.
    - rewrite upd_length. exact H9.
    - intros k Hk. rewrite nth_upd_other by exact Hk. apply H10. exact Hk. }
  destruct Hh as [Hp _]. unfold step in *. rewrite Hp in *.
  destruct lb as [we| | |order|i|sr pf|i|i|i|i|i]; unfold targets in Ht; cbn [label_target] in Ht; try discriminate;
    apply Nat.eqb_eq in Ht; subst i; try apply Hupd.
  destruct (nth_error (s_ws s) j) as [w|]; [|constructor; try assumption; congruence].
  destruct (w_phase (watch_spawn pa s w)); try apply Hupd.
  cbn [s_set_panic s_panic] in Hp'. discriminate.
Qed.

Theorem siblings_independent pa l c0 ls j :
  0 < l -> fits_params pa ->
  same_except j (run pa ls (init l c0)) (run pa (filter (fun lb => negb (targets j lb)) ls) (init l c0)).
Proof.
  intros Hl Hfit. induction ls as [|lb ls IH] using rev_ind; [apply se_refl|].
  rewrite filter_app, run_snoc. cbn [filter].
  assert (Hh : healthy (run pa ls (init l c0))).
  { destruct (no_panic_no_hang pa l c0 ls Hl Hfit) as [Hp Hw]. split; [exact Hp|].
    apply Forall_forall. intros w Hin. apply In_nth_error in Hin as [i Hi]. destruct (Hw i w Hi) as [A B].
    unfold healthy_phase. destruct (w_phase w); try exact I; congruence. }
  destruct (targets j lb) eqn:Et; cbn [negb].
  - rewrite app_nil_r. apply (se_step_left pa l); try assumption; [apply reachable_inv; exact Hl].
  - rewrite run_snoc. apply (se_step_both pa l); try assumption; apply reachable_inv; exact Hl.
Qed.

(* what a watcher has received does not depend on the steps of any other watcher *)
Corollary sibling_stream_independent pa l c0 ls i j :
  0 < l -> fits_params pa -> i <> j ->
  nth_error (s_ws (run pa ls (init l c0))) i
  = nth_error (s_ws (run pa (filter (fun lb => negb (targets j lb)) ls) (init l c0))) i.
Proof. intros Hl Hfit Hij. apply (se_ws _ _ _ (siblings_independent pa l c0 ls j Hl Hfit)). exact Hij. Qed.
