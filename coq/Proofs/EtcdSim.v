(* Lemmas for C16, part 2: the simulation relation between the backend model behind the shim and the
   etcd interpreter, and the step lemmas for the four Kubernetes transaction shapes. *)
From Coq Require Import Sorted.
From KB Require Import Model.Etcd Model.C16Cases Proofs.Coder Proofs.Etcd.
Local Open Scope Z_scope.

(* ------------------------------------------------------------------ per-key well-formedness *)

(* index record = head of the version list; the deletion flag goes with the reserved value *)
Definition kwf (now : N) (x : bkey) : Prop :=
  match bk_idx x, bk_vers x with
  | None, [] => True
  | Some (r, tomb), (r', v) :: _ => r = r' /\ (0 < r)%N /\ (r <= now)%N /\ (tomb = true <-> v = tombstone)
  | _, _ => False
  end.

Definition live (k : bytes) (x : bkey) : option pkv :=
  match bk_vers x with
  | (r, v) :: _ => if beqb v tombstone then None else Some (k, v, Z.of_N r)
  | [] => None
  end.

Lemma kwf_mono now now' x : (now <= now')%N -> kwf now x -> kwf now' x.
Proof.
  unfold kwf. intros Hle. destruct (bk_idx x) as [[r tomb]|], (bk_vers x) as [|[r' v] rest]; auto.
  intros (H1 & H2 & H3 & H4). repeat split; try assumption; try lia; apply H4.
Qed.

Lemma b_live_head now rev k x : kwf now x -> (now <= rev)%N -> b_live rev k x = live k x.
Proof.
  unfold kwf, b_live, live. destruct (bk_idx x) as [[r tomb]|], (bk_vers x) as [|[r' v] rest]; try tauto.
  intros (H1 & H2 & H3 & H4) Hle. cbn [vers_at]. subst r'.
  destruct (N.leb_spec r rev); [reflexivity|lia].
Qed.

(* ------------------------------------------------------------------ the relation *)

(* the two stores are the same sorted list, from the per-key clauses *)
Lemma store_eq_parts now rev st kv : esorted st -> bsorted kv -> (forall k, kwf now (b_find k kv)) ->
  (forall k, option_map pk (e_find k st) = live k (b_find k kv)) -> (now <= rev)%N ->
  map pk st = b_proj kv rev.
Proof.
  intros Hes Hbs Hwf Hkv Hle. apply psorted_ext.
  - apply psorted_map_pk. exact Hes.
  - apply psorted_b_proj. exact Hbs.
  - intros k. rewrite p_find_map_pk, (p_find_b_proj k _ _ Hbs), (Hkv k).
    symmetry. eapply b_live_head; [apply Hwf|exact Hle].
Qed.

(* a write of key k that keeps k's reading at revision q keeps the whole reading at q *)
Lemma b_proj_set_old k x s q : bsorted s -> b_live q k x = b_live q k (b_find k s) -> b_proj (b_set k x s) q = b_proj s q.
Proof.
  intros Hs Hx. apply psorted_ext.
  - apply psorted_b_proj. apply bsorted_set. exact Hs.
  - apply psorted_b_proj. exact Hs.
  - intros k'. rewrite (p_find_b_proj k' _ _ (bsorted_set k x s Hs)), (p_find_b_proj k' _ _ Hs), b_find_set.
    destruct (beqb k k') eqn:E; [|reflexivity]. apply beqb_eq in E; subst k'. exact Hx.
Qed.

Record R (sb : bstate) (se : estate) : Prop := mkR {
  R_now : e_now se = Z.of_N (b_rev sb);
  R_rev : e_rev se <= e_now se;
  R_es : esorted (e_cur se);
  R_bs : bsorted (b_kv sb);
  R_wf : forall k, kwf (b_rev sb) (b_find k (b_kv sb));
  R_kv : forall k, option_map pk (e_find k (e_cur se)) = live k (b_find k (b_kv sb));
  R_ev : map proj_event (e_events se) = map proj_event (map shim_event (b_events sb));
  (* the history clause: the interpreter's store as of any revision up to the current one is the backend's reading at
     that revision (per key the newest object record at or below it, unless the reserved value) *)
  R_hcur : forall z, e_rev se <= z -> hist_at (e_hist se) z = e_cur se;
  R_hs : forall z, esorted (hist_at (e_hist se) z);
  R_hist : forall q, (q <= b_rev sb)%N -> map pk (hist_at (e_hist se) (Z.of_N q)) = b_proj (b_kv sb) q
}.

Lemma R_init base : R (b_init base) (e_init (Z.of_N base)).
Proof. constructor; cbn; try reflexivity; try lia; try constructor; try (intros k; cbn; exact I); intros; constructor. Qed.

Definition bounded (sb : bstate) : Prop := Z.of_N (b_rev sb) + 1 < two63.

(* what the relation says about one key *)
Inductive key_state (sb : bstate) (se : estate) (k : bytes) : Prop :=
| KsAbsent : bk_idx (b_find k (b_kv sb)) = None -> bk_vers (b_find k (b_kv sb)) = [] ->
             e_find k (e_cur se) = None -> key_state sb se k
| KsDeleted r rest : bk_idx (b_find k (b_kv sb)) = Some (r, true) -> bk_vers (b_find k (b_kv sb)) = (r, tombstone) :: rest ->
             (0 < r <= b_rev sb)%N -> e_find k (e_cur se) = None -> key_state sb se k
| KsLive r v rest y : bk_idx (b_find k (b_kv sb)) = Some (r, false) -> bk_vers (b_find k (b_kv sb)) = (r, v) :: rest ->
             v <> tombstone -> (0 < r <= b_rev sb)%N ->
             e_find k (e_cur se) = Some y -> k_key y = k -> k_val y = v -> k_mod y = Z.of_N r -> key_state sb se k.

Lemma key_cases sb se k : R sb se -> key_state sb se k.
Proof.
  intros HR. pose proof (R_wf _ _ HR k) as Hwf. pose proof (R_kv _ _ HR k) as Hkv.
  unfold kwf, live in *. destruct (bk_idx (b_find k (b_kv sb))) as [[r tomb]|] eqn:Ei,
    (bk_vers (b_find k (b_kv sb))) as [|[r' v] rest] eqn:Ev; try tauto.
  - destruct Hwf as (-> & H2 & H3 & H4). destruct tomb.
    + assert (v = tombstone) by (apply H4; reflexivity). subst v.
      rewrite beqb_refl in Hkv. destruct (e_find k (e_cur se)) eqn:Ef; [discriminate|].
      eapply KsDeleted; eauto.
    + assert (Hv : v <> tombstone) by (intros E; apply H4 in E; discriminate).
      apply beqb_neq in Hv. rewrite Hv in Hkv. destruct (e_find k (e_cur se)) as [y|] eqn:Ef; [|discriminate].
      cbn in Hkv. injection Hkv as E1 E2 E3. apply beqb_neq in Hv.
      eapply KsLive; eauto.
  - destruct (e_find k (e_cur se)) eqn:Ef; [discriminate|]. apply KsAbsent; auto.
Qed.

(* ------------------------------------------------------------------ request builders: the shapes, exactly *)

Definition q_cmp (k : bytes) (u : cunion) : compare := mkCmp REqual TMod k u [].
Definition q_put (k v : bytes) (lease : Z) : reqop := OpPut (mkPut k v lease false false false).
Definition q_get (k : bytes) (lim : Z) : reqop := OpRange (mkRange k [] lim 0 false false).
Definition q_del (k : bytes) : reqop := OpDel (mkDel k [] false).

Definition q_create k v u lease := mkTxn [q_cmp k u] [q_put k v lease] [].
Definition q_update k v u lease lim := mkTxn [q_cmp k u] [q_put k v lease] [q_get k lim].
Definition q_delete k u lim := mkTxn [q_cmp k u] [q_del k] [q_get k lim].
Definition q_deleteu k lim := mkTxn [] [q_get k lim; q_del k] [].

Ltac bool_hyps :=
  repeat match goal with
         | H : _ && _ = true |- _ => apply andb_true_iff in H; destruct H
         | H : negb _ = true |- _ => apply negb_true_iff in H
         | H : beqb _ _ = true |- _ => apply beqb_eq in H
         | H : (_ =? _) = true |- _ => apply Z.eqb_eq in H
         end.

Lemma canonical_inv t sh : canonical t = Some sh ->
  match sh with
  | ShCreate k v => exists u lease, union_mod u = 0 /\ t = q_create k v u lease
  | ShUpdate k v e => exists u lease lim, union_mod u = e /\ t = q_update k v u lease lim
  | ShDelete k e => exists u lim, union_mod u = e /\ t = q_delete k u lim
  | ShDeleteU k => exists lim, t = q_deleteu k lim
  end.
Proof.
  destruct t as [cs ss fs]. unfold canonical; cbn [t_cmp t_succ t_fail].
  destruct cs as [|[cr ct ck cu ce] [|c' cs]]; destruct ss as [|s1 [|s2 [|s3 ss]]]; destruct fs as [|f1 [|f2 fs]];
    try discriminate; try (destruct s1; discriminate); try (destruct s1; destruct s2; discriminate);
    try (destruct s1; destruct f1; discriminate).
  - (* [] [s1; s2] [] *)
    destruct s1 as [r| | |]; try discriminate. destruct s2 as [| |d|]; try discriminate.
    destruct r as [rk re rl rr rc rko], d as [dk de dp].
    destruct (plain_get _ _ && plain_del _ _) eqn:E; [|discriminate]. intros [= <-].
    unfold plain_get, plain_del in E. cbn in E. bool_hyps. subst. exists rl. reflexivity.
  - (* [c] [s1] [] *)
    destruct s1 as [|p| |]; try discriminate. destruct p as [pk0 pv pl pp piv pil].
    destruct (mod_eq_on _ _ && _ && _) eqn:E; [|discriminate]. intros [= <-].
    unfold mod_eq_on, is_mod_eq, plain_put, get_mod in E. cbn in E. destruct ct, cr; try discriminate E.
    cbn in E. bool_hyps. subst. exists cu, pl. split; [assumption|reflexivity].
  - (* [c] [s1] [f1] *)
    destruct s1 as [|p|d|]; try discriminate; destruct f1 as [r| | |]; try discriminate.
    + destruct p as [pk0 pv pl pp piv pil], r as [rk re rl rr rc rko].
      destruct (mod_eq_on _ _ && _ && _) eqn:E; [|discriminate]. intros [= <-].
      unfold mod_eq_on, is_mod_eq, plain_put, plain_get, get_mod in E. cbn in E. destruct ct, cr; try discriminate E.
      cbn in E. bool_hyps. subst. exists cu, pl, rl. split; reflexivity.
    + destruct d as [dk de dp], r as [rk re rl rr rc rko].
      destruct (mod_eq_on _ _ && _ && _) eqn:E; [|discriminate]. intros [= <-].
      unfold mod_eq_on, is_mod_eq, plain_del, plain_get, get_mod in E. cbn in E. destruct ct, cr; try discriminate E.
      cbn in E. bool_hyps. subst. exists cu, rl. split; reflexivity.
Qed.

(* ------------------------------------------------------------------ small computations *)

Lemma neq_nil_beqb (k : bytes) : k <> [] -> beqb k [] = false.
Proof. intros H. apply beqb_neq. exact H. Qed.

Lemma in_range_single_self k : in_range k [] k = true.
Proof. cbn. apply beqb_refl. Qed.

Lemma e_range_find se k : esorted (e_cur se) ->
  e_range (e_cur se) k [] = match e_find k (e_cur se) with Some x => [x] | None => [] end.
Proof. apply e_range_single. Qed.

Lemma takeZ_single {A} (x : A) lim : 0 < lim -> takeZ [x] lim = [x].
Proof. intros H. cbn. apply Z.ltb_lt in H. rewrite H. reflexivity. Qed.

(* the failure-branch / unguarded get on the etcd side: one key, any limit *)
Lemma do_range_get st k lim h : esorted st ->
  do_range st (mkRange k [] lim 0 false false) h =
  match e_find k st with
  | Some x => RsRange h [x] 1 false
  | None => RsRange h [] 0 false
  end.
Proof.
  intros Hs. unfold do_range; cbn [r_key r_end r_limit r_count_only r_keys_only].
  rewrite (e_range_single st k Hs). destruct (e_find k st) as [x|]; cbn [negb andb lenZ length].
  - destruct (0 <? lim) eqn:E; cbn [andb].
    + apply Z.ltb_lt in E. rewrite takeZ_single by assumption.
      f_equal. apply Z.ltb_ge. cbn. lia.
    + reflexivity.
  - destruct (0 <? lim) eqn:E; [|reflexivity]. cbn [takeZ andb lenZ length]. apply Z.ltb_lt in E.
    f_equal. apply Z.ltb_ge. cbn. lia.
Qed.

Lemma b_get_latest sb k r v rest : bk_vers (b_find k (b_kv sb)) = (r, v) :: rest -> (r <= max_u64)%N ->
  b_get (b_kv sb) k 0 = if beqb v tombstone then GNotFound else GFound v r.
Proof.
  intros Hv Hle. unfold b_get. rewrite Hv. cbn [N.eqb vers_at]. destruct (N.leb_spec r max_u64); [reflexivity|lia].
Qed.

Lemma bounded_le_max sb r : bounded sb -> (r <= b_rev sb)%N -> (r <= max_u64)%N.
Proof. unfold bounded, two63, max_u64. lia. Qed.

Lemma i64_rev sb : bounded sb -> i64_of_N (b_rev sb + 1) = Z.of_N (b_rev sb) + 1.
Proof. unfold bounded. intros H. rewrite i64_of_N_small; lia. Qed.

Lemma i64_le sb r : bounded sb -> (r <= b_rev sb + 1)%N -> i64_of_N r = Z.of_N r.
Proof. unfold bounded. intros H Hr. apply i64_of_N_small. lia. Qed.

(* ------------------------------------------------------------------ relation preservation *)

Lemma hist_at_cons nr st h z : hist_at ((nr, st) :: h) z = if nr <=? z then st else hist_at h z.
Proof. reflexivity. Qed.

Lemma R_burn sb se nr : R sb se -> nr = Z.of_N (b_rev sb) + 1 ->
  R (mkB (b_rev sb + 1) (b_kv sb) (b_events sb)) (e_tick se nr).
Proof.
  intros HR ->. destruct HR. constructor; cbn [e_now e_rev e_cur e_hist e_events e_tick b_rev b_kv b_events]; try assumption.
  - rewrite R_now0. lia.
  - lia.
  - intros k. eapply kwf_mono; [|apply R_wf0]. lia.
  - intros q Hq. destruct (N.eq_dec q (b_rev sb + 1)) as [->|Hne]; [|apply R_hist0; lia].
    rewrite R_hcur0 by lia. apply (store_eq_parts (b_rev sb)); try assumption. lia.
Qed.

Lemma R_put sb se k v y ev1 ev2 vers :
  R sb se -> v <> tombstone ->
  bk_vers (b_find k (b_kv sb)) = vers ->
  pk y = (k, v, Z.of_N (b_rev sb) + 1) ->
  proj_event ev1 = proj_event (shim_event ev2) ->
  let nr := Z.of_N (b_rev sb) + 1 in
  R (mkB (b_rev sb + 1) (b_set k (mkBK (Some (b_rev sb + 1, false)%N) ((b_rev sb + 1, v)%N :: vers)) (b_kv sb)) (b_events sb ++ [ev2]))
    (mkE nr (Z.max (e_now se) nr) (e_set y (e_cur se)) ((nr, e_set y (e_cur se)) :: e_hist se) (e_events se ++ [ev1])).
Proof.
  intros HR Hv Hvers Hy Hev nr. destruct HR.
  assert (Hky : k_key y = k) by (unfold pk in Hy; congruence).
  set (kv' := b_set k (mkBK (Some (b_rev sb + 1, false)%N) ((b_rev sb + 1, v)%N :: vers)) (b_kv sb)).
  assert (Hes : esorted (e_set y (e_cur se))) by (apply esorted_set; assumption).
  assert (Hbs : bsorted kv') by (apply bsorted_set; assumption).
  assert (Hwf : forall k', kwf (b_rev sb + 1) (b_find k' kv')).
  { intros k'. unfold kv'. rewrite b_find_set. destruct (beqb k k') eqn:E.
    + unfold kwf; cbn [bk_idx bk_vers]. split; [reflexivity|]. split; [lia|]. split; [lia|].
      split; [intros H; discriminate H|intros H; contradiction].
    + eapply kwf_mono; [|apply R_wf0]. lia. }
  assert (Hkv : forall k', option_map pk (e_find k' (e_set y (e_cur se))) = live k' (b_find k' kv')).
  { intros k'. unfold kv'. rewrite e_find_set, b_find_set, Hky. destruct (beqb k k') eqn:E.
    + apply beqb_eq in E; subst k'. cbn [option_map]. rewrite Hy. unfold live; cbn.
      apply beqb_neq in Hv. rewrite Hv. f_equal. f_equal. lia.
    + apply R_kv0. }
  constructor; cbn [e_now e_rev e_cur e_hist e_events b_rev b_kv b_events]; try assumption.
  - rewrite R_now0. unfold nr. lia.
  - lia.
  - rewrite !map_app, R_ev0. cbn. rewrite Hev. reflexivity.
  - intros z Hz. rewrite hist_at_cons. apply Z.leb_le in Hz. rewrite Hz. reflexivity.
  - intros z. rewrite hist_at_cons. destruct (nr <=? z); [assumption|apply R_hs0].
  - intros q Hq. rewrite hist_at_cons. destruct (N.eq_dec q (b_rev sb + 1)) as [->|Hne].
    + replace (nr <=? Z.of_N (b_rev sb + 1)) with true by (symmetry; apply Z.leb_le; unfold nr; lia).
      apply (store_eq_parts (b_rev sb + 1)); try assumption; lia.
    + replace (nr <=? Z.of_N q) with false by (symmetry; apply Z.leb_gt; unfold nr; lia).
      rewrite R_hist0 by lia. symmetry. apply b_proj_set_old; [assumption|].
      unfold b_live; cbn [bk_vers vers_at]. replace (b_rev sb + 1 <=? q)%N with false by (symmetry; apply N.leb_gt; lia).
      rewrite Hvers. reflexivity.
Qed.

Lemma R_del sb se k oldv modrev rest ev1 ev2 :
  R sb se ->
  bk_vers (b_find k (b_kv sb)) = (modrev, oldv) :: rest ->
  proj_event ev1 = proj_event (shim_event ev2) ->
  let nr := Z.of_N (b_rev sb) + 1 in
  let st' := e_remove_range k [] (e_cur se) in
  R (mkB (b_rev sb + 1) (b_set k (mkBK (Some (b_rev sb + 1, true)%N) ((b_rev sb + 1, tombstone)%N :: (modrev, oldv) :: rest)) (b_kv sb)) (b_events sb ++ [ev2]))
    (mkE nr (Z.max (e_now se) nr) st' ((nr, st') :: e_hist se) (e_events se ++ [ev1])).
Proof.
  intros HR Hvers Hev nr st'. destruct HR.
  set (kv' := b_set k (mkBK (Some (b_rev sb + 1, true)%N) ((b_rev sb + 1, tombstone)%N :: (modrev, oldv) :: rest)) (b_kv sb)).
  assert (Hes : esorted st') by (apply esorted_filter; assumption).
  assert (Hbs : bsorted kv') by (apply bsorted_set; assumption).
  assert (Hwf : forall k', kwf (b_rev sb + 1) (b_find k' kv')).
  { intros k'. unfold kv'. rewrite b_find_set. destruct (beqb k k') eqn:E.
    + unfold kwf; cbn [bk_idx bk_vers]. split; [reflexivity|]. split; [lia|]. split; [lia|].
      split; intros; reflexivity.
    + eapply kwf_mono; [|apply R_wf0]. lia. }
  assert (Hkv : forall k', option_map pk (e_find k' st') = live k' (b_find k' kv')).
  { intros k'. unfold st', kv', e_remove_range.
    rewrite (e_find_filter (fun key => negb (in_range k [] key))), b_find_set.
    cbn [in_range]. rewrite beqb_sym. destruct (beqb k k') eqn:E; cbn [negb].
    + unfold live; cbn. reflexivity.
    + apply R_kv0. }
  constructor; cbn [e_now e_rev e_cur e_hist e_events b_rev b_kv b_events]; try assumption.
  - rewrite R_now0. unfold nr. lia.
  - lia.
  - rewrite !map_app, R_ev0. cbn. rewrite Hev. reflexivity.
  - intros z Hz. rewrite hist_at_cons. apply Z.leb_le in Hz. rewrite Hz. reflexivity.
  - intros z. rewrite hist_at_cons. destruct (nr <=? z); [assumption|apply R_hs0].
  - intros q Hq. rewrite hist_at_cons. destruct (N.eq_dec q (b_rev sb + 1)) as [->|Hne].
    + replace (nr <=? Z.of_N (b_rev sb + 1)) with true by (symmetry; apply Z.leb_le; unfold nr; lia).
      apply (store_eq_parts (b_rev sb + 1)); try assumption; lia.
    + replace (nr <=? Z.of_N q) with false by (symmetry; apply Z.leb_gt; unfold nr; lia).
      rewrite R_hist0 by lia. symmetry. apply b_proj_set_old; [assumption|].
      unfold b_live; cbn [bk_vers vers_at]. replace (b_rev sb + 1 <=? q)%N with false by (symmetry; apply N.leb_gt; lia).
      rewrite Hvers. reflexivity.
Qed.

(* ------------------------------------------------------------------ the step lemmas *)

Definition sim_ok (t : txn_req) (sb : bstate) (se : estate) : Prop :=
  let nr := Z.of_N (b_rev sb) + 1 in
  proj_txn t (snd (shim_txn sb t)) = proj_txn t (snd (etcd_txn se nr t))
  /\ snd (shim_txn sb t) <> TErr
  /\ R (fst (shim_txn sb t)) (fst (etcd_txn se nr t))
  /\ b_rev (fst (shim_txn sb t)) = (b_rev sb + 1)%N.

(* rejected, nothing stored (a revision may have been dealt) *)
Definition rejected (t : txn_req) (sb : bstate) (se : estate) : Prop :=
  snd (shim_txn sb t) = TErr /\ b_kv (fst (shim_txn sb t)) = b_kv sb /\ b_events (fst (shim_txn sb t)) = b_events sb
  /\ R (fst (shim_txn sb t)) (e_tick se (Z.of_N (b_rev (fst (shim_txn sb t))))).

Lemma wf_create k v u lease : k <> [] -> txn_wf (q_create k v u lease) = true.
Proof. intros H. unfold txn_wf, q_create; cbn. unfold cmp_wf, put_wf; cbn. rewrite (neq_nil_beqb k H). reflexivity. Qed.
Lemma wf_update k v u lease lim : k <> [] -> txn_wf (q_update k v u lease lim) = true.
Proof. intros H. unfold txn_wf, q_update; cbn. unfold cmp_wf, put_wf; cbn. rewrite (neq_nil_beqb k H). reflexivity. Qed.
Lemma wf_delete k u lim : k <> [] -> txn_wf (q_delete k u lim) = true.
Proof. intros H. unfold txn_wf, q_delete; cbn. unfold cmp_wf; cbn. rewrite (neq_nil_beqb k H). reflexivity. Qed.
Lemma wf_deleteu k lim : k <> [] -> txn_wf (q_deleteu k lim) = true.
Proof. intros H. unfold txn_wf, q_deleteu; cbn. rewrite (neq_nil_beqb k H). reflexivity. Qed.

Lemma apply_put_new nr st wr ev k v lease : e_find k st = None ->
  apply_put nr (mkW st wr ev) (mkPut k v lease false false false) =
  Some (mkW (e_set (mkKv k v nr nr 1 lease) st) true (ev ++ [WEv false (mkKv k v nr nr 1 lease) None]), RsPut nr None).
Proof. intros H. unfold apply_put; cbn [p_key w_store]. rewrite H. reflexivity. Qed.

Lemma apply_put_old nr st wr ev k v lease o : e_find k st = Some o ->
  apply_put nr (mkW st wr ev) (mkPut k v lease false false false) =
  Some (mkW (e_set (mkKv k v (k_create o) nr (k_ver o + 1) lease) st) true
            (ev ++ [WEv false (mkKv k v (k_create o) nr (k_ver o + 1) lease) (Some o)]), RsPut nr None).
Proof. intros H. unfold apply_put; cbn [p_key w_store]. rewrite H. reflexivity. Qed.

Lemma apply_del_one nr st wr ev k o : esorted st -> e_find k st = Some o ->
  apply_del nr (mkW st wr ev) (mkDel k [] false) =
  (mkW (e_remove_range k [] st) true (ev ++ [WEv true (mkKv (k_key o) [] 0 nr 0 0) (Some o)]), RsDel nr 1 []).
Proof.
  intros Hs H. unfold apply_del; cbn [d_key d_end d_prev_kv w_store w_events]. rewrite (e_range_single st k Hs), H. reflexivity.
Qed.

Lemma apply_del_none nr st wr ev k : esorted st -> e_find k st = None ->
  apply_del nr (mkW st wr ev) (mkDel k [] false) = (mkW st wr ev, RsDel nr 0 []).
Proof.
  intros Hs H. unfold apply_del; cbn [d_key d_end d_prev_kv w_store w_events]. rewrite (e_range_single st k Hs), H. reflexivity.
Qed.

(* the compare "mod(k) = e" on the etcd side *)
Lemma eval_mod_cmp se k u : esorted (e_cur se) ->
  eval_cmps (e_cur se) [q_cmp k u] =
  match e_find k (e_cur se) with
  | Some y => k_mod y =? union_mod u
  | None => 0 =? union_mod u
  end.
Proof.
  intros Hs. unfold eval_cmps, eval_cmp, q_cmp; cbn [forallb c_key c_end c_target]. rewrite (e_range_single _ k Hs).
  destruct (e_find k (e_cur se)) as [y|]; cbn [forallb]; rewrite andb_true_r; unfold compare_kv; cbn [c_target c_result c_union k_mod empty_kv].
  - rewrite ?andb_true_r. destruct (Z.compare_spec (k_mod y) (union_mod u)); symmetry; [apply Z.eqb_eq|apply Z.eqb_neq|apply Z.eqb_neq]; lia.
  - destruct (Z.compare_spec 0 (union_mod u)); symmetry; [apply Z.eqb_eq|apply Z.eqb_neq|apply Z.eqb_neq]; lia.
Qed.

Lemma sim_create sb se k v u lease :
  R sb se -> bounded sb -> k <> [] -> v <> tombstone -> union_mod u = 0 ->
  sim_ok (q_create k v u lease) sb se.
Proof.
  intros HR Hb Hk Hv Hu. unfold sim_ok.
  set (nr := Z.of_N (b_rev sb) + 1).
  assert (Hshim : shim_txn sb (q_create k v u lease) =
                  let '(st', rev, ok) := b_create sb k v BCreate in (st', TOk (i64_of_N rev) ok [RsPut (i64_of_N rev) None])).
  { unfold shim_txn, isCreate, q_create, q_cmp, q_put, get_mod; cbn. rewrite Hu. cbn. reflexivity. }
  rewrite Hshim. clear Hshim.
  unfold etcd_txn. rewrite (wf_create k v u lease Hk). cbn [negb].
  change (t_cmp (q_create k v u lease)) with [q_cmp k u].
  change (t_succ (q_create k v u lease)) with [q_put k v lease].
  change (t_fail (q_create k v u lease)) with (@nil reqop).
  rewrite (eval_mod_cmp se k u (R_es _ _ HR)), Hu.
  unfold b_create.
  destruct (key_cases sb se k HR) as [Hi Hvs He | r rest Hi Hvs Hr He | r v0 rest y Hi Hvs Hv0 Hr He Hyk Hyv Hym].
  - (* absent: both create *)
    rewrite Hi, He. cbn [Z.eqb apply_ops apply_op q_put].
    rewrite (apply_put_new nr _ _ _ k v lease He). cbn [fst snd w_wrote w_store w_events app].
    rewrite (i64_rev sb Hb). split; [reflexivity|]. split; [discriminate|]. split; [|reflexivity].
    rewrite Hvs. eapply (R_put sb se k v _ _ _ [] HR Hv); [rewrite Hvs; reflexivity| reflexivity |].
    cbn. rewrite (i64_rev sb Hb). reflexivity.
  - (* deleted: both create *)
    rewrite Hi, He. assert (Hlt : (r <? b_rev sb + 1)%N = true) by (apply N.ltb_lt; lia). rewrite Hlt.
    cbn [andb Z.eqb apply_ops apply_op q_put].
    rewrite (apply_put_new nr _ _ _ k v lease He). cbn [fst snd w_wrote w_store w_events app].
    rewrite (i64_rev sb Hb). split; [reflexivity|]. split; [discriminate|]. split; [|reflexivity].
    eapply (R_put sb se k v _ _ _ _ HR Hv); [reflexivity | reflexivity |].
    cbn. rewrite (i64_rev sb Hb). reflexivity.
  - (* live: both refuse *)
    rewrite Hi, He. cbn [andb].
    assert (Hm : (k_mod y =? 0) = false) by (apply Z.eqb_neq; lia). rewrite Hm.
    cbn [apply_ops fst snd w_wrote]. rewrite (i64_rev sb Hb). split; [reflexivity|]. split; [discriminate|]. split; [|reflexivity].
    apply R_burn; [assumption|reflexivity].
Qed.

(* ------------------------------------------------------------------ closed forms of both sides per shape *)

Lemma shim_update_eq sb k v u lease lim :
  shim_txn sb (q_update k v u lease lim) =
  match b_update sb k v (u64_of_Z (union_mod u)) with
  | (st', BWErr) => (st', TErr)
  | (st', BWOk h true _) => (st', TOk (i64_of_N h) true [RsPut (i64_of_N h) None])
  | (st', BWOk h false cur) => (st', TOk (i64_of_N h) false [RsRange (i64_of_N h) (opt_kvs cur) 0 false])
  end.
Proof. reflexivity. Qed.

Lemma shim_delete_eq sb k u lim :
  shim_txn sb (q_delete k u lim) =
  match b_delete sb k (u64_of_Z (union_mod u)) with
  | (st', BWErr) => (st', TErr)
  | (st', BWOk h ok cur) => (st', TOk (i64_of_N h) ok [RsRange (i64_of_N h) (opt_kvs cur) 0 false])
  end.
Proof. reflexivity. Qed.

Lemma shim_deleteu_eq sb k lim :
  shim_txn sb (q_deleteu k lim) =
  match b_delete sb k 0%N with
  | (st', BWErr) => (st', TErr)
  | (st', BWOk h ok cur) => (st', TOk (i64_of_N h) ok [RsRange (i64_of_N h) (opt_kvs cur) 0 false])
  end.
Proof. reflexivity. Qed.

Definition get_resp (st : estore) (k : bytes) (h : Z) : respop :=
  match e_find k st with Some y => RsRange h [y] 1 false | None => RsRange h [] 0 false end.

Lemma etcd_update_fail se nr k v u lease lim : k <> [] -> esorted (e_cur se) ->
  eval_cmps (e_cur se) [q_cmp k u] = false ->
  etcd_txn se nr (q_update k v u lease lim) = (e_tick se nr, TOk (e_rev se) false [get_resp (e_cur se) k nr]).
Proof.
  intros Hk Hs Hc. unfold etcd_txn. rewrite (wf_update k v u lease lim Hk). cbn [negb].
  change (t_cmp (q_update k v u lease lim)) with [q_cmp k u].
  change (t_fail (q_update k v u lease lim)) with [q_get k lim]. rewrite Hc.
  unfold q_get. cbn [apply_ops apply_op r_key r_rev]. destruct k as [|k0 k']; [contradiction|].
  unfold store_at. cbn [Z.leb Z.compare w_store]. rewrite (do_range_get _ _ lim nr Hs). reflexivity.
Qed.

Lemma etcd_delete_fail se nr k u lim : k <> [] -> esorted (e_cur se) ->
  eval_cmps (e_cur se) [q_cmp k u] = false ->
  etcd_txn se nr (q_delete k u lim) = (e_tick se nr, TOk (e_rev se) false [get_resp (e_cur se) k nr]).
Proof.
  intros Hk Hs Hc. unfold etcd_txn. rewrite (wf_delete k u lim Hk). cbn [negb].
  change (t_cmp (q_delete k u lim)) with [q_cmp k u].
  change (t_fail (q_delete k u lim)) with [q_get k lim]. rewrite Hc.
  unfold q_get. cbn [apply_ops apply_op r_key r_rev]. destruct k as [|k0 k']; [contradiction|].
  unfold store_at. cbn [Z.leb Z.compare w_store]. rewrite (do_range_get _ _ lim nr Hs). reflexivity.
Qed.

Lemma etcd_update_succ_old se nr k v u lease lim o : k <> [] -> esorted (e_cur se) ->
  eval_cmps (e_cur se) [q_cmp k u] = true -> e_find k (e_cur se) = Some o ->
  let n := mkKv k v (k_create o) nr (k_ver o + 1) lease in
  etcd_txn se nr (q_update k v u lease lim) =
  (mkE nr (Z.max (e_now se) nr) (e_set n (e_cur se)) ((nr, e_set n (e_cur se)) :: e_hist se) (e_events se ++ [WEv false n (Some o)]),
   TOk nr true [RsPut nr None]).
Proof.
  intros Hk Hs Hc He n. unfold etcd_txn. rewrite (wf_update k v u lease lim Hk). cbn [negb].
  change (t_cmp (q_update k v u lease lim)) with [q_cmp k u].
  change (t_succ (q_update k v u lease lim)) with [q_put k v lease]. rewrite Hc.
  unfold q_put. cbn [apply_ops apply_op]. rewrite (apply_put_old nr _ _ _ k v lease o He). reflexivity.
Qed.

Lemma etcd_update_succ_new se nr k v u lease lim : k <> [] -> esorted (e_cur se) ->
  eval_cmps (e_cur se) [q_cmp k u] = true -> e_find k (e_cur se) = None ->
  let n := mkKv k v nr nr 1 lease in
  etcd_txn se nr (q_update k v u lease lim) =
  (mkE nr (Z.max (e_now se) nr) (e_set n (e_cur se)) ((nr, e_set n (e_cur se)) :: e_hist se) (e_events se ++ [WEv false n None]),
   TOk nr true [RsPut nr None]).
Proof.
  intros Hk Hs Hc He n. unfold etcd_txn. rewrite (wf_update k v u lease lim Hk). cbn [negb].
  change (t_cmp (q_update k v u lease lim)) with [q_cmp k u].
  change (t_succ (q_update k v u lease lim)) with [q_put k v lease]. rewrite Hc.
  unfold q_put. cbn [apply_ops apply_op]. rewrite (apply_put_new nr _ _ _ k v lease He). reflexivity.
Qed.

Lemma etcd_delete_succ se nr k u lim o : k <> [] -> esorted (e_cur se) ->
  eval_cmps (e_cur se) [q_cmp k u] = true -> e_find k (e_cur se) = Some o ->
  let st' := e_remove_range k [] (e_cur se) in
  etcd_txn se nr (q_delete k u lim) =
  (mkE nr (Z.max (e_now se) nr) st' ((nr, st') :: e_hist se) (e_events se ++ [WEv true (mkKv (k_key o) [] 0 nr 0 0) (Some o)]),
   TOk nr true [RsDel nr 1 []]).
Proof.
  intros Hk Hs Hc He st'. unfold etcd_txn. rewrite (wf_delete k u lim Hk). cbn [negb].
  change (t_cmp (q_delete k u lim)) with [q_cmp k u].
  change (t_succ (q_delete k u lim)) with [q_del k]. rewrite Hc.
  unfold q_del. cbn [apply_ops apply_op]. rewrite (apply_del_one nr _ _ _ k o Hs He). reflexivity.
Qed.

Lemma etcd_deleteu_some se nr k lim o : k <> [] -> esorted (e_cur se) -> e_find k (e_cur se) = Some o ->
  let st' := e_remove_range k [] (e_cur se) in
  etcd_txn se nr (q_deleteu k lim) =
  (mkE nr (Z.max (e_now se) nr) st' ((nr, st') :: e_hist se) (e_events se ++ [WEv true (mkKv (k_key o) [] 0 nr 0 0) (Some o)]),
   TOk nr true [RsRange nr [o] 1 false; RsDel nr 1 []]).
Proof.
  intros Hk Hs He st'. unfold etcd_txn. rewrite (wf_deleteu k lim Hk). cbn [negb].
  change (t_cmp (q_deleteu k lim)) with (@nil compare).
  change (t_succ (q_deleteu k lim)) with [q_get k lim; q_del k]. cbn [eval_cmps forallb].
  unfold q_get, q_del. cbn [apply_ops apply_op r_key r_rev]. destruct k as [|k0 k']; [contradiction|].
  unfold store_at. cbn [Z.leb Z.compare w_store]. rewrite (do_range_get _ _ lim nr Hs), He.
  rewrite (apply_del_one nr _ _ _ _ o Hs He). reflexivity.
Qed.

(* ------------------------------------------------------------------ update *)

Lemma pk_shim_kv sb k v r : bounded sb -> (r <= b_rev sb + 1)%N -> pk (shim_kv (k, v, r)) = (k, v, Z.of_N r).
Proof. intros Hb Hr. unfold shim_kv, pk; cbn. rewrite (i64_le sb r Hb Hr). reflexivity. Qed.

Lemma b_get_absent sb k : bk_vers (b_find k (b_kv sb)) = [] -> b_get (b_kv sb) k 0 = GNotFound.
Proof. intros H. unfold b_get. rewrite H. reflexivity. Qed.

Lemma b_get_deleted sb k r rest : bounded sb -> (r <= b_rev sb)%N ->
  bk_vers (b_find k (b_kv sb)) = (r, tombstone) :: rest -> b_get (b_kv sb) k 0 = GNotFound.
Proof.
  intros Hb Hr H. rewrite (b_get_latest sb k r tombstone rest H (bounded_le_max sb r Hb Hr)). rewrite beqb_refl. reflexivity.
Qed.

Lemma b_get_live sb k r v rest : bounded sb -> (r <= b_rev sb)%N -> v <> tombstone ->
  bk_vers (b_find k (b_kv sb)) = (r, v) :: rest -> b_get (b_kv sb) k 0 = GFound v r.
Proof.
  intros Hb Hr Hv H. rewrite (b_get_latest sb k r v rest H (bounded_le_max sb r Hb Hr)).
  apply beqb_neq in Hv. rewrite Hv. reflexivity.
Qed.

Lemma sim_update_scope sb se k v u lease lim :
  R sb se -> bounded sb -> k <> [] -> v <> tombstone ->
  0 <= union_mod u <= Z.of_N (b_rev sb) + 1 ->
  sim_ok (q_update k v u lease lim) sb se.
Proof.
  intros HR Hb Hk Hv He. unfold sim_ok. set (nr := Z.of_N (b_rev sb) + 1). set (e := union_mod u) in *.
  pose proof (R_es _ _ HR) as Hs.
  rewrite shim_update_eq. fold e.
  assert (Hexp : u64_of_Z e = Z.to_N e) by (apply u64_of_Z_small; unfold bounded, two63 in Hb; lia).
  rewrite Hexp. unfold b_update.
  destruct (Z.eq_dec e 0) as [E0|E0].
  - (* expected revision 0: the create path *)
    rewrite E0. cbn [Z.to_N N.eqb]. unfold b_create.
    assert (Hcmp : eval_cmps (e_cur se) [q_cmp k u] = match e_find k (e_cur se) with Some y => k_mod y =? 0 | None => true end).
    { rewrite (eval_mod_cmp se k u Hs). fold e. rewrite E0. reflexivity. }
    destruct (key_cases sb se k HR) as [Hi Hvs Hf | r rest Hi Hvs Hr Hf | r v0 rest y Hi Hvs Hv0 Hr Hf Hyk Hyv Hym].
    + rewrite Hi. rewrite Hf in Hcmp.
      rewrite (etcd_update_succ_new se nr k v u lease lim Hk Hs Hcmp Hf). cbn [fst snd].
      rewrite (i64_rev sb Hb). split; [reflexivity|]. split; [discriminate|]. split; [|reflexivity].
      rewrite Hvs. eapply (R_put sb se k v _ _ _ [] HR Hv); [rewrite Hvs; reflexivity|reflexivity|].
      cbn. rewrite (i64_rev sb Hb). reflexivity.
    + rewrite Hi. assert (Hlt : (r <? b_rev sb + 1)%N = true) by (apply N.ltb_lt; lia). rewrite Hlt. cbn [andb].
      rewrite Hf in Hcmp.
      rewrite (etcd_update_succ_new se nr k v u lease lim Hk Hs Hcmp Hf). cbn [fst snd].
      rewrite (i64_rev sb Hb). split; [reflexivity|]. split; [discriminate|]. split; [|reflexivity].
      eapply (R_put sb se k v _ _ _ _ HR Hv); [reflexivity|reflexivity|].
      cbn. rewrite (i64_rev sb Hb). reflexivity.
    + rewrite Hi. cbn [andb b_kv].
      rewrite (b_get_live sb k r v0 rest Hb ltac:(lia) Hv0 Hvs).
      rewrite Hf in Hcmp. assert (Hm : (k_mod y =? 0) = false) by (apply Z.eqb_neq; lia). rewrite Hm in Hcmp.
      rewrite (etcd_update_fail se nr k v u lease lim Hk Hs Hcmp). cbn [fst snd].
      unfold get_resp. rewrite Hf.
      split; [|split; [discriminate|split; [apply R_burn; [assumption|reflexivity]|reflexivity]]].
      unfold proj_txn, q_update; cbn [t_fail proj_ops proj_op q_get opt_kvs map].
      rewrite (pk_shim_kv sb k v0 r Hb ltac:(lia)). unfold pk. rewrite Hyk, Hyv, Hym. reflexivity.
  - (* a positive expected revision *)
    assert (Hz : (Z.to_N e =? 0)%N = false) by (apply N.eqb_neq; lia). rewrite Hz.
    assert (Hd : drift (Z.to_N e) (b_rev sb + 1) = false).
    { unfold drift. apply andb_false_iff. right. apply N.ltb_ge. unfold nr in *. lia. }
    rewrite Hd.
    assert (Hcmp : eval_cmps (e_cur se) [q_cmp k u] = match e_find k (e_cur se) with Some y => k_mod y =? e | None => false end).
    { rewrite (eval_mod_cmp se k u Hs). fold e. destruct (e_find k (e_cur se)); [reflexivity|]. apply Z.eqb_neq. lia. }
    destruct (key_cases sb se k HR) as [Hi Hvs Hf | r rest Hi Hvs Hr Hf | r v0 rest y Hi Hvs Hv0 Hr Hf Hyk Hyv Hym].
    + rewrite Hi. rewrite (b_get_absent sb k Hvs). rewrite Hf in Hcmp.
      rewrite (etcd_update_fail se nr k v u lease lim Hk Hs Hcmp). cbn [fst snd]. unfold get_resp. rewrite Hf.
      split; [reflexivity|split; [discriminate|split; [apply R_burn; [assumption|reflexivity]|reflexivity]]].
    + rewrite Hi. rewrite (b_get_deleted sb k r rest Hb ltac:(lia) Hvs). rewrite Hf in Hcmp.
      rewrite (etcd_update_fail se nr k v u lease lim Hk Hs Hcmp). cbn [fst snd]. unfold get_resp. rewrite Hf.
      split; [reflexivity|split; [discriminate|split; [apply R_burn; [assumption|reflexivity]|reflexivity]]].
    + rewrite Hi. rewrite Hf in Hcmp. destruct (N.eqb_spec r (Z.to_N e)) as [Er|Er].
      * (* the compare holds on both sides *)
        assert (Hm : (k_mod y =? e) = true) by (apply Z.eqb_eq; lia). rewrite Hm in Hcmp.
        rewrite (etcd_update_succ_old se nr k v u lease lim y Hk Hs Hcmp Hf). cbn [fst snd].
        rewrite (i64_rev sb Hb). split; [reflexivity|]. split; [discriminate|]. split; [|reflexivity].
        rewrite Hvs. eapply (R_put sb se k v _ _ _ _ HR Hv); [exact Hvs|reflexivity|].
        cbn. rewrite (i64_rev sb Hb). reflexivity.
      * assert (Hm : (k_mod y =? e) = false) by (apply Z.eqb_neq; lia). rewrite Hm in Hcmp.
        rewrite (b_get_live sb k r v0 rest Hb ltac:(lia) Hv0 Hvs).
        rewrite (etcd_update_fail se nr k v u lease lim Hk Hs Hcmp). cbn [fst snd].
        unfold get_resp. rewrite Hf.
        split; [|split; [discriminate|split; [apply R_burn; [assumption|reflexivity]|reflexivity]]].
        unfold proj_txn, q_update; cbn [t_fail proj_ops proj_op q_get opt_kvs map].
        rewrite (pk_shim_kv sb k v0 r Hb ltac:(lia)). unfold pk. rewrite Hyk, Hyv, Hym. reflexivity.
Qed.

(* a hostile expected revision (negative, or beyond the next revision): deal() reports a drift *)
Lemma hostile_drift sb e : bounded sb -> (- two63 <= e < 0 \/ Z.of_N (b_rev sb) + 1 < e < two63) ->
  drift (u64_of_Z e) (b_rev sb + 1) = true /\ (u64_of_Z e =? 0)%N = false.
Proof.
  unfold bounded, two63. intros Hb [He|He].
  - pose proof (u64_of_Z_neg e ltac:(unfold two63; lia)) as Hx.
    unfold drift. split; [apply andb_true_iff; split; [apply N.ltb_lt|apply N.ltb_lt]|apply N.eqb_neq]; lia.
  - rewrite u64_of_Z_small by lia.
    unfold drift. split; [apply andb_true_iff; split; [apply N.ltb_lt|apply N.ltb_lt]|apply N.eqb_neq]; lia.
Qed.

Lemma R_burn' sb se : R sb se ->
  R (mkB (b_rev sb + 1) (b_kv sb) (b_events sb)) (e_tick se (Z.of_N (b_rev sb + 1))).
Proof. intros HR. replace (Z.of_N (b_rev sb + 1)) with (Z.of_N (b_rev sb) + 1) by lia. apply R_burn; [assumption|reflexivity]. Qed.

Lemma sim_update_hostile sb se k v u lease lim :
  R sb se -> bounded sb ->
  (- two63 <= union_mod u < 0 \/ Z.of_N (b_rev sb) + 1 < union_mod u < two63) ->
  rejected (q_update k v u lease lim) sb se.
Proof.
  intros HR Hb He. destruct (hostile_drift sb _ Hb He) as [Hd Hz].
  unfold rejected. rewrite shim_update_eq. unfold b_update. rewrite Hz, Hd. cbn [fst snd b_kv b_events b_rev].
  split; [reflexivity|]. split; [reflexivity|]. split; [reflexivity|]. apply R_burn'. assumption.
Qed.

(* ------------------------------------------------------------------ guarded delete *)

Lemma sim_delete_missing sb se k u lim :
  R sb se -> bounded sb -> k <> [] -> union_mod u <> 0 -> e_find k (e_cur se) = None ->
  sim_ok (q_delete k u lim) sb se.
Proof.
  intros HR Hb Hk He Hf. unfold sim_ok. set (nr := Z.of_N (b_rev sb) + 1).
  pose proof (R_es _ _ HR) as Hs. rewrite shim_delete_eq. unfold b_delete.
  assert (Hcmp : eval_cmps (e_cur se) [q_cmp k u] = false).
  { rewrite (eval_mod_cmp se k u Hs), Hf. apply Z.eqb_neq. lia. }
  assert (Hg : b_get (b_kv sb) k 0 = GNotFound).
  { destruct (key_cases sb se k HR) as [Hi Hvs Hf' | r rest Hi Hvs Hr Hf' | r v0 rest y Hi Hvs Hv0 Hr Hf' Hyk Hyv Hym].
    - apply b_get_absent; assumption.
    - eapply b_get_deleted; eauto; lia.
    - congruence. }
  rewrite Hg. rewrite (etcd_delete_fail se nr k u lim Hk Hs Hcmp). cbn [fst snd]. unfold get_resp. rewrite Hf.
  split; [reflexivity|split; [discriminate|split; [apply R_burn; [assumption|reflexivity]|reflexivity]]].
Qed.

Lemma sim_delete_scope sb se k u lim :
  R sb se -> bounded sb -> k <> [] ->
  0 < union_mod u <= Z.of_N (b_rev sb) + 1 ->
  sim_ok (q_delete k u lim) sb se.
Proof.
  intros HR Hb Hk He.
  destruct (e_find k (e_cur se)) as [y0|] eqn:Hf0; [|apply sim_delete_missing; try assumption; lia].
  unfold sim_ok. set (nr := Z.of_N (b_rev sb) + 1). set (e := union_mod u) in *.
  pose proof (R_es _ _ HR) as Hs. rewrite shim_delete_eq. fold e.
  assert (Hexp : u64_of_Z e = Z.to_N e) by (apply u64_of_Z_small; unfold bounded, two63 in Hb; lia).
  rewrite Hexp. unfold b_delete.
  destruct (key_cases sb se k HR) as [Hi Hvs Hf | r rest Hi Hvs Hr Hf | r v0 rest y Hi Hvs Hv0 Hr Hf Hyk Hyv Hym]; try congruence.
  rewrite (b_get_live sb k r v0 rest Hb ltac:(lia) Hv0 Hvs).
  assert (Hd : drift (Z.to_N e) (b_rev sb + 1) = false).
  { unfold drift. apply andb_false_iff. right. apply N.ltb_ge. unfold nr in *. lia. }
  rewrite Hd.
  assert (Hpos : (0 <? Z.to_N e)%N = true) by (apply N.ltb_lt; lia). rewrite Hpos. cbn [andb].
  assert (Hcmp : eval_cmps (e_cur se) [q_cmp k u] = (k_mod y =? e)) by (rewrite (eval_mod_cmp se k u Hs), Hf; reflexivity).
  destruct (N.eqb_spec (Z.to_N e) r) as [Er|Er]; cbn [negb].
  - (* the guard holds: both delete *)
    assert (Hle : (b_rev sb + 1 <=? r)%N = false) by (apply N.leb_gt; lia). rewrite Hle.
    rewrite Hi, N.eqb_refl.
    assert (Hm : (k_mod y =? e) = true) by (apply Z.eqb_eq; lia). rewrite Hm in Hcmp.
    rewrite (etcd_delete_succ se nr k u lim y Hk Hs Hcmp Hf). cbn [fst snd].
    rewrite (i64_rev sb Hb). split; [reflexivity|]. split; [discriminate|]. split; [|reflexivity].
    rewrite Hvs. eapply (R_del sb se k v0 r rest _ _ HR Hvs).
    cbn. rewrite (i64_rev sb Hb), (i64_le sb r Hb ltac:(lia)). unfold pk. rewrite Hyk, Hyv, Hym. reflexivity.
  - assert (Hm : (k_mod y =? e) = false) by (apply Z.eqb_neq; lia). rewrite Hm in Hcmp.
    rewrite (etcd_delete_fail se nr k u lim Hk Hs Hcmp). cbn [fst snd].
    unfold get_resp. rewrite Hf.
    split; [|split; [discriminate|split; [apply R_burn; [assumption|reflexivity]|reflexivity]]].
    unfold proj_txn, q_delete; cbn [t_fail proj_ops proj_op q_get opt_kvs map].
    rewrite (pk_shim_kv sb k v0 r Hb ltac:(lia)). unfold pk. rewrite Hyk, Hyv, Hym. reflexivity.
Qed.

Lemma sim_delete_hostile sb se k u lim y :
  R sb se -> bounded sb -> e_find k (e_cur se) = Some y ->
  (- two63 <= union_mod u < 0 \/ Z.of_N (b_rev sb) + 1 < union_mod u < two63) ->
  rejected (q_delete k u lim) sb se.
Proof.
  intros HR Hb Hf He. destruct (hostile_drift sb _ Hb He) as [Hd Hz].
  unfold rejected. rewrite shim_delete_eq. unfold b_delete.
  destruct (key_cases sb se k HR) as [Hi Hvs Hf' | r rest Hi Hvs Hr Hf' | r v0 rest y' Hi Hvs Hv0 Hr Hf' Hyk Hyv Hym]; try congruence.
  rewrite (b_get_live sb k r v0 rest Hb ltac:(lia) Hv0 Hvs), Hd. cbn [fst snd b_kv b_events b_rev].
  split; [reflexivity|]. split; [reflexivity|]. split; [reflexivity|]. apply R_burn'. assumption.
Qed.

(* ------------------------------------------------------------------ unguarded delete of an existing key *)

Lemma sim_deleteu_live sb se k lim y :
  R sb se -> bounded sb -> k <> [] -> e_find k (e_cur se) = Some y ->
  sim_ok (q_deleteu k lim) sb se.
Proof.
  intros HR Hb Hk Hf0. unfold sim_ok. set (nr := Z.of_N (b_rev sb) + 1).
  pose proof (R_es _ _ HR) as Hs. rewrite shim_deleteu_eq. unfold b_delete.
  destruct (key_cases sb se k HR) as [Hi Hvs Hf | r rest Hi Hvs Hr Hf | r v0 rest y' Hi Hvs Hv0 Hr Hf Hyk Hyv Hym]; try congruence.
  rewrite (b_get_live sb k r v0 rest Hb ltac:(lia) Hv0 Hvs).
  unfold drift. cbn [N.ltb N.compare andb negb].
  assert (Hle : (b_rev sb + 1 <=? r)%N = false) by (apply N.leb_gt; lia). rewrite Hle.
  rewrite Hi, N.eqb_refl.
  rewrite (etcd_deleteu_some se nr k lim y' Hk Hs Hf). cbn [fst snd].
  rewrite (i64_rev sb Hb). split; [|split; [discriminate|split; [|reflexivity]]].
  - unfold proj_txn, q_deleteu; cbn [t_succ proj_ops proj_op q_get q_del opt_kvs map d_prev_kv].
    rewrite (pk_shim_kv sb k v0 r Hb ltac:(lia)). unfold pk. rewrite Hyk, Hyv, Hym. reflexivity.
  - rewrite Hvs. eapply (R_del sb se k v0 r rest _ _ HR Hvs).
    cbn. rewrite (i64_rev sb Hb), (i64_le sb r Hb ltac:(lia)). unfold pk. rewrite Hyk, Hyv, Hym. reflexivity.
Qed.
