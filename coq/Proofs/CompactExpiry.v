(* C17: what scanner expiry (compactIfExpired inside the compaction scan) removes. *)
From KB Require Import Base.Cases Model.Coder Model.CompactSys Model.C07Cases Model.C17Cases
  Proofs.Coder Proofs.CompactSafe Proofs.CompactReads Proofs.CompactWf Proofs.CompactPass.
Local Open Scope N_scope.

(* ---------- the timeout revision ---------- *)

(* getTimeoutRevision returns 0 or the revision of a mark that is at least ttl old *)
Lemma pop_marks_spec ttl now : forall q prev,
  let '(tr, q') := pop_marks ttl now q prev in
  (tr = prev \/ exists t, In (tr, t) q /\ ttl <= now - t) /\
  (exists popped, q = popped ++ q' /\ Forall (fun m => ttl <= now - snd m) popped).
Proof.
  induction q as [|[r t] q IH]; intros prev; cbn [pop_marks].
  - split; [left; reflexivity|]. exists []. split; [reflexivity|constructor].
  - destruct (now - t <? ttl) eqn:E.
    + split; [left; reflexivity|]. exists []. split; [reflexivity|constructor].
    + apply N.ltb_ge in E. specialize (IH r). destruct (pop_marks ttl now q r) as [tr q'].
      destruct IH as ([->|(t' & Hin & Hle)] & popped & -> & Hf).
      * split; [right; exists t; split; [left; reflexivity|exact E]|].
        exists ((r, t) :: popped). split; [reflexivity|constructor; [exact E|exact Hf]].
      * split; [right; exists t'; split; [right; exact Hin|exact Hle]|].
        exists ((r, t) :: popped). split; [reflexivity|constructor; [exact E|exact Hf]].
Qed.

Lemma timeout_revision_spec sup ttl now q :
  let '(tr, q') := timeout_revision sup ttl now q in
  tr = 0 \/ (sup = false /\ exists t, In (tr, t) q /\ ttl <= now - t).
Proof.
  unfold timeout_revision. destruct sup; [left; reflexivity|].
  pose proof (pop_marks_spec ttl now q 0) as H. destruct (pop_marks ttl now q 0) as [tr q'].
  destruct H as ([->|H] & _); [left; reflexivity|right; split; [reflexivity|exact H]].
Qed.

(* ---------- every engine delete of a scan is an expiry target or a compaction target ---------- *)

Section Evp.
(* scanner.Config.EventsPrefix *)
Variable evp : bytes.

Definition expiry_target (tr : N) (x : rec) : Prop :=
  tr <> 0 /\ is_expirable evp (rkey x) = true /\ rec_rev x <= tr.

Definition compaction_target (R : N) (x : rec) : Prop :=
  match x with RVer _ r _ => r <= R | RIdx _ orev d => d = true /\ orev <= R end.

Definition step_ok (R tr : N) (P : rec -> Prop) (s : dstep) : Prop :=
  (expiry_target tr (ds_target s) /\ P (ds_target s)) \/ compaction_target R (ds_target s).

Lemma ed_trace R kind x d :
  d_trace (engine_delete R kind x d) = d_trace d \/
  exists o sf, d_trace (engine_delete R kind x d) = mkStep kind x o sf :: d_trace d.
Proof.
  destruct (ed_cases R kind x d) as [[E _]|(Ed & Esk & adds & o & rest & o' & Hq & Eg & Eo & Et & Hres)];
    cbv zeta in *; [rewrite E; left; reflexivity|right; eauto].
Qed.

Lemma ed_steps_ok R tr P kind x d :
  Forall (step_ok R tr P) (d_trace d) -> ((expiry_target tr x /\ P x) \/ compaction_target R x) ->
  Forall (step_ok R tr P) (d_trace (engine_delete R kind x d)).
Proof.
  intros Hf Hx. destruct (ed_trace R kind x d) as [E|(o & sf & E)]; rewrite E; [exact Hf|].
  constructor; [exact Hx|exact Hf].
Qed.

Definition ccfg (R tr : N) : wcfg := mkCfg R true tr 0 evp.

Lemma wbody_steps_ok R tr P x s :
  Forall (step_ok R tr P) (d_trace (w_d s)) -> w_pr s <= R -> P x ->
  Forall (step_ok R tr P) (d_trace (w_d (wbody (ccfg R tr) x s))) /\ w_pr (wbody (ccfg R tr) x s) <= R.
Proof.
  intros Hf Hp HP. unfold wbody, ccfg. cbn [w_tr w_rev w_compact w_evp].
  destruct (tr =? 0) eqn:Etr.
  - (* no expiry *)
    destruct (R <? rrev x) eqn:HR; [split; assumption|]. apply N.ltb_ge in HR.
    set (d1 := if negb (beqb (rkey x) (w_pk s)) then w_d s
               else if true && (0 <? w_pr s) then engine_delete R KDel (RVer (w_pk s) (w_pr s) (w_pv s)) (w_d s) else w_d s).
    assert (H1 : Forall (step_ok R tr P) (d_trace d1)).
    { unfold d1. destruct (negb (beqb (rkey x) (w_pk s))); [exact Hf|]. cbn [andb].
      destruct (0 <? w_pr s); [|exact Hf]. apply ed_steps_ok; [exact Hf|right; exact Hp]. }
    set (d2 := if true && is_tomb (rval x) then engine_delete R KDel x d1 else d1).
    assert (H2 : Forall (step_ok R tr P) (d_trace d2)).
    { unfold d2. cbn [andb]. destruct (is_tomb (rval x)) eqn:Et; [|exact H1]. apply ed_steps_ok; [exact H1|right].
      destruct x as [k0 r0 d0|k0 r0 v0]; [rewrite is_tomb_idx in Et; discriminate|exact HR]. }
    destruct (negb (beqb (rkey x) (w_pk s))) eqn:Ek; cbn [andb] in *.
    + fold d1 in H1. destruct x as [k0 orev [|]|k0 r0 v0]; cbn [w_d w_pr rrev] in *; try (split; [exact H2|assumption]).
      destruct (R <? orev) eqn:Eo; cbn [w_d w_pr]; [split; [exact H2|exact Hp]|].
      apply N.ltb_ge in Eo. split; [apply ed_steps_ok; [exact H2|right; split; [reflexivity|exact Eo]]|lia].
    + destruct x as [k0 orev [|]|k0 r0 v0]; cbn [w_d w_pr rrev] in *; try (split; [exact H2|assumption]).
      destruct (R <? orev) eqn:Eo; cbn [w_d w_pr]; [split; [exact H2|exact Hp]|].
      apply N.ltb_ge in Eo. split; [apply ed_steps_ok; [exact H2|right; split; [reflexivity|exact Eo]]|lia].
  - apply N.eqb_neq in Etr.
    destruct (is_expirable evp (rkey x)) eqn:Ec.
    + destruct x as [k0 orev d0|k0 r0 v0]; cbn [rrev rkey] in *.
      * destruct (orev <=? tr) eqn:El.
        -- cbn [w_d w_pr]. split; [|exact Hp]. apply ed_steps_ok; [exact Hf|left].
           split; [split; [exact Etr|split; [exact Ec|apply N.leb_le; exact El]]|exact HP].
        -- (* falls through to the compaction proper *)
           destruct (R <? 0) eqn:HR; [split; assumption|].
           set (d1 := if negb (beqb k0 (w_pk s)) then w_d s
                      else if true && (0 <? w_pr s) then engine_delete R KDel (RVer (w_pk s) (w_pr s) (w_pv s)) (w_d s) else w_d s).
           assert (H1 : Forall (step_ok R tr P) (d_trace d1)).
           { unfold d1. destruct (negb (beqb k0 (w_pk s))); [exact Hf|]. cbn [andb].
             destruct (0 <? w_pr s); [|exact Hf]. apply ed_steps_ok; [exact Hf|right; exact Hp]. }
           rewrite is_tomb_idx. cbn [andb].
           destruct (negb (beqb k0 (w_pk s))) eqn:Ek; cbn [andb] in *; fold d1;
             (destruct d0; cbn [w_d w_pr]; [|split; [exact H1|lia]];
              destruct (R <? orev) eqn:Eo; cbn [w_d w_pr]; [split; [exact H1|exact Hp]|];
              apply N.ltb_ge in Eo; split; [apply ed_steps_ok; [exact H1|right; split; [reflexivity|exact Eo]]|lia]).
      * destruct (r0 <=? tr) eqn:El.
        -- cbn [w_d w_pr]. split; [|exact Hp]. apply ed_steps_ok; [exact Hf|left].
           split; [split; [exact Etr|split; [exact Ec|apply N.leb_le; exact El]]|exact HP].
        -- destruct (R <? r0) eqn:HR; [split; assumption|]. apply N.ltb_ge in HR.
           set (d1 := if negb (beqb k0 (w_pk s)) then w_d s
                      else if true && (0 <? w_pr s) then engine_delete R KDel (RVer (w_pk s) (w_pr s) (w_pv s)) (w_d s) else w_d s).
           assert (H1 : Forall (step_ok R tr P) (d_trace d1)).
           { unfold d1. destruct (negb (beqb k0 (w_pk s))); [exact Hf|]. cbn [andb].
             destruct (0 <? w_pr s); [|exact Hf]. apply ed_steps_ok; [exact Hf|right; exact Hp]. }
           cbn [rval andb].
           destruct (negb (beqb k0 (w_pk s))) eqn:Ek; cbn [andb] in *; fold d1;
             (destruct (is_tomb v0); cbn [w_d w_pr]; (split; [|exact HR]); [apply ed_steps_ok; [exact H1|right; exact HR]|exact H1]).
    + (* not an /events/ key: same as no expiry *)
      destruct (R <? rrev x) eqn:HR; [split; assumption|]. apply N.ltb_ge in HR.
      set (d1 := if negb (beqb (rkey x) (w_pk s)) then w_d s
                 else if true && (0 <? w_pr s) then engine_delete R KDel (RVer (w_pk s) (w_pr s) (w_pv s)) (w_d s) else w_d s).
      assert (H1 : Forall (step_ok R tr P) (d_trace d1)).
      { unfold d1. destruct (negb (beqb (rkey x) (w_pk s))); [exact Hf|]. cbn [andb].
        destruct (0 <? w_pr s); [|exact Hf]. apply ed_steps_ok; [exact Hf|right; exact Hp]. }
      set (d2 := if true && is_tomb (rval x) then engine_delete R KDel x d1 else d1).
      assert (H2 : Forall (step_ok R tr P) (d_trace d2)).
      { unfold d2. cbn [andb]. destruct (is_tomb (rval x)) eqn:Et; [|exact H1]. apply ed_steps_ok; [exact H1|right].
        destruct x as [k0 r0 d0|k0 r0 v0]; [rewrite is_tomb_idx in Et; discriminate|exact HR]. }
      destruct (negb (beqb (rkey x) (w_pk s))) eqn:Ek; cbn [andb] in *.
      * fold d1 in H1. destruct x as [k0 orev [|]|k0 r0 v0]; cbn [w_d w_pr rrev] in *; try (split; [exact H2|assumption]).
        destruct (R <? orev) eqn:Eo; cbn [w_d w_pr]; [split; [exact H2|exact Hp]|].
        apply N.ltb_ge in Eo. split; [apply ed_steps_ok; [exact H2|right; split; [reflexivity|exact Eo]]|lia].
      * destruct x as [k0 orev [|]|k0 r0 v0]; cbn [w_d w_pr rrev] in *; try (split; [exact H2|assumption]).
        destruct (R <? orev) eqn:Eo; cbn [w_d w_pr]; [split; [exact H2|exact Hp]|].
        apply N.ltb_ge in Eo. split; [apply ed_steps_ok; [exact H2|right; split; [reflexivity|exact Eo]]|lia].
Qed.

Lemma wloop_steps_ok R tr (P : rec -> Prop) : forall snap s,
  (forall x, In x snap -> P x) -> Forall (step_ok R tr P) (d_trace (w_d s)) -> w_pr s <= R ->
  Forall (step_ok R tr P) (d_trace (w_d (wloop (ccfg R tr) snap s))).
Proof.
  induction snap as [|x t IH]; intros s HP Hf Hp; cbn [wloop]; [exact Hf|].
  destruct (negb (need_more (ccfg R tr) (w_out s))); [exact Hf|].
  destruct (d_dead (w_d s)); [exact Hf|].
  destruct (wbody_steps_ok R tr P x s Hf Hp) as (H1 & H2); [apply HP; left; reflexivity|].
  apply IH; [intros y Hy; apply HP; right; exact Hy|exact H1|exact H2].
Qed.

(* ---------- sequential runs: what one engine delete can take away ---------- *)

Lemma rec_eqb_eq x y : rec_eqb x y = true <-> x = y.
Proof.
  destruct x as [k r d|k r v], y as [k' r' d'|k' r' v']; cbn [rec_eqb]; try (split; discriminate).
  - rewrite !andb_true_iff, beqb_eq, N.eqb_eq, Bool.eqb_true_iff. split; [intros [[-> ->] ->]; reflexivity|intros E; injection E as -> -> ->; auto].
  - rewrite !andb_true_iff, !beqb_eq, N.eqb_eq. split; [intros [[-> ->] ->]; reflexivity|intros E; injection E as -> -> ->; auto].
Qed.

Lemma memb_spec x V : memb x V = true <-> In x V.
Proof.
  unfold memb. rewrite existsb_exists. split.
  - intros (y & Hy & E). apply rec_eqb_eq in E. subst. exact Hy.
  - intros H. exists x. split; [exact H|apply rec_eqb_eq; reflexivity].
Qed.

Definition target_ok (R tr : N) (x : rec) : Prop := expiry_target tr x \/ compaction_target R x.

Lemma same_slot_target_ok R tr x y :
  is_ver x = true -> same_slot x y = true -> target_ok R tr x -> target_ok R tr y.
Proof.
  destruct x as [|k r v]; [discriminate|]. intros _ Hs. apply same_slot_ver in Hs as [v' ->].
  unfold target_ok, expiry_target, compaction_target. cbn [rkey rec_rev]. auto.
Qed.

Lemma ed_seq R kind x d :
  adds_of d = [] ->
  adds_of (engine_delete R kind x d) = [] /\
  (forall y, In y (d_store (engine_delete R kind x d)) -> In y (d_store d)) /\
  (forall y, In y (d_store d) -> In y (d_store (engine_delete R kind x d)) \/
                               (same_slot x y = true /\ (kind = KDelCur -> In x (d_store d)))).
Proof.
  intros Ha.
  destruct (ed_cases R kind x d) as [[E _]|(Ed & Esk & adds & o & rest & o' & Hq & Eg & Eo & Et & Hres)];
    cbv zeta in *; [rewrite E; auto|].
  assert (Hadds : adds = [] /\ flat_map fst rest = []).
  { destruct Hq as [(_ & -> & _ & ->)|Eq]; [auto|]. unfold adds_of in Ha. rewrite Eq in Ha. cbn [flat_map fst] in Ha.
    apply app_eq_nil in Ha. exact Ha. }
  destruct Hadds as [-> Hrest]. cbn [apply_env] in *.
  split; [unfold adds_of; rewrite Eo; exact Hrest|].
  destruct Hres as [(Ho & E & _ & _ & Hm)|[(_ & _ & E & _)|[(_ & E & _)|(_ & E & _)]]]; rewrite E; try (split; auto).
  - intros y Hy. apply in_del_slot in Hy as [Hy _]. exact Hy.
  - intros y Hy. destruct (same_slot x y) eqn:Es; [right|left; apply in_del_slot; auto].
    split; [reflexivity|]. intros Hk. apply memb_spec. apply Hm. exact Hk.
Qed.

(* the expiry decision of compactIfExpired *)
Definition expire_kind (tr : N) (x : rec) : option dkind :=
  if tr =? 0 then None
  else if is_expirable evp (rkey x) then
    match x with
    | RIdx _ orev _ => if orev <=? tr then Some KDelCur else None
    | RVer _ r _ => if r <=? tr then Some KDel else None
    end
  else None.

Lemma wbody_split R tr x s :
  wbody (ccfg R tr) x s =
  match expire_kind tr x with
  | Some kind => mkW (engine_delete R kind x (w_d s)) (w_pk s) (w_pr s) (w_pv s) (w_out s)
  | None => wbody (cfg R) x s
  end.
Proof.
  unfold wbody, ccfg, cfg, expire_kind. cbn [w_tr w_rev w_compact w_limit w_evp].
  destruct (tr =? 0); [reflexivity|].
  destruct (is_expirable evp (rkey x)); [|reflexivity].
  destruct x as [k orev d|k r v]; cbn [rrev].
  - destruct (orev <=? tr); reflexivity.
  - destruct (r <=? tr); reflexivity.
Qed.

Lemma expire_kind_target tr x kind : expire_kind tr x = Some kind ->
  expiry_target tr x /\ (kind = KDel -> is_ver x = true) /\ (kind = KDelCur -> is_ver x = false).
Proof.
  unfold expire_kind, expiry_target. destruct (tr =? 0) eqn:Etr; [discriminate|]. apply N.eqb_neq in Etr.
  destruct (is_expirable evp (rkey x)) eqn:Ec; [|discriminate].
  destruct x as [k orev d|k r v]; cbn [rec_rev is_ver].
  - destruct (orev <=? tr) eqn:El; [|discriminate]. apply N.leb_le in El. intros E. injection E as <-.
    repeat split; auto; discriminate.
  - destruct (r <=? tr) eqn:El; [|discriminate]. apply N.leb_le in El. intros E. injection E as <-.
    repeat split; auto; discriminate.
Qed.

(* a sequential scan removes only expiry targets and compaction targets *)
Section SeqKeep.
Variables (R tr : N) (V0 : store).
Hypothesis Hu : idx_unique V0.

Definition keeps (d d' : dst) : Prop :=
  adds_of d' = [] /\ (forall y, In y (d_store d') -> In y (d_store d)) /\
  (forall y, In y (d_store d) -> In y (d_store d') \/ target_ok R tr y).

Lemma keeps_refl d : adds_of d = [] -> keeps d d.
Proof. intros H. repeat split; auto. Qed.

Lemma keeps_trans d1 d2 d3 : keeps d1 d2 -> keeps d2 d3 -> keeps d1 d3.
Proof.
  intros (A1 & A2 & A3) (B1 & B2 & B3). split; [exact B1|split].
  - intros y Hy. apply A2, B2, Hy.
  - intros y Hy. destruct (A3 y Hy) as [H|H]; [apply B3; exact H|right; exact H].
Qed.

Lemma keeps_ver z d : adds_of d = [] -> is_ver z = true -> target_ok R tr z -> keeps d (engine_delete R KDel z d).
Proof.
  intros Had Hz Ht. destruct (ed_seq R KDel z d Had) as (A1 & A2 & A3).
  split; [exact A1|split; [exact A2|]].
  intros y Hy. destruct (A3 y Hy) as [H|[Hs _]]; [left; exact H|right]. eapply same_slot_target_ok; eauto.
Qed.

Lemma keeps_idx k r dd d :
  adds_of d = [] -> (forall y, In y (d_store d) -> In y V0) -> target_ok R tr (RIdx k r dd) ->
  keeps d (engine_delete R KDelCur (RIdx k r dd) d).
Proof.
  intros Had Hsub Ht. destruct (ed_seq R KDelCur (RIdx k r dd) d Had) as (A1 & A2 & A3).
  split; [exact A1|split; [exact A2|]].
  intros y Hy. destruct (A3 y Hy) as [H|[Hs Hin]]; [left; exact H|right].
  apply same_slot_idx in Hs as (r' & d' & ->). specialize (Hin eq_refl).
  destruct (Hu k r dd r' d' (Hsub _ Hin) (Hsub _ Hy)) as [<- <-]. exact Ht.
Qed.

Lemma proper_keeps x s :
  adds_of (w_d s) = [] -> (forall y, In y (d_store (w_d s)) -> In y V0) -> w_pr s <= R ->
  keeps (w_d s) (w_d (wbody (cfg R) x s)) /\ w_pr (wbody (cfg R) x s) <= R.
Proof.
  intros Ha Hsub Hp.
  destruct (R <? rrev x) eqn:HR; [rewrite wbody_skip by exact HR; split; [apply keeps_refl; exact Ha|exact Hp]|].
  destruct (wbody_compact R x s HR) as (Ed & Eprev). apply N.ltb_ge in HR. rewrite Ed.
  assert (KA : keeps (w_d s) (stepA R x s)).
  { unfold stepA. destruct (beqb (rkey x) (w_pk s) && (0 <? w_pr s)); [|apply keeps_refl; exact Ha].
    apply keeps_ver; [exact Ha|reflexivity|right; exact Hp]. }
  assert (KB : keeps (stepA R x s) (stepB R x (stepA R x s))).
  { unfold stepB. destruct (is_tomb (rval x)) eqn:Et; [|apply keeps_refl; apply KA].
    destruct x as [k0 r0 d0|k0 r0 v0]; [rewrite is_tomb_idx in Et; discriminate|].
    apply keeps_ver; [apply KA|reflexivity|right; exact HR]. }
  pose proof (keeps_trans _ _ _ KA KB) as KAB.
  assert (KC : keeps (stepB R x (stepA R x s)) (stepC R x (stepB R x (stepA R x s)))).
  { unfold stepC. destruct x as [k0 orev [|]|k0 r0 v0]; try (apply keeps_refl; apply KAB).
    destruct (R <? orev) eqn:Eo; [apply keeps_refl; apply KAB|]. apply N.ltb_ge in Eo.
    apply keeps_idx; [apply KAB| |right; split; [reflexivity|exact Eo]].
    intros y Hy. apply Hsub. apply KAB. exact Hy. }
  split; [exact (keeps_trans _ _ _ KAB KC)|].
  destruct (advances R x) eqn:Eadv; destruct Eprev as (_ & E2 & _); rewrite E2; [exact HR|exact Hp].
Qed.

Lemma wbody_keeps x s :
  adds_of (w_d s) = [] -> (forall y, In y (d_store (w_d s)) -> In y V0) -> w_pr s <= R ->
  keeps (w_d s) (w_d (wbody (ccfg R tr) x s)) /\ w_pr (wbody (ccfg R tr) x s) <= R.
Proof.
  intros Ha Hsub Hp. rewrite wbody_split.
  destruct (expire_kind tr x) as [kind|] eqn:Ee; [|apply proper_keeps; assumption].
  apply expire_kind_target in Ee as (Ht & Hv1 & Hv2). cbn [w_d w_pr]. split; [|exact Hp].
  destruct kind.
  - apply keeps_ver; [exact Ha|apply Hv1; reflexivity|left; exact Ht].
  - destruct x as [k r dd|]; [|specialize (Hv2 eq_refl); discriminate].
    apply keeps_idx; [exact Ha|exact Hsub|left; exact Ht].
Qed.

Lemma wloop_keeps : forall snap s,
  adds_of (w_d s) = [] -> (forall y, In y (d_store (w_d s)) -> In y V0) -> w_pr s <= R ->
  keeps (w_d s) (w_d (wloop (ccfg R tr) snap s)).
Proof.
  induction snap as [|x t IH]; intros s Ha Hsub Hp; cbn [wloop]; [apply keeps_refl; exact Ha|].
  destruct (negb (need_more (ccfg R tr) (w_out s))); [apply keeps_refl; exact Ha|].
  destruct (d_dead (w_d s)); [apply keeps_refl; exact Ha|].
  destruct (wbody_keeps x s Ha Hsub Hp) as (K1 & Hp1).
  eapply keeps_trans; [exact K1|]. apply IH; [apply K1| |exact Hp1].
  intros y Hy. apply Hsub. apply K1. exact Hy.
Qed.

End SeqKeep.

(* ---------- a fault-free pass removes every expired record it meets ---------- *)

Definition ff (d : dst) : Prop := d_lf d = [] /\ d_dead d = false /\ d_oc d = [].

Lemma same_slot_refl x : same_slot x x = true.
Proof. unfold same_slot. rewrite beqb_refl, N.eqb_refl, Bool.eqb_reflx. reflexivity. Qed.

Lemma ed_ff R kind x d :
  ff d -> ff (engine_delete R kind x d) /\
          (forall y, In y (d_store (engine_delete R kind x d)) -> In y (d_store d)) /\
          ~ In x (d_store (engine_delete R kind x d)).
Proof.
  intros (H1 & H2 & H3). unfold engine_delete. rewrite H1, H2, H3. cbn [skipped is_nil negb andb apply_env].
  destruct kind.
  - cbn [d_lf d_dead d_oc d_store]. split; [repeat split|split].
    + intros y Hy. apply in_del_slot in Hy as [Hy _]. exact Hy.
    + intros Hx. apply in_del_slot in Hx as [_ Hx]. rewrite same_slot_refl in Hx. discriminate.
  - destruct (memb x (d_store d)) eqn:Em; cbn [d_lf d_dead d_oc d_store]; (split; [repeat split|split]); auto.
    + intros y Hy. apply in_del_slot in Hy as [Hy _]. exact Hy.
    + intros Hx. apply in_del_slot in Hx as [_ Hx]. rewrite same_slot_refl in Hx. discriminate.
    + intros Hx. apply memb_spec in Hx. congruence.
Qed.

Definition ffsub (d d' : dst) : Prop := ff d' /\ forall y, In y (d_store d') -> In y (d_store d).

Lemma ffsub_refl d : ff d -> ffsub d d.
Proof. intros H. split; auto. Qed.
Lemma ffsub_trans a b c : ffsub a b -> ffsub b c -> ffsub a c.
Proof. intros [A1 A2] [B1 B2]. split; auto. Qed.
Lemma ffsub_ed R kind x d : ff d -> ffsub d (engine_delete R kind x d).
Proof. intros H. destruct (ed_ff R kind x d H) as (A & B & _). split; assumption. Qed.

Lemma proper_ff R x s : ff (w_d s) -> ffsub (w_d s) (w_d (wbody (cfg R) x s)).
Proof.
  intros Hf.
  destruct (R <? rrev x) eqn:HR; [rewrite wbody_skip by exact HR; apply ffsub_refl; exact Hf|].
  destruct (wbody_compact R x s HR) as (Ed & _). rewrite Ed.
  assert (KA : ffsub (w_d s) (stepA R x s)).
  { unfold stepA. destruct (beqb (rkey x) (w_pk s) && (0 <? w_pr s)); [apply ffsub_ed|apply ffsub_refl]; exact Hf. }
  assert (KB : ffsub (stepA R x s) (stepB R x (stepA R x s))).
  { unfold stepB. destruct (is_tomb (rval x)); [apply ffsub_ed|apply ffsub_refl]; apply KA. }
  pose proof (ffsub_trans _ _ _ KA KB) as KAB.
  eapply ffsub_trans; [exact KAB|].
  unfold stepC. destruct x as [k0 orev [|]|k0 r0 v0]; try (apply ffsub_refl; apply KAB).
  destruct (R <? orev); [apply ffsub_refl|apply ffsub_ed]; apply KAB.
Qed.

Lemma wloop_ff_gone R tr : forall snap s, ff (w_d s) ->
  ffsub (w_d s) (w_d (wloop (ccfg R tr) snap s)) /\
  forall x, In x snap -> expire_kind tr x <> None -> ~ In x (d_store (w_d (wloop (ccfg R tr) snap s))).
Proof.
  induction snap as [|x t IH]; intros s Hf; cbn [wloop]; [split; [apply ffsub_refl; exact Hf|intros ? []]|].
  change (need_more (ccfg R tr) (w_out s)) with true. cbn [negb].
  destruct Hf as (F1 & F2 & F3). rewrite F2.
  assert (Hf : ff (w_d s)) by (repeat split; assumption).
  assert (Hx : ffsub (w_d s) (w_d (wbody (ccfg R tr) x s)) /\
               (expire_kind tr x <> None -> ~ In x (d_store (w_d (wbody (ccfg R tr) x s))))).
  { rewrite wbody_split. destruct (expire_kind tr x) as [kind|] eqn:Ee.
    - cbn [w_d]. destruct (ed_ff R kind x (w_d s) Hf) as (A & B & C). split; [split; assumption|intros _; exact C].
    - split; [apply proper_ff; exact Hf|congruence]. }
  destruct Hx as (K1 & Hgone). destruct (IH (wbody (ccfg R tr) x s)) as (K2 & Hrest); [apply K1|].
  split; [eapply ffsub_trans; eauto|].
  intros y [->|Hy] He; [|apply Hrest; assumption].
  intros Hin. apply (Hgone He). apply K2. exact Hin.
Qed.

Lemma latest_le_none V k R :
  (forall r v, ~ In (RVer k r v) V) -> latest_le V k R None = None.
Proof.
  intros H. induction V as [|x V IH]; [reflexivity|]. cbn [latest_le].
  destruct x as [|k' r' v']; [apply IH; intros r0 v0 Hin; apply (H r0 v0); right; exact Hin|].
  destruct (beqb k k') eqn:Ek.
  - apply beqb_eq in Ek. subst k'. exfalso. apply (H r' v'). left; reflexivity.
  - cbn [andb]. apply IH. intros r0 v0 Hin. apply (H r0 v0). right; exact Hin.
Qed.

Lemma idx_of_none V k : (forall r d, ~ In (RIdx k r d) V) -> idx_of V k = None.
Proof.
  intros H. unfold idx_of.
  destruct (find _ V) as [y|] eqn:E; [|reflexivity].
  apply find_some in E as [Hin Hy]. destruct y as [k' r' d'|]; [|discriminate].
  apply beqb_eq in Hy. subst k'. exfalso. eapply H; eauto.
Qed.

(* C17_whole: when every record of an /events/ key in the scanned range carries a revision <= the timeout
   revision, one fault-free pass removes them all; the key then reads absent at the latest revision and
   can be created again *)
Theorem expiry_whole R tr lo hi V k :
  tr <> 0 -> is_expirable evp k = true -> bleb lo k && bltb k hi = true ->
  (forall x, In x V -> rkey x = k -> rec_rev x <= tr) ->
  let d := compact_range_e evp R tr lo hi (init_d V []) in
  (forall x, In x (d_store d) -> rkey x <> k) /\
  (forall x, In x (d_store d) -> In x V) /\
  get_at (d_store d) max_rev k = None /\
  forall v n, do_create (d_store d) k v n = (d_store d ++ [RIdx k n false; RVer k n v], WOk).
Proof.
  intros Htr Hc Hr Hall. cbv zeta. unfold compact_range_e. cbn [d_store d_ghost d_oc d_dead d_trace init_d].
  set (snap := sort_by rec_ltb (filter (in_range lo hi) V)).
  set (s0 := init_w (mkD V V [] [] false [])).
  assert (Hf0 : ff (w_d s0)) by (repeat split).
  change (mkCfg R true tr 0 evp) with (ccfg R tr).
  destruct (wloop_ff_gone R tr snap s0 Hf0) as ((_ & Hsub) & Hgone).
  assert (Hnone : forall x, In x (d_store (w_d (wloop (ccfg R tr) snap s0))) -> rkey x <> k).
  { intros x Hx Hk. pose proof (Hsub _ Hx) as HxV. cbn [s0 init_w w_d d_store] in HxV.
    apply (Hgone x); [| |exact Hx].
    - apply in_sort_by. apply filter_In. split; [exact HxV|]. unfold in_range. rewrite Hk. exact Hr.
    - specialize (Hall x HxV Hk). unfold expire_kind. apply N.eqb_neq in Htr. rewrite Htr, Hk, Hc.
      destruct x as [k0 orev d0|k0 r0 v0]; cbn [rec_rev] in Hall; apply N.leb_le in Hall; rewrite Hall; discriminate. }
  split; [exact Hnone|]. split; [exact Hsub|]. split.
  - unfold get_at. rewrite latest_le_none; [reflexivity|]. intros r v Hin. apply (Hnone _ Hin). reflexivity.
  - intros v n. unfold do_create. rewrite idx_of_none; [reflexivity|]. intros r d Hin. apply (Hnone _ Hin). reflexivity.
Qed.

(* ---------- scanner.Compact: only /events/ keys, only old records, nothing else ---------- *)

Lemma compact_range_steps R tr lo hi d (P : rec -> Prop) :
  (forall x, In x (d_store d) -> P x) ->
  Forall (step_ok R tr P) (d_trace d) ->
  Forall (step_ok R tr P) (d_trace (compact_range_e evp R tr lo hi d)).
Proof.
  intros HP Hf. unfold compact_range_e. change (mkCfg R true tr 0 evp) with (ccfg R tr).
  apply wloop_steps_ok; cbn [init_w w_d w_pr d_trace]; [|exact Hf|lia].
  intros x Hx. apply in_sort_by in Hx. apply filter_In in Hx as [Hx _]. apply HP. exact Hx.
Qed.

(* C17_not_young + what the code's substring test guarantees: every engine delete of scanner.Compact
   targets a compaction target (C07) or a record of a key containing "/events/" whose revision is at most
   the revision of a mark that is at least ttl old *)
Theorem scanner_compact_steps sup ttl now R lo hi q V oc :
  let '(q', tr, d) := scanner_compact evp sup ttl now R lo hi q (init_d V oc) in
  (tr = 0 \/ (sup = false /\ exists t, In (tr, t) (q ++ [(R, now)]) /\ ttl <= now - t)) /\
  Forall (fun s => (is_expirable evp (rkey (ds_target s)) = true /\ rec_rev (ds_target s) <= tr /\ tr <> 0 /\
                    In (ds_target s) V)
                   \/ compaction_target R (ds_target s)) (d_trace d).
Proof.
  unfold scanner_compact.
  pose proof (timeout_revision_spec sup ttl now (q ++ [(R, now)])) as Ht.
  destruct (timeout_revision sup ttl now (q ++ [(R, now)])) as [tr q2].
  split; [exact Ht|].
  pose proof (compact_range_steps R tr lo hi (init_d V oc) (fun x => In x V)) as H.
  cbn [init_d d_store d_trace] in H. specialize (H (fun x Hx => Hx) (Forall_nil _)).
  eapply Forall_impl; [|exact H]. intros s [[(E1 & E2 & E3) HP]|Hc]; [left|right; exact Hc]. auto.
Qed.

(* C17_others_untouched (no concurrent writers, any fault placement): a stored record that is neither an
   expiry target nor a compaction target is still stored after the pass *)
Theorem scanner_others_untouched sup ttl now R lo hi q V os :
  idx_unique V ->
  let '(q', tr, d) := scanner_compact evp sup ttl now R lo hi q (init_d V (map (fun o => ([], o)) os)) in
  forall y, In y V -> ~ expiry_target tr y -> ~ compaction_target R y -> In y (d_store d).
Proof.
  intros Hu. unfold scanner_compact.
  destruct (timeout_revision sup ttl now (q ++ [(R, now)])) as [tr q2].
  intros y Hy H1 H2. unfold compact_range_e. change (mkCfg R true tr 0 evp) with (ccfg R tr).
  cbn [init_d d_store d_ghost d_oc d_dead d_trace].
  set (d0 := mkD V V [] (map (fun o : outcome => ([] : list rec, o)) os) false []).
  assert (Ha : adds_of (w_d (init_w d0)) = []).
  { unfold adds_of. cbn [init_w w_d d0 d_oc]. clear. induction os as [|o os IH]; [reflexivity|exact IH]. }
  destruct (wloop_keeps R tr V Hu (sort_by rec_ltb (filter (in_range lo hi) V)) (init_w d0) Ha) as (_ & _ & K).
  - intros z Hz. exact Hz.
  - cbn [init_w w_pr]. lia.
  - destruct (K y Hy) as [H|[H|H]]; [exact H|contradiction|contradiction].
Qed.

(* Badger's entry TTL (as modelled: an overwrite replaces the expiry): what disappears is old *)
Lemma badger_put_exp t ttl x s :
  exists others, ts_store (put_ent EBadger t ttl x s) = others ++ [mkT x t (if ttl =? 0 then 0 else t + ttl)] /\
                 (forall y, In y others -> In y (ts_store s)).
Proof.
  unfold put_ent. eexists. split; [reflexivity|]. intros y Hy. apply filter_In in Hy as [Hy _]. exact Hy.
Qed.

Lemma badger_advance_old now s y :
  In y (ts_store s) -> ~ In y (ts_store (advance EBadger now s)) -> t_exp y <> 0 /\ t_exp y <= now.
Proof.
  intros Hin Hout. cbn [advance ts_store] in Hout.
  destruct ((t_exp y =? 0) || (now <? t_exp y)) eqn:E.
  - exfalso. apply Hout. apply filter_In. split; assumption.
  - apply orb_false_iff in E as [E1 E2]. apply N.eqb_neq in E1. apply N.ltb_ge in E2. split; assumption.
Qed.

(* ---------- the index is removed by compare-and-delete: an Update landing between the scan's snapshot and
   the removal of the index survives ---------- *)

(* whatever the writers committed just before the call: a record that the call takes away shares the target's
   slot, and the target itself - the value the scan saw - was what the engine held *)
Lemma delcur_only_seen R x d adds o rest y :
  d_oc d = (adds, o) :: rest -> d_dead d = false -> skipped (d_lf d) (rkey x) = false ->
  In y (apply_env adds (d_store d)) -> ~ In y (d_store (engine_delete R KDelCur x d)) ->
  same_slot x y = true /\ In x (apply_env adds (d_store d)).
Proof.
  intros Eo Ed Es Hy Hn. unfold engine_delete in Hn. rewrite Ed, Es, Eo in Hn.
  destruct o; cbn [d_store] in Hn; try contradiction.
  destruct (memb x (apply_env adds (d_store d))) eqn:Em; cbn [d_store] in Hn; [|contradiction].
  split; [|apply memb_spec; exact Em].
  destruct (same_slot x y) eqn:E; [reflexivity|]. exfalso. apply Hn. apply in_del_slot. split; assumption.
Qed.

(* the concrete window: the writer's commit (new index + new version at a fresh revision n) lands just before
   the compare-and-delete of the index the scan saw: the compare fails, index and version of the Update stay *)
Theorem expiry_respects_update R k r d n v d0 rest :
  n <> r -> d_oc d0 = ([RIdx k n false; RVer k n v], OOk) :: rest ->
  d_dead d0 = false -> skipped (d_lf d0) k = false ->
  let d' := engine_delete R KDelCur (RIdx k r d) d0 in
  In (RIdx k n false) (d_store d') /\ In (RVer k n v) (d_store d') /\
  (exists sf, d_trace d' = mkStep KDelCur (RIdx k r d) OFailCond sf :: d_trace d0).
Proof.
  intros Hn Eo Ed Es. cbv zeta. unfold engine_delete. cbn [rkey]. rewrite Ed, Es, Eo. cbn [apply_env].
  set (V1 := (del_slot (RIdx k n false) (d_store d0) ++ [RIdx k n false]) ++ [RVer k n v]).
  assert (Hm : memb (RIdx k r d) V1 = false).
  { destruct (memb (RIdx k r d) V1) eqn:Em; [|reflexivity]. exfalso. apply memb_spec in Em.
    unfold V1 in Em. apply in_app_iff in Em as [Em|[Em|[]]]; [|discriminate].
    apply in_app_iff in Em as [Em|[Em|[]]].
    - apply in_del_slot in Em as [_ Em].
      assert (same_slot (RIdx k n false) (RIdx k r d) = true) by (apply same_slot_idx; eauto). congruence.
    - injection Em as E _. congruence. }
  rewrite Hm. cbn [d_store d_trace]. split; [|split; [|eauto]].
  - unfold V1. apply in_app_iff. left. apply in_app_iff. right. left. reflexivity.
  - unfold V1. apply in_app_iff. right. left. reflexivity.
Qed.

End Evp.

(* ---------- C17_only_events at full strength: the scanner is configured with <prefix>/events/ ---------- *)

Lemma events_prefix_not_nil prefix : is_nil (events_prefix prefix) = false.
Proof. unfold events_prefix. destruct prefix; reflexivity. Qed.

Lemma is_expirable_event prefix k : is_expirable (events_prefix prefix) k = is_event_key prefix k.
Proof. unfold is_expirable, is_event_key. rewrite events_prefix_not_nil. reflexivity. Qed.

(* every engine delete of scanner.Compact is a compaction target (C07) or targets a stored record of an
   Event key (a key under <prefix>/events/) whose revision is at most the timeout revision *)
Theorem scanner_only_events prefix sup ttl now R lo hi q V oc :
  let '(q', tr, d) := scanner_compact (events_prefix prefix) sup ttl now R lo hi q (init_d V oc) in
  Forall (fun s => (is_event_key prefix (rkey (ds_target s)) = true /\ rec_rev (ds_target s) <= tr /\ tr <> 0 /\
                    In (ds_target s) V)
                   \/ compaction_target R (ds_target s)) (d_trace d).
Proof.
  pose proof (scanner_compact_steps (events_prefix prefix) sup ttl now R lo hi q V oc) as H.
  destruct (scanner_compact (events_prefix prefix) sup ttl now R lo hi q (init_d V oc)) as [[q' tr] d]. destruct H as (_ & H).
  eapply Forall_impl; [|exact H]. intros s [(E1 & E2)|Hc]; [left|right; exact Hc].
  rewrite is_expirable_event in E1. split; assumption.
Qed.

(* the TTL Backend.create hands to the engine *)
Lemma create_ttl_event ettl prefix k : create_ttl ettl prefix k <> 0 -> is_event_key prefix k = true.
Proof. unfold create_ttl, is_event_key, events_prefix. destruct (has_prefix (prefix ++ events_sub) k); [reflexivity|congruence]. Qed.

(* the oracle accepts what the model produces for the TTL-choice cases *)
Lemma c17_oracle_sound_ttl_choice prefix ettl k ttls :
  c17_check (KTtlChoice prefix ettl k ttls) = true -> c17_oracle (KTtlChoice prefix ettl k ttls) = None.
Proof.
  cbn [c17_check c17_oracle]. intros H. apply andb_true_iff in H as [H _].
  assert (Hall : forallb (fun t => (t =? 0) || (is_event_key prefix k && (ettl <=? t))) ttls = true); [|rewrite Hall; reflexivity].
  apply forallb_forall. intros t Ht. rewrite forallb_forall in H. specialize (H t Ht). apply N.eqb_eq in H. subst t.
  unfold create_ttl, is_event_key, events_prefix. destruct (has_prefix (prefix ++ events_sub) k); [|reflexivity].
  cbn [andb]. rewrite N.leb_refl. apply orb_true_r.
Qed.

Lemma c17_oracle_sound_ttl_write prefix ettl op lease k ttls :
  c17_check (KTtlWrite prefix ettl op lease k ttls) = true -> c17_oracle (KTtlWrite prefix ettl op lease k ttls) = None.
Proof.
  cbn [c17_check c17_oracle]. intros H. apply andb_true_iff in H as [H _].
  assert (Hall : forallb (fun t => (t =? 0) || ((op =? 0) && is_event_key prefix k && (ettl <=? t))) ttls = true); [|rewrite Hall; reflexivity].
  apply forallb_forall. intros t Ht. rewrite forallb_forall in H. specialize (H t Ht). apply N.eqb_eq in H. subst t.
  destruct (op =? 0); [|reflexivity]. cbn [andb].
  unfold create_ttl, is_event_key, events_prefix. destruct (has_prefix (prefix ++ events_sub) k); [|reflexivity].
  cbn [andb]. rewrite N.leb_refl. apply orb_true_r.
Qed.

Lemma badger_put_gone t ttl x s now :
  ttl <> 0 -> t + ttl <= now ->
  ~ In x (map t_rec (ts_store (advance EBadger now (put_ent EBadger t ttl x s)))).
Proof.
  intros Hz Hle Hin. apply in_map_iff in Hin as (y & Hy & Hin).
  cbn [advance put_ent ts_store] in Hin. apply filter_In in Hin as [Hin Hf].
  apply in_app_iff in Hin as [Hin|[<-|[]]].
  - apply filter_In in Hin as [_ Hs]. rewrite Hy, same_slot_refl in Hs. discriminate.
  - cbn [t_exp] in Hf. apply N.eqb_neq in Hz. rewrite Hz in Hf.
    apply orb_true_iff in Hf as [Hf|Hf]; [apply N.eqb_eq in Hf; lia|apply N.ltb_lt in Hf; lia].
Qed.

Theorem badger_create_whole t ttl k rev v s now :
  ttl <> 0 -> t + ttl <= now ->
  let s' := put_ent EBadger t ttl (RVer k rev v) (put_ent EBadger t ttl (RIdx k rev false) s) in
  ~ In (RIdx k rev false) (map t_rec (ts_store (advance EBadger now s'))) /\
  ~ In (RVer k rev v) (map t_rec (ts_store (advance EBadger now s'))).
Proof.
  intros Hz Hle. cbv zeta. split; [|apply badger_put_gone; assumption].
  intros Hin. apply in_map_iff in Hin as (y & Hy & Hin).
  cbn [advance put_ent ts_store] in Hin. apply filter_In in Hin as [Hin Hf].
  apply in_app_iff in Hin as [Hin|[<-|[]]]; [|discriminate].
  apply filter_In in Hin as [Hin _]. apply in_app_iff in Hin as [Hin|[<-|[]]].
  - apply filter_In in Hin as [_ Hs]. rewrite Hy, same_slot_refl in Hs. discriminate.
  - cbn [t_exp] in Hf. apply N.eqb_neq in Hz. rewrite Hz in Hf.
    apply orb_true_iff in Hf as [Hf|Hf]; [apply N.eqb_eq in Hf; lia|apply N.ltb_lt in Hf; lia].
Qed.
