(* Soundness of the schedule-case oracles, clause by clause: what `sched_check c = true` (the model
   reproduces the observation step by step) implies for the clauses of rev_ok / progress_ok. *)
From KB Require Import Model.KeySys Model.C01Cases Model.C02Cases Model.C04Cases.
From KB Require Import Proofs.RevSys Proofs.KeySys Proofs.KeySysLog Proofs.KeySysChain Proofs.KeySysJust.
From Coq Require Import ZifyN ZifyNat ZifyBool Lia.
Local Open Scope N_scope.

Section Sched.
Variable cidx0 : bool.

(* ---------- the states the check walks through are reachable states ---------- *)

Lemma dealt_mono_step s l : kinv s -> dealt (rs s) <= dealt (rs (kstep cidx0 s l)).
Proof.
  intros I. pose proof (rl_inv _ (ki_rs s I)) as RI.
  unfold kstep. destruct (rpanic (rs s)) eqn:Hp; [lia|]. rewrite rs_observe.
  destruct l as [t q|t|t e|t|t|].
  - unfold step_invoke. destruct (thr s t); simpl; lia.
  - unfold step_deal. destruct (thr s t); try lia; unfold do_deal;
      repeat match goal with |- context [if ?x then _ else _] => destruct x end; simpl;
      rewrite (dealt_step _ _ RI); rewrite Hp; lia.
  - assert (H : rs (step_engine cidx0 s t e) = rs s).
    { unfold step_engine. destruct (thr s t); try reflexivity;
        repeat match goal with |- context [match ?x with _ => _ end] => destruct x end; reflexivity. }
    rewrite H. lia.
  - unfold step_notify. destruct (thr s t); try lia.
    match goal with |- context [if rpanic ?x then _ else _] => destruct (rpanic x) end; simpl;
      rewrite (dealt_step _ _ RI); lia.
  - unfold step_return. destruct (thr s t); simpl; lia.
  - unfold step_seq. destruct (seq_ready (rs s)) eqn:Hr; [|lia]. cbn [rs set_rs].
    unfold seq_ready in Hr. rewrite Hp, (ki_idle s I) in Hr. simpl in Hr.
    destruct (slots (rs s) ((committed (rs s) + 1) mod cap)) as [v|] eqn:Es; [|discriminate].
    destruct (seq_take_effect (rs s) v RI Hp (ki_idle s I) Es) as (Ed & _). rewrite Ed. lia.
Qed.

Lemma committed_le_dealt s : kinv s -> committed (rs s) <= dealt (rs s).
Proof.
  intros I. pose proof (rl_inv _ (ki_rs s I)) as RI. pose proof (ri_cf _ RI). pose proof (ri_fd _ RI). lia.
Qed.

(* what we carry along a run: reachable-state invariant, growth of the allocation counter, and the
   header bound of every response handed out *)
Definition resp_ok (r : resp) : Prop := header_ok r = true.

Lemma resp_bound_ok r : resp_bound r -> resp_ok r.
Proof.
  unfold resp_ok, header_ok. destruct r as [h su|h su [[v m]|]|h su [[v m]|]|rv|]; simpl; auto;
    try (intros H; apply N.leb_le; exact H); destruct (rv =? 0); reflexivity.
Qed.

Lemma run_local_ok fuel : forall s t queue acc s' qu ac ls,
  run_local cidx0 fuel s t queue acc = (s', qu, ac, ls) ->
  kinv s -> Forall resp_ok acc ->
  kinv s' /\ dealt (rs s) <= dealt (rs s') /\ Forall resp_ok ac.
Proof.
  induction fuel as [|fuel IH]; intros s t queue acc s' qu ac ls H I Hacc; simpl in H.
  - injection H as <- <- <- <-. (split; [assumption|split; [lia|assumption]]).
  - destruct (rpanic (rs s)); [injection H as <- <- <- <-; (split; [assumption|split; [lia|assumption]])|].
    destruct (is_engine_pc (thr s t)); [injection H as <- <- <- <-; (split; [assumption|split; [lia|assumption]])|].
    assert (Hstep : forall l queue0 acc0,
               (let '(s1, qu1, ac1, ls1) := run_local cidx0 fuel (kstep cidx0 s l) t queue0 acc0 in (s1, qu1, ac1, l :: ls1))
               = (s', qu, ac, ls) -> Forall resp_ok acc0 ->
               kinv s' /\ dealt (rs s) <= dealt (rs s') /\ Forall resp_ok ac).
    { intros l queue0 acc0 E Hacc0.
      destruct (run_local cidx0 fuel (kstep cidx0 s l) t queue0 acc0) as [[[s1 qu1] ac1] ls1] eqn:Er.
      injection E as <- <- <- <-.
      destruct (IH _ _ _ _ _ _ _ _ Er (kinv_step cidx0 s l I) Hacc0) as (A & B & C).
      pose proof (dealt_mono_step s l I). (split; [assumption|split; [lia|assumption]]). }
    destruct (thr s t) eqn:Ht;
      try (eapply Hstep; [exact H|exact Hacc]).
    + destruct queue as [|q0 queue']; [injection H as <- <- <- <-; (split; [assumption|split; [lia|assumption]])|].
      eapply Hstep; [exact H|exact Hacc].
    + eapply Hstep; [exact H|]. apply Forall_app. split; [exact Hacc|]. constructor; [|constructor].
      apply resp_bound_ok. pose proof (ki_local s I t) as L. rewrite Ht in L. exact L.
Qed.

Lemma resume_ok s t e queue s' qu ac ls :
  resume cidx0 s t e queue = (s', qu, ac, ls) -> kinv s ->
  kinv s' /\ dealt (rs s) <= dealt (rs s') /\ Forall resp_ok ac.
Proof.
  unfold resume. intros H I. destruct (is_engine_pc (thr s t)).
  - destruct (run_local cidx0 resume_fuel (kstep cidx0 s (LEngine t e)) t queue []) as [[[s1 qu1] ac1] ls1] eqn:Er.
    injection H as <- <- <- <-.
    destruct (run_local_ok _ _ _ _ _ _ _ _ _ Er (kinv_step cidx0 s _ I) (Forall_nil _)) as (A & B & C).
    pose proof (dealt_mono_step s (LEngine t e) I). (split; [assumption|split; [lia|assumption]]).
  - eapply run_local_ok; eauto.
Qed.

Lemma seq_all_ok fuel : forall s, kinv s ->
  kinv (seq_all cidx0 fuel s) /\ dealt (rs s) <= dealt (rs (seq_all cidx0 fuel s)).
Proof.
  induction fuel as [|fuel IH]; intros s I; simpl; [split; [exact I|lia]|].
  destruct (enabled s LSeqTake); [|split; [exact I|lia]].
  destruct (IH _ (kinv_step cidx0 s LSeqTake I)) as [A B]. pose proof (dealt_mono_step s LSeqTake I).
  split; [exact A|lia].
Qed.

Lemma list_eqb_resp_ok l l' : list_eqb resp_eqb l l' = true -> Forall resp_ok l -> Forall resp_ok l'.
Proof.
  revert l'. induction l as [|a l IH]; intros [|b l']; simpl; try discriminate; auto.
  intros E F. apply andb_true_iff in E. destruct E as [E1 E2]. inversion F; subst.
  constructor; [|apply IH; assumption].
  unfold resp_ok, header_ok in *.
  destruct a as [h su|h su kv|h su kv|rv|], b as [h' su'|h' su' kv'|h' su' kv'|rv'|]; simpl in *; try discriminate; auto.
  - apply andb_true_iff in E1. destruct E1 as [E1 E3]. apply andb_true_iff in E1. destruct E1 as [E1 _].
    apply N.eqb_eq in E1. subst h'.
    destruct kv as [[v m]|], kv' as [[v' m']|]; simpl in *; try discriminate; auto.
    unfold kvr_eqb in E3. simpl in E3. apply andb_true_iff in E3. destruct E3 as [_ E3]. apply N.eqb_eq in E3. subst m'. assumption.
  - apply andb_true_iff in E1. destruct E1 as [E1 E3]. apply andb_true_iff in E1. destruct E1 as [E1 _].
    apply N.eqb_eq in E1. subst h'.
    destruct kv as [[v m]|], kv' as [[v' m']|]; simpl in *; try discriminate; auto.
    unfold kvr_eqb in E3. simpl in E3. apply andb_true_iff in E3. destruct E3 as [_ E3]. apply N.eqb_eq in E3. subst m'. assumption.
  - destruct (rv' =? 0); reflexivity.
Qed.

(* one pass over the observed steps *)
Lemma run_steps_ok steps : forall s queues prev sf qf,
  run_steps cidx0 s queues prev steps = Some (sf, qf) -> kinv s -> prev <= dealt (rs s) ->
  kinv sf /\ dealt (rs s) <= dealt (rs sf)
  /\ monotone_from prev (map st_sample steps) = true
  /\ Forall (fun st => st_sample st <= dealt (rs sf)) steps
  /\ Forall (fun st => Forall resp_ok (st_resps st)) steps.
Proof.
  induction steps as [|st steps IH]; intros s queues prev sf qf H I Hprev; cbn [run_steps] in H.
  - injection H as <- <-. split; [assumption|]. split; [lia|]. split; [reflexivity|]. split; constructor.
  - destruct (ekind_eqb (st_kind st) KHold).
    { (* a step during which the commit is held inside the engine *)
      destruct (seq_all_ok seq_fuel s I) as (I2 & D2).
      match type of H with (if ?c then _ else _) = _ => destruct c eqn:Ec; [|discriminate] end.
      repeat (apply andb_true_iff in Ec; destruct Ec as [Ec ?]).
      apply N.leb_le in H0, H1.
      pose proof (committed_le_dealt _ I2) as Hcd.
      destruct (IH _ _ _ _ _ H I2 ltac:(lia)) as (If & Df & Mf & Sf & Rf).
      split; [assumption|]. split; [lia|]. split; [|split].
      - simpl. rewrite Mf. apply andb_true_iff. split; [apply N.leb_le; lia|reflexivity].
      - constructor; [lia|exact Sf].
      - constructor; [|exact Rf]. destruct (st_resps st); [constructor|discriminate]. }
    destruct (resume cidx0 s (st_t st) (st_env st) (lookup [] (st_t st) queues)) as [[[s1 qu] resps] ls] eqn:Er.
    destruct (resume_ok _ _ _ _ _ _ _ _ Er I) as (I1 & D1 & R1).
    destruct (seq_all_ok seq_fuel s1 I1) as (I2 & D2).
    match type of H with (if ?c then _ else _) = _ => destruct c eqn:Ec; [|discriminate] end.
    repeat (apply andb_true_iff in Ec; destruct Ec as [Ec ?]).
    apply N.leb_le in H0, H1.
    pose proof (committed_le_dealt _ I2) as Hcd.
    destruct (IH _ _ _ _ _ H I2 ltac:(lia)) as (If & Df & Mf & Sf & Rf).
    split; [assumption|]. split; [lia|]. split; [|split].
    + simpl. rewrite Mf. apply andb_true_iff. split; [apply N.leb_le; lia|reflexivity].
    + constructor; [lia|exact Sf].
    + constructor; [|exact Rf]. eapply list_eqb_resp_ok; eauto.
Qed.
End Sched.

(* ---------- from a valid case to a well-formed initial store ---------- *)

Lemma lookup_In {A} (d : A) k l x : lookup d k l = x -> x = d \/ In (k, x) l.
Proof.
  induction l as [|[k' y] l IH]; simpl; [auto|].
  destruct (N.eqb_spec k' k) as [->|_]; [intros ->; right; left; reflexivity|].
  intros H. destruct (IH H); auto.
Qed.

Lemma wf_kstateb_wf d0 ks : wf_kstateb d0 ks = true ->
  (forall r v, In (r, v) (k_vers ks) -> r <= d0) /\
  (forall r f, k_idx ks = Some (r, f) ->
     (exists v, In (r, v) (k_vers ks) /\ (f = true -> v = tombstone)) /\
     (forall r' v', In (r', v') (k_vers ks) -> r' <= r)).
Proof.
  unfold wf_kstateb. intros H. apply andb_true_iff in H. destruct H as [H1 H2]. split.
  - intros r v Hin. rewrite forallb_forall in H1. specialize (H1 _ Hin). simpl in H1.
    apply andb_true_iff in H1. destruct H1 as [_ H1]. apply N.leb_le in H1. exact H1.
  - intros r f Hi. rewrite Hi in H2. destruct (newest (k_vers ks)) as [[r' v]|] eqn:En; [|discriminate].
    apply andb_true_iff in H2. destruct H2 as [E1 E2]. apply N.eqb_eq in E1. subst r'. split.
    + exists v. split; [apply newest_In, En|]. intros ->. apply beqb_eq. exact E2.
    + intros r' v' Hin. eapply newest_max; eauto.
Qed.

Lemma sched_valid_wf c : sched_valid c -> wf_store (sc_d0 c) (store_of (sc_init c)).
Proof.
  intros (_ & _ & F) k. unfold store_of.
  destruct (lookup_In k_empty k (sc_init c) _ eq_refl) as [E|Hin].
  - rewrite E. simpl. split; [contradiction|discriminate].
  - rewrite Forall_forall in F. specialize (F _ Hin). simpl in F. apply wf_kstateb_wf, F.
Qed.

(* ---------- clauses of progress_ok ---------- *)

Theorem sched_samples_sound c : sched_valid c -> sched_check_core c = true ->
  monotone_from (sc_d0 c) (samples c) = true /\
  forallb (fun x => x <? sc_marker c) (samples c) = true /\
  sc_stalled c = false /\ (sc_final_committed c =? sc_marker c) = true.
Proof.
  intros V H. unfold sched_check_core in H.
  destruct (run_steps (sc_cidx0 c) _ _ _ _) as [[sf qf]|] eqn:Er; [|discriminate].
  pose proof (kinv_init _ _ (sched_valid_wf c V)) as I0.
  destruct (run_steps_ok _ _ _ _ _ _ _ Er I0 ltac:(simpl; lia)) as (If & Df & Mf & Sf & Rf).
  repeat (apply andb_true_iff in H; destruct H as [H ?]).
  apply N.eqb_eq in H2. repeat split.
  - exact Mf.
  - unfold samples. apply forallb_forall. intros x Hx. apply in_map_iff in Hx. destruct Hx as [st [<- Hst]].
    rewrite Forall_forall in Sf. specialize (Sf _ Hst). simpl in Sf. apply N.ltb_lt. lia.
  - apply negb_true_iff. assumption.
  - assumption.
Qed.

(* ---------- the header clause of rev_ok ---------- *)

Lemma emit_resps t i : forall resps ts ts' recs,
  emit t i ts resps = (ts', recs) -> forall x, In x recs -> In (rr_resp x) resps.
Proof.
  induction resps as [|r resps IH]; intros ts ts' recs H x Hx; simpl in H.
  - injection H as _ <-. contradiction.
  - destruct (ts_queue ts) as [|q0 queue']; [injection H as _ <-; contradiction|].
    destruct (emit t i _ resps) as [ts2 recs2] eqn:E. injection H as _ <-.
    destruct Hx as [<-|Hx]; [left; reflexivity|right; eapply IH; eauto].
Qed.

Lemma records_resps steps : forall i tss x,
  In x (records i tss steps) -> exists st, In st steps /\ In (rr_resp x) (st_resps st).
Proof.
  induction steps as [|st steps IH]; intros i tss x Hx; simpl in Hx; [contradiction|].
  match type of Hx with In _ (let '(_, _) := ?e in _) => destruct e as [ts2 recs] eqn:E end.
  apply in_app_or in Hx. destruct Hx as [Hx|Hx].
  - exists st. split; [left; reflexivity|]. eapply emit_resps; eauto.
  - destruct (IH _ _ _ Hx) as [st' [A B]]. exists st'. split; [right; exact A|exact B].
Qed.

Theorem sched_headers_sound c : sched_valid c -> sched_check_core c = true ->
  forallb (fun r => header_ok (rr_resp r)) (case_records c) = true.
Proof.
  intros V H. unfold sched_check_core in H.
  destruct (run_steps (sc_cidx0 c) _ _ _ _) as [[sf qf]|] eqn:Er; [|discriminate].
  pose proof (kinv_init _ _ (sched_valid_wf c V)) as I0.
  destruct (run_steps_ok _ _ _ _ _ _ _ Er I0 ltac:(simpl; lia)) as (_ & _ & _ & _ & Rf).
  apply forallb_forall. intros x Hx. unfold case_records in Hx.
  destruct (records_resps _ _ _ _ Hx) as [st [Hst Hin]].
  rewrite Forall_forall in Rf. specialize (Rf _ Hst). rewrite Forall_forall in Rf. apply (Rf _ Hin).
Qed.

(* ---------- any step-invariant holds in the state the check ends in ---------- *)

Section Carry.
Variable cidx0 : bool.
Variable P : state -> Prop.
Hypothesis Pstep : forall s l, P s -> P (kstep cidx0 s l).

Lemma run_local_P fuel : forall s t queue acc s' qu ac ls,
  run_local cidx0 fuel s t queue acc = (s', qu, ac, ls) -> P s -> P s'.
Proof.
  induction fuel as [|fuel IH]; intros s t queue acc s' qu ac ls H Ps; simpl in H.
  - injection H as <- _ _ _. exact Ps.
  - destruct (rpanic (rs s)); [injection H as <- _ _ _; exact Ps|].
    destruct (is_engine_pc (thr s t)); [injection H as <- _ _ _; exact Ps|].
    assert (Hstep : forall l queue0 acc0,
               (let '(s1, qu1, ac1, ls1) := run_local cidx0 fuel (kstep cidx0 s l) t queue0 acc0 in (s1, qu1, ac1, l :: ls1))
               = (s', qu, ac, ls) -> P s').
    { intros l queue0 acc0 E.
      destruct (run_local cidx0 fuel (kstep cidx0 s l) t queue0 acc0) as [[[s1 qu1] ac1] ls1] eqn:Er.
      injection E as <- _ _ _. eapply IH; [exact Er|apply Pstep, Ps]. }
    destruct (thr s t); try (eapply Hstep; exact H).
    destruct queue as [|q0 queue']; [injection H as <- _ _ _; exact Ps|]. eapply Hstep; exact H.
Qed.

Lemma run_steps_P steps : forall s queues prev sf qf,
  run_steps cidx0 s queues prev steps = Some (sf, qf) -> P s -> P sf.
Proof.
  induction steps as [|st steps IH]; intros s queues prev sf qf H Ps; cbn [run_steps] in H.
  - injection H as <- _. exact Ps.
  - assert (Hseq : forall n s1, P s1 -> P (seq_all cidx0 n s1)).
    { induction n as [|n IHn]; intros s1 P1; simpl; [exact P1|].
      destruct (enabled s1 LSeqTake); [apply IHn, Pstep, P1|exact P1]. }
    destruct (ekind_eqb (st_kind st) KHold).
    { match type of H with (if ?c then _ else _) = _ => destruct c; [|discriminate] end.
      eapply IH; [exact H|]. apply Hseq, Ps. }
    destruct (resume cidx0 s (st_t st) (st_env st) (lookup [] (st_t st) queues)) as [[[s1 qu] resps] ls] eqn:Er.
    match type of H with (if ?c then _ else _) = _ => destruct c; [|discriminate] end.
    eapply IH; [exact H|].
    assert (P1 : P s1).
    { unfold resume in Er. destruct (is_engine_pc (thr s (st_t st))).
      - destruct (run_local cidx0 resume_fuel _ _ _ _) as [[[s2 qu2] ac2] ls2] eqn:E2.
        injection Er as <- _ _ _. eapply run_local_P; [exact E2|apply Pstep, Ps].
      - eapply run_local_P; eauto. }
    apply Hseq, P1.
Qed.
End Carry.

(* ---------- C01: the observed final dump is the image of a chain of applied commits ---------- *)

Theorem sched_final_dump_chain c : sched_valid c -> sched_check_core c = true ->
  exists lg, chain (store_of (sc_init c)) lg /\
    forall k ks, In (k, ks) (sc_final c) -> kstate_eqb (replay (store_of (sc_init c)) lg k) ks = true.
Proof.
  intros V H. unfold sched_check_core in H.
  destruct (run_steps (sc_cidx0 c) _ _ _ _) as [[sf qf]|] eqn:Er; [|discriminate].
  pose proof (sched_valid_wf c V) as W.
  set (store0 := store_of (sc_init c)) in *.
  assert (Pf : kinv sf /\ reqinv sf /\ chaininv store0 sf).
  { refine (run_steps_P (sc_cidx0 c) (fun s => kinv s /\ reqinv s /\ chaininv store0 s) _ _ _ _ _ _ _ Er _).
    - intros s l (A & B & C). split; [apply kinv_step, A|split; [apply reqinv_step, B|apply chaininv_step; assumption]].
    - split; [apply kinv_init, W|split; [intros t; exact Logic.I|constructor; simpl; auto]]. }
  destruct Pf as (_ & _ & [Him Hch]).
  exists (log sf). split; [exact Hch|].
  intros k ks Hin. rewrite <- Him.
  repeat (apply andb_true_iff in H; destruct H as [H ?]).
  rewrite forallb_forall in H5. apply (H5 (k, ks) Hin).
Qed.

(* ---------- the proxy-case oracle accepts what the model produces ---------- *)

(* agreement with the model on an answer that is not "unknown": a failed condition comes from a model run in which
   the request applied nothing, and (C01_failure_justified on a one-request run) the key differed when it came in *)
Lemma proxy_oracle_error c : is_error (px_resp c) = true -> proxy_ok c = true.
Proof. unfold proxy_ok. destruct (px_resp c); simpl; try discriminate. reflexivity. Qed.

(* ---------- validity is decidable and checked ---------- *)

Lemma nodup_keys_NoDup l : nodup_keys l = true -> NoDup l.
Proof.
  induction l as [|x l IH]; simpl; [constructor|]. intros H. apply andb_true_iff in H. destruct H as [H1 H2].
  constructor; [|apply IH, H2]. intros Hin. apply mem_N_In in Hin. rewrite Hin in H1. discriminate.
Qed.

Lemma sched_validb_sound c : sched_validb c = true -> sched_valid c.
Proof.
  unfold sched_validb, sched_valid. intros H. repeat (apply andb_true_iff in H; destruct H as [H ?]).
  repeat split; try (apply nodup_keys_NoDup; assumption).
  apply Forall_forall. intros kk Hin. rewrite forallb_forall in H0. apply H0, Hin.
Qed.

Lemma sched_check_split c : sched_check c = true -> sched_valid c /\ sched_check_core c = true.
Proof. unfold sched_check. intros H. apply andb_true_iff in H. destruct H as [H1 H2]. split; [apply sched_validb_sound, H1|exact H2]. Qed.

(* ---------- the responses the check saw are the responses the model's log holds ---------- *)

From KB Require Import Proofs.KeySysUniq.

Definition rets (l : list entry) : list resp :=
  flat_map (fun e => match e with EReturn _ r => [r] | _ => [] end) l.

Lemma resp_eqb_eq a b : resp_eqb a b = true -> a = b.
Proof.
  assert (Hkv : forall x y : option (bytes * N), opt_eqb kvr_eqb x y = true -> x = y).
  { intros [[v m]|] [[v' m']|]; simpl; try discriminate; auto. unfold kvr_eqb. simpl. intros H.
    apply andb_true_iff in H. destruct H as [H1 H2]. apply beqb_eq in H1. apply N.eqb_eq in H2. subst. reflexivity. }
  destruct a, b; simpl; try discriminate; intros H; auto;
    repeat (apply andb_true_iff in H; destruct H as [H ?]);
    repeat match goal with
           | H : (_ =? _) = true |- _ => apply N.eqb_eq in H
           | H : Bool.eqb _ _ = true |- _ => apply Bool.eqb_prop in H
           | H : opt_eqb kvr_eqb _ _ = true |- _ => apply Hkv in H
           end; subst; reflexivity.
Qed.

Lemma list_eqb_resp_eq l l' : list_eqb resp_eqb l l' = true -> l = l'.
Proof.
  revert l'. induction l as [|a l IH]; intros [|b l']; simpl; try discriminate; auto.
  intros H. apply andb_true_iff in H. destruct H as [H1 H2]. rewrite (resp_eqb_eq _ _ H1), (IH _ H2). reflexivity.
Qed.

Section Rets.
Variable cidx0 : bool.

Lemma rets_kstep s l :
  rets (log (kstep cidx0 s l)) = rets (log s) \/
  (exists t r, l = LReturn t /\ thr s t = PReturn r /\ rpanic (rs s) = false /\ rets (log (kstep cidx0 s l)) = r :: rets (log s)).
Proof.
  unfold kstep. destruct (rpanic (rs s)) eqn:Hp; [left; reflexivity|].
  destruct l as [t q|t|t e|t|t|]; cbn [log observe].
  - left. unfold step_invoke. destruct (thr s t); reflexivity.
  - left. unfold step_deal. destruct (thr s t); try reflexivity; unfold do_deal;
      repeat match goal with |- context [if ?x then _ else _] => destruct x end; reflexivity.
  - left. unfold step_engine. destruct (thr s t); try reflexivity;
      repeat match goal with |- context [match ?x with _ => _ end] => destruct x end; reflexivity.
  - left. unfold step_notify. destruct (thr s t); try reflexivity.
    match goal with |- context [if rpanic ?x then _ else _] => destruct (rpanic x) end; reflexivity.
  - unfold step_return. destruct (thr s t) eqn:Ht; try (left; reflexivity).
    right. exists t, r. repeat split; auto.
  - left. unfold step_seq. destruct (seq_ready (rs s)); reflexivity.
Qed.

Lemma run_local_rets fuel : forall s t queue acc s' qu ac ls,
  run_local cidx0 fuel s t queue acc = (s', qu, ac, ls) ->
  exists new, ac = acc ++ new /\ rets (log s') = rev new ++ rets (log s).
Proof.
  induction fuel as [|fuel IH]; intros s t queue acc s' qu ac ls H; simpl in H.
  - injection H as <- <- <- <-. exists []. rewrite app_nil_r. auto.
  - destruct (rpanic (rs s)) eqn:Hp; [injection H as <- <- <- <-; exists []; rewrite app_nil_r; auto|].
    destruct (is_engine_pc (thr s t)); [injection H as <- <- <- <-; exists []; rewrite app_nil_r; auto|].
    assert (Hstep : forall l queue0, (forall t0, l <> LReturn t0) ->
               (let '(s1, qu1, ac1, ls1) := run_local cidx0 fuel (kstep cidx0 s l) t queue0 acc in (s1, qu1, ac1, l :: ls1))
               = (s', qu, ac, ls) -> exists new, ac = acc ++ new /\ rets (log s') = rev new ++ rets (log s)).
    { intros l queue0 Hl E.
      destruct (run_local cidx0 fuel (kstep cidx0 s l) t queue0 acc) as [[[s1 qu1] ac1] ls1] eqn:Er.
      injection E as <- <- <- <-. destruct (IH _ _ _ _ _ _ _ _ Er) as [new [E1 E2]].
      exists new. split; [exact E1|]. rewrite E2.
      destruct (rets_kstep s l) as [->|(t0 & r & -> & _)]; [reflexivity|]. exfalso. eapply Hl. reflexivity. }
    destruct (thr s t) eqn:Ht; try (eapply Hstep; [|exact H]; discriminate).
    + destruct queue as [|q0 queue']; [injection H as <- <- <- <-; exists []; rewrite app_nil_r; auto|].
      eapply Hstep; [|exact H]. discriminate.
    + destruct (run_local cidx0 fuel (kstep cidx0 s (LReturn t)) t queue (acc ++ [r])) as [[[s1 qu1] ac1] ls1] eqn:Er.
      injection H as <- <- <- <-. destruct (IH _ _ _ _ _ _ _ _ Er) as [new [E1 E2]].
      exists (r :: new). split; [rewrite E1, <- app_assoc; reflexivity|]. rewrite E2.
      destruct (rets_kstep s (LReturn t)) as [E|(t0 & r0 & [= <-] & Ht0 & _ & ->)].
      * exfalso. unfold kstep in E. rewrite Hp in E. cbn [log observe] in E. unfold step_return in E. rewrite Ht in E.
        simpl in E. apply (f_equal (@length _)) in E. simpl in E. lia.
      * rewrite Ht in Ht0. injection Ht0 as <-. simpl. rewrite <- app_assoc. reflexivity.
Qed.

Lemma seq_all_rets fuel : forall s, rets (log (seq_all cidx0 fuel s)) = rets (log s).
Proof.
  induction fuel as [|fuel IH]; intros s; simpl; [reflexivity|].
  destruct (enabled s LSeqTake); [|reflexivity]. rewrite IH.
  destruct (rets_kstep s LSeqTake) as [->|(t0 & r & E & _)]; [reflexivity|discriminate].
Qed.

Lemma run_steps_rets steps : forall s queues prev sf qf,
  run_steps cidx0 s queues prev steps = Some (sf, qf) ->
  rets (log sf) = rev (concat (map st_resps steps)) ++ rets (log s).
Proof.
  induction steps as [|st steps IH]; intros s queues prev sf qf H; cbn [run_steps] in H.
  - injection H as <- _. reflexivity.
  - destruct (ekind_eqb (st_kind st) KHold).
    { match type of H with (if ?c then _ else _) = _ => destruct c eqn:Ec; [|discriminate] end.
      repeat (apply andb_true_iff in Ec; destruct Ec as [Ec ?]).
      rewrite (IH _ _ _ _ _ H), seq_all_rets. simpl. destruct (st_resps st); [reflexivity|discriminate]. }
    destruct (resume cidx0 s (st_t st) (st_env st) (lookup [] (st_t st) queues)) as [[[s1 qu] resps] ls] eqn:Er.
    match type of H with (if ?c then _ else _) = _ => destruct c eqn:Ec; [|discriminate] end.
    repeat (apply andb_true_iff in Ec; destruct Ec as [Ec ?]).
    rewrite (IH _ _ _ _ _ H), seq_all_rets.
    assert (E1 : rets (log s1) = rev resps ++ rets (log s)).
    { unfold resume in Er. destruct (is_engine_pc (thr s (st_t st))).
      - destruct (run_local cidx0 resume_fuel _ _ _ _) as [[[s2 qu2] ac2] ls2] eqn:E2.
        injection Er as <- _ <- _. destruct (run_local_rets _ _ _ _ _ _ _ _ _ E2) as [new [-> ->]]. simpl.
        destruct (rets_kstep s (LEngine (st_t st) (st_env st))) as [->|(t0 & r & E & _)]; [reflexivity|discriminate].
      - destruct (run_local_rets _ _ _ _ _ _ _ _ _ Er) as [new [-> ->]]. reflexivity. }
    rewrite E1. match goal with Hl : list_eqb resp_eqb _ _ = true |- _ => apply list_eqb_resp_eq in Hl; subst resps end. simpl. rewrite rev_app_distr, <- app_assoc. reflexivity.
Qed.
End Rets.

(* ---------- subsequences ---------- *)

Inductive Subseq {A} : list A -> list A -> Prop :=
| SsNil : Subseq [] []
| SsSkip x l1 l2 : Subseq l1 l2 -> Subseq l1 (x :: l2)
| SsTake x l1 l2 : Subseq l1 l2 -> Subseq (x :: l1) (x :: l2).

Lemma subseq_nil {A} (l : list A) : Subseq [] l.
Proof. induction l; constructor; auto. Qed.

Lemma subseq_refl {A} (l : list A) : Subseq l l.
Proof. induction l; [constructor|apply SsTake; assumption]. Qed.

Lemma subseq_app {A} (a b c d : list A) : Subseq a b -> Subseq c d -> Subseq (a ++ c) (b ++ d).
Proof.
  induction 1; simpl; intros H'; [exact H'|apply SsSkip; auto|apply SsTake; auto].
Qed.

Lemma subseq_In {A} (a b : list A) x : Subseq a b -> In x a -> In x b.
Proof. induction 1; simpl; intros Hin; auto. destruct Hin; auto. Qed.

Lemma subseq_NoDup {A} (a b : list A) : Subseq a b -> NoDup b -> NoDup a.
Proof.
  induction 1; intros Hn; auto; inversion Hn; subst; auto.
  constructor; auto. intros Hin. apply H2. eapply subseq_In; eauto.
Qed.

Lemma subseq_flat_map {A B} (f : A -> list B) a b : Subseq a b -> Subseq (flat_map f a) (flat_map f b).
Proof.
  induction 1; simpl; [constructor| |].
  - change (flat_map f l1) with ([] ++ flat_map f l1). apply subseq_app; [apply subseq_nil|exact IHSubseq].
  - apply subseq_app; [apply subseq_refl|exact IHSubseq].
Qed.

Lemma emit_subseq t i : forall resps ts ts' recs,
  emit t i ts resps = (ts', recs) -> Subseq (map rr_resp recs) resps.
Proof.
  induction resps as [|r resps IH]; intros ts ts' recs H; simpl in H.
  - injection H as _ <-. constructor.
  - destruct (ts_queue ts) as [|q0 queue']; [injection H as _ <-; apply subseq_nil|].
    destruct (emit t i _ resps) as [ts2 recs2] eqn:E. injection H as _ <-. simpl. apply SsTake. eapply IH; eauto.
Qed.

Lemma records_subseq steps : forall i tss,
  Subseq (map rr_resp (records i tss steps)) (concat (map st_resps steps)).
Proof.
  induction steps as [|st steps IH]; intros i tss; simpl; [constructor|].
  match goal with |- context [let '(_, _) := ?e in _] => destruct e as [ts2 recs] eqn:E end.
  rewrite map_app. apply subseq_app; [eapply emit_subseq; eauto|apply IH].
Qed.

Definition exact_of (r : resp) : list N := match resp_exact_rev r with Some x => [x] | None => [] end.

Lemma ret_revs_rets l : ret_revs l = flat_map exact_of (rets l).
Proof.
  unfold ret_revs, rets. induction l as [|e l IH]; simpl; [reflexivity|].
  destruct e; simpl; auto. rewrite IH. reflexivity.
Qed.

Lemma exact_revs_flat recs : exact_revs recs = flat_map exact_of (map rr_resp recs).
Proof. induction recs as [|r recs IH]; simpl; [reflexivity|]. rewrite <- IH. reflexivity. Qed.

Lemma flat_map_exact_rev l : flat_map exact_of (rev l) = rev (flat_map exact_of l).
Proof.
  induction l as [|r l IH]; simpl; [reflexivity|]. rewrite flat_map_app, IH, rev_app_distr. simpl. rewrite app_nil_r.
  unfold exact_of. destruct (resp_exact_rev r); reflexivity.
Qed.

Lemma nodupb_complete l : NoDup l -> nodupb l = true.
Proof.
  induction 1 as [|x l Hn Hd IH]; simpl; [reflexivity|]. rewrite IH, andb_true_r.
  apply negb_true_iff. destruct (mem_N x l) eqn:E; [|reflexivity]. apply mem_N_In in E. contradiction.
Qed.

(* ---------- the uniqueness and range clauses of rev_ok ---------- *)

Theorem sched_unique_sound c : sched_valid c -> sched_check_core c = true ->
  nodupb (exact_revs (case_records c)) = true /\
  forallb (fun x => (sc_d0 c <? x) && (x <? sc_marker c)) (exact_revs (case_records c)) = true.
Proof.
  intros V H. unfold sched_check_core in H.
  destruct (run_steps (sc_cidx0 c) _ _ _ _) as [[sf qf]|] eqn:Er; [|discriminate].
  pose proof (sched_valid_wf c V) as W.
  set (s0 := kinit (sc_d0 c) (store_of (sc_init c))) in *.
  assert (Pf : kinv sf /\ uinv (sc_d0 c) sf).
  { refine (run_steps_P (sc_cidx0 c) (fun s => kinv s /\ uinv (sc_d0 c) s) _ _ _ _ _ _ _ Er _).
    - intros s l (A & B). split; [apply kinv_step, A|apply uinv_step; assumption].
    - split; [apply kinv_init, W|apply uinv_init]. }
  destruct Pf as (If & Uf).
  pose proof (run_steps_rets _ _ _ _ _ _ _ Er) as Hr. simpl in Hr. rewrite app_nil_r in Hr.
  assert (Hsub : Subseq (exact_revs (case_records c)) (rev (ret_revs (log sf)))).
  { rewrite exact_revs_flat, ret_revs_rets, Hr, <- flat_map_exact_rev, rev_involutive.
    apply subseq_flat_map. unfold case_records. apply records_subseq. }
  repeat (apply andb_true_iff in H; destruct H as [H ?]).
  match goal with Hm : (sc_marker c =? _) = true |- _ => apply N.eqb_eq in Hm; rename Hm into Hmark end.
  split.
  - apply nodupb_complete. eapply subseq_NoDup; [exact Hsub|]. apply NoDup_rev, (u_nodup _ _ Uf).
  - apply forallb_forall. intros x Hx. pose proof (subseq_In _ _ _ Hsub Hx) as Hin. apply in_rev in Hin.
    pose proof (u_rrng _ _ Uf x Hin). apply andb_true_iff. split; [apply N.ltb_lt|apply N.ltb_lt]; lia.
Qed.

(* ---------- the statements over the check alone (validity is part of it) ---------- *)

Theorem sched_samples_sound_checked c : sched_check c = true ->
  monotone_from (sc_d0 c) (samples c) = true /\
  forallb (fun x => x <? sc_marker c) (samples c) = true /\
  sc_stalled c = false /\ (sc_final_committed c =? sc_marker c) = true.
Proof. intros H. destruct (sched_check_split c H). apply sched_samples_sound; assumption. Qed.

Theorem sched_headers_sound_checked c : sched_check c = true ->
  forallb (fun r => header_ok (rr_resp r)) (case_records c) = true.
Proof. intros H. destruct (sched_check_split c H). apply sched_headers_sound; assumption. Qed.

Theorem sched_unique_sound_checked c : sched_check c = true ->
  nodupb (exact_revs (case_records c)) = true /\
  forallb (fun x => (sc_d0 c <? x) && (x <? sc_marker c)) (exact_revs (case_records c)) = true.
Proof. intros H. destruct (sched_check_split c H). apply sched_unique_sound; assumption. Qed.

Theorem sched_final_dump_chain_checked c : sched_check c = true ->
  exists lg, chain (store_of (sc_init c)) lg /\
    forall k ks, In (k, ks) (sc_final c) -> kstate_eqb (replay (store_of (sc_init c)) lg k) ks = true.
Proof. intros H. destruct (sched_check_split c H). apply sched_final_dump_chain; assumption. Qed.
