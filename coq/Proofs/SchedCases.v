(* Soundness of the schedule-case oracles, clause by clause: what `sched_check c = true` (the model
   reproduces the observation step by step) implies for the clauses of rev_ok / progress_ok. *)
From KB Require Import Model.KeySys Model.C01Cases Model.C02Cases Model.C04Cases.
From KB Require Import Proofs.RevSys Proofs.KeySys Proofs.KeySysLog.
From Coq Require Import ZifyN ZifyNat ZifyBool Lia.
Local Open Scope N_scope.

Section Sched.
Variable cidx0 : bool.

(* ---------- the states the check walks through are reachable states ---------- *)

Lemma dealt_mono_step s l : kinv s -> dealt (rs s) <= dealt (rs (kstep cidx0 s l)).
Proof.
  intros I. pose proof (rl_inv _ (ki_rs s I)) as RI.
  unfold kstep. destruct (rpanic (rs s)) eqn:Hp; [lia|]. rewrite rs_observe.
  destruct l as [t q|t|t e|t|t|].
  - unfold step_invoke. destruct (thr s t); simpl; lia.
  - unfold step_deal. destruct (thr s t); try lia; unfold do_deal;
      repeat match goal with |- context [if ?x then _ else _] => destruct x end; simpl;
      rewrite (dealt_step _ _ RI); rewrite Hp; lia.
  - assert (H : rs (step_engine cidx0 s t e) = rs s).
    { unfold step_engine. destruct (thr s t); try reflexivity;
        repeat match goal with |- context [match ?x with _ => _ end] => destruct x end; reflexivity. }
    rewrite H. lia.
  - unfold step_notify. destruct (thr s t); try lia.
    match goal with |- context [if rpanic ?x then _ else _] => destruct (rpanic x) end; simpl;
      rewrite (dealt_step _ _ RI); lia.
  - unfold step_return. destruct (thr s t); simpl; lia.
  - unfold step_seq. destruct (seq_ready (rs s)) eqn:Hr; [|lia]. cbn [rs set_rs].
    unfold seq_ready in Hr. rewrite Hp, (ki_idle s I) in Hr. simpl in Hr.
    destruct (slots (rs s) ((committed (rs s) + 1) mod cap)) as [v|] eqn:Es; [|discriminate].
    destruct (seq_take_effect (rs s) v RI Hp (ki_idle s I) Es) as (Ed & _). rewrite Ed. lia.
Qed.

Lemma committed_le_dealt s : kinv s -> committed (rs s) <= dealt (rs s).
Proof.
  intros I. pose proof (rl_inv _ (ki_rs s I)) as RI. pose proof (ri_cf _ RI). pose proof (ri_fd _ RI). lia.
Qed.

(* what we carry along a run: reachable-state invariant, growth of the allocation counter, and the
   header bound of every response handed out *)
Definition resp_ok (r : resp) : Prop := header_ok r = true.

Lemma resp_bound_ok r : resp_bound r -> resp_ok r.
Proof.
  unfold resp_ok, header_ok. destruct r as [h su|h su [[v m]|]|h su [[v m]|]|rv|]; simpl; auto;
    try (intros H; apply N.leb_le; exact H); destruct (rv =? 0); reflexivity.
Qed.

Lemma run_local_ok fuel : forall s t queue acc s' qu ac ls,
  run_local cidx0 fuel s t queue acc = (s', qu, ac, ls) ->
  kinv s -> Forall resp_ok acc ->
  kinv s' /\ dealt (rs s) <= dealt (rs s') /\ Forall resp_ok ac.
Proof.
  induction fuel as [|fuel IH]; intros s t queue acc s' qu ac ls H I Hacc; simpl in H.
  - injection H as <- <- <- <-. (split; [assumption|split; [lia|assumption]]).
  - destruct (rpanic (rs s)); [injection H as <- <- <- <-; (split; [assumption|split; [lia|assumption]])|].
    destruct (is_engine_pc (thr s t)); [injection H as <- <- <- <-; (split; [assumption|split; [lia|assumption]])|].
    assert (Hstep : forall l queue0 acc0,
               (let '(s1, qu1, ac1, ls1) := run_local cidx0 fuel (kstep cidx0 s l) t queue0 acc0 in (s1, qu1, ac1, l :: ls1))
               = (s', qu, ac, ls) -> Forall resp_ok acc0 ->
               kinv s' /\ dealt (rs s) <= dealt (rs s') /\ Forall resp_ok ac).
    { intros l queue0 acc0 E Hacc0.
      destruct (run_local cidx0 fuel (kstep cidx0 s l) t queue0 acc0) as [[[s1 qu1] ac1] ls1] eqn:Er.
      injection E as <- <- <- <-.
      destruct (IH _ _ _ _ _ _ _ _ Er (kinv_step cidx0 s l I) Hacc0) as (A & B & C).
      pose proof (dealt_mono_step s l I). (split; [assumption|split; [lia|assumption]]). }
    destruct (thr s t) eqn:Ht;
      try (eapply Hstep; [exact H|exact Hacc]).
    + destruct queue as [|q0 queue']; [injection H as <- <- <- <-; (split; [assumption|split; [lia|assumption]])|].
      eapply Hstep; [exact H|exact Hacc].
    + eapply Hstep; [exact H|]. apply Forall_app. split; [exact Hacc|]. constructor; [|constructor].
      apply resp_bound_ok. pose proof (ki_local s I t) as L. rewrite Ht in L. exact L.
Qed.

Lemma resume_ok s t e queue s' qu ac ls :
  resume cidx0 s t e queue = (s', qu, ac, ls) -> kinv s ->
  kinv s' /\ dealt (rs s) <= dealt (rs s') /\ Forall resp_ok ac.
Proof.
  unfold resume. intros H I. destruct (is_engine_pc (thr s t)).
  - destruct (run_local cidx0 resume_fuel (kstep cidx0 s (LEngine t e)) t queue []) as [[[s1 qu1] ac1] ls1] eqn:Er.
    injection H as <- <- <- <-.
    destruct (run_local_ok _ _ _ _ _ _ _ _ _ Er (kinv_step cidx0 s _ I) (Forall_nil _)) as (A & B & C).
    pose proof (dealt_mono_step s (LEngine t e) I). (split; [assumption|split; [lia|assumption]]).
  - eapply run_local_ok; eauto.
Qed.

Lemma seq_all_ok fuel : forall s, kinv s ->
  kinv (seq_all cidx0 fuel s) /\ dealt (rs s) <= dealt (rs (seq_all cidx0 fuel s)).
Proof.
  induction fuel as [|fuel IH]; intros s I; simpl; [split; [exact I|lia]|].
  destruct (enabled s LSeqTake); [|split; [exact I|lia]].
  destruct (IH _ (kinv_step cidx0 s LSeqTake I)) as [A B]. pose proof (dealt_mono_step s LSeqTake I).
  split; [exact A|lia].
Qed.

Lemma list_eqb_resp_ok l l' : list_eqb resp_eqb l l' = true -> Forall resp_ok l -> Forall resp_ok l'.
Proof.
  revert l'. induction l as [|a l IH]; intros [|b l']; simpl; try discriminate; auto.
  intros E F. apply andb_true_iff in E. destruct E as [E1 E2]. inversion F; subst.
  constructor; [|apply IH; assumption].
  unfold resp_ok, header_ok in *.
  destruct a as [h su|h su kv|h su kv|rv|], b as [h' su' kv'|h' su' kv'|h' su' kv'|rv'|]; simpl in *; try discriminate; auto.
  - apply andb_true_iff in E1. destruct E1 as [E1 E3]. apply andb_true_iff in E1. destruct E1 as [E1 _].
    apply N.eqb_eq in E1. subst h'.
    destruct kv as [[v m]|], kv' as [[v' m']|]; simpl in *; try discriminate; auto.
    unfold kvr_eqb in E3. simpl in E3. apply andb_true_iff in E3. destruct E3 as [_ E3]. apply N.eqb_eq in E3. subst m'. assumption.
  - apply andb_true_iff in E1. destruct E1 as [E1 E3]. apply andb_true_iff in E1. destruct E1 as [E1 _].
    apply N.eqb_eq in E1. subst h'.
    destruct kv as [[v m]|], kv' as [[v' m']|]; simpl in *; try discriminate; auto.
    unfold kvr_eqb in E3. simpl in E3. apply andb_true_iff in E3. destruct E3 as [_ E3]. apply N.eqb_eq in E3. subst m'. assumption.
  - destruct (rv' =? 0); reflexivity.
Qed.

(* one pass over the observed steps *)
Lemma run_steps_ok steps : forall s queues prev sf qf,
  run_steps cidx0 s queues prev steps = Some (sf, qf) -> kinv s -> prev <= dealt (rs s) ->
  kinv sf /\ dealt (rs s) <= dealt (rs sf)
  /\ monotone_from prev (map st_sample steps) = true
  /\ Forall (fun st => st_sample st <= dealt (rs sf)) steps
  /\ Forall (fun st => Forall resp_ok (st_resps st)) steps.
Proof.
  induction steps as [|st steps IH]; intros s queues prev sf qf H I Hprev; simpl in H.
  - injection H as <- <-. split; [assumption|]. split; [lia|]. split; [reflexivity|]. split; constructor.
  - destruct (resume cidx0 s (st_t st) (st_env st) (lookup [] (st_t st) queues)) as [[[s1 qu] resps] ls] eqn:Er.
    destruct (resume_ok _ _ _ _ _ _ _ _ Er I) as (I1 & D1 & R1).
    destruct (seq_all_ok 64 s1 I1) as (I2 & D2).
    match type of H with (if ?c then _ else _) = _ => destruct c eqn:Ec; [|discriminate] end.
    repeat (apply andb_true_iff in Ec; destruct Ec as [Ec ?]).
    apply N.leb_le in H0, H1.
    pose proof (committed_le_dealt _ I2) as Hcd.
    destruct (IH _ _ _ _ _ H I2 ltac:(lia)) as (If & Df & Mf & Sf & Rf).
    split; [assumption|]. split; [lia|]. split; [|split].
    + simpl. rewrite Mf. apply andb_true_iff. split; [apply N.leb_le; lia|reflexivity].
    + constructor; [lia|exact Sf].
    + constructor; [|exact Rf]. eapply list_eqb_resp_ok; eauto.
Qed.
End Sched.
