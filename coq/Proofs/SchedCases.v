(* Soundness of the schedule-case oracles, clause by clause: what `sched_check c = true` (the model
   reproduces the observation step by step) implies for the clauses of rev_ok / progress_ok. *)
From KB Require Import Model.KeySys Model.C01Cases Model.C02Cases Model.C04Cases.
From KB Require Import Proofs.RevSys Proofs.KeySys Proofs.KeySysLog Proofs.KeySysChain Proofs.KeySysJust.
From Coq Require Import ZifyN ZifyNat ZifyBool Lia.
Local Open Scope N_scope.

Section Sched.
Variable cidx0 : bool.

(* ---------- the states the check walks through are reachable states ---------- *)

Lemma dealt_mono_step s l : kinv s -> dealt (rs s) <= dealt (rs (kstep cidx0 s l)).
Proof.
  intros I. pose proof (rl_inv _ (ki_rs s I)) as RI.
  unfold kstep. destruct (rpanic (rs s)) eqn:Hp; [lia|]. rewrite rs_observe.
  destruct l as [t q|t|t e|t|t|].
  - unfold step_invoke. destruct (thr s t); simpl; lia.
  - unfold step_deal. destruct (thr s t); try lia; unfold do_deal;
      repeat match goal with |- context [if ?x then _ else _] => destruct x end; simpl;
      rewrite (dealt_step _ _ RI); rewrite Hp; lia.
  - assert (H : rs (step_engine cidx0 s t e) = rs s).
    { unfold step_engine. destruct (thr s t); try reflexivity;
        repeat match goal with |- context [match ?x with _ => _ end] => destruct x end; reflexivity. }
    rewrite H. lia.
  - unfold step_notify. destruct (thr s t); try lia.
    match goal with |- context [if rpanic ?x then _ else _] => destruct (rpanic x) end; simpl;
      rewrite (dealt_step _ _ RI); lia.
  - unfold step_return. destruct (thr s t); simpl; lia.
  - unfold step_seq. destruct (seq_ready (rs s)) eqn:Hr; [|lia]. cbn [rs set_rs].
    unfold seq_ready in Hr. rewrite Hp, (ki_idle s I) in Hr. simpl in Hr.
    destruct (slots (rs s) ((committed (rs s) + 1) mod cap)) as [v|] eqn:Es; [|discriminate].
    destruct (seq_take_effect (rs s) v RI Hp (ki_idle s I) Es) as (Ed & _). rewrite Ed. lia.
Qed.

Lemma committed_le_dealt s : kinv s -> committed (rs s) <= dealt (rs s).
Proof.
  intros I. pose proof (rl_inv _ (ki_rs s I)) as RI. pose proof (ri_cf _ RI). pose proof (ri_fd _ RI). lia.
Qed.

(* what we carry along a run: reachable-state invariant, growth of the allocation counter, and the
   header bound of every response handed out *)
Definition resp_ok (r : resp) : Prop := header_ok r = true.

Lemma resp_bound_ok r : resp_bound r -> resp_ok r.
Proof.
  unfold resp_ok, header_ok. destruct r as [h su|h su [[v m]|]|h su [[v m]|]|rv|]; simpl; auto;
    try (intros H; apply N.leb_le; exact H); destruct (rv =? 0); reflexivity.
Qed.

Lemma run_local_ok fuel : forall s t queue acc s' qu ac ls,
  run_local cidx0 fuel s t queue acc = (s', qu, ac, ls) ->
  kinv s -> Forall resp_ok acc ->
  kinv s' /\ dealt (rs s) <= dealt (rs s') /\ Forall resp_ok ac.
Proof.
  induction fuel as [|fuel IH]; intros s t queue acc s' qu ac ls H I Hacc; simpl in H.
  - injection H as <- <- <- <-. (split; [assumption|split; [lia|assumption]]).
  - destruct (rpanic (rs s)); [injection H as <- <- <- <-; (split; [assumption|split; [lia|assumption]])|].
    destruct (is_engine_pc (thr s t)); [injection H as <- <- <- <-; (split; [assumption|split; [lia|assumption]])|].
    assert (Hstep : forall l queue0 acc0,
               (let '(s1, qu1, ac1, ls1) := run_local cidx0 fuel (kstep cidx0 s l) t queue0 acc0 in (s1, qu1, ac1, l :: ls1))
               = (s', qu, ac, ls) -> Forall resp_ok acc0 ->
               kinv s' /\ dealt (rs s) <= dealt (rs s') /\ Forall resp_ok ac).
    { intros l queue0 acc0 E Hacc0.
      destruct (run_local cidx0 fuel (kstep cidx0 s l) t queue0 acc0) as [[[s1 qu1] ac1] ls1] eqn:Er.
      injection E as <- <- <- <-.
      destruct (IH _ _ _ _ _ _ _ _ Er (kinv_step cidx0 s l I) Hacc0) as (A & B & C).
      pose proof (dealt_mono_step s l I). (split; [assumption|split; [lia|assumption]]). }
    destruct (thr s t) eqn:Ht;
      try (eapply Hstep; [exact H|exact Hacc]).
    + destruct queue as [|q0 queue']; [injection H as <- <- <- <-; (split; [assumption|split; [lia|assumption]])|].
      eapply Hstep; [exact H|exact Hacc].
    + eapply Hstep; [exact H|]. apply Forall_app. split; [exact Hacc|]. constructor; [|constructor].
      apply resp_bound_ok. pose proof (ki_local s I t) as L. rewrite Ht in L. exact L.
Qed.

Lemma resume_ok s t e queue s' qu ac ls :
  resume cidx0 s t e queue = (s', qu, ac, ls) -> kinv s ->
  kinv s' /\ dealt (rs s) <= dealt (rs s') /\ Forall resp_ok ac.
Proof.
  unfold resume. intros H I. destruct (is_engine_pc (thr s t)).
  - destruct (run_local cidx0 resume_fuel (kstep cidx0 s (LEngine t e)) t queue []) as [[[s1 qu1] ac1] ls1] eqn:Er.
    injection H as <- <- <- <-.
    destruct (run_local_ok _ _ _ _ _ _ _ _ _ Er (kinv_step cidx0 s _ I) (Forall_nil _)) as (A & B & C).
    pose proof (dealt_mono_step s (LEngine t e) I). (split; [assumption|split; [lia|assumption]]).
  - eapply run_local_ok; eauto.
Qed.

Lemma seq_all_ok fuel : forall s, kinv s ->
  kinv (seq_all cidx0 fuel s) /\ dealt (rs s) <= dealt (rs (seq_all cidx0 fuel s)).
Proof.
  induction fuel as [|fuel IH]; intros s I; simpl; [split; [exact I|lia]|].
  destruct (enabled s LSeqTake); [|split; [exact I|lia]].
  destruct (IH _ (kinv_step cidx0 s LSeqTake I)) as [A B]. pose proof (dealt_mono_step s LSeqTake I).
  split; [exact A|lia].
Qed.

Lemma list_eqb_resp_ok l l' : list_eqb resp_eqb l l' = true -> Forall resp_ok l -> Forall resp_ok l'.
Proof.
  revert l'. induction l as [|a l IH]; intros [|b l']; simpl; try discriminate; auto.
  intros E F. apply andb_true_iff in E. destruct E as [E1 E2]. inversion F; subst.
  constructor; [|apply IH; assumption].
  unfold resp_ok, header_ok in *.
  destruct a as [h su|h su kv|h su kv|rv|], b as [h' su'|h' su' kv'|h' su' kv'|rv'|]; simpl in *; try discriminate; auto.
  - apply andb_true_iff in E1. destruct E1 as [E1 E3]. apply andb_true_iff in E1. destruct E1 as [E1 _].
    apply N.eqb_eq in E1. subst h'.
    destruct kv as [[v m]|], kv' as [[v' m']|]; simpl in *; try discriminate; auto.
    unfold kvr_eqb in E3. simpl in E3. apply andb_true_iff in E3. destruct E3 as [_ E3]. apply N.eqb_eq in E3. subst m'. assumption.
  - apply andb_true_iff in E1. destruct E1 as [E1 E3]. apply andb_true_iff in E1. destruct E1 as [E1 _].
    apply N.eqb_eq in E1. subst h'.
    destruct kv as [[v m]|], kv' as [[v' m']|]; simpl in *; try discriminate; auto.
    unfold kvr_eqb in E3. simpl in E3. apply andb_true_iff in E3. destruct E3 as [_ E3]. apply N.eqb_eq in E3. subst m'. assumption.
  - destruct (rv' =? 0); reflexivity.
Qed.

(* one pass over the observed steps *)
Lemma run_steps_ok steps : forall s queues prev sf qf,
  run_steps cidx0 s queues prev steps = Some (sf, qf) -> kinv s -> prev <= dealt (rs s) ->
  kinv sf /\ dealt (rs s) <= dealt (rs sf)
  /\ monotone_from prev (map st_sample steps) = true
  /\ Forall (fun st => st_sample st <= dealt (rs sf)) steps
  /\ Forall (fun st => Forall resp_ok (st_resps st)) steps.
Proof.
  induction steps as [|st steps IH]; intros s queues prev sf qf H I Hprev; cbn [run_steps] in H.
  - injection H as <- <-. split; [assumption|]. split; [lia|]. split; [reflexivity|]. split; constructor.
  - destruct (ekind_eqb (st_kind st) KHold).
    { (* a step during which the commit is held inside the engine *)
      destruct (seq_all_ok seq_fuel s I) as (I2 & D2).
      match type of H with (if ?c then _ else _) = _ => destruct c eqn:Ec; [|discriminate] end.
      repeat (apply andb_true_iff in Ec; destruct Ec as [Ec ?]).
      apply N.leb_le in H0, H1.
      pose proof (committed_le_dealt _ I2) as Hcd.
      destruct (IH _ _ _ _ _ H I2 ltac:(lia)) as (If & Df & Mf & Sf & Rf).
      split; [assumption|]. split; [lia|]. split; [|split].
      - simpl. rewrite Mf. apply andb_true_iff. split; [apply N.leb_le; lia|reflexivity].
      - constructor; [lia|exact Sf].
      - constructor; [|exact Rf]. destruct (st_resps st); [constructor|discriminate]. }
    destruct (resume cidx0 s (st_t st) (st_env st) (lookup [] (st_t st) queues)) as [[[s1 qu] resps] ls] eqn:Er.
    destruct (resume_ok _ _ _ _ _ _ _ _ Er I) as (I1 & D1 & R1).
    destruct (seq_all_ok seq_fuel s1 I1) as (I2 & D2).
    match type of H with (if ?c then _ else _) = _ => destruct c eqn:Ec; [|discriminate] end.
    repeat (apply andb_true_iff in Ec; destruct Ec as [Ec ?]).
    apply N.leb_le in H0, H1.
    pose proof (committed_le_dealt _ I2) as Hcd.
    destruct (IH _ _ _ _ _ H I2 ltac:(lia)) as (If & Df & Mf & Sf & Rf).
    split; [assumption|]. split; [lia|]. split; [|split].
    + simpl. rewrite Mf. apply andb_true_iff. split; [apply N.leb_le; lia|reflexivity].
    + constructor; [lia|exact Sf].
    + constructor; [|exact Rf]. eapply list_eqb_resp_ok; eauto.
Qed.
End Sched.

(* ---------- from a valid case to a well-formed initial store ---------- *)

Lemma lookup_In {A} (d : A) k l x : lookup d k l = x -> x = d \/ In (k, x) l.
Proof.
  induction l as [|[k' y] l IH]; simpl; [auto|].
  destruct (N.eqb_spec k' k) as [->|_]; [intros ->; right; left; reflexivity|].
  intros H. destruct (IH H); auto.
Qed.

Lemma wf_kstateb_wf d0 ks : wf_kstateb d0 ks = true ->
  (forall r v, In (r, v) (k_vers ks) -> r <= d0) /\
  (forall r f, k_idx ks = Some (r, f) ->
     (exists v, In (r, v) (k_vers ks) /\ (f = true -> v = tombstone)) /\
     (forall r' v', In (r', v') (k_vers ks) -> r' <= r)).
Proof.
  unfold wf_kstateb. intros H. apply andb_true_iff in H. destruct H as [H1 H2]. split.
  - intros r v Hin. rewrite forallb_forall in H1. specialize (H1 _ Hin). simpl in H1.
    apply andb_true_iff in H1. destruct H1 as [_ H1]. apply N.leb_le in H1. exact H1.
  - intros r f Hi. rewrite Hi in H2. destruct (newest (k_vers ks)) as [[r' v]|] eqn:En; [|discriminate].
    apply andb_true_iff in H2. destruct H2 as [E1 E2]. apply N.eqb_eq in E1. subst r'. split.
    + exists v. split; [apply newest_In, En|]. intros ->. apply beqb_eq. exact E2.
    + intros r' v' Hin. eapply newest_max; eauto.
Qed.

Lemma sched_valid_wf c : sched_valid c -> wf_store (sc_d0 c) (store_of (sc_init c)).
Proof.
  intros (_ & _ & F) k. unfold store_of.
  destruct (lookup_In k_empty k (sc_init c) _ eq_refl) as [E|Hin].
  - rewrite E. simpl. split; [contradiction|discriminate].
  - rewrite Forall_forall in F. specialize (F _ Hin). simpl in F. apply wf_kstateb_wf, F.
Qed.

(* ---------- clauses of progress_ok ---------- *)

Theorem sched_samples_sound c : sched_valid c -> sched_check c = true ->
  monotone_from (sc_d0 c) (samples c) = true /\
  forallb (fun x => x <? sc_marker c) (samples c) = true /\
  sc_stalled c = false /\ (sc_final_committed c =? sc_marker c) = true.
Proof.
  intros V H. unfold sched_check in H.
  destruct (run_steps (sc_cidx0 c) _ _ _ _) as [[sf qf]|] eqn:Er; [|discriminate].
  pose proof (kinv_init _ _ (sched_valid_wf c V)) as I0.
  destruct (run_steps_ok _ _ _ _ _ _ _ Er I0 ltac:(simpl; lia)) as (If & Df & Mf & Sf & Rf).
  repeat (apply andb_true_iff in H; destruct H as [H ?]).
  apply N.eqb_eq in H2. repeat split.
  - exact Mf.
  - unfold samples. apply forallb_forall. intros x Hx. apply in_map_iff in Hx. destruct Hx as [st [<- Hst]].
    rewrite Forall_forall in Sf. specialize (Sf _ Hst). simpl in Sf. apply N.ltb_lt. lia.
  - apply negb_true_iff. assumption.
  - assumption.
Qed.

(* ---------- the header clause of rev_ok ---------- *)

Lemma emit_resps t i : forall resps ts ts' recs,
  emit t i ts resps = (ts', recs) -> forall x, In x recs -> In (rr_resp x) resps.
Proof.
  induction resps as [|r resps IH]; intros ts ts' recs H x Hx; simpl in H.
  - injection H as _ <-. contradiction.
  - destruct (ts_queue ts) as [|q0 queue']; [injection H as _ <-; contradiction|].
    destruct (emit t i _ resps) as [ts2 recs2] eqn:E. injection H as _ <-.
    destruct Hx as [<-|Hx]; [left; reflexivity|right; eapply IH; eauto].
Qed.

Lemma records_resps steps : forall i tss x,
  In x (records i tss steps) -> exists st, In st steps /\ In (rr_resp x) (st_resps st).
Proof.
  induction steps as [|st steps IH]; intros i tss x Hx; simpl in Hx; [contradiction|].
  match type of Hx with In _ (let '(_, _) := ?e in _) => destruct e as [ts2 recs] eqn:E end.
  apply in_app_or in Hx. destruct Hx as [Hx|Hx].
  - exists st. split; [left; reflexivity|]. eapply emit_resps; eauto.
  - destruct (IH _ _ _ Hx) as [st' [A B]]. exists st'. split; [right; exact A|exact B].
Qed.

Theorem sched_headers_sound c : sched_valid c -> sched_check c = true ->
  forallb (fun r => header_ok (rr_resp r)) (case_records c) = true.
Proof.
  intros V H. unfold sched_check in H.
  destruct (run_steps (sc_cidx0 c) _ _ _ _) as [[sf qf]|] eqn:Er; [|discriminate].
  pose proof (kinv_init _ _ (sched_valid_wf c V)) as I0.
  destruct (run_steps_ok _ _ _ _ _ _ _ Er I0 ltac:(simpl; lia)) as (_ & _ & _ & _ & Rf).
  apply forallb_forall. intros x Hx. unfold case_records in Hx.
  destruct (records_resps _ _ _ _ Hx) as [st [Hst Hin]].
  rewrite Forall_forall in Rf. specialize (Rf _ Hst). rewrite Forall_forall in Rf. apply (Rf _ Hin).
Qed.

(* ---------- any step-invariant holds in the state the check ends in ---------- *)

Section Carry.
Variable cidx0 : bool.
Variable P : state -> Prop.
Hypothesis Pstep : forall s l, P s -> P (kstep cidx0 s l).

Lemma run_local_P fuel : forall s t queue acc s' qu ac ls,
  run_local cidx0 fuel s t queue acc = (s', qu, ac, ls) -> P s -> P s'.
Proof.
  induction fuel as [|fuel IH]; intros s t queue acc s' qu ac ls H Ps; simpl in H.
  - injection H as <- _ _ _. exact Ps.
  - destruct (rpanic (rs s)); [injection H as <- _ _ _; exact Ps|].
    destruct (is_engine_pc (thr s t)); [injection H as <- _ _ _; exact Ps|].
    assert (Hstep : forall l queue0 acc0,
               (let '(s1, qu1, ac1, ls1) := run_local cidx0 fuel (kstep cidx0 s l) t queue0 acc0 in (s1, qu1, ac1, l :: ls1))
               = (s', qu, ac, ls) -> P s').
    { intros l queue0 acc0 E.
      destruct (run_local cidx0 fuel (kstep cidx0 s l) t queue0 acc0) as [[[s1 qu1] ac1] ls1] eqn:Er.
      injection E as <- _ _ _. eapply IH; [exact Er|apply Pstep, Ps]. }
    destruct (thr s t); try (eapply Hstep; exact H).
    destruct queue as [|q0 queue']; [injection H as <- _ _ _; exact Ps|]. eapply Hstep; exact H.
Qed.

Lemma run_steps_P steps : forall s queues prev sf qf,
  run_steps cidx0 s queues prev steps = Some (sf, qf) -> P s -> P sf.
Proof.
  induction steps as [|st steps IH]; intros s queues prev sf qf H Ps; cbn [run_steps] in H.
  - injection H as <- _. exact Ps.
  - assert (Hseq : forall n s1, P s1 -> P (seq_all cidx0 n s1)).
    { induction n as [|n IHn]; intros s1 P1; simpl; [exact P1|].
      destruct (enabled s1 LSeqTake); [apply IHn, Pstep, P1|exact P1]. }
    destruct (ekind_eqb (st_kind st) KHold).
    { match type of H with (if ?c then _ else _) = _ => destruct c; [|discriminate] end.
      eapply IH; [exact H|]. apply Hseq, Ps. }
    destruct (resume cidx0 s (st_t st) (st_env st) (lookup [] (st_t st) queues)) as [[[s1 qu] resps] ls] eqn:Er.
    match type of H with (if ?c then _ else _) = _ => destruct c; [|discriminate] end.
    eapply IH; [exact H|].
    assert (P1 : P s1).
    { unfold resume in Er. destruct (is_engine_pc (thr s (st_t st))).
      - destruct (run_local cidx0 resume_fuel _ _ _ _) as [[[s2 qu2] ac2] ls2] eqn:E2.
        injection Er as <- _ _ _. eapply run_local_P; [exact E2|apply Pstep, Ps].
      - eapply run_local_P; eauto. }
    apply Hseq, P1.
Qed.
End Carry.

(* ---------- C01: the observed final dump is the image of a chain of applied commits ---------- *)

Theorem sched_final_dump_chain c : sched_valid c -> sched_check c = true ->
  exists lg, chain (store_of (sc_init c)) lg /\
    forall k ks, In (k, ks) (sc_final c) -> kstate_eqb (replay (store_of (sc_init c)) lg k) ks = true.
Proof.
  intros V H. unfold sched_check in H.
  destruct (run_steps (sc_cidx0 c) _ _ _ _) as [[sf qf]|] eqn:Er; [|discriminate].
  pose proof (sched_valid_wf c V) as W.
  set (store0 := store_of (sc_init c)) in *.
  assert (Pf : kinv sf /\ reqinv sf /\ chaininv store0 sf).
  { refine (run_steps_P (sc_cidx0 c) (fun s => kinv s /\ reqinv s /\ chaininv store0 s) _ _ _ _ _ _ _ Er _).
    - intros s l (A & B & C). split; [apply kinv_step, A|split; [apply reqinv_step, B|apply chaininv_step; assumption]].
    - split; [apply kinv_init, W|split; [intros t; exact Logic.I|constructor; simpl; auto]]. }
  destruct Pf as (_ & _ & [Him Hch]).
  exists (log sf). split; [exact Hch|].
  intros k ks Hin. rewrite <- Him.
  repeat (apply andb_true_iff in H; destruct H as [H ?]).
  rewrite forallb_forall in H5. apply (H5 (k, ks) Hin).
Qed.

(* ---------- the proxy-case oracle accepts what the model produces ---------- *)

(* agreement with the model on an answer that is not "unknown": a failed condition comes from a model run in which
   the request applied nothing, and (C01_failure_justified on a one-request run) the key differed when it came in *)
Lemma proxy_oracle_error c : is_error (px_resp c) = true -> proxy_ok c = true.
Proof. unfold proxy_ok. destruct (px_resp c); simpl; try discriminate. reflexivity. Qed.
