(* Proofs about the read path, part 2: the worker's output on a sorted store is the snapshot;
   fold splitting at key boundaries; restriction to a key predicate. *)
From KB Require Import Base.Bytes Base.Cases Model.Coder Model.ReadSys Proofs.Coder Proofs.ReadSys.
From Coq Require Import ZifyN ZifyNat ZifyBool.
Local Open Scope N_scope.

Notation vrecb := (@vrec bytes).

(* ---------- newest ---------- *)
Section Newest.
  Context {A : Type}.
  Implicit Types (V : list (@vrec A)) (x : @vrec A).

  Definition qual (R : N) (k : bytes) x : bool := beqb (vr_key x) k && (0 <? vr_rev x) && (vr_rev x <=? R).

  Lemma newest_cons V R k x :
    newest (x :: V) R k =
    if qual R k x then
      match newest V R k with
      | Some (r0, a0) => if vr_rev x <? r0 then Some (r0, a0) else Some (vr_rev x, vr_val x)
      | None => Some (vr_rev x, vr_val x)
      end
    else newest V R k.
  Proof. cbn [newest]. unfold qual. destruct (beqb (vr_key x) k && (0 <? vr_rev x) && (vr_rev x <=? R)); [|reflexivity].
    destruct (newest V R k) as [[r0 a0]|]; reflexivity. Qed.

  Lemma newest_none V R k : (forall y, In y V -> qual R k y = false) -> newest V R k = None.
  Proof.
    induction V as [|x t IH]; intros H; [reflexivity|].
    rewrite newest_cons, (H x (or_introl eq_refl)). apply IH. intros y Hy. apply H. right; exact Hy.
  Qed.

  Lemma newest_skip V R k x : qual R k x = false -> newest (x :: V) R k = newest V R k.
  Proof. intros H. rewrite newest_cons, H. reflexivity. Qed.

  (* the result is a record of the store, and qualifies *)
  Lemma newest_in V R k r a : newest V R k = Some (r, a) -> In (k, r, a) V /\ 0 < r /\ r <= R.
  Proof.
    revert r a; induction V as [|x t IH]; intros r a H; [discriminate|].
    rewrite newest_cons in H. destruct (qual R k x) eqn:Q.
    - unfold qual in Q. apply andb_true_iff in Q as [Q Q3]. apply andb_true_iff in Q as [Q1 Q2].
      apply beqb_eq in Q1.
      assert (Hx : Some (vr_rev x, vr_val x) = Some (r, a) -> In (k, r, a) (x :: t) /\ 0 < r /\ r <= R).
      { intros E. injection E as <- <-. split; [left|lia]. destruct x as [[k' r'] a']. cbn in *. subst. reflexivity. }
      destruct (newest t R k) as [[r0 a0]|] eqn:N0; [|apply Hx; exact H].
      destruct (vr_rev x <? r0); [|apply Hx; exact H].
      injection H as <- <-. destruct (IH _ _ eq_refl) as [I1 I2]. split; [right; exact I1|exact I2].
    - destruct (IH _ _ H) as [I1 I2]. split; [right; exact I1|exact I2].
  Qed.

  Lemma newest_some V R k y : In y V -> qual R k y = true -> exists r a, newest V R k = Some (r, a).
  Proof.
    induction V as [|x t IH]; intros Hy Qy; [contradiction|].
    rewrite newest_cons. destruct Hy as [->|Hy].
    - rewrite Qy. destruct (newest t R k) as [[r0 a0]|]; [destruct (_ <? _)|]; eauto.
    - destruct (IH Hy Qy) as (r & a & E). rewrite E.
      destruct (qual R k x); [destruct (_ <? _)|]; eauto.
  Qed.
  (* the revision found bounds every qualifying revision *)
  Lemma newest_max V R k r a : newest V R k = Some (r, a) -> forall y, In y V -> qual R k y = true -> vr_rev y <= r.
  Proof.
    revert r a; induction V as [|x t IH]; intros r a H y Hy Qy; [contradiction|].
    rewrite newest_cons in H. destruct Hy as [->|Hy].
    - rewrite Qy in H. destruct (newest t R k) as [[r0 a0]|].
      + revert H. destruct (vr_rev y <? r0) eqn:E; intros H; injection H as <- <-; lia.
      + injection H as <- <-. lia.
    - destruct (qual R k x) eqn:Q.
      + destruct (newest t R k) as [[r0 a0]|] eqn:N0.
        * specialize (IH _ _ eq_refl y Hy Qy).
          revert H. destruct (vr_rev x <? r0) eqn:E; intros H; injection H as <- <-; lia.
        * destruct (newest_some t R k y Hy Qy) as (r1 & a1 & E1). congruence.
      + apply (IH _ _ H y Hy Qy).
  Qed.
End Newest.

(* ---------- ukeys and flat_map ---------- *)
Lemma flat_map_insert_nil {B} (f : bytes -> list B) k l : f k = [] -> flat_map f (insert_key k l) = flat_map f l.
Proof.
  intros H. induction l as [|q t IH]; cbn [insert_key flat_map]; [rewrite H; reflexivity|].
  destruct (bcmp k q) eqn:C.
  - reflexivity.
  - cbn [flat_map]. rewrite H. reflexivity.
  - cbn [flat_map]. rewrite IH. reflexivity.
Qed.

Lemma insert_key_min k l : (forall q, In q l -> bcmp k q <> Gt) ->
  insert_key k l = match l with q :: _ => if beqb k q then l else k :: l | [] => [k] end.
Proof.
  destruct l as [|q t]; intros H; [reflexivity|]. cbn [insert_key]. unfold beqb.
  specialize (H q (or_introl eq_refl)). destruct (bcmp k q); congruence.
Qed.

Lemma ukeys_in {A} (V : list (@vrec A)) k : In k (ukeys V) -> exists y, In y V /\ vr_key y = k.
Proof.
  induction V as [|x t IH]; cbn [ukeys fold_right]; [contradiction|]. fold (ukeys t).
  intros H.
  assert (G : forall l, In k (insert_key (vr_key x) l) -> k = vr_key x \/ In k l).
  { clear. induction l as [|q l IHl]; cbn [insert_key]; intros H.
    - destruct H as [<-|[]]; auto.
    - destruct (bcmp (vr_key x) q); cbn [In] in *; intuition. }
  destruct (G _ H) as [->|H']; [exists x; split; [left|]; reflexivity|].
  destruct (IH H') as (y & Hy & E). exists y; split; [right; exact Hy|exact E].
Qed.

(* in a sorted store the first record's key is the smallest, so it heads ukeys *)
Lemma sorted_key_le {A} (x : @vrec A) t : StronglySorted vr_lt (x :: t) -> forall y, In y t -> bcmp (vr_key x) (vr_key y) <> Gt.
Proof.
  intros S y Hy. inversion S as [|? ? _ F]; subst. rewrite Forall_forall in F. apply vr_lt_key. apply F; exact Hy.
Qed.

Lemma ukeys_cons_sorted {A} (x : @vrec A) t : StronglySorted vr_lt (x :: t) ->
  ukeys (x :: t) = match ukeys t with q :: _ => if beqb (vr_key x) q then ukeys t else vr_key x :: ukeys t | [] => [vr_key x] end.
Proof.
  intros S. change (ukeys (x :: t)) with (insert_key (vr_key x) (ukeys t)).
  apply insert_key_min. intros q Hq. destruct (ukeys_in _ _ Hq) as (y & Hy & <-).
  eapply sorted_key_le; eauto.
Qed.

Lemma ukeys_head_sorted {A} (x : @vrec A) t : StronglySorted vr_lt (x :: t) -> exists u, ukeys (x :: t) = vr_key x :: u.
Proof.
  intros S. rewrite (ukeys_cons_sorted x t S). destruct (ukeys t) as [|q u]; [eauto|].
  destruct (beqb (vr_key x) q) eqn:E; [|eauto]. apply beqb_eq in E; subst. eauto.
Qed.

(* ---------- snapshot of (p :: V) = worker output from prev = p ---------- *)
Definition pick {A} (V : list (@vrec A)) (R : N) (k : bytes) : list (bytes * A * N) :=
  match newest V R k with Some (r, a) => [(k, a, r)] | None => [] end.

Lemma newest_all_eq {A} (V : list (@vrec A)) R : newest_all V R = flat_map (pick V R) (ukeys V).
Proof. reflexivity. Qed.

Definition not_tomb (x : okv) : bool := negb (beqb (okv_val x) tombstone).
Lemma snapshot_eq V R : snapshot V R = filter not_tomb (flat_map (pick V R) (ukeys V)).
Proof. reflexivity. Qed.

Lemma filter_flat_map {A B} (p : B -> bool) (f : A -> list B) l :
  filter p (flat_map f l) = flat_map (fun x => filter p (f x)) l.
Proof. induction l as [|x l IH]; cbn; [reflexivity|]. rewrite filter_app, IH. reflexivity. Qed.

Lemma flat_map_ext_in {A B} (f g : A -> list B) l : (forall x, In x l -> f x = g x) -> flat_map f l = flat_map g l.
Proof. induction l as [|x l IH]; intros H; cbn; [reflexivity|]. rewrite (H x (or_introl eq_refl)), IH; [reflexivity|]. intros y Hy; apply H; right; exact Hy. Qed.

(* ukeys is strictly sorted *)
Definition klt (a b : bytes) : Prop := bcmp a b = Lt.

Lemma insert_key_in k l q : In q (insert_key k l) <-> q = k \/ In q l.
Proof.
  induction l as [|p t IH]; cbn [insert_key In]; [intuition|].
  destruct (bcmp k p) eqn:C; cbn [In].
  - apply bcmp_eq in C; subst. intuition.
  - intuition.
  - rewrite IH. intuition.
Qed.

Lemma insert_key_sorted k l : StronglySorted klt l -> StronglySorted klt (insert_key k l).
Proof.
  induction l as [|p t IH]; intros S; cbn [insert_key]; [repeat constructor|].
  inversion S as [|? ? St F]; subst.
  destruct (bcmp k p) eqn:C.
  - exact S.
  - constructor; [exact S|]. constructor; [exact C|]. rewrite Forall_forall in *. intros q Hq.
    unfold klt. eapply bcmp_lt_trans; [exact C|apply F; exact Hq].
  - constructor; [apply IH; exact St|]. rewrite Forall_forall in *. intros q Hq.
    apply insert_key_in in Hq as [->|Hq]; [apply bcmp_gt_lt; exact C|apply F; exact Hq].
Qed.

Lemma insert_key_present k l : StronglySorted klt l -> In k l -> insert_key k l = l.
Proof.
  induction l as [|p t IH]; intros S I; [contradiction|]. cbn [insert_key].
  inversion S as [|? ? St F]; subst. rewrite Forall_forall in F.
  destruct (bcmp k p) eqn:C; [reflexivity| |].
  - exfalso. destruct I as [->|I]; [rewrite bcmp_refl in C; discriminate|].
    specialize (F k I). unfold klt in F. rewrite (bcmp_lt_trans _ _ _ C F) in *.
    assert (X : bcmp k k = Lt) by (eapply bcmp_lt_trans; eauto). rewrite bcmp_refl in X. discriminate.
  - f_equal. apply IH; [exact St|]. destruct I as [->|I]; [rewrite bcmp_refl in C; discriminate|exact I].
Qed.

Lemma ukeys_sorted {A} (V : list (@vrec A)) : StronglySorted klt (ukeys V).
Proof. induction V as [|x t IH]; [constructor|]. apply insert_key_sorted. exact IH. Qed.

Lemma ukeys_mem {A} (V : list (@vrec A)) k : In k (ukeys V) <-> exists y, In y V /\ vr_key y = k.
Proof.
  induction V as [|x t IH].
  - cbn. split; [intros []|intros (y & [] & _)].
  - change (ukeys (x :: t)) with (insert_key (vr_key x) (ukeys t)). rewrite insert_key_in, IH. split.
    + intros [->|(y & Hy & E)]; [exists x; split; [left|]; reflexivity|exists y; split; [right|]; assumption].
    + intros (y & [->|Hy] & E); [left; symmetry; exact E|right; exists y; split; assumption].
Qed.

(* adding a record above R changes nothing *)
Lemma snapshot_skip (x : vrecb) V R : R < vr_rev x -> snapshot (x :: V) R = snapshot V R.
Proof.
  intros H. rewrite !snapshot_eq, !filter_flat_map.
  assert (Q : forall k, qual R k x = false).
  { intros k. unfold qual. replace (vr_rev x <=? R) with false by lia. rewrite andb_false_r. reflexivity. }
  assert (P : forall k, pick (x :: V) R k = pick V R k).
  { intros k. unfold pick. rewrite newest_skip by apply Q. reflexivity. }
  change (ukeys (x :: V)) with (insert_key (vr_key x) (ukeys V)).
  destruct (in_dec (list_eq_dec N.eq_dec) (vr_key x) (ukeys V)) as [I|NI].
  - rewrite insert_key_present by (try apply ukeys_sorted; exact I).
    apply flat_map_ext_in. intros k _. rewrite P. reflexivity.
  - rewrite flat_map_insert_nil.
    + apply flat_map_ext_in. intros k _. rewrite P. reflexivity.
    + rewrite P. unfold pick. rewrite newest_none; [reflexivity|].
      intros y Hy. unfold qual. destruct (beqb (vr_key y) (vr_key x)) eqn:E; [|reflexivity].
      exfalso. apply NI. apply beqb_eq in E. apply ukeys_mem. exists y; split; assumption.
Qed.
