(* Proofs about the read path, part 2: the worker's output on a sorted store is the snapshot;
   fold splitting at key boundaries; restriction to a key predicate. *)
From KB Require Import Base.Bytes Base.Cases Model.Coder Model.ReadSys Proofs.Coder Proofs.ReadSys.
From Coq Require Import ZifyN ZifyNat ZifyBool.
Local Open Scope N_scope.

Notation vrecb := (@vrec bytes).

(* ---------- newest ---------- *)
Section Newest.
  Context {A : Type}.
  Implicit Types (V : list (@vrec A)) (x : @vrec A).

  Definition qual (R : N) (k : bytes) x : bool := beqb (vr_key x) k && (0 <? vr_rev x) && (vr_rev x <=? R).

  Lemma newest_cons V R k x :
    newest (x :: V) R k =
    if qual R k x then
      match newest V R k with
      | Some (r0, a0) => if vr_rev x <? r0 then Some (r0, a0) else Some (vr_rev x, vr_val x)
      | None => Some (vr_rev x, vr_val x)
      end
    else newest V R k.
  Proof. cbn [newest]. unfold qual. destruct (beqb (vr_key x) k && (0 <? vr_rev x) && (vr_rev x <=? R)); [|reflexivity].
    destruct (newest V R k) as [[r0 a0]|]; reflexivity. Qed.

  Lemma newest_none V R k : (forall y, In y V -> qual R k y = false) -> newest V R k = None.
  Proof.
    induction V as [|x t IH]; intros H; [reflexivity|].
    rewrite newest_cons, (H x (or_introl eq_refl)). apply IH. intros y Hy. apply H. right; exact Hy.
  Qed.

  Lemma newest_skip V R k x : qual R k x = false -> newest (x :: V) R k = newest V R k.
  Proof. intros H. rewrite newest_cons, H. reflexivity. Qed.

  (* the result is a record of the store, and qualifies *)
  Lemma newest_in V R k r a : newest V R k = Some (r, a) -> In (k, r, a) V /\ 0 < r /\ r <= R.
  Proof.
    revert r a; induction V as [|x t IH]; intros r a H; [discriminate|].
    rewrite newest_cons in H. destruct (qual R k x) eqn:Q.
    - unfold qual in Q. apply andb_true_iff in Q as [Q Q3]. apply andb_true_iff in Q as [Q1 Q2].
      apply beqb_eq in Q1.
      assert (Hx : Some (vr_rev x, vr_val x) = Some (r, a) -> In (k, r, a) (x :: t) /\ 0 < r /\ r <= R).
      { intros E. injection E as <- <-. split; [left|lia]. destruct x as [[k' r'] a']. cbn in *. subst. reflexivity. }
      destruct (newest t R k) as [[r0 a0]|] eqn:N0; [|apply Hx; exact H].
      destruct (vr_rev x <? r0); [|apply Hx; exact H].
      injection H as <- <-. destruct (IH _ _ eq_refl) as [I1 I2]. split; [right; exact I1|exact I2].
    - destruct (IH _ _ H) as [I1 I2]. split; [right; exact I1|exact I2].
  Qed.

  Lemma newest_some V R k y : In y V -> qual R k y = true -> exists r a, newest V R k = Some (r, a).
  Proof.
    induction V as [|x t IH]; intros Hy Qy; [contradiction|].
    rewrite newest_cons. destruct Hy as [->|Hy].
    - rewrite Qy. destruct (newest t R k) as [[r0 a0]|]; [destruct (_ <? _)|]; eauto.
    - destruct (IH Hy Qy) as (r & a & E). rewrite E.
      destruct (qual R k x); [destruct (_ <? _)|]; eauto.
  Qed.
  (* the revision found bounds every qualifying revision *)
  Lemma newest_max V R k r a : newest V R k = Some (r, a) -> forall y, In y V -> qual R k y = true -> vr_rev y <= r.
  Proof.
    revert r a; induction V as [|x t IH]; intros r a H y Hy Qy; [contradiction|].
    rewrite newest_cons in H. destruct Hy as [->|Hy].
    - rewrite Qy in H. destruct (newest t R k) as [[r0 a0]|].
      + revert H. destruct (vr_rev y <? r0) eqn:E; intros H; injection H as <- <-; lia.
      + injection H as <- <-. lia.
    - destruct (qual R k x) eqn:Q.
      + destruct (newest t R k) as [[r0 a0]|] eqn:N0.
        * specialize (IH _ _ eq_refl y Hy Qy).
          revert H. destruct (vr_rev x <? r0) eqn:E; intros H; injection H as <- <-; lia.
        * destruct (newest_some t R k y Hy Qy) as (r1 & a1 & E1). congruence.
      + apply (IH _ _ H y Hy Qy).
  Qed.
End Newest.

(* ---------- ukeys and flat_map ---------- *)
Lemma flat_map_insert_nil {B} (f : bytes -> list B) k l : f k = [] -> flat_map f (insert_key k l) = flat_map f l.
Proof.
  intros H. induction l as [|q t IH]; cbn [insert_key flat_map]; [rewrite H; reflexivity|].
  destruct (bcmp k q) eqn:C.
  - reflexivity.
  - cbn [flat_map]. rewrite H. reflexivity.
  - cbn [flat_map]. rewrite IH. reflexivity.
Qed.

Lemma insert_key_min k l : (forall q, In q l -> bcmp k q <> Gt) ->
  insert_key k l = match l with q :: _ => if beqb k q then l else k :: l | [] => [k] end.
Proof.
  destruct l as [|q t]; intros H; [reflexivity|]. cbn [insert_key]. unfold beqb.
  specialize (H q (or_introl eq_refl)). destruct (bcmp k q); congruence.
Qed.

Lemma ukeys_in {A} (V : list (@vrec A)) k : In k (ukeys V) -> exists y, In y V /\ vr_key y = k.
Proof.
  induction V as [|x t IH]; cbn [ukeys fold_right]; [contradiction|]. fold (ukeys t).
  intros H.
  assert (G : forall l, In k (insert_key (vr_key x) l) -> k = vr_key x \/ In k l).
  { clear. induction l as [|q l IHl]; cbn [insert_key]; intros H.
    - destruct H as [<-|[]]; auto.
    - destruct (bcmp (vr_key x) q); cbn [In] in *; intuition. }
  destruct (G _ H) as [->|H']; [exists x; split; [left|]; reflexivity|].
  destruct (IH H') as (y & Hy & E). exists y; split; [right; exact Hy|exact E].
Qed.

(* in a sorted store the first record's key is the smallest, so it heads ukeys *)
Lemma sorted_key_le {A} (x : @vrec A) t : StronglySorted vr_lt (x :: t) -> forall y, In y t -> bcmp (vr_key x) (vr_key y) <> Gt.
Proof.
  intros S y Hy. inversion S as [|? ? _ F]; subst. rewrite Forall_forall in F. apply vr_lt_key. apply F; exact Hy.
Qed.

Lemma ukeys_cons_sorted {A} (x : @vrec A) t : StronglySorted vr_lt (x :: t) ->
  ukeys (x :: t) = match ukeys t with q :: _ => if beqb (vr_key x) q then ukeys t else vr_key x :: ukeys t | [] => [vr_key x] end.
Proof.
  intros S. change (ukeys (x :: t)) with (insert_key (vr_key x) (ukeys t)).
  apply insert_key_min. intros q Hq. destruct (ukeys_in _ _ Hq) as (y & Hy & <-).
  eapply sorted_key_le; eauto.
Qed.

Lemma ukeys_head_sorted {A} (x : @vrec A) t : StronglySorted vr_lt (x :: t) -> exists u, ukeys (x :: t) = vr_key x :: u.
Proof.
  intros S. rewrite (ukeys_cons_sorted x t S). destruct (ukeys t) as [|q u]; [eauto|].
  destruct (beqb (vr_key x) q) eqn:E; [|eauto]. apply beqb_eq in E; subst. eauto.
Qed.

(* ---------- snapshot of (p :: V) = worker output from prev = p ---------- *)
Definition pick {A} (V : list (@vrec A)) (R : N) (k : bytes) : list (bytes * A * N) :=
  match newest V R k with Some (r, a) => [(k, a, r)] | None => [] end.

Lemma newest_all_eq {A} (V : list (@vrec A)) R : newest_all V R = flat_map (pick V R) (ukeys V).
Proof. reflexivity. Qed.

Definition not_tomb (x : okv) : bool := negb (beqb (okv_val x) tombstone).
Lemma snapshot_eq V R : snapshot V R = filter not_tomb (flat_map (pick V R) (ukeys V)).
Proof. reflexivity. Qed.

Lemma filter_flat_map {A B} (p : B -> bool) (f : A -> list B) l :
  filter p (flat_map f l) = flat_map (fun x => filter p (f x)) l.
Proof. induction l as [|x l IH]; cbn; [reflexivity|]. rewrite filter_app, IH. reflexivity. Qed.

Lemma flat_map_ext_in {A B} (f g : A -> list B) l : (forall x, In x l -> f x = g x) -> flat_map f l = flat_map g l.
Proof. induction l as [|x l IH]; intros H; cbn; [reflexivity|]. rewrite (H x (or_introl eq_refl)), IH; [reflexivity|]. intros y Hy; apply H; right; exact Hy. Qed.

(* ukeys is strictly sorted *)
Definition klt (a b : bytes) : Prop := bcmp a b = Lt.

Lemma insert_key_in k l q : In q (insert_key k l) <-> q = k \/ In q l.
Proof.
  induction l as [|p t IH]; cbn [insert_key In]; [intuition|].
  destruct (bcmp k p) eqn:C; cbn [In].
  - apply bcmp_eq in C; subst. intuition.
  - intuition.
  - rewrite IH. intuition.
Qed.

Lemma insert_key_sorted k l : StronglySorted klt l -> StronglySorted klt (insert_key k l).
Proof.
  induction l as [|p t IH]; intros S; cbn [insert_key]; [repeat constructor|].
  inversion S as [|? ? St F]; subst.
  destruct (bcmp k p) eqn:C.
  - exact S.
  - constructor; [exact S|]. constructor; [exact C|]. rewrite Forall_forall in *. intros q Hq.
    unfold klt. eapply bcmp_lt_trans; [exact C|apply F; exact Hq].
  - constructor; [apply IH; exact St|]. rewrite Forall_forall in *. intros q Hq.
    apply insert_key_in in Hq as [->|Hq]; [apply bcmp_gt_lt; exact C|apply F; exact Hq].
Qed.

Lemma insert_key_present k l : StronglySorted klt l -> In k l -> insert_key k l = l.
Proof.
  induction l as [|p t IH]; intros S I; [contradiction|]. cbn [insert_key].
  inversion S as [|? ? St F]; subst. rewrite Forall_forall in F.
  destruct (bcmp k p) eqn:C; [reflexivity| |].
  - exfalso. destruct I as [->|I]; [rewrite bcmp_refl in C; discriminate|].
    specialize (F k I). unfold klt in F.
    assert (X : bcmp k k = Lt) by (eapply bcmp_lt_trans; eauto). rewrite bcmp_refl in X. discriminate.
  - f_equal. apply IH; [exact St|]. destruct I as [->|I]; [rewrite bcmp_refl in C; discriminate|exact I].
Qed.

Lemma ukeys_sorted {A} (V : list (@vrec A)) : StronglySorted klt (ukeys V).
Proof. induction V as [|x t IH]; [constructor|]. apply insert_key_sorted. exact IH. Qed.

Lemma ukeys_mem {A} (V : list (@vrec A)) k : In k (ukeys V) <-> exists y, In y V /\ vr_key y = k.
Proof.
  induction V as [|x t IH].
  - cbn. split; [intros []|intros (y & [] & _)].
  - change (ukeys (x :: t)) with (insert_key (vr_key x) (ukeys t)). rewrite insert_key_in, IH. split.
    + intros [->|(y & Hy & E)]; [exists x; split; [left|]; reflexivity|exists y; split; [right|]; assumption].
    + intros (y & [->|Hy] & E); [left; symmetry; exact E|right; exists y; split; assumption].
Qed.

(* adding a record above R changes nothing *)
Lemma snapshot_skip (x : vrecb) V R : R < vr_rev x -> snapshot (x :: V) R = snapshot V R.
Proof.
  intros H. rewrite !snapshot_eq, !filter_flat_map.
  assert (Q : forall k, qual R k x = false).
  { intros k. unfold qual. replace (vr_rev x <=? R) with false by lia. rewrite andb_false_r. reflexivity. }
  assert (P : forall k, pick (x :: V) R k = pick V R k).
  { intros k. unfold pick. rewrite newest_skip by apply Q. reflexivity. }
  change (ukeys (x :: V)) with (insert_key (vr_key x) (ukeys V)).
  destruct (in_dec (list_eq_dec N.eq_dec) (vr_key x) (ukeys V)) as [I|NI].
  - rewrite insert_key_present by (try apply ukeys_sorted; exact I).
    apply flat_map_ext_in. intros k _. rewrite P. reflexivity.
  - rewrite flat_map_insert_nil.
    + apply flat_map_ext_in. intros k _. rewrite P. reflexivity.
    + rewrite P. unfold pick. rewrite newest_none; [reflexivity|].
      intros y Hy. unfold qual. destruct (beqb (vr_key y) (vr_key x)) eqn:E; [|reflexivity].
      exfalso. apply NI. apply beqb_eq in E. apply ukeys_mem. exists y; split; assumption.
Qed.

(* flat_map over two strictly sorted key lists, one included in the other, extra keys contributing nothing *)
Lemma flat_map_sorted_incl {B} (f : bytes -> list B) : forall l2 l1,
  StronglySorted klt l1 -> StronglySorted klt l2 ->
  (forall k, In k l1 -> In k l2) -> (forall k, In k l2 -> ~ In k l1 -> f k = []) ->
  flat_map f l1 = flat_map f l2.
Proof.
  induction l2 as [|q t2 IH]; intros l1 S1 S2 I E.
  - destruct l1 as [|h t1]; [reflexivity|]. destruct (I h (or_introl eq_refl)).
  - inversion S2 as [|? ? S2t F2]; subst. rewrite Forall_forall in F2.
    destruct (in_dec (list_eq_dec N.eq_dec) q l1) as [Hq|Hq].
    + destruct l1 as [|h t1]; [contradiction|].
      inversion S1 as [|? ? S1t F1]; subst. rewrite Forall_forall in F1.
      assert (h = q).
      { destruct Hq as [->|Hq]; [reflexivity|].
        specialize (F1 q Hq). destruct (I h (or_introl eq_refl)) as [->|Hh]; [reflexivity|].
        specialize (F2 h Hh). unfold klt in *.
        assert (X : bcmp h h = Lt) by (eapply bcmp_lt_trans; eauto). rewrite bcmp_refl in X. discriminate. }
      subst h. cbn [flat_map]. f_equal. apply IH; try assumption.
      * intros k Hk. destruct (I k (or_intror Hk)) as [->|Hk']; [|exact Hk'].
        specialize (F1 _ Hk). unfold klt in F1. rewrite bcmp_refl in F1. discriminate.
      * intros k Hk NI. apply E; [right; exact Hk|]. intros [->|Hk']; [|contradiction].
        specialize (F2 _ Hk). unfold klt in F2. rewrite bcmp_refl in F2. discriminate.
    + cbn [flat_map]. rewrite (E q (or_introl eq_refl) Hq). cbn [app]. apply IH; try assumption.
      * intros k Hk. destruct (I k Hk) as [->|Hk']; [contradiction|exact Hk'].
      * intros k Hk NI. apply E; [right; exact Hk|exact NI].
Qed.

Lemma snapshot_incl (V V' : list vrecb) R :
  (forall k, pick V R k = pick V' R k) ->
  (forall y, In y V -> exists y', In y' V' /\ vr_key y' = vr_key y) ->
  (forall y', In y' V' -> (exists y, In y V /\ vr_key y = vr_key y') \/ pick V' R (vr_key y') = []) ->
  snapshot V R = snapshot V' R.
Proof.
  intros P I E. rewrite !snapshot_eq. f_equal.
  rewrite (flat_map_ext_in (pick V R) (pick V' R)) by (intros; apply P).
  apply flat_map_sorted_incl; try apply ukeys_sorted.
  - intros k Hk. apply ukeys_mem in Hk as (y & Hy & <-). apply ukeys_mem. destruct (I y Hy) as (y' & Hy' & Ey). eauto.
  - intros k Hk NI. apply ukeys_mem in Hk as (y' & Hy' & <-).
    destruct (E y' Hy') as [(y & Hy & Ey)|N]; [|exact N]. exfalso. apply NI. apply ukeys_mem. eauto.
Qed.

(* a record above R anywhere in the store is invisible *)
Lemma snapshot_skip2 (p x : vrecb) V R : R < vr_rev x -> snapshot (p :: x :: V) R = snapshot (p :: V) R.
Proof.
  intros H. symmetry.
  assert (Q : forall k, qual R k x = false).
  { intros k. unfold qual. replace (vr_rev x <=? R) with false by lia. rewrite andb_false_r. reflexivity. }
  assert (P : forall k, pick (p :: V) R k = pick (p :: x :: V) R k).
  { intros k. unfold pick. rewrite !(newest_cons _ R k p). rewrite (newest_skip V R k x (Q k)). reflexivity. }
  apply snapshot_incl.
  - exact P.
  - intros y [->|Hy]; [exists y; split; [left|]; reflexivity|exists y; split; [right; right; exact Hy|reflexivity]].
  - intros y' [->|[->|Hy]].
    + left. exists y'; split; [left|]; reflexivity.
    + destruct (in_dec (list_eq_dec N.eq_dec) (vr_key y') (map vr_key (p :: V))) as [I|NI].
      * left. apply in_map_iff in I as (y & E & Hy). eauto.
      * right. rewrite <- P. unfold pick. rewrite newest_none; [reflexivity|].
        intros z Hz. unfold qual. destruct (beqb (vr_key z) (vr_key y')) eqn:E; [|reflexivity].
        exfalso. apply NI. apply beqb_eq in E. rewrite <- E. apply in_map. exact Hz.
    + left. exists y'; split; [right; exact Hy|reflexivity].
Qed.

Lemma newest_head_ge {A} (x : @vrec A) t R k : qual R k x = true ->
  exists r0 a0, newest (x :: t) R k = Some (r0, a0) /\ vr_rev x <= r0.
Proof.
  intros Q. rewrite newest_cons, Q. destruct (newest t R k) as [[r0 a0]|].
  - destruct (vr_rev x <? r0) eqn:E; eexists _, _; split; try reflexivity; lia.
  - eexists _, _; split; [reflexivity|lia].
Qed.

(* main lemma: the loop started with prev = p over the sorted rest yields the snapshot of p :: V *)
Lemma wrun_snapshot R : forall V p, StronglySorted vr_lt (p :: V) -> vr_rev p <= R -> wrun R p V = snapshot (p :: V) R.
Proof.
  induction V as [|x t IH]; intros p S Hp.
  - cbn [wrun]. rewrite snapshot_eq. cbn [ukeys fold_right insert_key flat_map]. rewrite app_nil_r.
    unfold pick. rewrite newest_cons. cbn [newest]. unfold qual. rewrite beqb_refl.
    replace (vr_rev p <=? R) with true by lia. rewrite andb_true_r. cbn [andb].
    unfold emit_of, live. destruct (0 <? vr_rev p); cbn [andb filter]; [|reflexivity].
    unfold not_tomb, okv_val. cbn [fst snd]. destruct (negb (beqb (vr_val p) tombstone)); reflexivity.
  - cbn [wrun].
    assert (Spt : StronglySorted vr_lt (p :: t)).
    { inversion S as [|? ? S' F]; subst. inversion S' as [|? ? S'' F']; subst. inversion F; subst. constructor; assumption. }
    assert (Sxt : StronglySorted vr_lt (x :: t)) by (inversion S; assumption).
    assert (Lpx : vr_lt p x) by (inversion S as [|? ? ? F]; subst; inversion F; assumption).
    destruct (R <? vr_rev x) eqn:ER.
    + rewrite snapshot_skip2 by lia. apply IH; assumption.
    + rewrite (IH x Sxt ltac:(lia)).
      rewrite !snapshot_eq.
      destruct (ukeys_head_sorted x t Sxt) as [u Eu].
      rewrite (ukeys_cons_sorted p (x :: t) S), Eu. rewrite <- Eu.
      rewrite (beqb_sym (vr_key x) (vr_key p)).
      destruct (beqb (vr_key p) (vr_key x)) eqn:EK.
      * apply beqb_eq in EK. cbn [app]. f_equal. apply flat_map_ext_in. intros k _.
        unfold pick. rewrite (newest_cons (x :: t) R k p).
        destruct (qual R k p) eqn:Q; [|reflexivity].
        assert (Qx : qual R k x = true).
        { unfold qual in *. apply andb_true_iff in Q as [Q _]. apply andb_true_iff in Q as [Q1 _].
          apply beqb_eq in Q1. rewrite <- EK, Q1, beqb_refl. pose proof (vr_lt_samekey p x Lpx EK). cbn [andb].
          replace (0 <? vr_rev x) with true by lia. replace (vr_rev x <=? R) with true by lia. reflexivity. }
        destruct (newest_head_ge x t R k Qx) as (r0 & a0 & E0 & G). rewrite E0.
        pose proof (vr_lt_samekey p x Lpx EK). replace (vr_rev p <? r0) with true by lia. reflexivity.
      * apply beqb_neq in EK. cbn [flat_map]. rewrite filter_app. f_equal.
        -- unfold pick. rewrite newest_cons. unfold qual at 1. rewrite beqb_refl.
           replace (vr_rev p <=? R) with true by lia. rewrite andb_true_r. cbn [andb].
           rewrite (newest_none (x :: t) R (vr_key p)).
           ++ unfold emit_of, live. destruct (0 <? vr_rev p); cbn [andb filter]; [|reflexivity].
              unfold not_tomb, okv_val. cbn [fst snd]. destruct (negb (beqb (vr_val p) tombstone)); reflexivity.
           ++ intros y Hy. unfold qual. replace (beqb (vr_key y) (vr_key p)) with false; [reflexivity|].
              symmetry. apply beqb_neq. intros E.
              pose proof (vr_lt_diffkey p x Lpx EK) as C1.
              destruct Hy as [->|Hy]; [congruence|].
              pose proof (sorted_key_le x t Sxt y Hy) as C2.
              rewrite E in C2. apply C2. apply bcmp_gt_lt. exact C1.
        -- f_equal. apply flat_map_ext_in. intros k Hk.
           unfold pick. rewrite (newest_cons (x :: t) R k p).
           replace (qual R k p) with false; [reflexivity|].
           symmetry. unfold qual. replace (beqb (vr_key p) k) with false; [reflexivity|].
           symmetry. apply beqb_neq. intros <-.
           apply ukeys_mem in Hk as (y & Hy & E).
           pose proof (vr_lt_diffkey p x Lpx EK) as C1.
           destruct Hy as [->|Hy]; [congruence|].
           pose proof (sorted_key_le x t Sxt y Hy) as C2.
           rewrite E in C2. apply C2. apply bcmp_gt_lt. exact C1.
Qed.

Lemma snapshot_nil R : snapshot [] R = [].
Proof. reflexivity. Qed.

Theorem wrun_top_snapshot R : forall V, StronglySorted vr_lt V -> wrun_top R V = snapshot V R.
Proof.
  induction V as [|x t IH]; intros S; [reflexivity|].
  cbn [wrun_top]. destruct (R <? vr_rev x) eqn:E.
  - rewrite snapshot_skip by lia. apply IH. inversion S; assumption.
  - apply wrun_snapshot; [exact S|lia].
Qed.

(* ---------- fold splitting (C13_split, pure form) ---------- *)
Lemma wrun_flush R p : forall V2, (forall z, In z V2 -> vr_key z <> vr_key p) -> wrun R p V2 = emit_of p ++ wrun_top R V2.
Proof.
  induction V2 as [|x t IH]; intros D; cbn [wrun wrun_top]; [rewrite app_nil_r; reflexivity|].
  destruct (R <? vr_rev x); [apply IH; intros z Hz; apply D; right; exact Hz|].
  replace (beqb (vr_key x) (vr_key p)) with false; [reflexivity|].
  symmetry. apply beqb_neq. apply D. left; reflexivity.
Qed.

Lemma wrun_split R : forall V1 p V2, (forall y z, In y (p :: V1) -> In z V2 -> vr_key z <> vr_key y) ->
  wrun R p (V1 ++ V2) = wrun R p V1 ++ wrun_top R V2.
Proof.
  induction V1 as [|x t IH]; intros p V2 D.
  - cbn [app wrun]. apply wrun_flush. intros z Hz. apply (D p z); [left; reflexivity|exact Hz].
  - cbn [app wrun]. destruct (R <? vr_rev x).
    + apply IH. intros y z Hy Hz. apply D; [|exact Hz]. destruct Hy as [->|Hy]; [left; reflexivity|right; right; exact Hy].
    + rewrite <- app_assoc. f_equal. apply IH. intros y z Hy Hz. apply D; [right; exact Hy|exact Hz].
Qed.

Theorem wrun_top_split R : forall V1 V2, (forall y z, In y V1 -> In z V2 -> vr_key z <> vr_key y) ->
  wrun_top R (V1 ++ V2) = wrun_top R V1 ++ wrun_top R V2.
Proof.
  induction V1 as [|x t IH]; intros V2 D; [reflexivity|].
  cbn [app wrun_top]. destruct (R <? vr_rev x).
  - apply IH. intros y z Hy Hz. apply D; [right; exact Hy|exact Hz].
  - apply wrun_split. exact D.
Qed.

(* ---------- restriction to a predicate on keys ---------- *)
Definition kfilter (P : bytes -> bool) (V : list vrecb) : list vrecb := filter (fun x => P (vr_key x)) V.
Definition ofilter (P : bytes -> bool) (l : list okv) : list okv := filter (fun x => P (okv_key x)) l.

Lemma ofilter_emit P p : ofilter P (emit_of p) = if P (vr_key p) then emit_of p else [].
Proof. unfold emit_of. destruct (live p); cbn; [|destruct (P (vr_key p)); reflexivity]. unfold okv_key; cbn. destruct (P (vr_key p)); reflexivity. Qed.

Lemma wrun_kfilter R P : forall V p, StronglySorted vr_lt (p :: V) ->
  ofilter P (wrun R p V) = if P (vr_key p) then wrun R p (kfilter P V) else wrun_top R (kfilter P V).
Proof.
  induction V as [|x t IH]; intros p S.
  - cbn [wrun kfilter filter wrun_top]. rewrite ofilter_emit. reflexivity.
  - assert (Spt : StronglySorted vr_lt (p :: t)).
    { inversion S as [|? ? S' F]; subst. inversion S' as [|? ? S'' F']; subst. inversion F; subst. constructor; assumption. }
    assert (Sxt : StronglySorted vr_lt (x :: t)) by (inversion S; assumption).
    assert (Lpx : vr_lt p x) by (inversion S as [|? ? ? F]; subst; inversion F; assumption).
    cbn [wrun kfilter filter]. fold (kfilter P t).
    destruct (R <? vr_rev x) eqn:ER.
    + rewrite (IH p Spt). destruct (P (vr_key x)); cbn [wrun wrun_top]; rewrite ?ER; reflexivity.
    + unfold ofilter. rewrite filter_app. fold (ofilter P (wrun R x t)). rewrite (IH x Sxt).
      destruct (P (vr_key p)) eqn:Pp; destruct (P (vr_key x)) eqn:Px; cbn [wrun wrun_top]; rewrite ?ER.
      * f_equal. destruct (beqb (vr_key x) (vr_key p)); [reflexivity|].
        fold (ofilter P (emit_of p)). rewrite ofilter_emit, Pp. reflexivity.
      * assert (NE : vr_key p <> vr_key x) by (intros E; rewrite E in Pp; congruence).
        replace (beqb (vr_key x) (vr_key p)) with false by (symmetry; apply beqb_neq; congruence).
        fold (ofilter P (emit_of p)). rewrite ofilter_emit, Pp.
        symmetry. apply wrun_flush. intros z Hz E.
        unfold kfilter in Hz. apply filter_In in Hz as [Hz _].
        pose proof (vr_lt_diffkey p x Lpx NE) as C1.
        pose proof (sorted_key_le x t Sxt z Hz) as C2.
        rewrite E in C2. apply C2. apply bcmp_gt_lt. exact C1.
      * assert (NE : vr_key x <> vr_key p) by (intros E; rewrite E in Px; congruence).
        replace (beqb (vr_key x) (vr_key p)) with false by (symmetry; apply beqb_neq; exact NE).
        fold (ofilter P (emit_of p)). rewrite ofilter_emit, Pp. reflexivity.
      * destruct (beqb (vr_key x) (vr_key p)); [reflexivity|].
        fold (ofilter P (emit_of p)). rewrite ofilter_emit, Pp. reflexivity.
Qed.

Theorem wrun_top_kfilter R P : forall V, StronglySorted vr_lt V -> ofilter P (wrun_top R V) = wrun_top R (kfilter P V).
Proof.
  induction V as [|x t IH]; intros S; [reflexivity|].
  cbn [wrun_top kfilter filter]. fold (kfilter P t).
  destruct (R <? vr_rev x) eqn:ER.
  - rewrite IH by (inversion S; assumption). destruct (P (vr_key x)); cbn [wrun_top]; rewrite ?ER; reflexivity.
  - rewrite (wrun_kfilter R P t x S). destruct (P (vr_key x)); cbn [wrun_top]; rewrite ?ER; reflexivity.
Qed.

Lemma kfilter_sorted P V : StronglySorted vr_lt V -> StronglySorted vr_lt (kfilter P V).
Proof.
  induction V as [|x t IH]; intros S; [constructor|].
  inversion S as [|? ? St F]; subst. cbn [kfilter filter]. fold (kfilter P t).
  destruct (P (vr_key x)); [|apply IH; exact St].
  constructor; [apply IH; exact St|]. rewrite Forall_forall in *. intros y Hy.
  apply F. unfold kfilter in Hy. apply filter_In in Hy. tauto.
Qed.

(* the snapshot restricted to a set of keys is the snapshot of the records of those keys *)
Theorem snapshot_kfilter P V R : StronglySorted vr_lt V -> ofilter P (snapshot V R) = snapshot (kfilter P V) R.
Proof.
  intros S. rewrite <- !wrun_top_snapshot by (try apply kfilter_sorted; exact S). apply wrun_top_kfilter. exact S.
Qed.
