(* Soundness of the C09 correspondence oracle, clause by clause: on every observation the model itself produces
   (c09_check c = true) the oracle's clauses hold, each derived from the theorem that implies it. *)
From KB Require Import Base.Cases Model.RetrySys Model.C09Cases
  Proofs.RetryBase Proofs.RetryInv1 Proofs.RetryInv2 Proofs.RetryProps Proofs.RetryInv3 Proofs.RetryInvX.
Local Open Scope N_scope.

(* ---------- the boolean equalities of the check reflect equality ---------- *)
Lemma beqb_true a b : beqb a b = true -> a = b.
Proof. unfold beqb. destruct (bcmp a b) eqn:E; try discriminate. intros _. apply bcmp_eq. exact E. Qed.

Lemma list_eqb_eq {A} (eqb : A -> A -> bool) (H : forall a b, eqb a b = true -> a = b) :
  forall x y, list_eqb eqb x y = true -> x = y.
Proof.
  induction x as [|a x IH]; intros [|b y]; simpl; try discriminate; [reflexivity|].
  intros E. apply andb_true_iff in E as [E1 E2]. f_equal; [apply H; exact E1|apply IH; exact E2].
Qed.

Lemma kvo_eqb_eq a b : kvo_eqb a b = true -> a = b.
Proof.
  destruct a as [[v r]|], b as [[v' r']|]; simpl; try discriminate; [|reflexivity].
  intros E. apply andb_true_iff in E as [E1 E2]. apply beqb_true in E1. apply N.eqb_eq in E2. simpl in *. congruence.
Qed.

Lemma resp_eqb_eq a b : resp_eqb a b = true -> a = b.
Proof.
  destruct a, b; simpl; try discriminate; intros E.
  - apply andb_true_iff in E as [E1 E2]. apply N.eqb_eq in E1. apply kvo_eqb_eq in E2. congruence.
  - apply andb_true_iff in E as [E1 E2]. apply N.eqb_eq in E1. apply kvo_eqb_eq in E2. congruence.
  - apply Bool.eqb_prop in E. congruence.
  - apply N.eqb_eq in E. congruence.
Qed.

Lemma rstate_eqb_eq a b : rstate_eqb a b = true -> a = b.
Proof. destruct a, b; simpl; try discriminate; reflexivity. Qed.

Lemma kvr_eqb_eq a b : kvr_eqb a b = true -> a = b.
Proof.
  destruct a as [[k v] r], b as [[k' v'] r']. unfold kvr_eqb. simpl. intros E.
  apply andb_true_iff in E as [E E3]. apply andb_true_iff in E as [E1 E2].
  apply N.eqb_eq in E1, E3. apply beqb_true in E2. congruence.
Qed.

Lemma dobs_eqb_eq a b : dobs_eqb a b = true -> a = b.
Proof.
  destruct a, b; simpl; try discriminate; intros E.
  - apply andb_true_iff in E as [E1 E2]. apply resp_eqb_eq in E1. apply Bool.eqb_prop in E2. congruence.
  - apply rstate_eqb_eq in E. congruence.
  - apply andb_true_iff in E as [E1 E2]. apply N.eqb_eq in E1. apply (list_eqb_eq _ kvr_eqb_eq) in E2. congruence.
  - reflexivity.
Qed.

Lemma obs_eqb_eq a b : obs_eqb a b = true -> a = b.
Proof.
  destruct a, b. unfold obs_eqb. simpl. intros E. apply andb_true_iff in E as [E E3]. apply andb_true_iff in E as [E1 E2].
  apply dobs_eqb_eq in E1. apply N.eqb_eq in E2, E3. congruence.
Qed.

Lemma verb_eqb_eq a b : verb_eqb a b = true -> a = b.
Proof. destruct a, b; simpl; try discriminate; reflexivity. Qed.

Lemma evobs_eqb_eq a b : evobs_eqb a b = true -> a = b.
Proof.
  destruct a as [[[[v k] x] r] p], b as [[[[v' k'] x'] r'] p']. simpl. intros E.
  repeat (apply andb_true_iff in E as [E ?]).
  apply verb_eqb_eq in E. apply N.eqb_eq in H, H0, H2. apply beqb_true in H1. congruence.
Qed.

(* what the check establishes: the recorded observation is the model's *)
Lemma check_spec c : c09_check c = true ->
  c_obs c = snd (script_run minit (c_script c)) /\
  c_events c = map ev_obs (rev (s_events (m_s (fst (script_run minit (c_script c)))))).
Proof.
  unfold c09_check, model_obs. destruct (script_run minit (c_script c)) as [m os]. simpl. intros E.
  apply andb_true_iff in E as [E1 E2].
  apply (list_eqb_eq _ obs_eqb_eq) in E1. apply (list_eqb_eq _ evobs_eqb_eq) in E2. auto.
Qed.

(* ---------- macro steps are runs of well-formed labels ---------- *)
Definition leads (s s' : state) : Prop := exists ls, Forall wf_label ls /\ s' = run s ls.

Lemma leads_refl s : leads s s.
Proof. exists []. split; [constructor|reflexivity]. Qed.
Lemma leads_trans a b c : leads a b -> leads b c -> leads a c.
Proof.
  intros [l1 [W1 ->]] [l2 [W2 ->]]. exists (l1 ++ l2). split; [apply Forall_app; auto|]. symmetry. apply run_app.
Qed.
Lemma leads_step s l : wf_label l -> leads s (step s l).
Proof. intros W. exists [l]. split; [constructor; [exact W|constructor]|reflexivity]. Qed.
Lemma leads_reach q s s' : reach q s -> leads s s' -> reach q s'.
Proof. intros R [ls [W ->]]. apply reach_run; assumption. Qed.

Definition envs_wf (envs : list env) : Prop := Forall (fun e => env_ocas e = false) envs.

Lemma run_thread_leads fuel : forall t envs gerr s, envs_wf envs -> leads s (run_thread fuel t envs gerr s).
Proof.
  induction fuel as [|fuel IH]; intros t envs gerr s W; simpl; [apply leads_refl|].
  destruct (pc_of s t) as [[op p]|]; [|apply leads_refl].
  assert (Ok : forall e, env_ocas e = false -> forall envs' g, envs_wf envs' ->
               leads s (run_thread fuel t envs' g (step s (LThread t e)))).
  { intros e He envs' g W'. eapply leads_trans; [apply (leads_step s (LThread t e)); exact He|apply IH; exact W']. }
  destruct p; try (apply Ok; [reflexivity|exact W]); try apply leads_refl.
  - destruct op; try (apply Ok; [reflexivity|exact W]). apply Ok; [destruct gerr; reflexivity|exact W].
  - destruct envs as [|e envs']; [apply Ok; [reflexivity|exact W]|].
    inversion W; subst. apply Ok; assumption.
  - apply Ok; [destruct gerr; reflexivity|exact W].
Qed.

Lemma settle_leads fuel : forall held s, leads s (settle fuel held s).
Proof.
  induction fuel as [|fuel IH]; intros held s; simpl; [apply leads_refl|].
  assert (Ok : leads s (settle fuel held (step s LSeq))) by (eapply leads_trans; [apply (leads_step s LSeq); exact I|apply IH]).
  destruct (s_seq s) as [|ev|ev]; try exact Ok.
  - destruct (s_slots s (s_committed s + 1)); [exact Ok|apply leads_refl].
  - destruct held as [r|]; [|exact Ok]. destruct (r =? e_rev ev); [apply leads_refl|exact Ok].
Qed.

Definition renv_wf (e : env) : Prop := env_ocas e = false /\ e <> EnvAbort.

Lemma retry_env_wf s e gerr : renv_wf e -> wf_label (LRetry (retry_env s e gerr)).
Proof.
  intros W. unfold retry_env. destruct (s_retry s); try (split; [reflexivity|discriminate]); [|exact W].
  destruct gerr; split; try reflexivity; discriminate.
Qed.

Lemma run_retry_leads fuel : forall e gerr s, renv_wf e -> leads s (run_retry fuel e gerr s).
Proof.
  induction fuel as [|fuel IH]; intros e gerr s W; [apply leads_refl|].
  pose proof (leads_step s _ (retry_env_wf s e gerr W)) as L1.
  change (run_retry (S fuel) e gerr s) with
    (match s_retry (step s (LRetry (retry_env s e gerr))) with
     | RIdle => step s (LRetry (retry_env s e gerr))
     | _ => run_retry fuel e gerr (step s (LRetry (retry_env s e gerr))) end).
  set (s1 := step s (LRetry (retry_env s e gerr))) in *.
  destruct (s_retry s1); try exact L1; (eapply leads_trans; [exact L1|apply IH; exact W]).
Qed.

Lemma renv_ok : renv_wf EnvOk. Proof. split; [reflexivity|discriminate]. Qed.

Lemma run_retry_get_leads fuel : forall gerr s, leads s (run_retry_get fuel gerr s).
Proof.
  induction fuel as [|fuel IH]; intros gerr s; [apply leads_refl|].
  pose proof (leads_step s _ (retry_env_wf s EnvOk gerr renv_ok)) as L1.
  change (run_retry_get (S fuel) gerr s) with
    (match s_retry (step s (LRetry (retry_env s EnvOk gerr))) with
     | RIdle => step s (LRetry (retry_env s EnvOk gerr))
     | RCommit _ _ _ => step s (LRetry (retry_env s EnvOk gerr))
     | _ => run_retry_get fuel gerr (step s (LRetry (retry_env s EnvOk gerr))) end).
  set (s1 := step s (LRetry (retry_env s EnvOk gerr))) in *.
  destruct (s_retry s1); try exact L1; (eapply leads_trans; [exact L1|apply IH]).
Qed.

(* well-formed script steps: inside the oracle's assumptions (not step_outside), and no repair commit answered with a bare abort *)
Definition dstep_wf (d : dstep) : Prop :=
  step_outside d = false /\
  match d with DRetry e _ | DRetryFinish e => e <> EnvAbort | _ => True end.

Lemma dstep_wf_write op envs g h : dstep_wf (DWrite op envs g h) -> envs_wf envs /\ op_wf op.
Proof.
  intros [H _]. simpl in H. apply orb_false_iff in H as [H1 H2]. split.
  - unfold envs_wf. apply Forall_forall. intros e He. destruct (env_ocas e) eqn:E; [|reflexivity].
    exfalso. assert (existsb env_ocas envs = true) by (apply existsb_exists; eauto). congruence.
  - unfold op_wf. destruct (op_value op); [exact H2|exact I].
Qed.

Lemma dstep_run_leads m d : dstep_wf d -> leads (m_s m) (m_s (fst (dstep_run m d))).
Proof.
  intros W. destruct d; simpl.
  - destruct (dstep_wf_write _ _ _ _ W) as [We Wo].
    eapply leads_trans; [apply (leads_step _ (LInvoke (m_tid m) op)); exact Wo|]. eapply leads_trans; [apply run_thread_leads; exact We|apply settle_leads].
  - apply (leads_step _ (LTick d)). exact I.
  - destruct W as [W1 W2]. simpl in W1. eapply leads_trans; [apply run_retry_leads; split; assumption|apply settle_leads].
  - eapply leads_trans; [apply run_retry_get_leads|apply settle_leads].
  - destruct W as [W1 W2]. simpl in W1. destruct (s_retry (m_s m)); try apply leads_refl.
    simpl. eapply leads_trans; [apply run_retry_leads; split; assumption|apply settle_leads].
  - eapply leads_trans; [apply (leads_step _ (LInvoke (m_tid m) (OCompact r))); exact I|]. eapply leads_trans; [apply run_thread_leads; constructor|apply settle_leads].
  - apply leads_refl.
  - apply settle_leads.
Qed.

Lemma script_run_leads ds : forall m, Forall dstep_wf ds -> leads (m_s m) (m_s (fst (script_run m ds))).
Proof.
  induction ds as [|d ds IH]; intros m W; simpl; [apply leads_refl|]. inversion W; subst.
  pose proof (dstep_run_leads m d H1) as L1. destruct (dstep_run m d) as [m1 o]. simpl in L1.
  specialize (IH m1 H2). destruct (script_run m1 ds) as [m2 os]. simpl in *. eapply leads_trans; eassumption.
Qed.

(* ---------- clause (1): error class, from C09_error_class ---------- *)
Lemma resp_of_class q s t s' : reach q s -> class_ok (mk_obs (resp_of s t) s') = true.
Proof.
  intros R. unfold class_ok, mk_obs, resp_of. cbn [o_d]. destruct (get_thread t (s_threads s)) as [th|] eqn:G; [|reflexivity].
  destruct (t_pc th) eqn:P; try reflexivity. destruct (t_unk th) eqn:U; [|reflexivity].
  pose proof (reach_unk q s R t th G U) as K. rewrite P in K. subst r. reflexivity.
Qed.

Lemma dstep_class q m d : reach q (m_s m) -> dstep_wf d -> class_ok (snd (dstep_run m d)) = true.
Proof.
  intros R W. destruct d; try reflexivity.
  - destruct (dstep_wf_write _ _ _ _ W) as [We Wo]. cbn [dstep_run snd]. apply (resp_of_class q).
    eapply leads_reach; [exact R|]. eapply leads_trans; [apply (leads_step _ (LInvoke (m_tid m) op)); exact Wo|apply run_thread_leads; exact We].
  - cbn [dstep_run]. destruct (s_retry (m_s m)); reflexivity.
  - cbn [dstep_run snd]. apply (resp_of_class q).
    eapply leads_reach; [exact R|]. eapply leads_trans; [apply (leads_step _ (LInvoke (m_tid m) (OCompact r))); exact I|apply run_thread_leads; constructor].
Qed.

Lemma script_class q ds : forall m, reach q (m_s m) -> Forall dstep_wf ds -> forallb class_ok (snd (script_run m ds)) = true.
Proof.
  induction ds as [|d ds IH]; intros m R W; [reflexivity|]. inversion W; subst. simpl.
  pose proof (dstep_class q m d R H1) as C1. pose proof (dstep_run_leads m d H1) as L1.
  destruct (dstep_run m d) as [m1 o]. simpl in C1, L1.
  specialize (IH m1 (leads_reach q _ _ R L1) H2). destruct (script_run m1 ds) as [m2 os]. simpl in *. rewrite C1, IH. reflexivity.
Qed.

(* ---------- clause (4b): delivered events have increasing revisions, from the order of the published stream ---------- *)
Lemma increasing_snoc l x : increasing l = true -> (forall a, In a l -> a < x) -> increasing (l ++ [x]) = true.
Proof.
  induction l as [|a l IH]; intros H Hx; [reflexivity|]. destruct l as [|b l].
  - simpl. rewrite andb_true_r. apply N.ltb_lt. apply Hx. left. reflexivity.
  - change (increasing ((a :: b :: l) ++ [x])) with ((a <? b) && increasing ((b :: l) ++ [x])).
    change (increasing (a :: b :: l)) with ((a <? b) && increasing (b :: l)) in H.
    apply andb_true_iff in H as [H1 H2]. rewrite H1. apply IH; [exact H2|]. intros c Hc. apply Hx. right. exact Hc.
Qed.

Lemma ev_desc_increasing l : ev_desc l -> increasing (map e_rev (rev l)) = true.
Proof.
  induction l as [|a l IH]; intros D; [reflexivity|]. destruct D as [D1 D2]. simpl. rewrite map_app. simpl.
  apply increasing_snoc; [apply IH; exact D2|]. intros x Hx. apply in_map_iff in Hx as [ev [<- Hin]]. apply D1. apply in_rev. exact Hin.
Qed.

Lemma evobs_rev_map l : map (fun e : evobs => let '(_, _, _, r, _) := e in r) (map ev_obs l) = map e_rev l.
Proof. induction l as [|a l IH]; [reflexivity|]. simpl. rewrite IH. reflexivity. Qed.

(* ---------- how a step moves committed revision, versions and published events ---------- *)
Lemma step_committed_mono s l : Inv1 s -> s_committed s <= s_committed (step s l).
Proof.
  intros I. destruct l as [t op|t e| |e|d]; unfold step, step_gen.
  - destruct (get_thread t (s_threads s)); simpl; lia.
  - destruct (get_thread t (s_threads s)) as [th|]; [|lia].
    destruct (thread_step s (t_op th) (t_pc th) e) as [[s' p'] u] eqn:TS.
    destruct (thread_step_frame _ _ _ _ _ _ _ TS) as [Hc _]. cbn [s_committed set_threads]. lia.
  - unfold seq_step. destruct (s_seq s) as [|ev|ev] eqn:Q.
    + destruct (s_slots s (s_committed s + 1)) as [ev|] eqn:SL; [|lia]. destruct (i_slot _ I _ _ SL) as [Hr _].
      destruct (e_valid ev); [|destruct (e_unc ev)]; cbn; lia.
    + cbn. lia.
    + destruct (i_seq _ I ev) as [Hr _]; [rewrite Q; reflexivity|]. cbn. lia.
  - unfold retry_step. destruct (s_retry s) as [|node|node val|node val rev|node rev [er|]|node st]; try (cbn; lia).
    + destruct (s_queue s) as [|[node t] rest]; [cbn; lia|]. destruct (s_now s - t <? retry_interval); cbn; lia.
    + destruct e; try (cbn; lia). destruct (latest _) as [[modrev val]|]; [destruct (negb (modrev =? e_rev node))|]; cbn; lia.
    + destruct (commit _ _ e). cbn. lia.
    + destruct (is_cas er); cbn; lia.
  - cbn. lia.
Qed.

(* versions: unchanged, or one new version above the committed revision *)
Lemma step_vers s l k : Inv1 s -> Inv2 s -> wf_label l ->
  vers (step s l) k = vers s k \/ exists r v, vers (step s l) k = (r, v) :: vers s k /\ s_committed s < r.
Proof.
  intros I1 I2 W. destruct l as [t op|t e| |e|d]; unfold step, step_gen, vers.
  - destruct (get_thread t (s_threads s)); left; reflexivity.
  - destruct (get_thread t (s_threads s)) as [th|] eqn:G; [|left; reflexivity].
    destruct (thread_step s (t_op th) (t_pc th) e) as [[s' p'] u] eqn:TS. cbn [s_store set_threads].
    destruct (t_pc th) as [| | st c b | | | | | |] eqn:PC.
    3: { destruct (v_pc _ I2 t th G) as [_ PK]. rewrite PC in PK. destruct PK as [[Bk [Br _]] _].
         assert (Pth : pc_rev (t_pc th) = Some (c_rev c)) by (rewrite PC; reflexivity).
         destruct (i_thr _ I1 t th _ G Pth) as [Hb _].
         destruct (thread_step_commit _ _ _ _ _ _ _ _ _ TS W) as [[Hst _]|[Hst _]]; rewrite Hst; [left; reflexivity|].
         unfold apply_batch. destruct (k =? b_key b); [|left; reflexivity]. right. exists (b_rev b), (b_val b). cbn [k_vers]. split; [reflexivity|]. rewrite Br. lia. }
    all: rewrite (thread_step_store _ _ _ _ _ _ _ TS); [left; reflexivity|intros; discriminate].
  - unfold seq_step. destruct (s_seq s); [destruct (s_slots s (s_committed s + 1)) as [ev|]; [destruct (e_valid ev); [|destruct (e_unc ev)]|]|..]; left; reflexivity.
  - unfold retry_step. destruct (s_retry s) as [|node|node val|node val rev|node rev [er|]|node st] eqn:R; try (left; reflexivity).
    + destruct (s_queue s) as [|[node t] rest]; [left; reflexivity|]. destruct (s_now s - t <? retry_interval); left; reflexivity.
    + destruct e; try (left; reflexivity). destruct (latest _) as [[modrev val]|]; [destruct (negb (modrev =? e_rev node))|]; left; reflexivity.
    + destruct (commit (s_store s) _ e) as [sto eo] eqn:C. cbn [s_store set_retry set_store].
      destruct (i_retry _ I1 rev) as [Hb _]; [rewrite R; reflexivity|].
      destruct (commit_cases _ _ _ _ _ C) as [[-> _]|[-> _]]; [left; reflexivity|].
      unfold apply_batch. cbn [mk_batch b_key b_rev b_val]. destruct (k =? e_key node); [|left; reflexivity].
      right. exists rev, val. cbn [k_vers]. split; [reflexivity|lia].
    + destruct (is_cas er); left; reflexivity.
  - left. reflexivity.
Qed.

Lemma step_snap s l R k : Inv1 s -> Inv2 s -> wf_label l -> R <= s_committed s -> snap (step s l) R k = snap s R k.
Proof.
  intros I1 I2 W HR. unfold snap, snap_vers. destruct (step_vers s l k I1 I2 W) as [E|[r [v [E Hr]]]]; unfold vers in E; rewrite E; [reflexivity|].
  rewrite latest_le_skip by lia. reflexivity.
Qed.

(* published events: unchanged, or one new event at the revision just committed *)
Lemma step_events s l : Inv1 s ->
  s_events (step s l) = s_events s \/ exists ev, s_events (step s l) = ev :: s_events s /\ s_committed s < e_rev ev.
Proof.
  intros I. destruct l as [t op|t e| |e|d]; unfold step, step_gen.
  - destruct (get_thread t (s_threads s)); left; reflexivity.
  - destruct (get_thread t (s_threads s)) as [th|]; [|left; reflexivity].
    destruct (thread_step s (t_op th) (t_pc th) e) as [[s' p'] u] eqn:TS.
    destruct (thread_step_frame _ _ _ _ _ _ _ TS) as [_ [_ [_ [_ [Hev _]]]]]. left. exact Hev.
  - unfold seq_step. destruct (s_seq s) as [|ev|ev].
    + destruct (s_slots s (s_committed s + 1)) as [ev|] eqn:SL; [|left; reflexivity]. destruct (i_slot _ I _ _ SL) as [Hr _].
      destruct (e_valid ev); [|destruct (e_unc ev); left; reflexivity]. right. exists ev. split; [reflexivity|lia].
    + left. reflexivity.
    + left. reflexivity.
  - unfold retry_step. destruct (s_retry s) as [|node|node val|node val rev|node rev [er|]|node st]; try (left; reflexivity).
    + destruct (s_queue s) as [|[node t] rest]; [left; reflexivity|]. destruct (s_now s - t <? retry_interval); left; reflexivity.
    + destruct e; try (left; reflexivity). destruct (latest _) as [[modrev val]|]; [destruct (negb (modrev =? e_rev node))|]; left; reflexivity.
    + destruct (commit _ _ e). left. reflexivity.
    + destruct (is_cas er); left; reflexivity.
  - left. reflexivity.
Qed.
