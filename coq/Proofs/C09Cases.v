(* Soundness of the C09 correspondence oracle, clause by clause: on every observation the model itself produces
   (c09_check c = true) the oracle's clauses hold, each derived from the theorem that implies it. *)
From KB Require Import Base.Cases Model.RetrySys Model.C09Cases
  Proofs.RetryBase Proofs.RetryInv1 Proofs.RetryInv2 Proofs.RetryProps Proofs.RetryInv3 Proofs.RetryInvX.
Local Open Scope N_scope.

(* ---------- the boolean equalities of the check reflect equality ---------- *)
Lemma beqb_true a b : beqb a b = true -> a = b.
Proof. unfold beqb. destruct (bcmp a b) eqn:E; try discriminate. intros _. apply bcmp_eq. exact E. Qed.

Lemma list_eqb_eq {A} (eqb : A -> A -> bool) (H : forall a b, eqb a b = true -> a = b) :
  forall x y, list_eqb eqb x y = true -> x = y.
Proof.
  induction x as [|a x IH]; intros [|b y]; simpl; try discriminate; [reflexivity|].
  intros E. apply andb_true_iff in E as [E1 E2]. f_equal; [apply H; exact E1|apply IH; exact E2].
Qed.

Lemma kvo_eqb_eq a b : kvo_eqb a b = true -> a = b.
Proof.
  destruct a as [[v r]|], b as [[v' r']|]; simpl; try discriminate; [|reflexivity].
  intros E. apply andb_true_iff in E as [E1 E2]. apply beqb_true in E1. apply N.eqb_eq in E2. simpl in *. congruence.
Qed.

Lemma resp_eqb_eq a b : resp_eqb a b = true -> a = b.
Proof.
  destruct a, b; simpl; try discriminate; intros E.
  - apply andb_true_iff in E as [E1 E2]. apply N.eqb_eq in E1. apply kvo_eqb_eq in E2. congruence.
  - apply andb_true_iff in E as [E1 E2]. apply N.eqb_eq in E1. apply kvo_eqb_eq in E2. congruence.
  - apply Bool.eqb_prop in E. congruence.
  - apply N.eqb_eq in E. congruence.
Qed.

Lemma rstate_eqb_eq a b : rstate_eqb a b = true -> a = b.
Proof. destruct a, b; simpl; try discriminate; reflexivity. Qed.

Lemma kvr_eqb_eq a b : kvr_eqb a b = true -> a = b.
Proof.
  destruct a as [[k v] r], b as [[k' v'] r']. unfold kvr_eqb. simpl. intros E.
  apply andb_true_iff in E as [E E3]. apply andb_true_iff in E as [E1 E2].
  apply N.eqb_eq in E1, E3. apply beqb_true in E2. congruence.
Qed.

Lemma dobs_eqb_eq a b : dobs_eqb a b = true -> a = b.
Proof.
  destruct a, b; simpl; try discriminate; intros E.
  - apply andb_true_iff in E as [E1 E2]. apply resp_eqb_eq in E1. apply Bool.eqb_prop in E2. congruence.
  - apply rstate_eqb_eq in E. congruence.
  - apply andb_true_iff in E as [E1 E2]. apply N.eqb_eq in E1. apply (list_eqb_eq _ kvr_eqb_eq) in E2. congruence.
  - reflexivity.
Qed.

Lemma obs_eqb_eq a b : obs_eqb a b = true -> a = b.
Proof.
  destruct a, b. unfold obs_eqb. simpl. intros E. apply andb_true_iff in E as [E E3]. apply andb_true_iff in E as [E1 E2].
  apply dobs_eqb_eq in E1. apply N.eqb_eq in E2, E3. congruence.
Qed.

Lemma verb_eqb_eq a b : verb_eqb a b = true -> a = b.
Proof. destruct a, b; simpl; try discriminate; reflexivity. Qed.

Lemma evobs_eqb_eq a b : evobs_eqb a b = true -> a = b.
Proof.
  destruct a as [[[[v k] x] r] p], b as [[[[v' k'] x'] r'] p']. simpl. intros E.
  repeat (apply andb_true_iff in E as [E ?]).
  apply verb_eqb_eq in E. apply N.eqb_eq in H, H0, H2. apply beqb_true in H1. congruence.
Qed.

(* what the check establishes: the recorded observation is the model's *)
Lemma check_spec c : c09_check c = true ->
  c_obs c = snd (script_run minit (c_script c)) /\
  c_events c = map ev_obs (rev (s_events (m_s (fst (script_run minit (c_script c)))))) /\
  (existsb step_outside (c_script c) = false -> c09_validb c = true /\ drained_quiescent minit book0 (c_script c) = true).
Proof.
  unfold c09_check, model_obs. destruct (script_run minit (c_script c)) as [m os]. cbn [fst snd]. intros E.
  apply andb_true_iff in E as [E E3]. apply andb_true_iff in E as [E1 E2].
  apply (list_eqb_eq _ obs_eqb_eq) in E1. apply (list_eqb_eq _ evobs_eqb_eq) in E2.
  split; [auto|]. split; [auto|]. intros H. rewrite H in E3. cbn [orb] in E3. apply andb_true_iff in E3. exact E3.
Qed.

(* ---------- macro steps are runs of well-formed labels ---------- *)
Definition leads (s s' : state) : Prop := exists ls, Forall wf_label ls /\ s' = run s ls.

Lemma leads_refl s : leads s s.
Proof. exists []. split; [constructor|reflexivity]. Qed.
Lemma leads_trans a b c : leads a b -> leads b c -> leads a c.
Proof.
  intros [l1 [W1 ->]] [l2 [W2 ->]]. exists (l1 ++ l2). split; [apply Forall_app; auto|]. symmetry. apply run_app.
Qed.
Lemma leads_step s l : wf_label l -> leads s (step s l).
Proof. intros W. exists [l]. split; [constructor; [exact W|constructor]|reflexivity]. Qed.
Lemma leads_reach q s s' : reach q s -> leads s s' -> reach q s'.
Proof. intros R [ls [W ->]]. apply reach_run; assumption. Qed.

Definition envs_wf (envs : list env) : Prop := Forall (fun e => env_ocas e = false) envs.

Lemma run_thread_leads fuel : forall t envs gerr s, envs_wf envs -> leads s (run_thread fuel t envs gerr s).
Proof.
  induction fuel as [|fuel IH]; intros t envs gerr s W; simpl; [apply leads_refl|].
  destruct (pc_of s t) as [[op p]|]; [|apply leads_refl].
  assert (Ok : forall e, env_ocas e = false -> forall envs' g, envs_wf envs' ->
               leads s (run_thread fuel t envs' g (step s (LThread t e)))).
  { intros e He envs' g W'. eapply leads_trans; [apply (leads_step s (LThread t e)); exact He|apply IH; exact W']. }
  destruct p; try (apply Ok; [reflexivity|exact W]); try apply leads_refl.
  - destruct op; try (apply Ok; [reflexivity|exact W]). apply Ok; [destruct gerr; reflexivity|exact W].
  - destruct envs as [|e envs']; [apply Ok; [reflexivity|exact W]|].
    inversion W; subst. apply Ok; assumption.
  - apply Ok; [destruct gerr; reflexivity|exact W].
Qed.

Lemma settle_leads fuel : forall held s, leads s (settle fuel held s).
Proof.
  induction fuel as [|fuel IH]; intros held s; simpl; [apply leads_refl|].
  assert (Ok : leads s (settle fuel held (step s LSeq))) by (eapply leads_trans; [apply (leads_step s LSeq); exact I|apply IH]).
  destruct (s_seq s) as [|ev|ev]; try exact Ok.
  - destruct (s_slots s (s_committed s + 1)); [exact Ok|apply leads_refl].
  - destruct held as [r|]; [|exact Ok]. destruct (r =? e_rev ev); [apply leads_refl|exact Ok].
Qed.

Definition renv_wf (e : env) : Prop := env_ocas e = false /\ e <> EnvAbort.

Lemma retry_env_wf s e gerr : renv_wf e -> wf_label (LRetry (retry_env s e gerr)).
Proof.
  intros W. unfold retry_env. destruct (s_retry s); try (split; [reflexivity|discriminate]); [|exact W].
  destruct gerr; split; try reflexivity; discriminate.
Qed.

Lemma run_retry_leads fuel : forall e gerr s, renv_wf e -> leads s (run_retry fuel e gerr s).
Proof.
  induction fuel as [|fuel IH]; intros e gerr s W; [apply leads_refl|].
  pose proof (leads_step s _ (retry_env_wf s e gerr W)) as L1.
  change (run_retry (S fuel) e gerr s) with
    (match s_retry (step s (LRetry (retry_env s e gerr))) with
     | RIdle => step s (LRetry (retry_env s e gerr))
     | _ => run_retry fuel e gerr (step s (LRetry (retry_env s e gerr))) end).
  set (s1 := step s (LRetry (retry_env s e gerr))) in *.
  destruct (s_retry s1); try exact L1; (eapply leads_trans; [exact L1|apply IH; exact W]).
Qed.

Lemma renv_ok : renv_wf EnvOk. Proof. split; [reflexivity|discriminate]. Qed.

Lemma run_retry_get_leads fuel : forall gerr s, leads s (run_retry_get fuel gerr s).
Proof.
  induction fuel as [|fuel IH]; intros gerr s; [apply leads_refl|].
  pose proof (leads_step s _ (retry_env_wf s EnvOk gerr renv_ok)) as L1.
  change (run_retry_get (S fuel) gerr s) with
    (match s_retry (step s (LRetry (retry_env s EnvOk gerr))) with
     | RIdle => step s (LRetry (retry_env s EnvOk gerr))
     | RCommit _ _ _ => step s (LRetry (retry_env s EnvOk gerr))
     | _ => run_retry_get fuel gerr (step s (LRetry (retry_env s EnvOk gerr))) end).
  set (s1 := step s (LRetry (retry_env s EnvOk gerr))) in *.
  destruct (s_retry s1); try exact L1; (eapply leads_trans; [exact L1|apply IH]).
Qed.

(* well-formed script steps: inside the oracle's assumptions (not step_outside), and no repair commit answered with a bare abort *)
Definition dstep_wf (d : dstep) : Prop :=
  step_outside d = false /\
  match d with DRetry e _ | DRetryFinish e => e <> EnvAbort | DWrite op _ _ _ => op_is_write op = true | _ => True end.

Lemma dstep_wf_write op envs g h : dstep_wf (DWrite op envs g h) -> envs_wf envs /\ op_wf op.
Proof.
  intros [H _]. simpl in H. apply orb_false_iff in H as [H1 H2]. split.
  - unfold envs_wf. apply Forall_forall. intros e He. destruct (env_ocas e) eqn:E; [|reflexivity].
    exfalso. assert (existsb env_ocas envs = true) by (apply existsb_exists; eauto). congruence.
  - unfold op_wf. destruct (op_value op); [exact H2|exact I].
Qed.

Lemma dstep_run_leads m d : dstep_wf d -> leads (m_s m) (m_s (fst (dstep_run m d))).
Proof.
  intros W. destruct d; cbn [dstep_run fst m_s].
  - destruct (dstep_wf_write _ _ _ _ W) as [We Wo].
    eapply leads_trans; [apply (leads_step (m_s m) (LInvoke (m_tid m) op)); exact Wo|].
    eapply leads_trans; [apply run_thread_leads; exact We|apply settle_leads].
  - apply (leads_step (m_s m) (LTick d)). exact I.
  - destruct W as [W1 W2]. simpl in W1, W2.
    apply leads_trans with (run_retry 8 e gerr (m_s m)); [apply run_retry_leads; split; assumption|apply settle_leads].
  - apply leads_trans with (run_retry_get 8 gerr (m_s m)); [apply run_retry_get_leads|apply settle_leads].
  - destruct W as [W1 W2]. simpl in W1, W2. destruct (s_retry (m_s m)); cbn [fst m_s]; try apply leads_refl.
    apply leads_trans with (run_retry 8 e false (m_s m)); [apply run_retry_leads; split; assumption|apply settle_leads].
  - eapply leads_trans; [apply (leads_step (m_s m) (LInvoke (m_tid m) (OCompact r))); exact I|].
    eapply leads_trans; [apply run_thread_leads; constructor|apply settle_leads].
  - apply leads_refl.
  - apply settle_leads.
Qed.

Lemma script_run_leads ds : forall m, Forall dstep_wf ds -> leads (m_s m) (m_s (fst (script_run m ds))).
Proof.
  induction ds as [|d ds IH]; intros m W; simpl; [apply leads_refl|]. inversion W; subst.
  pose proof (dstep_run_leads m d H1) as L1. destruct (dstep_run m d) as [m1 o]. simpl in L1.
  specialize (IH m1 H2). destruct (script_run m1 ds) as [m2 os]. simpl in *. eapply leads_trans; eassumption.
Qed.

(* ---------- clause (1): error class, from C09_error_class ---------- *)
Lemma resp_of_class q s t s' : reach q s -> class_ok (mk_obs (resp_of s t) s') = true.
Proof.
  intros R. unfold class_ok, mk_obs, resp_of. cbn [o_d]. destruct (get_thread t (s_threads s)) as [th|] eqn:G; [|reflexivity].
  destruct (t_pc th) eqn:P; try reflexivity. destruct (t_unk th) eqn:U; [|reflexivity].
  pose proof (reach_unk q s R t th G U) as K. rewrite P in K. subst r. reflexivity.
Qed.

Lemma dstep_class q m d : reach q (m_s m) -> dstep_wf d -> class_ok (snd (dstep_run m d)) = true.
Proof.
  intros R W. destruct d; try reflexivity.
  - destruct (dstep_wf_write _ _ _ _ W) as [We Wo]. cbn [dstep_run snd]. apply (resp_of_class q).
    eapply leads_reach; [exact R|]. eapply leads_trans; [apply (leads_step _ (LInvoke (m_tid m) op)); exact Wo|apply run_thread_leads; exact We].
  - cbn [dstep_run]. destruct (s_retry (m_s m)); reflexivity.
  - cbn [dstep_run snd]. apply (resp_of_class q).
    eapply leads_reach; [exact R|]. eapply leads_trans; [apply (leads_step _ (LInvoke (m_tid m) (OCompact r))); exact I|apply run_thread_leads; constructor].
Qed.

Lemma script_class q ds : forall m, reach q (m_s m) -> Forall dstep_wf ds -> forallb class_ok (snd (script_run m ds)) = true.
Proof.
  induction ds as [|d ds IH]; intros m R W; [reflexivity|]. inversion W; subst. simpl.
  pose proof (dstep_class q m d R H1) as C1. pose proof (dstep_run_leads m d H1) as L1.
  destruct (dstep_run m d) as [m1 o]. simpl in C1, L1.
  specialize (IH m1 (leads_reach q _ _ R L1) H2). destruct (script_run m1 ds) as [m2 os]. simpl in *. rewrite C1, IH. reflexivity.
Qed.

(* ---------- clause (4b): delivered events have increasing revisions, from the order of the published stream ---------- *)
Lemma increasing_snoc l x : increasing l = true -> (forall a, In a l -> a < x) -> increasing (l ++ [x]) = true.
Proof.
  induction l as [|a l IH]; intros H Hx; [reflexivity|]. destruct l as [|b l].
  - simpl. rewrite andb_true_r. apply N.ltb_lt. apply Hx. left. reflexivity.
  - change (increasing ((a :: b :: l) ++ [x])) with ((a <? b) && increasing ((b :: l) ++ [x])).
    change (increasing (a :: b :: l)) with ((a <? b) && increasing (b :: l)) in H.
    apply andb_true_iff in H as [H1 H2]. rewrite H1. apply IH; [exact H2|]. intros c Hc. apply Hx. right. exact Hc.
Qed.

Lemma ev_desc_increasing l : ev_desc l -> increasing (map e_rev (rev l)) = true.
Proof.
  induction l as [|a l IH]; intros D; [reflexivity|]. destruct D as [D1 D2]. simpl. rewrite map_app. simpl.
  apply increasing_snoc; [apply IH; exact D2|]. intros x Hx. apply in_map_iff in Hx as [ev [<- Hin]]. apply D1. apply in_rev. exact Hin.
Qed.

Lemma evobs_rev_map l : map (fun e : evobs => let '(_, _, _, r, _) := e in r) (map ev_obs l) = map e_rev l.
Proof. induction l as [|a l IH]; [reflexivity|]. simpl. rewrite IH. reflexivity. Qed.

(* ---------- how a step moves committed revision, versions and published events ---------- *)
Lemma step_committed_mono s l : Inv1 s -> s_committed s <= s_committed (step s l).
Proof.
  intros I. destruct l as [t op|t e| |e|d]; unfold step, step_gen.
  - destruct (get_thread t (s_threads s)); simpl; lia.
  - destruct (get_thread t (s_threads s)) as [th|]; [|lia].
    destruct (thread_step s (t_op th) (t_pc th) e) as [[s' p'] u] eqn:TS.
    destruct (thread_step_frame _ _ _ _ _ _ _ TS) as [Hc _]. cbn [s_committed set_threads]. lia.
  - unfold seq_step. destruct (s_seq s) as [|ev|ev] eqn:Q.
    + destruct (s_slots s (s_committed s + 1)) as [ev|] eqn:SL; [|lia]. destruct (i_slot _ I _ _ SL) as [Hr _].
      destruct (e_valid ev); [|destruct (e_unc ev)]; cbn; lia.
    + cbn. lia.
    + destruct (i_seq _ I ev) as [Hr _]; [rewrite Q; reflexivity|]. cbn. lia.
  - unfold retry_step. destruct (s_retry s) as [|node|node val|node val rev|node rev [er|]|node st]; try (cbn; lia).
    + destruct (s_queue s) as [|[node t] rest]; [cbn; lia|]. destruct (s_now s - t <? retry_interval); cbn; lia.
    + destruct e; try (cbn; lia). destruct (latest _) as [[modrev val]|]; [destruct (negb (modrev =? e_rev node))|]; cbn; lia.
    + destruct (commit _ _ e). cbn. lia.
    + destruct (is_cas er); cbn; lia.
  - cbn. lia.
Qed.

(* versions: unchanged, or one new version above the committed revision *)
Lemma step_vers s l k : Inv1 s -> Inv2 s -> wf_label l ->
  vers (step s l) k = vers s k \/ exists r v, vers (step s l) k = (r, v) :: vers s k /\ s_committed s < r.
Proof.
  intros I1 I2 W. destruct l as [t op|t e| |e|d]; unfold step, step_gen, vers.
  - destruct (get_thread t (s_threads s)); left; reflexivity.
  - destruct (get_thread t (s_threads s)) as [th|] eqn:G; [|left; reflexivity].
    destruct (thread_step s (t_op th) (t_pc th) e) as [[s' p'] u] eqn:TS. cbn [s_store set_threads].
    destruct (t_pc th) as [| | st c b | | | | | |] eqn:PC.
    3: { destruct (v_pc _ I2 t th G) as [_ PK]. rewrite PC in PK. destruct PK as [[Bk [Br _]] _].
         assert (Pth : pc_rev (t_pc th) = Some (c_rev c)) by (rewrite PC; reflexivity).
         destruct (i_thr _ I1 t th _ G Pth) as [Hb _].
         destruct (thread_step_commit _ _ _ _ _ _ _ _ _ TS W) as [[Hst _]|[Hst _]]; rewrite Hst; [left; reflexivity|].
         unfold apply_batch. destruct (k =? b_key b); [|left; reflexivity]. right. exists (b_rev b), (b_val b). cbn [k_vers]. split; [reflexivity|]. rewrite Br. lia. }
    all: rewrite (thread_step_store _ _ _ _ _ _ _ TS); [left; reflexivity|intros; discriminate].
  - unfold seq_step. destruct (s_seq s); [destruct (s_slots s (s_committed s + 1)) as [ev|]; [destruct (e_valid ev); [|destruct (e_unc ev)]|]|..]; left; reflexivity.
  - unfold retry_step. destruct (s_retry s) as [|node|node val|node val rev|node rev [er|]|node st] eqn:R; try (left; reflexivity).
    + destruct (s_queue s) as [|[node t] rest]; [left; reflexivity|]. destruct (s_now s - t <? retry_interval); left; reflexivity.
    + destruct e; try (left; reflexivity). destruct (latest _) as [[modrev val]|]; [destruct (negb (modrev =? e_rev node))|]; left; reflexivity.
    + destruct (commit (s_store s) _ e) as [sto eo] eqn:C. cbn [s_store set_retry set_store].
      destruct (i_retry _ I1 rev) as [Hb _]; [rewrite R; reflexivity|].
      destruct (commit_cases _ _ _ _ _ C) as [[-> _]|[-> _]]; [left; reflexivity|].
      unfold apply_batch. cbn [mk_batch b_key b_rev b_val]. destruct (k =? e_key node); [|left; reflexivity].
      right. exists rev, val. cbn [k_vers]. split; [reflexivity|lia].
    + destruct (is_cas er); left; reflexivity.
  - left. reflexivity.
Qed.

Lemma step_snap s l R k : Inv1 s -> Inv2 s -> wf_label l -> R <= s_committed s -> snap (step s l) R k = snap s R k.
Proof.
  intros I1 I2 W HR. unfold snap, snap_vers. destruct (step_vers s l k I1 I2 W) as [E|[r [v [E Hr]]]]; unfold vers in E; rewrite E; [reflexivity|].
  rewrite latest_le_skip by lia. reflexivity.
Qed.

(* published events: unchanged, or one new event at the revision just committed *)
Lemma step_events s l : Inv1 s ->
  s_events (step s l) = s_events s \/ exists ev, s_events (step s l) = ev :: s_events s /\ s_committed s < e_rev ev.
Proof.
  intros I. destruct l as [t op|t e| |e|d]; unfold step, step_gen.
  - destruct (get_thread t (s_threads s)); left; reflexivity.
  - destruct (get_thread t (s_threads s)) as [th|]; [|left; reflexivity].
    destruct (thread_step s (t_op th) (t_pc th) e) as [[s' p'] u] eqn:TS.
    destruct (thread_step_frame _ _ _ _ _ _ _ TS) as [_ [_ [_ [_ [Hev _]]]]]. left. exact Hev.
  - unfold seq_step. destruct (s_seq s) as [|ev|ev].
    + destruct (s_slots s (s_committed s + 1)) as [ev|] eqn:SL; [|left; reflexivity]. destruct (i_slot _ I _ _ SL) as [Hr _].
      destruct (e_valid ev); [|destruct (e_unc ev); left; reflexivity]. right. exists ev. split; [reflexivity|lia].
    + left. reflexivity.
    + left. reflexivity.
  - unfold retry_step. destruct (s_retry s) as [|node|node val|node val rev|node rev [er|]|node st]; try (left; reflexivity).
    + destruct (s_queue s) as [|[node t] rest]; [left; reflexivity|]. destruct (s_now s - t <? retry_interval); left; reflexivity.
    + destruct e; try (left; reflexivity). destruct (latest _) as [[modrev val]|]; [destruct (negb (modrev =? e_rev node))|]; left; reflexivity.
    + destruct (commit _ _ e). left. reflexivity.
    + destruct (is_cas er); left; reflexivity.
  - left. reflexivity.
Qed.

(* over a run *)
Lemma run_facts q ls : Forall wf_label ls -> forall s, reach q s ->
  s_committed s <= s_committed (run s ls) /\
  (forall R k, R <= s_committed s -> snap (run s ls) R k = snap s R k) /\
  exists newer, s_events (run s ls) = newer ++ s_events s /\ forall ev, In ev newer -> s_committed s < e_rev ev.
Proof.
  induction 1 as [|l ls W _ IH]; intros s R.
  - change (run s []) with s. split; [lia|]. split; [reflexivity|]. exists []. split; [reflexivity|intros ev []].
  - pose proof (reach_inv1 q s R) as I1. pose proof (reach_inv2 q s R) as I2.
    pose proof (step_committed_mono s l I1) as Hm.
    destruct (IH (step s l) (reach_step q s l R W)) as [H1 [H2 [newer [H3 H4]]]].
    change (run s (l :: ls)) with (run (step s l) ls).
    split; [lia|]. split.
    + intros R0 k HR. rewrite H2 by lia. apply step_snap; assumption.
    + destruct (step_events s l I1) as [E|[ev [E Hev]]].
      * exists newer. rewrite H3, E. split; [reflexivity|]. intros ev Hin. specialize (H4 ev Hin). lia.
      * exists (newer ++ [ev]). rewrite H3, E, <- app_assoc. split; [reflexivity|].
        intros ev' Hin. apply in_app_or in Hin as [Hin|[<-|[]]]; [specialize (H4 ev' Hin); lia|exact Hev].
Qed.

(* ---------- lists and event streams as the oracle sees them ---------- *)
Lemma lookup_snap_list s R k : In k keys4 -> lookup_kv k (snap_list s R) = snap s R k.
Proof.
  unfold snap_list, keys4. cbn [flat_map].
  intros [<-|[<-|[<-|[<-|[]]]]];
    destruct (snap s R 0) as [[? ?]|], (snap s R 1) as [[? ?]|], (snap s R 2) as [[? ?]|], (snap s R 3) as [[? ?]|]; reflexivity.
Qed.

Definition evf (ev : wevent) : wevent := ev_of_obs (ev_obs ev).

Lemma evf_rev ev : e_rev (evf ev) = e_rev ev. Proof. reflexivity. Qed.

Lemma replay_key_evf k evs cur : replay_key k (map evf evs) cur = replay_key k evs cur.
Proof. induction evs as [|ev evs IH]; [reflexivity|]. simpl. rewrite IH. reflexivity. Qed.

Lemma events_between_evf h0 h1 evs : events_between h0 h1 (map evf evs) = map evf (events_between h0 h1 evs).
Proof.
  unfold events_between, events_after. induction evs as [|ev evs IH]; [reflexivity|]. simpl.
  destruct (e_rev ev <=? h1); simpl; [destruct (h0 <? e_rev ev); simpl; rewrite IH; reflexivity|exact IH].
Qed.

Lemma oracle_events E : rev (map ev_of_obs (map ev_obs (rev E))) = map evf E.
Proof. rewrite map_map, <- map_rev, rev_involutive. reflexivity. Qed.

Lemma filter_le_split h newer old :
  (forall ev, In ev newer -> h < e_rev ev) -> (forall ev, In ev old -> e_rev ev <= h) ->
  filter (fun ev => e_rev ev <=? h) (newer ++ old) = old.
Proof.
  intros Hn Ho. rewrite filter_app.
  assert (filter (fun ev => e_rev ev <=? h) newer = []) as ->.
  { induction newer as [|a l IH]; [reflexivity|]. simpl. assert (h < e_rev a) by (apply Hn; left; reflexivity).
    apply N.leb_gt in H. rewrite H. apply IH. intros ev Hin. apply Hn. right. exact Hin. }
  simpl. induction old as [|a l IH]; [reflexivity|]. simpl. assert (e_rev a <= h) by (apply Ho; left; reflexivity).
  apply N.leb_le in H. rewrite H. f_equal. apply IH. intros ev Hin. apply Ho. right. exact Hin.
Qed.

Lemma kvo_eqb_refl a : kvo_eqb a a = true.
Proof. destruct a as [[v r]|]; [|reflexivity]. simpl. rewrite beqb_refl, N.eqb_refl. reflexivity. Qed.

(* ---------- clause (5): convergence at every drained List, from C09_converges ---------- *)
Lemma lists_agree_sound q s0 s1 sF :
  reach q s0 -> leads s0 s1 -> quiescent s1 -> leads s1 sF ->
  lists_agree (map evf (s_events sF)) (s_committed s0, snap_list s0 (s_committed s0)) (s_committed s1) (snap_list s1 (s_committed s1)) = true.
Proof.
  intros R0 [ls1 [W1 E1]] Q [lsF [WF EF]]. unfold lists_agree. apply forallb_forall. intros k Hk.
  assert (R1 : reach q s1) by (subst s1; apply reach_run; assumption).
  destruct (run_facts q ls1 W1 s0 R0) as [Hc [Hsnap _]]. rewrite <- E1 in Hc, Hsnap.
  destruct (run_facts q lsF WF s1 R1) as [_ [_ [newer [Hev Hnew]]]]. rewrite <- EF in Hev.
  rewrite events_between_evf, replay_key_evf, !lookup_snap_list by exact Hk.
  unfold events_between. rewrite Hev.
  rewrite (filter_le_split (s_committed s1) newer (s_events s1) Hnew)
    by (intros ev Hin; apply (a_evs _ (reach_inv3 q s1 R1) ev Hin)).
  rewrite <- (Hsnap (s_committed s0) k (N.le_refl _)).
  pose proof (converges_core s1 (reach_inv1 q s1 R1) (reach_inv2 q s1 R1) (reach_inv3 q s1 R1) (reach_invx q s1 R1) Q (s_committed s0) k) as C.
  unfold converged_at in C. rewrite C. apply kvo_eqb_refl.
Qed.

(* the oracle's fold over (script, observation) *)
Definition cs0 : cstate := {| cs_book := book0; cs_lists := []; cs_probe := None; cs_conv := true; cs_probe_ok := true |}.

Lemma conv_step_book evs a x : cs_book (conv_step evs a x) = book_step (cs_book a) x.
Proof.
  destruct x as [d o]. unfold conv_step.
  repeat match goal with |- context [match ?x with _ => _ end] => destruct x end; reflexivity.
Qed.

Lemma conv_step_nolist evs a d o : d <> DList ->
  cs_conv (conv_step evs a (d, o)) = cs_conv a /\ cs_lists (conv_step evs a (d, o)) = cs_lists a.
Proof.
  intros N. unfold conv_step. destruct d; try contradiction;
    repeat match goal with |- context [match ?x with _ => _ end] => destruct x end; auto.
Qed.

Lemma dstep_eq_list d : d = DList \/ d <> DList.
Proof. destruct d; try (right; discriminate). left. reflexivity. Qed.

Definition lists_inv (q : N) (s : state) (L : list (N * list (key * value * N))) : Prop :=
  forall h0 l0, In (h0, l0) L -> exists s0, reach q s0 /\ leads s0 s /\ h0 = s_committed s0 /\ l0 = snap_list s0 h0.

Lemma conv_fold q ds : forall m a,
  reach q (m_s m) -> Forall dstep_wf ds -> drained_quiescent m (cs_book a) ds = true ->
  lists_inv q (m_s m) (cs_lists a) -> cs_conv a = true ->
  cs_conv (fold_left (conv_step (map evf (s_events (m_s (fst (script_run m ds))))))
                     (combine ds (snd (script_run m ds))) a) = true.
Proof.
  induction ds as [|d ds IH]; intros m a R W DQ LI CA; [exact CA|].
  inversion W as [|? ? Wd Wds]; subst.
  pose proof (script_run_leads (d :: ds) m W) as LF.
  cbn [drained_quiescent] in DQ. apply andb_true_iff in DQ as [DQ1 DQ2].
  cbn [script_run] in *. pose proof (dstep_run_leads m d Wd) as L1.
  destruct (dstep_run m d) as [m1 o] eqn:ED. cbn [fst snd] in *.
  assert (R1 : reach q (m_s m1)) by (apply (leads_reach q _ _ R L1)).
  pose proof (script_run_leads ds m1 Wds) as L2.
  specialize (IH m1 (conv_step (map evf (s_events (m_s (fst (script_run m1 ds))))) a (d, o)) R1 Wds).
  destruct (script_run m1 ds) as [m2 os] eqn:ES. cbn [fst snd combine fold_left] in *.
  apply IH; clear IH.
  - rewrite conv_step_book. exact DQ2.
  - (* the earlier lists *)
    destruct (dstep_eq_list d) as [->|Nd].
    + cbn [dstep_run] in ED. injection ED as <- <-. unfold conv_step. cbn [mk_obs o_d].
      assert (Hadd : lists_inv q (m_s m) ((s_committed (m_s m), snap_list (m_s m) (s_committed (m_s m))) :: cs_lists a)).
      { intros h0 l0 [H|H]; [injection H as <- <-; exists (m_s m); repeat split; auto; apply leads_refl|apply (LI h0 l0 H)]. }
      destruct (drained _ _); exact Hadd.
    + destruct (conv_step_nolist (map evf (s_events (m_s m2))) a d o Nd) as [_ ->].
      intros h0 l0 H. destruct (LI h0 l0 H) as [s0 [H1 [H2 H3]]]. exists s0. split; [exact H1|]. split; [eapply leads_trans; eassumption|exact H3].
  - (* convergence so far *)
    destruct (dstep_eq_list d) as [->|Nd].
    + cbn [dstep_run] in ED. injection ED as <- <-. unfold conv_step. cbn [mk_obs o_d].
      set (b' := book_step (cs_book a) _) in *.
      destruct (drained b' _) eqn:Dr; [|exact CA]. cbn [cs_conv]. rewrite CA. cbn [andb].
      cbn [implb] in DQ1.
      apply forallb_forall. intros [h0 l0] Hin. destruct (LI h0 l0 Hin) as [s0 [H1 [H2 [-> ->]]]].
      apply (lists_agree_sound q s0 (m_s m) (m_s m2) H1 H2 (quiescentb_spec _ DQ1) L2).
    + destruct (conv_step_nolist (map evf (s_events (m_s m2))) a d o Nd) as [-> _]. exact CA.
Qed.

(* ---------- the clauses of c09_oracle on a case that passed the check ---------- *)
(* validity of a case: every script step is inside the stated assumptions *)
Definition c09_valid (c : c09_case) : Prop := Forall dstep_wf (c_script c).

Lemma valid_not_outside ds : Forall dstep_wf ds -> existsb step_outside ds = false.
Proof.
  induction 1 as [|d ds [H _] _ IH]; [reflexivity|]. simpl. rewrite H, IH. reflexivity.
Qed.

Lemma minit_reach : reach r0 (m_s minit).
Proof. apply reach_init. Qed.

(* (1) an unknown outcome is always reported as an RPC error of the unknown-outcome class   [<- C09_error_class] *)
Theorem oracle_clause_class c :
  Forall dstep_wf (c_script c) -> c09_check c = true -> forallb class_ok (c_obs c) = true.
Proof.
  intros W C. destruct (check_spec c C) as [-> _]. apply (script_class r0); [apply minit_reach|exact W].
Qed.

(* (4b) delivered events carry strictly increasing revisions   [<- order of the published stream, Inv3] *)
Theorem oracle_clause_increasing c :
  Forall dstep_wf (c_script c) -> c09_check c = true ->
  increasing (map (fun e : evobs => let '(_, _, _, r, _) := e in r) (c_events c)) = true.
Proof.
  intros W C. destruct (check_spec c C) as [_ [-> _]]. rewrite evobs_rev_map. apply ev_desc_increasing.
  apply (a_sorted _ (reach_inv3 r0 _ (leads_reach r0 _ _ minit_reach (script_run_leads (c_script c) minit W)))).
Qed.

(* (5) at every List taken in a drained state, every earlier List + the delivered events in between give that List
   [<- C09_converges] *)
Theorem oracle_clause_converges c :
  c09_valid c -> c09_check c = true -> cs_conv (conv_of c) = true.
Proof.
  intros W C. destruct (check_spec c C) as [Eo [Ee DQ]]. destruct (DQ (valid_not_outside _ W)) as [_ DQ']. clear DQ. rename DQ' into DQ. unfold conv_of. rewrite Ee, oracle_events, Eo.
  apply (conv_fold r0 (c_script c) minit cs0); try assumption; [apply minit_reach|intros ? ? []|reflexivity].
Qed.

(* executable form of c09_valid: dstep_wfb / c09_validb in Model/C09Cases.v *)
Lemma dstep_wfb_spec d : dstep_wfb d = true -> dstep_wf d.
Proof.
  unfold dstep_wfb, dstep_wf. intros H. apply andb_true_iff in H as [H1 H2]. apply negb_true_iff in H1. split; [exact H1|].
  destruct d; try exact I; [exact H2|destruct e; try discriminate; intros E; discriminate..].
Qed.

Lemma c09_validb_spec c : c09_validb c = true -> c09_valid c.
Proof.
  unfold c09_validb, c09_valid. intros H1.
  apply Forall_forall. intros d Hd. apply dstep_wfb_spec. rewrite forallb_forall in H1. apply H1. exact Hd.
Qed.

(* the three clauses together *)
Theorem oracle_clauses c :
  c09_valid c -> c09_check c = true ->
  forallb class_ok (c_obs c) = true /\
  increasing (map (fun e : evobs => let '(_, _, _, r, _) := e in r) (c_events c)) = true /\
  cs_conv (conv_of c) = true.
Proof.
  intros V C. split; [apply oracle_clause_class; [apply V|exact C]|]. split; [apply oracle_clause_increasing; [apply V|exact C]|].
  apply oracle_clause_converges; assumption.
Qed.
