(* Towards the C13 oracle soundness: from the executable well-formedness test of a raw dump to the
   theorems on version stores, and the List / Count clauses of the C13 oracle (group level). *)
From KB Require Import Base.Bytes Base.Cases Model.Coder Model.ReadSys Model.C03Cases Model.C13Cases
  Proofs.Coder Proofs.ReadSys Proofs.ReadSysSnap Proofs.ReadSysThm Proofs.ReadSysSpec Proofs.ReadSysPart.
From Coq Require Import ZifyN ZifyNat ZifyBool.
Local Open Scope N_scope.

Notation vrecb := (@vrec bytes).

(* ---------- executable well-formedness implies wf_store ---------- *)
Lemma vr_ltb_spec {A} (x y : @vrec A) : vr_ltb x y = true <-> vr_lt x y.
Proof. unfold vr_ltb, vr_lt. destruct (kr_cmp _ _ _ _); split; congruence. Qed.

Lemma sortedb_sorted {A} (V : list (@vrec A)) : sortedb vr_ltb V = true -> StronglySorted vr_lt V.
Proof.
  induction V as [|x t IH]; intros H; [constructor|].
  destruct t as [|y t']; [repeat constructor|].
  cbn [sortedb] in H. apply andb_true_iff in H as [Hxy Ht]. apply vr_ltb_spec in Hxy.
  specialize (IH Ht). constructor; [exact IH|].
  inversion IH as [|? ? _ Fy]; subst. constructor; [exact Hxy|].
  rewrite Forall_forall in *. intros z Hz. eapply vr_lt_trans; [exact Hxy|apply Fy; exact Hz].
Qed.

Lemma wf_storeb_spec {A} (V : list (@vrec A)) : wf_storeb V = true -> wf_store V.
Proof.
  unfold wf_storeb. intros H. apply andb_true_iff in H as [S F]. split; [apply sortedb_sorted; exact S|].
  rewrite forallb_forall in F. rewrite Forall_forall. intros x Hx. specialize (F x Hx).
  apply andb_true_iff in F as [F1 F2]. split; [apply alphab_spec; exact F1|apply N.ltb_lt; exact F2].
Qed.

Lemma list_eqb_eq {A} (e : A -> A -> bool) (l1 l2 : list A) : (forall x y, e x y = true -> x = y) -> list_eqb e l1 l2 = true -> l1 = l2.
Proof.
  intros E. revert l2; induction l1 as [|x t IH]; intros [|y t2] H; try discriminate; [reflexivity|].
  cbn in H. apply andb_true_iff in H as [H1 H2]. f_equal; [apply E; exact H1|apply IH; exact H2].
Qed.

Lemma dump_wf_spec s : dump_wf s = true -> data_of s = raw_of (versions_of (data_of s)) /\ wf_store (versions_of (data_of s)).
Proof.
  unfold dump_wf. intros H. apply andb_true_iff in H as [H1 H2]. split; [|apply wf_storeb_spec; exact H2].
  symmetry. apply (list_eqb_eq kv_eqb); [|exact H1].
  intros [k v] [k' v'] E. unfold kv_eqb in E. cbn [fst snd] in E. apply andb_true_iff in E as [E1 E2].
  apply beqb_eq in E1, E2. congruence.
Qed.

(* ---------- records outside the data prefix are never iterated ---------- *)
Lemma between_prefix p : forall lo hi x, has_prefix p lo = true -> has_prefix p hi = true ->
  bcmp lo x <> Gt -> bcmp x hi = Lt -> has_prefix p x = true.
Proof.
  induction p as [|c p IH]; intros lo hi x Hlo Hhi L U; [reflexivity|].
  destruct lo as [|l lo]; [discriminate|]. destruct hi as [|h hi]; [discriminate|].
  cbn [has_prefix] in Hlo, Hhi. apply andb_true_iff in Hlo as [E1 Hlo], Hhi as [E2 Hhi].
  apply N.eqb_eq in E1, E2. subst l h.
  destruct x as [|y x]; [cbn in L; congruence|]. cbn [bcmp has_prefix] in *.
  destruct (N.compare_spec c y) as [->|Lt1|Gt1]; [|exfalso|congruence].
  - rewrite N.eqb_refl. cbn [andb]. rewrite N.compare_refl in U. apply (IH lo hi x); assumption.
  - destruct (N.compare_spec y c); try lia; discriminate.
Qed.

Lemma iter_data s lo hi : has_prefix magic lo = true -> has_prefix magic hi = true -> bcmp lo hi <> Gt ->
  iter s lo hi = iter (data_of s) lo hi.
Proof.
  intros Hlo Hhi L. unfold iter. destruct (bcmp lo hi) eqn:C; [reflexivity| |congruence].
  unfold data_of. induction s as [|q t IH]; [reflexivity|]. cbn [filter].
  destruct (bleb lo (fst q) && bltb (fst q) hi) eqn:P.
  - apply andb_true_iff in P as [P1 P2]. apply bleb_spec in P1. apply bltb_spec in P2.
    rewrite (between_prefix magic lo hi (fst q) Hlo Hhi P1 P2). cbn [filter].
    replace (bleb lo (fst q) && bltb (fst q) hi) with true
      by (symmetry; apply andb_true_iff; split; [apply bleb_spec|apply bltb_spec]; assumption).
    f_equal. exact IH.
  - destruct (has_prefix magic (fst q)); [cbn [filter]; rewrite P|]; exact IH.
Qed.

Lemma encode_magic k r : has_prefix magic (encode k r) = true.
Proof. unfold encode. apply has_prefix_app. Qed.

(* scan over the dump = scan over its data part, when every adjusted partition is bounded by internal keys *)
Lemma scan_data s fv parts lo hi R rc qs : adjust_borders (parts lo hi) = Some qs ->
  (forall p, In p qs -> has_prefix magic (fst p) = true /\ has_prefix magic (snd p) = true /\ bcmp (fst p) (snd p) <> Gt) ->
  scan s fv parts lo hi R rc = scan (data_of s) fv parts lo hi R rc.
Proof.
  intros AD H. unfold scan. destruct (floor_check fv R); try reflexivity. rewrite AD.
  assert (E : map (fun p => worker_run R (iter s (fst p) (snd p)) (rcv_fork rc)) qs
            = map (fun p => worker_run R (iter (data_of s) (fst p) (snd p)) (rcv_fork rc)) qs).
  { apply map_ext_in. intros p Hp. destruct (H p Hp) as (H1 & H2 & H3). rewrite (iter_data s _ _ H1 H2 H3). reflexivity. }
  rewrite E. reflexivity.
Qed.

(* the adjusted partitions of a tiling of [Enc a 0, Enc b 0) are bounded by internal keys *)
Lemma chain_bounds_magic : forall cs c, has_prefix magic c = true -> chain (c :: cs) -> Forall index_pos (removelast cs) ->
  has_prefix magic (last cs c) = true ->
  forall p, In p (pairs_of (c :: cs)) -> has_prefix magic (fst p) = true /\ has_prefix magic (snd p) = true /\ bcmp (fst p) (snd p) <> Gt.
Proof.
  induction cs as [|d t IH]; intros c Hc CH IP HL p Hp; [destruct Hp|].
  rewrite pairs_of_cons2 in Hp. cbn [chain] in CH. destruct CH as [L CH].
  assert (Hd : has_prefix magic d = true).
  { destruct t as [|e t']; [exact HL|]. cbn [removelast] in IP. inversion IP as [|? ? (k & _ & ->) _]; subst. apply encode_magic. }
  destruct Hp as [<-|Hp]; [cbn [fst snd]; auto|].
  apply (IH d Hd CH); [destruct t as [|e t']; [constructor|cbn [removelast] in IP; inversion IP; assumption]| |exact Hp].
  destruct t as [|e t']; [exact Hd|]. rewrite (last_indep e t' d c). exact HL.
Qed.

(* ---------- List / Count clauses of the C13 oracle ---------- *)
(* On a dump that passes the executable well-formedness test, with the engine's recorded answer a tiling:
   the unpartitioned List, the partitioned List and the partitioned Count the model computes on the dump
   are the in-range snapshot of the dump's versions — i.e. the first three clauses of group_verdict hold
   for every group whose responses the model reproduces. *)
Section DumpLevel.
  Variables (s : raw_store) (fv : option bytes) (parts : partition_fn) (cur : N) (a b : bytes).
  Hypotheses (DW : dump_wf s = true) (Aa : alpha a) (Ab : alpha b) (Lab : bcmp a b = Lt) (T : valid_parts parts a b).
  Let V := versions_of (data_of s).

  Lemma dump_bounds :
    data_of s = raw_of V /\ wf_store V /\
    exists cs, adjust_borders (parts (encode a 0) (encode b 0)) = Some (pairs_of (encode a 0 :: cs)) /\
      (forall p, In p (pairs_of (encode a 0 :: cs)) ->
         has_prefix magic (fst p) = true /\ has_prefix magic (snd p) = true /\ bcmp (fst p) (snd p) <> Gt) /\
      (forall p, In p [(encode a 0, encode b 0)] ->
         has_prefix magic (fst p) = true /\ has_prefix magic (snd p) = true /\ bcmp (fst p) (snd p) <> Gt).
  Proof.
    destruct (dump_wf_spec s DW) as [ED WF]. split; [exact ED|]. split; [exact WF|].
    assert (LH : bcmp (encode a 0) (encode b 0) = Lt).
    { rewrite encode_cmp by (assumption || reflexivity). unfold kr_cmp. rewrite Lab. reflexivity. }
    destruct (c13_adjust _ a _ Aa T) as (cs & NE & AD & CH & IP & LS).
    exists cs. split; [exact AD|]. split.
    - apply chain_bounds_magic; try assumption; [apply encode_magic|rewrite LS; apply encode_magic].
    - intros p [<-|[]]. cbn [fst snd]. rewrite !encode_magic, LH. repeat split; discriminate.
  Qed.

  Lemma c13_group_list_sound rev : floor_check fv (eff rev cur) = FOk ->
    let K := in_range a b (snapshot V (eff rev cur)) in
    list_model s fv single_part cur a b rev 0 = LResp cur K false /\
    list_model s fv parts cur a b rev 0 = LResp cur K false.
  Proof.
    intros FL. cbn zeta. destruct dump_bounds as (ED & WF & cs & AD & BM & SM).
    assert (B : b <> []) by (intros ->; exact (bcmp_nil_r a Lab)).
    split.
    - transitivity (list_model (raw_of V) fv single_part cur a b rev 0).
      + rewrite <- ED. unfold list_model. destruct b as [|b0 b']; [contradiction|]. destruct (negb (bltb a (b0 :: b'))); [reflexivity|].
        cbn [Z.ltb Z.compare]. unfold range. cbn [Z.ltb Z.compare].
        rewrite (scan_data s fv single_part _ _ _ (RCommon 0 []) _ (adjust_single _ _) SM). reflexivity.
      + rewrite (list_model_single V fv cur a b rev 0 WF Aa Ab Lab FL ltac:(unfold max_i64; lia)). reflexivity.
    - transitivity (list_model (raw_of V) fv parts cur a b rev 0).
      + rewrite <- ED. unfold list_model. destruct b as [|b0 b']; [contradiction|]. destruct (negb (bltb a (b0 :: b'))); [reflexivity|].
        cbn [Z.ltb Z.compare]. unfold range. cbn [Z.ltb Z.compare].
        rewrite (scan_data s fv parts _ _ _ (RCommon 0 []) _ AD BM). reflexivity.
      + apply c13_range; assumption.
  Qed.

  Lemma c13_group_count_sound : floor_check fv cur = FOk ->
    count_model s fv parts true cur a b = CResp cur (N.of_nat (length (in_range a b (snapshot V cur)))).
  Proof.
    intros FLc. destruct dump_bounds as (ED & WF & cs & AD & BM & SM).
    transitivity (count_model (raw_of V) fv parts true cur a b).
    - rewrite <- ED. unfold count_model. cbn [negb]. rewrite (scan_data s fv parts _ _ _ RCount _ AD BM). reflexivity.
    - apply c13_count; assumption.
  Qed.

  (* the stream model on the dump is the stream model on the store the dump decodes to *)
  Lemma stream_model_data rev :
    stream_model s fv parts cur (encode a 0) (encode b 0) rev = stream_model (raw_of V) fv parts cur (encode a 0) (encode b 0) rev.
  Proof.
    destruct dump_bounds as (ED & WF & cs & AD & BM & SM). rewrite <- ED. unfold stream_model.
    rewrite (scan_data s fv parts _ _ _ _ _ AD BM). reflexivity.
  Qed.
End DumpLevel.

(* ---------- List / Count clauses of the C13 oracle ---------- *)
(* On a dump that passes the executable well-formedness test, with the engine's recorded answer a tiling:
   the unpartitioned List, the partitioned List and the partitioned Count the model computes on the dump
   are the in-range snapshot of the dump's versions — i.e. the first three clauses of group_verdict hold
   for every group whose responses the model reproduces. *)
Theorem c13_group_list_count_sound s fv parts cur a b rev :
  dump_wf s = true -> alpha a -> alpha b -> bcmp a b = Lt -> valid_parts parts a b ->
  floor_check fv (eff rev cur) = FOk -> floor_check fv cur = FOk ->
  let V := versions_of (data_of s) in
  let K := in_range a b (snapshot V (eff rev cur)) in
  list_model s fv single_part cur a b rev 0 = LResp cur K false /\
  list_model s fv parts cur a b rev 0 = LResp cur K false /\
  count_model s fv parts true cur a b = CResp cur (N.of_nat (length (in_range a b (snapshot V cur)))).
Proof.
  intros DW Aa Ab Lab T FL FLc. cbn zeta.
  destruct (c13_group_list_sound s fv parts cur a b DW Aa Ab Lab T rev FL) as [L1 L2].
  split; [exact L1|]. split; [exact L2|]. apply c13_group_count_sound; assumption.
Qed.
