(* At most one elector believes it leads within a lease (timed model of Model/Lease.v). *)
From KB Require Import Base.Cases Model.Lease.
Local Open Scope N_scope.

(* ---------- lists ---------- *)
Lemma split_cmp {A} (l1 : list A) x l2 : forall m1 y m2,
  l1 ++ x :: l2 = m1 ++ y :: m2 ->
  (l1 = m1 /\ x = y /\ l2 = m2) \/
  (exists k, m1 = l1 ++ x :: k /\ l2 = k ++ y :: m2) \/
  (exists k, l1 = m1 ++ y :: k /\ m2 = k ++ x :: l2).
Proof.
  induction l1 as [|a l1 IH]; intros [|b m1] y m2 H; simpl in H.
  - injection H as E1 E2. subst. left. auto.
  - injection H as E1 E2. subst. right. left. exists m1. auto.
  - injection H as E1 E2. subst. right. right. exists l1. auto.
  - injection H as E1 H. subst b. destruct (IH m1 y m2 H) as [[E [Ex El]]|[[k [E El]]|[k [E El]]]]; subst.
    + left. auto.
    + right. left. exists k. auto.
    + right. right. exists k. auto.
Qed.

(* ---------- the chain ---------- *)
Lemma chain_mono L l : forall p y, chain_ok L p l -> In y l -> w_time p <= w_time y.
Proof.
  induction l as [|x tl IH]; intros p y C Hin; [destruct Hin|]. cbn [chain_ok] in C. destruct C as [[T _] C].
  destruct Hin as [<-|Hin]; [exact T|]. specialize (IH x y C Hin). lia.
Qed.

Lemma chain_suffix L l1 : forall p x r, chain_ok L p (l1 ++ x :: r) -> chain_ok L x r.
Proof.
  induction l1 as [|a l1 IH]; intros p x r C; cbn [app chain_ok] in C; destruct C as [_ C]; [exact C|].
  exact (IH a x r C).
Qed.

Lemma lease_suffix L ws l1 x r : lease_ok L ws -> ws = l1 ++ x :: r -> chain_ok L x r.
Proof.
  intros H ->. destruct l1 as [|p l1]; cbn [app lease_ok] in H; destruct H as [_ C]; [exact C|].
  exact (chain_suffix L l1 p x r C).
Qed.

(* whoever writes over a record that elector c holds — c not having released in between — does so
   at least a lease after c's write *)
Lemma wait_lemma L c y m : forall k x,
  chain_ok L x (k ++ y :: m) -> w_holder x = Some c -> w_by y <> c ->
  Forall (fun z => w_by z = c -> w_holder z = Some c) k ->
  w_time x + L <= w_time y.
Proof.
  induction k as [|z k IH]; intros x C Hx Hy F; cbn [app chain_ok] in C; destruct C as [[T [_ W]] C].
  - rewrite Hx in W. apply W. congruence.
  - apply Forall_cons_iff in F as [Fz F].
    assert (Tzy : w_time z <= w_time y) by (apply (chain_mono L (k ++ y :: m) z y C); apply in_or_app; right; left; reflexivity).
    destruct (N.eq_dec (w_by z) c) as [E|Ne].
    + specialize (IH z C (Fz E) Hy F). lia.
    + rewrite Hx in W. assert (w_time x + L <= w_time z) by (apply W; congruence). lia.
Qed.

(* ---------- the statement users rely on ---------- *)
Lemma one_leader_ordered L B ws c d t l1 x k y m2 :
  lease_ok L ws -> B <= L ->
  ws = l1 ++ x :: k ++ y :: m2 ->
  w_by x = c -> w_holder x = Some c -> t < w_time x + B ->
  Forall (fun z => w_time z <= t -> w_by z = c -> w_holder z = Some c) (k ++ y :: m2) ->
  w_by y = d -> w_time y <= t -> c <> d -> False.
Proof.
  intros Hok HBL Hws Hxc Hxh Ht F Hyd Hyt Hcd.
  pose proof (lease_suffix L ws l1 x (k ++ y :: m2) Hok Hws) as C.
  assert (Fk : Forall (fun z => w_by z = c -> w_holder z = Some c) k).
  { apply Forall_app in F as [F _]. rewrite Forall_forall in *. intros z Hz. apply F; [exact Hz|].
    assert (w_time z <= w_time y); [|lia].
    apply in_split in Hz as [k1 [k2 ->]]. rewrite <- app_assoc in C. cbn [app] in C.
    pose proof (chain_suffix L k1 x z (k2 ++ y :: m2) C) as Cz.
    apply (chain_mono L (k2 ++ y :: m2) z y Cz). apply in_or_app. right. left. reflexivity. }
  assert (w_time x + L <= w_time y) by (apply (wait_lemma L c y m2 k x C Hxh); [congruence|exact Fk]).
  lia.
Qed.

Lemma one_leader L B ws c d t :
  lease_ok L ws -> B <= L -> believes B ws c t -> believes B ws d t -> c = d.
Proof.
  intros Hok HBL [l1 [x [l2 [E1 [Xc [Xh [Xt [Xb XF]]]]]]]] [m1 [y [m2 [E2 [Yd [Yh [Yt [Yb YF]]]]]]]].
  destruct (N.eq_dec c d) as [E|Ne]; [exact E|exfalso].
  rewrite E1 in E2. destruct (split_cmp l1 x l2 m1 y m2 E2) as [[_ [<- _]]|[[k [-> ->]]|[k [-> ->]]]].
  - congruence.
  - exact (one_leader_ordered L B ws c d t l1 x k y m2 Hok HBL E1 Xc Xh Xb XF Yd Yt Ne).
  - rewrite <- app_assoc in E1. cbn [app] in E1.
    refine (one_leader_ordered L B ws d c t m1 y k x l2 Hok HBL _ Yd Yh Yb YF Xc Xt _); [|congruence].
    rewrite E1. reflexivity.
Qed.

(* ---------- where step_ok comes from: the elector's guard ---------- *)
(* an elector cannot have seen a record before it was written *)
Definition seen_ok (s : estate) : Prop :=
  match e_rec s with Some r => w_time r <= e_seen s | None => True end.

Lemma observe_seen_ok s now r : seen_ok s -> w_time r <= now -> seen_ok (observe s now r).
Proof.
  unfold seen_ok, observe. intros H T. destruct (e_rec s) as [r0|] eqn:E; [|simpl; exact T].
  destruct (wr_eqb r0 r); [rewrite E; exact H|simpl; exact T].
Qed.

(* an elector whose guard lets it write at `now` over the record r it observed satisfies, with the
   chain property (its write is applied only if r is still the stored record), the lease clause *)
Lemma guard_gives_step L me s now r :
  seen_ok s -> e_rec s = Some r -> may_write L me s now = true ->
  match w_holder r with Some h => h <> me -> w_time r + L <= now | None => True end.
Proof.
  unfold seen_ok, may_write. intros S E G. rewrite E in S, G. destruct (w_holder r) as [h|]; [|exact I].
  intros Ne. apply orb_true_iff in G as [G|G]; [apply N.eqb_eq in G; congruence|]. apply N.leb_le in G. lia.
Qed.

(* ---------- the timed system produces lease_ok logs ---------- *)
Definition wfh (x : wr) : Prop := w_holder x = Some (w_by x) \/ w_holder x = None.

(* lease_ok on a NEWEST-first log *)
Fixpoint lease_ok_rev (L : N) (log : list wr) : Prop :=
  match log with
  | [] => True
  | x :: tl => wfh x /\ match tl with [] => True | p :: _ => step_ok L p x end /\ lease_ok_rev L tl
  end.

Lemma last_default {A} (l : list A) a b : l <> [] -> last l a = last l b.
Proof.
  induction l as [|x l IH]; intros H; [congruence|]. destruct l as [|y l]; [reflexivity|].
  change (last (x :: y :: l) a) with (last (y :: l) a). change (last (x :: y :: l) b) with (last (y :: l) b).
  apply IH. discriminate.
Qed.

Lemma chain_snoc L x : forall l p, chain_ok L p l -> step_ok L (last l p) x -> chain_ok L p (l ++ [x]).
Proof.
  induction l as [|a l IH]; intros p C S; [cbn in *; auto|].
  cbn [app chain_ok] in *. destruct C as [Sa C]. split; [exact Sa|]. apply IH; [exact C|].
  destruct l as [|b l]; [exact S|].
  change (last (a :: b :: l) p) with (last (b :: l) p) in S.
  rewrite (last_default (b :: l) a p); [exact S|discriminate].
Qed.

Lemma last_rev_cons {A} (p : A) tl d : last (rev (p :: tl)) d = p.
Proof. cbn [rev]. apply last_last. Qed.

Lemma lease_ok_of_rev L log : lease_ok_rev L log -> lease_ok L (rev log).
Proof.
  induction log as [|x tl IH]; intros H; [exact I|]. cbn [lease_ok_rev] in H. destruct H as [Wx [S H]].
  specialize (IH H). cbn [rev]. destruct tl as [|p tl'].
  - cbn. auto.
  - pose proof (last_rev_cons p tl' x) as Lp.
    destruct (rev (p :: tl')) as [|q r] eqn:R.
    + exfalso. apply (f_equal (@length _)) in R. rewrite rev_length in R. discriminate.
    + cbn [app lease_ok] in *. destruct IH as [Wq C]. split; [exact Wq|].
      apply chain_snoc; [exact C|].
      replace (last r q) with p; [exact S|].
      destruct r as [|a r]; [cbn in Lp |- *; congruence|].
      change (last (q :: a :: r) x) with (last (a :: r) x) in Lp.
      rewrite (last_default (a :: r) q x); [congruence|discriminate].
Qed.

Definition head_is (st : option wr) (log : list wr) : Prop :=
  match log with [] => st = None | x :: _ => st = Some x end.

Record TInv (L : N) (s : tsys) : Prop := mkTInv {
  ti_head  : head_is (t_stored s) (t_log s);
  ti_times : Forall (fun x => w_time x <= t_now s) (t_log s);
  ti_seen  : forall c, seen_ok (t_els s c);
  ti_lease : lease_ok_rev L (t_log s)
}.

Lemma tinv0 L : TInv L tsys0.
Proof. constructor; cbn; auto. Qed.

Lemma wr_eqb_eq a b : wr_eqb a b = true -> a = b.
Proof.
  destruct a as [a1 a2 a3], b as [b1 b2 b3]. unfold wr_eqb; cbn. intros H.
  apply andb_true_iff in H as [H H3]. apply andb_true_iff in H as [H1 H2].
  apply N.eqb_eq in H1, H3.
  assert (a2 = b2) by (destruct a2, b2; cbn in H2; try discriminate; [apply N.eqb_eq in H2; congruence|reflexivity]).
  congruence.
Qed.

Lemma owr_eqb_eq a b : owr_eqb a b = true -> a = b.
Proof. destruct a, b; cbn; try discriminate; [intros H; f_equal; apply wr_eqb_eq; exact H|reflexivity]. Qed.

Lemma tinv_step L s l : TInv L s -> TInv L (tstep L s l).
Proof.
  intros [Hh Ht Hs Hl]. destruct l as [n|c|c rel]; cbn [tstep].
  - constructor; cbn [t_now t_stored t_log t_els]; auto.
    rewrite Forall_forall in *. intros x Hx. specialize (Ht x Hx). lia.
  - destruct (t_stored s) as [r|] eqn:St; constructor; cbn [t_now t_stored t_log t_els]; auto; try (rewrite St; exact Hh).
    + intros x. unfold upd_e. destruct (x =? c); [|apply Hs]. apply observe_seen_ok; [apply Hs|].
      unfold head_is in Hh. destruct (t_log s) as [|y tl]; [discriminate|]. injection Hh as ->.
      apply Forall_cons_iff in Ht as [Ht _]. exact Ht.
    + intros x. unfold upd_e. destruct (x =? c); [exact I|apply Hs].
  - set (e := t_els s c).
    destruct ((if rel then match e_rec e with Some r => opt_eqb N.eqb (w_holder r) (Some c) | None => false end
               else may_write L c e (t_now s)) && owr_eqb (t_stored s) (e_rec e)) eqn:G; [|constructor; assumption].
    apply andb_true_iff in G as [Ga Gc]. apply owr_eqb_eq in Gc.
    constructor; cbn [t_now t_stored t_log t_els].
    + reflexivity.
    + constructor; [cbn; lia|exact Ht].
    + intros x. unfold upd_e. destruct (x =? c); [cbn; lia|apply Hs].
    + cbn [lease_ok_rev]. split; [unfold wfh; cbn; destruct rel; auto|]. split; [|exact Hl].
      destruct (t_log s) as [|p tl] eqn:Lg; [exact I|].
      unfold head_is in Hh. rewrite Hh in Gc.
      apply Forall_cons_iff in Ht as [Tp _].
      unfold step_ok; cbn [w_time w_by w_holder]. split; [exact Tp|]. split; [destruct rel; auto|].
      destruct rel.
      * (* release: the elector observes itself as the holder *)
        rewrite <- Gc in Ga. destruct (w_holder p) as [h|]; [|exact I]. cbn in Ga. apply N.eqb_eq in Ga. congruence.
      * pose proof (guard_gives_step L c e (t_now s) p (Hs c) (eq_sym Gc) Ga) as W. exact W.
Qed.

Lemma tinv_run L ls : forall s, TInv L s -> TInv L (trun L s ls).
Proof. induction ls as [|l ls IH]; intros s H; [exact H|]. cbn [trun fold_left]. apply IH, tinv_step, H. Qed.

(* for every run of the timed system — any number of electors, any interleaving of observations,
   writes, releases and the passing of time — at most one elector believes it leads at any instant *)
Lemma one_leader_timed L B ls c d t :
  B <= L ->
  let ws := rev (t_log (trun L tsys0 ls)) in
  believes B ws c t -> believes B ws d t -> c = d.
Proof.
  intros HBL ws. apply (one_leader L B ws c d t); [|exact HBL].
  apply lease_ok_of_rev. apply (ti_lease L _ (tinv_run L ls tsys0 (tinv0 L))).
Qed.

(* what ties the timed system to the lock model: a TWrite is applied under exactly the rule Election.v's
   Create / Update obey (C14_update_sound, C14_create_unique): the stored record is still the one the
   elector observed (absent for a create) — plus the elector's own guard *)
Lemma twrite_applied_iff L s c rel :
  t_log (tstep L s (TWrite c rel)) <> t_log s <->
  ((if rel then match e_rec (t_els s c) with Some r => opt_eqb N.eqb (w_holder r) (Some c) | None => false end
    else may_write L c (t_els s c) (t_now s)) = true /\ t_stored s = e_rec (t_els s c)).
Proof.
  cbn [tstep].
  set (g := if rel then match e_rec (t_els s c) with Some r => opt_eqb N.eqb (w_holder r) (Some c) | None => false end
            else may_write L c (t_els s c) (t_now s)).
  destruct g eqn:G; cbn [andb].
  - destruct (owr_eqb (t_stored s) (e_rec (t_els s c))) eqn:E.
    + split; [intros _; split; [reflexivity|apply owr_eqb_eq; exact E]|].
      intros _. cbn [t_log]. intros H. apply (f_equal (@length _)) in H. cbn in H. lia.
    + split; [intros H; exfalso; apply H; reflexivity|].
      intros [_ H]. rewrite H in E. exfalso.
      assert (R : forall o, owr_eqb o o = true).
      { intros [w|]; [|reflexivity]. cbn. destruct w as [a [h|] t]; unfold wr_eqb; cbn; rewrite !N.eqb_refl; reflexivity. }
      rewrite R in E. discriminate.
  - split; [intros H; exfalso; apply H; reflexivity|intros [H _]; discriminate].
Qed.
