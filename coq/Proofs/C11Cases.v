(* From the per-operation simulation (Proofs/Adapters.v: sim) to whole operation sequences: the contract oracle
   accepts every run of an adapter model that stays outside the recorded deviations; hence c11_oracle_sound. *)
From KB Require Import Base.Cases Model.Store Model.Adapters Model.C11Cases Proofs.Store Proofs.AdapterLists Proofs.Adapters.
Local Open Scope N_scope.

(* ---------- boolean equalities ---------- *)

Lemma rclass_eqb_eq a b : rclass_eqb a b = true <-> a = b.
Proof. destruct a, b; cbn; split; congruence. Qed.

Lemma list_eqb_eq {X} (eqb : X -> X -> bool) (l1 l2 : list X) :
  (forall x y, eqb x y = true -> x = y) -> list_eqb eqb l1 l2 = true -> l1 = l2.
Proof.
  intros H. revert l2. induction l1 as [|a t IH]; intros [|b u]; cbn [list_eqb]; try discriminate; [reflexivity|].
  intros E. apply andb_true_iff in E as [E1 E2]. f_equal; [apply H; exact E1|apply IH; exact E2].
Qed.

Lemma opt_eqb_eq {X} (eqb : X -> X -> bool) (a b : option X) :
  (forall x y, eqb x y = true -> x = y) -> opt_eqb eqb a b = true -> a = b.
Proof. intros H. destruct a, b; cbn; try discriminate; [|reflexivity]. intros E. f_equal. apply H. exact E. Qed.

Lemma kv_eqb_eq x y : kv_eqb x y = true -> x = y.
Proof.
  destruct x, y. unfold kv_eqb. cbn [fst snd]. intros E. apply andb_true_iff in E as [E1 E2].
  apply beqb_eq in E1, E2. congruence.
Qed.

Lemma kv_eqb_refl x : kv_eqb x x = true.
Proof. unfold kv_eqb. rewrite !beqb_refl. reflexivity. Qed.

Lemma store_eqb_eq x y : store_eqb x y = true -> x = y.
Proof. apply list_eqb_eq. exact kv_eqb_eq. Qed.

Lemma store_eqb_refl x : store_eqb x x = true.
Proof. induction x as [|a t IH]; [reflexivity|]. cbn. rewrite kv_eqb_refl. exact IH. Qed.

Lemma conflict_eqb_eq x y : conflict_eqb x y = true -> x = y.
Proof.
  destruct x as [[i k] v], y as [[i' k'] v']. unfold conflict_eqb. cbn [fst snd]. intros E.
  apply andb_true_iff in E as [E E3]. apply andb_true_iff in E as [E1 E2].
  apply Nat.eqb_eq in E1. apply beqb_eq in E2.
  apply (opt_eqb_eq beqb) in E3; [congruence|]. intros a b H. apply beqb_eq. exact H.
Qed.

Lemma obs_eqb_eq x y : obs_eqb x y = true -> x = y.
Proof.
  destruct x, y; cbn [obs_eqb]; try discriminate; intros E;
    repeat match goal with H : _ && _ = true |- _ => apply andb_true_iff in H as [? ?] end;
    repeat match goal with
           | H : rclass_eqb _ _ = true |- _ => apply rclass_eqb_eq in H
           | H : opt_eqb conflict_eqb _ _ = true |- _ => apply (opt_eqb_eq _ _ _ conflict_eqb_eq) in H
           | H : beqb _ _ = true |- _ => apply beqb_eq in H
           | H : store_eqb _ _ = true |- _ => apply store_eqb_eq in H
           | H : Bool.eqb _ _ = true |- _ => apply Bool.eqb_prop in H
           end; congruence.
Qed.

(* ---------- prefixes ---------- *)

Lemma is_prefix_firstn n (l : store) : is_prefix (firstn n l) l = true.
Proof.
  revert l. induction n as [|n IH]; intros [|a t]; cbn [firstn is_prefix]; try reflexivity.
  rewrite kv_eqb_refl. apply IH.
Qed.

Lemma firstn_firstn_min {X} a b (l : list X) : firstn a (firstn b l) = firstn (Nat.min a b) l.
Proof. apply firstn_firstn. Qed.

Lemma nth_error_firstn_lt {X} (l : list X) n j : (j < n)%nat -> nth_error (firstn n l) j = nth_error l j.
Proof.
  revert l j. induction n as [|n IH]; intros l j H; [lia|].
  destruct l as [|a t]; [destruct j; reflexivity|]. destruct j as [|j]; [reflexivity|].
  cbn [firstn nth_error]. apply IH. lia.
Qed.

Lemma proj_ok_none ops r c cf : batch_proj_ok ops r c cf = true -> batch_proj_ok ops r c None = true.
Proof.
  destruct r; cbn [batch_proj_ok]; intros H; apply andb_true_iff in H as [H _]; rewrite H; reflexivity.
Qed.

Lemma skipn_S_fold {X} j (l : list X) : match l with [] => [] | _ :: l0 => skipn j l0 end = skipn (S j) l.
Proof. destruct l; reflexivity. Qed.

Lemma firstn_S_fold {X} j (l : list X) : match l with [] => [] | a :: l0 => a :: firstn j l0 end = firstn (S j) l.
Proof. destruct l; reflexivity. Qed.

(* ---------- one step, then a sequence ---------- *)

Section Gen.
Context {A : adapter} {m : dcmode} (S : sim A m) (fnd : list bop -> rclass -> N).

Definition held_ok (h : option item) : Prop := forall i, h = Some i -> item_ok A m S i.
Definition sop_ok (o : sop) : Prop := match o with SBatch l | SHoldDrain _ _ _ _ l => okb_s A m S l | _ => True end.
Definition not_panic (ob : obs) : Prop :=
  match ob with OBatch RPanic _ | ODelCur RPanic _ | OHoldDrain RPanic _ _ _ _ => False | _ => True end.

Lemma batch_step s c (h : option item) ops :
  sim_R A m S s c -> okb A m S ops ->
  exists c', (let r := batch_eval m c ops in
              if batch_proj_ok ops r (snd (fst (a_batch A s ops))) (snd (a_batch A s ops))
              then inl (match r with Applied cs' => cs' | CondFailed _ _ => c end, h)
              else inr (fnd ops (snd (fst (a_batch A s ops))))) = inl (c', h) /\
             sim_R A m S (fst (fst (a_batch A s ops))) c'.
Proof.
  intros HR Hok. destruct (sim_batch A m S s c ops HR Hok) as [Hp Hrel]. cbn zeta. rewrite Hp.
  destruct (batch_eval m c ops) as [c1|i a].
  - exists c1. split; [reflexivity|exact Hrel].
  - exists c. split; [reflexivity|exact Hrel].
Qed.

(* what an iterator delivers before and after a batch, against the contract state at its creation *)
Lemma holddrain_cond s c a b l j : sim_R A m S s c ->
  rclass_eqb ROk ROk &&
  is_prefix (map item_kv (firstn (Datatypes.S j) (a_iter A s a b l)) ++ map item_kv (skipn (Datatypes.S j) (a_iter A s a b l)))
            (map item_kv (citems m c a b)) &&
  Nat.leb (min_count l (length (citems m c a b)))
          (length (map item_kv (firstn (Datatypes.S j) (a_iter A s a b l)) ++ map item_kv (skipn (Datatypes.S j) (a_iter A s a b l)))) &&
  Nat.leb (length (map item_kv (firstn (Datatypes.S j) (a_iter A s a b l)))) (Datatypes.S j) = true.
Proof.
  intros HR. destruct (sim_iter A m S s c a b l HR) as [n [Hn Hle]].
  pose proof (min_count_le l (length (citems m c a b))) as Hmc.
  rewrite <- map_app, firstn_skipn, Hn, <- firstn_map, is_prefix_firstn. cbn [rclass_eqb andb].
  rewrite ?map_length, ?firstn_length, ?map_length.
  assert (H1 : Nat.leb (min_count l (length (citems m c a b))) (Nat.min n (length (citems m c a b))) = true)
    by (apply Nat.leb_le; lia).
  assert (H2 : Nat.leb (Nat.min (Datatypes.S j) (Nat.min n (length (citems m c a b)))) (Datatypes.S j) = true)
    by (apply Nat.leb_le; lia).
  rewrite H1, H2. reflexivity.
Qed.

Lemma step_sim s c h o s' h' ob :
  sim_R A m S s c -> held_ok h -> sop_ok o -> a_step A s h o = (s', h', ob) -> not_panic ob ->
  exists c', o_step_gen m fnd c h o ob = inl (c', h') /\ sim_R A m S s' c' /\ held_ok h'.
Proof.
  intros HR Hh Ho Hstep Hnp. destruct o as [l|k|k|a b l|a b l j| |a b l j bl]; cbn [a_step] in Hstep.
  - (* batch *)
    destruct (resolve_all h l) as [ops|] eqn:Er.
    + pose proof (okb_resolve A m S h l ops Ho Hh Er) as Hok.
      destruct (batch_step s c h ops HR Hok) as [c' [He Hr']].
      destruct (a_batch A s ops) as [[s1 cl] cf] eqn:Eb. injection Hstep as <- <- <-.
      exists c'. cbn [o_step_gen]. rewrite Er. cbn [fst snd] in He, Hr'. split; [exact He|]. split; assumption.
    + injection Hstep as <- <- <-. destruct Hnp.
  - (* get *)
    rewrite (sim_get A m S s c k HR) in Hstep. unfold get_result in Hstep. cbn [o_step_gen].
    destruct (get (st c) k) as [x|]; injection Hstep as <- <- <-; exists c; cbn [rclass_eqb andb].
    + rewrite beqb_refl. repeat split; assumption.
    + repeat split; assumption.
  - (* del *)
    rewrite (sim_del A m S s k) in Hstep. injection Hstep as <- <- <-.
    destruct (batch_step s c h [Del k] HR (okb_del A m S k)) as [c' [He Hr']].
    exists c'. cbn [o_step_gen]. cbn zeta in He.
    destruct (batch_proj_ok [Del k] (batch_eval m c [Del k]) (snd (fst (a_batch A s [Del k]))) (snd (a_batch A s [Del k]))) eqn:Ep;
      [|discriminate].
    rewrite (proj_ok_none _ _ _ _ Ep). split; [exact He|]. split; assumption.
  - (* iter *)
    injection Hstep as <- <- <-. destruct (sim_iter A m S s c a b l HR) as [n [Hn Hle]].
    exists c. cbn [o_step_gen rclass_eqb andb]. rewrite Hn, <- firstn_map, is_prefix_firstn. cbn [andb].
    rewrite firstn_length, map_length.
    assert (Hmin : (min_count l (length (citems m c a b)) <= Nat.min n (length (citems m c a b)))%nat).
    { pose proof (min_count_le l (length (citems m c a b))). lia. }
    apply Nat.leb_le in Hmin. rewrite Hmin. repeat split; assumption.
  - (* hold *)
    destruct (sim_iter A m S s c a b l HR) as [n [Hn Hle]]. rewrite Hn in Hstep.
    set (all := citems m c a b) in *.
    pose proof (min_count_le l (length all)) as Hmc.
    destruct (Nat.leb (Datatypes.S j) (length (firstn n all))) eqn:El; injection Hstep as <- <- <-.
    + apply Nat.leb_le in El. rewrite firstn_length in El.
      exists c. cbn [o_step_gen rclass_eqb andb]. fold all. rewrite !firstn_S_fold.
      rewrite firstn_firstn, <- firstn_map, is_prefix_firstn. cbn [andb].
      rewrite firstn_length, map_length.
      replace (Nat.min (Nat.min (Datatypes.S j) n) (length all)) with (Datatypes.S j) by lia.
      rewrite Nat.eqb_refl. rewrite nth_error_firstn_lt by lia.
      split; [reflexivity|]. split; [exact HR|].
      intros i Hi. apply nth_error_In in Hi. eapply (sim_item A m S); eauto.
    + apply Nat.leb_gt in El. rewrite firstn_length in El.
      exists c. cbn [o_step_gen rclass_eqb andb]. fold all. rewrite !firstn_S_fold.
      rewrite firstn_firstn, <- firstn_map, is_prefix_firstn. cbn [andb].
      rewrite firstn_length, map_length.
      assert (H1 : Nat.leb (min_count l (length all)) (Nat.min (Nat.min (Datatypes.S j) n) (length all)) = true)
        by (apply Nat.leb_le; lia).
      assert (H2 : Nat.leb (Nat.min (Nat.min (Datatypes.S j) n) (length all)) j = true) by (apply Nat.leb_le; lia).
      rewrite H1, H2. cbn [andb]. split; [reflexivity|]. split; [exact HR|]. intros i Hi. discriminate.
  - (* DelCurrent *)
    destruct h as [i|].
    + rewrite (sim_delcur A m S s i) in Hstep.
      pose proof (okb_delcur A m S i (Hh i eq_refl)) as Hok.
      destruct (batch_step s c (Some i) [item_bop i] HR Hok) as [c' [He Hr']].
      destruct (a_batch A s [item_bop i]) as [[s1 cl] cf] eqn:Eb. injection Hstep as <- <- <-.
      exists c'. cbn [o_step_gen]. cbn [fst snd] in He, Hr'. split; [exact He|]. split; assumption.
    + injection Hstep as <- <- <-. destruct Hnp.
  - (* hold, batch, drain: the iterator's output belongs to the state before the batch *)
    destruct (resolve_all h bl) as [ops|] eqn:Er.
    + pose proof (okb_resolve A m S h bl ops Ho Hh Er) as Hok.
      destruct (batch_step s c h ops HR Hok) as [c' [He Hr']].
      destruct (sim_iter A m S s c a b l HR) as [n [Hn Hle]].
      destruct (a_batch A s ops) as [[s1 cl] cf] eqn:Eb. injection Hstep as <- <- <-.
      exists c'. cbn [o_step_gen rclass_eqb andb]. rewrite Er. cbn [fst snd] in He, Hr'.
      rewrite !firstn_S_fold, !skipn_S_fold.
      rewrite <- map_app, firstn_skipn, Hn, <- firstn_map, is_prefix_firstn. cbn [andb].
      rewrite ?map_length, ?firstn_length, ?map_length.
      pose proof (min_count_le l (length (citems m c a b))) as Hmc.
      assert (H1 : Nat.leb (min_count l (length (citems m c a b))) (Nat.min n (length (citems m c a b))) = true)
        by (apply Nat.leb_le; lia).
      assert (H2 : Nat.leb (Nat.min (Datatypes.S j) (Nat.min n (length (citems m c a b)))) (Datatypes.S j) = true)
        by (apply Nat.leb_le; lia).
      rewrite H1, H2. cbn [andb]. split; [exact He|]. split; assumption.
    + injection Hstep as <- <- <-. destruct Hnp.
Qed.

Lemma run_sim ops : forall s c h, sim_R A m S s c -> held_ok h -> Forall sop_ok ops ->
  Forall not_panic (snd (a_run A s h ops)) ->
  exists cf, o_run_gen m fnd c h (combine ops (snd (a_run A s h ops))) = inl cf /\
             sim_R A m S (fst (a_run A s h ops)) cf.
Proof.
  induction ops as [|o rest IH]; intros s c h HR Hh Hok Hnp.
  - exists c. split; [reflexivity|exact HR].
  - cbn [a_run] in *. destruct (a_step A s h o) as [[s1 h1] ob] eqn:Es.
    destruct (a_run A s1 h1 rest) as [sf obs] eqn:Er. cbn [fst snd combine o_run_gen] in *.
    inversion Hok as [|? ? Ho Hrest]; subst. inversion Hnp as [|? ? Hn1 Hn2]; subst.
    destruct (step_sim s c h o s1 h1 ob HR Hh Ho Es Hn1) as [c1 [He [HR1 Hh1]]]. rewrite He.
    specialize (IH s1 c1 h1 HR1 Hh1 Hrest). rewrite Er in IH. cbn [fst snd] in IH. apply IH. exact Hn2.
Qed.

End Gen.

(* ---------- the recorded deviations, as a predicate on a case ---------- *)

Definition sim_of (e : eng) : sim (adapter_of e) (mode_of e) :=
  match e with
  | EMem => sim_memkv
  | EBadger => sim_badger
  | ETiKV => sim_tikv
  | EWrapMem => sim_wrapper memkv ByValue sim_memkv
  | EWrapBadger => sim_wrapper badger ByVersion sim_badger
  | EWrapTiKV => sim_wrapper tikv ByValue sim_tikv
  end.

(* memkv, TiKV: no write of an empty value; Badger: no DelCurrent(held) after a write in the same batch;
   and no DelCurrent without a held iterator (which the model marks RPanic) *)
Definition c11_clean (c : c11_case) : Prop :=
  match c with
  | mk_c11 e steps _ =>
      Forall (sop_ok (sim_of e)) (map fst steps) /\ Forall not_panic (map snd steps)
  | KBigBatch _ _ _ _ _ _ => True
  | KWrapFault _ _ _ _ => True
  | KInterleave _ _ _ _ _ _ => True
  end.

(* validity is decidable, and the shards evaluate it *)
Lemma no_delcur_after_writeb_eq l w : no_delcur_after_writeb l w = no_delcur_after_write l w.
Proof. revert w. induction l as [|o t IH]; intros w; [reflexivity|]. destruct o; cbn; rewrite ?IH; reflexivity. Qed.

Lemma sbop_nonemptyb_ok o : sbop_nonemptyb o = true -> sbop_nonempty o.
Proof. destruct o as [k v t|k nv ov t|k v t|k|]; cbn; try (intros _; exact I); destruct v || destruct nv; try discriminate; intros _; discriminate. Qed.

Lemma sop_okb_ok e o : sop_okb e o = true -> sop_ok (sim_of e) o.
Proof.
  assert (Hb : forall l, sbatch_okb e l = true -> okb_s _ _ (sim_of e) l).
  { intros l. destruct e; cbn [sbatch_okb sim_of okb_s sim_memkv sim_tikv sim_badger sim_wrapper]; intros H; try exact I.
    - rewrite no_delcur_after_writeb_eq in H. exact H.
    - apply Forall_forall. intros x Hx. rewrite forallb_forall in H. apply sbop_nonemptyb_ok. apply H. exact Hx.
    - rewrite no_delcur_after_writeb_eq in H. exact H.
    - apply Forall_forall. intros x Hx. rewrite forallb_forall in H. apply sbop_nonemptyb_ok. apply H. exact Hx. }
  destruct o as [l|k|k|a b l|a b l j| |a b l j bl]; try (intros _; exact I); cbn [sop_okb sop_ok]; apply Hb.
Qed.

Lemma not_panicb_ok ob : not_panicb ob = true -> not_panic ob.
Proof. destruct ob as [c cf|c v|c|c o|c o h|c cf|c x bc bcf y]; try (intros _; exact I); destruct c; cbn; try discriminate; intros _; exact I. Qed.

Lemma c11_cleanb_ok c : c11_cleanb c = true -> c11_clean c.
Proof.
  destruct c as [e steps final| | |]; cbn [c11_cleanb c11_clean]; try (intros _; exact I).
  intros H. apply andb_true_iff in H as [H1 H2]. rewrite forallb_forall in H1, H2. split; apply Forall_forall; intros x Hx.
  - apply sop_okb_ok. apply H1. exact Hx.
  - apply not_panicb_ok. apply H2. exact Hx.
Qed.

(* what the two-transaction models predict is serialisable, on every engine *)
Lemma il_expected_ok e variant : il_oracle e (il_expected e variant) = None.
Proof. destruct e; destruct variant as [|[p|p|]]; vm_compute; reflexivity. Qed.

(* regression: the answer Badger gave before the repair of finding C11-F4 (its own conflict error, class other) is
   rejected *)
Lemma il_old_badger_rejected : il_oracle EBadger (true, ROther, false, true) = Some 0.
Proof. reflexivity. Qed.

Lemma il_obs_eqb_eq x y : il_obs_eqb x y = true -> x = y.
Proof.
  destruct x as [[[a c] o] g], y as [[[a' c'] o'] g']. unfold il_obs_eqb. intros H.
  apply andb_true_iff in H as [H Hg]. apply andb_true_iff in H as [H Ho]. apply andb_true_iff in H as [Ha Hc].
  apply Bool.eqb_prop in Ha, Ho, Hg. apply rclass_eqb_eq in Hc. congruence.
Qed.

Lemma combine_fst_snd {X Y} (l : list (X * Y)) : combine (map fst l) (map snd l) = l.
Proof. induction l as [|[a b] t IH]; [reflexivity|]. cbn. rewrite IH. reflexivity. Qed.

Lemma c11_oracle_sound c : c11_clean c -> c11_check c = true -> c11_oracle c = None.
Proof.
  destruct c as [e steps final|e n keylen failing cl visible|kind inj obs intact|e vr b2 c1 ot g2];
    cbn [c11_clean c11_check c11_oracle];
    [| |intros _ H; rewrite H; reflexivity
     |intros _ H; apply il_obs_eqb_eq in H; rewrite <- H; apply il_expected_ok].
  - intros [Hok Hnp] Hc.
    destruct (a_run (adapter_of e) (a_init (adapter_of e)) None (map fst steps)) as [sf obs] eqn:Er.
    apply andb_true_iff in Hc as [Ho Hf].
    apply (list_eqb_eq _ _ _ obs_eqb_eq) in Ho. apply store_eqb_eq in Hf. subst obs.
    pose proof (run_sim (sim_of e) (batch_finding e) (map fst steps) (a_init (adapter_of e)) (cs_of []) None
                  (sim_init _ _ (sim_of e))) as H.
    rewrite Er in H. cbn [fst snd] in H. rewrite combine_fst_snd in H.
    destruct H as [cf [Hrun HR]]; [intros i Hi; discriminate|exact Hok|exact Hnp|].
    unfold o_run. rewrite Hrun. rewrite <- (sim_dump _ _ (sim_of e) sf cf HR), Hf, store_eqb_refl. reflexivity.
  - intros _. unfold big_check, big_oracle. intros H. apply orb_true_iff in H as [H|H].
    + destruct failing; apply andb_true_iff in H as [H1 H2]; apply rclass_eqb_eq in H1; subst cl; rewrite H2; reflexivity.
    + apply andb_true_iff in H as [H1 H2]. apply rclass_eqb_eq in H1. subst cl. rewrite H2. reflexivity.
Qed.

(* ---------- the refinement statements ---------- *)

(* "A refines the contract read as m on the sequences `ok` admits": from related states, every operation sequence
   is accepted by the contract oracle step by step (result classes, put-if-absent payloads, iterator prefixes of
   sufficient length inside the interval and in order, compare-and-delete), and the final states are related again
   (in particular: the raw contents are the contract's map). *)
Definition refines_on (A : adapter) (m : dcmode) (R : a_state A -> cstore -> Prop) (ok : list sop -> Prop) : Prop :=
  forall fnd s c ops, R s c -> ok ops -> Forall not_panic (snd (a_run A s None ops)) ->
    exists cf, o_run_gen m fnd c None (combine ops (snd (a_run A s None ops))) = inl cf /\
               R (fst (a_run A s None ops)) cf.

Definition C11_full_statement (A : adapter) (m : dcmode) (R : a_state A -> cstore -> Prop) : Prop :=
  refines_on A m R (fun _ => True).

Lemma refines_of_sim A m (S : sim A m) : refines_on A m (sim_R A m S) (Forall (sop_ok S)).
Proof.
  intros fnd s c ops HR Hok Hnp. apply (run_sim S fnd ops s c None HR); [|exact Hok|exact Hnp].
  intros i Hi. discriminate.
Qed.

Definition seq_nonempty (ops : list sop) : Prop :=
  Forall (fun o => match o with SBatch l | SHoldDrain _ _ _ _ l => Forall sbop_nonempty l | _ => True end) ops.
Definition seq_fresh (ops : list sop) : Prop :=
  Forall (fun o => match o with SBatch l | SHoldDrain _ _ _ _ l => no_delcur_after_write l false = true | _ => True end) ops.

(* memkv: the unrestricted statement (the DelCurrent repair of finding C11-F3 has landed) *)
Lemma refines_memkv : C11_full_statement memkv ByValue mem_R.
Proof.
  intros fnd s c ops HR _ Hnp. apply (refines_of_sim memkv ByValue sim_memkv fnd s c ops HR); [|exact Hnp].
  apply Forall_forall. intros [] _; exact I.
Qed.
Lemma refines_tikv : refines_on tikv ByValue tikv_R seq_nonempty.
Proof. exact (refines_of_sim tikv ByValue sim_tikv). Qed.
Lemma refines_badger : refines_on badger ByVersion badger_R seq_fresh.
Proof. exact (refines_of_sim badger ByVersion sim_badger). Qed.
Lemma refines_wrapper A m (S : sim A m) : refines_on (wrapper A) m (sim_R A m S) (Forall (sop_ok S)).
Proof. exact (refines_of_sim (wrapper A) m (sim_wrapper A m S)). Qed.

(* the three deviations refute the unrestricted statements *)
Definition k_a : bytes := [97].
Definition wide_lo : bytes := [0].
Definition wide_hi : bytes := [255; 255; 255].

Definition f1_ops : list sop := [SBatch [BPutNX k_a [] 0]].
Definition f2_ops : list sop := [SBatch [BPut k_a [49] 0]; SHold wide_lo wide_hi 0 0; SBatch [BPut k_a [50] 0; BDelCurH]].
Definition f3_ops : list sop := [SBatch [BPut k_a [49] 0]; SBatch [BPut k_a [] 0]; SHold wide_lo wide_hi 0 0; SDel k_a; SDelCur].

Lemma refuted_by A m (R : a_state A -> cstore -> Prop) s c ops :
  R s c -> Forall not_panic (snd (a_run A s None ops)) ->
  (exists code, o_run_gen m (fun _ _ => 0) c None (combine ops (snd (a_run A s None ops))) = inr code) ->
  ~ C11_full_statement A m R.
Proof.
  intros HR Hnp [code Hc] H. destruct (H (fun _ _ => 0) s c ops HR I Hnp) as [cf [Hcf _]]. congruence.
Qed.

Lemma full_tikv_refuted : ~ C11_full_statement tikv ByValue tikv_R.
Proof.
  apply (refuted_by tikv ByValue tikv_R [] (cs_of []) f1_ops).
  - repeat split; constructor.
  - vm_compute. repeat constructor.
  - exists 0. vm_compute. reflexivity.
Qed.

Lemma full_badger_refuted : ~ C11_full_statement badger ByVersion badger_R.
Proof.
  apply (refuted_by badger ByVersion badger_R (mk_bstate [] 0) (cs_of []) f2_ops).
  - repeat split; constructor.
  - vm_compute. repeat constructor.
  - exists 0. vm_compute. reflexivity.
Qed.

(* the old witness of finding C11-F3 (DelCurrent of an empty-valued record whose key is gone) is now answered as the
   contract demands *)
Lemma f3_witness_accepted :
  exists cf, o_run_gen ByValue (fun _ _ => 0) (cs_of []) None (combine f3_ops (snd (a_run memkv [] None f3_ops))) = inl cf.
Proof. eexists. vm_compute. reflexivity. Qed.

Lemma c11_oracle_sound_checked c : c11_cleanb c = true -> c11_check c = true -> c11_oracle c = None.
Proof. intros H. apply c11_oracle_sound. apply c11_cleanb_ok. exact H. Qed.
