(* Lemmas for C16, part 5: a prefix watch from a start revision sees the same events on both sides
   (kind, key, value, mod revision, previous kv on deletes). *)
From Coq Require Import Sorted.
From KB Require Import Model.Etcd Model.C16Cases Proofs.Coder Proofs.Etcd Proofs.EtcdSim.
Local Open Scope Z_scope.

(* what the backend model records: a non-delete event carries its own revision in the kv; revisions
   are at most the current one *)
Definition ev_ok (now : N) (e : bevent) : Prop :=
  match e with
  | BEv BDelete rev _ _ kvrev => (rev <= now)%N /\ (kvrev <= now)%N
  | BEv _ rev _ _ kvrev => kvrev = rev /\ (rev <= now)%N
  end.
Definition evs_ok (sb : bstate) : Prop := Forall (ev_ok (b_rev sb)) (b_events sb).

Lemma ev_ok_mono now now' e : (now <= now')%N -> ev_ok now e -> ev_ok now' e.
Proof. intros H. destruct e as [[] rev k v kvrev]; cbn; intros [H1 H2]; split; try assumption; lia. Qed.

Lemma evs_ok_burn sb : evs_ok sb -> evs_ok (mkB (b_rev sb + 1) (b_kv sb) (b_events sb)).
Proof. unfold evs_ok; cbn. intros H. eapply Forall_impl; [|exact H]. intros e. apply ev_ok_mono. lia. Qed.

Lemma evs_ok_app sb kv e : evs_ok sb -> ev_ok (b_rev sb + 1) e -> evs_ok (mkB (b_rev sb + 1) kv (b_events sb ++ [e])).
Proof.
  unfold evs_ok; cbn. intros H He. apply Forall_app. split; [|constructor; [exact He|constructor]].
  eapply Forall_impl; [|exact H]. intros x. apply ev_ok_mono. lia.
Qed.

Lemma b_create_evs_ok sb k v t : t <> BDelete -> evs_ok sb -> evs_ok (fst (fst (b_create sb k v t))).
Proof.
  intros Ht H. unfold b_create. destruct (match bk_idx (b_find k (b_kv sb)) with None => true | Some (prev, tomb) => tomb && (prev <? b_rev sb + 1)%N end); cbn [fst].
  - apply evs_ok_app; [assumption|]. destruct t; try congruence; cbn; split; (reflexivity || lia).
  - apply evs_ok_burn. assumption.
Qed.

Lemma b_delete_evs_ok sb k e : (forall r v rest, bk_vers (b_find k (b_kv sb)) = (r, v) :: rest -> (r <= b_rev sb)%N) ->
  evs_ok sb -> evs_ok (fst (b_delete sb k e)).
Proof.
  intros Hv H. unfold b_delete. destruct (b_get (b_kv sb) k 0) as [|oldv modrev] eqn:Eg; cbn [fst]; [apply evs_ok_burn; assumption|].
  destruct (drift e (b_rev sb + 1)); cbn [fst]; [apply evs_ok_burn; assumption|].
  destruct ((0 <? e)%N && negb (e =? modrev)%N); cbn [fst]; [apply evs_ok_burn; assumption|].
  destruct (b_rev sb + 1 <=? modrev)%N eqn:El; cbn [fst]; [apply evs_ok_burn; assumption|].
  destruct (bk_idx (b_find k (b_kv sb))) as [[ir [|]]|]; cbn [fst]; try (apply evs_ok_burn; assumption).
  destruct (ir =? modrev)%N; cbn [fst]; [|apply evs_ok_burn; assumption].
  apply evs_ok_app; [assumption|]. cbn. apply N.leb_gt in El. split; lia.
Qed.

Lemma b_update_evs_ok sb k v e : evs_ok sb -> evs_ok (fst (b_update sb k v e)).
Proof.
  intros H. unfold b_update. destruct (e =? 0)%N.
  - pose proof (b_create_evs_ok sb k v BCreate ltac:(discriminate) H) as Hc.
    destruct (b_create sb k v BCreate) as [[st' rev] [|]]; cbn [fst] in *; [assumption|].
    destruct (b_get (b_kv st') k 0); cbn [fst]; assumption.
  - destruct (drift e (b_rev sb + 1)); cbn [fst]; [apply evs_ok_burn; assumption|].
    destruct (bk_idx (b_find k (b_kv sb))) as [[ir [|]]|]; cbn [fst].
    + destruct (b_get (b_kv sb) k 0); cbn [fst]; apply evs_ok_burn; assumption.
    + destruct (ir =? e)%N; cbn [fst].
      * apply evs_ok_app; [assumption|]. cbn. split; (reflexivity || lia).
      * destruct (b_get (b_kv sb) k 0); cbn [fst]; apply evs_ok_burn; assumption.
    + destruct (b_get (b_kv sb) k 0); cbn [fst]; apply evs_ok_burn; assumption.
Qed.

(* every transaction whatsoever keeps the event log well-formed (given the store's revisions are current) *)
Lemma shim_txn_evs_ok sb se t : R sb se -> evs_ok sb -> evs_ok (fst (shim_txn sb t)).
Proof.
  intros HR H. unfold shim_txn.
  assert (Hv : forall k r v rest, bk_vers (b_find k (b_kv sb)) = (r, v) :: rest -> (r <= b_rev sb)%N).
  { intros k r v rest E. pose proof (R_wf _ _ HR k) as Hw. unfold kwf in Hw. rewrite E in Hw.
    destruct (bk_idx (b_find k (b_kv sb))) as [[r0 tomb]|]; [|contradiction]. destruct Hw as (-> & _ & Hle & _). exact Hle. }
  destruct (isCreate t) as [p|].
  - destruct (p_ign_lease p || p_ign_val p || p_prev_kv p); [exact H|].
    pose proof (b_create_evs_ok sb (p_key p) (p_val p) BCreate ltac:(discriminate) H) as Hc.
    destruct (b_create sb (p_key p) (p_val p) BCreate) as [[st' rev] ok]. exact Hc.
  - destruct (isDelete t) as [[rev key]|].
    + pose proof (b_delete_evs_ok sb key (u64_of_Z rev) (Hv key) H) as Hd.
      destruct (b_delete sb key (u64_of_Z rev)) as [st' [|h ok cur]]; exact Hd.
    + destruct (isUpdate t) as [[[[rev key] val] lease]|].
      * pose proof (b_update_evs_ok sb key val (u64_of_Z rev) H) as Hu.
        destruct (b_update sb key val (u64_of_Z rev)) as [st' [|h [|] cur]]; exact Hu.
      * destruct (isCompact t); exact H.
Qed.

(* ------------------------------------------------------------------ filtering projected logs *)

Lemma filter_proj {A B C} (f : A -> C) (g : B -> C) (q1 : A -> bool) (q2 : B -> bool) (Q : C -> bool) l1 l2 :
  map f l1 = map g l2 -> (forall x, q1 x = Q (f x)) -> Forall (fun y => q2 y = Q (g y)) l2 ->
  map f (filter q1 l1) = map g (filter q2 l2).
Proof.
  revert l2. induction l1 as [|x l1 IH]; intros [|y l2] E H1 H2; cbn in *; try discriminate; [reflexivity|].
  injection E as Exy E. inversion H2; subst. rewrite H1, H3, Exy.
  destruct (Q (g y)); cbn; [rewrite Exy; f_equal|]; apply IH; assumption.
Qed.

Lemma prefix_end_opt_not_zero p e : prefix_end_opt p = Some e -> e <> [] /\ e <> [0%N].
Proof.
  revert e. induction p as [|x p IH]; cbn; intros e H; [discriminate|].
  destruct (prefix_end_opt p) as [t'|] eqn:E.
  - injection H as <-. destruct (IH t' eq_refl) as [H1 H2]. split; [discriminate|]. intros [= _ ->]. apply H1. reflexivity.
  - destruct (x <? 255)%N; [|discriminate]. injection H as <-. split; [discriminate|]. intros [= Hx]. lia.
Qed.

(* the key interval of a prefix watch is the prefix test *)
Lemma in_range_prefix p e k : wf_bytes p -> wf_bytes k -> prefix_end_opt p = Some e -> in_range p e k = has_prefix p k.
Proof.
  intros Hp Hk He. destruct (prefix_end_opt_not_zero p e He) as [H1 H2].
  assert (Hg : in_range p e k = (bleb p k && bltb k e)).
  { unfold in_range. destruct e as [|x [|y e']]; [congruence| |destruct x; reflexivity]. destruct x; [congruence|reflexivity]. }
  rewrite Hg. pose proof (prefix_end_opt_spec p e k Hp Hk He) as Hs.
  destruct (has_prefix p k) eqn:Eh.
  - destruct (proj1 Hs eq_refl) as [Ha Hb]. apply bleb_le in Ha. apply bltb_lt in Hb. rewrite Ha, Hb. reflexivity.
  - destruct (bleb p k) eqn:Ea; [|reflexivity]. destruct (bltb k e) eqn:Eb; [|reflexivity].
    apply bleb_le in Ea. apply bltb_lt in Eb. pose proof (proj2 Hs (conj Ea Eb)) as F. discriminate F.
Qed.

Definition keys_wf (sb : bstate) : Prop := Forall (fun e => wf_bytes (bev_key e)) (b_events sb).

(* a watch on prefix p from a start revision: the same projected events on both sides *)
Lemma watch_agree sb se p e start :
  R sb se -> evs_ok sb -> keys_wf sb -> Z.of_N (b_rev sb) < two63 ->
  wf_bytes p -> prefix_end_opt p = Some e -> 0 <= start < two63 ->
  map proj_event (etcd_watch se p e start) = map proj_event (shim_watch sb p (Z.to_N start)).
Proof.
  intros HR Hev Hkeys Hb Hp He Hst. unfold etcd_watch, shim_watch.
  set (Q := fun c : bool * pkv * option pkv => match c with (_, (k, _, m), _) => in_range p e k && (start <=? m) end).
  assert (Hfilter : filter (fun e0 : bevent => has_prefix p (bev_key e0) && (Z.to_N start <=? bev_rev e0)%N) (b_events sb)
                    = filter (fun e0 => Q (proj_event (shim_event e0))) (b_events sb)).
  { clear -Hev Hkeys Hb Hst Hp He. unfold evs_ok, keys_wf in *. induction (b_events sb) as [|y l IH]; cbn [filter]; [reflexivity|].
    inversion Hev; subst. inversion Hkeys; subst. rewrite (IH H2 H4).
    assert (Hy : has_prefix p (bev_key y) && (Z.to_N start <=? bev_rev y)%N = Q (proj_event (shim_event y))).
    { destruct y as [t rev k v kvrev]. cbn [bev_key] in H3. unfold two63 in *.
      destruct t; cbn in H1 |- *; destruct H1 as [Ha Hb']; rewrite (in_range_prefix p e k Hp H3 He).
      - subst kvrev. rewrite i64_of_N_small by (unfold two63; lia). f_equal.
        destruct (N.leb_spec (Z.to_N start) rev), (Z.leb_spec start (Z.of_N rev)); try reflexivity; lia.
      - subst kvrev. rewrite i64_of_N_small by (unfold two63; lia). f_equal.
        destruct (N.leb_spec (Z.to_N start) rev), (Z.leb_spec start (Z.of_N rev)); try reflexivity; lia.
      - rewrite i64_of_N_small by (unfold two63; lia). f_equal.
        destruct (N.leb_spec (Z.to_N start) rev), (Z.leb_spec start (Z.of_N rev)); try reflexivity; lia. }
    rewrite Hy. reflexivity. }
  rewrite Hfilter.
  assert (Hmap : forall l, map shim_event (filter (fun e0 => Q (proj_event (shim_event e0))) l)
                 = filter (fun w => Q (proj_event w)) (map shim_event l)).
  { intros l. induction l as [|y l IH]; cbn; [reflexivity|]. destruct (Q (proj_event (shim_event y))); cbn; rewrite IH; reflexivity. }
  rewrite Hmap.
  apply (filter_proj proj_event proj_event _ _ (fun c => Q c)).
  - rewrite (R_ev _ _ HR). reflexivity.
  - intros [d k pv]. unfold Q, proj_event, ev_kv. destruct d; reflexivity.
  - apply Forall_forall. intros y _. reflexivity.
Qed.

(* ------------------------------------------------------------------ the event log's keys stay well formed *)

Lemma keys_wf_app sb rev kv e : keys_wf sb -> wf_bytes (bev_key e) -> keys_wf (mkB rev kv (b_events sb ++ [e])).
Proof. unfold keys_wf; cbn. intros H He. apply Forall_app. split; [exact H|constructor; [exact He|constructor]]. Qed.

Lemma keys_wf_same sb rev kv : keys_wf sb -> keys_wf (mkB rev kv (b_events sb)).
Proof. unfold keys_wf; cbn. auto. Qed.

Lemma b_create_keys_wf sb k v t : wf_bytes k -> keys_wf sb -> keys_wf (fst (fst (b_create sb k v t))).
Proof.
  intros Hk H. unfold b_create. destruct (match bk_idx (b_find k (b_kv sb)) with Some (prev, tomb) => _ | None => true end); cbn [fst].
  - apply keys_wf_app; assumption.
  - apply keys_wf_same; assumption.
Qed.

Lemma b_delete_keys_wf sb k e : wf_bytes k -> keys_wf sb -> keys_wf (fst (b_delete sb k e)).
Proof.
  intros Hk H. unfold b_delete. destruct (b_get (b_kv sb) k 0) as [|oldv modrev]; cbn [fst]; [apply keys_wf_same; assumption|].
  destruct (drift e (b_rev sb + 1)); cbn [fst]; [apply keys_wf_same; assumption|].
  destruct ((0 <? e)%N && negb (e =? modrev)%N); cbn [fst]; [apply keys_wf_same; assumption|].
  destruct (b_rev sb + 1 <=? modrev)%N; cbn [fst]; [apply keys_wf_same; assumption|].
  destruct (bk_idx (b_find k (b_kv sb))) as [[ir []]|]; cbn [fst]; try (apply keys_wf_same; assumption).
  destruct (ir =? modrev)%N; cbn [fst]; [apply keys_wf_app; assumption|apply keys_wf_same; assumption].
Qed.

Lemma b_update_keys_wf sb k v e : wf_bytes k -> keys_wf sb -> keys_wf (fst (b_update sb k v e)).
Proof.
  intros Hk H. unfold b_update. destruct (e =? 0)%N.
  - pose proof (b_create_keys_wf sb k v BCreate Hk H) as Hc. destruct (b_create sb k v BCreate) as [[st' rev] []]; cbn [fst] in *; [exact Hc|].
    destruct (b_get (b_kv st') k 0); exact Hc.
  - destruct (drift e (b_rev sb + 1)); cbn [fst]; [apply keys_wf_same; assumption|].
    destruct (bk_idx (b_find k (b_kv sb))) as [[ir []]|].
    + destruct (b_get (b_kv sb) k 0); cbn [fst]; apply keys_wf_same; assumption.
    + destruct (ir =? e)%N; cbn [fst]; [apply keys_wf_app; assumption|].
      destruct (b_get (b_kv sb) k 0); cbn [fst]; apply keys_wf_same; assumption.
    + destruct (b_get (b_kv sb) k 0); cbn [fst]; apply keys_wf_same; assumption.
Qed.

(* every transaction of one of the shapes on a well-formed key keeps the log's keys well formed *)
Lemma shim_txn_keys_wf sb t sh : canonical t = Some sh -> wf_bytes (shape_key sh) -> keys_wf sb -> keys_wf (fst (shim_txn sb t)).
Proof.
  intros Hc Hk H. pose proof (canonical_inv t sh Hc) as Hinv. destruct sh as [k v|k v e|k e|k]; cbn [shape_key] in Hk.
  - destruct Hinv as (u & lease & Hu & ->).
    assert (Hshim : shim_txn sb (q_create k v u lease) =
                    let '(st', rev, ok) := b_create sb k v BCreate in (st', TOk (i64_of_N rev) ok [RsPut (i64_of_N rev) None])).
    { unfold shim_txn, isCreate, q_create, q_cmp, q_put, get_mod; cbn. rewrite Hu. cbn. reflexivity. }
    rewrite Hshim. pose proof (b_create_keys_wf sb k v BCreate Hk H) as Hx.
    destruct (b_create sb k v BCreate) as [[st' rev] ok]. exact Hx.
  - destruct Hinv as (u & lease & lim & Hu & ->). rewrite shim_update_eq.
    pose proof (b_update_keys_wf sb k v (u64_of_Z (union_mod u)) Hk H) as Hx.
    destruct (b_update sb k v (u64_of_Z (union_mod u))) as [st' [|h [] cur]]; exact Hx.
  - destruct Hinv as (u & lim & Hu & ->). rewrite shim_delete_eq.
    pose proof (b_delete_keys_wf sb k (u64_of_Z (union_mod u)) Hk H) as Hx.
    destruct (b_delete sb k (u64_of_Z (union_mod u))) as [st' [|h ok cur]]; exact Hx.
  - destruct Hinv as (lim & ->). rewrite shim_deleteu_eq.
    pose proof (b_delete_keys_wf sb k 0%N Hk H) as Hx.
    destruct (b_delete sb k 0%N) as [st' [|h ok cur]]; exact Hx.
Qed.
