(* Invariants of KeySys, for every label list, every number of threads, every well-formed initial store. *)
From KB Require Import Model.KeySys Proofs.RevSys.
From Coq Require Import ZifyN ZifyNat ZifyBool Lia.
Local Open Scope N_scope.

(* ---------- lists of versions ---------- *)

Lemma newest_In l r v : newest l = Some (r, v) -> In (r, v) l.
Proof.
  revert r v. induction l as [|[r0 v0] l IH]; simpl; [discriminate|].
  intros r v. destruct (newest l) as [[r' v']|] eqn:E.
  - destruct (r0 <? r'); intros [= <- <-]; auto.
  - intros [= <- <-]. auto.
Qed.

Lemma ver_put_In r v l r' v' :
  In (r', v') (ver_put r v l) <-> (r' = r /\ v' = v) \/ (In (r', v') l /\ r' <> r).
Proof.
  unfold ver_put. simpl. rewrite filter_In. simpl. split.
  - intros [[= <- <-]|[H1 H2]]; [left; auto|right]. split; [exact H1|].
    apply negb_true_iff in H2. apply N.eqb_neq in H2. exact H2.
  - intros [[-> ->]|[H1 H2]]; [left; reflexivity|right]. split; [exact H1|].
    apply negb_true_iff, N.eqb_neq. exact H2.
Qed.

Global Opaque ver_put.

Lemma idx_is_true ks x : idx_is ks x = true -> k_idx ks = Some x.
Proof.
  unfold idx_is, idx_eqb. destruct (k_idx ks) as [[r f]|]; [|discriminate]. destruct x as [r' f'].
  simpl. intros H. apply andb_true_iff in H. destruct H as [H1 H2].
  apply N.eqb_eq in H1. apply Bool.eqb_prop in H2. subst. reflexivity.
Qed.

(* ---------- what a program counter knows ---------- *)

(* the revision a thread holds and has not yet tried to commit with success *)
Definition commit_rev (p : pc) : option N :=
  match p with
  | PCreatePut _ _ _ r _ | PCreateGet _ _ _ r | PCreateCas _ _ _ r _ | PUpdateCommit _ _ _ r
  | PDeleteCommit _ _ r _ _ | PRwCommit _ _ _ r => Some r
  | _ => None
  end.

Definition resp_bound (r : resp) : Prop :=
  match r with
  | RespUpdate h _ (Some (_, m)) | RespDelete h _ (Some (_, m)) => m <= h
  | _ => True
  end.

Definition pc_local (d : N) (p : pc) : Prop :=
  match p with
  | PCreateCas _ _ _ rev old => old < rev
  | PUpdateCommit _ _ prev rev => prev <= rev
  | PDeleteDeal _ _ _ orev => orev <= d
  | PDeleteCommit _ exp rev _ orev => exp = orev /\ orev < rev
  | PRwDeal _ prev _ => prev <= d
  | PRwCommit _ prev _ rev => prev < rev
  | PNotify _ _ rev _ old => snd old <= rev
  | PFailGet _ _ rev old => snd old <= rev
  | PReturn r => resp_bound r
  | _ => True
  end.

Lemma pc_local_mono d d' p : d <= d' -> pc_local d p -> pc_local d' p.
Proof. destruct p; simpl; auto; lia. Qed.

Definition held_of (p : pc) : list N := match pc_rev p with Some r => [r] | None => [] end.

Definition idx_below (i : option (N * bool)) (rev : N) : Prop :=
  match i with Some (r, _) => r < rev | None => True end.

Record kinv (s : state) : Prop := {
  ki_rs : rloginv (rs s);
  ki_idle : seq (rs s) = SqIdle;
  ki_held : forall t, held (rs s) t = held_of (thr s t);
  ki_local : forall t, pc_local (dealt (rs s)) (thr s t);
  ki_le : forall k r v, In (r, v) (k_vers (kv s k)) -> r <= dealt (rs s);
  ki_idx : forall k r f, k_idx (kv s k) = Some (r, f) ->
           (exists v, In (r, v) (k_vers (kv s k)) /\ (f = true -> v = tombstone)) /\
           (forall r' v', In (r', v') (k_vers (kv s k)) -> r' <= r);
  ki_noidx : forall k, k_idx (kv s k) = None ->
             forall t r, commit_rev (thr s t) = Some r ->
             forall r' v', In (r', v') (k_vers (kv s k)) -> r' < r;
  ki_fresh : forall t r, commit_rev (thr s t) = Some r ->
             forall k r' v', In (r', v') (k_vers (kv s k)) -> r' <> r
}.

Lemma commit_rev_pc_rev p r : commit_rev p = Some r -> pc_rev p = Some r.
Proof. destruct p; simpl; intros H; try discriminate; exact H. Qed.

(* two threads never hold the same revision *)
Lemma held_distinct s t1 t2 r :
  kinv s -> pc_rev (thr s t1) = Some r -> pc_rev (thr s t2) = Some r -> t1 = t2.
Proof.
  intros I H1 H2. apply (ri_disj _ (rl_inv _ (ki_rs s I)) t1 t2 r);
    rewrite (ki_held s I); unfold held_of; [rewrite H1|rewrite H2]; left; reflexivity.
Qed.

Lemma held_rev_bounds s t r : kinv s -> pc_rev (thr s t) = Some r -> committed (rs s) < r <= dealt (rs s).
Proof.
  intros I H. assert (Hin : In r (held (rs s) t)).
  { rewrite (ki_held s I). unfold held_of. rewrite H. left. reflexivity. }
  pose proof (rl_inv _ (ki_rs s I)) as RI. split.
  - eapply held_above_committed; eauto.
  - eapply held_le_dealt; eauto.
Qed.

(* ---------- the two kinds of thread-local transitions ---------- *)

Lemma kinv_set_thr s t p' :
  kinv s -> pc_rev p' = pc_rev (thr s t) -> pc_local (dealt (rs s)) p' ->
  (forall r, commit_rev p' = Some r -> commit_rev (thr s t) = Some r) ->
  kinv (set_thr s t p').
Proof.
  intros I Hrev Hloc Hcr. destruct I as [A B C D E F G H].
  constructor; simpl; auto.
  - intros t'. unfold upd. destruct (N.eqb_spec t' t) as [->|_]; [|apply C].
    rewrite C. unfold held_of. rewrite Hrev. reflexivity.
  - intros t'. unfold upd. destruct (N.eqb_spec t' t) as [->|_]; [exact Hloc|apply D].
  - intros k Hk t' r. unfold upd. destruct (N.eqb_spec t' t) as [->|_]; [|apply G; exact Hk].
    intros Hc. apply (G k Hk t r). apply Hcr, Hc.
  - intros t' r. unfold upd. destruct (N.eqb_spec t' t) as [->|_]; [|apply H].
    intros Hc. apply (H t r). apply Hcr, Hc.
Qed.

Lemma kinv_apply s t k a rev flag v p' :
  kinv s -> commit_rev (thr s t) = Some rev -> idx_below (k_idx (kv s k)) rev ->
  (flag = true -> v = tombstone) ->
  pc_rev p' = Some rev -> commit_rev p' = None -> pc_local (dealt (rs s)) p' ->
  kinv (set_thr (apply_write s t k a rev (rev, flag) v) t p').
Proof.
  intros I Hc Hbelow Hflag Hrev Hnc Hloc.
  pose proof (held_rev_bounds s t rev I (commit_rev_pc_rev _ _ Hc)) as Hb.
  assert (Hall : forall r' v', In (r', v') (k_vers (kv s k)) -> r' < rev).
  { intros r' v' Hin. destruct (k_idx (kv s k)) as [[r0 f0]|] eqn:Ei.
    - destruct (ki_idx s I k r0 f0 Ei) as [_ Hmax]. specialize (Hmax _ _ Hin). simpl in Hbelow. lia.
    - eapply (ki_noidx s I k Ei t rev Hc); eauto. }
  destruct I as [A B C D E F G H].
  constructor; simpl; auto.
  - intros t'. unfold upd. destruct (N.eqb_spec t' t) as [->|_]; [|apply C].
    rewrite C. unfold held_of. rewrite Hrev, (commit_rev_pc_rev _ _ Hc). reflexivity.
  - intros t'. unfold upd. destruct (N.eqb_spec t' t) as [->|_]; [exact Hloc|apply D].
  - intros k' r v'. unfold upd. destruct (N.eqb_spec k' k) as [->|_]; [|apply E].
    simpl. rewrite ver_put_In. intros [[-> _]|[Hin _]]; [lia|]. eapply E; eauto.
  - intros k' r f. unfold upd. destruct (N.eqb_spec k' k) as [->|_]; [|apply F].
    simpl. intros [= <- <-]. split.
    + exists v. split; [|exact Hflag]. apply ver_put_In. left. auto.
    + intros r' v'. rewrite ver_put_In. intros [[-> _]|[Hin _]]; [lia|]. specialize (Hall _ _ Hin). lia.
  - intros k'. unfold upd at 1. destruct (N.eqb_spec k' k) as [->|Hne]; [simpl; discriminate|].
    intros Hk t' r. unfold upd at 1. destruct (N.eqb_spec t' t) as [->|_]; [rewrite Hnc; discriminate|].
    unfold upd. destruct (N.eqb_spec k' k); [contradiction|]. apply G. exact Hk.
  - intros t' r. unfold upd at 1. destruct (N.eqb_spec t' t) as [->|Hne]; [rewrite Hnc; discriminate|].
    intros Hc' k' r' v'. unfold upd. destruct (N.eqb_spec k' k) as [->|_]; [|eapply H; eauto].
    simpl. rewrite ver_put_In. intros [[-> _]|[Hin _]]; [|eapply H; eauto].
    intros Heq. subst r. apply Hne.
    apply (ri_disj _ (rl_inv _ A) t' t rev); rewrite C; unfold held_of.
    + rewrite (commit_rev_pc_rev _ _ Hc'). left. reflexivity.
    + rewrite (commit_rev_pc_rev _ _ Hc). left. reflexivity.
Qed.

Lemma kinv_ext s s' : rs s' = rs s -> kv s' = kv s -> thr s' = thr s -> kinv s -> kinv s'.
Proof.
  destruct s, s'. simpl. intros -> -> -> I. destruct I as [A B C D E F G H].
  constructor; simpl in *; auto.
Qed.

Lemma rstep_deal r t : rpanic r = false -> rstep r (RDeal t) = r_deal r t.
Proof. intros H. unfold rstep, renabled. rewrite H. reflexivity. Qed.

Lemma kinv_deal s t p' :
  kinv s -> rpanic (rs s) = false -> pc_rev (thr s t) = None ->
  pc_rev p' = Some (dealt (rs s) + 1) -> pc_local (dealt (rs s) + 1) p' ->
  kinv (set_thr (fst (do_deal s t)) t p').
Proof.
  intros I Hp Hnone Hrev Hloc. unfold do_deal. rewrite rstep_deal by exact Hp.
  destruct I as [A B C D E F G H].
  constructor; cbn [fst rs kv thr set_thr add_log set_rs r_deal dealt seq held].
  - rewrite <- rstep_deal by exact Hp. apply rloginv_step, A.
  - exact B.
  - intros t'. unfold upd. destruct (N.eqb_spec t' t) as [->|_]; [|apply C].
    rewrite C. unfold held_of. rewrite Hnone, Hrev. reflexivity.
  - intros t'. unfold upd. destruct (N.eqb_spec t' t) as [->|_]; [exact Hloc|].
    eapply pc_local_mono; [|apply D]. lia.
  - intros k r v Hin. specialize (E _ _ _ Hin). lia.
  - exact F.
  - intros k Hk t' r. unfold upd. destruct (N.eqb_spec t' t) as [->|_]; [|apply G; exact Hk].
    intros Hc r' v' Hin. apply commit_rev_pc_rev in Hc. rewrite Hrev in Hc. injection Hc as <-.
    specialize (E _ _ _ Hin). lia.
  - intros t' r. unfold upd. destruct (N.eqb_spec t' t) as [->|_]; [|apply H].
    intros Hc k r' v' Hin. apply commit_rev_pc_rev in Hc. rewrite Hrev in Hc. injection Hc as <-.
    specialize (E _ _ _ Hin). lia.
Qed.

Lemma kinv_set_rs_seq s :
  kinv s -> seq_ready (rs s) = true -> kinv (set_rs s (rrun seq_take_labels (rs s))).
Proof.
  intros I Hr. unfold seq_ready in Hr. apply andb_true_iff in Hr. destruct Hr as [Hp Hr].
  apply negb_true_iff in Hp. pose proof (ki_idle s I) as Hidle. rewrite Hidle in Hr.
  destruct (slots (rs s) ((committed (rs s) + 1) mod cap)) as [v|] eqn:Es; [|discriminate].
  destruct (seq_take_effect (rs s) v (rl_inv _ (ki_rs s I)) Hp Hidle Es) as (Ed & Ec & Eq & Esl & Eh & El & Epn).
  destruct I as [A B C D E F G H].
  constructor; cbn [rs kv thr set_rs]; auto.
  - apply rloginv_run, A.
  - intros t. rewrite Eh. apply C.
  - intros t. rewrite Ed. apply D.
  - intros k r v0. rewrite Ed. apply E.
Qed.

Lemma remove_N_single r : remove_N r [r] = [].
Proof. simpl. rewrite N.eqb_refl. reflexivity. Qed.

Lemma kinv_notify s t w k rev r old :
  kinv s -> rpanic (rs s) = false -> thr s t = PNotify w k rev r old ->
  let r' := rstep (rs s) (RNotify t rev (res_ok r)) in
  (rpanic r' = true /\ kinv (set_rs s r')) \/
  (rpanic r' = false /\
   kinv (set_thr (add_log (set_rs s r') (ENotified t rev (res_ok r))) t (after_notify w k rev r old))).
Proof.
  intros I Hp Ht. pose proof I as [A B C D E F G H].
  assert (Hpr : pc_rev (thr s t) = Some rev) by (rewrite Ht; reflexivity).
  pose proof (held_rev_bounds s t rev I Hpr) as Hb.
  assert (Hheld : held (rs s) t = [rev]) by (rewrite C; unfold held_of; rewrite Hpr; reflexivity).
  assert (Hstep : rstep (rs s) (RNotify t rev (res_ok r)) = r_notify (rs s) t rev (res_ok r)).
  { unfold rstep, renabled. rewrite Hp, Hheld. simpl. rewrite N.eqb_refl, orb_true_r. reflexivity. }
  cbv zeta. rewrite Hstep.
  assert (RL : rloginv (r_notify (rs s) t rev (res_ok r))) by (rewrite <- Hstep; apply rloginv_step, A).
  unfold r_notify in *. destruct (N.eqb_spec rev 0) as [->|Hnz]; [lia|].
  destruct (cap <=? sub64 rev (committed (rs s))) eqn:Efull.
  - left. split; [reflexivity|]. constructor; cbn [rs kv thr set_rs dealt seq held]; auto.
  - right. split; [exact Hp|].
    pose proof (D t) as Dt. rewrite Ht in Dt. simpl in Dt.
    constructor; cbn [rs kv thr set_rs set_thr add_log dealt seq held]; auto.
    + intros t'. unfold upd. destruct (N.eqb_spec t' t) as [->|_]; [|apply C].
      rewrite Hheld, remove_N_single. unfold held_of.
      destruct w, r; reflexivity.
    + intros t'. unfold upd. destruct (N.eqb_spec t' t) as [->|_]; [|apply D].
      destruct w, r; simpl; auto; destruct old; simpl in *; auto.
    + intros k0 Hk t' r0. unfold upd. destruct (N.eqb_spec t' t) as [->|_]; [|apply G; exact Hk].
      destruct w, r; discriminate.
    + intros t' r0. unfold upd. destruct (N.eqb_spec t' t) as [->|_]; [|apply H].
      destruct w, r; discriminate.
Qed.

Lemma get_latest_ok ks e val mr : get_latest ks e = GOk val mr -> In (mr, val) (k_vers ks).
Proof.
  unfold get_latest. destruct e; try discriminate.
  destruct (newest (k_vers ks)) as [[r v]|] eqn:E; [|discriminate].
  destruct (beqb v tombstone); [discriminate|]. intros [= <- <-]. apply newest_In, E.
Qed.

Lemma create_decide_rev w k v rev old : pc_rev (create_decide w k v rev old) = Some rev.
Proof. unfold create_decide. destruct (snd old && (fst old <? rev)); reflexivity. Qed.

Lemma create_decide_commit w k v rev old r : commit_rev (create_decide w k v rev old) = Some r -> r = rev.
Proof. unfold create_decide. destruct (snd old && (fst old <? rev)); simpl; [intros [= <-]; reflexivity|discriminate]. Qed.

Lemma create_decide_local d w k v rev old : pc_local d (create_decide w k v rev old).
Proof.
  unfold create_decide. destruct (snd old && (fst old <? rev)) eqn:E; simpl; [|lia].
  apply andb_true_iff in E. destruct E as [_ E]. apply N.ltb_lt in E. exact E.
Qed.

Ltac thr_case Ht :=
  apply kinv_set_thr; [assumption| rewrite Ht; try reflexivity | | rewrite ?Ht; simpl; try (intros ? ?; assumption); try discriminate].

Lemma kinv_engine cidx0 s t e : kinv s -> kinv (step_engine cidx0 s t e).
Proof.
  intros I. unfold step_engine.
  pose proof (ki_local s I t) as L.
  destruct (thr s t) as [ |w k v|w k v rev second|w k v rev|w k v rev old|k v prev|k v prev rev|k exp|k exp e0
                         |k exp oval orev|k exp rev oval orev|k prev|k prev v|k prev v rev|w k rev r old|w k rev old|r] eqn:Ht;
    try exact I; simpl in L.
  - (* PCreatePut *)
    destruct e.
    + destruct (k_idx (kv s k)) as [old|] eqn:Ei.
      * destruct second; [|destruct cidx0].
        -- apply kinv_set_thr; auto; rewrite ?Ht; simpl; auto; try lia; discriminate.
        -- apply kinv_set_thr; auto; rewrite ?Ht; simpl.
           ++ apply create_decide_rev.
           ++ apply create_decide_local.
           ++ intros r Hr. apply create_decide_commit in Hr. subst. reflexivity.
        -- apply kinv_set_thr; auto; rewrite ?Ht; simpl; auto.
      * apply kinv_apply; auto; try (rewrite ?Ht; reflexivity); try discriminate.
        -- rewrite Ei. exact Logic.I.
        -- simpl. lia.
    + apply kinv_set_thr; auto; rewrite ?Ht; simpl; auto; try lia; discriminate.
    + destruct second; apply kinv_set_thr; auto; rewrite ?Ht; simpl; auto; try lia; discriminate.
  - (* PCreateGet *)
    destruct e; try exact I.
    + destruct (k_idx (kv s k)) as [old|] eqn:Ei.
      * apply kinv_set_thr; auto; rewrite ?Ht; simpl.
        -- apply create_decide_rev.
        -- apply create_decide_local.
        -- intros r Hr. apply create_decide_commit in Hr. subst. reflexivity.
      * apply kinv_set_thr; auto; rewrite ?Ht; simpl; auto.
    + apply kinv_set_thr; auto; rewrite ?Ht; simpl; auto; try lia; discriminate.
  - (* PCreateCas *)
    destruct e.
    + destruct (idx_is (kv s k) (old, true)) eqn:Ei.
      * apply idx_is_true in Ei.
        apply kinv_apply; auto; try (rewrite ?Ht; reflexivity); try discriminate.
        -- rewrite Ei. simpl. exact L.
        -- simpl. lia.
      * apply kinv_set_thr; auto; rewrite ?Ht; simpl; auto; try lia; discriminate.
    + apply kinv_set_thr; auto; rewrite ?Ht; simpl; auto; try lia; discriminate.
    + apply kinv_set_thr; auto; rewrite ?Ht; simpl; auto; try lia; discriminate.
  - (* PUpdateCommit *)
    destruct e.
    + destruct (idx_is (kv s k) (prev, false)) eqn:Ei.
      * apply idx_is_true in Ei.
        apply kinv_apply; auto; try (rewrite ?Ht; reflexivity); try discriminate.
        -- rewrite Ei. simpl.
           (* the new revision is not stored anywhere, the expected one is *)
           destruct (ki_idx s I k prev false Ei) as [[v0 [Hin _]] _].
           assert (prev <> rev) by (eapply (ki_fresh s I t rev); [rewrite Ht; reflexivity|exact Hin]).
           lia.
        -- simpl. lia.
      * apply kinv_set_thr; auto; rewrite ?Ht; simpl; auto; try lia; discriminate.
    + apply kinv_set_thr; auto; rewrite ?Ht; simpl; auto; try lia; discriminate.
    + apply kinv_set_thr; auto; rewrite ?Ht; simpl; auto; try lia; discriminate.
  - (* PDeleteGet *)
    destruct e; try exact I.
    + destruct (get_latest (kv s k) EnvOk) as [val mr| |] eqn:Eg;
        apply kinv_set_thr; auto; rewrite ?Ht; simpl; auto; try discriminate.
      apply get_latest_ok in Eg. eapply (ki_le s I); eauto.
    + simpl. apply kinv_set_thr; auto; rewrite ?Ht; simpl; auto; discriminate.
  - (* PDeleteCommit *)
    destruct L as [-> Hlt].
    destruct e.
    + destruct (idx_is (kv s k) (orev, false)) eqn:Ei.
      * apply idx_is_true in Ei.
        apply kinv_apply; auto; try (rewrite ?Ht; reflexivity); try discriminate.
        -- rewrite Ei. simpl. exact Hlt.
        -- simpl. lia.
      * apply kinv_set_thr; auto; rewrite ?Ht; simpl; auto; try lia; discriminate.
    + apply kinv_set_thr; auto; rewrite ?Ht; simpl; auto; try lia; discriminate.
    + apply kinv_set_thr; auto; rewrite ?Ht; simpl; auto; try lia; discriminate.
  - (* PRwGet *)
    destruct e; try exact I.
    + destruct (newest (k_vers (kv s k))) as [[r0 v0]|] eqn:En.
      * destruct (negb (r0 =? prev)) eqn:Ec.
        -- apply kinv_set_thr; auto; rewrite ?Ht; simpl; auto; discriminate.
        -- apply kinv_set_thr; auto; rewrite ?Ht; simpl; auto; try discriminate.
           apply negb_false_iff, N.eqb_eq in Ec. subst r0.
           apply newest_In in En. eapply (ki_le s I); eauto.
      * apply kinv_set_thr; auto; rewrite ?Ht; simpl; auto; discriminate.
    + apply kinv_set_thr; auto; rewrite ?Ht; simpl; auto; discriminate.
  - (* PRwCommit *)
    destruct e.
    + destruct (idx_is (kv s k) (prev, beqb v tombstone)) eqn:Ei.
      * apply idx_is_true in Ei.
        apply kinv_apply; auto; try (rewrite ?Ht; reflexivity); try discriminate.
        -- rewrite Ei. simpl. exact L.
        -- intros Hb. apply beqb_eq in Hb. exact Hb.
        -- simpl. lia.
      * apply kinv_set_thr; auto; rewrite ?Ht; simpl; auto; try lia; discriminate.
    + apply kinv_set_thr; auto; rewrite ?Ht; simpl; auto; try lia; discriminate.
    + apply kinv_set_thr; auto; rewrite ?Ht; simpl; auto; try lia; discriminate.
  - (* PFailGet *)
    destruct e; try exact I.
    + destruct w; destruct (get_latest (kv s k) EnvOk) as [val mr| |] eqn:Eg;
        apply kinv_set_thr; auto; rewrite ?Ht; simpl; auto; try discriminate; try lia;
        destruct old; simpl in *; auto.
    + destruct w; simpl; apply kinv_set_thr; auto; rewrite ?Ht; simpl; auto; try discriminate;
        destruct old; simpl in *; auto.
Qed.

Lemma kinv_invoke s t q : kinv s -> kinv (step_invoke s t q).
Proof.
  intros I. unfold step_invoke. destruct (thr s t) eqn:Ht; try exact I.
  match goal with |- kinv {| rs := _; kv := _; thr := thr (set_thr s t ?p); cur := _; seen := _; log := _ |} =>
    apply (kinv_ext (set_thr s t p)); try reflexivity;
    apply kinv_set_thr; [exact I|rewrite Ht| |]
  end.
  - destruct q; simpl; try reflexivity. destruct (prev =? 0); reflexivity.
  - destruct q; simpl; auto. destruct (prev =? 0); simpl; auto.
  - intros r. destruct q; simpl; try discriminate. destruct (prev =? 0); discriminate.
Qed.

Lemma kinv_return s t : kinv s -> kinv (step_return s t).
Proof.
  intros I. unfold step_return. destruct (thr s t) eqn:Ht; try exact I.
  apply (kinv_ext (set_thr s t PIdle)); try reflexivity.
  apply kinv_set_thr; [exact I|rewrite Ht; reflexivity|exact Logic.I|discriminate].
Qed.

Lemma drift_false prev rev : drift prev rev = false -> prev <= rev.
Proof.
  unfold drift. intros H. apply andb_false_iff in H. destruct H as [H|H].
  - apply N.ltb_ge in H. lia.
  - apply N.ltb_ge in H. exact H.
Qed.

Lemma kinv_deal_step s t : kinv s -> rpanic (rs s) = false -> kinv (step_deal s t).
Proof.
  intros I Hp. unfold step_deal.
  pose proof (ki_local s I t) as L.
  assert (Hd : dealt (rstep (rs s) (RDeal t)) = dealt (rs s) + 1) by (rewrite rstep_deal by exact Hp; reflexivity).
  destruct (thr s t) eqn:Ht; try exact I; simpl in L;
    destruct (do_deal s t) as [s1 rev] eqn:Ed;
    assert (Es1 : s1 = fst (do_deal s t)) by (rewrite Ed; reflexivity);
    assert (Erev : rev = dealt (rs s) + 1) by (unfold do_deal in Ed; injection Ed as _ <-; exact Hd);
    clear Ed; subst s1 rev.
  all: repeat match goal with |- kinv (if ?c then _ else _) => destruct c eqn:? end.
  all: apply kinv_deal; auto; try (rewrite Ht; reflexivity); simpl; auto; try lia.
  all: try (apply drift_false; assumption).
Qed.

Lemma rs_observe s : rs (observe s) = rs s. Proof. reflexivity. Qed.

Lemma kinv_observe s : kinv s -> kinv (observe s).
Proof. apply kinv_ext; reflexivity. Qed.

Lemma kinv_step cidx0 s l : kinv s -> kinv (kstep cidx0 s l).
Proof.
  intros I. unfold kstep. destruct (rpanic (rs s)) eqn:Hp; [exact I|].
  apply kinv_observe. destruct l as [t q|t|t e|t|t|].
  - apply kinv_invoke, I.
  - apply kinv_deal_step; assumption.
  - apply kinv_engine, I.
  - unfold step_notify. destruct (thr s t) eqn:Ht; try exact I.
    destruct (kinv_notify s t _ _ _ _ _ I Hp Ht) as [[Hpn K]|[Hpn K]]; cbv zeta in *; rewrite Hpn; exact K.
  - apply kinv_return, I.
  - unfold step_seq. destruct (seq_ready (rs s)) eqn:Hr; [|exact I]. apply kinv_set_rs_seq; assumption.
Qed.

Lemma kinv_run cidx0 ls : forall s, kinv s -> kinv (krun cidx0 ls s).
Proof. induction ls as [|l ls IH]; intros s I; simpl; [exact I|]. apply IH, kinv_step, I. Qed.

(* well-formed initial stores: never existed / live / deleted / deleted-and-compacted, revisions at most d0 *)
Definition wf_store (d0 : N) (store : key -> kstate) : Prop :=
  forall k,
    (forall r v, In (r, v) (k_vers (store k)) -> r <= d0) /\
    (forall r f, k_idx (store k) = Some (r, f) ->
       (exists v, In (r, v) (k_vers (store k)) /\ (f = true -> v = tombstone)) /\
       (forall r' v', In (r', v') (k_vers (store k)) -> r' <= r)).

Lemma kinv_init d0 store : wf_store d0 store -> kinv (kinit d0 store).
Proof.
  intros W. constructor; simpl; auto; try discriminate.
  - apply rloginv_init.
  - intros k. apply (proj1 (W k)).
  - intros k. apply (proj2 (W k)).
Qed.

Theorem kinv_reachable cidx0 ls d0 store : wf_store d0 store -> kinv (krun cidx0 ls (kinit d0 store)).
Proof. intros W. apply kinv_run, kinv_init, W. Qed.
