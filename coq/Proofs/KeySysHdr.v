(* C02: real-time order on what requests REPORT. The header of every answer is at least the revision the request
   was stamped with and at most the allocation counter at the time of the answer; so a request that returned
   before another one was invoked reports a smaller header. *)
From KB Require Import Model.KeySys Model.C01Cases Model.C02Cases.
From KB Require Import Proofs.RevSys Proofs.KeySys Proofs.KeySysLog Proofs.KeySysChain Proofs.KeySysFail Proofs.KeySysJust
  Proofs.KeySysProps Proofs.KeySysUniq Proofs.KeySysSucc.
From Coq Require Import ZifyN ZifyNat ZifyBool Lia.
Local Open Scope N_scope.

Definition hinv (s : state) : Prop := forall t,
  (forall w k rev old, thr s t = PFailGet w k rev old -> In rev (cur_dealt t (log s))) /\
  (forall r h, thr s t = PReturn r -> resp_hdr r = Some h ->
     (exists x, In x (cur_dealt t (log s)) /\ x <= h) /\ h <= dealt (rs s)).

Lemma deal_pc_hdr s t :
  (exists r, thr (step_deal s t) t = PReturn r) \/ (exists w k rev old, thr (step_deal s t) t = PFailGet w k rev old) ->
  step_deal s t = s.
Proof.
  unfold step_deal. destruct (thr s t) eqn:Ht; try reflexivity; unfold do_deal;
    repeat match goal with |- context [if ?x then _ else _] => destruct x end;
    simpl; rewrite upd_same; intros [[r H]|(w0 & k0 & rev0 & old0 & H)]; discriminate.
Qed.

Lemma engine_rs cidx0 s t e : rs (step_engine cidx0 s t e) = rs s.
Proof.
  unfold step_engine. destruct (thr s t); try reflexivity;
    repeat match goal with |- context [match ?x with _ => _ end] => destruct x end; reflexivity.
Qed.

Lemma engine_cur_dealt cidx0 s t e t' : cur_dealt t' (log (step_engine cidx0 s t e)) = cur_dealt t' (log s).
Proof.
  destruct (engine_success cidx0 s t e) as [(A & _ & _)|(q & k & a & rev & f & v & p & w & k' & old & A & _ & _)];
    rewrite A; reflexivity.
Qed.

Lemma get_latest_le s k e val mr : kinv s -> get_latest (kv s k) e = GOk val mr -> mr <= dealt (rs s).
Proof.
  intros I H. unfold get_latest in H. destruct e; try discriminate.
  destruct (newest (k_vers (kv s k))) as [[r v]|] eqn:En; [|discriminate].
  destruct (beqb v tombstone); [discriminate|]. injection H as <- <-.
  apply newest_In in En. eapply (ki_le s I); eauto.
Qed.

Lemma engine_failget cidx0 s t e w k rev old :
  thr (step_engine cidx0 s t e) t = PFailGet w k rev old -> thr s t = PFailGet w k rev old.
Proof.
  unfold step_engine. destruct (thr s t) eqn:Ht; try (rewrite Ht; auto);
    repeat match goal with |- context [match ?x with _ => _ end] => destruct x end;
    try (rewrite Ht; auto); simpl; rewrite ?upd_same; try discriminate;
    unfold create_decide; match goal with |- context [if ?x then _ else _] => destruct x end; discriminate.
Qed.

Lemma engine_return cidx0 s t e r : kinv s ->
  thr (step_engine cidx0 s t e) t = PReturn r ->
  thr s t = PReturn r \/ resp_hdr r = None \/
  (exists w k rev old mr, thr s t = PFailGet w k rev old /\ resp_hdr r = Some (N.max rev mr) /\ mr <= dealt (rs s)).
Proof.
  intros I. unfold step_engine. destruct (thr s t) eqn:Ht; try (rewrite Ht; auto).
  all: try (repeat match goal with |- context [match ?x with _ => _ end] => destruct x end;
            try (rewrite Ht; auto); simpl; rewrite ?upd_same; try discriminate;
            first [ unfold create_decide; match goal with |- context [if ?x then _ else _] => destruct x end; discriminate
                  | intros [= <-]; right; left; reflexivity ]; fail).
  (* PFailGet *)
  destruct e; try (rewrite Ht; auto);
    (destruct w eqn:Ew; destruct (get_latest (kv s k) _) as [val mr| |] eqn:Eg; simpl; rewrite upd_same; intros [= <-];
     first [ right; left; reflexivity
           | right; right; eexists _, k, rev, old, _; split; [reflexivity|split; [reflexivity|eapply get_latest_le; eauto]]
           | right; right; eexists _, k, rev, old, 0; split; [reflexivity|split; [simpl; rewrite N.max_0_r; reflexivity|lia]] ]).
Qed.

Lemma after_notify_hdr w k rev r0 old r h :
  after_notify w k rev r0 old = PReturn r -> resp_hdr r = Some h -> h = rev.
Proof.
  destruct w, r0; simpl; intros [= <-]; simpl; try discriminate; try (intros [= <-]; reflexivity).
  all: destruct (N.eqb_spec rev 0); try discriminate; intros [= <-]; reflexivity.
Qed.

Lemma after_notify_failget w k rev r0 old w' k' rev' old' :
  after_notify w k rev r0 old = PFailGet w' k' rev' old' -> rev' = rev.
Proof. destruct w, r0; simpl; intros H; try discriminate; injection H; auto. Qed.

Lemma hinv_step cidx0 lo s l : kinv s -> uinv lo s -> hinv s -> hinv (kstep cidx0 s l).
Proof.
  intros I U Hv. pose proof (dealt_mono_kstep cidx0 s l I) as Hmono.
  destruct (rpanic (rs s)) eqn:Hp; [unfold kstep; rewrite Hp; exact Hv|].
  rewrite (kstep_mid cidx0 s l Hp) in *. intros t. cbn [thr log rs observe] in *.
  assert (Hsame : kmid cidx0 s l = s ->
            (forall w k rev old, thr (kmid cidx0 s l) t = PFailGet w k rev old -> In rev (cur_dealt t (log (kmid cidx0 s l)))) /\
            (forall r h, thr (kmid cidx0 s l) t = PReturn r -> resp_hdr r = Some h ->
               (exists x, In x (cur_dealt t (log (kmid cidx0 s l))) /\ x <= h) /\ h <= dealt (rs (kmid cidx0 s l)))).
  { intros ->. apply Hv. }
  destruct (label_tid_dec l t) as [El|El].
  - destruct l as [ta q0|ta|ta e|ta|ta|]; simpl in El; try injection El as ->; try discriminate; simpl kmid in *.
    + (* invoke *)
      unfold step_invoke in *. destruct (thr s t) eqn:Ht; try (apply Hsame; reflexivity).
      cbn [thr set_thr]. rewrite upd_same. split.
      * intros w k rev old H. destruct q0; try discriminate. destruct (prev =? 0); discriminate.
      * intros r h H. destruct q0; try discriminate. destruct (prev =? 0); discriminate.
    + (* deal *)
      split.
      * intros w k rev old H. assert (E : step_deal s t = s) by (apply deal_pc_hdr; right; eauto).
        rewrite E in *. apply (proj1 (Hv t)) with w k old. exact H.
      * intros r h H. assert (E : step_deal s t = s) by (apply deal_pc_hdr; left; eauto).
        rewrite E in *. intros Hh. apply (proj2 (Hv t) r h); assumption.
    + (* engine *)
      rewrite engine_rs in *. rewrite engine_cur_dealt. split.
      * intros w k rev old H. apply engine_failget in H. apply (proj1 (Hv t)) with w k old. exact H.
      * intros r h H Hh. destruct (engine_return cidx0 s t e r I H) as [H0|[H0|(w & k & rev & old & mr & H0 & H1 & H2)]].
        -- apply (proj2 (Hv t) r h); assumption.
        -- rewrite H0 in Hh. discriminate.
        -- rewrite H1 in Hh. injection Hh as <-.
           pose proof (proj1 (Hv t) _ _ _ _ H0) as Hin. pose proof (u_rng _ _ U _ _ Hin) as Hr.
           split; [exists rev; split; [exact Hin|lia]|lia].
    + (* notify *)
      unfold step_notify in *. destruct (thr s t) eqn:Ht; try (apply Hsame; reflexivity).
      assert (Hin : In rev (cur_dealt t (log s))).
      { apply (u_held _ _ U). rewrite (ki_held s I), Ht. left. reflexivity. }
      pose proof (u_rng _ _ U _ _ Hin) as Hr.
      match goal with |- context [if rpanic ?x then _ else _] => destruct (rpanic x) eqn:Ep' end.
      * simpl. rewrite Ht. split; intros; discriminate.
      * cbn [thr set_thr add_log set_rs log rs]. rewrite upd_same.
        rewrite (dealt_step _ _ (rl_inv _ (ki_rs s I))).
        assert (Hcd : cur_dealt t (ENotified t rev (res_ok r) :: log s) = cur_dealt t (log s)) by reflexivity.
        rewrite Hcd. split.
        -- intros w' k' rev' old' H. apply after_notify_failget in H. subst. exact Hin.
        -- intros r1 h H Hh. pose proof (after_notify_hdr _ _ _ _ _ _ _ H Hh) as ->.
           split; [exists rev; split; [exact Hin|lia]|lia].
    + (* return *)
      unfold step_return in *. destruct (thr s t) eqn:Ht; try (apply Hsame; reflexivity).
      cbn [thr set_thr]. rewrite upd_same. split; intros; discriminate.
  - destruct (mid_other cidx0 s l t El) as (A & _ & _). rewrite A.
    assert (Hcd : cur_dealt t (log (kmid cidx0 s l)) = cur_dealt t (log s)).
    { destruct (log_entry_tid cidx0 s l) as [->|[e [-> E]]]; [reflexivity|].
      apply cur_dealt_other. intros Heq. apply El. rewrite E, Heq. reflexivity. }
    rewrite Hcd. split.
    + apply (proj1 (Hv t)).
    + intros r h H Hh. destruct (proj2 (Hv t) r h H Hh) as [X Y]. split; [exact X|lia].
Qed.

Lemma hinv_init d0 store : hinv (kinit d0 store).
Proof. intros t. split; intros; discriminate. Qed.

(* ---------- on the log ---------- *)

(* at every answer: its header is at least a revision the request was stamped with *)
Fixpoint hdr_clean (l : list entry) : Prop :=
  match l with
  | [] => True
  | e :: l' =>
      match e with
      | EReturn t r => forall h, resp_hdr r = Some h -> exists x, In x (cur_dealt t l') /\ x <= h
      | _ => True
      end /\ hdr_clean l'
  end.

(* every answer's header is at most the allocation counter, and below every revision allocated after the answer *)
Definition hdr_before (s : state) : Prop :=
  forall A t r l0 h, log s = A ++ EReturn t r :: l0 -> resp_hdr r = Some h ->
    h <= dealt (rs s) /\ forall t' y, In (EDealt t' y) A -> h < y.

Record hinv2 (lo : N) (s : state) : Prop := {
  h_u : uinv lo s; h_h : hinv s; h_clean : hdr_clean (log s); h_before : hdr_before s
}.

Lemma hinv2_step cidx0 lo s l : kinv s -> hinv2 lo s -> hinv2 lo (kstep cidx0 s l).
Proof.
  intros I [U Hv C B]. pose proof (dealt_mono_kstep cidx0 s l I) as Hmono.
  split; [apply uinv_step; assumption|eapply hinv_step; eassumption| |].
  - destruct (log_move_step cidx0 s l I) as [E1 _ _|t1 q1 E1 _ _|t1 E1 _|t1 q1 k a rev flag v pred E1 _
                                            |t1 w k rev r1 old _ E1 _ _|t1 r1 Ht E1 _];
      rewrite E1; simpl; auto.
    split; [|exact C]. intros h Hh. destruct (proj2 (Hv t1) r1 h Ht Hh) as [X _]. exact X.
  - intros A t r l0 h E Hh.
    assert (Hold : forall A', log s = A' ++ EReturn t r :: l0 ->
              h <= dealt (rs (kstep cidx0 s l)) /\ forall t' y, In (EDealt t' y) A' -> h < y).
    { intros A' E'. destruct (B A' t r l0 h E' Hh) as [X Y]. split; [lia|exact Y]. }
    destruct (log_move_step cidx0 s l I) as [E1 _ _|t1 q1 E1 _ _|t1 E1 E2|t1 q1 k a rev flag v pred E1 _
                                            |t1 w k rev r1 old _ E1 _ _|t1 r1 Ht E1 _];
      rewrite E1 in E.
    + apply (Hold A E).
    + destruct A as [|a0 A']; simpl in E; [discriminate|]. injection E as <- E.
      destruct (Hold A' E) as [X Y]. split; [exact X|]. intros t' y [Hy|Hy]; [discriminate|eauto].
    + destruct A as [|a0 A']; simpl in E; [discriminate|]. injection E as <- E.
      destruct (B A' t r l0 h E Hh) as [X Y]. split; [lia|].
      intros t' y [Hy|Hy]; [injection Hy as _ <-; lia|eauto].
    + destruct A as [|a0 A']; simpl in E; [discriminate|]. injection E as <- E.
      destruct (Hold A' E) as [X Y]. split; [exact X|]. intros t' y [Hy|Hy]; [discriminate|eauto].
    + destruct A as [|a0 A']; simpl in E; [discriminate|]. injection E as <- E.
      destruct (Hold A' E) as [X Y]. split; [exact X|]. intros t' y [Hy|Hy]; [discriminate|eauto].
    + destruct A as [|a0 A']; simpl in E.
      * injection E as <- <- <-. destruct (proj2 (Hv t1) r1 h Ht Hh) as [_ Y]. split; [lia|]. intros t' y [].
      * injection E as <- E. destruct (Hold A' E) as [X Y]. split; [exact X|]. intros t' y [Hy|Hy]; [discriminate|eauto].
Qed.

Lemma hinv2_reachable cidx0 ls d0 store : wf_store d0 store -> hinv2 d0 (krun cidx0 ls (kinit d0 store)).
Proof.
  intros W. apply (inv_run cidx0 (hinv2 d0)); [intros s l I H; apply hinv2_step; assumption|apply kinv_init, W|].
  split; [apply uinv_init|apply hinv_init|exact Logic.I|].
  intros A t r l0 h E. simpl in E. destruct A; discriminate.
Qed.

Lemma hdr_clean_app l1 e l0 : hdr_clean (l1 ++ e :: l0) -> hdr_clean (e :: l0).
Proof. induction l1 as [|e1 l1 IH]; simpl app; [auto|]. intros [_ H]. apply IH, H. Qed.

Lemma cur_dealt_app_invoke t a q b x : In x (cur_dealt t (a ++ EInvoke t q :: b)) -> In (EDealt t x) a.
Proof.
  induction a as [|e a IH]; simpl app.
  - simpl. rewrite N.eqb_refl. contradiction.
  - destruct e; simpl; try (intros H; right; apply IH, H).
    + destruct (N.eqb_spec t0 t) as [->|_]; [contradiction|]. intros H. right. apply IH, H.
    + destruct (N.eqb_spec t0 t) as [->|_]; [|intros H; right; apply IH, H].
      intros [<-|H]; [left; reflexivity|right; apply IH, H].
    + destruct (N.eqb_spec t0 t) as [->|_]; [contradiction|]. intros H. right. apply IH, H.
Qed.

(* real-time order on reported headers *)
Theorem hdr_realtime cidx0 d0 store s : reach cidx0 d0 store s ->
  forall l3 t2 r2 l2' q2 l2 t1 r1 l0 h1 h2,
    log s = l3 ++ EReturn t2 r2 :: l2' ++ EInvoke t2 q2 :: l2 ++ EReturn t1 r1 :: l0 ->
    resp_hdr r1 = Some h1 -> resp_hdr r2 = Some h2 -> h1 < h2.
Proof.
  intros [W [ls ->]] l3 t2 r2 l2' q2 l2 t1 r1 l0 h1 h2 E H1 H2.
  pose proof (hinv2_reachable cidx0 ls d0 store W) as [_ _ C B].
  rewrite E in C. apply hdr_clean_app in C. destruct C as [C _].
  destruct (C h2 H2) as (x & Hx & Hle). apply cur_dealt_app_invoke in Hx.
  destruct (B (l3 ++ EReturn t2 r2 :: l2' ++ EInvoke t2 q2 :: l2) t1 r1 l0 h1) as [_ Y]; [|exact H1|].
  - rewrite E. rewrite <- !app_assoc. simpl. rewrite <- !app_assoc. reflexivity.
  - assert (Hlt : h1 < x).
    { apply (Y t2). apply in_or_app. right. right. apply in_or_app. left. exact Hx. }
    lia.
Qed.

(* every answer's header is at least the revision of the request's own allocation, and at most the counter *)
Theorem hdr_bounds cidx0 d0 store s : reach cidx0 d0 store s ->
  forall t r h, thr s t = PReturn r -> resp_hdr r = Some h ->
    (exists x, In x (cur_dealt t (log s)) /\ x <= h) /\ h <= dealt (rs s).
Proof.
  intros [W [ls ->]] t r h. apply (h_h _ _ (hinv2_reachable cidx0 ls d0 store W) t).
Qed.

(* ---------- reads against writes ---------- *)
Definition rd_hdr (r : rdresp) : N := match r with RdOk h _ => h | RdErr => 0 end.

(* by construction of read_get / read_list: the header of a read is at least the revision reads are served at *)
Lemma read_get_hdr_ge s k rev : committed (rs s) <= rd_hdr (read_get s k rev).
Proof. unfold read_get. destruct (get_at (kv s k) rev); simpl; lia. Qed.
Lemma read_list_hdr s keys rev : rd_hdr (read_list s keys rev) = committed (rs s).
Proof. reflexivity. Qed.

(* write then read, full statement: a read issued after a write's answer reports at least the write's header *)
Definition write_then_read_full : Prop :=
  forall cidx0 d0 store ls t r h k, wf_store d0 store ->
    let s := krun cidx0 ls (kinit d0 store) in
    thr s t = PReturn r -> resp_hdr r = Some h -> h <= rd_hdr (read_get (kstep cidx0 s (LReturn t)) k 0).

(* refuted: thread 1 holds revision 11 before its commit, thread 0's update is stamped 12, applied, reported and
   answered with header 12; reads are still served at 10, a Get of another key reports header 10 *)
Definition wr_labels : list label :=
  [LInvoke 1 (RqCreate 2 [7]); LDeal 1; LInvoke 0 (RqUpdate 0 [9] 5); LDeal 0; LEngine 0 EnvOk; LNotify 0].

Lemma write_then_read_refuted : ~ write_then_read_full.
Proof.
  intros H. specialize (H true 10 ex_store wr_labels 0 (RespUpdate 12 true None) 12 1 ex_store_wf).
  cbv zeta in H. assert (Hle : 12 <= 10); [|lia].
  apply H; vm_compute; reflexivity.
Qed.

Example write_then_read_witness :
  let s := krun true wr_labels (kinit 10 ex_store) in
  thr s 0 = PReturn (RespUpdate 12 true None) /\ committed (rs s) = 10 /\ pc_rev (thr s 1) = Some 11 /\
  read_get (kstep true s (LReturn 0)) 1 0 = RdOk 10 [] /\ enabled s LSeqTake = false.
Proof. vm_compute. repeat split; reflexivity. Qed.

(* the true statement: once reads are served at the write's header (C04: every revision up to it resolved and
   taken by the sequencer), every read reports at least that header *)
Lemma write_then_read_caught_up s h k rev : h <= committed (rs s) -> h <= rd_hdr (read_get s k rev).
Proof. intros H. pose proof (read_get_hdr_ge s k rev). lia. Qed.

(* read then write: the header of a read is at most the allocation counter … *)
Lemma get_at_le s k rev v mr : kinv s -> get_at (kv s k) rev = GOk v mr -> mr <= dealt (rs s).
Proof.
  intros I H. unfold get_at in H.
  destruct (newest _) as [[r v0]|] eqn:En; [|discriminate]. destruct (beqb v0 tombstone); [discriminate|].
  injection H as <- <-. apply newest_In in En.
  destruct (rev =? 0); [eapply (ki_le s I); eauto|].
  unfold vers_upto in En. apply filter_In in En. destruct En as [En _]. eapply (ki_le s I); eauto.
Qed.

Lemma read_get_hdr_le s k rev : kinv s -> rd_hdr (read_get s k rev) <= dealt (rs s).
Proof.
  intros I. pose proof (rl_inv _ (ki_rs s I)) as RI. pose proof (ri_cf _ RI). pose proof (ri_fd _ RI).
  unfold read_get. destruct (get_at (kv s k) rev) eqn:Eg; simpl; try lia.
  pose proof (get_at_le s k rev _ _ I Eg). lia.
Qed.

(* … and every revision allocated later is above the counter *)
Lemma log_grows_run cidx0 ls : forall s, kinv s -> exists A, log (krun cidx0 ls s) = A ++ log s.
Proof.
  induction ls as [|l ls IH]; intros s I; simpl; [exists []; reflexivity|].
  destruct (IH _ (kinv_step cidx0 s l I)) as [A EA].
  destruct (log_move_step cidx0 s l I) as [E1 _ _|t1 q1 E1 _ _|t1 E1 _|t1 q1 k a rev flag v pred E1 _
                                          |t1 w k rev r1 old _ E1 _ _|t1 r1 _ E1 _]; rewrite E1 in EA.
  - exists A. exact EA.
  - eexists (A ++ [_]). rewrite <- app_assoc. exact EA.
  - eexists (A ++ [_]). rewrite <- app_assoc. exact EA.
  - eexists (A ++ [_]). rewrite <- app_assoc. exact EA.
  - eexists (A ++ [_]). rewrite <- app_assoc. exact EA.
  - eexists (A ++ [_]). rewrite <- app_assoc. exact EA.
Qed.

Lemma later_dealt cidx0 ls : forall s, kinv s -> forall A, log (krun cidx0 ls s) = A ++ log s ->
  forall t y, In (EDealt t y) A -> dealt (rs s) < y.
Proof.
  induction ls as [|l ls IH]; intros s I A E t y Hin; simpl in E.
  - assert (A = []) by (apply (app_inv_tail (log s)); simpl; symmetry; exact E). subst. contradiction.
  - pose proof (kinv_step cidx0 s l I) as I'. pose proof (dealt_mono_kstep cidx0 s l I) as Hm.
    destruct (log_grows_run cidx0 ls _ I') as [A' EA']. pose proof (IH _ I' A' EA') as IH'.
    rewrite EA' in E.
    destruct (log_move_step cidx0 s l I) as [E1 _ _|t1 q1 E1 _ _|t1 E1 _|t1 q1 k a rev flag v pred E1 _
                                            |t1 w k rev r1 old _ E1 _ _|t1 r1 _ E1 _]; rewrite E1 in E.
    1: { apply app_inv_tail in E. subst A'. specialize (IH' _ _ Hin). lia. }
    all: change (?e :: log s) with ([e] ++ log s) in E; rewrite app_assoc in E; apply app_inv_tail in E; subst A;
      apply in_app_or in Hin; destruct Hin as [Hin|[Hin|[]]]; [specialize (IH' _ _ Hin); lia|]; try discriminate.
    injection Hin as _ <-. lia.
Qed.

Theorem read_then_write cidx0 d0 store s : reach cidx0 d0 store s ->
  forall ls' l3 t2 r2 l2' q2 l2 h2,
    log (krun cidx0 ls' s) = l3 ++ EReturn t2 r2 :: l2' ++ EInvoke t2 q2 :: l2 ++ log s ->
    resp_hdr r2 = Some h2 ->
    forall k rev, rd_hdr (read_get s k rev) < h2.
Proof.
  intros R ls' l3 t2 r2 l2' q2 l2 h2 E H2 k rev.
  pose proof (reach_kinv _ _ _ _ R) as I. destruct R as [W [ls ->]].
  assert (Hr : krun cidx0 ls' (krun cidx0 ls (kinit d0 store)) = krun cidx0 (ls ++ ls') (kinit d0 store)).
  { unfold krun. rewrite fold_left_app. reflexivity. }
  pose proof (hinv2_reachable cidx0 (ls ++ ls') d0 store W) as [_ _ C _]. rewrite <- Hr, E in C.
  apply hdr_clean_app in C. destruct C as [C _]. destruct (C h2 H2) as (x & Hx & Hle).
  apply cur_dealt_app_invoke in Hx.
  assert (Hlt : dealt (rs (krun cidx0 ls (kinit d0 store))) < x).
  { apply (later_dealt cidx0 ls' _ I (l3 ++ EReturn t2 r2 :: l2' ++ EInvoke t2 q2 :: l2)) with t2.
    - rewrite E. rewrite <- !app_assoc. simpl. rewrite <- !app_assoc. reflexivity.
    - apply in_or_app. right. right. apply in_or_app. left. exact Hx. }
  pose proof (read_get_hdr_le _ k rev I). lia.
Qed.
