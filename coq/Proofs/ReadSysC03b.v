(* C03 oracle soundness, part 2: from the executable layout test of a dump to the snapshot of the
   acknowledged history; the model at dump level; per-read characterisation; stability; phases. *)
From KB Require Import Base.Bytes Base.Cases Model.Coder Model.ReadSys Model.C03Cases Model.C13Cases
  Proofs.Coder Proofs.ReadSys Proofs.ReadSysSnap Proofs.ReadSysThm Proofs.ReadSysSpec Proofs.ReadSysPart
  Proofs.ReadSysC03 Proofs.ReadSysC13 Proofs.ReadSysC13b.
From Coq Require Import ZifyN ZifyNat ZifyBool.
Local Open Scope N_scope.

Notation vrecb := (@vrec bytes).
Notation vreco := (@vrec (option bytes)).

(* ---------- index records do not matter to the snapshot ---------- *)
Lemma newest_positive {A} (V : list (@vrec A)) R k : newest (filter (fun x => 0 <? vr_rev x) V) R k = newest V R k.
Proof.
  induction V as [|x t IH]; [reflexivity|]. cbn [filter]. destruct (0 <? vr_rev x) eqn:E.
  - rewrite !newest_cons, IH. reflexivity.
  - rewrite IH. symmetry. apply newest_skip. unfold qual. rewrite E. rewrite andb_false_r. reflexivity.
Qed.

Lemma snapshot_positive (V : list vrecb) R : snapshot (positive V) R = snapshot V R.
Proof.
  apply snapshot_agree.
  - intros k. unfold vpick, pick, positive. rewrite newest_positive. reflexivity.
  - intros y Hy. unfold positive in Hy. apply filter_In in Hy. tauto.
Qed.

(* a read revision above every stored revision sees what the largest one sees *)
Lemma newest_ge {A} (V : list (@vrec A)) R1 R2 k : (forall x, In x V -> vr_rev x <= R1) -> R1 <= R2 -> newest V R2 k = newest V R1 k.
Proof.
  intros H L. induction V as [|x t IH]; [reflexivity|].
  rewrite !newest_cons, IH by (intros y Hy; apply H; right; exact Hy).
  assert (Q : qual R2 k x = qual R1 k x).
  { unfold qual. specialize (H x (or_introl eq_refl)). f_equal. lia. }
  rewrite Q. reflexivity.
Qed.

Lemma snapshot_ge (V : list vrecb) R1 R2 : (forall x, In x V -> vr_rev x <= R1) -> R1 <= R2 -> snapshot V R2 = snapshot V R1.
Proof.
  intros H L. rewrite !snapshot_eq. f_equal. apply flat_map_ext_in. intros k _. unfold pick. rewrite (newest_ge V R1 R2 k H L). reflexivity.
Qed.

(* ---------- the marker read as a deletion ---------- *)
Lemma enc_store_mad (hv : list vreco) : enc_store (marker_as_deletion hv) = enc_store hv.
Proof.
  unfold enc_store, marker_as_deletion. rewrite map_map. apply map_ext. intros [[k r] a]. cbn.
  destruct a as [v|]; [|reflexivity]. destruct (beqb v tombstone) eqn:E; [|reflexivity].
  apply beqb_eq in E. subst. reflexivity.
Qed.

Lemma mad_no_marker (hv : list vreco) : no_marker (marker_as_deletion hv).
Proof.
  unfold no_marker, marker_as_deletion. rewrite Forall_forall. intros x Hx _. apply in_map_iff in Hx as ([[k r] a] & <- & _). cbn.
  destruct a as [v|]; [|discriminate]. destruct (beqb v tombstone) eqn:E; [discriminate|].
  apply beqb_neq in E. congruence.
Qed.

(* engine-level snapshot of the history's layout = client-level snapshot with marker values read as deletions *)
Lemma snapshot_enc_mad (hv : list vreco) R : snapshot (enc_store hv) R = snapshot_spec (marker_as_deletion hv) R.
Proof. rewrite <- enc_store_mad. apply snapshot_enc. apply mad_no_marker. Qed.

(* ---------- compact_layout_ok: the executable removal test implies ReadSys.compacted ---------- *)
Lemma vrec_eqb_eq (x y : vrecb) : vrec_eqb x y = true -> x = y.
Proof.
  destruct x as [[k r] v], y as [[k' r'] v']. unfold vrec_eqb. cbn [vr_key vr_rev vr_val fst snd]. intros H.
  apply andb_true_iff in H as [H H3]. apply andb_true_iff in H as [H1 H2].
  apply beqb_eq in H1, H3. apply N.eqb_eq in H2. congruence.
Qed.

Lemma vmem_in x l : vmem x l = true -> In x l.
Proof. unfold vmem. intros H. apply existsb_exists in H as (y & Hy & E). apply vrec_eqb_eq in E. subst. exact Hy. Qed.

Lemma in_vmem x l : In x l -> vmem x l = true.
Proof.
  intros H. unfold vmem. apply existsb_exists. exists x. split; [exact H|].
  destruct x as [[k r] v]. unfold vrec_eqb. cbn. rewrite !beqb_refl, N.eqb_refl. reflexivity.
Qed.

Lemma removableb_spec E F x : removableb E F x = true -> removable E F x.
Proof.
  unfold removableb, removable. intros H. apply andb_true_iff in H as [H1 H2]. right. split; [lia|].
  apply orb_true_iff in H2 as [H2|H2]; [left; apply beqb_eq; exact H2|right].
  apply existsb_exists in H2 as (y & Hy & Q). exists y.
  apply andb_true_iff in Q as [Q Q3]. apply andb_true_iff in Q as [Q1 Q2]. apply beqb_eq in Q1.
  repeat split; try assumption; lia.
Qed.

(* revisions of acknowledged writes are positive *)
Definition hist_pos (hv : list vreco) : Prop := Forall (fun x => 0 < vr_rev x) hv.

Lemma enc_store_in (hv : list vreco) x : In x (enc_store hv) -> exists y, In y hv /\ vr_key x = vr_key y /\ vr_rev x = vr_rev y.
Proof. unfold enc_store. intros H. apply in_map_iff in H as (y & <- & Hy). exists y. auto. Qed.

Lemma layout_compacted d hv F : hist_pos hv -> compact_layout_ok d hv F = true ->
  let V := versions_of (data_of d) in
  dump_wf d = true /\ compacted (enc_store hv) (positive V) F.
Proof.
  intros HP H. cbn zeta. unfold compact_layout_ok in H.
  apply andb_true_iff in H as [H _]. apply andb_true_iff in H as [H _]. apply andb_true_iff in H as [H C4].
  apply andb_true_iff in H as [H C3]. apply andb_true_iff in H as [C1 C2].
  split; [exact C1|]. set (V := versions_of (data_of d)) in *. set (E := enc_store hv) in *.
  rewrite forallb_forall in C2, C3, C4.
  assert (PE : forall x, In x E -> 0 < vr_rev x).
  { intros x Hx. destruct (enc_store_in hv x Hx) as (y & Hy & _ & ->). unfold hist_pos in HP. rewrite Forall_forall in HP. apply HP. exact Hy. }
  assert (NV : forall x, In x E -> ~ In x (positive V) -> vmem x V = false).
  { intros x Hx NI. destruct (vmem x V) eqn:M; [|reflexivity]. exfalso. apply NI. unfold positive. apply filter_In.
    split; [apply vmem_in; exact M|]. apply N.ltb_lt. apply PE. exact Hx. }
  split; [|split].
  - intros x Hx. apply vmem_in. apply C2. exact Hx.
  - intros x Hx NI. specialize (C3 x Hx). rewrite (NV x Hx NI) in C3. cbn [orb] in C3. apply removableb_spec. exact C3.
  - intros x y Hx NI Px Hy Ky Py Lt IY. specialize (C4 x Hx). rewrite (NV x Hx NI) in C4. cbn [orb] in C4.
    rewrite forallb_forall in C4. specialize (C4 y Hy).
    replace (beqb (vr_key y) (vr_key x)) with true in C4 by (symmetry; apply beqb_eq; exact Ky).
    replace (vr_rev y <? vr_rev x) with true in C4 by lia. cbn [andb negb orb] in C4.
    assert (M : vmem y V = true). { apply in_vmem. unfold positive in IY. apply filter_In in IY. tauto. }
    rewrite M in C4. discriminate.
Qed.

Lemma positive_functional (V : list vrecb) : StronglySorted vr_lt V -> functional (positive V).
Proof.
  intros S x y Hx Hy. unfold positive in *. apply filter_In in Hx, Hy. apply (sorted_functional V S); tauto.
Qed.

Lemma enc_store_functional (hv : list vreco) : functional hv -> functional (enc_store hv).
Proof.
  intros FU x y Hx Hy Ek Er. unfold enc_store in *. apply in_map_iff in Hx as (x0 & <- & Hx0), Hy as (y0 & <- & Hy0).
  cbn [vr_key vr_rev fst snd] in Ek, Er. rewrite (FU x0 y0 Hx0 Hy0 Ek Er). reflexivity.
Qed.

(* the snapshot of the dump at any revision not below the floor = the client-level snapshot of the history *)
Theorem dump_snapshot d hv F R : hist_pos hv -> functional hv -> compact_layout_ok d hv F = true -> F <= R ->
  snapshot (versions_of (data_of d)) R = snapshot_spec (marker_as_deletion hv) R.
Proof.
  intros HP FU CL LE. destruct (layout_compacted d hv F HP CL) as [DW CP].
  destruct (dump_wf_spec d DW) as [_ WF].
  rewrite <- snapshot_positive.
  rewrite (snapshot_compacted_f (enc_store hv) _ F R (enc_store_functional hv FU) (positive_functional _ (proj1 WF)) CP LE).
  apply snapshot_enc_mad.
Qed.

(* ---------- the model at dump level ---------- *)
Lemma between_prefix_le p : forall lo hi x, has_prefix p lo = true -> has_prefix p hi = true ->
  bcmp lo x <> Gt -> bcmp x hi <> Gt -> has_prefix p x = true.
Proof.
  induction p as [|c p IH]; intros lo hi x Hlo Hhi L U; [reflexivity|].
  destruct lo as [|l lo]; [discriminate|]. destruct hi as [|h hi]; [discriminate|].
  cbn [has_prefix] in Hlo, Hhi. apply andb_true_iff in Hlo as [E1 Hlo], Hhi as [E2 Hhi].
  apply N.eqb_eq in E1, E2. subst l h.
  destruct x as [|y x]; [cbn in L; congruence|]. cbn [bcmp has_prefix] in *.
  destruct (N.compare_spec c y) as [->|Lt1|Gt1]; [|exfalso|congruence].
  - rewrite N.eqb_refl. cbn [andb]. rewrite N.compare_refl in U. apply (IH lo hi x); assumption.
  - destruct (N.compare_spec y c); try lia; congruence.
Qed.

Lemma filter_data (P : bytes -> bool) s : (forall x, P x = true -> has_prefix magic x = true) ->
  filter (fun q : kv => P (fst q)) s = filter (fun q : kv => P (fst q)) (data_of s).
Proof.
  intros H. unfold data_of. induction s as [|q t IH]; [reflexivity|]. cbn [filter].
  destruct (P (fst q)) eqn:E.
  - rewrite (H _ E). cbn [filter]. rewrite E. f_equal. exact IH.
  - destruct (has_prefix magic (fst q)); [cbn [filter]; rewrite E|]; exact IH.
Qed.

(* forward or backward: only records under the data prefix are iterated between two internal keys *)
Lemma iter_data_any s st en : has_prefix magic st = true -> has_prefix magic en = true -> iter s st en = iter (data_of s) st en.
Proof.
  intros H1 H2. unfold iter. destruct (bcmp st en) eqn:C; [reflexivity| |].
  - apply (filter_data (fun x => bleb st x && bltb x en)). intros x P. apply andb_true_iff in P as [P1 P2].
    apply bleb_spec in P1. apply bltb_spec in P2. apply (between_prefix_le magic st en x H1 H2 P1). rewrite P2. discriminate.
  - f_equal. apply (filter_data (fun x => bltb en x && bleb x st)). intros x P. apply andb_true_iff in P as [P1 P2].
    apply bltb_spec in P1. apply bleb_spec in P2. apply (between_prefix_le magic en st x H2 H1); [rewrite P1; discriminate|exact P2].
Qed.

Lemma get_model_dump d cur k rv : dump_wf d = true ->
  get_model d cur k rv = get_model (raw_of (versions_of (data_of d))) cur k rv.
Proof.
  intros DW. destruct (dump_wf_spec d DW) as [ED _]. rewrite <- ED.
  unfold get_model, get_internal_val. rewrite (iter_data_any d _ _ (encode_magic _ _) (encode_magic _ _)). reflexivity.
Qed.

Lemma single_tiling lo hi : bcmp lo hi = Lt -> tiling [(lo, hi)] lo hi.
Proof. intros L. exists [hi]. split; [discriminate|]. split; [apply Permutation_refl|]. repeat split; [exact L|constructor]. Qed.

Lemma single_valid a b : alpha a -> alpha b -> bcmp a b = Lt -> valid_parts single_part a b.
Proof.
  intros Aa Ab L. unfold valid_parts, single_part. apply single_tiling.
  rewrite encode_cmp by (assumption || reflexivity). unfold kr_cmp. rewrite L. reflexivity.
Qed.

Lemma list_model_dump d fv cur a b rv (limit : Z) : dump_wf d = true -> alpha a -> alpha b ->
  list_model d fv single_part cur a b rv limit = list_model (raw_of (versions_of (data_of d))) fv single_part cur a b rv limit.
Proof.
  intros DW Aa Ab. destruct (dump_wf_spec d DW) as [ED _]. rewrite <- ED.
  unfold list_model. destruct b as [|b0 b']; [reflexivity|].
  destruct (bltb a (b0 :: b')) eqn:E; cbn [negb]; [|reflexivity]. apply bltb_spec in E.
  assert (LH : bcmp (encode a 0) (encode (b0 :: b') 0) = Lt).
  { rewrite encode_cmp by (assumption || reflexivity). unfold kr_cmp. rewrite E. reflexivity. }
  set (lim1 := (if (0 <? limit)%Z then if (limit =? max_i64)%Z then min_i64 else (limit + 1)%Z else limit)).
  unfold range. destruct (0 <? lim1)%Z.
  - rewrite (iter_data_any d _ _ (encode_magic _ _) (encode_magic _ _)). reflexivity.
  - rewrite (scan_data d fv single_part _ _ _ (RCommon 0 []) _ (adjust_single _ _)); [reflexivity|].
    intros p [<-|[]]. cbn [fst snd]. rewrite !encode_magic, LH. repeat split; discriminate.
Qed.

(* a single partition: the stream is the worker's batches in order *)
Lemma interleaving_single {A} (l out : list A) : interleaving [l] out -> out = l.
Proof.
  remember [l] as ls eqn:E. intros H. revert l E. induction H as [ls F|pre x l0 post out _ IH]; intros l E; subst.
  - inversion F; subst. reflexivity.
  - destruct pre as [|p pre]; [|destruct pre; discriminate]. cbn [app] in E. injection E as <- ->. f_equal. apply (IH l0). reflexivity.
Qed.

Lemma stream_single_dump d fv cur a b rv out : dump_wf d = true -> alpha a -> alpha b -> bcmp a b = Lt ->
  floor_check fv (eff rv cur) = FOk ->
  stream_check (stream_model d fv single_part cur (encode a 0) (encode b 0) rv) out = true ->
  stream_shape (eff rv cur) out = true /\ stream_kvs out = in_range a b (snapshot (versions_of (data_of d)) (eff rv cur)).
Proof.
  intros DW Aa Ab L FL SC. pose proof (single_valid a b Aa Ab L) as T.
  rewrite (stream_model_data d fv single_part cur a b DW Aa Ab L T rv) in SC.
  destruct (dump_wf_spec d DW) as [_ WF]. set (V := versions_of (data_of d)) in *.
  assert (LH : bcmp (encode a 0) (encode b 0) = Lt).
  { rewrite encode_cmp by (assumption || reflexivity). unfold kr_cmp. rewrite L. reflexivity. }
  unfold stream_model in SC. fold (eff rv cur) in SC. set (R := eff rv cur) in *.
  rewrite (scan_unlimited V fv single_part _ _ R (RStream R [] []) [(encode a 0, encode b 0)] (wf_recs_ok V WF) I FL (adjust_single _ _)) in SC.
  2:{ intros p [<-|[]]. cbn [fst snd]. rewrite LH. discriminate. }
  cbn zeta in SC. cbn [map fst snd] in SC.
  destruct (stream_fork_out R (wrun_top R (seg V (encode a 0) (encode b 0)))) as (sent & E1 & OK & C).
  rewrite E1 in SC. cbn [rcv_sent] in SC.
  apply stream_check_sound in SC. cbn [stream_outcome] in SC. destruct SC as (data & IL & ->).
  apply interleaving_single in IL. subst data.
  split; [apply outcome_shape; exact OK|]. rewrite outcome_kvs, C. apply seg_index_range; assumption.
Qed.

(* ---------- the compaction record ---------- *)
Lemma firstn_be64 F : firstn 8 (be64 F) = be64 F.
Proof. apply firstn_all2. unfold be64. rewrite be_length. constructor. Qed.

Lemma floor_rec_check ck d F R : floor_rec_ok ck d F = true -> F < two64 -> F <= R -> floor_check (lookup ck d) R = FOk.
Proof.
  unfold floor_rec_ok. intros H HF LE. destruct (N.eqb_spec F 0) as [->|NZ].
  - destruct (lookup ck d); [discriminate|reflexivity].
  - destruct (lookup ck d) as [v|]; [|discriminate]. cbn [opt_eqb] in H. apply beqb_eq in H. subst v.
    unfold floor_check. replace (length (be64 F) <? 8)%nat with false by (unfold be64; rewrite be_length; reflexivity).
    rewrite firstn_be64, from_be_be64 by exact HF. replace (R <? F) with false by lia. reflexivity.
Qed.

(* ---------- what a response must be, as a function of the snapshots T ---------- *)
Definition read_char (srt : bool) (T : N -> list okv) (cur : N) (q : c03_read) : Prop :=
  match q with
  | QGet k rv out => exists h, out = GetResp h (find_key k (T (eff_rev rv cur)))
  | QList a b rv limit out =>
      exists h, out = LResp h (fst (limited limit (in_range a b (T (eff_rev rv cur))))) (snd (limited limit (in_range a b (T (eff_rev rv cur)))))
  | QCount a b out => exists h, out = CResp h (N.of_nat (length (in_range a b (T cur))))
  | QStream a b rv out => stream_shape (eff_rev rv cur) out = true /\ stream_order srt (stream_kvs out) = in_range a b (T (eff_rev rv cur))
  | QEtcd a b rv limit out =>
      let lim := limited limit (in_range a b (T (eff_rev rv cur))) in
      exists h, out = ERange h (fst lim) (snd lim) (N.of_nat (length (fst lim)) + (if snd lim then 1 else 0))
  end.

(* the engine's answer for the range of a read is a tiling (a single partition always is: single_valid) *)
Definition read_parts_ok (parts : partition_fn) (q : c03_read) : Prop :=
  match q with
  | QGet _ _ _ => True
  | QList a b _ _ _ | QCount a b _ | QStream a b _ _ | QEtcd a b _ _ _ => bcmp a b = Lt -> valid_parts parts a b
  end.

(* hypotheses the boolean check does not establish: keys and range bounds over the alphabet, 64-bit revisions *)
Definition read_alpha (q : c03_read) : Prop :=
  match q with
  | QGet k rv _ => alpha k /\ rv < two64
  | QList a b _ _ _ => alpha a /\ alpha b
  | QCount a b _ => alpha a /\ alpha b
  | QStream a b _ _ => alpha a /\ alpha b
  | QEtcd a b _ _ _ => alpha a /\ alpha b
  end.

Lemma etcd_resp_eqb_eq x y : etcd_resp_eqb x y = true -> x = y.
Proof.
  destruct x as [| |h kvs m c], y as [| |h' kvs' m' c']; cbn; try discriminate; intros H; try reflexivity.
  apply andb_true_iff in H as [H H4]. apply andb_true_iff in H as [H H3]. apply andb_true_iff in H as [H1 H2].
  apply N.eqb_eq in H1, H4. apply (list_eqb_eq okv_eqb _ _ okv_eqb_eq) in H2. apply Bool.eqb_prop in H3. congruence.
Qed.

Lemma get_resp_eqb_eq x y : get_resp_eqb x y = true -> x = y.
Proof.
  destruct x as [|h kv], y as [|h' kv']; cbn; try discriminate; intros H; [reflexivity|].
  apply andb_true_iff in H as [H1 H2]. apply N.eqb_eq in H1. subst h'. f_equal.
  destruct kv as [[v r]|], kv' as [[v' r']|]; cbn in H2; try discriminate; [|reflexivity].
  unfold vn_eqb in H2. cbn in H2. apply andb_true_iff in H2 as [E1 E2]. apply beqb_eq in E1. apply N.eqb_eq in E2. congruence.
Qed.

Lemma max_rev_ge (hv : list vreco) y : In y hv -> vr_rev y <= max_rev hv.
Proof.
  induction hv as [|x t IH]; [intros []|]. cbn [max_rev fold_right]. fold (max_rev t). intros [->|H]; [lia|]. specialize (IH H). lia.
Qed.

Section Phase.
  Variables (ck : bytes) (compat srt : bool) (parts : partition_fn) (ph : c03_phase) (hv : list vreco) (F : N).
  Hypotheses (SP : srt = false -> parts = single_part) (HP : hist_pos hv) (FU : functional hv) (CL : compact_layout_ok (ph_dump ph) hv F = true)
             (FR : floor_rec_ok ck (ph_dump ph) F = true) (HF : F < two64) (HC : ph_cur ph < two64).
  Let d := ph_dump ph.
  Let cur := ph_cur ph.
  Let V := versions_of (data_of d).
  Let T := fun R => snapshot_spec (marker_as_deletion hv) R.

  Lemma phase_dump_wf : dump_wf d = true /\ wf_store V.
  Proof. destruct (layout_compacted d hv F HP CL) as [DW _]. split; [exact DW|]. apply (dump_wf_spec d DW). Qed.

  Lemma phase_snapshot R : F <= R -> snapshot V R = T R.
  Proof. intros LE. apply (dump_snapshot d hv F R HP FU CL LE). Qed.

  Lemma phase_revs_le x : In x V -> vr_rev x <= max_rev hv.
  Proof.
    intros Hx. destruct (N.eq_dec (vr_rev x) 0) as [->|NZ]; [lia|].
    destruct (layout_compacted d hv F HP CL) as [_ (Sub & _ & _)].
    assert (Px : In x (positive V)) by (unfold positive; apply filter_In; split; [exact Hx|apply N.ltb_lt; lia]).
    destruct (enc_store_in hv x (Sub x Px)) as (y & Hy & _ & ->). apply max_rev_ge. exact Hy.
  Qed.

  Lemma list_model_limit_parts s fv a b rv (limit : Z) : (0 < limit < max_i64)%Z ->
    list_model s fv parts cur a b rv limit = list_model s fv single_part cur a b rv limit.
  Proof.
    intros HL. unfold list_model. destruct b as [|b0 b']; [reflexivity|]. destruct (negb (bltb a (b0 :: b'))); [reflexivity|].
    replace (0 <? limit)%Z with true by lia. replace (limit =? max_i64)%Z with false by lia.
    unfold range. replace (0 <? limit + 1)%Z with true by lia. reflexivity.
  Qed.

  (* Backend.List on the dump, with or without limit, under any valid partitioning *)
  Lemma phase_list a b rv (limit : Z) : alpha a -> alpha b -> (bcmp a b = Lt -> valid_parts parts a b) ->
    bltb a b && (eff_rev rv cur <=? cur) && (F <=? eff_rev rv cur) && (0 <=? limit)%Z && (limit <? max_i64)%Z = true ->
    let lim := limited limit (in_range a b (T (eff_rev rv cur))) in
    list_model d (lookup ck d) parts cur a b rv limit = LResp cur (fst lim) (snd lim).
  Proof.
    intros Aa Ab PK SC. cbn zeta. destruct phase_dump_wf as [DW WF].
    apply andb_true_iff in SC as [SC S5]. apply andb_true_iff in SC as [SC S4]. apply andb_true_iff in SC as [SC S3].
    apply andb_true_iff in SC as [S1 S2]. apply bltb_spec in S1.
    assert (FL : floor_check (lookup ck d) (if rv =? 0 then cur else rv) = FOk) by (apply (floor_rec_check ck d F); [exact FR|exact HF|unfold eff_rev in S3; lia]).
    destruct (0 <? limit)%Z eqn:EL.
    + rewrite (list_model_limit_parts d _ a b rv limit ltac:(lia)).
      rewrite (list_model_dump d _ cur a b rv limit DW Aa Ab). fold V.
      rewrite (list_model_single V _ cur a b rv limit WF Aa Ab S1 FL ltac:(lia)). cbn zeta. rewrite EL.
      fold (eff_rev rv cur). rewrite (phase_snapshot (eff_rev rv cur)) by lia.
      unfold limited. rewrite EL. reflexivity.
    + assert (limit = 0%Z) by lia. subst limit.
      destruct (c13_group_list_sound d _ parts cur a b DW Aa Ab S1 (PK S1) rv FL) as [_ L2]. fold V in L2.
      rewrite L2. change (eff rv cur) with (eff_rev rv cur). rewrite (phase_snapshot (eff_rev rv cur)) by lia. reflexivity.
  Qed.

  Theorem read_char_of_check q : read_alpha q -> read_parts_ok parts q -> in_scope compat hv cur F q = true ->
    read_check ck compat parts ph q = true -> read_char srt T cur q.
  Proof.
    intros RA PK SC CK. destruct phase_dump_wf as [DW WF].
    destruct q as [k rv out|a b rv limit out|a b out|a b rv out|a b rv limit out]; cbn [read_alpha read_parts_ok in_scope read_check read_char] in *.
    - destruct RA as [Ak Hr]. apply get_resp_eqb_eq in CK. fold d cur in CK.
      rewrite (get_model_dump d cur k rv DW) in CK. fold V in CK. rewrite (get_model_single V cur k rv WF Ak Hr) in CK.
      apply andb_true_iff in SC as [SC S3]. apply andb_true_iff in SC as [S1 S2].
      assert (E : snapshot V (if rv =? 0 then max_u64 else rv) = T (eff_rev rv cur)).
      { unfold eff_rev in *. destruct (N.eqb_spec rv 0) as [->|NZ].
        - cbn [N.ltb N.compare orb] in S3.
          rewrite (snapshot_ge V cur max_u64); [apply phase_snapshot; lia| |unfold max_u64, two64 in *; lia].
          intros x Hx. pose proof (phase_revs_le x Hx). lia.
        - apply phase_snapshot. lia. }
      rewrite E in CK. destruct (find_key k (T (eff_rev rv cur))) as [[v r]|]; eexists; symmetry; exact CK.
    - destruct RA as [Aa Ab]. apply list_resp_eqb_eq in CK. fold d cur in CK.
      rewrite (phase_list a b rv limit Aa Ab PK SC) in CK. exists cur. symmetry. exact CK.
    - destruct RA as [Aa Ab]. apply count_resp_eqb_eq in CK. fold d cur in CK.
      apply andb_true_iff in SC as [SC S3]. apply andb_true_iff in SC as [S1 S2]. subst compat. apply bltb_spec in S2.
      assert (FL : floor_check (lookup ck d) cur = FOk) by (apply (floor_rec_check ck d F); [exact FR|exact HF|lia]).
      rewrite (c13_group_count_sound d _ parts cur a b DW Aa Ab S2 (PK S2) FL) in CK. fold V in CK.
      rewrite (phase_snapshot cur) in CK by lia. exists cur. symmetry. exact CK.
    - destruct RA as [Aa Ab]. fold d cur in CK.
      apply andb_true_iff in SC as [SC S3]. apply andb_true_iff in SC as [S1 S2]. apply bltb_spec in S1.
      assert (FL : floor_check (lookup ck d) (eff rv cur) = FOk) by (apply (floor_rec_check ck d F); [exact FR|exact HF|unfold eff, eff_rev in *; lia]).
      destruct srt eqn:ES.
      + destruct (stream_dump d _ parts cur a b rv out DW Aa Ab S1 (PK S1) FL CK) as [SH P]. fold V in P.
        change (eff rv cur) with (eff_rev rv cur) in *. split; [exact SH|]. cbn [stream_order].
        rewrite (sort_okv_of_perm _ _ P (in_range_sorted a b _ (snapshot_sorted V (eff_rev rv cur)))).
        rewrite (phase_snapshot (eff_rev rv cur)) by lia. reflexivity.
      + rewrite (SP eq_refl) in CK.
        destruct (stream_single_dump d _ cur a b rv out DW Aa Ab S1 FL CK) as [SH KV]. fold V in KV.
        change (eff rv cur) with (eff_rev rv cur) in *. rewrite (phase_snapshot (eff_rev rv cur)) in KV by lia. split; assumption.
    - destruct RA as [Aa Ab]. apply etcd_resp_eqb_eq in CK. fold d cur in CK.
      rewrite (phase_list a b rv limit Aa Ab PK SC) in CK. cbn [etcd_shape] in CK. exists cur. symmetry. exact CK.
  Qed.
End Phase.

(* a characterised response meets the specification it was characterised with *)
Lemma char_meets srt (hv' : list vreco) cur q : read_char srt (snapshot_spec hv') cur q -> read_meets srt in_range hv' cur q = true.
Proof.
  destruct q as [k rv out|a b rv limit out|a b out|a b rv out|a b rv limit out]; cbn [read_char read_meets].
  - intros (h & ->). apply vn_opt_refl.
  - intros (h & ->). destruct (limited limit (in_range a b (snapshot_spec hv' (eff_rev rv cur)))) as [ek em]. cbn [fst snd].
    rewrite (list_eqb_refl okv_eqb _ okv_eqb_refl), Bool.eqb_reflx. reflexivity.
  - intros (h & ->). apply N.eqb_refl.
  - intros [SH ->]. rewrite SH, (list_eqb_refl okv_eqb _ okv_eqb_refl). reflexivity.
  - cbn zeta. intros (h & ->). destruct (limited limit (in_range a b (snapshot_spec hv' (eff_rev rv cur)))) as [ek em]. cbn [fst snd].
    rewrite (list_eqb_refl okv_eqb _ okv_eqb_refl), Bool.eqb_reflx, N.eqb_refl. reflexivity.
Qed.

Lemma read_verdict_of_meets srt hv compat cur floor q : read_meets srt in_range (marker_as_deletion hv) cur q = true ->
  read_verdict srt hv compat cur floor q <> Some 0.
Proof.
  intros M. unfold read_verdict. destruct (negb (in_scope compat hv cur floor q)); [discriminate|].
  destruct (read_meets srt in_range hv cur q); [discriminate|].
  destruct (negb (bounds_alpha q) && read_meets srt in_range_enc hv cur q); [discriminate|]. rewrite M. discriminate.
Qed.

(* ---------- later acknowledged writes carry later revisions: old snapshots do not move ---------- *)
Lemma newest_app_skip {A} (V W : list (@vrec A)) R k : (forall x, In x W -> R < vr_rev x) -> newest (V ++ W) R k = newest V R k.
Proof.
  intros H. induction V as [|x t IH]; cbn [app].
  - apply newest_none. intros y Hy. unfold qual. specialize (H y Hy). replace (vr_rev y <=? R) with false by lia. apply andb_false_r.
  - rewrite !newest_cons, IH. reflexivity.
Qed.

Lemma newest_all_app_skip {A} (V W : list (@vrec A)) R : (forall x, In x W -> R < vr_rev x) -> newest_all (V ++ W) R = newest_all V R.
Proof.
  intros H. rewrite !newest_all_eq.
  rewrite (flat_map_ext_in (pick (V ++ W) R) (pick V R)) by (intros k _; unfold pick; rewrite (newest_app_skip V W R k H); reflexivity).
  symmetry. apply flat_map_sorted_incl; try apply ukeys_sorted.
  - intros k Hk. apply ukeys_mem in Hk as (y & Hy & <-). apply ukeys_mem. exists y. split; [apply in_or_app; left; exact Hy|reflexivity].
  - intros k _ NI. unfold pick. rewrite newest_none; [reflexivity|]. intros y Hy. unfold qual.
    destruct (beqb (vr_key y) k) eqn:E; [|reflexivity]. exfalso. apply NI. apply ukeys_mem. apply beqb_eq in E. eauto.
Qed.

Lemma snapshot_spec_app_skip (V W : list vreco) R : (forall x, In x W -> R < vr_rev x) ->
  snapshot_spec (marker_as_deletion (V ++ W)) R = snapshot_spec (marker_as_deletion V) R.
Proof.
  intros H. unfold snapshot_spec, marker_as_deletion. rewrite map_app. rewrite newest_all_app_skip; [reflexivity|].
  intros x Hx. apply in_map_iff in Hx as (y & <- & Hy). cbn [vr_rev fst snd]. apply H. exact Hy.
Qed.

Lemma hist_versions_app a b : hist_versions (a ++ b) = hist_versions a ++ hist_versions b.
Proof. unfold hist_versions. apply flat_map_app. Qed.

(* ---------- stability ---------- *)
Lemma worst_ne0 x y : x <> Some 0 -> y <> Some 0 -> worst x y <> Some 0.
Proof. destruct x as [[|p]|], y as [[|q]|]; cbn; congruence. Qed.

Section Stable.
  Variables (srt compat : bool) (hv1 hv2 : list vreco) (cur1 cur2 Fp F2 : N) (T1 T2 : N -> list okv).
  Hypotheses (LF : Fp <= F2) (TE : forall R, R <= cur1 -> T2 R = T1 R).

  Lemma pair_ok q1 q2 :
    (in_scope compat hv1 cur1 Fp q1 = true -> read_char srt T1 cur1 q1) ->
    (in_scope compat hv2 cur2 F2 q2 = true -> read_char srt T2 cur2 q2) ->
    (negb ((0 <? read_rev q1) && in_scope compat hv1 cur1 0 q1 && in_scope compat hv2 cur2 F2 q2) || same_answer srt q1 q2) = true.
  Proof.
    intros C1 C2.
    destruct ((0 <? read_rev q1) && in_scope compat hv1 cur1 0 q1 && in_scope compat hv2 cur2 F2 q2) eqn:G; [|reflexivity].
    cbn [negb orb]. apply andb_true_iff in G as [G S2]. apply andb_true_iff in G as [P1 S1]. apply N.ltb_lt in P1.
    specialize (C2 S2).
    destruct q1 as [k r o1|a b r l o1|a b o1|a b r o1|a b r l o1]; destruct q2 as [k' r' o2|a' b' r' l' o2|a' b' o2|a' b' r' o2|a' b' r' l' o2];
      cbn [read_rev] in P1; try reflexivity; try (destruct o1; reflexivity).
    - (* Get / Get *)
      destruct C2 as (h2 & ->). destruct o1 as [|h1 kv1]; [reflexivity|]. cbn [same_answer].
      destruct (beqb k k' && (r =? r')) eqn:EQ; [|reflexivity]. cbn [negb orb].
      apply andb_true_iff in EQ as [E1 E2]. apply beqb_eq in E1. apply N.eqb_eq in E2. subst k' r'.
      assert (ER : forall c, eff_rev r c = r) by (intros c; unfold eff_rev; replace (r =? 0) with false by lia; reflexivity).
      cbn [in_scope] in S1, S2. rewrite !ER in *.
      destruct C1 as (h1' & E).
      { cbn [in_scope]. rewrite ER. apply andb_true_iff in S1 as [S1 S13]. apply andb_true_iff in S1 as [S11 S12].
        apply andb_true_iff in S2 as [S2' _]. apply andb_true_iff in S2' as [_ S22].
        rewrite S11, S13. replace (Fp <=? r) with true by lia. reflexivity. }
      injection E as _ ->. rewrite !ER, TE; [apply vn_opt_refl|].
      apply andb_true_iff in S1 as [S1 _]. apply andb_true_iff in S1 as [S11 _]. lia.
    - (* List / List *)
      destruct C2 as (h2 & ->). destruct o1 as [| |h1 kvs1 m1]; try reflexivity. cbn [same_answer].
      destruct (beqb a a' && beqb b b' && (r =? r') && (l =? l')%Z) eqn:EQ; [|reflexivity]. cbn [negb orb].
      apply andb_true_iff in EQ as [EQ E4]. apply andb_true_iff in EQ as [EQ E3]. apply andb_true_iff in EQ as [E1 E2].
      apply beqb_eq in E1, E2. apply N.eqb_eq in E3. apply Z.eqb_eq in E4. subst a' b' r' l'.
      assert (ER : forall c, eff_rev r c = r) by (intros c; unfold eff_rev; replace (r =? 0) with false by lia; reflexivity).
      cbn [in_scope] in S1, S2. rewrite !ER in *.
      apply andb_true_iff in S1 as [S1 S15]. apply andb_true_iff in S1 as [S1 S14]. apply andb_true_iff in S1 as [S1 S13].
      apply andb_true_iff in S1 as [S11 S12].
      apply andb_true_iff in S2 as [S2' _]. apply andb_true_iff in S2' as [S2' _]. apply andb_true_iff in S2' as [_ S23].
      destruct C1 as (h1' & E).
      { cbn [in_scope]. rewrite ER, S11, S12, S14, S15. replace (Fp <=? r) with true by lia. reflexivity. }
      injection E as _ -> ->. rewrite !ER, TE by lia.
      rewrite (list_eqb_refl okv_eqb _ okv_eqb_refl), Bool.eqb_reflx. reflexivity.
    - (* Stream / Stream *)
      cbn [same_answer].
      destruct (beqb a a' && beqb b b' && (r =? r')) eqn:EQ; [|reflexivity]. cbn [negb orb].
      apply andb_true_iff in EQ as [EQ E3]. apply andb_true_iff in EQ as [E1 E2].
      apply beqb_eq in E1, E2. apply N.eqb_eq in E3. subst a' b' r'.
      assert (ER : forall c, eff_rev r c = r) by (intros c; unfold eff_rev; replace (r =? 0) with false by lia; reflexivity).
      cbn [in_scope] in S1, S2. rewrite !ER in *.
      apply andb_true_iff in S1 as [S1 S13]. apply andb_true_iff in S1 as [S11 S12].
      apply andb_true_iff in S2 as [S2' S23]. 
      destruct C1 as [_ K1].
      { cbn [in_scope]. rewrite ER, S11, S12. replace (Fp <=? r) with true by lia. reflexivity. }
      destruct C2 as [_ K2]. rewrite K1, K2, !ER, TE by lia. apply (list_eqb_refl okv_eqb _ okv_eqb_refl).
  Qed.

  Lemma stable_ok : forall r1 r2,
    (forall q, In q r1 -> in_scope compat hv1 cur1 Fp q = true -> read_char srt T1 cur1 q) ->
    (forall q, In q r2 -> in_scope compat hv2 cur2 F2 q = true -> read_char srt T2 cur2 q) ->
    stable_verdict srt compat hv1 hv2 cur1 cur2 F2 r1 r2 = true.
  Proof.
    induction r1 as [|q1 t1 IH]; intros r2 C1 C2; [reflexivity|]. destruct r2 as [|q2 t2]; [reflexivity|].
    cbn [stable_verdict]. rewrite (pair_ok q1 q2 (C1 q1 (or_introl eq_refl)) (C2 q2 (or_introl eq_refl))). cbn [andb].
    apply IH; intros q Hq; [apply C1|apply C2]; right; exact Hq.
  Qed.
End Stable.

(* ---------- phases ---------- *)
(* facts about a case that the boolean check does not establish: acknowledged writes carry positive, pairwise
   distinct (key, revision) pairs, and writes acknowledged after a phase carry revisions above the revision
   that phase reported (C02); floors and reported revisions are 64-bit; keys and range bounds of the reads
   are over the alphabet; the engine's recorded answer for the range of every read is a tiling *)
Fixpoint phases_valid (parts : partition_fn) (acc : list wop) (F pcur : N) (phs : list c03_phase) : Prop :=
  match phs with
  | [] => True
  | ph :: t =>
      let ops := acc ++ ph_ops ph in
      let F' := N.max F (ph_floor ph) in
      hist_pos (hist_versions ops) /\ functional (hist_versions ops) /\ F' < two64 /\ ph_cur ph < two64 /\
      Forall read_alpha (ph_reads ph) /\ Forall (read_parts_ok parts) (ph_reads ph) /\
      Forall (fun x => pcur < vr_rev x) (hist_versions (ph_ops ph)) /\
      phases_valid parts ops F' (ph_cur ph) t
  end.

Definition c03_valid (c : c03_case) : Prop := phases_valid (c03_parts c) [] 0 0 (c_phases c).

Definition spec_of (ops : list wop) : N -> list okv := fun R => snapshot_spec (marker_as_deletion (hist_versions ops)) R.

Definition prev_ok (srt compat : bool) (prev : option (c03_phase * list wop)) (acc : list wop) (F pcur : N) : Prop :=
  match prev with
  | None => True
  | Some (p, pops) =>
      pops = acc /\ ph_cur p = pcur /\
      exists Fp, Fp <= F /\
        forall q, In q (ph_reads p) -> in_scope compat (hist_versions acc) pcur Fp q = true -> read_char srt (spec_of acc) pcur q
  end.

Lemma phase_verdict_ok ck compat srt parts ph hv F : (srt = false -> parts = single_part) ->
  hist_pos hv -> functional hv -> compact_layout_ok (ph_dump ph) hv F = true -> floor_rec_ok ck (ph_dump ph) F = true ->
  F < two64 -> ph_cur ph < two64 -> Forall read_alpha (ph_reads ph) -> Forall (read_parts_ok parts) (ph_reads ph) ->
  phase_check ck compat parts ph = true ->
  (forall q, In q (ph_reads ph) -> in_scope compat hv (ph_cur ph) F q = true ->
             read_char srt (fun R => snapshot_spec (marker_as_deletion hv) R) (ph_cur ph) q)
  /\ phase_verdict srt hv compat F ph <> Some 0.
Proof.
  intros SP HP FU CL FR HF HC RA PK PC. unfold phase_check in PC. rewrite forallb_forall in PC. rewrite Forall_forall in RA, PK.
  assert (CH : forall q, In q (ph_reads ph) -> in_scope compat hv (ph_cur ph) F q = true ->
               read_char srt (fun R => snapshot_spec (marker_as_deletion hv) R) (ph_cur ph) q).
  { intros q Hq SC. apply (read_char_of_check ck compat srt parts ph hv F SP HP FU CL FR HF HC q (RA q Hq) (PK q Hq) SC (PC q Hq)). }
  split; [exact CH|]. unfold phase_verdict. clear RA PK PC.
  induction (ph_reads ph) as [|q t IH]; [discriminate|]. cbn [fold_right]. apply worst_ne0.
  - destruct (in_scope compat hv (ph_cur ph) F q) eqn:SC.
    + apply read_verdict_of_meets. apply char_meets. apply (CH q (or_introl eq_refl) SC).
    + unfold read_verdict. rewrite SC. discriminate.
  - apply IH. intros q' Hq'. apply CH. right; exact Hq'.
Qed.

Lemma phases_sound ck compat srt parts : (srt = false -> parts = single_part) -> forall phs acc F prev pcur,
  phases_valid parts acc F pcur phs -> phases_check ck compat parts acc F phs = true -> prev_ok srt compat prev acc F pcur ->
  phases_verdict srt compat acc F prev phs <> Some 0.
Proof.
  intros SP. induction phs as [|ph t IH]; intros acc F prev pcur VA CK PO; [discriminate|].
  cbn [phases_valid] in VA. destruct VA as (HP & FU & HF & HC & RA & PK & NEW & VT).
  cbn [phases_check] in CK. apply andb_true_iff in CK as [CK CT]. apply andb_true_iff in CK as [CK FR]. apply andb_true_iff in CK as [PC CL].
  set (ops := acc ++ ph_ops ph) in *. set (F' := N.max F (ph_floor ph)) in *.
  destruct (phase_verdict_ok ck compat srt parts ph (hist_versions ops) F' SP HP FU CL FR HF HC RA PK PC) as [CH PV].
  cbn [phases_verdict]. fold ops F'. apply worst_ne0; [apply worst_ne0; [exact PV|]|].
  - destruct prev as [[p pops]|]; [|discriminate].
    destruct PO as (-> & EC & Fp & LFp & CP).
    rewrite (stable_ok srt compat (hist_versions acc) (hist_versions ops) (ph_cur p) (ph_cur ph) Fp F'
               (spec_of acc) (spec_of ops)); [discriminate|lia| | |].
    + intros R LR. unfold spec_of, ops. rewrite hist_versions_app. apply snapshot_spec_app_skip.
      intros x Hx. rewrite Forall_forall in NEW. specialize (NEW x Hx). lia.
    + rewrite EC. exact CP.
    + exact CH.
  - apply (IH ops F' (Some (ph, ops)) (ph_cur ph) VT CT). cbn [prev_ok]. split; [reflexivity|]. split; [reflexivity|].
    exists F'. split; [lia|]. exact CH.
Qed.

Lemma c03_parts_single c : c03_partitioned c = false -> c03_parts c = single_part.
Proof. unfold c03_partitioned, c03_parts. destruct (c_calls c); [reflexivity|discriminate]. Qed.

(* a case the model reproduces entirely — every response from the dump, every dump the layout of the history up
   to permitted compaction removals — is never an unlisted violation *)
Theorem c03_oracle_sound c : c03_valid c -> c03_check c = true -> c03_oracle c <> Some 0.
Proof. intros V CK. apply (phases_sound (c_ck c) (c_compat c) (c03_partitioned c) (c03_parts c) (c03_parts_single c) (c_phases c) [] 0 None 0 V CK I). Qed.

(* and without marker values and without compaction-unrelated findings it holds outright: the verdict is None
   when no acknowledged value equals the marker *)
Lemma mad_id (hv : list vreco) : no_marker hv -> hist_pos hv -> marker_as_deletion hv = hv.
Proof.
  intros NM HP. unfold marker_as_deletion. rewrite <- (map_id hv) at 2. apply map_ext_in. intros [[k r] a] Hx. cbn.
  unfold no_marker in NM. unfold hist_pos in HP. rewrite Forall_forall in NM, HP. specialize (NM _ Hx (HP _ Hx)). cbn in NM.
  destruct a as [v|]; [|reflexivity]. destruct (beqb v tombstone) eqn:E; [|reflexivity]. apply beqb_eq in E. congruence.
Qed.
