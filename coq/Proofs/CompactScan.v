(* C17: a scanner pass without interleaved writers and without engine faults (what the c17 scanner cases exercise outside the
   update-in-the-window scripts): every record it removes is an expiry target or is explained by the compaction proper, an
   expired index goes with all the versions of its key, nothing appears - the oracle's verdict on the pass is "fine". *)
From KB Require Import Base.Cases Model.Coder Model.CompactSys Model.C07Cases Model.C17Cases Proofs.Coder
  Proofs.CompactSafe Proofs.CompactReads Proofs.CompactWf Proofs.CompactPass Proofs.CompactRanges Proofs.CompactExpiry
  Proofs.CompactOracle Proofs.CompactTtl.
From Coq Require Import Sorted.
Local Open Scope N_scope.

Section Pass.
Variables (evp : bytes) (R tr : N) (lo hi : bytes) (V0 : store).
Hypothesis Hiu : idx_unique V0.
Hypothesis Huv : uniq_ver V0.

(* why a record may be missing: it expired, or the compaction proper accounts for it (the oracle's `explained`) *)
Definition tok2 (y : rec) : Prop := (expiry_target evp tr y \/ explained R V0 y = true) /\ in_range lo hi y = true.

Definition keeps2 (d d' : dst) : Prop :=
  adds_of d' = [] /\ (forall y, In y (d_store d') -> In y (d_store d)) /\
  (forall y, In y V0 -> In y (d_store d) -> In y (d_store d') \/ tok2 y).

Lemma keeps2_refl d : adds_of d = [] -> keeps2 d d.
Proof. intros H. repeat split; auto. Qed.

Lemma keeps2_trans d1 d2 d3 : keeps2 d1 d2 -> keeps2 d2 d3 -> keeps2 d1 d3.
Proof.
  intros (A1 & A2 & A3) (B1 & B2 & B3). split; [exact B1|split].
  - intros y Hy. apply A2, B2, Hy.
  - intros y Hv Hy. destruct (A3 y Hv Hy) as [H|H]; [apply B3; assumption|right; exact H].
Qed.

(* deleting a version z of the initial store: whatever goes is z itself *)
Lemma keeps2_ver z d :
  adds_of d = [] -> In z V0 -> is_ver z = true -> tok2 z -> keeps2 d (engine_delete R KDel z d).
Proof.
  intros Had Hz Hv Ht. destruct (ed_seq R KDel z d Had) as (A1 & A2 & A3).
  split; [exact A1|split; [exact A2|]].
  intros y HyV Hy. destruct (A3 y Hy) as [H|[Hs _]]; [left; exact H|right].
  destruct z as [|k r v]; [discriminate|]. apply same_slot_ver in Hs as [v' ->].
  rewrite (Huv k r v' v HyV Hz). exact Ht.
Qed.

Lemma keeps2_idx k r dd d :
  adds_of d = [] -> (forall y, In y (d_store d) -> In y V0) -> tok2 (RIdx k r dd) ->
  keeps2 d (engine_delete R KDelCur (RIdx k r dd) d).
Proof.
  intros Had Hsub Ht. destruct (ed_seq R KDelCur (RIdx k r dd) d Had) as (A1 & A2 & A3).
  split; [exact A1|split; [exact A2|]].
  intros y HyV Hy. destruct (A3 y Hy) as [H|[Hs Hin]]; [left; exact H|right].
  apply same_slot_idx in Hs as (r' & d' & ->). specialize (Hin eq_refl).
  destruct (Hiu k r dd r' d' (Hsub _ Hin) HyV) as [<- <-]. exact Ht.
Qed.

Variable snap : list rec.
Hypothesis Hsnap : snap_ok snap.
Hypothesis Hsnap_in : forall y, In y snap -> In y V0 /\ in_range lo hi y = true.

(* one record of the snapshot *)
Lemma wbody_keeps2 done x t s :
  snap = done ++ x :: t ->
  adds_of (w_d s) = [] -> (forall y, In y (d_store (w_d s)) -> In y V0) ->
  (0 < w_pr s -> In (RVer (w_pk s) (w_pr s) (w_pv s)) done) ->
  keeps2 (w_d s) (w_d (wbody (ccfg evp R tr) x s)) /\
  (0 < w_pr (wbody (ccfg evp R tr) x s) ->
   In (RVer (w_pk (wbody (ccfg evp R tr) x s)) (w_pr (wbody (ccfg evp R tr) x s)) (w_pv (wbody (ccfg evp R tr) x s))) (done ++ [x])).
Proof.
  intros Esnap Ha Hsub Hprev.
  destruct (sorted_split done x t) as (Sd & St & Sdt); [rewrite <- Esnap; apply Hsnap|].
  assert (Hxin : In x snap) by (rewrite Esnap; apply in_app_iff; right; left; reflexivity).
  destruct (Hsnap_in x Hxin) as [HxV Hxr].
  assert (Hdone_in : forall y, In y done -> In y V0) by (intros y Hy; apply Hsnap_in; rewrite Esnap; apply in_app_iff; left; exact Hy).
  rewrite wbody_split. destruct (expire_kind evp tr x) as [kind|] eqn:Ee.
  - (* expired *)
    apply expire_kind_target in Ee as (Ht & Hv1 & Hv2). cbn [w_d w_pr w_pk w_pv].
    split; [|intros Hp; apply in_app_iff; left; auto].
    destruct kind.
    + apply keeps2_ver; [exact Ha|exact HxV|apply Hv1; reflexivity|split; [left; exact Ht|exact Hxr]].
    + destruct x as [k r dd|]; [|specialize (Hv2 eq_refl); discriminate].
      apply keeps2_idx; [exact Ha|exact Hsub|split; [left; exact Ht|exact Hxr]].
  - (* the compaction proper *)
    destruct (R <? rrev x) eqn:HR.
    { rewrite wbody_skip by exact HR. split; [apply keeps2_refl; exact Ha|intros Hp; apply in_app_iff; left; auto]. }
    destruct (wbody_compact R x s HR) as (Ed & Eprev). apply N.ltb_ge in HR. rewrite Ed.
    assert (KA : keeps2 (w_d s) (stepA R x s)).
    { unfold stepA. destruct (beqb (rkey x) (w_pk s) && (0 <? w_pr s)) eqn:Eb; [|apply keeps2_refl; exact Ha].
      apply andb_true_iff in Eb as [Hk Hp]. apply N.ltb_lt in Hp. apply beqb_eq in Hk.
      pose proof (Hprev Hp) as Hpd. pose proof (Sd _ Hpd) as Hlt.
      apply rlt_cases in Hlt as [Hc|[_ Hc]]; cbn [rkey rrev] in Hc; [rewrite <- Hk, bcmp_refl in Hc; discriminate|].
      destruct x as [k0 r0 d0|k0 r0 v0]; cbn [rrev rkey] in *; [lia|]. subst k0.
      apply keeps2_ver; [exact Ha|apply Hdone_in; exact Hpd|reflexivity|].
      split.
      - right. cbn [explained]. apply orb_true_iff. left. apply existsb_exists. exists (RVer (w_pk s) r0 v0).
        split; [exact HxV|]. rewrite beqb_refl. cbn [andb]. apply andb_true_iff. split; [apply N.ltb_lt; exact Hc|apply N.leb_le; exact HR].
      - unfold in_range in *. cbn [rkey] in *. exact Hxr. }
    assert (KB : keeps2 (stepA R x s) (stepB R x (stepA R x s))).
    { unfold stepB. destruct (is_tomb (rval x)) eqn:Et; [|apply keeps2_refl; apply KA].
      destruct x as [k0 r0 d0|k0 r0 v0]; [rewrite is_tomb_idx in Et; discriminate|].
      apply keeps2_ver; [apply KA|exact HxV|reflexivity|]. split; [|exact Hxr].
      right. cbn [explained rval] in *. apply orb_true_iff. right. rewrite Et. cbn [andb rrev] in *. apply N.leb_le. exact HR. }
    pose proof (keeps2_trans _ _ _ KA KB) as KAB.
    assert (KC : keeps2 (stepB R x (stepA R x s)) (stepC R x (stepB R x (stepA R x s)))).
    { unfold stepC. destruct x as [k0 orev [|]|k0 r0 v0]; try (apply keeps2_refl; apply KAB).
      destruct (R <? orev) eqn:Eo; [apply keeps2_refl; apply KAB|]. apply N.ltb_ge in Eo.
      apply keeps2_idx; [apply KAB| |split; [right; cbn [explained]; apply N.leb_le; exact Eo|exact Hxr]].
      intros y Hy. apply Hsub. apply KAB. exact Hy. }
    split; [exact (keeps2_trans _ _ _ KAB KC)|].
    destruct (advances R x) eqn:Eadv; destruct Eprev as (E1 & E2 & E3); rewrite E1, E2, E3.
    + intros Hp. apply in_app_iff. right. left.
      destruct x as [k0 r0 d0|k0 r0 v0]; cbn [rrev rkey rval] in *; [lia|reflexivity].
    + intros Hp. apply in_app_iff. left. auto.
Qed.

Lemma wloop_keeps2 : forall todo done s,
  snap = done ++ todo ->
  adds_of (w_d s) = [] -> (forall y, In y (d_store (w_d s)) -> In y V0) ->
  (0 < w_pr s -> In (RVer (w_pk s) (w_pr s) (w_pv s)) done) ->
  keeps2 (w_d s) (w_d (wloop (ccfg evp R tr) todo s)).
Proof.
  induction todo as [|x t IH]; intros done s Esnap Ha Hsub Hprev; cbn [wloop]; [apply keeps2_refl; exact Ha|].
  destruct (negb (need_more (ccfg evp R tr) (w_out s))); [apply keeps2_refl; exact Ha|].
  destruct (d_dead (w_d s)); [apply keeps2_refl; exact Ha|].
  destruct (wbody_keeps2 done x t s Esnap Ha Hsub Hprev) as (K1 & Hp1).
  eapply keeps2_trans; [exact K1|].
  apply (IH (done ++ [x])); [rewrite <- app_assoc; exact Esnap|apply K1| |exact Hp1].
  intros y Hy. apply Hsub. apply K1. exact Hy.
Qed.

End Pass.

Lemma fold_worse_none {A} (f : A -> option N) : forall l,
  (forall x, In x l -> f x = None) -> fold_left (fun acc x => worse acc (f x)) l None = None.
Proof.
  induction l as [|x l IH]; intros H; [reflexivity|]. cbn [fold_left]. rewrite (H x (or_introl eq_refl)). cbn [worse].
  apply IH. intros y Hy. apply H. right; exact Hy.
Qed.

Lemma wfd_versions_below V k orev d r v : wfd V -> In (RIdx k orev d) V -> In (RVer k r v) V -> r <= orev.
Proof.
  intros (_ & _ & Hk) Hi Hv. destruct (Hk k) as (K1 & K2 & _). destruct d.
  - destruct (K2 orev Hi) as [Hn|[_ Ht]]; [exfalso; exact (Hn r v Hv)|exact (Ht r v Hv)].
  - destruct (K1 orev Hi) as (v0 & [_ Ht] & _). exact (Ht r v Hv).
Qed.

(* a pass without writers and without faults, judged by the oracle: nothing to report *)
Theorem pass_sound prefix sup ttl now R lo hi q V0 marks :
  store_ok V0 -> wfd V0 -> incl q marks ->
  let '(q', tr, dd) := scanner_compact (events_prefix prefix) sup ttl now R lo hi q (init_d V0 []) in
  pass_verdict prefix ttl V0 (sort_by rec_ltb (d_store dd)) (marks ++ [(R, now)]) now R [] = None /\
  incl q' (marks ++ [(R, now)]).
Proof.
  intros Hok Hw Hq.
  pose proof (scanner_marks (events_prefix prefix) sup ttl now R lo hi q (init_d V0 []) marks Hq) as Hm.
  unfold scanner_compact in *.
  destruct (timeout_revision sup ttl now (q ++ [(R, now)])) as [tr q2]. destruct Hm as (Hincl & Htr).
  split; [|exact Hincl].
  set (evp := events_prefix prefix) in *.
  unfold compact_range_e. cbn [init_d d_store d_ghost d_oc d_dead d_trace].
  change (mkCfg R true tr 0 evp) with (ccfg evp R tr).
  set (snap := sort_by rec_ltb (filter (in_range lo hi) V0)).
  set (s0 := init_w (mkD V0 V0 [] [] false [])).
  assert (Hsnap_in : forall y, In y snap -> In y V0 /\ in_range lo hi y = true).
  { intros y Hy. apply in_sort_by in Hy. apply filter_In in Hy. exact Hy. }
  destruct Hw as (Hiu & Huv & Hkw).
  assert (Hw : wfd V0) by (split; [exact Hiu|split; [exact Huv|exact Hkw]]).
  destruct (wloop_keeps2 evp R tr lo hi V0 Hiu Huv snap (snap_ok_range lo hi V0 Hok) Hsnap_in snap [] s0 eq_refl) as (_ & Hsub & Hkeep).
  { reflexivity. }
  { intros y Hy. exact Hy. }
  { cbn. lia. }
  destruct (wloop_ff_gone evp R tr snap s0) as (_ & Hgone); [repeat split|].
  set (S := d_store (w_d (wloop (ccfg evp R tr) snap s0))) in *.
  cbn [s0 init_w w_d d_store] in Hsub, Hkeep.
  unfold pass_verdict, all_adds. cbn [flat_map apply_env].
  assert (Hall : forallb (fun y => memb y V0) (sort_by rec_ltb S) = true).
  { apply forallb_forall. intros y Hy. apply memb_spec. apply Hsub. apply in_sort_by in Hy. exact Hy. }
  rewrite Hall.
  apply fold_worse_none. intros x Hx. unfold removed in Hx. apply filter_In in Hx as [HxV Hnm].
  destruct (explained R V0 x) eqn:Eex; [reflexivity|].
  assert (HxS : ~ In x S).
  { intros Hin. apply negb_true_iff in Hnm. assert (memb x (sort_by rec_ltb S) = true); [|congruence].
    apply memb_spec. apply in_sort_by. exact Hin. }
  destruct (Hkeep x HxV HxV) as [Hin|[[Hexp|Hex] Hrange]]; [contradiction| |congruence].
  destruct Hexp as (Htr0 & Hev & Hrev).
  unfold expiry_verdict. unfold evp in Hev. rewrite is_expirable_event in Hev. rewrite Hev. cbn [negb].
  destruct Htr as [->|(m & Em & Hm)]; [contradiction|]. rewrite Em.
  assert (Hle : rec_rev x <=? m = true) by (apply N.leb_le; lia). rewrite Hle. cbn [negb].
  destruct x as [k orev d|k r v]; [|reflexivity].
  (* the index goes with every version of its key *)
  destruct (existsb (fun y => match y with RVer k' _ _ => beqb k k' | _ => false end) (sort_by rec_ltb S)) eqn:Ee; [|reflexivity].
  exfalso. apply existsb_exists in Ee as ([|k' r v] & Hy & Hk); [discriminate|]. apply beqb_eq in Hk. subst k'.
  apply in_sort_by in Hy. pose proof (Hsub _ Hy) as HyV.
  pose proof (wfd_versions_below V0 k orev d r v Hw HxV HyV) as Hr. cbn [rec_rev rkey] in *.
  apply (Hgone (RVer k r v)); [| |exact Hy].
  - apply in_sort_by. apply filter_In. split; [exact HyV|]. unfold in_range in *. cbn [rkey] in *. exact Hrange.
  - unfold expire_kind. apply N.eqb_neq in Htr0. rewrite Htr0. cbn [rkey]. fold evp. rewrite <- is_expirable_event in Hev. fold evp in Hev. rewrite Hev.
    assert (El : r <=? tr = true) by (apply N.leb_le; lia). rewrite El. discriminate.
Qed.

(* ================================================================================================ *)
(* a history of passes                                                                              *)
(* ================================================================================================ *)

(* the hypotheses, step by step along the observed dumps: no writers interleaved with a pass and no engine faults (oc = []),
   the store a pass starts from holds records in distinct slots and satisfies the relaxed well-formedness *)
Fixpoint scan_valid (V : store) (steps : list c17_step) : Prop :=
  match steps with
  | [] => True
  | SStore d :: t => scan_valid (apply_diff V d) t
  | SCompact _ _ _ _ oc d :: t => oc = [] /\ store_ok V /\ wfd V /\ scan_valid (apply_diff V d) t
  | SCompactReq _ _ _ _ _ oc d :: t => oc = [] /\ store_ok V /\ wfd V /\ scan_valid (apply_diff V d) t
  end.

Theorem scan_sound prefix ttl sup : forall steps V q marks Vf,
  incl q marks -> scan_valid V steps ->
  scan_run (events_prefix prefix) ttl sup V q steps = Some Vf ->
  scan_oracle prefix ttl V marks steps = None /\ Vf = store_after V steps.
Proof.
  induction steps as [|st steps IH]; intros V q marks Vf Hq Hv Hr.
  - cbn in *. injection Hr as <-. split; reflexivity.
  - destruct st as [d|now R lo hi oc d|now cur req lo hi oc d]; cbn [scan_run scan_oracle store_after scan_valid] in *.
    + apply (IH _ q marks Vf Hq Hv Hr).
    + destruct Hv as (-> & Hok & Hw & Hv).
      pose proof (pass_sound prefix sup ttl now R lo hi q V marks Hok Hw Hq) as Hp.
      destruct (scanner_compact (events_prefix prefix) sup ttl now R lo hi q (init_d V [])) as [[q' tr] dd].
      destruct Hp as (Hpv & Hq').
      destruct (store_eqb (sort_by rec_ltb (d_store dd)) (apply_diff V d)) eqn:Es; [|discriminate].
      apply store_eqb_eq in Es. rewrite <- Es. rewrite Hpv. cbn [worse].
      rewrite <- Es in Hr, Hv. destruct (IH _ q' (marks ++ [(R, now)]) Vf Hq' Hv Hr) as (H1 & H2).
      rewrite H1. split; [reflexivity|exact H2].
    + destruct Hv as (-> & Hok & Hw & Hv).
      pose proof (pass_sound prefix sup ttl now (clamp cur 0 req) lo hi q V marks Hok Hw Hq) as Hp.
      destruct (scanner_compact (events_prefix prefix) sup ttl now (clamp cur 0 req) lo hi q (init_d V [])) as [[q' tr] dd].
      destruct Hp as (Hpv & Hq').
      destruct (store_eqb (sort_by rec_ltb (d_store dd)) (apply_diff V d)) eqn:Es; [|discriminate].
      apply store_eqb_eq in Es. rewrite <- Es. rewrite Hpv. cbn [worse].
      rewrite <- Es in Hr, Hv. destruct (IH _ q' (marks ++ [(clamp cur 0 req, now)]) Vf Hq' Hv Hr) as (H1 & H2).
      rewrite H1. split; [reflexivity|exact H2].
Qed.

(* ================================================================================================ *)
(* the probes after the history: Get, Update at the revision read, Create                           *)
(* ================================================================================================ *)

Lemma commit_self_get V k n v :
  wfd V -> fresh V n -> v <> tombstone -> get_at (commit V k n false v) max_rev k = Some (n, v).
Proof.
  intros Hw Hf Hv.
  assert (Hw' : wfd (commit V k n false v)).
  { apply commit_wfd; [exact Hw|exact Hf|]. split; [discriminate|intros E; contradiction]. }
  apply get_at_spec; [apply Hw'|]. destruct Hf as (Hmax & Hn & _).
  split; [|exact Hv]. split; [apply commit_ver; right; auto|]. split; [exact Hmax|].
  intros r' v' Hin _. apply commit_ver in Hin as [Hin|(_ & -> & _)]; [specialize (Hn _ _ _ Hin); lia|lia].
Qed.

Lemma opt_nb_eq a b : opt_eqb nb_eqb a b = true -> a = b.
Proof.
  destruct a as [[r v]|], b as [[r' v']|]; cbn [opt_eqb]; try discriminate; [|reflexivity].
  unfold nb_eqb. cbn [fst snd]. intros H. apply andb_true_iff in H as [H1 H2]. apply N.eqb_eq in H1. apply beqb_eq in H2. congruence.
Qed.

Definition fkey (e : bytes * option (N * bytes) * option wres * wres) : bytes := fst (fst (fst e)).

Lemma nokey_get V k R : (forall y, In y V -> rkey y <> k) -> get_at V R k = None.
Proof.
  intros H. unfold get_at. rewrite latest_le_none; [reflexivity|]. intros r v Hin. exact (H _ Hin eq_refl).
Qed.

Theorem final_sound V0 : forall fin V n,
  wfd V -> fresh V n -> n + 2 * N.of_nat (length fin) <= max_rev ->
  NoDup (map fkey fin) ->
  Forall (fun e => match snd (fst (fst e)) with Some (r, _) => 0 < r | None => True end) fin ->
  (forall e, In e fin -> get_at V max_rev (fkey e) = get_at V0 max_rev (fkey e)) ->
  final_ok V n fin = true -> final_oracle V0 fin = true.
Proof.
  induction fin as [|[[[k got] upd] res] fin IH]; intros V n Hw Hf Hb Hnd Hpos Hsame H; [reflexivity|].
  cbn [final_ok final_oracle] in *.
  inversion Hnd as [|? ? Hnk Hnd']; subst. inversion Hpos as [|? ? Hp1 Hpos']; subst. cbn [fst snd] in Hp1.
  apply andb_true_iff in H as [Hg H]. apply opt_nb_eq in Hg.
  assert (Hg0 : get_at V0 max_rev k = got).
  { pose proof (Hsame _ (or_introl eq_refl)) as Hs0. cbn [fkey fst] in Hs0. rewrite <- Hs0. exact Hg. }
  assert (Hlen : n + 2 <= max_rev /\ n + 2 + 2 * N.of_nat (length fin) <= max_rev) by (cbn [length] in Hb; lia).
  assert (Ht1 : [121] <> tombstone) by discriminate. assert (Ht2 : [120] <> tombstone) by discriminate.
  (* the first clause follows from the second: a key without any record reads absent *)
  assert (Hc1 : (if existsb (fun y => beqb (rkey y) k) V0 then true else opt_eqb nb_eqb got None && wres_eqb res WOk) = true ->
                True) by auto.
  destruct got as [[r v0]|]; destruct upd as [ur|]; try discriminate.
  - (* present: the update at the revision read succeeds, the create is refused *)
    assert (Hin : In (RVer k r v0) V).
    { apply get_at_spec in Hg; [|apply Hw]. destruct Hg as [(Hin & _) _]. exact Hin. }
    assert (Hrn : r <= n) by (destruct Hf as (_ & Hn & _); specialize (Hn _ _ _ Hin); lia).
    pose proof (do_update_step V k [121] r n Hw Hf ltac:(lia) Ht1 Hrn) as Hs.
    assert (Hshape : do_update V k [121] r n = (commit V k n false [121], WOk)).
    { assert (Hr0 : r <> 0) by lia.
      pose proof (update_semantics V k [121] r n Hw Hf Hr0 Hrn) as Hsem.
      assert (Hok : snd (do_update V k [121] r n) = WOk) by (apply Hsem; eauto).
      unfold do_update in *. apply N.eqb_neq in Hr0. rewrite Hr0 in *.
      assert (El : (n <? r) = false) by (apply N.ltb_ge; exact Hrn). rewrite El in *.
      destruct (idx_of V k) as [[ri [|]]|]; try discriminate Hok.
      destruct (ri =? r); [reflexivity|discriminate Hok]. }
    rewrite Hshape in *. destruct Hs as (Hw1 & Hf1 & Hoth1 & _).
    apply andb_true_iff in H as [Hu H]. apply wres_eqb_eq in Hu. subst ur.
    pose proof (do_create_step (commit V k n false [121]) k [120] (n + 1) Hw1 Hf1 ltac:(lia) Ht2) as Hs2.
    destruct (do_create (commit V k n false [121]) k [120] (n + 1)) as [V2 c]. destruct Hs2 as (Hw2 & Hf2 & Hoth2 & Ec).
    rewrite (commit_self_get V k n [121] Hw Hf Ht1) in Ec. subst c.
    apply andb_true_iff in H as [Hc H]. apply wres_eqb_eq in Hc. subst res.
    assert (Hex : existsb (fun y => beqb (rkey y) k) V0 = true).
    { destruct (existsb (fun y => beqb (rkey y) k) V0) eqn:E; [reflexivity|exfalso].
      rewrite nokey_get in Hg0; [discriminate|]. intros y Hy Hk.
      assert (existsb (fun y0 => beqb (rkey y0) k) V0 = true); [|congruence].
      apply existsb_exists. exists y. split; [exact Hy|apply beqb_eq; exact Hk]. }
    rewrite Hex. cbn [andb wres_eqb].
    apply (IH V2 (n + 1 + 1)); auto.
    + replace (n + 1 + 1) with (n + 2) by lia. lia.
    + intros e He. assert (Hne : fkey e <> k).
      { intros E. apply Hnk. rewrite <- E. exact (in_map fkey fin e He). }
      rewrite (Hoth2 _ max_rev Hne), (Hoth1 _ max_rev Hne). apply Hsame. right; exact He.
    + replace (n + 1 + 1) with (n + 2) by lia. exact H.
  - (* absent: the create succeeds *)
    pose proof (do_create_step V k [120] n Hw Hf ltac:(lia) Ht2) as Hs.
    destruct (do_create V k [120] n) as [V2 c]. destruct Hs as (Hw2 & Hf2 & Hoth & Ec). rewrite Hg in Ec. subst c.
    apply andb_true_iff in H as [Hc H]. apply wres_eqb_eq in Hc. subst res.
    destruct (existsb (fun y => beqb (rkey y) k) V0); cbn [andb opt_eqb wres_eqb].
    + apply (IH V2 (n + 1)); auto.
      * lia.
      * intros e He. assert (Hne : fkey e <> k).
        { intros E. apply Hnk. rewrite <- E. exact (in_map fkey fin e He). }
        rewrite (Hoth _ max_rev Hne). apply Hsame. right; exact He.
    + apply (IH V2 (n + 1)); auto.
      * lia.
      * intros e He. assert (Hne : fkey e <> k).
        { intros E. apply Hnk. rewrite <- E. exact (in_map fkey fin e He). }
        rewrite (Hoth _ max_rev Hne). apply Hsame. right; exact He.
Qed.

(* what a plain pass removes, and nothing else: every record of the store it started from is still stored, or lies in the
   scanned range and is an expiry target (a record of a key under the events prefix, at most as new as the timeout revision)
   or is explained by the compaction proper (a version with a newer version <= R, a tombstone <= R, a flagged index <= R);
   nothing appears *)
Theorem pass_removed evp sup ttl now R lo hi q V0 :
  store_ok V0 -> wfd V0 ->
  let '(q', tr, dd) := scanner_compact evp sup ttl now R lo hi q (init_d V0 []) in
  (forall y, In y (d_store dd) -> In y V0) /\
  (forall y, In y V0 -> In y (d_store dd) \/
     ((expiry_target evp tr y \/ explained R V0 y = true) /\ in_range lo hi y = true)).
Proof.
  intros Hok (Hiu & Huv & Hkw). unfold scanner_compact.
  destruct (timeout_revision sup ttl now (q ++ [(R, now)])) as [tr q2].
  unfold compact_range_e. cbn [init_d d_store d_ghost d_oc d_dead d_trace].
  change (mkCfg R true tr 0 evp) with (ccfg evp R tr).
  set (snap := sort_by rec_ltb (filter (in_range lo hi) V0)).
  set (s0 := init_w (mkD V0 V0 [] [] false [])).
  assert (Hsnap_in : forall y, In y snap -> In y V0 /\ in_range lo hi y = true).
  { intros y Hy. apply in_sort_by in Hy. apply filter_In in Hy. exact Hy. }
  destruct (wloop_keeps2 evp R tr lo hi V0 Hiu Huv snap (snap_ok_range lo hi V0 Hok) Hsnap_in snap [] s0 eq_refl) as (_ & Hsub & Hkeep).
  { reflexivity. }
  { intros y Hy. exact Hy. }
  { cbn. lia. }
  cbn [s0 init_w w_d d_store] in Hsub, Hkeep. split; [exact Hsub|]. intros y Hy. exact (Hkeep y Hy Hy).
Qed.

(* ================================================================================================ *)
(* `whole`, eventually, after a pass that failed half way through an expired key                    *)
(* ================================================================================================ *)

(* A pass in which engine deletes fail (any outcomes, no writers) may leave an expired key half removed - its index gone, a
   version still stored, the key still readable (C17_conditional_delete_needed). A later fault-free pass whose timeout
   revision covers what is left removes the key completely: it reads absent and can be created again. (On the real
   scanner the very next pass usually has timeout revision 0 - the old marks were popped by the failing pass - so the
   remainder goes with the first pass that comes at least TTL after the failing one; observed with VERIF_C17_FAULT=1.) *)
Theorem whole_eventually evp R1 tr1 R2 tr2 lo hi V k (os : list outcome) :
  idx_unique V ->
  tr2 <> 0 -> is_expirable evp k = true -> bleb lo k && bltb k hi = true ->
  (forall x, In x V -> rkey x = k -> rec_rev x <= tr2) ->
  let d1 := compact_range_e evp R1 tr1 lo hi (init_d V (map (fun o => ([], o)) os)) in
  let d2 := compact_range_e evp R2 tr2 lo hi (init_d (d_store d1) []) in
  (forall x, In x (d_store d1) -> In x V) /\
  (forall x, In x (d_store d2) -> rkey x <> k) /\
  get_at (d_store d2) max_rev k = None /\
  forall v n, do_create (d_store d2) k v n = (d_store d2 ++ [RIdx k n false; RVer k n v], WOk).
Proof.
  intros Hu Htr Hev Hr Hall. cbv zeta.
  assert (Hsub : forall x, In x (d_store (compact_range_e evp R1 tr1 lo hi (init_d V (map (fun o => ([], o)) os)))) -> In x V).
  { unfold compact_range_e. change (mkCfg R1 true tr1 0 evp) with (ccfg evp R1 tr1).
    cbn [init_d d_store d_ghost d_oc d_dead d_trace].
    set (d0 := mkD V V [] (map (fun o : outcome => ([] : list rec, o)) os) false []).
    assert (Ha : adds_of (w_d (init_w d0)) = []).
    { unfold adds_of. cbn [init_w w_d d0 d_oc]. clear. induction os as [|o os IH]; [reflexivity|exact IH]. }
    destruct (wloop_keeps evp R1 tr1 V Hu (sort_by rec_ltb (filter (in_range lo hi) V)) (init_w d0) Ha) as (_ & K & _).
    - intros z Hz. exact Hz.
    - cbn [init_w w_pr]. lia.
    - exact K. }
  split; [exact Hsub|].
  pose proof (expiry_whole evp R2 tr2 lo hi _ k Htr Hev Hr (fun x Hx Hk => Hall x (Hsub x Hx) Hk)) as (H1 & _ & H3 & H4).
  split; [exact H1|]. split; [exact H3|exact H4].
Qed.
