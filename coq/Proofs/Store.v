(* Lemmas about the engine contract's ordered map: sortedness is preserved, get/set/remove algebra,
   iteration yields exactly the keys of the interval in the requested direction. *)
From KB Require Import Base.Cases Model.Store.
Local Open Scope N_scope.

(* ---------- comparisons as booleans ---------- *)

Lemma bltb_lt a b : bltb a b = true <-> bcmp a b = Lt.
Proof. unfold bltb. destruct (bcmp a b); split; congruence. Qed.
Lemma bleb_le a b : bleb a b = true <-> bcmp a b <> Gt.
Proof. unfold bleb. destruct (bcmp a b); split; congruence. Qed.
Lemma bltb_false a b : bltb a b = false <-> bcmp a b <> Lt.
Proof. unfold bltb. destruct (bcmp a b); split; congruence. Qed.
Lemma bleb_false a b : bleb a b = false <-> bcmp a b = Gt.
Proof. unfold bleb. destruct (bcmp a b); split; congruence. Qed.

Lemma bltb_irrefl a : bltb a a = false.
Proof. unfold bltb. rewrite bcmp_refl. reflexivity. Qed.

Lemma bleb_negb_bltb a b : bleb a b = negb (bltb b a).
Proof. unfold bleb, bltb. rewrite (bcmp_antisym a b). destruct (bcmp a b); reflexivity. Qed.

Lemma bltb_trans a b c : bltb a b = true -> bltb b c = true -> bltb a c = true.
Proof. rewrite !bltb_lt. apply bcmp_lt_trans. Qed.

Lemma beqb_sym a b : beqb a b = beqb b a.
Proof.
  destruct (beqb a b) eqn:E.
  - apply beqb_eq in E. subst. symmetry. apply beqb_refl.
  - symmetry. apply beqb_neq. apply beqb_neq in E. congruence.
Qed.

Lemma bcmp_lt_neq a b : bcmp a b = Lt -> beqb a b = false.
Proof. unfold beqb. intros ->. reflexivity. Qed.
Lemma bcmp_gt_neq a b : bcmp a b = Gt -> beqb a b = false.
Proof. unfold beqb. intros ->. reflexivity. Qed.

(* ---------- sortedness ---------- *)

Section Maps.
Context {V : Type}.
Implicit Types (s : smap V) (k : bytes) (v : V).

Lemma key_lt_trans (a b c : bytes * V) : key_lt a b -> key_lt b c -> key_lt a c.
Proof. unfold key_lt. apply bcmp_lt_trans. Qed.

Lemma sorted_nil : sorted (@nil (bytes * V)).
Proof. constructor. Qed.

Lemma sorted_cons_inv e s : sorted (e :: s) -> sorted s /\ Forall (key_lt e) s.
Proof. intros H. inversion H; subst. split; assumption. Qed.

Lemma sorted_cons e s : sorted s -> Forall (key_lt e) s -> sorted (e :: s).
Proof. intros. constructor; assumption. Qed.

Lemma sortedb_spec s : sortedb s = true <-> sorted s.
Proof.
  induction s as [|[k v] t IH]; [split; [constructor|reflexivity]|].
  destruct t as [|[k' v'] t'].
  - split; [intros _; repeat constructor|reflexivity].
  - cbn [sortedb]. cbn [sortedb] in IH. rewrite andb_true_iff, bltb_lt. split.
    + intros [Hlt Hs]. apply IH in Hs. apply sorted_cons; [exact Hs|].
      constructor; [exact Hlt|]. apply sorted_cons_inv in Hs as [_ Hf].
      eapply Forall_impl; [|exact Hf]. intros a Ha. eapply key_lt_trans; [|exact Ha]. exact Hlt.
    + intros H. apply sorted_cons_inv in H as [Hs Hf]. split; [|apply IH; exact Hs].
      inversion Hf; subst. assumption.
Qed.

Lemma get_none_lt s k : sorted s -> Forall (fun e => bcmp k (fst e) = Lt) s -> get s k = None.
Proof.
  induction s as [|[k' v'] t IH]; intros Hs Hf; [reflexivity|].
  cbn [get]. inversion Hf; subst. cbn [fst] in *. rewrite (bcmp_lt_neq _ _ H1).
  apply IH; [apply sorted_cons_inv in Hs; tauto|assumption].
Qed.

Lemma get_in s k v : get s k = Some v -> In (k, v) s.
Proof.
  induction s as [|[k' v'] t IH]; cbn [get]; [discriminate|].
  destruct (beqb k k') eqn:E.
  - apply beqb_eq in E. subst. intros [= ->]. left; reflexivity.
  - intros H. right. apply IH; exact H.
Qed.

Lemma in_get s k v : sorted s -> In (k, v) s -> get s k = Some v.
Proof.
  induction s as [|[k' v'] t IH]; intros Hs Hin; [destruct Hin|].
  apply sorted_cons_inv in Hs as [Hs Hf]. cbn [get]. destruct Hin as [[= -> ->]|Hin].
  - rewrite beqb_refl. reflexivity.
  - rewrite Forall_forall in Hf. specialize (Hf _ Hin). unfold key_lt in Hf. cbn [fst] in Hf.
    rewrite beqb_sym, (bcmp_lt_neq _ _ Hf). apply IH; assumption.
Qed.

(* set *)

Lemma set_forall (P : bytes * V -> Prop) s k v : Forall P s -> P (k, v) -> Forall P (set s k v).
Proof.
  induction s as [|[k' v'] t IH]; intros Hf Hp; cbn [set]; [constructor; [exact Hp|constructor]|].
  inversion Hf; subst. destruct (bcmp k k'); constructor; auto.
Qed.

Lemma set_sorted s k v : sorted s -> sorted (set s k v).
Proof.
  induction s as [|[k' v'] t IH]; intros Hs; cbn [set]; [repeat constructor|].
  apply sorted_cons_inv in Hs as [Hs Hf].
  destruct (bcmp k k') eqn:E.
  - apply bcmp_eq in E. subst k'. apply sorted_cons; assumption.
  - apply sorted_cons; [apply sorted_cons; assumption|].
    constructor; [exact E|]. eapply Forall_impl; [|exact Hf].
    intros a Ha. unfold key_lt in *. cbn [fst] in *. eapply bcmp_lt_trans; eauto.
  - apply sorted_cons; [apply IH; exact Hs|]. apply set_forall; [exact Hf|].
    unfold key_lt. cbn [fst]. apply bcmp_gt_lt. exact E.
Qed.

Lemma get_set_same s k v : get (set s k v) k = Some v.
Proof.
  induction s as [|[k' v'] t IH]; cbn [set get]; [rewrite beqb_refl; reflexivity|].
  destruct (bcmp k k') eqn:E; cbn [get].
  - rewrite beqb_refl. reflexivity.
  - rewrite beqb_refl. reflexivity.
  - rewrite (bcmp_gt_neq _ _ E). exact IH.
Qed.

Lemma get_set_other s k k' v : k' <> k -> get (set s k v) k' = get s k'.
Proof.
  intros Hne. apply beqb_neq in Hne.
  induction s as [|[k0 v0] t IH]; cbn [set get]; [rewrite Hne; reflexivity|].
  destruct (bcmp k k0) eqn:E; cbn [get].
  - apply bcmp_eq in E. subst k0. rewrite Hne. reflexivity.
  - rewrite Hne. reflexivity.
  - destruct (beqb k' k0); [reflexivity|exact IH].
Qed.

(* remove *)

Lemma remove_sorted s k : sorted s -> sorted (remove s k).
Proof.
  unfold remove. induction s as [|e t IH]; intros Hs; [constructor|].
  apply sorted_cons_inv in Hs as [Hs Hf]. cbn [filter].
  destruct (negb (beqb k (fst e))); [|apply IH; exact Hs].
  apply sorted_cons; [apply IH; exact Hs|].
  rewrite Forall_forall in *. intros x Hx. apply filter_In in Hx as [Hx _]. auto.
Qed.

Lemma get_remove_same s k : get (remove s k) k = None.
Proof.
  unfold remove. induction s as [|[k' v'] t IH]; [reflexivity|].
  cbn [filter fst]. destruct (beqb k k') eqn:E; cbn [negb]; [exact IH|].
  cbn [get]. rewrite E. exact IH.
Qed.

Lemma get_remove_other s k k' : k' <> k -> get (remove s k) k' = get s k'.
Proof.
  intros Hne. unfold remove. induction s as [|[k0 v0] t IH]; [reflexivity|].
  cbn [filter fst]. destruct (beqb k k0) eqn:E; cbn [negb get].
  - apply beqb_eq in E. subst k0. apply beqb_neq in Hne. rewrite Hne. exact IH.
  - destruct (beqb k' k0); [reflexivity|exact IH].
Qed.

Lemma remove_absent s k : get s k = None -> remove s k = s.
Proof.
  unfold remove. induction s as [|[k' v'] t IH]; [reflexivity|].
  cbn [get filter fst]. destruct (beqb k k'); [discriminate|].
  intros H. cbn [negb]. f_equal. apply IH; exact H.
Qed.

(* two sorted maps with the same lookups are equal *)
Lemma sorted_ext s1 s2 : sorted s1 -> sorted s2 -> (forall k, get s1 k = get s2 k) -> s1 = s2.
Proof.
  revert s2. induction s1 as [|[k1 v1] t1 IH]; intros s2 H1 H2 Hg.
  - destruct s2 as [|[k2 v2] t2]; [reflexivity|].
    specialize (Hg k2). cbn [get] in Hg. rewrite beqb_refl in Hg. discriminate.
  - destruct s2 as [|[k2 v2] t2].
    + specialize (Hg k1). cbn [get] in Hg. rewrite beqb_refl in Hg. discriminate.
    + apply sorted_cons_inv in H1 as [H1 F1]. apply sorted_cons_inv in H2 as [H2 F2].
      assert (Hk : k1 = k2).
      { destruct (bcmp k1 k2) eqn:E.
        - apply bcmp_eq; exact E.
        - exfalso. pose proof (Hg k1) as G. cbn [get] in G. rewrite beqb_refl, (bcmp_lt_neq _ _ E) in G.
          rewrite get_none_lt in G; [discriminate|exact H2|].
          eapply Forall_impl; [|exact F2]. intros a Ha. unfold key_lt in Ha. cbn [fst] in *.
          eapply bcmp_lt_trans; eauto.
        - exfalso. apply bcmp_gt_lt in E. pose proof (Hg k2) as G. cbn [get] in G.
          rewrite beqb_refl, (bcmp_lt_neq _ _ E) in G.
          rewrite get_none_lt in G; [discriminate|exact H1|].
          eapply Forall_impl; [|exact F1]. intros a Ha. unfold key_lt in Ha. cbn [fst] in *.
          eapply bcmp_lt_trans; eauto. }
      subst k2. pose proof (Hg k1) as G. cbn [get] in G. rewrite beqb_refl in G. injection G as ->.
      f_equal. apply IH; [exact H1|exact H2|].
      intros k. specialize (Hg k). cbn [get] in Hg. destruct (beqb k k1) eqn:E; [|exact Hg].
      apply beqb_eq in E. subst k.
      rewrite !get_none_lt; auto.
Qed.

(* ---------- iteration ---------- *)

Lemma filter_sorted (p : bytes * V -> bool) s : sorted s -> sorted (filter p s).
Proof.
  induction s as [|e t IH]; intros Hs; [constructor|].
  apply sorted_cons_inv in Hs as [Hs Hf]. cbn [filter].
  destruct (p e); [|apply IH; exact Hs].
  apply sorted_cons; [apply IH; exact Hs|].
  rewrite Forall_forall in *. intros x Hx. apply filter_In in Hx as [Hx _]. auto.
Qed.

Lemma is_fwd_lt a b : is_fwd a b = true <-> bcmp a b = Lt.
Proof. unfold is_fwd. destruct (bcmp a b); split; congruence. Qed.

(* membership: exactly the records whose key lies in the interval, start inclusive, end exclusive *)
Lemma iter_all_in s a b e :
  In e (iter_all s a b) <->
  In e s /\ (if is_fwd a b then bcmp a (fst e) <> Gt /\ bcmp (fst e) b = Lt
             else bcmp b (fst e) = Lt /\ bcmp (fst e) a <> Gt).
Proof.
  unfold iter_all, fwd, bwd. destruct (is_fwd a b).
  - rewrite filter_In. unfold in_fwd. rewrite andb_true_iff, bleb_le, bltb_lt. reflexivity.
  - rewrite <- in_rev, filter_In. unfold in_bwd. rewrite andb_true_iff, bleb_le, bltb_lt. reflexivity.
Qed.

(* order: ascending when start < end, descending otherwise *)
Lemma iter_all_fwd_sorted s a b : sorted s -> is_fwd a b = true -> sorted (iter_all s a b).
Proof. intros Hs Hf. unfold iter_all. rewrite Hf. apply filter_sorted. exact Hs. Qed.

Lemma iter_all_bwd_sorted s a b : sorted s -> is_fwd a b = false -> sorted (rev (iter_all s a b)).
Proof. intros Hs Hf. unfold iter_all, bwd. rewrite Hf, rev_involutive. apply filter_sorted. exact Hs. Qed.

(* start = end: nothing *)
Lemma iter_all_same s a : iter_all s a a = [].
Proof.
  unfold iter_all, is_fwd. rewrite bcmp_refl. unfold bwd.
  replace (filter _ s) with (@nil (bytes * V)); [reflexivity|].
  symmetry. induction s as [|e t IH]; [reflexivity|]. cbn [filter]. rewrite <- IH.
  unfold in_bwd. rewrite bleb_negb_bltb. destruct (bltb a (fst e)); reflexivity.
Qed.

(* a limit keeps the first `limit` records *)
Lemma iter_limit s a b n : iter s a b n = if n =? 0 then iter_all s a b else firstn (N.to_nat n) (iter_all s a b).
Proof. reflexivity. Qed.

End Maps.

(* ---------- batches ---------- *)

Lemma bop_step_sorted m nc w z o w' z' :
  sorted w -> sorted z -> bop_step m nc w z o = inl (w', z') -> sorted w' /\ sorted z'.
Proof.
  intros Hw Hz. destruct o as [k v t|k nv ov t|k v t|k|k v stamp]; cbn [bop_step].
  - destruct (get w k); [discriminate|]. intros [= <- <-]. split; apply set_sorted; assumption.
  - destruct (get w k) as [x|]; [|discriminate]. destruct (beqb x ov); [|discriminate].
    intros [= <- <-]. split; apply set_sorted; assumption.
  - intros [= <- <-]. split; apply set_sorted; assumption.
  - intros [= <- <-]. split; apply remove_sorted; assumption.
  - destruct (delcur_holds m w z k v stamp); [|discriminate].
    intros [= <- <-]. split; apply remove_sorted; assumption.
Qed.

Lemma batch_go_sorted m nc ops : forall w z idx w' z',
  sorted w -> sorted z -> batch_go m nc w z idx ops = inl (w', z') -> sorted w' /\ sorted z'.
Proof.
  induction ops as [|o rest IH]; intros w z idx w' z' Hw Hz; cbn [batch_go].
  - intros [= <- <-]. split; assumption.
  - destruct (bop_step m nc w z o) as [[w1 z1]|a] eqn:E; [|discriminate].
    destruct (bop_step_sorted _ _ _ _ _ _ _ Hw Hz E) as [Hw1 Hz1]. apply IH; assumption.
Qed.

Definition cs_sorted (c : cstore) : Prop := sorted (st c) /\ sorted (stamps c).

(* a batch either applies as a whole, keeping the map sorted, or changes nothing *)
Lemma batch_eval_sorted m c ops c' : cs_sorted c -> batch_eval m c ops = Applied c' -> cs_sorted c'.
Proof.
  intros [Hw Hz]. unfold batch_eval. destruct ops as [|o rest]; [intros [= <-]; split; assumption|].
  destruct (batch_go m (clock c + 1) (st c) (stamps c) 0 (o :: rest)) as [[w z]|[i a]] eqn:E; [|discriminate].
  intros [= <-]. eapply batch_go_sorted; eauto.
Qed.
