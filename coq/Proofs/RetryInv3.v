(* RetrySys invariants, part 3: the write events that are "alive" (published, in a result slot, about to be
   notified, held by the sequencer, queued for repair, about to be dispatched by the retry loop) agree with the
   versions in the store; published events are ordered. *)
From KB Require Import Base.Cases Model.RetrySys Model.C09Cases
  Proofs.RetryBase Proofs.RetryInv1 Proofs.RetryInv2 Proofs.RetryProps.
Local Open Scope N_scope.

Definition thread_ev (th : thread) : option wevent :=
  match t_pc th with
  | PNotify c eo => Some (mk_ev (c_rev c) (c_prev c) (op_verb (t_op th)) (op_key (t_op th)) (c_val c) eo)
  | _ => None
  end.
Definition retry_ev (r : retry_pc) : option wevent :=
  match r with
  | RDispatch node rev eo => Some (mk_ev rev (e_prev node) (e_verb node) (e_key node) (e_val node) eo)
  | _ => None
  end.

Definition alive (s : state) (ev : wevent) : Prop :=
  In ev (s_events s) \/ s_slots s (e_rev ev) = Some ev \/
  (exists t th, get_thread t (s_threads s) = Some th /\ thread_ev th = Some ev) \/
  seq_ev (s_seq s) = Some ev \/ (exists t, In (ev, t) (s_queue s)) \/ retry_ev (s_retry s) = Some ev.


Lemma al_ev s ev : In ev (s_events s) -> alive s ev. Proof. unfold alive; auto. Qed.
Lemma al_slot s ev : s_slots s (e_rev ev) = Some ev -> alive s ev. Proof. unfold alive; auto. Qed.
Lemma al_thr s ev t th : get_thread t (s_threads s) = Some th -> thread_ev th = Some ev -> alive s ev.
Proof. unfold alive; intros; right; right; left; eauto. Qed.
Lemma al_seq s ev : seq_ev (s_seq s) = Some ev -> alive s ev. Proof. unfold alive; auto. Qed.
Lemma al_q s ev t : In (ev, t) (s_queue s) -> alive s ev. Proof. unfold alive; intros; right; right; right; right; left; eauto. Qed.
Lemma al_retry s ev : retry_ev (s_retry s) = Some ev -> alive s ev. Proof. unfold alive; auto 7. Qed.

Definition good (ev : wevent) : Prop := e_valid ev = true \/ e_unc ev = true.
Definition content_ok (ev : wevent) (v : value) : Prop :=
  match e_verb ev with VDelete => v = tombstone | _ => e_val ev = v /\ is_tomb v = false end.

Fixpoint ev_desc (l : list wevent) : Prop :=
  match l with
  | [] => True
  | ev :: l' => (forall ev', In ev' l' -> e_rev ev' < e_rev ev) /\ ev_desc l'
  end.

Record Inv3 (s : state) : Prop := {
  a_content : forall ev, alive s ev -> good ev -> forall v, In (e_rev ev, v) (vers s (e_key ev)) -> content_ok ev v;
  a_valid : forall ev, alive s ev -> e_valid ev = true -> exists v, In (e_rev ev, v) (vers s (e_key ev));
  a_sorted : ev_desc (s_events s);
  a_evs : forall ev, In ev (s_events s) -> e_rev ev <= s_committed s /\ e_valid ev = true
}.

Lemma mk_ev_rev r p vb k v eo : e_rev (mk_ev r p vb k v eo) = r. Proof. reflexivity. Qed.
Lemma mk_ev_key r p vb k v eo : e_key (mk_ev r p vb k v eo) = k. Proof. reflexivity. Qed.

Lemma thread_ev_rev th ev : thread_ev th = Some ev -> pc_rev (t_pc th) = Some (e_rev ev).
Proof. unfold thread_ev. destruct (t_pc th); try discriminate. intros H; injection H as <-. reflexivity. Qed.

(* an alive event never carries a revision that is still before its commit *)
Lemma alive_not_thread_pre s ev t th r :
  Inv1 s -> Inv3 s -> alive s ev -> get_thread t (s_threads s) = Some th -> pc_pre (t_pc th) = Some r -> e_rev ev <> r.
Proof.
  intros I1 I3 A G P E. subst r. pose proof (pc_pre_rev _ _ P) as PR.
  destruct (i_thr _ I1 t th _ G PR) as [Hb [Hsl [Hnr Hsq]]].
  destruct A as [A|[A|[[t0 [th0 [G0 A]]]|[A|[[t0 A]|A]]]]].
  - apply (a_evs _ I3) in A. lia.
  - congruence.
  - apply thread_ev_rev in A as PR0. assert (t0 = t) by (apply (i_uniq _ I1 t0 t th0 th _ G0 G PR0 PR)). subst t0.
    rewrite G in G0. injection G0 as <-. unfold thread_ev in A. destruct (t_pc th); discriminate.
  - apply (Hsq ev A). reflexivity.
  - destruct (i_qrev _ I1 ev t0 A) as [H|H]; [lia|]. apply (Hsq ev); [rewrite H; reflexivity|reflexivity].
  - apply Hnr. unfold retry_ev in A. destruct (s_retry s); try discriminate. injection A as <-. reflexivity.
Qed.

Lemma alive_not_retry_pre s ev node val rev :
  Inv1 s -> Inv3 s -> alive s ev -> s_retry s = RCommit node val rev -> e_rev ev <> rev.
Proof.
  intros I1 I3 A R E. subst rev.
  destruct (i_retry _ I1 (e_rev ev)) as [Hb [Hsl Hsq]]; [rewrite R; reflexivity|].
  destruct A as [A|[A|[[t0 [th0 [G0 A]]]|[A|[[t0 A]|A]]]]].
  - apply (a_evs _ I3) in A. lia.
  - congruence.
  - apply thread_ev_rev in A. destruct (i_thr _ I1 t0 th0 _ G0 A) as [_ [_ [Hn _]]]. apply Hn. rewrite R. reflexivity.
  - apply (Hsq ev A). reflexivity.
  - destruct (i_qrev _ I1 ev t0 A) as [H|H]; [lia|]. apply (Hsq ev); [rewrite H; reflexivity|reflexivity].
  - rewrite R in A. discriminate.
Qed.

(* versions are never removed *)
Lemma vers_mono s l k x : In x (vers s k) -> In x (vers (step s l) k).
Proof.
  intros H. destruct l as [t op|t e| |e|d]; unfold step, step_gen, vers in *.
  - destruct (get_thread t (s_threads s)); exact H.
  - destruct (get_thread t (s_threads s)) as [th|]; [|exact H].
    destruct (thread_step s (t_op th) (t_pc th) e) as [[s' p'] u] eqn:TS. cbn [s_store set_threads].
    destruct (t_pc th) as [| | st c b | | | | | |] eqn:PC.
    3: { simpl in TS. destruct (commit (s_store s) b e) as [sto eo] eqn:C.
         assert (s_store s' = sto).
         { destruct st; destruct eo as [er|]; try (injection TS as <- _ _; reflexivity).
           destruct (is_cas er); [|injection TS as <- _ _; reflexivity].
           destruct er as [[|] [old|]| | | |oc]; injection TS as <- _ _; reflexivity. }
         rewrite H0. destruct (commit_cases _ _ _ _ _ C) as [[-> _]|[-> _]]; [exact H|]. apply in_apply_batch. right. exact H. }
    all: rewrite (thread_step_store _ _ _ _ _ _ _ TS); [exact H|intros; discriminate].
  - unfold seq_step. destruct (s_seq s); [destruct (s_slots s (s_committed s + 1)) as [ev|]; [destruct (e_valid ev); [|destruct (e_unc ev)]|]|..]; exact H.
  - unfold retry_step. destruct (s_retry s) as [|node|node val|node val rev|node rev [er|]|node st]; try exact H; try (destruct (is_cas er); exact H).
    + destruct (s_queue s) as [|[node t] rest]; [exact H|]. destruct (s_now s - t <? retry_interval); exact H.
    + destruct e; try exact H. destruct (latest _) as [[modrev val]|]; [destruct (negb (modrev =? e_rev node))|]; exact H.
    + destruct (commit (s_store s) _ e) as [sto eo] eqn:C. cbn [s_store set_retry set_store].
      destruct (commit_cases _ _ _ _ _ C) as [[-> _]|[-> _]]; [exact H|]. apply in_apply_batch. right. exact H.
  - exact H.
Qed.

Lemma vers_mono_run s ls k x : In x (vers s k) -> In x (vers (run s ls) k).
Proof. revert s. induction ls as [|l ls IH]; intros s H; [exact H|]. simpl. apply IH. apply vers_mono. exact H. Qed.

Lemma inv3_init r0 : Inv3 (init_state r0).
Proof.
  constructor.
  - intros ev [A|[A|[[t [th [G _]]]|[A|[[t A]|A]]]]]; simpl in *; try contradiction; discriminate.
  - intros ev [A|[A|[[t [th [G _]]]|[A|[[t A]|A]]]]]; simpl in *; try contradiction; discriminate.
  - exact I.
  - intros ev [].
Qed.

(* states that differ only in the thread table / clock / bookkeeping *)
Lemma inv3_invoke s t op : Inv3 s -> Inv3 (step s (LInvoke t op)).
Proof.
  intros I. unfold step, step_gen. destruct (get_thread t (s_threads s)) eqn:G; [exact I|].
  assert (Al : forall ev, alive (set_threads s (set_thread t {| t_op := op; t_pc := PStart; t_unk := false |} (s_threads s))) ev -> alive s ev).
  { intros ev [A|[A|[[t0 [th0 [G0 A]]]|[A|[[t0 A]|A]]]]].
    - apply al_ev; exact A.
    - apply al_slot; exact A.
    - cbn [s_threads set_threads] in G0. gs G0; [injection G0 as <-; discriminate|]. apply (al_thr s ev t0 th0 G0 A).
    - apply al_seq; exact A.
    - apply (al_q s ev t0 A).
    - apply al_retry; exact A. }
  destruct I as [A B C D]. constructor; unfold vers in *; cbn [s_store s_events s_committed set_threads]; auto.
Qed.

Lemma inv3_tick s d : Inv3 s -> Inv3 (step s (LTick d)).
Proof. intros [A B C D]. constructor; auto. Qed.

Ltac al_split A := destruct A as [A|[A|[[?t0 [?th0 [?G0 A]]]|[A|[[?t0 A]|A]]]]].

Lemma inv3_seq s : Inv1 s -> Inv3 s -> Inv3 (step s LSeq).
Proof.
  intros I1 I. unfold step, step_gen, seq_step. destruct I as [A B C D].
  destruct (s_seq s) as [|ev0|ev0] eqn:Q.
  - destruct (s_slots s (s_committed s + 1)) as [ev0|] eqn:SL; [|constructor; assumption].
    destruct (i_slot _ I1 _ _ SL) as [Hrev _].
    assert (Aslot : alive s ev0) by (apply al_slot; rewrite Hrev; exact SL).
    assert (Sl : forall ev, slot_set (s_slots s) (s_committed s + 1) None (e_rev ev) = Some ev -> s_slots s (e_rev ev) = Some ev).
    { intros ev H. destruct (N.eq_dec (e_rev ev) (s_committed s + 1)) as [E|E]; [rewrite E, slot_set_same in H; discriminate|].
      rewrite slot_set_other in H by exact E. exact H. }
    destruct (e_valid ev0) eqn:V; [|destruct (e_unc ev0) eqn:U].
    + assert (Al : forall ev, alive (set_events (set_committed (set_slots s (slot_set (s_slots s) (s_committed s + 1) None)) (e_rev ev0))
                                        (ev0 :: s_events (set_committed (set_slots s (slot_set (s_slots s) (s_committed s + 1) None)) (e_rev ev0)))) ev -> alive s ev).
      { intros ev H. al_split H.
        - cbn in H. destruct H as [<-|H]; [exact Aslot|apply al_ev; exact H].
        - cbn in H. apply al_slot. apply Sl. exact H.
        - apply (al_thr s ev t0 th0 G0 H).
        - cbn in H. try rewrite Q in H. discriminate.
        - apply (al_q s ev t0 H).
        - apply al_retry. exact H. }
      constructor; unfold vers in *; cbn [s_store s_events s_committed set_events set_committed set_slots]; auto.
      * split; [|exact C]. intros ev' H. apply D in H. lia.
      * intros ev [<-|H]; [split; [lia|exact V]|]. apply D in H. split; [lia|apply H].
    + assert (Al : forall ev, alive (set_seq (set_slots s (slot_set (s_slots s) (s_committed s + 1) None)) (SeqHold ev0)) ev -> alive s ev).
      { intros ev H. al_split H.
        - apply al_ev; exact H.
        - cbn in H. apply al_slot. apply Sl. exact H.
        - apply (al_thr s ev t0 th0 G0 H).
        - cbn in H. injection H as <-. exact Aslot.
        - apply (al_q s ev t0 H).
        - apply al_retry. exact H. }
      constructor; unfold vers in *; cbn [s_store s_events s_committed set_seq set_slots]; auto.
    + assert (Al : forall ev, alive (set_committed (set_slots s (slot_set (s_slots s) (s_committed s + 1) None)) (e_rev ev0)) ev -> alive s ev).
      { intros ev H. al_split H.
        - apply al_ev; exact H.
        - cbn in H. apply al_slot. apply Sl. exact H.
        - apply (al_thr s ev t0 th0 G0 H).
        - cbn in H. try rewrite Q in H. discriminate.
        - apply (al_q s ev t0 H).
        - apply al_retry. exact H. }
      constructor; unfold vers in *; cbn [s_store s_events s_committed set_committed set_slots]; auto.
      intros ev H. apply D in H. split; [lia|apply H].
  - assert (Al : forall ev, alive (set_seq (set_queue s (s_queue s ++ [(ev0, s_now s)])) (SeqMid ev0)) ev -> alive s ev).
    { intros ev H. al_split H.
      - apply al_ev; exact H.
      - apply al_slot; exact H.
      - apply (al_thr s ev t0 th0 G0 H).
      - cbn in H. injection H as <-. apply al_seq. rewrite Q. reflexivity.
      - cbn in H. apply in_app_or in H as [H|[H|[]]]; [apply (al_q s ev t0 H)|]. injection H as <- _. apply al_seq. rewrite Q. reflexivity.
      - apply al_retry. exact H. }
    constructor; unfold vers in *; cbn [s_store s_events s_committed set_seq set_queue]; auto.
  - destruct (i_seq _ I1 ev0) as [Hrev _]; [rewrite Q; reflexivity|].
    assert (Al : forall ev, alive (set_seq (set_committed s (e_rev ev0)) SeqIdle) ev -> alive s ev).
    { intros ev H. al_split H.
      - apply al_ev; exact H.
      - apply al_slot; exact H.
      - apply (al_thr s ev t0 th0 G0 H).
      - cbn in H. discriminate.
      - apply (al_q s ev t0 H).
      - apply al_retry. exact H. }
    constructor; unfold vers in *; cbn [s_store s_events s_committed set_seq set_committed]; auto.
    intros ev H. apply D in H. split; [lia|apply H].
Qed.

(* the repair write's fresh revision has no version yet *)
Definition rpre (s : state) : Prop :=
  forall node val rev, s_retry s = RCommit node val rev -> forall k v, ~ In (rev, v) (vers s k).

Lemma rpre_step s l : Inv1 s -> Inv2 s -> rpre s -> rpre (step s l).
Proof.
  intros I1 I2 RP. destruct l as [t op|t e| |e|d]; unfold step, step_gen.
  - destruct (get_thread t (s_threads s)); exact RP.
  - destruct (get_thread t (s_threads s)) as [th|] eqn:G; [|exact RP].
    destruct (thread_step s (t_op th) (t_pc th) e) as [[s' p'] u] eqn:TS.
    destruct (thread_step_frame _ _ _ _ _ _ _ TS) as [_ [_ [Hr _]]].
    intros node val rev R k v H. unfold vers in *. cbn [s_retry s_store set_threads] in *. rewrite Hr in R.
    destruct (t_pc th) as [| | st c b | | | | | |] eqn:PC.
    3: { simpl in TS. destruct (commit (s_store s) b e) as [sto eo] eqn:C.
         assert (s_store s' = sto).
         { destruct st; destruct eo as [er|]; try (injection TS as <- _ _; reflexivity).
           destruct (is_cas er); [|injection TS as <- _ _; reflexivity].
           destruct er as [[|] [old|]| | | |oc]; injection TS as <- _ _; reflexivity. }
         rewrite H0 in H. destruct (commit_cases _ _ _ _ _ C) as [[-> _]|[-> _]]; [apply (RP node val rev R k v H)|].
         apply in_apply_batch in H as [[_ H]|H]; [|apply (RP node val rev R k v H)].
         injection H as -> _. destruct (v_pc _ I2 t th G) as [_ PK]. rewrite PC in PK. destruct PK as [[_ [Br _]] _].
         assert (Pth : pc_rev (t_pc th) = Some (c_rev c)) by (rewrite PC; reflexivity).
         destruct (i_thr _ I1 t th _ G Pth) as [_ [_ [Hn _]]]. apply Hn. rewrite R, <- Br. reflexivity. }
    all: rewrite (thread_step_store _ _ _ _ _ _ _ TS) in H; [apply (RP node val rev R k v H)|intros; discriminate].
  - unfold seq_step. destruct (s_seq s); [destruct (s_slots s (s_committed s + 1)) as [ev|]; [destruct (e_valid ev); [|destruct (e_unc ev)]|]|..]; exact RP.
  - unfold retry_step. destruct (s_retry s) as [|node|node val|node val rev|node rev eo|node st] eqn:R.
    + destruct (s_queue s) as [|[node t] rest]; [|destruct (s_now s - t <? retry_interval)]; intros ? ? ? H; cbn in H; try rewrite R in H; discriminate.
    + destruct e; try (intros ? ? ? H; discriminate).
      destruct (latest _) as [[modrev val]|]; [destruct (negb (modrev =? e_rev node))|]; intros ? ? ? H; discriminate.
    + intros n v r H k v0 Hin. cbn [s_retry set_retry] in H. injection H as <- <- <-. unfold vers in Hin. cbn [s_store set_retry set_dealt] in Hin.
      apply (v_le _ I2) in Hin. lia.
    + destruct (commit (s_store s) _ e). intros ? ? ? H; discriminate.
    + destruct eo as [er|]; [destruct (is_cas er)|]; intros ? ? ? H; discriminate.
    + intros ? ? ? H; discriminate.
  - exact RP.
Qed.

Lemma inv3_thread_step s t e :
  Inv1 s -> Inv2 s -> Inv2 (step s (LThread t e)) -> env_ocas e = false -> Inv3 s -> Inv3 (step s (LThread t e)).
Proof.
  intros I1 I2 I2' W I. revert I2'. unfold step, step_gen. destruct (get_thread t (s_threads s)) as [th|] eqn:G; [|intros _; exact I].
  destruct (thread_step s (t_op th) (t_pc th) e) as [[s' p'] u] eqn:TS. intros I2'.
  destruct (thread_step_frame _ _ _ _ _ _ _ TS) as [Hc [Hq [Hr [Hqu [Hev [Ht _]]]]]].
  pose proof (thread_step_effect _ _ _ _ _ _ _ TS) as Eff.
  destruct (v_pc _ I2 t th G) as [Wop Pok].
  set (th' := {| t_op := t_op th; t_pc := p'; t_unk := t_unk th || u |}) in *.
  set (SS := set_threads s' (set_thread t th' (s_threads s'))) in *.
  destruct I as [A B C D].
  (* what can be alive afterwards *)
  assert (Al : forall ev, alive SS ev -> alive s ev \/ thread_ev th' = Some ev).
  { intros ev H. al_split H.
    - left. apply al_ev. unfold SS in H; cbn [s_events set_threads] in H. rewrite Hev in H. exact H.
    - unfold SS in H; cbn [s_slots set_threads] in H.
      destruct Eff as [Hd Hs Hp Hn | Hd Hs Hp Hp' Hst | c eo ev1 Ep Ep' Hev1 Hd Hs Hst].
      + left. apply al_slot. rewrite Hs in H. exact H.
      + left. apply al_slot. rewrite Hs in H. exact H.
      + rewrite Hs in H. destruct (N.eq_dec (e_rev ev) (c_rev c)) as [E|E].
        * rewrite E, slot_set_same in H. injection H as ->. left. apply (al_thr s ev t th G).
          unfold thread_ev. rewrite Ep. rewrite Ep in TS. simpl in TS. injection TS as Hs' _ _.
          rewrite <- Hs' in Hs. cbn [s_slots set_slots] in Hs.
          assert (X : slot_set (s_slots s) (c_rev c) (Some (mk_ev (c_rev c) (c_prev c) (op_verb (t_op th)) (op_key (t_op th)) (c_val c) eo)) (c_rev c)
                      = slot_set (s_slots s) (c_rev c) (Some ev) (c_rev c)) by (rewrite Hs; reflexivity).
          rewrite !slot_set_same in X. exact X.
        * rewrite slot_set_other in H by exact E. left. apply al_slot. exact H.
    - unfold SS in G0; cbn [s_threads set_threads] in G0. rewrite Ht in G0. gs G0.
      + injection G0 as <-. right. exact H.
      + left. apply (al_thr s ev t0 th0 G0 H).
    - left. apply al_seq. unfold SS in H; cbn [s_seq set_threads] in H. rewrite Hq in H. exact H.
    - left. apply (al_q s ev t0). unfold SS in H; cbn [s_queue set_threads] in H. rewrite Hqu in H. exact H.
    - left. apply al_retry. unfold SS in H; cbn [s_retry set_threads] in H. rewrite Hr in H. exact H. }
  assert (Hstore : s_store SS = s_store s') by reflexivity.
  destruct (t_pc th) as [| | st c b | | | | | |] eqn:PC.
  3: { (* commit *)
    destruct Pok as [[Bk [Br [Bf [Bc Bv]]]] _].
    assert (Ppre : pc_pre (t_pc th) = Some (c_rev c)) by (rewrite PC; reflexivity).
    destruct (thread_step_commit _ _ _ _ _ _ _ _ _ TS W) as [[Hst Hno]|[Hst [Hcond [eo [Ep' Heo]]]]].
    - (* no effect *)
      assert (Hrev : forall ev, thread_ev th' = Some ev -> e_rev ev = c_rev c).
      { intros ev H. apply thread_ev_rev in H. cbn [th' t_pc] in H.
        destruct Eff as [Hd Hs Hp Hn | Hd Hs Hp Hp' Hst' | c0 eo0 ev1 Ep _ _ _ _ _]; [|discriminate|discriminate].
        rewrite Hp in H. simpl in H. injection H as <-. reflexivity. }
      constructor; unfold vers in *; rewrite ?Hstore, ?Hst; unfold SS; cbn [s_events s_committed set_threads]; rewrite ?Hev, ?Hc; auto.
      + intros ev H Gd v Hin. destruct (Al ev H) as [H1|H1]; [apply (A ev H1 Gd v Hin)|].
        exfalso. apply (v_pre _ I2 t th (c_rev c) G Ppre (e_key ev) v). unfold vers. rewrite <- (Hrev ev H1). exact Hin.
      + intros ev H V. destruct (Al ev H) as [H1|H1]; [apply (B ev H1 V)|].
        exfalso. unfold thread_ev in H1. cbn [th' t_pc t_op] in H1. destruct p'; try discriminate.
        injection H1 as <-. simpl in V. destruct eo; [discriminate|]. apply (Hno c0 None eq_refl). reflexivity.
    - (* applied *)
      subst p'.
      assert (Hnew : thread_ev th' = Some (mk_ev (c_rev c) (c_prev c) (op_verb (t_op th)) (op_key (t_op th)) (c_val c) eo)) by reflexivity.
      assert (Hin_new : In (c_rev c, b_val b) (k_vers (s_store s' (op_key (t_op th))))).
      { rewrite Hst. apply in_apply_batch. left. rewrite Bk, Br. auto. }
      pose proof (v_desc _ I2' (op_key (t_op th))) as Dnew. unfold vers in Dnew. fold SS in Dnew. rewrite Hstore in Dnew.
      constructor; unfold vers in *; rewrite ?Hstore; unfold SS; cbn [s_events s_committed set_threads]; rewrite ?Hev, ?Hc; auto.
      + intros ev H Gd v Hin. destruct (Al ev H) as [H1|H1].
        * rewrite Hst in Hin. apply in_apply_batch in Hin as [[_ Hin]|Hin]; [|apply (A ev H1 Gd v Hin)].
          injection Hin as Hin _. exfalso. apply (alive_not_thread_pre s ev t th (c_rev c) I1 (Build_Inv3 s A B C D) H1 G Ppre). rewrite Hin. exact Br.
        * rewrite Hnew in H1. injection H1 as <-. cbn [mk_ev e_rev e_key] in Hin.
          assert (v = b_val b) by (apply (desc_unique _ (c_rev c) v (b_val b) Dnew Hin Hin_new)). subst v.
          unfold content_ok. cbn [mk_ev e_verb e_val]. destruct (op_verb (t_op th)); try exact Bv; destruct Bv as [Bv1 Bv2]; split; first [symmetry; exact Bv1|exact Bv2].
      + intros ev H V. destruct (Al ev H) as [H1|H1].
        * destruct (B ev H1 V) as [v Hv]. exists v. rewrite Hst. apply in_apply_batch. right. exact Hv.
        * rewrite Hnew in H1. injection H1 as <-. exists (b_val b). exact Hin_new. }
  all: (* no commit: the store is unchanged and a new notification carries a definite error *)
    assert (Hst : s_store s' = s_store s) by (apply (thread_step_store _ _ _ _ _ _ _ TS); intros; discriminate);
    assert (Hbad : forall ev, thread_ev th' = Some ev -> alive s ev \/ (e_valid ev = false /\ e_unc ev = false));
    [ intros ev0 H0; unfold thread_ev in H0; cbn [th' t_pc t_op] in H0; destruct p' as [| | | |c0 eo0| | | |] eqn:EP; try discriminate;
      injection H0 as <-;
      first [ (* the request was already at its notification: impossible, it moves on *)
              exfalso; simpl in TS; apply triple_inv in TS as [_ [TS _]]; discriminate
            | right; destruct (thread_step_notify_other _ _ _ _ _ _ _ _ Pok ltac:(intros; discriminate) TS) as [er [-> Hu]];
              split; [reflexivity|exact Hu] ]
    | constructor; unfold vers in *; rewrite ?Hstore, ?Hst; unfold SS; cbn [s_events s_committed set_threads]; rewrite ?Hev, ?Hc; auto;
      [ intros ev0 H0 Gd v0 Hin; destruct (Al ev0 H0) as [H1|H1]; [apply (A ev0 H1 Gd v0 Hin)|];
        destruct (Hbad ev0 H1) as [H2|[H2 H3]]; [apply (A ev0 H2 Gd v0 Hin)|]; destruct Gd; congruence
      | intros ev0 H0 V; destruct (Al ev0 H0) as [H1|H1]; [apply (B ev0 H1 V)|];
        destruct (Hbad ev0 H1) as [H2|[H2 H3]]; [apply (B ev0 H2 V)|congruence] ] ].
Qed.

Lemma inv3_retry s e :
  Inv1 s -> Inv2 s -> Inv2 (step s (LRetry e)) -> rpre s -> Inv3 s -> Inv3 (step s (LRetry e)).
Proof.
  intros I1 I2 I2' RP I. revert I2'. unfold step, step_gen, retry_step. destruct I as [A B C D].
  destruct (s_retry s) as [|node|node val|node val rev|node rev eo|node st] eqn:R.
  - (* head / age test: nothing an event depends on changes *)
    intros _.
    assert (Al : forall x ev, alive (set_rlast s x) ev -> alive s ev).
    { intros x ev H. al_split H; [apply al_ev|apply al_slot|apply (al_thr s ev t0 th0 G0)|apply al_seq|apply (al_q s ev t0)|apply al_retry]; exact H. }
    assert (Al2 : forall x ev, alive (set_retry s (RGet x)) ev -> alive s ev).
    { intros x ev H. al_split H; [apply al_ev|apply al_slot|apply (al_thr s ev t0 th0 G0)|apply al_seq|apply (al_q s ev t0)|]; try exact H. discriminate. }
    destruct (s_queue s) as [|[node t] rest]; [|destruct (s_now s - t <? retry_interval)]; constructor; unfold vers in *;
      cbn [s_store s_events s_committed set_retry set_rlast]; try assumption;
      first [ intros ev H; apply (A ev); apply (Al _ ev H) | intros ev H; apply (B ev); apply (Al _ ev H)
            | intros ev H; apply (A ev); apply (Al2 _ ev H) | intros ev H; apply (B ev); apply (Al2 _ ev H) ].
  - intros _.
    assert (Al : forall S0, s_events S0 = s_events s -> s_slots S0 = s_slots s -> s_threads S0 = s_threads s -> s_seq S0 = s_seq s ->
                 s_queue S0 = s_queue s -> retry_ev (s_retry S0) = None -> forall ev, alive S0 ev -> alive s ev).
    { intros S0 H1 H2 H3 H4 H5 H6 ev H. al_split H.
      - apply al_ev. rewrite <- H1. exact H.
      - apply al_slot. rewrite <- H2. exact H.
      - rewrite H3 in G0. apply (al_thr s ev t0 th0 G0 H).
      - apply al_seq. rewrite <- H4. exact H.
      - apply (al_q s ev t0). rewrite <- H5. exact H.
      - rewrite H6 in H. discriminate. }
    destruct e; try (constructor; unfold vers in *; eauto; fail).
    + destruct (latest _) as [[modrev val]|]; [destruct (negb (modrev =? e_rev node))|];
        constructor; unfold vers in *; cbn [s_store s_events s_committed set_retry]; eauto;
        try (intros ev H; apply (A ev); eapply Al; [..|exact H]; reflexivity);
        try (intros ev H; apply (B ev); eapply Al; [..|exact H]; reflexivity).
    + constructor; unfold vers in *; cbn [s_store s_events s_committed set_retry set_rlast]; eauto;
        [intros ev H; apply (A ev); eapply Al; [..|exact H]; reflexivity|intros ev H; apply (B ev); eapply Al; [..|exact H]; reflexivity].
    + constructor; unfold vers in *; cbn [s_store s_events s_committed set_retry set_rlast]; eauto;
        [intros ev H; apply (A ev); eapply Al; [..|exact H]; reflexivity|intros ev H; apply (B ev); eapply Al; [..|exact H]; reflexivity].
    + constructor; unfold vers in *; cbn [s_store s_events s_committed set_retry set_rlast]; eauto;
        [intros ev H; apply (A ev); eapply Al; [..|exact H]; reflexivity|intros ev H; apply (B ev); eapply Al; [..|exact H]; reflexivity].
  - intros _.
    assert (Al : forall ev, alive (set_retry (set_dealt s (s_dealt s + 1)) (RCommit node val (s_dealt s + 1))) ev -> alive s ev).
    { intros ev H. al_split H; [apply al_ev|apply al_slot|apply (al_thr s ev t0 th0 G0)|apply al_seq|apply (al_q s ev t0)|]; try exact H. discriminate. }
    constructor; unfold vers in *; cbn [s_store s_events s_committed set_retry set_dealt]; eauto.
  - (* the repair commit *)
    destruct (commit (s_store s) (mk_batch (e_key node) (CIs (e_rev node, is_tomb val)) rev (is_tomb val) val) e) as [sto eo] eqn:Cm.
    intros I2'.
    set (evn := mk_ev rev (e_prev node) (e_verb node) (e_key node) (e_val node) eo).
    assert (Al : forall ev, alive (set_retry (set_store s sto) (RDispatch node rev eo)) ev -> alive s ev \/ ev = evn).
    { intros ev H. al_split H; [left; apply al_ev|left; apply al_slot|left; apply (al_thr s ev t0 th0 G0)|left; apply al_seq|left; apply (al_q s ev t0)|]; try exact H.
      right. cbn in H. injection H as <-. reflexivity. }
    (* the node is alive, so its content agrees with the version the getter read *)
    destruct (i_rhead _ I1 node) as [tq [rest Qu]]; [rewrite R; reflexivity|].
    assert (An : alive s node) by (apply (al_q s node tq); rewrite Qu; left; reflexivity).
    assert (Gn : good node) by (right; apply (i_qunc _ I1 node tq); rewrite Qu; left; reflexivity).
    pose proof (v_rval _ I2 node val (or_intror (ex_intro _ rev R))) as Hval.
    pose proof (A node An Gn val Hval) as Cn.
    assert (Cevn : content_ok evn val) by exact Cn.
    destruct (commit_cases _ _ _ _ _ Cm) as [[-> Hne]|[-> [Hc Heo]]].
    + constructor; unfold vers in *; cbn [s_store s_events s_committed set_retry set_store]; auto.
      * intros ev H Gd v Hin. destruct (Al ev H) as [H1| ->]; [apply (A ev H1 Gd v Hin)|].
        exfalso. apply (RP node val rev R (e_key node) v). exact Hin.
      * intros ev H V. destruct (Al ev H) as [H1| ->]; [apply (B ev H1 V)|].
        exfalso. simpl in V. destruct eo; [discriminate|]. apply Hne. reflexivity.
    + set (bb := mk_batch (e_key node) (CIs (e_rev node, is_tomb val)) rev (is_tomb val) val) in *.
      assert (Hin_new : In (rev, val) (k_vers (apply_batch (s_store s) bb (e_key node)))) by (apply in_apply_batch; left; auto).
      pose proof (v_desc _ I2' (e_key node)) as Dnew. unfold vers in Dnew. cbn [s_store set_retry set_store] in Dnew.
      constructor; unfold vers in *; cbn [s_store s_events s_committed set_retry set_store]; auto.
      * intros ev H Gd v Hin. destruct (Al ev H) as [H1| ->].
        -- apply in_apply_batch in Hin as [[_ Hin]|Hin]; [|apply (A ev H1 Gd v Hin)].
           injection Hin as Hin _. exfalso. apply (alive_not_retry_pre s ev node val rev I1 (Build_Inv3 s A B C D) H1 R). exact Hin.
        -- cbn [evn mk_ev e_rev e_key] in Hin. assert (v = val) by (apply (desc_unique _ rev v val Dnew Hin Hin_new)). subst v. exact Cevn.
      * intros ev H V. destruct (Al ev H) as [H1| ->].
        -- destruct (B ev H1 V) as [v Hv]. exists v. apply in_apply_batch. right. exact Hv.
        -- exists val. exact Hin_new.
  - (* dispatch *)
    intros _.
    set (s1 := set_slots s (slot_set (s_slots s) rev (Some (mk_ev rev (e_prev node) (e_verb node) (e_key node) (e_val node) eo)))).
    assert (Al : forall S0, s_events S0 = s_events s1 -> s_slots S0 = s_slots s1 -> s_threads S0 = s_threads s1 -> s_seq S0 = s_seq s1 ->
                 s_queue S0 = s_queue s1 -> retry_ev (s_retry S0) = None -> forall ev, alive S0 ev -> alive s ev).
    { intros S0 H1 H2 H3 H4 H5 H6 ev H. al_split H.
      - apply al_ev. rewrite H1 in H. exact H.
      - rewrite H2 in H. cbn in H. destruct (N.eq_dec (e_rev ev) rev) as [E|E].
        + rewrite E, slot_set_same in H. injection H as <-. apply al_retry. rewrite R. reflexivity.
        + rewrite slot_set_other in H by exact E. apply al_slot. exact H.
      - rewrite H3 in G0. apply (al_thr s ev t0 th0 G0 H).
      - apply al_seq. rewrite H4 in H. exact H.
      - apply (al_q s ev t0). rewrite H5 in H. exact H.
      - rewrite H6 in H. discriminate. }
    destruct eo as [er|]; [destruct (is_cas er)|];
      (constructor; unfold vers in *; cbn [s_store s_events s_committed set_retry set_slots set_rlast s1]; auto;
       [intros ev H; apply (A ev); eapply Al; [..|exact H]; reflexivity|intros ev H; apply (B ev); eapply Al; [..|exact H]; reflexivity]).
  - (* pop *)
    intros _.
    assert (Al : forall ev, alive (set_rlast (set_retry (set_queue s (pop_head (s_queue s))) RIdle) st) ev -> alive s ev).
    { intros ev H. al_split H; [apply al_ev|apply al_slot|apply (al_thr s ev t0 th0 G0)|apply al_seq|..]; try exact H; [|discriminate].
      cbn in H. apply (al_q s ev t0). destruct (s_queue s); [contradiction|right; exact H]. }
    constructor; unfold vers in *; cbn [s_store s_events s_committed set_retry set_queue set_rlast]; eauto.
Qed.

Lemma reach_rpre r0 s : reach r0 s -> rpre s.
Proof.
  induction 1 as [|s l R IH W]; [intros ? ? ? H; discriminate|].
  apply rpre_step; [apply (reach_inv1 r0); exact R|apply (reach_inv2 r0); exact R|exact IH].
Qed.

Lemma reach_inv3 r0 s : reach r0 s -> Inv3 s.
Proof.
  induction 1 as [|s l R IH W]; [apply inv3_init|].
  pose proof (reach_inv1 r0 s R) as I1. pose proof (reach_inv2 r0 s R) as I2.
  pose proof (reach_inv2 r0 _ (reach_step r0 s l R W)) as I2'.
  destruct l as [t op|t e| |e|d]; simpl in W.
  - apply inv3_invoke; exact IH.
  - apply inv3_thread_step; assumption.
  - apply inv3_seq; assumption.
  - apply inv3_retry; try assumption. apply (reach_rpre r0); exact R.
  - apply inv3_tick; exact IH.
Qed.
