(* Each adapter model refines the engine contract: a simulation between adapter states and contract states under
   which point reads agree, iterators deliver a long-enough prefix of the contract's output, and batches agree with
   batch_eval under the C11 projection — outside the three recorded deviations (known_findings.d/C11.json). *)
From KB Require Import Base.Cases Model.Store Model.Adapters Model.C11Cases Proofs.Store Proofs.AdapterLists.
Local Open Scope N_scope.

Definition get_result (s : store) (k : bytes) : rclass * bytes :=
  match get s k with Some v => (ROk, v) | None => (RNotFound, []) end.

Definition item_bop (i : item) : bop := DelCur (fst (fst i)) (snd (fst i)) (snd i).

(* what "A refines the contract read as m" means; okb / okb_s / item_ok delimit the recorded deviations *)
Record sim (A : adapter) (m : dcmode) : Type := mk_sim {
  sim_R : a_state A -> cstore -> Prop;
  item_ok : item -> Prop;
  okb : list bop -> Prop;                 (* batches outside the deviation *)
  okb_s : list sbop -> Prop;              (* the same, before the held iterator is resolved *)
  sim_init : sim_R (a_init A) (cs_of []);
  sim_dump : forall s c, sim_R s c -> a_dump A s = st c;
  sim_get : forall s c k, sim_R s c -> a_get A s k = get_result (st c) k;
  sim_iter : forall s c a b l, sim_R s c ->
      exists n, a_iter A s a b l = firstn n (citems m c a b) /\ (min_count l (length (citems m c a b)) <= n)%nat;
  sim_item : forall s c a b i, sim_R s c -> In i (citems m c a b) -> item_ok i;
  sim_batch : forall s c ops, sim_R s c -> okb ops ->
      batch_proj_ok ops (batch_eval m c ops) (snd (fst (a_batch A s ops))) (snd (a_batch A s ops)) = true /\
      match batch_eval m c ops with
      | Applied c' => sim_R (fst (fst (a_batch A s ops))) c'
      | CondFailed _ _ => sim_R (fst (fst (a_batch A s ops))) c     (* nothing the contract sees has moved *)
      end;
  sim_del : forall s k, a_del A s k = (fst (fst (a_batch A s [Del k])), snd (fst (a_batch A s [Del k])));
  sim_delcur : forall s i, a_delcur A s i = a_batch A s [item_bop i];
  okb_del : forall k, okb [Del k];
  okb_delcur : forall i, item_ok i -> okb [item_bop i];
  okb_resolve : forall h l ops, okb_s l -> (forall i, h = Some i -> item_ok i) -> resolve_all h l = Some ops -> okb ops
}.

(* ====================================================================================== *)
(* shared facts about one batch step                                                       *)
(* ====================================================================================== *)

Lemma batch_eval_cons m c o rest :
  batch_eval m c (o :: rest) =
  match batch_go m (clock c + 1) (st c) (stamps c) 0 (o :: rest) with
  | inl (w, z) => Applied (mk_cstore w z (clock c + 1))
  | inr (i, a) => CondFailed i a
  end.
Proof. reflexivity. Qed.

Lemma nth_error_app_exact {X} (l1 : list X) x l2 : nth_error (l1 ++ x :: l2) (length l1) = Some x.
Proof. induction l1 as [|a t IH]; [reflexivity|exact IH]. Qed.

(* ====================================================================================== *)
(* memkv                                                                                   *)
(* ====================================================================================== *)

Definition no_empty_vals (s : store) : Prop := Forall (fun kv => snd kv <> []) s.

Definition bop_nonempty (o : bop) : Prop :=
  match o with
  | PutIfNotExist _ v _ | Put _ v _ => v <> []
  | CAS _ nv _ _ => nv <> []
  | Del _ => True
  | DelCur _ v _ => v <> []
  end.

Definition sbop_nonempty (o : sbop) : Prop :=
  match o with
  | BPutNX _ v _ | BPut _ v _ => v <> []
  | BCAS _ nv _ _ => nv <> []
  | _ => True
  end.

Lemma get_no_empty s k v : no_empty_vals s -> get s k = Some v -> v <> [].
Proof.
  intros H G. apply get_in in G. unfold no_empty_vals in H. rewrite Forall_forall in H. exact (H _ G).
Qed.

Lemma set_no_empty s k v : no_empty_vals s -> v <> [] -> no_empty_vals (set s k v).
Proof. intros H Hv. apply set_forall; assumption. Qed.

Lemma remove_no_empty s k : no_empty_vals s -> no_empty_vals (remove s k).
Proof.
  unfold no_empty_vals, remove. rewrite !Forall_forall. intros H x Hx. apply filter_In in Hx as [Hx _]. auto.
Qed.

Section MemBatch.
Variable s : store.
Hypothesis Hs : sorted s.

(* staging invariant: no error yet, opCount = index, and cache-then-store lookups are the contract's working copy *)
Definition mem_inv (b : mem_batch) (w : store) (idx : nat) : Prop :=
  mb_err b = None /\ mb_count b = idx /\ sorted (mb_cache b) /\ forall k, mem_bget (mb_cache b) s k = get w k.

Lemma mem_bget_set cache k cv k' :
  mem_bget (set cache k cv) s k' = if beqb k' k then cv else mem_bget cache s k'.
Proof.
  unfold mem_bget. destruct (beqb k' k) eqn:E.
  - apply beqb_eq in E. subst. rewrite get_set_same. reflexivity.
  - apply beqb_neq in E. rewrite get_set_other by exact E. reflexivity.
Qed.

Lemma get_set_if {V} (w : smap V) k v k' : get (set w k v) k' = if beqb k' k then Some v else get w k'.
Proof.
  destruct (beqb k' k) eqn:E.
  - apply beqb_eq in E. subst. apply get_set_same.
  - apply beqb_neq in E. apply get_set_other. exact E.
Qed.

Lemma get_remove_if {V} (w : smap V) k k' : get (remove w k) k' = if beqb k' k then None else get w k'.
Proof.
  destruct (beqb k' k) eqn:E.
  - apply beqb_eq in E. subst. apply get_remove_same.
  - apply beqb_neq in E. apply get_remove_other. exact E.
Qed.

Lemma mem_stage_latched b o : mb_err b <> None -> mem_stage s b o = b.
Proof. unfold mem_stage. destruct (mb_err b); [reflexivity|congruence]. Qed.

Lemma mem_fold_latched ops b : mb_err b <> None -> fold_left (mem_stage s) ops b = b.
Proof.
  revert b. induction ops as [|o rest IH]; intros b H; [reflexivity|]. cbn [fold_left].
  rewrite mem_stage_latched by exact H. apply IH. exact H.
Qed.

(* a step the contract accepts *)
Lemma mem_stage_ok b w z idx nc o w' z' :
  mem_inv b w idx -> bop_step ByValue nc w z o = inl (w', z') ->
  mem_inv (mem_stage s b o) w' (S idx).
Proof.
  intros (He & Hc & Hso & Hg). unfold mem_stage. rewrite He.
  destruct o as [k v t|k nv ov t|k v t|k|k v stamp]; cbn [bop_step].
  - rewrite Hg. destruct (get w k); [discriminate|]. intros [= <- <-].
    repeat split; cbn [mb_err mb_count mb_cache]; [congruence|apply set_sorted; exact Hso|].
    intros k'. rewrite mem_bget_set, get_set_if, Hg. reflexivity.
  - rewrite Hg. destruct (get w k) as [x|]; [|discriminate]. destruct (beqb x ov) eqn:E; [|discriminate].
    intros [= <- <-].
    repeat split; cbn [mb_err mb_count mb_cache]; [congruence|apply set_sorted; exact Hso|].
    intros k'. rewrite mem_bget_set, get_set_if, Hg. reflexivity.
  - intros [= <- <-].
    repeat split; cbn [mb_err mb_count mb_cache]; [congruence|apply set_sorted; exact Hso|].
    intros k'. rewrite mem_bget_set, get_set_if, Hg. reflexivity.
  - intros [= <- <-].
    repeat split; cbn [mb_err mb_count mb_cache]; [congruence|apply set_sorted; exact Hso|].
    intros k'. rewrite mem_bget_set, get_remove_if, Hg. reflexivity.
  - unfold delcur_holds. rewrite Hg. destruct (get w k) as [x|] eqn:G; [|discriminate].
    destruct (beqb x v) eqn:E; [|discriminate]. intros [= <- <-].
    repeat split; cbn [mb_err mb_count mb_cache]; [congruence|apply set_sorted; exact Hso|].
    intros k'. rewrite mem_bget_set, get_remove_if, Hg. reflexivity.
Qed.

(* a step the contract rejects: the error is latched with an acceptable payload *)
Lemma mem_stage_fail b w z idx nc o actual :
  mem_inv b w idx -> bop_step ByValue nc w z o = inr actual ->
  exists cf, mb_err (mem_stage s b o) = Some (RCond, cf) /\
             match cf with
             | None => True
             | Some (i', k', v') => i' = idx /\
                 match bop_is_putnx o with Some k => k' = k /\ v' = canon_opt actual | None => True end
             end.
Proof.
  intros (He & Hc & Hso & Hg). unfold mem_stage. rewrite He.
  destruct o as [k v t|k nv ov t|k v t|k|k v stamp]; cbn [bop_step bop_is_putnx].
  - rewrite Hg. destruct (get w k) as [x|]; [|discriminate]. intros [= <-].
    eexists. split; [reflexivity|]. cbn. auto.
  - rewrite Hg. destruct (get w k) as [x|].
    + destruct (beqb x ov) eqn:E; [discriminate|]. intros _. cbn [mb_err].
      eexists. split; [reflexivity|]. cbn. auto.
    + intros _. eexists. split; [reflexivity|]. cbn. auto.
  - discriminate.
  - discriminate.
  - unfold delcur_holds. rewrite Hg. destruct (get w k) as [x|].
    + destruct (beqb x v) eqn:E; [discriminate|]. intros _. cbn [mb_err].
      exists None. split; [reflexivity|exact I].
    + intros _. cbn [mb_err]. exists None. split; [reflexivity|exact I].
Qed.

Lemma mem_fold_sim nc ops : forall b w z idx, mem_inv b w idx ->
  match batch_go ByValue nc w z idx ops with
  | inl (w', z') => exists b', fold_left (mem_stage s) ops b = b' /\ mem_inv b' w' (idx + length ops)
  | inr (i, actual) =>
      exists cf, mb_err (fold_left (mem_stage s) ops b) = Some (RCond, cf) /\
                 (idx <= i)%nat /\
                 match cf with
                 | None => True
                 | Some (i', k', v') => i' = i /\
                     match nth_error ops (i - idx) with
                     | Some o => match bop_is_putnx o with Some k => k' = k /\ v' = canon_opt actual | None => True end
                     | None => False
                     end
                 end
  end.
Proof.
  induction ops as [|o rest IH]; intros b w z idx Hinv; cbn [batch_go fold_left].
  - exists b. split; [reflexivity|]. rewrite Nat.add_0_r. exact Hinv.
  - destruct (bop_step ByValue nc w z o) as [[w1 z1]|actual] eqn:E.
    + pose proof (mem_stage_ok _ _ _ _ _ _ _ _ Hinv E) as Hinv1.
      specialize (IH (mem_stage s b o) w1 z1 (S idx) Hinv1).
      destruct (batch_go ByValue nc w1 z1 (S idx) rest) as [[w' z']|[i a]].
      * destruct IH as [b' [Hb' Hi]]. exists b'. split; [exact Hb'|].
        cbn [length]. rewrite Nat.add_succ_r. exact Hi.
      * destruct IH as [cf [Herr [Hle Hcf]]]. exists cf. split; [exact Herr|]. split; [lia|].
        destruct cf as [[[i' k'] v']|]; [|exact I]. destruct Hcf as [-> Hcf]. split; [reflexivity|].
        replace (i - idx)%nat with (S (i - S idx)) by lia. exact Hcf.
    + destruct (mem_stage_fail _ _ _ _ _ _ _ Hinv E) as [cf [Herr Hcf]].
      exists cf. rewrite mem_fold_latched by (rewrite Herr; discriminate). split; [exact Herr|]. split; [lia|].
      destruct cf as [[[i' k'] v']|]; [|exact I]. destruct Hcf as [-> Hcf]. split; [reflexivity|].
      rewrite Nat.sub_diag. exact Hcf.
Qed.

End MemBatch.

Definition mem_R (s : store) (c : cstore) : Prop := s = st c /\ sorted s /\ sorted (stamps c).

Lemma batch_go_no_empty m nc ops : forall w z idx w' z',
  no_empty_vals w -> Forall bop_nonempty ops -> batch_go m nc w z idx ops = inl (w', z') -> no_empty_vals w'.
Proof.
  induction ops as [|o rest IH]; intros w z idx w' z' Hw Hne; cbn [batch_go].
  - intros [= <- <-]. exact Hw.
  - inversion Hne as [|? ? Ho Hrest]; subst.
    destruct (bop_step m nc w z o) as [[w1 z1]|a] eqn:E; [|discriminate].
    apply IH; [|exact Hrest].
    destruct o as [k v t|k nv ov t|k v t|k|k v stamp]; cbn [bop_step] in E.
    + destruct (get w k); [discriminate|]. injection E as <- <-. apply set_no_empty; assumption.
    + destruct (get w k) as [x|]; [|discriminate]. destruct (beqb x ov); [|discriminate].
      injection E as <- <-. apply set_no_empty; assumption.
    + injection E as <- <-. apply set_no_empty; assumption.
    + injection E as <- <-. apply remove_no_empty; assumption.
    + destruct (delcur_holds m w z k v stamp); [|discriminate]. injection E as <- <-. apply remove_no_empty; assumption.
Qed.

Lemma mem_batch_sim s c ops : mem_R s c ->
  batch_proj_ok ops (batch_eval ByValue c ops) (snd (fst (mem_batch_run s ops))) (snd (mem_batch_run s ops)) = true /\
  match batch_eval ByValue c ops with
  | Applied c' => mem_R (fst (fst (mem_batch_run s ops))) c'
  | CondFailed _ _ => fst (fst (mem_batch_run s ops)) = s
  end.
Proof.
  intros (-> & Hs & Hz). destruct ops as [|o rest].
  - cbn. repeat split; assumption.
  - rewrite batch_eval_cons. unfold mem_batch_run.
    assert (Hinv0 : mem_inv (st c) (mk_mem_batch [] 0 None) (st c) 0).
    { repeat split. constructor. }
    pose proof (mem_fold_sim (st c) (clock c + 1) (o :: rest) _ _ (stamps c) _ Hinv0) as H.
    destruct (batch_go ByValue (clock c + 1) (st c) (stamps c) 0 (o :: rest)) as [[w' z']|[i a]] eqn:E.
    + destruct H as [b' [Hb' (He & _ & Hso & Hg)]]. rewrite Hb', He. cbn [fst snd batch_proj_ok rclass_eqb andb].
      split; [reflexivity|].
      destruct (batch_go_sorted _ _ _ _ _ _ _ _ Hs Hz E) as [Hw' Hz'].
      assert (Heq : mem_apply (st c) (mb_cache b') = w').
      { apply sorted_ext; [apply apply_writes_sorted; exact Hs|exact Hw'|].
        intros k. unfold mem_apply. rewrite apply_writes_get by exact Hso. rewrite <- Hg. unfold mem_bget.
        destruct (get (mb_cache b') k) as [[v|]|]; reflexivity. }
      rewrite Heq. repeat split; cbn [st stamps]; assumption.
    + destruct H as [cf [Herr [_ Hcf]]]. rewrite Herr. cbn [fst snd batch_proj_ok rclass_eqb andb].
      split; [|reflexivity].
      destruct cf as [[[i' k'] v']|]; [|reflexivity]. destruct Hcf as [-> Hcf]. rewrite Nat.sub_0_r in Hcf.
      destruct (Nat.eqb i 0) eqn:Ei; cbn [andb].
      * destruct (nth_error (o :: rest) i) as [o'|]; [|contradiction].
        destruct (bop_is_putnx o') as [k|]; [|reflexivity]. destruct Hcf as [-> ->].
        rewrite beqb_refl. cbn [andb]. destruct (canon_opt a); cbn [opt_eqb]; [apply beqb_refl|reflexivity].
      * destruct (nth_error (o :: rest) i) as [o'|]; [|contradiction].
        destruct (bop_is_putnx o') as [k|]; [|reflexivity]. destruct Hcf as [-> ->].
        rewrite beqb_refl. cbn [andb]. destruct (canon_opt a); cbn [opt_eqb]; [apply beqb_refl|reflexivity].
Qed.

(* the iterator: everything the interval holds, the limit is ignored *)
Lemma mem_iter_all s a b l : sorted s -> mem_iter s a b l = iter_all s a b.
Proof.
  intros Hs. unfold mem_iter, iter_all, fwd, bwd. destruct (is_fwd a b).
  - apply (range_fwd fst). exact Hs.
  - apply (range_bwd fst). exact Hs.
Qed.

Lemma min_count_le l n : (min_count l n <= n)%nat.
Proof. unfold min_count. destruct (l =? 0); lia. Qed.

Lemma resolve_nonempty h : forall l ops, Forall sbop_nonempty l -> (forall i, h = Some i -> snd (fst i) <> []) ->
  resolve_all h l = Some ops -> Forall bop_nonempty ops.
Proof.
  induction l as [|o t IH]; intros ops Hl Hh; cbn [resolve_all].
  - intros [= <-]. constructor.
  - inversion Hl as [|? ? Ho Ht]; subst.
    destruct (resolve h o) as [x|] eqn:Ex; [|discriminate].
    destruct (resolve_all h t) as [r|] eqn:Er; [|discriminate]. intros [= <-].
    constructor; [|apply IH; auto].
    destruct o; cbn [resolve] in Ex; try (injection Ex as <-; exact Ho).
    destruct h as [i|]; [|discriminate]. injection Ex as <-. cbn [bop_nonempty]. apply Hh. reflexivity.
Qed.

Lemma citems_in m c a b i : In i (citems m c a b) -> In (item_kv i) (st c).
Proof.
  unfold citems. intros H. apply in_map_iff in H as [kv [<- Hkv]].
  apply iter_all_in in Hkv as [Hkv _]. unfold item_kv, mk_item. cbn [fst snd]. destruct kv; exact Hkv.
Qed.

Definition sim_memkv : sim memkv ByValue.
Proof.
  refine (mk_sim memkv ByValue mem_R (fun _ => True) (fun _ => True) (fun _ => True)
            _ _ _ _ _ _ _ _ _ _ _).
  - repeat split; constructor.
  - intros s c (-> & _). reflexivity.
  - intros s c k (-> & _). reflexivity.
  - intros s c a b l (-> & Hs & _). cbn [a_iter memkv]. rewrite mem_iter_all by exact Hs.
    exists (length (citems ByValue c a b)). rewrite firstn_all. split; [|apply min_count_le].
    unfold with_stamp0, citems, mk_item. reflexivity.
  - intros; exact I.
  - intros s c ops HR _. destruct (mem_batch_sim s c ops) as [Hp Hrel]; [assumption..|]. split; [exact Hp|].
    destruct (batch_eval ByValue c ops); [exact Hrel|].
    replace (fst (fst (a_batch memkv s ops))) with s by (symmetry; exact Hrel). exact HR.
  - intros s k. cbn [a_del a_batch memkv]. destruct (mem_batch_run s [Del k]) as [[s' c] cf]. reflexivity.
  - intros s i. reflexivity.
  - intros; exact I.
  - intros; exact I.
  - intros; exact I.
Defined.

(* ====================================================================================== *)
(* TiKV                                                                                    *)
(* ====================================================================================== *)

Definition bop_wnonempty (o : bop) : Prop :=
  match o with
  | PutIfNotExist _ v _ | Put _ v _ => v <> []
  | CAS _ nv _ _ => nv <> []
  | _ => True
  end.

Lemma t_set_nonempty p k v : v <> [] -> t_set p k v = inl (set p k (Some v)).
Proof. destruct v; [congruence|reflexivity]. Qed.

Section TikvBatch.
Variable s : store.

Definition t_inv (p : pending) (w : store) : Prop := sorted p /\ forall k, t_txn_get s p k = get w k.

Lemma t_txn_get_set p k pv k' : t_txn_get s (set p k pv) k' = if beqb k' k then pv else t_txn_get s p k'.
Proof.
  unfold t_txn_get. destruct (beqb k' k) eqn:E.
  - apply beqb_eq in E. subst. rewrite get_set_same. reflexivity.
  - apply beqb_neq in E. rewrite get_set_other by exact E. reflexivity.
Qed.

Lemma t_closure_ok p w z idx nc o w' z' :
  t_inv p w -> bop_wnonempty o -> bop_step ByValue nc w z o = inl (w', z') ->
  exists p', t_closure s p idx o = inl p' /\ t_inv p' w'.
Proof.
  intros (Hso & Hg) Hne. destruct o as [k v t|k nv ov t|k v t|k|k v stamp]; cbn [bop_step t_closure].
  - rewrite Hg. destruct (get w k); [discriminate|]. intros [= <- <-]. rewrite t_set_nonempty by exact Hne.
    eexists. split; [reflexivity|]. split; [apply set_sorted; exact Hso|].
    intros k'. rewrite t_txn_get_set, get_set_if, Hg. reflexivity.
  - rewrite Hg. destruct (get w k) as [x|]; [|discriminate]. rewrite (beqb_sym ov x).
    destruct (beqb x ov); [|discriminate]. intros [= <- <-]. rewrite t_set_nonempty by exact Hne.
    eexists. split; [reflexivity|]. split; [apply set_sorted; exact Hso|].
    intros k'. rewrite t_txn_get_set, get_set_if, Hg. reflexivity.
  - intros [= <- <-]. rewrite t_set_nonempty by exact Hne.
    eexists. split; [reflexivity|]. split; [apply set_sorted; exact Hso|].
    intros k'. rewrite t_txn_get_set, get_set_if, Hg. reflexivity.
  - intros [= <- <-]. eexists. split; [reflexivity|]. split; [apply set_sorted; exact Hso|].
    intros k'. rewrite t_txn_get_set, get_remove_if, Hg. reflexivity.
  - unfold delcur_holds. rewrite Hg. destruct (get w k) as [x|]; [|discriminate].
    destruct (beqb x v); [|discriminate]. intros [= <- <-].
    eexists. split; [reflexivity|]. split; [apply set_sorted; exact Hso|].
    intros k'. rewrite t_txn_get_set, get_remove_if, Hg. reflexivity.
Qed.

Lemma t_closure_fail p w z idx nc o actual :
  t_inv p w -> bop_step ByValue nc w z o = inr actual ->
  exists k' v', t_closure s p idx o = inr (RCond, Some (idx, k', v')) /\
                match bop_is_putnx o with Some k => k' = k /\ v' = canon_opt actual | None => True end.
Proof.
  intros (Hso & Hg). destruct o as [k v t|k nv ov t|k v t|k|k v stamp]; cbn [bop_step t_closure bop_is_putnx].
  - rewrite Hg. destruct (get w k) as [x|]; [|discriminate]. intros [= <-].
    do 2 eexists. split; [reflexivity|]. cbn. auto.
  - rewrite Hg. destruct (get w k) as [x|].
    + rewrite (beqb_sym ov x). destruct (beqb x ov); [discriminate|]. intros _. do 2 eexists. split; [reflexivity|exact I].
    + intros _. do 2 eexists. split; [reflexivity|exact I].
  - discriminate.
  - discriminate.
  - unfold delcur_holds. rewrite Hg. destruct (get w k) as [x|].
    + destruct (beqb x v); [discriminate|]. intros _. do 2 eexists. split; [reflexivity|exact I].
    + intros _. do 2 eexists. split; [reflexivity|exact I].
Qed.

Lemma t_run_sim nc ops : forall p w z idx, t_inv p w -> Forall bop_wnonempty ops ->
  match batch_go ByValue nc w z idx ops with
  | inl (w', z') => exists p', t_run s p (S idx) ops = inl p' /\ t_inv p' w'
  | inr (i, actual) =>
      exists k' v', t_run s p (S idx) ops = inr (RCond, Some (S i, k', v')) /\ (idx <= i)%nat /\
                    match nth_error ops (i - idx) with
                    | Some o => match bop_is_putnx o with Some k => k' = k /\ v' = canon_opt actual | None => True end
                    | None => False
                    end
  end.
Proof.
  induction ops as [|o rest IH]; intros p w z idx Hinv Hne; cbn [batch_go t_run].
  - exists p. split; [reflexivity|exact Hinv].
  - inversion Hne as [|? ? Ho Hrest]; subst.
    destruct (bop_step ByValue nc w z o) as [[w1 z1]|actual] eqn:E.
    + destruct (t_closure_ok _ _ _ (S idx) _ _ _ _ Hinv Ho E) as [p1 [Hc Hinv1]]. rewrite Hc.
      specialize (IH p1 w1 z1 (S idx) Hinv1 Hrest).
      destruct (batch_go ByValue nc w1 z1 (S idx) rest) as [[w' z']|[i a]]; [exact IH|].
      destruct IH as [k' [v' [Hr [Hle Hn]]]]. exists k', v'. split; [exact Hr|]. split; [lia|].
      replace (i - idx)%nat with (S (i - S idx)) by lia. exact Hn.
    + destruct (t_closure_fail _ _ _ (S idx) _ _ _ Hinv E) as [k' [v' [Hc Hp]]]. rewrite Hc.
      exists k', v'. split; [reflexivity|]. split; [lia|]. rewrite Nat.sub_diag. exact Hp.
Qed.

End TikvBatch.

Definition tikv_R (s : store) (c : cstore) : Prop := s = st c /\ sorted s /\ sorted (stamps c).

Lemma tikv_batch_sim s c ops : tikv_R s c -> Forall bop_wnonempty ops ->
  batch_proj_ok ops (batch_eval ByValue c ops) (snd (fst (t_batch s ops))) (snd (t_batch s ops)) = true /\
  match batch_eval ByValue c ops with
  | Applied c' => tikv_R (fst (fst (t_batch s ops))) c'
  | CondFailed _ _ => fst (fst (t_batch s ops)) = s
  end.
Proof.
  intros (-> & Hs & Hz) Hops. destruct ops as [|o rest].
  - cbn. repeat split; assumption.
  - rewrite batch_eval_cons. unfold t_batch, t_batch_env.
    assert (Hinv0 : t_inv (st c) [] (st c)) by (split; [constructor|reflexivity]).
    pose proof (t_run_sim (st c) (clock c + 1) (o :: rest) _ _ (stamps c) 0%nat Hinv0 Hops) as H.
    destruct (batch_go ByValue (clock c + 1) (st c) (stamps c) 0 (o :: rest)) as [[w' z']|[i a]] eqn:E.
    + destruct H as [p' [Hr (Hso & Hg)]]. rewrite Hr. cbn [fst snd batch_proj_ok rclass_eqb andb].
      split; [reflexivity|].
      destruct (batch_go_sorted _ _ _ _ _ _ _ _ Hs Hz E) as [Hw' Hz'].
      assert (Heq : t_apply (st c) p' = w').
      { apply sorted_ext; [apply apply_writes_sorted; exact Hs|exact Hw'|].
        intros k. unfold t_apply. rewrite apply_writes_get by exact Hso. rewrite <- Hg. unfold t_txn_get.
        destruct (get p' k) as [[v|]|]; reflexivity. }
      rewrite Heq. repeat split; assumption.
    + destruct H as [k' [v' [Hr [_ Hn]]]]. rewrite Hr. cbn [fst snd batch_proj_ok rclass_eqb andb Nat.eqb].
      split; [|reflexivity]. rewrite Nat.sub_0_r in Hn.
      destruct (nth_error (o :: rest) i) as [o'|]; [|contradiction].
      destruct (bop_is_putnx o') as [k|]; [|reflexivity]. destruct Hn as [-> ->].
      rewrite beqb_refl. cbn [andb]. destruct (canon_opt a); cbn [opt_eqb]; [apply beqb_refl|reflexivity].
Qed.

(* the iterator: a prefix of the interval's records, at least min(limit, all) of them *)
Lemma take_while_all {X} (p : X -> bool) l : (forall x, In x l -> p x = true) -> take_while p l = l.
Proof.
  induction l as [|a t IH]; intros H; [reflexivity|]. cbn [take_while].
  rewrite (H a (or_introl eq_refl)). f_equal. apply IH. intros x Hx. apply H. right; exact Hx.
Qed.

Lemma take_while_ext {X} (p q : X -> bool) l : (forall x, p x = q x) -> take_while p l = take_while q l.
Proof. intros H. induction l as [|a t IH]; [reflexivity|]. cbn [take_while]. rewrite H, IH. reflexivity. Qed.

Lemma t_iter_prefix s a b l : sorted s ->
  exists n, t_iter s a b l = firstn n (iter_all s a b) /\ (min_count l (length (iter_all s a b)) <= n)%nat.
Proof.
  intros Hs. unfold t_iter. rewrite !t_iter_out_spec. unfold iter_all, is_fwd, b_is_rev, min_count.
  destruct (bcmp a b) eqn:C.
  - (* start = end: the forward branch over an empty native range; the contract's backward interval is empty too *)
    apply bcmp_eq in C. subst b.
    assert (E1 : filter (fun kv : bytes * bytes => in_fwd a a (fst kv)) s = []).
    { apply filter_all_false. intros x _. unfold in_fwd. rewrite bleb_negb_bltb. destruct (bltb (fst x) a); reflexivity. }
    assert (E2 : bwd s a a = []).
    { pose proof (iter_all_same s a) as H. unfold iter_all, is_fwd in H. rewrite bcmp_refl in H. exact H. }
    rewrite E1, E2. cbn [take_while length]. exists 0%nat. unfold lim1. destruct (l =? 0); cbn; split; reflexivity || lia.
  - unfold fwd. rewrite take_while_all.
    + destruct (lim1_firstn l (filter (fun kv : bytes * bytes => in_fwd a b (fst kv)) s)) as [n [Hn Hle]]. exists n. split; assumption.
    + intros x Hx. apply filter_In in Hx as [_ Hx]. unfold in_fwd in Hx. apply andb_true_iff in Hx as [_ Hx].
      unfold t_border. rewrite bleb_negb_bltb, Hx. reflexivity.
  - unfold bwd.
    assert (E : take_while (fun x : bytes * bytes => negb (t_border true b (fst x)))
                  (rev (filter (fun kv : bytes * bytes => bltb (fst kv) (a ++ [0])) s)) =
                rev (filter (fun kv : bytes * bytes => in_bwd a b (fst kv)) s)).
    { rewrite <- (range_bwd fst s a b Hs).
      rewrite (drop_while_filter (fun x y : bytes * bytes => bcmp (fst y) (fst x) = Lt)).
      - rewrite filter_rev'.
        replace (filter (fun x : bytes * bytes => negb (bltb a (fst x))) s)
          with (filter (fun kv : bytes * bytes => bltb (fst kv) (a ++ [0])) s)
          by (apply filter_ext; intros x; rewrite bltb_app0, bleb_negb_bltb; reflexivity).
        apply take_while_ext. intros x. unfold t_border. rewrite bleb_negb_bltb, negb_involutive. reflexivity.
      - apply ssorted_rev. exact Hs.
      - intros x y Hxy Hy. apply bltb_lt in Hy. apply bltb_lt. eapply bcmp_lt_trans; eauto. }
    unfold t_border in E. unfold t_border. 
    assert (E' : take_while (fun x : bytes * bytes => negb (bleb (fst x) b))
                  (rev (filter (fun kv : bytes * bytes => bltb (fst kv) (a ++ [0])) s)) =
                 rev (filter (fun kv : bytes * bytes => in_bwd a b (fst kv)) s)).
    { rewrite <- E. reflexivity. }
    rewrite E'.
    destruct (lim1_firstn l (rev (filter (fun kv : bytes * bytes => in_bwd a b (fst kv)) s))) as [n [Hn Hle]].
    exists n. split; assumption.
Qed.

Definition sim_tikv : sim tikv ByValue.
Proof.
  refine (mk_sim tikv ByValue tikv_R (fun _ => True) (Forall bop_wnonempty) (Forall sbop_nonempty)
            _ _ _ _ _ _ _ _ _ _ _).
  - repeat split; constructor.
  - intros s c (-> & _). reflexivity.
  - intros s c k (-> & _). reflexivity.
  - intros s c a b l (-> & Hs & _). cbn [a_iter tikv].
    destruct (t_iter_prefix (st c) a b l Hs) as [n [Hn Hle]]. exists n. rewrite Hn.
    unfold citems. rewrite map_length. split; [|exact Hle].
    unfold with_stamp0. rewrite firstn_map. reflexivity.
  - intros; exact I.
  - intros s c ops HR Hok. destruct (tikv_batch_sim s c ops) as [Hp Hrel]; [assumption..|]. split; [exact Hp|].
    destruct (batch_eval ByValue c ops); [exact Hrel|].
    replace (fst (fst (a_batch tikv s ops))) with s by (symmetry; exact Hrel). exact HR.
  - intros s k. cbn [a_del a_batch tikv]. destruct (t_batch s [Del k]) as [[s' c] cf]. reflexivity.
  - intros s i. reflexivity.
  - intros k. repeat constructor.
  - intros i _. repeat constructor.
  - intros h l ops Hl _. revert ops. induction l as [|o t IH]; intros ops; cbn [resolve_all].
    + intros [= <-]. constructor.
    + inversion Hl as [|? ? Ho Ht]; subst.
      destruct (resolve h o) as [x|] eqn:Ex; [|discriminate].
      destruct (resolve_all h t) as [r|] eqn:Er; [|discriminate]. intros [= <-].
      constructor; [|apply IH; auto].
      destruct o; cbn [resolve] in Ex; try (injection Ex as <-; exact Ho).
      destruct h as [i|]; [|discriminate]. injection Ex as <-. exact I.
Defined.

(* ====================================================================================== *)
(* Badger                                                                                  *)
(* ====================================================================================== *)

Definition b_vers (s : bstate) : smap N := map (fun e => (fst e, snd (snd e))) (b_map s).

Lemma get_map_val {V W} (g : V -> W) (m : smap V) k :
  get (map (fun e => (fst e, g (snd e))) m) k = option_map g (get m k).
Proof.
  induction m as [|[k' v'] t IH]; [reflexivity|]. cbn [map get fst snd].
  destruct (beqb k k'); [reflexivity|exact IH].
Qed.

Lemma sorted_map_val {V W} (g : V -> W) (m : smap V) : sorted m -> sorted (map (fun e => (fst e, g (snd e))) m).
Proof. apply ssorted_map. intros x y H. exact H. Qed.

Lemma set_not_nil {V} (p : smap V) k v : set p k v <> [].
Proof. destruct p as [|[k' v'] t]; cbn [set]; [discriminate|]. destruct (bcmp k k'); discriminate. Qed.

Definition in_seen (seen : list bytes) (k : bytes) : bool := existsb (beqb k) seen.

Section BadgerBatch.
Variable s : bstate.
Variable nc : N.

(* pending writes against the contract's working copy (w, z); `seen` are the keys written so far *)
Definition b_inv (p : pending) (w : store) (z : smap N) (seen : list bytes) : Prop :=
  sorted p /\
  (forall k, option_map fst (b_txn_get s p k) = get w k) /\
  (forall k, get z k = match get p k with
                       | Some (Some _) => Some nc
                       | Some None => None
                       | None => option_map snd (get (b_map s) k)
                       end) /\
  (forall k v, get p k = Some (Some v) -> in_seen seen k = true).

Lemma b_txn_get_set p k pv k' :
  b_txn_get s (set p k pv) k' =
  if beqb k' k then match pv with Some v => Some (v, b_ts s) | None => None end else b_txn_get s p k'.
Proof.
  unfold b_txn_get. destruct (beqb k' k) eqn:E.
  - apply beqb_eq in E. subst. rewrite get_set_same. reflexivity.
  - apply beqb_neq in E. rewrite get_set_other by exact E. reflexivity.
Qed.

Lemma in_seen_cons seen k k' : in_seen seen k' = true -> in_seen (k :: seen) k' = true.
Proof. unfold in_seen. cbn [existsb]. intros ->. apply orb_true_r. Qed.

Lemma b_inv_write p w z seen k v :
  b_inv p w z seen -> b_inv (set p k (Some v)) (set w k v) (set z k nc) (k :: seen).
Proof.
  intros (Hso & Hg & Hz & Hseen). repeat split.
  - apply set_sorted. exact Hso.
  - intros k'. rewrite b_txn_get_set, get_set_if. destruct (beqb k' k); [reflexivity|apply Hg].
  - intros k'. rewrite !get_set_if. destruct (beqb k' k); [reflexivity|apply Hz].
  - intros k' v'. rewrite get_set_if. destruct (beqb k' k) eqn:E.
    + intros _. apply beqb_eq in E. subst. unfold in_seen. cbn [existsb]. rewrite beqb_refl. reflexivity.
    + intros H. apply in_seen_cons. eapply Hseen; eauto.
Qed.

Lemma b_inv_delete p w z seen k :
  b_inv p w z seen -> b_inv (set p k None) (remove w k) (remove z k) seen.
Proof.
  intros (Hso & Hg & Hz & Hseen). repeat split.
  - apply set_sorted. exact Hso.
  - intros k'. rewrite b_txn_get_set, get_remove_if. destruct (beqb k' k); [reflexivity|apply Hg].
  - intros k'. rewrite get_set_if, get_remove_if. destruct (beqb k' k); [reflexivity|apply Hz].
  - intros k' v'. rewrite get_set_if. destruct (beqb k' k); [discriminate|]. apply Hseen.
Qed.

Definition seen_after (o : bop) (seen : list bytes) : list bytes :=
  match o with
  | PutIfNotExist k _ _ | CAS k _ _ _ | Put k _ _ => k :: seen
  | _ => seen
  end.

Definition delcur_fresh (o : bop) (seen : list bytes) : Prop :=
  match o with DelCur k _ _ => in_seen seen k = false | _ => True end.

Lemma b_closure_ok p w z seen idx o w' z' :
  b_inv p w z seen -> delcur_fresh o seen -> bop_step ByVersion nc w z o = inl (w', z') ->
  exists p', b_closure s p idx o = inl p' /\ b_inv p' w' z' (seen_after o seen).
Proof.
  intros Hinv Hfr. pose proof Hinv as (Hso & Hg & Hz & Hseen).
  destruct o as [k v t|k nv ov t|k v t|k|k v stamp]; cbn [bop_step b_closure seen_after].
  - rewrite <- Hg. destruct (b_txn_get s p k) as [[old ver]|]; cbn [option_map]; [discriminate|].
    intros [= <- <-]. eexists. split; [reflexivity|]. apply b_inv_write. exact Hinv.
  - rewrite <- Hg. destruct (b_txn_get s p k) as [[val ver]|]; cbn [option_map fst]; [|discriminate].
    rewrite (beqb_sym ov val). destruct (beqb val ov); [|discriminate].
    intros [= <- <-]. eexists. split; [reflexivity|]. apply b_inv_write. exact Hinv.
  - intros [= <- <-]. eexists. split; [reflexivity|]. apply b_inv_write. exact Hinv.
  - intros [= <- <-]. eexists. split; [reflexivity|]. apply b_inv_delete. exact Hinv.
  - unfold delcur_holds. rewrite <- Hg, Hz. cbn [delcur_fresh] in Hfr.
    unfold b_txn_get. destruct (get p k) as [[pv|]|] eqn:Gp.
    + rewrite (Hseen k pv Gp) in Hfr. discriminate.
    + cbn [option_map]. discriminate.
    + destruct (get (b_map s) k) as [[val ver]|]; cbn [option_map fst snd]; [|discriminate].
      unfold nbeqb. cbn [opt_eqb]. destruct (ver =? stamp); [|discriminate].
      intros [= <- <-]. eexists. split; [reflexivity|]. apply b_inv_delete. exact Hinv.
Qed.

Lemma b_closure_fail p w z seen idx o actual :
  b_inv p w z seen -> delcur_fresh o seen -> bop_step ByVersion nc w z o = inr actual ->
  exists k' v', b_closure s p idx o = inr (RCond, Some (idx, k', v')) /\
                match bop_is_putnx o with Some k => k' = k /\ v' = canon_opt actual | None => True end.
Proof.
  intros (Hso & Hg & Hz & Hseen) Hfr.
  destruct o as [k v t|k nv ov t|k v t|k|k v stamp]; cbn [bop_step b_closure bop_is_putnx].
  - rewrite <- Hg. destruct (b_txn_get s p k) as [[old ver]|]; cbn [option_map fst]; [|discriminate].
    intros [= <-]. do 2 eexists. split; [reflexivity|]. cbn. auto.
  - rewrite <- Hg. destruct (b_txn_get s p k) as [[val ver]|]; cbn [option_map fst].
    + rewrite (beqb_sym ov val). destruct (beqb val ov); [discriminate|]. intros _.
      do 2 eexists. split; [reflexivity|exact I].
    + intros _. do 2 eexists. split; [reflexivity|exact I].
  - discriminate.
  - discriminate.
  - unfold delcur_holds. rewrite <- Hg, Hz. cbn [delcur_fresh] in Hfr.
    unfold b_txn_get. destruct (get p k) as [[pv|]|] eqn:Gp.
    + rewrite (Hseen k pv Gp) in Hfr. discriminate.
    + cbn [option_map]. intros _. do 2 eexists. split; [reflexivity|exact I].
    + destruct (get (b_map s) k) as [[val ver]|]; cbn [option_map fst snd].
      * unfold nbeqb. cbn [opt_eqb]. destruct (ver =? stamp); [discriminate|]. intros _.
        do 2 eexists. split; [reflexivity|exact I].
      * intros _. do 2 eexists. split; [reflexivity|exact I].
Qed.

Lemma wbd_step o rest seen :
  written_before_delcur (o :: rest) seen = false ->
  delcur_fresh o seen /\ written_before_delcur rest (seen_after o seen) = false.
Proof.
  destruct o as [k v t|k nv ov t|k v t|k|k v stamp]; cbn [written_before_delcur delcur_fresh seen_after]; auto.
  intros H. apply orb_false_iff in H. exact H.
Qed.

Lemma b_run_sim ops : forall p w z seen idx, b_inv p w z seen -> written_before_delcur ops seen = false ->
  match batch_go ByVersion nc w z idx ops with
  | inl (w', z') => exists p' seen', b_run s p idx ops = inl p' /\ b_inv p' w' z' seen' /\ (ops <> [] \/ p <> [] -> p' <> [])
  | inr (i, actual) =>
      exists k' v', b_run s p idx ops = inr (RCond, Some (i, k', v')) /\ (idx <= i)%nat /\
                    match nth_error ops (i - idx) with
                    | Some o => match bop_is_putnx o with Some k => k' = k /\ v' = canon_opt actual | None => True end
                    | None => False
                    end
  end.
Proof.
  induction ops as [|o rest IH]; intros p w z seen idx Hinv Hw; cbn [batch_go b_run].
  - exists p, seen. split; [reflexivity|]. split; [exact Hinv|]. intros [H|H]; [congruence|exact H].
  - apply wbd_step in Hw as [Hfr Hw].
    destruct (bop_step ByVersion nc w z o) as [[w1 z1]|actual] eqn:E.
    + destruct (b_closure_ok _ _ _ _ idx _ _ _ Hinv Hfr E) as [p1 [Hc Hinv1]]. rewrite Hc.
      assert (Hp1 : p1 <> []).
      { destruct o; cbn [b_closure] in Hc.
        - destruct (b_txn_get s p k) as [[? ?]|]; [discriminate|]. injection Hc as <-. apply set_not_nil.
        - destruct (b_txn_get s p k) as [[? ?]|]; [|discriminate]. destruct (beqb ov b); [|discriminate].
          injection Hc as <-. apply set_not_nil.
        - injection Hc as <-. apply set_not_nil.
        - injection Hc as <-. apply set_not_nil.
        - destruct (b_txn_get s p k) as [[? ?]|]; [|discriminate]. destruct (n =? stamp); [|discriminate].
          injection Hc as <-. apply set_not_nil. }
      specialize (IH p1 w1 z1 (seen_after o seen) (S idx) Hinv1 Hw).
      destruct (batch_go ByVersion nc w1 z1 (S idx) rest) as [[w' z']|[i a]].
      * destruct IH as [p' [seen' [Hr [Hi Hn]]]]. exists p', seen'. split; [exact Hr|]. split; [exact Hi|].
        intros _. apply Hn. right. exact Hp1.
      * destruct IH as [k' [v' [Hr [Hle Hn]]]]. exists k', v'. split; [exact Hr|]. split; [lia|].
        replace (i - idx)%nat with (S (i - S idx)) by lia. exact Hn.
    + destruct (b_closure_fail _ _ _ _ idx _ _ Hinv Hfr E) as [k' [v' [Hc Hp]]]. rewrite Hc.
      exists k', v'. split; [reflexivity|]. split; [lia|]. rewrite Nat.sub_diag. exact Hp.
Qed.

End BadgerBatch.

Definition badger_R (s : bstate) (c : cstore) : Prop :=
  st c = b_store s /\ stamps c = b_vers s /\ clock c = b_ts s /\ sorted (b_map s).

Lemma badger_batch_sim s c ops : badger_R s c -> written_before_delcur ops [] = false ->
  batch_proj_ok ops (batch_eval ByVersion c ops) (snd (fst (b_batch s ops))) (snd (b_batch s ops)) = true /\
  match batch_eval ByVersion c ops with
  | Applied c' => badger_R (fst (fst (b_batch s ops))) c'
  | CondFailed _ _ => fst (fst (b_batch s ops)) = s
  end.
Proof.
  intros (Hst & Hzs & Hck & Hs) Hops. destruct ops as [|o rest].
  - cbn. repeat split; assumption.
  - rewrite batch_eval_cons. unfold b_batch.
    assert (Hinv0 : b_inv s (clock c + 1) [] (st c) (stamps c) []).
    { repeat split.
      - constructor.
      - intros k. rewrite Hst. unfold b_txn_get, b_store. cbn [get]. rewrite get_map_val.
        destruct (get (b_map s) k) as [[v ver]|]; reflexivity.
      - intros k. rewrite Hzs. unfold b_vers. cbn [get]. apply get_map_val.
      - intros k v. cbn [get]. discriminate. }
    pose proof (b_run_sim s (clock c + 1) (o :: rest) _ _ _ _ 0%nat Hinv0 Hops) as H.
    assert (Hws : sorted (st c)) by (rewrite Hst; apply sorted_map_val; exact Hs).
    assert (Hzz : sorted (stamps c)) by (rewrite Hzs; apply sorted_map_val; exact Hs).
    destruct (batch_go ByVersion (clock c + 1) (st c) (stamps c) 0 (o :: rest)) as [[w' z']|[i a]] eqn:E.
    + destruct H as [p' [seen' [Hr [(Hso & Hg & Hz & _) Hn]]]]. rewrite Hr.
      cbn [fst snd batch_proj_ok rclass_eqb andb]. split; [reflexivity|].
      destruct (batch_go_sorted _ _ _ _ _ _ _ _ Hws Hzz E) as [Hw' Hz'].
      assert (Hp' : p' <> []) by (apply Hn; left; discriminate).
      unfold b_commit. destruct p' as [|e p'']; [congruence|]. set (p' := e :: p'') in *.
      set (m' := apply_writes (fun v : bytes => (v, b_ts s + 1)) (b_map s) p').
      assert (Hm' : sorted m') by (apply apply_writes_sorted; exact Hs).
      assert (Gm : forall k, get m' k = match get p' k with
                                        | Some (Some v) => Some (v, b_ts s + 1)
                                        | Some None => None
                                        | None => get (b_map s) k
                                        end).
      { intros k. unfold m'. apply apply_writes_get. exact Hso. }
      unfold badger_R. cbn [st stamps clock b_map b_ts]. repeat split.
      * apply sorted_ext; [exact Hw'|apply sorted_map_val; exact Hm'|].
        intros k. unfold b_store. cbn [b_map]. rewrite get_map_val, Gm, <- Hg. unfold b_txn_get.
        destruct (get p' k) as [[v|]|]; try reflexivity.
      * apply sorted_ext; [exact Hz'|apply sorted_map_val; exact Hm'|].
        intros k. unfold b_vers. cbn [b_map]. rewrite get_map_val, Gm, Hz, Hck.
        destruct (get p' k) as [[v|]|]; try reflexivity.
      * rewrite Hck. reflexivity.
      * exact Hm'.
    + destruct H as [k' [v' [Hr [_ Hn]]]]. rewrite Hr. cbn [fst snd batch_proj_ok rclass_eqb andb].
      split; [|reflexivity]. rewrite Nat.sub_0_r in Hn.
      destruct (nth_error (o :: rest) i) as [o'|]; [|contradiction].
      assert (Hi : (if Nat.eqb i 0 then Nat.eqb i 0 else true) = true) by (destruct (Nat.eqb i 0); reflexivity).
      rewrite Hi. cbn [andb].
      destruct (bop_is_putnx o') as [k|]; [|reflexivity]. destruct Hn as [-> ->].
      rewrite beqb_refl. cbn [andb]. destruct (canon_opt a); cbn [opt_eqb]; [apply beqb_refl|reflexivity].
Qed.

Definition to_item (e : bytes * (bytes * N)) : item := (fst e, fst (snd e), snd (snd e)).

Lemma badger_items s z (l : smap (bytes * N)) :
  sorted (b_map s) -> z = b_vers s -> (forall e, In e l -> In e (b_map s)) ->
  map to_item l = map (mk_item ByVersion z) (map (fun e => (fst e, fst (snd e))) l).
Proof.
  intros Hs -> Hin. rewrite map_map. apply map_ext_in. intros [k [v ver]] He.
  unfold to_item, mk_item, stamp_of, b_vers. cbn [fst snd]. rewrite get_map_val.
  rewrite (in_get (b_map s) k (v, ver) Hs (Hin _ He)). reflexivity.
Qed.

Lemma b_iter_prefix s c a b l : badger_R s c ->
  exists n, b_iter s a b l = firstn n (citems ByVersion c a b) /\ (min_count l (length (citems ByVersion c a b)) <= n)%nat.
Proof.
  intros (Hst & Hzs & _ & Hs). unfold b_iter. cbv beta zeta.
  set (m := map (fun e : bytes * (bytes * N) => (fst e, fst (snd e), snd (snd e))) (b_map s)).
  assert (Hm : ksorted (fun i : item => fst (fst i)) m).
  { unfold ksorted, m. eapply ssorted_map; [|exact Hs]. intros x y H. exact H. }
  assert (Hall : forall (p : bytes -> bool),
             filter (fun i : item => p (fst (fst i))) m =
             map (mk_item ByVersion (stamps c)) (filter (fun kv : bytes * bytes => p (fst kv)) (st c))).
  { intros p. unfold m. rewrite filter_map'. cbn [fst snd]. rewrite Hst. unfold b_store. rewrite filter_map'. cbn [fst].
    apply (badger_items s (stamps c)); [exact Hs|exact Hzs|]. intros e He. apply filter_In in He. tauto. }
  unfold citems, iter_all, is_fwd, b_is_rev. destruct (bcmp a b) eqn:C.
  - apply bcmp_eq in C. subst b.
    pose proof (range_fwd (fun i : item => fst (fst i)) m a a Hm) as Hr. cbv beta in Hr. unfold item in Hr |- *. rewrite Hr; fold item; rewrite (Hall (in_fwd a a)).
    assert (E1 : filter (fun kv : bytes * bytes => in_fwd a a (fst kv)) (st c) = []).
    { apply filter_all_false. intros x _. unfold in_fwd. rewrite bleb_negb_bltb. destruct (bltb (fst x) a); reflexivity. }
    assert (E2 : bwd (st c) a a = []).
    { pose proof (iter_all_same (st c) a) as H. unfold iter_all, is_fwd in H. rewrite bcmp_refl in H. exact H. }
    rewrite E1, E2. cbn [map length]. exists 0%nat. unfold lim, min_count.
    split; [destruct (l =? 0); [reflexivity|apply firstn_nil]|destruct (l =? 0); lia].
  - pose proof (range_fwd (fun i : item => fst (fst i)) m a b Hm) as Hr. cbv beta in Hr. unfold item in Hr |- *. rewrite Hr; fold item; rewrite (Hall (in_fwd a b)). unfold fwd.
    destruct (lim_firstn l (map (mk_item ByVersion (stamps c)) (filter (fun kv : bytes * bytes => in_fwd a b (fst kv)) (st c)))) as [n [Hn Hle]].
    exists n. split; [exact Hn|]. unfold min_count. exact Hle.
  - pose proof (range_bwd (fun i : item => fst (fst i)) m a b Hm) as Hr. cbv beta in Hr. unfold item in Hr |- *. rewrite Hr; fold item; rewrite (Hall (in_bwd a b)). unfold bwd. rewrite <- map_rev.
    destruct (lim_firstn l (map (mk_item ByVersion (stamps c)) (rev (filter (fun kv : bytes * bytes => in_bwd a b (fst kv)) (st c))))) as [n [Hn Hle]].
    exists n. split; [exact Hn|]. unfold min_count. exact Hle.
Qed.

Definition sbatch_fresh (l : list sbop) : Prop :=
  written_before_delcur (map (fun o => match o with
                                       | BPutNX k v t => PutIfNotExist k v t
                                       | BCAS k nv ov t => CAS k nv ov t
                                       | BPut k v t => Put k v t
                                       | BDel k => Del k
                                       | BDelCurH => DelCur [] [] 0
                                       end) l) [] = false.

(* a held DelCurrent after any write in the same batch is excluded, whatever key the iterator holds *)
Fixpoint no_delcur_after_write (l : list sbop) (written : bool) : bool :=
  match l with
  | [] => true
  | BDelCurH :: rest => negb written && no_delcur_after_write rest written
  | BDel _ :: rest => no_delcur_after_write rest written
  | _ :: rest => no_delcur_after_write rest true
  end.

Lemma resolve_fresh h : forall l ops seen, no_delcur_after_write l (negb (match seen with [] => true | _ => false end)) = true ->
  resolve_all h l = Some ops -> written_before_delcur ops seen = false.
Proof.
  induction l as [|o t IH]; intros ops seen Hl; cbn [resolve_all].
  - intros [= <-]. reflexivity.
  - destruct (resolve h o) as [x|] eqn:Ex; [|discriminate].
    destruct (resolve_all h t) as [r|] eqn:Er; [|discriminate]. intros [= <-].
    destruct o; cbn [resolve] in Ex; cbn [no_delcur_after_write] in Hl.
    + injection Ex as <-. cbn [written_before_delcur]. apply (IH r (k :: seen)); [exact Hl|reflexivity].
    + injection Ex as <-. cbn [written_before_delcur]. apply (IH r (k :: seen)); [exact Hl|reflexivity].
    + injection Ex as <-. cbn [written_before_delcur]. apply (IH r (k :: seen)); [exact Hl|reflexivity].
    + injection Ex as <-. cbn [written_before_delcur]. apply (IH r seen); [exact Hl|reflexivity].
    + destruct h as [i|]; [|discriminate]. injection Ex as <-. cbn [written_before_delcur].
      apply andb_true_iff in Hl as [Hw Hl]. destruct seen as [|k0 seen'].
      * cbn [existsb orb]. apply (IH r []); [exact Hl|reflexivity].
      * discriminate.
Qed.

Definition sim_badger : sim badger ByVersion.
Proof.
  refine (mk_sim badger ByVersion badger_R (fun _ => True) (fun ops => written_before_delcur ops [] = false)
            (fun l => no_delcur_after_write l false = true) _ _ _ _ _ _ _ _ _ _ _).
  - repeat split; constructor.
  - intros s c (Hst & _). cbn [a_dump badger]. symmetry. exact Hst.
  - intros s c k (Hst & _). cbn [a_get badger]. unfold b_get, get_result. rewrite Hst. unfold b_store.
    rewrite get_map_val. destruct (get (b_map s) k) as [[v ver]|]; reflexivity.
  - intros s c a b l HR. apply b_iter_prefix. exact HR.
  - intros; exact I.
  - intros s c ops HR Hok. destruct (badger_batch_sim s c ops) as [Hp Hrel]; [assumption..|]. split; [exact Hp|].
    destruct (batch_eval ByVersion c ops); [exact Hrel|].
    replace (fst (fst (a_batch badger s ops))) with s by (symmetry; exact Hrel). exact HR.
  - intros s k. reflexivity.
  - intros s i. reflexivity.
  - intros k. reflexivity.
  - intros i _. reflexivity.
  - intros h l ops Hl _ Hr. apply (resolve_fresh h l ops []); [exact Hl|exact Hr].
Defined.

(* ====================================================================================== *)
(* metrics wrapper                                                                         *)
(* ====================================================================================== *)

Definition sim_wrapper (A : adapter) (m : dcmode) (S : sim A m) : sim (wrapper A) m :=
  mk_sim (wrapper A) m (sim_R A m S) (item_ok A m S) (okb A m S) (okb_s A m S) (sim_init A m S)
    (sim_dump A m S) (sim_get A m S) (sim_iter A m S) (sim_item A m S) (sim_batch A m S)
    (sim_del A m S) (sim_delcur A m S) (okb_del A m S) (okb_delcur A m S) (okb_resolve A m S).

(* ---------- all or nothing, on the models themselves ---------- *)

Lemma mem_atomic s ops : snd (fst (mem_batch_run s ops)) <> ROk -> fst (fst (mem_batch_run s ops)) = s.
Proof. unfold mem_batch_run. destruct (mb_err _) as [[c cf]|]; cbn [fst snd]; [reflexivity|congruence]. Qed.

Lemma badger_atomic s ops : snd (fst (b_batch s ops)) <> ROk -> fst (fst (b_batch s ops)) = s.
Proof. unfold b_batch. destruct (b_run s [] 0 ops) as [p|[c cf]]; cbn [fst snd]; [congruence|reflexivity]. Qed.

Lemma tikv_atomic env s ops : snd (fst (t_batch_env env s ops)) <> ROk -> fst (fst (t_batch_env env s ops)) = s.
Proof.
  unfold t_batch_env. destruct (t_run s [] 1 ops) as [p|[c cf]]; cbn [fst snd]; [|reflexivity].
  destruct env; cbn [fst snd]; [congruence|reflexivity|reflexivity|reflexivity].
Qed.
