(* Each adapter model refines the engine contract: a simulation between adapter states and contract states under
   which point reads agree, iterators deliver a long-enough prefix of the contract's output, and batches agree with
   batch_eval under the C11 projection — outside the three recorded deviations (known_findings.d/C11.json). *)
From KB Require Import Base.Cases Model.Store Model.Adapters Model.C11Cases Proofs.Store Proofs.AdapterLists.
Local Open Scope N_scope.

Definition get_result (s : store) (k : bytes) : rclass * bytes :=
  match get s k with Some v => (ROk, v) | None => (RNotFound, []) end.

Definition item_bop (i : item) : bop := DelCur (fst (fst i)) (snd (fst i)) (snd i).

(* what "A refines the contract read as m" means; okb / okb_s / item_ok delimit the recorded deviations *)
Record sim (A : adapter) (m : dcmode) : Type := mk_sim {
  sim_R : a_state A -> cstore -> Prop;
  item_ok : item -> Prop;
  okb : list bop -> Prop;                 (* batches outside the deviation *)
  okb_s : list sbop -> Prop;              (* the same, before the held iterator is resolved *)
  sim_dump : forall s c, sim_R s c -> a_dump A s = st c;
  sim_get : forall s c k, sim_R s c -> a_get A s k = get_result (st c) k;
  sim_iter : forall s c a b l, sim_R s c ->
      exists n, a_iter A s a b l = firstn n (citems m c a b) /\ (min_count l (length (citems m c a b)) <= n)%nat;
  sim_item : forall s c a b i, sim_R s c -> In i (citems m c a b) -> item_ok i;
  sim_batch : forall s c ops, sim_R s c -> okb ops ->
      batch_proj_ok ops (batch_eval m c ops) (snd (fst (a_batch A s ops))) (snd (a_batch A s ops)) = true /\
      match batch_eval m c ops with
      | Applied c' => sim_R (fst (fst (a_batch A s ops))) c'
      | CondFailed _ _ => fst (fst (a_batch A s ops)) = s
      end;
  sim_del : forall s k, a_del A s k = (fst (fst (a_batch A s [Del k])), snd (fst (a_batch A s [Del k])));
  sim_delcur : forall s i, a_delcur A s i = a_batch A s [item_bop i];
  okb_del : forall k, okb [Del k];
  okb_delcur : forall i, item_ok i -> okb [item_bop i];
  okb_resolve : forall h l ops, okb_s l -> (forall i, h = Some i -> item_ok i) -> resolve_all h l = Some ops -> okb ops
}.

(* ====================================================================================== *)
(* shared facts about one batch step                                                       *)
(* ====================================================================================== *)

Lemma batch_eval_cons m c o rest :
  batch_eval m c (o :: rest) =
  match batch_go m (clock c + 1) (st c) (stamps c) 0 (o :: rest) with
  | inl (w, z) => Applied (mk_cstore w z (clock c + 1))
  | inr (i, a) => CondFailed i a
  end.
Proof. reflexivity. Qed.

Lemma nth_error_app_exact {X} (l1 : list X) x l2 : nth_error (l1 ++ x :: l2) (length l1) = Some x.
Proof. induction l1 as [|a t IH]; [reflexivity|exact IH]. Qed.

(* ====================================================================================== *)
(* memkv                                                                                   *)
(* ====================================================================================== *)

Definition no_empty_vals (s : store) : Prop := Forall (fun kv => snd kv <> []) s.

Definition bop_nonempty (o : bop) : Prop :=
  match o with
  | PutIfNotExist _ v _ | Put _ v _ => v <> []
  | CAS _ nv _ _ => nv <> []
  | Del _ => True
  | DelCur _ v _ => v <> []
  end.

Definition sbop_nonempty (o : sbop) : Prop :=
  match o with
  | BPutNX _ v _ | BPut _ v _ => v <> []
  | BCAS _ nv _ _ => nv <> []
  | _ => True
  end.

Lemma get_no_empty s k v : no_empty_vals s -> get s k = Some v -> v <> [].
Proof.
  intros H G. apply get_in in G. unfold no_empty_vals in H. rewrite Forall_forall in H. exact (H _ G).
Qed.

Lemma set_no_empty s k v : no_empty_vals s -> v <> [] -> no_empty_vals (set s k v).
Proof. intros H Hv. apply set_forall; assumption. Qed.

Lemma remove_no_empty s k : no_empty_vals s -> no_empty_vals (remove s k).
Proof.
  unfold no_empty_vals, remove. rewrite !Forall_forall. intros H x Hx. apply filter_In in Hx as [Hx _]. auto.
Qed.

Section MemBatch.
Variable s : store.
Hypothesis Hs : sorted s.

(* staging invariant: no error yet, opCount = index, and cache-then-store lookups are the contract's working copy *)
Definition mem_inv (b : mem_batch) (w : store) (idx : nat) : Prop :=
  mb_err b = None /\ mb_count b = idx /\ sorted (mb_cache b) /\ forall k, mem_bget (mb_cache b) s k = get w k.

Lemma mem_bget_set cache k cv k' :
  mem_bget (set cache k cv) s k' = if beqb k' k then cv else mem_bget cache s k'.
Proof.
  unfold mem_bget. destruct (beqb k' k) eqn:E.
  - apply beqb_eq in E. subst. rewrite get_set_same. reflexivity.
  - apply beqb_neq in E. rewrite get_set_other by exact E. reflexivity.
Qed.

Lemma get_set_if {V} (w : smap V) k v k' : get (set w k v) k' = if beqb k' k then Some v else get w k'.
Proof.
  destruct (beqb k' k) eqn:E.
  - apply beqb_eq in E. subst. apply get_set_same.
  - apply beqb_neq in E. apply get_set_other. exact E.
Qed.

Lemma get_remove_if {V} (w : smap V) k k' : get (remove w k) k' = if beqb k' k then None else get w k'.
Proof.
  destruct (beqb k' k) eqn:E.
  - apply beqb_eq in E. subst. apply get_remove_same.
  - apply beqb_neq in E. apply get_remove_other. exact E.
Qed.

Lemma mem_stage_latched b o : mb_err b <> None -> mem_stage s b o = b.
Proof. unfold mem_stage. destruct (mb_err b); [reflexivity|congruence]. Qed.

Lemma mem_fold_latched ops b : mb_err b <> None -> fold_left (mem_stage s) ops b = b.
Proof.
  revert b. induction ops as [|o rest IH]; intros b H; [reflexivity|]. cbn [fold_left].
  rewrite mem_stage_latched by exact H. apply IH. exact H.
Qed.

(* a step the contract accepts *)
Lemma mem_stage_ok b w z idx nc o w' z' :
  mem_inv b w idx -> bop_nonempty o -> bop_step ByValue nc w z o = inl (w', z') ->
  mem_inv (mem_stage s b o) w' (S idx).
Proof.
  intros (He & Hc & Hso & Hg) Hne. unfold mem_stage. rewrite He.
  destruct o as [k v t|k nv ov t|k v t|k|k v stamp]; cbn [bop_step].
  - rewrite Hg. destruct (get w k); [discriminate|]. intros [= <- <-].
    repeat split; cbn [mb_err mb_count mb_cache]; [congruence|apply set_sorted; exact Hso|].
    intros k'. rewrite mem_bget_set, get_set_if, Hg. reflexivity.
  - rewrite Hg. destruct (get w k) as [x|]; [|discriminate]. destruct (beqb x ov) eqn:E; [|discriminate].
    intros [= <- <-].
    repeat split; cbn [mb_err mb_count mb_cache]; [congruence|apply set_sorted; exact Hso|].
    intros k'. rewrite mem_bget_set, get_set_if, Hg. reflexivity.
  - intros [= <- <-].
    repeat split; cbn [mb_err mb_count mb_cache]; [congruence|apply set_sorted; exact Hso|].
    intros k'. rewrite mem_bget_set, get_set_if, Hg. reflexivity.
  - intros [= <- <-].
    repeat split; cbn [mb_err mb_count mb_cache]; [congruence|apply set_sorted; exact Hso|].
    intros k'. rewrite mem_bget_set, get_remove_if, Hg. reflexivity.
  - unfold delcur_holds. rewrite Hg. destruct (get w k) as [x|] eqn:G; [|discriminate].
    destruct (beqb x v) eqn:E; [|discriminate]. intros [= <- <-].
    repeat split; cbn [mb_err mb_count mb_cache]; [congruence|apply set_sorted; exact Hso|].
    intros k'. rewrite mem_bget_set, get_remove_if, Hg. reflexivity.
Qed.

(* a step the contract rejects: the error is latched with an acceptable payload *)
Lemma mem_stage_fail b w z idx nc o actual :
  mem_inv b w idx -> bop_nonempty o -> bop_step ByValue nc w z o = inr actual ->
  exists cf, mb_err (mem_stage s b o) = Some (RCond, cf) /\
             match cf with
             | None => True
             | Some (i', k', v') => i' = idx /\
                 match bop_is_putnx o with Some k => k' = k /\ v' = canon_opt actual | None => True end
             end.
Proof.
  intros (He & Hc & Hso & Hg) Hne. unfold mem_stage. rewrite He.
  destruct o as [k v t|k nv ov t|k v t|k|k v stamp]; cbn [bop_step bop_is_putnx].
  - rewrite Hg. destruct (get w k) as [x|]; [|discriminate]. intros [= <-].
    eexists. split; [reflexivity|]. cbn. auto.
  - rewrite Hg. destruct (get w k) as [x|].
    + destruct (beqb x ov) eqn:E; [discriminate|]. intros _. cbn [mb_err].
      eexists. split; [reflexivity|]. cbn. auto.
    + intros _. eexists. split; [reflexivity|]. cbn. auto.
  - discriminate.
  - discriminate.
  - unfold delcur_holds. rewrite Hg. cbn [bop_nonempty] in Hne. destruct (get w k) as [x|].
    + destruct (beqb x v) eqn:E; [discriminate|]. intros _. cbn [mb_err].
      exists None. split; [reflexivity|exact I].
    + intros _. cbn [mb_err]. destruct (beqb [] v) eqn:E.
      * apply beqb_eq in E. congruence.
      * exists None. split; [reflexivity|exact I].
Qed.

Lemma mem_fold_sim nc ops : forall b w z idx, mem_inv b w idx -> Forall bop_nonempty ops ->
  match batch_go ByValue nc w z idx ops with
  | inl (w', z') => exists b', fold_left (mem_stage s) ops b = b' /\ mem_inv b' w' (idx + length ops)
  | inr (i, actual) =>
      exists cf, mb_err (fold_left (mem_stage s) ops b) = Some (RCond, cf) /\
                 (idx <= i)%nat /\
                 match cf with
                 | None => True
                 | Some (i', k', v') => i' = i /\
                     match nth_error ops (i - idx) with
                     | Some o => match bop_is_putnx o with Some k => k' = k /\ v' = canon_opt actual | None => True end
                     | None => False
                     end
                 end
  end.
Proof.
  induction ops as [|o rest IH]; intros b w z idx Hinv Hne; cbn [batch_go fold_left].
  - exists b. split; [reflexivity|]. rewrite Nat.add_0_r. exact Hinv.
  - inversion Hne as [|? ? Ho Hrest]; subst.
    destruct (bop_step ByValue nc w z o) as [[w1 z1]|actual] eqn:E.
    + pose proof (mem_stage_ok _ _ _ _ _ _ _ _ Hinv Ho E) as Hinv1.
      specialize (IH (mem_stage s b o) w1 z1 (S idx) Hinv1 Hrest).
      destruct (batch_go ByValue nc w1 z1 (S idx) rest) as [[w' z']|[i a]].
      * destruct IH as [b' [Hb' Hi]]. exists b'. split; [exact Hb'|].
        cbn [length]. rewrite Nat.add_succ_r. exact Hi.
      * destruct IH as [cf [Herr [Hle Hcf]]]. exists cf. split; [exact Herr|]. split; [lia|].
        destruct cf as [[[i' k'] v']|]; [|exact I]. destruct Hcf as [-> Hcf]. split; [reflexivity|].
        replace (i - idx)%nat with (S (i - S idx)) by lia. exact Hcf.
    + destruct (mem_stage_fail _ _ _ _ _ _ _ Hinv Ho E) as [cf [Herr Hcf]].
      exists cf. rewrite mem_fold_latched by (rewrite Herr; discriminate). split; [exact Herr|]. split; [lia|].
      destruct cf as [[[i' k'] v']|]; [|exact I]. destruct Hcf as [-> Hcf]. split; [reflexivity|].
      rewrite Nat.sub_diag. exact Hcf.
Qed.

End MemBatch.

Definition mem_R (s : store) (c : cstore) : Prop := s = st c /\ sorted s /\ sorted (stamps c) /\ no_empty_vals s.

Lemma batch_go_no_empty m nc ops : forall w z idx w' z',
  no_empty_vals w -> Forall bop_nonempty ops -> batch_go m nc w z idx ops = inl (w', z') -> no_empty_vals w'.
Proof.
  induction ops as [|o rest IH]; intros w z idx w' z' Hw Hne; cbn [batch_go].
  - intros [= <- <-]. exact Hw.
  - inversion Hne as [|? ? Ho Hrest]; subst.
    destruct (bop_step m nc w z o) as [[w1 z1]|a] eqn:E; [|discriminate].
    apply IH; [|exact Hrest].
    destruct o as [k v t|k nv ov t|k v t|k|k v stamp]; cbn [bop_step] in E.
    + destruct (get w k); [discriminate|]. injection E as <- <-. apply set_no_empty; assumption.
    + destruct (get w k) as [x|]; [|discriminate]. destruct (beqb x ov); [|discriminate].
      injection E as <- <-. apply set_no_empty; assumption.
    + injection E as <- <-. apply set_no_empty; assumption.
    + injection E as <- <-. apply remove_no_empty; assumption.
    + destruct (delcur_holds m w z k v stamp); [|discriminate]. injection E as <- <-. apply remove_no_empty; assumption.
Qed.

Lemma mem_batch_sim s c ops : mem_R s c -> Forall bop_nonempty ops ->
  batch_proj_ok ops (batch_eval ByValue c ops) (snd (fst (mem_batch_run s ops))) (snd (mem_batch_run s ops)) = true /\
  match batch_eval ByValue c ops with
  | Applied c' => mem_R (fst (fst (mem_batch_run s ops))) c'
  | CondFailed _ _ => fst (fst (mem_batch_run s ops)) = s
  end.
Proof.
  intros (-> & Hs & Hz & Hne) Hops. destruct ops as [|o rest].
  - cbn. repeat split; assumption.
  - rewrite batch_eval_cons. unfold mem_batch_run.
    assert (Hinv0 : mem_inv (st c) (mk_mem_batch [] 0 None) (st c) 0).
    { repeat split; [constructor|reflexivity]. }
    pose proof (mem_fold_sim (st c) Hs (clock c + 1) (o :: rest) _ _ (stamps c) _ Hinv0 Hops) as H.
    destruct (batch_go ByValue (clock c + 1) (st c) (stamps c) 0 (o :: rest)) as [[w' z']|[i a]] eqn:E.
    + destruct H as [b' [Hb' (He & _ & Hso & Hg)]]. rewrite Hb', He. cbn [fst snd batch_proj_ok rclass_eqb andb].
      split; [reflexivity|].
      destruct (batch_go_sorted _ _ _ _ _ _ _ _ Hs Hz E) as [Hw' Hz'].
      assert (Heq : mem_apply (st c) (mb_cache b') = w').
      { apply sorted_ext; [apply apply_writes_sorted; exact Hs|exact Hw'|].
        intros k. unfold mem_apply. rewrite apply_writes_get by exact Hso. rewrite <- Hg. unfold mem_bget.
        destruct (get (mb_cache b') k) as [[v|]|]; reflexivity. }
      rewrite Heq. repeat split; cbn [st stamps]; try assumption.
      eapply batch_go_no_empty; eauto.
    + destruct H as [cf [Herr [_ Hcf]]]. rewrite Herr. cbn [fst snd batch_proj_ok rclass_eqb andb].
      split; [|reflexivity].
      destruct cf as [[[i' k'] v']|]; [|reflexivity]. destruct Hcf as [-> Hcf]. rewrite Nat.sub_0_r in Hcf.
      destruct (Nat.eqb i 0) eqn:Ei; cbn [andb].
      * destruct (nth_error (o :: rest) i) as [o'|]; [|contradiction].
        destruct (bop_is_putnx o') as [k|]; [|reflexivity]. destruct Hcf as [-> ->].
        rewrite beqb_refl. cbn [andb]. destruct (canon_opt a); cbn [opt_eqb]; [apply beqb_refl|reflexivity].
      * destruct (nth_error (o :: rest) i) as [o'|]; [|contradiction].
        destruct (bop_is_putnx o') as [k|]; [|reflexivity]. destruct Hcf as [-> ->].
        rewrite beqb_refl. cbn [andb]. destruct (canon_opt a); cbn [opt_eqb]; [apply beqb_refl|reflexivity].
Qed.

(* the iterator: everything the interval holds, the limit is ignored *)
Lemma mem_iter_all s a b l : sorted s -> mem_iter s a b l = iter_all s a b.
Proof.
  intros Hs. unfold mem_iter, iter_all, fwd, bwd. destruct (is_fwd a b).
  - apply (range_fwd fst). exact Hs.
  - apply (range_bwd fst). exact Hs.
Qed.

Lemma min_count_le l n : (min_count l n <= n)%nat.
Proof. unfold min_count. destruct (l =? 0); lia. Qed.

Lemma resolve_nonempty h : forall l ops, Forall sbop_nonempty l -> (forall i, h = Some i -> snd (fst i) <> []) ->
  resolve_all h l = Some ops -> Forall bop_nonempty ops.
Proof.
  induction l as [|o t IH]; intros ops Hl Hh; cbn [resolve_all].
  - intros [= <-]. constructor.
  - inversion Hl as [|? ? Ho Ht]; subst.
    destruct (resolve h o) as [x|] eqn:Ex; [|discriminate].
    destruct (resolve_all h t) as [r|] eqn:Er; [|discriminate]. intros [= <-].
    constructor; [|apply IH; auto].
    destruct o; cbn [resolve] in Ex; try (injection Ex as <-; exact Ho).
    destruct h as [i|]; [|discriminate]. injection Ex as <-. cbn [bop_nonempty]. apply Hh. reflexivity.
Qed.

Lemma citems_in m c a b i : In i (citems m c a b) -> In (item_kv i) (st c).
Proof.
  unfold citems. intros H. apply in_map_iff in H as [kv [<- Hkv]].
  apply iter_all_in in Hkv as [Hkv _]. unfold item_kv, mk_item. cbn [fst snd]. destruct kv; exact Hkv.
Qed.

Definition sim_memkv : sim memkv ByValue.
Proof.
  refine (mk_sim memkv ByValue mem_R (fun i => snd (fst i) <> []) (Forall bop_nonempty) (Forall sbop_nonempty)
            _ _ _ _ _ _ _ _ _ _).
  - intros s c (-> & _). reflexivity.
  - intros s c k (-> & _). reflexivity.
  - intros s c a b l (-> & Hs & _). cbn [a_iter memkv]. rewrite mem_iter_all by exact Hs.
    exists (length (citems ByValue c a b)). rewrite firstn_all. split; [|apply min_count_le].
    unfold with_stamp0, citems, mk_item. reflexivity.
  - intros s c a b i (-> & _ & _ & Hne) Hin. apply citems_in in Hin.
    unfold no_empty_vals in Hne. rewrite Forall_forall in Hne. apply Hne in Hin. exact Hin.
  - intros s c ops HR Hok. apply mem_batch_sim; assumption.
  - intros s k. cbn [a_del a_batch memkv]. destruct (mem_batch_run s [Del k]) as [[s' c] cf]. reflexivity.
  - intros s i. reflexivity.
  - intros k. repeat constructor.
  - intros i Hi. repeat constructor. exact Hi.
  - intros h l ops Hl Hh. apply resolve_nonempty; assumption.
Defined.
