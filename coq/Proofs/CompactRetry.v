(* C07: a pass in which one iterator step fails and the scan worker runs again (Model/C07Cases.v: compact_all_f).
   The truncated run is a prefix of a full run - the invariant of C07_pass holds after every record - and the second
   run is a pass over the store the first one left: deletes stay safe, reads at every revision >= R stay unchanged. *)
From KB Require Import Base.Cases Model.Coder Model.CompactSys Model.C07Cases Proofs.Coder
  Proofs.CompactSafe Proofs.CompactReads Proofs.CompactWf Proofs.CompactPass Proofs.CompactRanges.
From Coq Require Import Sorted.
Local Open Scope N_scope.

(* the invariant of the worker loop after any prefix of the snapshot *)
Lemma wloop_prefix_inv Wf R U snap : forall pre done rest s,
  snap = done ++ pre ++ rest -> snap_ok snap -> linv Wf R U snap done (pre ++ rest) s ->
  dinv R U (w_d (wloop (cfg R) pre s)) /\ (Wf -> winv (w_d (wloop (cfg R) pre s))).
Proof.
  induction pre as [|x t IH]; intros done rest s Esnap Hok Hl; cbn [wloop app] in *; [split; apply Hl|].
  change (need_more (cfg R) (w_out s)) with true in *. cbn [negb] in *.
  destruct (d_dead (w_d s)) eqn:Edead; [split; apply Hl|].
  assert (E2 : snap = (done ++ [x]) ++ t ++ rest) by (rewrite <- app_assoc; exact Esnap).
  apply (IH (done ++ [x]) rest _ E2 Hok).
  apply step_inv; assumption.
Qed.

(* one range, the worker stopped after `seen` records *)
Lemma range_trunc_seq R U lo hi d seen :
  dinv R U d -> store_ok (d_store d) -> adds_of d = [] ->
  dinv R U (compact_range_trunc R lo hi d seen) /\
  tstep (key_in lo hi) d (compact_range_trunc R lo hi d seen) /\
  (wfd (d_store d) -> wfd (d_store (compact_range_trunc R lo hi d seen))).
Proof.
  intros Hd Hok Ha. unfold compact_range_trunc in *. change (mkCfg R true 0 0 []) with (cfg R) in *.
  set (snap := sort_by rec_ltb (filter (in_range lo hi) (d_store d))) in *.
  set (d0 := mkD (d_store d) (d_ghost d) [] (d_oc d) (d_dead d) (d_trace d)) in *.
  assert (Hsnap_in : forall y, In y snap -> In y (d_store d) /\ in_range lo hi y = true).
  { intros y Hy. apply in_sort_by in Hy. apply filter_In in Hy. exact Hy. }
  assert (Hd0 : dinv R U d0) by (destruct Hd; constructor; assumption).
  assert (Hl : linv (wfd (d_store d)) R U snap [] snap (init_w d0)).
  { constructor; cbn [init_w w_d w_pr w_pk w_pv d0 d_store].
    - exact Hd0.
    - intros Hw. split; [exact Ha|exact Hw].
    - intros y Hy _. apply Hsnap_in. exact Hy.
    - intros k r v Hin _ (y & Hy & Hk). apply in_sort_by. apply filter_In. split; [exact Hin|].
      destruct (Hsnap_in y Hy) as [_ Hr]. unfold in_range in *. cbn [rkey]. rewrite <- Hk. exact Hr.
    - lia.
    - intros k r v []. }
  assert (Esplit : snap = [] ++ firstn seen snap ++ skipn seen snap) by (cbn [app]; symmetry; apply firstn_skipn).
  rewrite Esplit in Hl at 2.
  destruct (wloop_prefix_inv (wfd (d_store d)) R U snap (firstn seen snap) [] (skipn seen snap) (init_w d0) Esplit
              (snap_ok_range lo hi _ Hok) Hl) as (H1 & H2).
  assert (T : tstep (key_in lo hi) (w_d (init_w d0)) (w_d (wloop (cfg R) (firstn seen snap) (init_w d0)))).
  { apply wloop_tsub; [exact Ha|]. intros x Hx. assert (Hx' : In x snap) by (rewrite <- (firstn_skipn seen snap); apply in_or_app; left; exact Hx).
    destruct (Hsnap_in x Hx') as [_ Hr]. exact Hr. }
  split; [exact H1|]. split; [exact T|]. intros Hw. apply H2. exact Hw.
Qed.

(* all ranges, the n-th iterator step failing *)
Lemma compact_all_f_seq R U : forall ranges n d,
  dinv R U d -> store_ok (d_store d) -> adds_of d = [] ->
  dinv R U (compact_all_f R ranges n d) /\
  tstep (touched ranges) d (compact_all_f R ranges n d) /\
  (wfd (d_store d) -> wfd (d_store (compact_all_f R ranges n d))).
Proof.
  induction ranges as [|[lo hi] ranges IH]; intros n d Hd Hok Ha; cbn [compact_all_f] in *.
  - split; [exact Hd|]. split; [apply tstep_refl; exact Ha|auto].
  - (* the range runs once, or - the failing step falling into it - a head of it and then once *)
    assert (Hone : forall d1, dinv R U d1 -> store_ok (d_store d1) -> adds_of d1 = [] ->
                   tstep (key_in lo hi) d d1 -> (wfd (d_store d) -> wfd (d_store d1)) ->
                   forall m,
                   dinv R U (compact_all_f R ranges m (compact_range R 0 lo hi d1)) /\
                   tstep (touched ((lo, hi) :: ranges)) d (compact_all_f R ranges m (compact_range R 0 lo hi d1)) /\
                   (wfd (d_store d) -> wfd (d_store (compact_all_f R ranges m (compact_range R 0 lo hi d1))))).
    { intros d1 Hd1 Hok1 Ha1 T1 W1 m.
      destruct (range_seq R U lo hi d1 Hd1 Hok1 Ha1) as (A1 & A2 & A4).
      pose proof A2 as (A2a & _ & A3).
      destruct (IH m (compact_range R 0 lo hi d1) A1 (tsub_ok _ _ _ A3 Hok1) A2a) as (B1 & B2 & B3).
      split; [exact B1|]. split; [|intros Hw; apply B3, A4, W1, Hw].
      assert (Hin : forall k, key_in lo hi k -> touched ((lo, hi) :: ranges) k).
      { intros k Hk. exists (lo, hi). split; [left; reflexivity|exact Hk]. }
      eapply tstep_trans; [eapply tstep_weaken; [exact Hin|exact T1]|].
      eapply tstep_trans; [eapply tstep_weaken; [exact Hin|exact A2]|].
      eapply tstep_weaken; [|exact B2]. intros k (lh & Hlh & Hk). exists lh. split; [right; exact Hlh|exact Hk]. }
    assert (Hplain : forall m,
                   dinv R U (compact_all_f R ranges m (compact_range R 0 lo hi d)) /\
                   tstep (touched ((lo, hi) :: ranges)) d (compact_all_f R ranges m (compact_range R 0 lo hi d)) /\
                   (wfd (d_store d) -> wfd (d_store (compact_all_f R ranges m (compact_range R 0 lo hi d))))).
    { intros m. apply (Hone d Hd Hok Ha); [apply tstep_refl; exact Ha|auto]. }
    destruct (n =? 0); [apply Hplain|].
    destruct (n <=? N.of_nat (length (filter (in_range lo hi) (d_store d))) + 1); [|apply Hplain].
    destruct (range_trunc_seq R U lo hi d (N.to_nat (n - 1)) Hd Hok Ha) as (T1 & T2 & T3).
    pose proof T2 as (T2a & _ & T2c).
    apply (Hone _ T1 (tsub_ok _ _ _ T2c Hok) T2a T2 T3).
Qed.

(* C07_pass for a pass with a failed iterator step and the worker's retry, no concurrent writers, any outcomes of the
   engine deletes: every delete safe, reads at every revision >= R unchanged, nothing appears, nothing outside the
   ranges is touched, the relaxed well-formedness is kept *)
Theorem compact_all_f_safe R V ranges n (os : list outcome) :
  let d := compact_all_f R ranges n (init_d V (map (fun o => ([], o)) os)) in
  store_ok V -> uniq_ver V ->
  Forall (fun s => ds_safe s = true) (d_trace d) /\
  veq R (d_store d) V /\
  (forall y, In y (d_store d) -> In y V) /\
  (forall y, In y V -> In y (d_store d) \/ touched ranges (rkey y)) /\
  (wfd V -> wfd (d_store d)).
Proof.
  cbv zeta. intros Hok Hu.
  set (oc := map (fun o : outcome => ([] : list rec, o)) os) in *.
  assert (Hnil : flat_map fst oc = []) by (unfold oc; clear; induction os as [|o os IH]; [reflexivity|exact IH]).
  assert (Hd0 : dinv R V (init_d V oc)).
  { constructor; cbn [init_d d_store d_ghost d_oc d_trace]; auto.
    - apply cinv_refl.
    - intros k r v Hin. unfold adds_of in Hin. cbn [d_oc init_d] in Hin. rewrite Hnil in Hin. destruct Hin. }
  destruct (compact_all_f_seq R V ranges n (init_d V oc) Hd0 Hok) as ([Hc Hu' Hw Hoc Hs] & (_ & Hg & f & E & Hf) & Hwf); [exact Hnil|].
  cbn [init_d d_store d_ghost] in *. rewrite Hg in Hc.
  split; [exact Hs|]. split; [|split; [|split]].
  - apply cinv_veq; assumption.
  - intros y Hy. rewrite E in Hy. apply filter_In in Hy as [Hy _]. exact Hy.
  - intros y Hy. destruct (f y) eqn:Ef; [left; rewrite E; apply filter_In; split; assumption|right; apply Hf; assumption].
  - exact Hwf.
Qed.

Lemma compact_all_f_filter R V ranges n (os : list outcome) :
  let d := compact_all_f R ranges n (init_d V (map (fun o => ([], o)) os)) in
  store_ok V -> uniq_ver V ->
  d_ghost d = V /\ veq R (d_store d) V /\ (wfd V -> wfd (d_store d)) /\
  exists f, d_store d = filter f V /\ forall y, In y V -> f y = false -> touched ranges (rkey y).
Proof.
  cbv zeta. intros Hok Hu.
  set (oc := map (fun o : outcome => ([] : list rec, o)) os) in *.
  assert (Hnil : flat_map fst oc = []) by (unfold oc; clear; induction os as [|o os IH]; [reflexivity|exact IH]).
  assert (Hd0 : dinv R V (init_d V oc)).
  { constructor; cbn [init_d d_store d_ghost d_oc d_trace]; auto.
    - apply cinv_refl.
    - intros k r v Hin. unfold adds_of in Hin. cbn [d_oc init_d] in Hin. rewrite Hnil in Hin. destruct Hin. }
  destruct (compact_all_f_seq R V ranges n (init_d V oc) Hd0 Hok) as ([Hc Hu' Hw Hoc Hs] & (_ & Hg & f & E & Hf) & Hwf); [exact Hnil|].
  cbn [init_d d_store d_ghost] in *. split; [exact Hg|]. rewrite Hg in Hc.
  split; [apply cinv_veq; assumption|]. split; [exact Hwf|]. exists f. split; assumption.
Qed.
