(* C07: the boolean validity of a case (Model/C07Valid.v) implies the hypotheses of the oracle-soundness theorem;
   the theorem restated on what the shards evaluate. *)
From KB Require Import Base.Cases Model.Coder Model.CompactSys Model.C07Cases Model.C07Valid Proofs.Coder
  Proofs.CompactSafe Proofs.CompactReads Proofs.CompactWf Proofs.CompactPass Proofs.CompactRanges Proofs.CompactBorders
  Proofs.CompactExpiry Proofs.CompactRetry Proofs.CompactWriters Proofs.CompactOracle Proofs.CompactOracleW.
From Coq Require Import Sorted.
Local Open Scope N_scope.

Lemma top_verb_spec V k r v : top_verb V k r v = true -> top_ver V k r v.
Proof.
  unfold top_verb. intros H. apply andb_true_iff in H as [H1 H2]. apply memb_spec in H1. split; [exact H1|].
  intros r' v' Hin. rewrite forallb_forall in H2. specialize (H2 _ Hin). cbn in H2. rewrite beqb_refl in H2. cbn in H2.
  apply N.leb_le in H2. exact H2.
Qed.

Lemma no_verb_spec V k : no_verb V k = true -> no_ver V k.
Proof.
  unfold no_verb. intros H r v Hin. rewrite forallb_forall in H. specialize (H _ Hin). cbn in H. rewrite beqb_refl in H. discriminate.
Qed.

Lemma is_tomb_spec v : is_tomb v = true <-> v = tombstone.
Proof. unfold is_tomb. apply beqb_eq. Qed.

Lemma kwfb_spec V k : kwfb V k = true -> kwf V k.
Proof.
  unfold kwfb. intros H. apply andb_true_iff in H as [H1 H3]. rewrite forallb_forall in H1. split; [|split].
  - intros r Hin. specialize (H1 _ Hin). cbn in H1. rewrite beqb_refl in H1. cbn in H1.
    apply existsb_exists in H1 as ([k2 r2 d2|k2 r2 v] & Hy & Hc); [discriminate|].
    repeat (apply andb_true_iff in Hc as [Hc ?]). exists v. split; [apply top_verb_spec; assumption|].
    intros E. apply is_tomb_spec in E. rewrite E in H0. discriminate.
  - intros r Hin. specialize (H1 _ Hin). cbn in H1. rewrite beqb_refl in H1. cbn in H1.
    apply orb_true_iff in H1 as [H|H]; [left; apply no_verb_spec; exact H|right; apply top_verb_spec; exact H].
  - intros Hn.
    assert (Hni : no_idxb V k = true).
    { unfold no_idxb. apply forallb_forall. intros [k' r' d'|k' r' v'] Hy; [|reflexivity].
      destruct (beqb k k') eqn:E; [|reflexivity]. apply beqb_eq in E. subst k'. exfalso. exact (Hn _ _ Hy). }
    rewrite Hni in H3. cbn in H3. apply orb_true_iff in H3 as [H|H]; [left; apply no_verb_spec; exact H|right].
    apply existsb_exists in H as ([k2 r2 d2|k2 r2 v] & Hy & Hc); [discriminate|].
    apply andb_true_iff in Hc as [_ Hc]. exists r2. apply top_verb_spec. exact Hc.
Qed.

Lemma dedup_covers : forall V last x, In x V -> In (rkey x) (dedup_keys last V) \/ last = Some (rkey x).
Proof.
  induction V as [|y t IH]; intros last x Hin; [destruct Hin|].
  assert (Hnew : In (rkey x) (rkey y :: dedup_keys (Some (rkey y)) t)).
  { destruct Hin as [->|Hin]; [left; reflexivity|]. destruct (IH (Some (rkey y)) x Hin) as [H|H]; [right; exact H|left; congruence]. }
  cbn [dedup_keys]. destruct last as [k0|]; [|left; exact Hnew].
  destruct (beqb k0 (rkey y)) eqn:E; [|left; exact Hnew].
  apply beqb_eq in E. destruct Hin as [->|Hin]; [right; congruence|]. apply IH. exact Hin.
Qed.

Lemma wfdb_spec V : wfdb V = true -> wfd V.
Proof.
  unfold wfdb. intros H. apply andb_true_iff in H as [H H3]. apply andb_true_iff in H as [H1 H2]. split; [|split].
  - intros k r d r' d' Ha Hb. unfold idx_uniqueb in H1. rewrite forallb_forall in H1. specialize (H1 _ Ha).
    rewrite forallb_forall in H1. specialize (H1 _ Hb). cbn in H1. rewrite beqb_refl in H1. cbn in H1.
    apply andb_true_iff in H1 as [E1 E2]. apply N.eqb_eq in E1. apply Bool.eqb_prop in E2. auto.
  - intros k r v v' Ha Hb. unfold uniq_verb in H2. rewrite forallb_forall in H2. specialize (H2 _ Ha).
    rewrite forallb_forall in H2. specialize (H2 _ Hb). cbn in H2. rewrite beqb_refl, N.eqb_refl in H2. cbn in H2.
    apply beqb_eq in H2. exact H2.
  - intros k. destruct (existsb (fun x => beqb (rkey x) k) V) eqn:E.
    + apply existsb_exists in E as (x & Hx & Hk). apply beqb_eq in Hk. rewrite forallb_forall in H3.
      destruct (dedup_covers V None x Hx) as [Hd|Hd]; [|discriminate]. rewrite Hk in Hd. apply kwfb_spec. apply H3. exact Hd.
    + assert (Hno : forall x, In x V -> rkey x <> k).
      { intros x Hx Hk. assert (existsb (fun x0 => beqb (rkey x0) k) V = true); [|congruence].
        apply existsb_exists. exists x. split; [exact Hx|apply beqb_eq; exact Hk]. }
      split; [|split].
      * intros r Hin. exfalso. exact (Hno _ Hin eq_refl).
      * intros r Hin. exfalso. exact (Hno _ Hin eq_refl).
      * intros _. left. intros r v Hin. exact (Hno _ Hin eq_refl).
Qed.

Lemma freshb_spec V n : freshb V n = true -> fresh V n.
Proof.
  unfold freshb. intros H. apply andb_true_iff in H as [H1 H2]. apply N.leb_le in H1. rewrite forallb_forall in H2.
  split; [exact H1|]. split; [intros k r v Hin|intros k r d Hin]; specialize (H2 _ Hin); cbn in H2; apply N.ltb_lt in H2; exact H2.
Qed.

Lemma rd_okb_spec R cur rd : rd_okb R cur rd = true -> rd_ok R cur rd.
Proof.
  destruct rd as [k rev|lo hi rev lim]; cbn [rd_okb rd_ok]; intros H.
  - apply orb_true_iff in H as [H|H]; [left; apply N.eqb_eq; exact H|right; apply N.leb_le; exact H].
  - apply N.leb_le. exact H.
Qed.

Lemma op_okb_spec n op : op_okb n op = true -> op_ok n op.
Proof.
  assert (Hnt : forall v, negb (is_tomb v) = true -> v <> tombstone).
  { intros v H E. apply is_tomb_spec in E. rewrite E in H. discriminate. }
  destruct op as [k v|k v prev|k e]; cbn [op_okb op_ok]; intros H.
  - apply Hnt. exact H.
  - apply andb_true_iff in H as [H1 H2]. split; [apply Hnt; exact H1|apply N.leb_le; exact H2].
  - apply N.leb_le. exact H.
Qed.

Lemma seqb_spec v : seqb v = true -> exists os, v7_oc v = map (fun o => ([], o)) os.
Proof.
  unfold seqb. induction (v7_oc v) as [|[adds o] l IH]; intros H; [exists []; reflexivity|].
  cbn [forallb fst] in H. apply andb_true_iff in H as [H1 H2]. destruct adds; [|discriminate].
  destruct (IH H2) as (os & ->). exists (o :: os). reflexivity.
Qed.

Lemma variant_validb_spec p sk V reads v :
  seqb v = true -> variant_validb V reads v = true -> variant_valid p sk V reads v.
Proof.
  intros Hs H. unfold variant_validb in H. repeat (apply andb_true_iff in H as [H ?]). constructor.
  - apply seqb_spec. exact Hs.
  - apply N.leb_le. exact H.
  - apply Forall_forall. intros rd Hrd. rewrite forallb_forall in H3. apply rd_okb_spec. apply H3. exact Hrd.
  - apply freshb_spec. exact H2.
  - apply N.leb_le. exact H1.
  - apply Forall_forall. intros q Hq. rewrite forallb_forall in H0. apply op_okb_spec. apply H0. exact Hq.
Qed.

Theorem c07_validb_spec c : c07_validb c = true -> c07_valid (c07_seq_part c).
Proof.
  unfold c07_validb. intros H. repeat (apply andb_true_iff in H as [H ?]).
  constructor; cbn [c07_seq_part c7_prefix c7_skipped c7_pre c7_reads c7_variants].
  - apply alphab_spec. exact H.
  - apply Forall_forall. intros s Hs. rewrite forallb_forall in H4. apply alphab_spec. apply H4. exact Hs.
  - intros x Hx. rewrite forallb_forall in H3. specialize (H3 _ Hx). apply andb_true_iff in H3 as [A B].
    split; [apply alphab_spec; exact A|]. intros E. rewrite E in B. discriminate.
  - intros k r v Hin. rewrite forallb_forall in H2. specialize (H2 _ Hin). cbn in H2. apply N.ltb_lt in H2. exact H2.
  - apply wfdb_spec. exact H1.
  - apply Forall_forall. intros v Hv. apply filter_In in Hv as [Hv Hs]. rewrite forallb_forall in H0. specialize (H0 _ Hv).
    rewrite Hs in H0. cbn in H0. apply variant_validb_spec; assumption.
Qed.

Lemma c07_check_seq_part c : c07_check c = true -> c07_check (c07_seq_part c) = true.
Proof.
  unfold c07_check. cbn [c07_seq_part c7_prefix c7_skipped c7_pre c7_reads c7_variants c7_borders c7_before]. intros H.
  apply andb_true_iff in H as [H Hv]. rewrite H. cbn [andb]. apply forallb_forall. intros v Hin.
  apply filter_In in Hin as [Hin _]. rewrite forallb_forall in Hv. apply Hv. exact Hin.
Qed.

(* ---------- variants with interleaved writers ---------- *)

Lemma env1_apply x S : apply_env [x] S = env1 x S.
Proof. destruct x; reflexivity. Qed.

Lemma fresh_addsb_spec : forall A S, fresh_addsb A S = true -> fresh_adds A S.
Proof.
  induction A as [|x A IH]; intros S H; [exact I|]. cbn [fresh_addsb fresh_adds] in *.
  apply andb_true_iff in H as [H H3]. apply andb_true_iff in H as [H1 H2].
  split; [intros E; rewrite E in H1; discriminate|]. split.
  - destruct x as [|k r v]; [exact I|]. apply andb_true_iff in H2 as [Hr Hfree]. split; [apply N.ltb_lt; exact Hr|].
    intros v' Hin. rewrite forallb_forall in Hfree. specialize (Hfree _ Hin). cbn in Hfree.
    rewrite beqb_refl, N.eqb_refl in Hfree. discriminate.
  - rewrite <- env1_apply. apply IH. exact H3.
Qed.

Lemma uniq_verb_spec V : uniq_verb V = true -> uniq_ver V.
Proof.
  intros H2 k r v v' Ha Hb. unfold uniq_verb in H2. rewrite forallb_forall in H2. specialize (H2 _ Ha).
  rewrite forallb_forall in H2. specialize (H2 _ Hb). cbn in H2. rewrite beqb_refl, N.eqb_refl in H2. cbn in H2.
  apply beqb_eq in H2. exact H2.
Qed.

Lemma variant_validb_w_spec V reads v : variant_validb_w V reads v = true -> variant_valid_w V reads v.
Proof.
  intros H. unfold variant_validb_w in H. repeat (apply andb_true_iff in H as [H ?]). constructor.
  - apply N.eqb_eq. exact H.
  - apply fresh_addsb_spec. exact H8.
  - apply uniq_verb_spec. exact H7.
  - intros k r x Hin. rewrite forallb_forall in H6. specialize (H6 _ Hin). cbn in H6. apply N.ltb_lt. exact H6.
  - apply N.leb_le. exact H5.
  - apply Forall_forall. intros rd Hrd. rewrite forallb_forall in H4. apply rd_okb_spec. apply H4. exact Hrd.
  - apply wfdb_spec. exact H3.
  - apply freshb_spec. exact H2.
  - apply N.leb_le. exact H1.
  - apply Forall_forall. intros q Hq. rewrite forallb_forall in H0. apply op_okb_spec. apply H0. exact Hq.
Qed.

Theorem c07_validb_full_spec c : c07_validb_full c = true -> c07_valid_full c.
Proof.
  unfold c07_validb_full. intros H. repeat (apply andb_true_iff in H as [H ?]).
  constructor.
  - apply alphab_spec. exact H.
  - apply Forall_forall. intros s Hs. rewrite forallb_forall in H4. apply alphab_spec. apply H4. exact Hs.
  - intros x Hx. rewrite forallb_forall in H3. specialize (H3 _ Hx). apply andb_true_iff in H3 as [A B].
    split; [apply alphab_spec; exact A|]. intros E. rewrite E in B. discriminate.
  - intros k r v Hin. rewrite forallb_forall in H2. specialize (H2 _ Hin). cbn in H2. apply N.ltb_lt in H2. exact H2.
  - apply wfdb_spec. exact H1.
  - apply Forall_forall. intros v Hv. rewrite forallb_forall in H0. specialize (H0 _ Hv).
    destruct (seqb v) eqn:Es; [left; apply variant_validb_spec; assumption|right; apply variant_validb_w_spec; exact H0].
Qed.

(* what the shards evaluate is covered by the theorem: a case that passes c07_check_v (valid and reproduced by the model)
   has nothing for the oracle to report - on any of its variants, with or without interleaved writers *)
Theorem c07_oracle_sound_v c : c07_check_v c = true -> c07_oracle c = None.
Proof.
  unfold c07_check_v. intros H. apply andb_true_iff in H as [Hv Hc].
  apply c07_oracle_sound_full; [apply c07_validb_full_spec; exact Hv|exact Hc].
Qed.
