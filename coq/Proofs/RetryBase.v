(* Basic lemmas for RetrySys: thread table, slots, version lists, the engine commit. *)
From KB Require Import Base.Cases Model.RetrySys.
From Coq Require Import Sorted.
Local Open Scope N_scope.

(* ---------- thread table ---------- *)
Lemma get_set_same t th l : get_thread t (set_thread t th l) = Some th.
Proof.
  induction l as [|[t' th'] l IH]; simpl.
  - rewrite N.eqb_refl. reflexivity.
  - destruct (t =? t') eqn:E; simpl; [rewrite N.eqb_refl; reflexivity|rewrite E; exact IH].
Qed.

Lemma get_set_other t t' th l : t' <> t -> get_thread t' (set_thread t th l) = get_thread t' l.
Proof.
  intros Hne. induction l as [|[t2 th2] l IH]; simpl.
  - destruct (t' =? t) eqn:E; [apply N.eqb_eq in E; contradiction|reflexivity].
  - destruct (t =? t2) eqn:E.
    + apply N.eqb_eq in E. subst t2. simpl.
      destruct (t' =? t) eqn:E2; [apply N.eqb_eq in E2; contradiction|reflexivity].
    + simpl. destruct (t' =? t2); [reflexivity|exact IH].
Qed.

Lemma get_set t t' th l :
  get_thread t' (set_thread t th l) = if t' =? t then Some th else get_thread t' l.
Proof.
  destruct (t' =? t) eqn:E.
  - apply N.eqb_eq in E. subst. apply get_set_same.
  - apply N.eqb_neq in E. apply get_set_other. exact E.
Qed.

Lemma get_thread_in t th l : get_thread t l = Some th -> In (t, th) l.
Proof.
  induction l as [|[t' th'] l IH]; simpl; [discriminate|].
  destruct (t =? t') eqn:E.
  - apply N.eqb_eq in E. intros H; injection H as ->. left. subst. reflexivity.
  - intros H. right. apply IH. exact H.
Qed.

(* ---------- slots ---------- *)
Lemma slot_set_same f r x : slot_set f r x r = x.
Proof. unfold slot_set. rewrite N.eqb_refl. reflexivity. Qed.
Lemma slot_set_other f r x r' : r' <> r -> slot_set f r x r' = f r'.
Proof. intros H. unfold slot_set. apply N.eqb_neq in H. rewrite H. reflexivity. Qed.

(* ---------- version lists ---------- *)
(* revisions strictly decreasing from the head: the last written version is first *)
Fixpoint desc (vs : list (N * value)) : Prop :=
  match vs with
  | [] => True
  | (r, _) :: vs' => (forall r' v', In (r', v') vs' -> r' < r) /\ desc vs'
  end.

Lemma desc_latest vs r v rest : desc vs -> vs = (r, v) :: rest -> latest vs = Some (r, v).
Proof.
  revert r v rest. induction vs as [|[r1 v1] vs IH]; intros r v rest D E; [discriminate|].
  injection E as -> -> ->. simpl in *. destruct D as [Hlt D].
  destruct rest as [|[r2 v2] rest2].
  - reflexivity.
  - rewrite (IH r2 v2 rest2 D eq_refl).
    assert (r2 < r) by (apply (Hlt r2 v2); left; reflexivity).
    apply N.ltb_lt in H. rewrite H. reflexivity.
Qed.

Lemma latest_nil_iff vs : latest vs = None <-> vs = [].
Proof.
  split; [|intros ->; reflexivity].
  destruct vs as [|[r v] vs]; [reflexivity|]. simpl.
  destruct (latest vs) as [[r' v']|]; [destruct (r' <? r)|]; discriminate.
Qed.

Lemma desc_unique vs r v v' : desc vs -> In (r, v) vs -> In (r, v') vs -> v = v'.
Proof.
  induction vs as [|[r1 v1] vs IH]; simpl; [contradiction|].
  intros [Hlt D] [H1|H1] [H2|H2].
  - congruence.
  - injection H1 as -> ->. apply Hlt in H2. lia.
  - injection H2 as -> ->. apply Hlt in H1. lia.
  - apply IH; assumption.
Qed.

(* all revisions <= R: the scan at R keeps the head *)
Lemma latest_le_head vs r v rest R :
  desc vs -> vs = (r, v) :: rest -> r <= R -> latest_le vs R = Some (r, v).
Proof.
  revert r v rest. induction vs as [|[r1 v1] vs IH]; intros r v rest D E Hle; [discriminate|].
  injection E as -> -> ->. simpl in *. destruct D as [Hlt D].
  assert (Hr : (r <=? R) = true) by (apply N.leb_le; exact Hle).
  destruct rest as [|[r2 v2] rest2].
  - simpl. rewrite Hr. reflexivity.
  - assert (r2 < r) by (apply (Hlt r2 v2); left; reflexivity).
    rewrite (IH r2 v2 rest2 D eq_refl) by lia.
    rewrite Hr. apply N.ltb_lt in H. rewrite H. reflexivity.
Qed.

(* a head above R is skipped *)
Lemma latest_le_skip r v rest R : R < r -> latest_le ((r, v) :: rest) R = latest_le rest R.
Proof.
  intros H. simpl. assert ((r <=? R) = false) by (apply N.leb_gt; exact H). rewrite H0.
  destruct (latest_le rest R) as [[r' v']|]; reflexivity.
Qed.

Lemma latest_le_in vs R r v : latest_le vs R = Some (r, v) -> In (r, v) vs /\ r <= R.
Proof.
  revert r v. induction vs as [|[r1 v1] vs IH]; intros r v; simpl; [discriminate|].
  destruct (latest_le vs R) as [[r' v']|] eqn:L.
  - destruct ((r1 <=? R) && (r' <? r1)) eqn:C.
    + intros H; injection H as <- <-. apply andb_true_iff in C as [C _]. apply N.leb_le in C. split; [left; reflexivity|exact C].
    + intros H; injection H as <- <-. destruct (IH r' v' eq_refl). split; [right; assumption|assumption].
  - destruct (r1 <=? R) eqn:C; [|discriminate].
    intros H; injection H as <- <-. apply N.leb_le in C. split; [left; reflexivity|exact C].
Qed.

Lemma latest_le_none vs R : latest_le vs R = None -> forall r v, In (r, v) vs -> R < r.
Proof.
  induction vs as [|[r1 v1] vs IH]; simpl; [contradiction|].
  destruct (latest_le vs R) as [[r' v']|] eqn:L.
  - destruct ((r1 <=? R) && (r' <? r1)); discriminate.
  - destruct (r1 <=? R) eqn:C; [discriminate|]. intros _ r v [H|H].
    + injection H as <- <-. apply N.leb_gt in C. exact C.
    + apply (IH eq_refl r v H).
Qed.

(* ---------- the engine commit ---------- *)
Lemma idxval_eqb_eq a b : idxval_eqb a b = true <-> a = b.
Proof.
  destruct a as [r f], b as [r' f']. unfold idxval_eqb. simpl. rewrite andb_true_iff, N.eqb_eq.
  split.
  - intros [-> H]. apply Bool.eqb_prop in H. subst. reflexivity.
  - intros H; injection H as -> ->. split; [reflexivity|apply Bool.eqb_reflx].
Qed.

Lemma commit_cases s b e s' eo :
  commit s b e = (s', eo) ->
  (s' = s /\ eo <> None) \/
  (s' = apply_batch s b /\ cond_holds (b_cond b) (k_idx (s (b_key b))) = true /\
   (eo = None \/ exists oc, eo = Some (EUncertain oc) /\ e = EnvUnknown true oc)).
Proof.
  unfold commit. destruct e as [| | |a oc].
  - destruct (cond_holds _ _) eqn:C; intros H; injection H as <- <-.
    + right. auto.
    + left. split; [reflexivity|discriminate].
  - intros H; injection H as <- <-. left. split; [reflexivity|discriminate].
  - intros H; injection H as <- <-. left. split; [reflexivity|discriminate].
  - destruct a; simpl.
    + destruct (cond_holds _ _) eqn:C; intros H; injection H as <- <-.
      * right. split; [reflexivity|]. split; [reflexivity|]. right. exists oc. auto.
      * left. split; [reflexivity|discriminate].
    + intros H; injection H as <- <-. left. split; [reflexivity|discriminate].
Qed.

(* an effective environment: the batch takes effect whenever its condition holds *)
Lemma commit_effective s b e s' eo :
  commit s b e = (s', eo) -> (e = EnvOk \/ exists oc, e = EnvUnknown true oc) ->
  (cond_holds (b_cond b) (k_idx (s (b_key b))) = true /\ s' = apply_batch s b) \/
  (cond_holds (b_cond b) (k_idx (s (b_key b))) = false /\ s' = s).
Proof.
  unfold commit. intros H [->|[oc ->]].
  - destruct (cond_holds _ _); injection H as <- <-; auto.
  - simpl in H. destruct (cond_holds _ _); injection H as <- <-; auto.
Qed.

Lemma apply_batch_same s b : apply_batch s b (b_key b) =
  {| k_idx := Some (b_rev b, b_flag b); k_vers := (b_rev b, b_val b) :: k_vers (s (b_key b)) |}.
Proof. unfold apply_batch. rewrite N.eqb_refl. reflexivity. Qed.
Lemma apply_batch_other s b k : k <> b_key b -> apply_batch s b k = s k.
Proof. intros H. unfold apply_batch. apply N.eqb_neq in H. rewrite H. reflexivity. Qed.

Lemma is_tomb_tombstone : is_tomb tombstone = true.
Proof. reflexivity. Qed.
Lemma is_tomb_eq v : is_tomb v = true <-> v = tombstone.
Proof. unfold is_tomb. unfold beqb. destruct (bcmp v tombstone) eqn:E; split; try discriminate; try congruence.
  - intros _. apply bcmp_eq. exact E.
  - intros ->. rewrite bcmp_refl in E. discriminate.
  - intros ->. rewrite bcmp_refl in E. discriminate.
Qed.
