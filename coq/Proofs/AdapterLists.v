(* List facts used by the adapter refinement proofs: take_while / drop_while on sorted lists are filters,
   staged writes applied entry by entry, the TiKV iterator loop in closed form. *)
From KB Require Import Base.Cases Model.Store Model.Adapters Proofs.Store.
Local Open Scope N_scope.

(* ---------- plain lists ---------- *)

Section Plain.
Context {X : Type}.
Implicit Types (l : list X) (p q : X -> bool).

Lemma filter_all_false p l : (forall x, In x l -> p x = false) -> filter p l = [].
Proof.
  induction l as [|a t IH]; intros H; [reflexivity|]. cbn [filter].
  rewrite (H a (or_introl eq_refl)). apply IH. intros x Hx. apply H. right; exact Hx.
Qed.

Lemma filter_all_true p l : (forall x, In x l -> p x = true) -> filter p l = l.
Proof.
  induction l as [|a t IH]; intros H; [reflexivity|]. cbn [filter].
  rewrite (H a (or_introl eq_refl)). f_equal. apply IH. intros x Hx. apply H. right; exact Hx.
Qed.

Lemma filter_filter p q l : filter p (filter q l) = filter (fun x => q x && p x) l.
Proof.
  induction l as [|a t IH]; [reflexivity|]. cbn [filter]. destruct (q a); cbn [andb filter].
  - destruct (p a); rewrite IH; reflexivity.
  - exact IH.
Qed.

Lemma filter_rev' p l : filter p (rev l) = rev (filter p l).
Proof.
  induction l as [|a t IH]; [reflexivity|]. cbn [rev filter].
  rewrite filter_app, IH. cbn [filter]. destruct (p a); cbn [rev]; [reflexivity|apply app_nil_r].
Qed.

Lemma filter_map' {Y} (f : Y -> X) p (l : list Y) : filter p (map f l) = map f (filter (fun y => p (f y)) l).
Proof.
  induction l as [|a t IH]; [reflexivity|]. cbn [map filter]. destruct (p (f a)); cbn [map]; rewrite IH; reflexivity.
Qed.

Variable R : X -> X -> Prop.

Lemma take_while_filter p l :
  StronglySorted R l -> (forall x y, R x y -> p y = true -> p x = true) -> take_while p l = filter p l.
Proof.
  intros Hs Hm. induction l as [|a t IH]; [reflexivity|].
  inversion Hs as [|? ? Hs' Hf]; subst. cbn [take_while filter]. destruct (p a) eqn:E.
  - f_equal. apply IH; exact Hs'.
  - symmetry. apply filter_all_false. intros x Hx. rewrite Forall_forall in Hf.
    destruct (p x) eqn:Ex; [|reflexivity]. rewrite (Hm a x (Hf x Hx) Ex) in E. discriminate.
Qed.

Lemma drop_while_filter p l :
  StronglySorted R l -> (forall x y, R x y -> p y = true -> p x = true) ->
  drop_while p l = filter (fun x => negb (p x)) l.
Proof.
  intros Hs Hm. induction l as [|a t IH]; [reflexivity|].
  inversion Hs as [|? ? Hs' Hf]; subst. cbn [drop_while filter]. destruct (p a) eqn:E; cbn [negb].
  - apply IH; exact Hs'.
  - f_equal. symmetry. apply filter_all_true. intros x Hx. rewrite Forall_forall in Hf.
    destruct (p x) eqn:Ex; [|reflexivity]. rewrite (Hm a x (Hf x Hx) Ex) in E. discriminate.
Qed.

Lemma ssorted_filter p l : StronglySorted R l -> StronglySorted R (filter p l).
Proof.
  induction l as [|a t IH]; intros Hs; [constructor|].
  inversion Hs as [|? ? Hs' Hf]; subst. cbn [filter]. destruct (p a); [|apply IH; exact Hs'].
  constructor; [apply IH; exact Hs'|]. rewrite Forall_forall in *. intros x Hx.
  apply filter_In in Hx as [Hx _]. auto.
Qed.

Lemma ssorted_snoc l a : StronglySorted R l -> (forall x, In x l -> R x a) -> StronglySorted R (l ++ [a]).
Proof.
  induction l as [|b t IH]; intros Hs H; cbn [app]; [repeat constructor|].
  inversion Hs as [|? ? Hs' Hf]; subst. constructor.
  - apply IH; [exact Hs'|]. intros x Hx. apply H. right; exact Hx.
  - rewrite Forall_forall in *. intros x Hx. apply in_app_or in Hx as [Hx|[<-|[]]]; [auto|].
    apply H. left; reflexivity.
Qed.

End Plain.

Lemma ssorted_rev {X} (R : X -> X -> Prop) l : StronglySorted R l -> StronglySorted (fun x y => R y x) (rev l).
Proof.
  induction l as [|a t IH]; intros Hs; [constructor|].
  inversion Hs as [|? ? Hs' Hf]; subst. cbn [rev]. apply ssorted_snoc; [apply IH; exact Hs'|].
  intros x Hx. apply in_rev in Hx. rewrite Forall_forall in Hf. auto.
Qed.

Lemma ssorted_map {X Y} (R : X -> X -> Prop) (S : Y -> Y -> Prop) (f : X -> Y) l :
  (forall x y, R x y -> S (f x) (f y)) -> StronglySorted R l -> StronglySorted S (map f l).
Proof.
  intros H. induction l as [|a t IH]; intros Hs; [constructor|].
  inversion Hs as [|? ? Hs' Hf]; subst. cbn [map]. constructor; [apply IH; exact Hs'|].
  rewrite Forall_forall in *. intros y Hy. apply in_map_iff in Hy as [x [<- Hx]]. auto.
Qed.

(* ---------- ranges of a list sorted by key ---------- *)

Section Range.
Context {X : Type} (kf : X -> bytes).
Definition ksorted (l : list X) : Prop := StronglySorted (fun x y => bcmp (kf x) (kf y) = Lt) l.

Lemma range_fwd l a b : ksorted l ->
  take_while (fun x => bltb (kf x) b) (drop_while (fun x => bltb (kf x) a) l) = filter (fun x => in_fwd a b (kf x)) l.
Proof.
  intros Hs.
  rewrite (drop_while_filter _ _ _ Hs).
  2:{ intros x y Hxy Hy. apply bltb_lt in Hy. apply bltb_lt. eapply bcmp_lt_trans; eauto. }
  rewrite (take_while_filter (fun x y => bcmp (kf x) (kf y) = Lt)).
  - rewrite filter_filter. apply filter_ext. intros x. unfold in_fwd. rewrite bleb_negb_bltb. reflexivity.
  - apply ssorted_filter. exact Hs.
  - intros x y Hxy Hy. apply bltb_lt in Hy. apply bltb_lt. eapply bcmp_lt_trans; eauto.
Qed.

Lemma range_bwd l a b : ksorted l ->
  take_while (fun x => bltb b (kf x)) (drop_while (fun x => bltb a (kf x)) (rev l)) = rev (filter (fun x => in_bwd a b (kf x)) l).
Proof.
  intros Hs. apply ssorted_rev in Hs.
  rewrite (drop_while_filter _ _ _ Hs).
  2:{ intros x y Hxy Hy. apply bltb_lt in Hy. apply bltb_lt. eapply bcmp_lt_trans; eauto. }
  rewrite (take_while_filter (fun x y => bcmp (kf y) (kf x) = Lt)).
  - rewrite filter_filter, filter_rev'. f_equal. apply filter_ext. intros x. unfold in_bwd.
    rewrite (bleb_negb_bltb (kf x) a). apply andb_comm.
  - apply ssorted_filter. exact Hs.
  - intros x y Hxy Hy. apply bltb_lt in Hy. apply bltb_lt. eapply bcmp_lt_trans; eauto.
Qed.

End Range.

(* k < a ++ [0]  iff  k <= a *)
Lemma bltb_app0 k a : bltb k (a ++ [0]) = bleb k a.
Proof.
  unfold bltb, bleb. revert a. induction k as [|x k IH]; intros [|y a]; cbn [app bcmp]; try reflexivity.
  - destruct (N.compare_spec x 0) as [->|H|H]; [|lia|reflexivity]. destruct k; reflexivity.
  - destruct (x ?= y); [apply IH|reflexivity|reflexivity].
Qed.

(* ---------- staged writes ---------- *)

Section Apply.
Context {V : Type} (f : bytes -> V).

Lemma apply_writes_sorted (p : smap (option bytes)) : forall (s : smap V), sorted s -> sorted (apply_writes f s p).
Proof.
  unfold apply_writes. induction p as [|[k [v|]] t IH]; intros s Hs; cbn [fold_left fst snd]; [exact Hs| |].
  - apply IH. apply set_sorted. exact Hs.
  - apply IH. apply remove_sorted. exact Hs.
Qed.

Lemma apply_writes_get (p : smap (option bytes)) : forall (s : smap V) k, sorted p ->
  get (apply_writes f s p) k = match get p k with
                               | Some (Some v) => Some (f v)
                               | Some None => None
                               | None => get s k
                               end.
Proof.
  unfold apply_writes. induction p as [|[k0 w] t IH]; intros s k Hp; [reflexivity|].
  apply sorted_cons_inv in Hp as [Hp Hf]. cbn [fold_left fst snd get].
  rewrite IH by exact Hp. destruct (beqb k k0) eqn:E.
  - apply beqb_eq in E. subst k0.
    rewrite (get_none_lt t k Hp).
    2:{ eapply Forall_impl; [|exact Hf]. intros a Ha. exact Ha. }
    destruct w as [v|]; [apply get_set_same|apply get_remove_same].
  - apply beqb_neq in E. destruct (get t k) as [[v|]|]; try reflexivity.
    destruct w as [v|]; [apply get_set_other|apply get_remove_other]; exact E.
Qed.

End Apply.

(* ---------- the TiKV iterator loop ---------- *)

Definition lim1 {A} (n : N) (l : list A) : list A := if n =? 0 then l else firstn (S (N.to_nat n)) l.

Lemma t_next_loop_unfold limit rv e count cur rest :
  t_next_loop limit rv e count (cur :: rest) =
  if (0 <? limit) && (limit <=? count) then []
  else match rest with
       | [] => []
       | nxt :: _ => if t_border rv e (fst nxt) then [] else nxt :: t_next_loop limit rv e (count + 1) rest
       end.
Proof. reflexivity. Qed.

Lemma t_next_loop_spec limit rv e : forall us cur count,
  t_next_loop limit rv e count (cur :: us) =
  let T := take_while (fun x => negb (t_border rv e (fst x))) us in
  if limit =? 0 then T else firstn (N.to_nat (limit - count)) T.
Proof.
  induction us as [|nxt rest IH]; intros cur count; rewrite t_next_loop_unfold; cbn [take_while].
  - destruct (limit =? 0) eqn:L0; destruct ((0 <? limit) && (limit <=? count)); try reflexivity.
    all: cbn zeta; rewrite firstn_nil; reflexivity.
  - destruct (limit =? 0) eqn:L0.
    + apply N.eqb_eq in L0. subst limit. change (0 <? 0) with false. cbn [andb].
      destruct (t_border rv e (fst nxt)); cbn [negb]; [reflexivity|]. rewrite IH. reflexivity.
    + apply N.eqb_neq in L0. assert (H0 : (0 <? limit) = true) by (apply N.ltb_lt; lia). rewrite H0. cbn [andb].
      destruct (limit <=? count) eqn:Lc.
      * apply N.leb_le in Lc. replace (limit - count) with 0 by lia. reflexivity.
      * apply N.leb_gt in Lc. destruct (t_border rv e (fst nxt)); cbn [negb].
        -- now rewrite firstn_nil.
        -- rewrite IH. cbn zeta. destruct (limit =? 0) eqn:L0'; [apply N.eqb_eq in L0'; lia|].
           replace (N.to_nat (limit - count)) with (S (N.to_nat (limit - (count + 1)))) by lia. reflexivity.
Qed.

Lemma t_iter_out_spec limit rv e us :
  t_iter_out limit rv e us = lim1 limit (take_while (fun x => negb (t_border rv e (fst x))) us).
Proof.
  unfold t_iter_out, lim1. destruct us as [|x rest]; [destruct (limit =? 0); reflexivity|].
  cbn [take_while]. destruct (t_border rv e (fst x)); cbn [negb]; [destruct (limit =? 0); reflexivity|].
  rewrite t_next_loop_spec. cbn zeta. destruct (limit =? 0); [reflexivity|].
  rewrite N.sub_0_r. reflexivity.
Qed.

(* prefixes *)
Lemma lim_firstn {A} n (l : list A) : exists k, lim n l = firstn k l /\ ((if (n =? 0)%N then length l else Nat.min (N.to_nat n) (length l)) <= k)%nat.
Proof.
  unfold lim. destruct (n =? 0).
  - exists (length l). rewrite firstn_all. split; [reflexivity|lia].
  - exists (N.to_nat n). split; [reflexivity|lia].
Qed.

Lemma lim1_firstn {A} n (l : list A) : exists k, lim1 n l = firstn k l /\ ((if (n =? 0)%N then length l else Nat.min (N.to_nat n) (length l)) <= k)%nat.
Proof.
  unfold lim1. destruct (n =? 0).
  - exists (length l). rewrite firstn_all. split; [reflexivity|lia].
  - exists (S (N.to_nat n)). split; [reflexivity|lia].
Qed.
