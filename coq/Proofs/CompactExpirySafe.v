(* C17_only_events at full strength: in a scanner pass WITH expiry on - any outcomes of the engine deletes, any writers'
   commits between them - every engine delete either targets an expiry target (a record of a key under the events prefix
   at most as new as the timeout revision) or satisfies C07's premise in the store of that moment (ds_safe).
   The invariant of C07_pass (Proofs/CompactPass.v: linv / step_inv) is carried without its comparison of the store with the
   ghost store - expiry does change reads - keeping what the premise of the compaction-proper deletes needs. *)
From KB Require Import Base.Cases Model.Coder Model.CompactSys Model.C07Cases Model.C17Cases Proofs.Coder
  Proofs.CompactSafe Proofs.CompactReads Proofs.CompactWf Proofs.CompactPass Proofs.CompactRanges Proofs.CompactExpiry.
From Coq Require Import Sorted.
Local Open Scope N_scope.

Section ExpSafe.
Variables (evp : bytes) (R tr : N) (U : store).

Definition good (s : dstep) : Prop := expiry_target evp tr (ds_target s) \/ ds_safe s = true.

Record dinv2 (d : dst) : Prop := {
  d2_u : uniq_ver U;
  d2_s : forall k r v, In (RVer k r v) (d_store d) -> In (RVer k r v) U;
  d2_oc : forall k r v, In (RVer k r v) (adds_of d) -> In (RVer k r v) U /\ R < r;
  d2_good : Forall good (d_trace d)
}.

Lemma ed_inv2 kind x d :
  dinv2 d ->
  (d_dead d = false -> skipped (d_lf d) (rkey x) = false ->
   forall V1, ext R (d_store d) V1 -> premise R V1 x \/ expiry_target evp tr x) ->
  dinv2 (engine_delete R kind x d).
Proof.
  intros [Hu Hs Hoc Hg] Hp.
  destruct (ed_cases R kind x d) as [[E _]|(Ed & Esk & adds & o & rest & o' & Hq & Eg & Eo & Et & Hres)];
    cbv zeta in *; [rewrite E; split; assumption|].
  assert (Hadds : forall k r v, In (RVer k r v) adds -> In (RVer k r v) U /\ R < r).
  { intros k r v Hin. destruct Hq as [(_ & -> & _)|Eq]; [destruct Hin|]. apply Hoc. eapply adds_of_cons_sub; eauto. }
  assert (Hrest : forall k r v, In (RVer k r v) (flat_map fst rest) -> In (RVer k r v) U /\ R < r).
  { intros k r v Hin. destruct Hq as [(_ & _ & _ & ->)|Eq]; [destruct Hin|]. apply Hoc. eapply adds_of_cons_sub; eauto. }
  assert (HaddR : forall k r v, In (RVer k r v) adds -> R < r) by (intros; eapply Hadds; eauto).
  assert (HV1 : forall k r v, In (RVer k r v) (apply_env adds (d_store d)) -> In (RVer k r v) U).
  { intros k r v Hin. apply apply_env_ver in Hin as [Hin|Hin]; [eauto|eapply Hadds; eauto]. }
  assert (HuV1 : uniq_ver (apply_env adds (d_store d))) by (eapply uniq_sub; eauto).
  split.
  - exact Hu.
  - intros k r v Hin. apply HV1.
    destruct Hres as [(_ & E & _)|[(_ & _ & E & _)|[(_ & E & _)|(_ & E & _)]]]; rewrite E in Hin; try exact Hin.
    apply in_del_slot in Hin as [Hin _]. exact Hin.
  - unfold adds_of. rewrite Eo. exact Hrest.
  - rewrite Et. constructor; [|exact Hg]. unfold good. cbn [ds_target ds_safe].
    destruct (Hp Ed Esk _ (ext_env R adds _ HaddR)) as [Hprem|Hexp]; [right; apply premiseb_of; assumption|left; exact Hexp].
Qed.

Lemma ed_low2 kind x d k r v :
  dinv2 d -> In (RVer k r v) (d_store (engine_delete R kind x d)) -> r <= R -> In (RVer k r v) (d_store d).
Proof.
  intros Hd Hin Hr. apply ed_store_sub in Hin as [Hin|Hin]; [exact Hin|].
  apply (d2_oc _ Hd) in Hin as [_ Hin]. lia.
Qed.

Record evolves2 (kx : bytes) (d d' : dst) : Prop := {
  ev2_inv : dinv2 d';
  ev2_low : forall k r v, In (RVer k r v) (d_store d') -> r <= R -> In (RVer k r v) (d_store d);
  ev2_dead : d_dead d' = false -> d_dead d = false;
  ev2_lf : d_lf d' = d_lf d \/ d_lf d' = kx
}.

Lemma evolves2_refl kx d : dinv2 d -> evolves2 kx d d.
Proof. intros H. split; auto. Qed.

Lemma evolves2_ed kind x d :
  dinv2 d ->
  (d_dead d = false -> skipped (d_lf d) (rkey x) = false -> forall V1, ext R (d_store d) V1 ->
   premise R V1 x \/ expiry_target evp tr x) ->
  evolves2 (rkey x) d (engine_delete R kind x d).
Proof.
  intros Hd Hp. split.
  - apply ed_inv2; assumption.
  - intros k r v. apply ed_low2; exact Hd.
  - apply ed_dead_mono.
  - apply ed_lf.
Qed.

Lemma evolves2_trans kx d1 d2 d3 : evolves2 kx d1 d2 -> evolves2 kx d2 d3 -> evolves2 kx d1 d3.
Proof.
  intros [A1 A2 A3 A4] [B1 B2 B3 B4]. split.
  - exact B1.
  - intros k r v H Hr. apply A2; [apply B2; assumption|exact Hr].
  - intros H. apply A3. apply B3. exact H.
  - destruct B4 as [E|E]; rewrite E; [exact A4|right; reflexivity].
Qed.

Record linv2 (snap done todo : list rec) (s : wst) : Prop := {
  l2_d : dinv2 (w_d s);
  l2_todo : forall y, In y todo -> is_ver y = true -> In y (d_store (w_d s));
  l2_low : forall k r v, In (RVer k r v) (d_store (w_d s)) -> r <= R ->
           (exists y, In y snap /\ rkey y = k) -> In (RVer k r v) snap;
  l2_prev : 0 < w_pr s -> In (RVer (w_pk s) (w_pr s) (w_pv s)) done;
  l2_old : forall k r v, In (RVer k r v) done -> In (RVer k r v) (d_store (w_d s)) -> r <= R ->
           (exists y, In y todo /\ rkey y = k) ->
           skipped (d_lf (w_d s)) k = false -> d_dead (w_d s) = false ->
           w_pk s = k /\ w_pr s = r
}.

(* the compaction proper on record x: C07's step, without the ghost store *)
Lemma step_proper2 snap done x t s :
  snap = done ++ x :: t -> snap_ok snap ->
  linv2 snap done (x :: t) s -> True ->
  linv2 snap (done ++ [x]) t (wbody (cfg R) x s).
Proof.
  intros Esnap Hok [Hd Htodo Hlow Hprev Hold] Hexp.
  destruct (sorted_split done x t) as (Sd & St & Sdt); [rewrite <- Esnap; apply Hok|].
  assert (Hxin : In x snap) by (rewrite Esnap; apply in_app_iff; right; left; reflexivity).
  assert (Hkx : rkey x <> []) by (apply (so_keys _ Hok); exact Hxin).
  destruct (R <? rrev x) eqn:HR.
  { (* revision above R: `continue` *)
    rewrite wbody_skip by exact HR. apply N.ltb_lt in HR. split; auto.
    - intros y Hy. apply Htodo. right; exact Hy.
    - intros Hp. apply in_app_iff. left. auto.
    - intros k r v Hin HinV Hr Hex Hsk Hdead. apply in_app_iff in Hin as [Hin|[->|[]]].
      + apply (Hold k r v); auto. destruct Hex as (y & Hy & Hk). exists y. split; [right; exact Hy|exact Hk].
      + cbn [rrev] in HR. lia. }
  apply N.ltb_ge in HR.
  destruct (wbody_compact R x s) as (Ed & Eprev); [apply N.ltb_ge; exact HR|].
  set (dA := stepA R x s) in *. set (dB := stepB R x dA) in *. set (dC := stepC R x dB) in *.
  (* facts about x when it follows a version of its own key *)
  assert (Hsame : beqb (rkey x) (w_pk s) = true -> 0 < w_pr s ->
                  exists vx, x = RVer (w_pk s) (rrev x) vx /\ w_pr s < rrev x).
  { intros Hk Hp. apply beqb_eq in Hk. specialize (Hprev Hp). specialize (Sd _ Hprev).
    apply rlt_cases in Sd as [Hc|[_ Hc]]; cbn [rkey rrev] in Hc; [rewrite <- Hk, bcmp_refl in Hc; discriminate|].
    destruct x as [k0 r0 d0|k0 r0 v0]; cbn [rrev rkey] in *; [lia|]. subst k0. eauto. }
  (* step A: the previous version *)
  assert (EA : evolves2 (rkey x) (w_d s) dA).
  { unfold dA, stepA. destruct (beqb (rkey x) (w_pk s) && (0 <? w_pr s)) eqn:Eb; [|apply evolves2_refl; exact Hd].
    apply andb_true_iff in Eb as [Hk Hp]. apply N.ltb_lt in Hp.
    destruct (Hsame Hk Hp) as (vx & Ex & Hlt).
    replace (rkey x) with (rkey (RVer (w_pk s) (w_pr s) (w_pv s))) by (apply beqb_eq in Hk; cbn [rkey]; congruence).
    apply evolves2_ed; [exact Hd|].
    intros _ _ V1 [E1 _]. left. cbn [premise]. right; left. exists (rrev x), vx. split; [|split; [exact Hlt|exact HR]].
    apply E1. rewrite <- Ex. apply Htodo; [left; reflexivity|rewrite Ex; reflexivity]. }
  (* after A: no older version of x's key is left, unless the key is protected or the compactor is gone *)
  assert (Hgone : forall r v, In (RVer (rkey x) r v) done -> In (RVer (rkey x) r v) (d_store dA) -> r <= R ->
                  skipped (d_lf dA) (rkey x) = false -> d_dead dA = false -> False).
  { intros r v Hin HinA Hr Hsk Hdead.
    assert (HinV : In (RVer (rkey x) r v) (d_store (w_d s))) by (apply (ev2_low _ _ _ EA); assumption).
    assert (Hsk0 : skipped (d_lf (w_d s)) (rkey x) = false).
    { destruct (ev2_lf _ _ _ EA) as [E|E]; [rewrite E in Hsk; exact Hsk|].
      rewrite E, skipped_self in Hsk by exact Hkx. discriminate. }
    destruct (Hold (rkey x) r v Hin HinV Hr) as [Hpk Hpr]; auto.
    { exists x. split; [left; reflexivity|reflexivity]. }
    { apply (ev2_dead _ _ _ EA); exact Hdead. }
    assert (Hr0 : 0 < r) by (apply (so_revs _ Hok (rkey x) r v); rewrite Esnap; apply in_app_iff; left; exact Hin).
    assert (Eb : beqb (rkey x) (w_pk s) && (0 <? w_pr s) = true).
    { rewrite Hpk, beqb_refl. cbn [andb]. apply N.ltb_lt. lia. }
    assert (EdA : dA = engine_delete R KDel (RVer (w_pk s) (w_pr s) (w_pv s)) (w_d s)).
    { unfold dA, stepA. rewrite Eb. reflexivity. }
    rewrite EdA in HinA, Hsk, Hdead.
    destruct (ed_effect R (w_pk s) (w_pr s) (w_pv s) (w_d s)) as [H|[H|H]].
    - rewrite Hpk. exact Hkx.
    - congruence.
    - rewrite Hpk in H. congruence.
    - rewrite <- Hpk, <- Hpr in HinA. exact (H _ HinA). }
  (* step B: x itself, when it is a tombstone *)
  assert (EB : evolves2 (rkey x) dA dB).
  { unfold dB, stepB. destruct (is_tomb (rval x)) eqn:Et; [|apply evolves2_refl; apply EA].
    destruct x as [k0 r0 d0|k0 r0 v0]; [rewrite is_tomb_idx in Et; discriminate|].
    apply evolves2_ed; [apply EA|]. intros Hdead Hsk V1 [E1 E2]. left.
    cbn [premise rkey rrev rval] in *.
    apply is_tomb_spec in Et. subst v0. right; right. split; [reflexivity|split; [exact HR|]].
    assert (HxA : In (RVer k0 r0 tombstone) (d_store dA)).
    { unfold dA, stepA. cbn [rkey]. destruct (beqb k0 (w_pk s) && (0 <? w_pr s)) eqn:Eb; [|apply Htodo; [left|]; reflexivity].
      apply andb_true_iff in Eb as [Hk Hp]. apply N.ltb_lt in Hp.
      destruct (Hsame Hk Hp) as (vx & Ex & Hlt). cbn [rrev] in *.
      apply ed_store_keep; [apply Htodo; [left|]; reflexivity|reflexivity|].
      destruct (same_slot _ _) eqn:Es; [|reflexivity]. apply same_slot_ver in Es as [v' Es]. injection Es as _ Es _. lia. }
    split; [apply E1; exact HxA|].
    intros r' v' Hin'. destruct (N.le_gt_cases r0 r') as [Hc|Hc]; [exact Hc|exfalso].
    destruct (E2 _ _ _ Hin') as [HinA|Hgt]; [|lia].
    assert (HinV : In (RVer k0 r' v') (d_store (w_d s))) by (apply (ev2_low _ _ _ EA); [exact HinA|lia]).
    assert (HinS : In (RVer k0 r' v') snap) by (apply Hlow; [exact HinV|lia|exists (RVer k0 r0 tombstone); split; [exact Hxin|reflexivity]]).
    rewrite Esnap in HinS. apply in_app_iff in HinS as [HinD|[E|HinT]].
    - apply (Hgone r' v'); auto. lia.
    - injection E as E _. lia.
    - specialize (St _ HinT). apply rlt_cases in St as [Hb|[_ Hb]]; cbn [rkey rrev] in Hb; [rewrite bcmp_refl in Hb; discriminate|lia]. }
  (* step C: a flagged index *)
  assert (EC : evolves2 (rkey x) dB dC).
  { unfold dC, stepC. destruct x as [k0 orev [|]|k0 r0 v0]; try (apply evolves2_refl; apply EB).
    destruct (R <? orev); [apply evolves2_refl; apply EB|].
    apply (evolves2_ed KDelCur (RIdx k0 orev true)); [apply EB|intros _ _ V1 _; left; exact I]. }
  pose proof (evolves2_trans _ _ _ _ EA (evolves2_trans _ _ _ _ EB EC)) as EAll.
  (* which slots may have been removed *)
  assert (Hkeep : forall y, In y t -> is_ver y = true -> In y (d_store dC)).
  { intros y Hy Hv.
    assert (HyV : In y (d_store (w_d s))) by (apply Htodo; [right; exact Hy|exact Hv]).
    assert (HyA : In y (d_store dA)).
    { unfold dA, stepA. destruct (beqb (rkey x) (w_pk s) && (0 <? w_pr s)) eqn:Eb; [|exact HyV].
      apply andb_true_iff in Eb as [Hk Hp]. apply N.ltb_lt in Hp.
      apply ed_store_keep; [exact HyV|exact Hv|].
      destruct (same_slot _ y) eqn:Es; [|reflexivity]. apply same_slot_ver in Es as [v' ->].
      exfalso. apply (rlt_irrefl_slot _ _ (Sdt _ _ (Hprev Hp) Hy)); reflexivity. }
    assert (HyB : In y (d_store dB)).
    { unfold dB, stepB. destruct (is_tomb (rval x)); [|exact HyA].
      apply ed_store_keep; [exact HyA|exact Hv|].
      destruct (same_slot x y) eqn:Es; [|reflexivity]. exfalso.
      unfold same_slot in Es. apply andb_true_iff in Es as [Es _]. apply andb_true_iff in Es as [E1 E2].
      apply beqb_eq in E1. apply N.eqb_eq in E2. apply (rlt_irrefl_slot _ _ (St _ Hy)); assumption. }
    unfold dC, stepC. destruct x as [k0 orev [|]|k0 r0 v0]; try exact HyB.
    destruct (R <? orev); [exact HyB|].
    apply ed_store_keep; [exact HyB|exact Hv|].
    destruct (same_slot _ y) eqn:Es; [|reflexivity]. apply same_slot_idx in Es as (? & ? & ->). discriminate. }
  split.
  - rewrite Ed. apply EAll.
  - rewrite Ed. exact Hkeep.
  - rewrite Ed. intros k r v Hin Hr Hex. apply Hlow; [apply (ev2_low _ _ _ EAll); assumption|exact Hr|exact Hex].
  - destruct (advances R x) eqn:Eadv; destruct Eprev as (E1 & E2 & E3); rewrite E1, E2, E3.
    + intros Hp. apply in_app_iff. right. left.
      destruct x as [k0 r0 d0|k0 r0 v0]; cbn [rrev rkey rval] in *; [lia|reflexivity].
    + intros Hp. apply in_app_iff. left. auto.
  - rewrite Ed. intros k r v Hin HinV Hr (y & Hy & Hky) Hsk Hdead.
    assert (HinA : In (RVer k r v) (d_store dA)).
    { apply (ev2_low _ _ _ (evolves2_trans _ _ _ _ EB EC)); assumption. }
    apply in_app_iff in Hin as [Hin|[->|[]]].
    + (* an older record: it has x's key, and was removed or the key is protected *)
      exfalso.
      assert (Hk : rkey x = k).
      { rewrite <- Hky. transitivity (rkey (RVer k r v)); [|cbn [rkey]; congruence].
        apply (rlt_sandwich _ _ y); [apply Sd; exact Hin|apply St; exact Hy|cbn [rkey]; congruence]. }
      clear Hky. subst k. apply (Hgone r v); auto.
      * destruct (ev2_lf _ _ _ (evolves2_trans _ _ _ _ EB EC)) as [E|E]; [rewrite E in Hsk; exact Hsk|].
        rewrite E, skipped_self in Hsk by exact Hkx. discriminate.
      * apply (ev2_dead _ _ _ (evolves2_trans _ _ _ _ EB EC)); exact Hdead.
    + cbn [advances] in Eprev. destruct Eprev as (E1 & E2 & _). split; assumption.
Qed.

(* an expiry delete of record x *)
Lemma step_expire2 snap done x t s kind :
  snap = done ++ x :: t -> snap_ok snap ->
  linv2 snap done (x :: t) s ->
  expire_kind evp tr x = Some kind ->
  linv2 snap (done ++ [x]) t (mkW (engine_delete R kind x (w_d s)) (w_pk s) (w_pr s) (w_pv s) (w_out s)).
Proof.
  intros Esnap Hok [Hd Htodo Hlow Hprev Hold] Ee.
  destruct (sorted_split done x t) as (Sd & St & Sdt); [rewrite <- Esnap; apply Hok|].
  assert (Hxin : In x snap) by (rewrite Esnap; apply in_app_iff; right; left; reflexivity).
  assert (Hkx : rkey x <> []) by (apply (so_keys _ Hok); exact Hxin).
  apply expire_kind_target in Ee as (Ht & Hv1 & Hv2).
  assert (EE : evolves2 (rkey x) (w_d s) (engine_delete R kind x (w_d s))).
  { apply evolves2_ed; [exact Hd|]. intros _ _ V1 _. right. exact Ht. }
  split; cbn [w_d w_pk w_pr w_pv].
  - apply EE.
  - intros y Hy Hv. apply ed_store_keep; [apply Htodo; [right; exact Hy|exact Hv]|exact Hv|].
    destruct (same_slot x y) eqn:Es; [|reflexivity]. exfalso.
    unfold same_slot in Es. apply andb_true_iff in Es as [Es _]. apply andb_true_iff in Es as [E1 E2].
    apply beqb_eq in E1. apply N.eqb_eq in E2. apply (rlt_irrefl_slot _ _ (St _ Hy)); assumption.
  - intros k r v Hin Hr Hex. apply Hlow; [apply (ev2_low _ _ _ EE); assumption|exact Hr|exact Hex].
  - intros Hp. apply in_app_iff. left. auto.
  - intros k r v Hin HinV Hr (y & Hy & Hky) Hsk Hdead.
    assert (HinS : In (RVer k r v) (d_store (w_d s))) by (apply (ev2_low _ _ _ EE); assumption).
    assert (Hsk0 : rkey x = k -> skipped (d_lf (w_d s)) k = false).
    { intros Hk. destruct (ev2_lf _ _ _ EE) as [E|E]; [rewrite E in Hsk; exact Hsk|].
      rewrite E, Hk in Hsk. rewrite skipped_self in Hsk by (rewrite <- Hk; exact Hkx). discriminate. }
    apply in_app_iff in Hin as [Hin|[Ex|[]]].
    + assert (Hk : rkey x = k).
      { rewrite <- Hky. transitivity (rkey (RVer k r v)); [|cbn [rkey]; congruence].
        apply (rlt_sandwich _ _ y); [apply Sd; exact Hin|apply St; exact Hy|cbn [rkey]; congruence]. }
      apply (Hold k r v); auto.
      * exists x. split; [left; reflexivity|exact Hk].
      * apply (ev2_dead _ _ _ EE); exact Hdead.
    + (* x itself survived its own delete: the key is protected or the compactor is gone *)
      exfalso. subst x. cbn [rkey] in *.
      assert (Ek : kind = KDel) by (destruct kind; [reflexivity|specialize (Hv2 eq_refl); discriminate]). subst kind.
      destruct (ed_effect R k r v (w_d s) Hkx) as [H|[H|H]]; [congruence|congruence|exact (H _ HinV)].
Qed.

Lemma step_inv2 snap done x t s :
  snap = done ++ x :: t -> snap_ok snap ->
  linv2 snap done (x :: t) s ->
  linv2 snap (done ++ [x]) t (wbody (ccfg evp R tr) x s).
Proof.
  intros Esnap Hok Hl. rewrite wbody_split. destruct (expire_kind evp tr x) as [kind|] eqn:Ee.
  - apply step_expire2; assumption.
  - apply step_proper2; auto.
Qed.

Lemma wloop_inv2 snap : forall todo done s,
  snap = done ++ todo -> snap_ok snap -> linv2 snap done todo s ->
  dinv2 (w_d (wloop (ccfg evp R tr) todo s)).
Proof.
  induction todo as [|x t IH]; intros done s Esnap Hok Hl; cbn [wloop] in *; [apply Hl|].
  change (need_more (ccfg evp R tr) (w_out s)) with true in *. cbn [negb] in *.
  destruct (d_dead (w_d s)) eqn:Edead; [apply Hl|].
  assert (E2 : snap = (done ++ [x]) ++ t) by (rewrite <- app_assoc; exact Esnap).
  apply (IH (done ++ [x]) _ E2 Hok).
  apply step_inv2; assumption.
Qed.

End ExpSafe.

(* C17_only_events at full strength for scanner.Compact: whatever the store, the mark queue, the wall time, the outcomes of
   the engine deletes and the writers' commits between them (version records above R, one value per (key, revision)),
   every engine delete of the pass targets a record of an Event key at most as new as the timeout revision, or satisfies
   C07_safe_remove's premise in the store of that moment *)
Theorem scanner_expiry_safe prefix sup ttl now R lo hi q V oc :
  store_ok V -> uniq_ver (V ++ flat_map fst oc) ->
  (forall k r v, In (RVer k r v) (flat_map fst oc) -> R < r) ->
  let '(q', tr, d) := scanner_compact (events_prefix prefix) sup ttl now R lo hi q (init_d V oc) in
  Forall (fun s => (is_event_key prefix (rkey (ds_target s)) = true /\ rec_rev (ds_target s) <= tr /\ tr <> 0)
                   \/ ds_safe s = true) (d_trace d).
Proof.
  intros Hok Hu Habove. unfold scanner_compact.
  destruct (timeout_revision sup ttl now (q ++ [(R, now)])) as [tr q2].
  set (evp := events_prefix prefix).
  unfold compact_range_e. cbn [init_d d_store d_ghost d_oc d_dead d_trace].
  change (mkCfg R true tr 0 evp) with (ccfg evp R tr).
  set (snap := sort_by rec_ltb (filter (in_range lo hi) V)).
  set (d0 := mkD V V [] oc false []).
  assert (Hsnap_in : forall y, In y snap -> In y V /\ in_range lo hi y = true).
  { intros y Hy. apply in_sort_by in Hy. apply filter_In in Hy. exact Hy. }
  assert (Hd0 : dinv2 evp R tr (V ++ flat_map fst oc) d0).
  { constructor; cbn [d0 d_store d_trace].
    - exact Hu.
    - intros k r v Hin. apply in_app_iff. left; exact Hin.
    - intros k r v Hin. unfold adds_of in Hin. cbn [d0 d_oc] in Hin. split; [apply in_app_iff; right; exact Hin|eauto].
    - constructor. }
  assert (Hl : linv2 evp R tr (V ++ flat_map fst oc) snap [] snap (init_w d0)).
  { constructor; cbn [init_w w_d w_pr w_pk w_pv d0 d_store].
    - exact Hd0.
    - intros y Hy _. apply Hsnap_in. exact Hy.
    - intros k r v Hin _ (y & Hy & Hk). apply in_sort_by. apply filter_In. split; [exact Hin|].
      destruct (Hsnap_in y Hy) as [_ Hr]. unfold in_range in *. cbn [rkey]. rewrite <- Hk. exact Hr.
    - lia.
    - intros k r v []. }
  pose proof (wloop_inv2 evp R tr (V ++ flat_map fst oc) snap snap [] (init_w d0) eq_refl (snap_ok_range lo hi V Hok) Hl) as [_ _ _ Hg].
  eapply Forall_impl; [|exact Hg]. intros s [(Htr & Hev & Hrev)|Hs]; [left|right; exact Hs].
  unfold evp in Hev. rewrite is_expirable_event in Hev. auto.
Qed.
