(* C02, schedule cases: the clause realtime_ok of rev_ok. If record a precedes record b (a answered before b was
   invoked) then the revision read off a's answer is below the header of b's answer.
   Model side: the header of an answer is at least a revision of the request's own window (hinv, KeySysHdr.v), and
   every revision of a window is above every exact revision answered before the window was opened. *)
From KB Require Import Model.KeySys Model.C01Cases Model.C02Cases Model.C04Cases.
From KB Require Import Proofs.RevSys Proofs.KeySys Proofs.KeySysLog Proofs.KeySysChain Proofs.KeySysJust Proofs.KeySysUniq
  Proofs.SchedCases Proofs.SchedLink Proofs.KeySysSucc Proofs.KeySysHdr.
From Coq Require Import ZifyN ZifyNat ZifyBool Lia.
Local Open Scope N_scope.

Definition exacts (l : list resp) : list N :=
  flat_map (fun r => match resp_exact_rev r with Some x => [x] | None => [] end) l.

Lemma exacts_app l l' : exacts (l ++ l') = exacts l ++ exacts l'.
Proof. apply flat_map_app. Qed.

Lemma exact_hdr r x : resp_exact_rev r = Some x -> resp_hdr r = Some x.
Proof.
  destruct r; simpl; try discriminate; auto.
  - destruct succ; [auto|discriminate].
  - destruct succ; [auto|]. destruct kv; [discriminate|auto].
Qed.

(* every revision of t's window, and every revision still to be allocated, is above all of bs *)
Definition W (t : tid) (s : state) (bs : list N) : Prop :=
  thr s t <> PIdle ->
  forall x', (In x' (cur_dealt t (log s)) \/ dealt (rs s) < x') -> Forall (fun v => v < x') bs.

Lemma W_frame t s s' bs :
  thr s' t = thr s t -> cur_dealt t (log s') = cur_dealt t (log s) -> dealt (rs s) <= dealt (rs s') ->
  W t s bs -> W t s' bs.
Proof.
  intros Et Ec Hd Hw Hni x' Hx. rewrite Et in Hni. rewrite Ec in Hx. apply (Hw Hni). destruct Hx; [left; assumption|right; lia].
Qed.

(* the first answer of a run is bounded by bsf, every later one by the exact revisions answered before it *)
Fixpoint RF (bsf : list N) (Eacc : list N) (resps : list resp) : Prop :=
  match resps with
  | [] => True
  | r :: rest =>
      (forall y, resp_hdr r = Some y -> Forall (fun v => v < y) bsf) /\
      RF (Eacc ++ exacts [r]) (Eacc ++ exacts [r]) rest
  end.

Lemma RF_snoc : forall new bsf Eacc r,
  RF bsf Eacc new ->
  (forall y, resp_hdr r = Some y -> Forall (fun v => v < y) (match new with [] => bsf | _ => Eacc ++ exacts new end)) ->
  RF bsf Eacc (new ++ [r]).
Proof.
  induction new as [|r0 new IH]; intros bsf Eacc r H Hb; simpl.
  - split; [exact Hb|exact Logic.I].
  - destruct H as [H0 H1]. split; [exact H0|]. apply IH; [exact H1|].
    intros y Hy. specialize (Hb y Hy).
    replace (Eacc ++ exacts (r0 :: new)) with ((Eacc ++ exacts [r0]) ++ exacts new) in Hb
      by (rewrite <- app_assoc; f_equal; symmetry; apply (exacts_app [r0] new)).
    destruct new; [rewrite app_nil_r in Hb; exact Hb|exact Hb].
Qed.

Section Run.
Variable cidx0 : bool.
Variable lo : N.

Definition base2 (s : state) : Prop := kinv s /\ uinv lo s /\ winv s /\ hinv s.

Lemma base2_step s l : base2 s -> base2 (kstep cidx0 s l).
Proof.
  intros (I & U & Wv & Hv). split; [apply kinv_step, I|]. split; [apply uinv_step; assumption|].
  split; [apply winv_step, Wv|eapply hinv_step; eassumption].
Qed.

(* one step never shrinks "window or still to be allocated" *)
Lemma window_grow s l t x' : kinv s ->
  In x' (cur_dealt t (log (kstep cidx0 s l))) \/ dealt (rs (kstep cidx0 s l)) < x' ->
  In x' (cur_dealt t (log s)) \/ dealt (rs s) < x'.
Proof.
  intros I [Hin|Hlt]; [|right; pose proof (dealt_mono_kstep cidx0 s l I); lia].
  destruct (log_move_step cidx0 s l I) as [E1 _ _|t1 q1 E1 _ _|t1 E1 _|t1 q1 k a rev flag v pred E1 _
                                          |t1 w k rev r1 old _ E1 _ _|t1 r1 _ E1 _]; rewrite E1 in Hin; simpl in Hin.
  - left. exact Hin.
  - destruct (t1 =? t); [contradiction|left; exact Hin].
  - destruct (t1 =? t); [|left; exact Hin]. destruct Hin as [<-|Hin]; [right; lia|left; exact Hin].
  - left. exact Hin.
  - left. exact Hin.
  - destruct (t1 =? t); [contradiction|left; exact Hin].
Qed.

Lemma W_keep s l t bs : kinv s -> (forall q, l <> LInvoke t q) -> W t s bs -> W t (kstep cidx0 s l) bs.
Proof.
  intros I Hl Hw Hni x' Hx.
  assert (Hni0 : thr s t <> PIdle).
  { intros E. apply Hni. destruct (rpanic (rs s)) eqn:Hp; [unfold kstep; rewrite Hp; exact E|].
    rewrite (kstep_mid cidx0 s l Hp). cbn [thr observe]. apply idle_stays; assumption. }
  apply (Hw Hni0). eapply window_grow; eauto.
Qed.

Lemma W_invoke s t q bs : thr s t = PIdle -> Forall (fun v => v <= dealt (rs s)) bs ->
  W t (kstep cidx0 s (LInvoke t q)) bs.
Proof.
  intros Ht Hb Hni x' Hx. unfold kstep in *. destruct (rpanic (rs s)); [contradiction|].
  cbn [thr log rs observe] in *. unfold step_invoke in *. rewrite Ht in *. cbn [log rs set_thr] in *.
  simpl in Hx. rewrite N.eqb_refl in Hx. destruct Hx as [Hx | Hx]; [destruct Hx|].
  eapply Forall_impl; [|exact Hb]. intros v Hv. simpl in Hv. lia.
Qed.

Section Thread.
Variable t : tid.
Variable E0 bs0 : list N.

Definition rt_inv (s : state) (new : list resp) : Prop :=
  base2 s /\
  Forall (fun v => v <= dealt (rs s)) (bs0 ++ E0 ++ exacts new) /\
  W t s (match new with [] => bs0 | _ => E0 ++ exacts new end) /\
  RF bs0 E0 new.

Lemma le_mono s s' l : dealt (rs s) <= dealt (rs s') -> Forall (fun v => v <= dealt (rs s)) l -> Forall (fun v => v <= dealt (rs s')) l.
Proof. intros H. apply Forall_impl. intros v Hv. lia. Qed.

Lemma run_local_rt fuel s queue acc s' qu ac ls :
  run_local cidx0 fuel s t queue acc = (s', qu, ac, ls) -> rt_inv s [] ->
  exists new, ac = acc ++ new /\ rt_inv s' new.
Proof.
  intros H R0. rewrite <- (app_nil_r acc) in H.
  apply (run_local_ind cidx0 rt_inv t) with (fuel := fuel) (s := s) (queue := queue) (acc := acc) (s' := s') (qu := qu) (ac := ac) (ls := ls) (new0 := []);
    [| |exact H|exact R0].
  - (* local steps *)
    intros s1 new l (B & A & Hw & F) Hp Hl. pose proof B as (I & _).
    pose proof (dealt_mono_kstep cidx0 s1 l I) as Hm.
    split; [apply base2_step, B|]. split; [eapply le_mono; eassumption|]. split; [|exact F].
    destruct Hl as [[q [-> Hidle]] | [-> | ->]].
    + apply W_invoke; [exact Hidle|]. apply Forall_app in A. destruct A as [A1 A2].
      destruct new; [exact A1|exact A2].
    + apply W_keep; [exact I|discriminate|exact Hw].
    + apply W_keep; [exact I|discriminate|exact Hw].
  - (* an answer *)
    intros s1 new r (B & A & Hw & F) Hp Hr. pose proof B as (I & U & Wv & Hv).
    pose proof (dealt_mono_kstep cidx0 s1 (LReturn t) I) as Hm.
    assert (Hidle : thr (kstep cidx0 s1 (LReturn t)) t = PIdle).
    { unfold kstep. rewrite Hp. cbn [thr observe]. unfold step_return. rewrite Hr. simpl. apply upd_same. }
    assert (Hni : thr s1 t <> PIdle) by (rewrite Hr; discriminate).
    split; [apply base2_step, B|]. split; [|split].
    + rewrite exacts_app, !app_assoc. apply Forall_app. split; [rewrite <- !app_assoc; eapply le_mono; eassumption|].
      unfold exacts. simpl. destruct (resp_exact_rev r) as [x|] eqn:Ex; [|constructor].
      simpl. constructor; [|constructor]. destruct (proj2 (Hv t) r x Hr (exact_hdr _ _ Ex)) as [_ Hle]. lia.
    + intros Hni'. rewrite Hidle in Hni'. contradiction.
    + apply RF_snoc; [exact F|]. intros y Hy.
      destruct (proj2 (Hv t) r y Hr Hy) as [(x' & Hin & Hle) _].
      pose proof (Hw Hni x' (or_introl Hin)) as Hb.
      eapply Forall_impl; [|exact Hb]. intros v Hlt. simpl in Hlt. lia.
Qed.

Lemma resume_rt s e queue s' qu ac ls :
  resume cidx0 s t e queue = (s', qu, ac, ls) -> rt_inv s [] -> rt_inv s' ac.
Proof.
  unfold resume. intros H R0. destruct (is_engine_pc (thr s t)).
  - destruct (run_local cidx0 resume_fuel (kstep cidx0 s (LEngine t e)) t queue []) as [[[s1 qu1] ac1] ls1] eqn:Er.
    injection H as <- _ <- _.
    destruct (run_local_rt _ _ _ _ _ _ _ _ Er) as [new [-> R]]; [|exact R].
    destruct R0 as (B & A & Hw & F). pose proof B as (I & _).
    split; [apply base2_step, B|]. split; [eapply le_mono; [apply dealt_mono_kstep, I|exact A]|].
    split; [apply W_keep; [exact I|discriminate|exact Hw]|exact F].
  - destruct (run_local_rt _ _ _ _ _ _ _ _ H R0) as [new [-> R]]. exact R.
Qed.
End Thread.
End Run.

(* ---------- the records of one step ---------- *)
Fixpoint mk (t : tid) (i inv0 : nat) (cm hd : option nat) (inj : bool) (queue : list req) (resps : list resp) {struct resps} : list rrec :=
  match resps, queue with
  | r :: resps', q :: queue' =>
      {| rr_t := t; rr_q := q; rr_resp := r; rr_inv := inv0; rr_ret := i; rr_commit := cm; rr_hold := hd; rr_injected := inj |}
      :: mk t i i None None false queue' resps'
  | _, _ => []
  end.

Lemma emit_mk t i : forall resps ts,
  snd (emit t i ts resps) =
  mk t i (match ts_inv ts with Some j => j | None => i end) (ts_commit ts) (ts_hold ts) (ts_inj ts) (ts_queue ts) resps.
Proof.
  induction resps as [|r resps IH]; intros ts; simpl; [reflexivity|].
  destruct (ts_queue ts) as [|q queue']; [reflexivity|].
  specialize (IH {| ts_queue := queue'; ts_inv := Some i; ts_commit := None; ts_hold := None; ts_inj := false |}).
  destruct (emit t i _ resps) as [ts' recs]. simpl in *. rewrite IH. reflexivity.
Qed.

Lemma emit_inv t i : forall resps ts,
  ts_inv (fst (emit t i ts resps)) = match resps with [] => ts_inv ts | _ => Some i end.
Proof.
  induction resps as [|r resps IH]; intros ts; simpl; [reflexivity|].
  destruct (ts_queue ts) as [|q queue']; [reflexivity|].
  specialize (IH {| ts_queue := queue'; ts_inv := Some i; ts_commit := None; ts_hold := None; ts_inj := false |}).
  destruct (emit t i _ resps) as [ts' recs]. simpl in *. rewrite IH. destruct resps; reflexivity.
Qed.

Lemma mk_fields t i : forall resps inv0 cm hd inj queue a,
  In a (mk t i inv0 cm hd inj queue resps) -> rr_t a = t /\ rr_ret a = i /\ In (rr_resp a) resps.
Proof.
  induction resps as [|r resps IH]; intros inv0 cm hd inj queue a; simpl; [contradiction|].
  destruct queue as [|q queue']; [contradiction|]. intros [<-|Hin]; [simpl; auto|].
  destruct (IH _ _ _ _ _ _ Hin) as (A & B & C). auto.
Qed.

Lemma in_exacts r x l : In r l -> resp_exact_rev r = Some x -> In x (exacts l).
Proof. intros Hin Hx. unfold exacts. apply in_flat_map. exists r. split; [exact Hin|]. rewrite Hx. left. reflexivity. Qed.

Lemma in_exact_revs a x l : In a l -> resp_exact_rev (rr_resp a) = Some x -> In x (exact_revs l).
Proof. intros Hin Hx. unfold exact_revs. apply in_flat_map. exists a. split; [exact Hin|]. rewrite Hx. left. reflexivity. Qed.

(* ---------- the real-time relation on a list of records ---------- *)
Definition precK (a : rrec) (j : nat) (t : tid) : bool :=
  Nat.ltb (rr_ret a) j || (Nat.eqb (rr_ret a) j && (rr_t a =? t)).

Definition pair_ok (a b : rrec) : Prop :=
  precedes a b = true -> forall x y, resp_exact_rev (rr_resp a) = Some x -> resp_hdr (rr_resp b) = Some y -> x < y.

Fixpoint RTf (before : list rrec) (l : list rrec) : Prop :=
  match l with
  | [] => True
  | b :: l' => (forall a, In a before -> pair_ok a b) /\ RTf (before ++ [b]) l'
  end.

Lemma RTf_app : forall l before l', RTf before (l ++ l') <-> RTf before l /\ RTf (before ++ l) l'.
Proof.
  induction l as [|b l IH]; intros before l'; simpl.
  - rewrite app_nil_r. tauto.
  - rewrite IH, <- app_assoc. simpl. tauto.
Qed.

Lemma RTf_In : forall l before, RTf before l -> forall b, In b l -> forall a, In a before -> pair_ok a b.
Proof.
  induction l as [|b0 l IH]; intros before H b Hb a Ha; [contradiction|].
  destruct H as [H0 H1]. destruct Hb as [<-|Hb]; [apply H0, Ha|].
  eapply IH; [exact H1|exact Hb|apply in_or_app; left; exact Ha].
Qed.

Lemma RTf_realtime : forall l before, RTf before l -> realtime_ok l = true.
Proof.
  induction l as [|a l IH]; intros before H; [reflexivity|]. destruct H as [_ H1]. simpl.
  apply andb_true_iff. split; [|eapply IH; exact H1].
  apply forallb_forall. intros b Hb.
  destruct (resp_exact_rev (rr_resp a)) as [x|] eqn:Ex; [|reflexivity].
  destruct (resp_hdr (rr_resp b)) as [y|] eqn:Ey; [|reflexivity].
  destruct (precedes a b) eqn:Ep; [|reflexivity].
  apply N.ltb_lt. eapply (RTf_In l (before ++ [a]) H1 b Hb a); eauto. apply in_or_app. right. left. reflexivity.
Qed.

(* the records of one step against the bounds the model gives for its answers *)
Lemma mk_RT t i : forall resps inv0 cm hd inj queue dn bsf Eacc,
  RF bsf Eacc resps ->
  (forall a, In a dn -> precK a inv0 t = true -> forall x, resp_exact_rev (rr_resp a) = Some x -> In x bsf) ->
  (forall a, In a dn -> (rr_ret a < i)%nat \/ (rr_ret a = i /\ rr_t a = t)) ->
  (forall a, In a dn -> forall x, resp_exact_rev (rr_resp a) = Some x -> In x Eacc) ->
  RTf dn (mk t i inv0 cm hd inj queue resps).
Proof.
  induction resps as [|r resps IH]; intros inv0 cm hd inj queue dn bsf Eacc F H1 Hret H2; simpl; [exact Logic.I|].
  destruct queue as [|q queue']; [exact Logic.I|]. destruct F as [F0 F1]. split.
  - intros a Ha Hp x y Hx Hy. simpl in Hy. specialize (F0 y Hy). rewrite Forall_forall in F0. apply F0.
    apply (H1 a Ha); [|exact Hx]. unfold precedes in Hp. simpl in Hp. exact Hp.
  - apply (IH i None None false queue' _ (Eacc ++ exacts [r]) (Eacc ++ exacts [r]) F1).
    + intros a Ha _ x Hx. apply in_app_or in Ha. destruct Ha as [Ha|[<-|[]]].
      * apply in_or_app. left. eapply H2; eauto.
      * apply in_or_app. right. simpl in Hx. eapply in_exacts; [left; reflexivity|exact Hx].
    + intros a Ha. apply in_app_or in Ha. destruct Ha as [Ha|[<-|[]]]; [apply Hret, Ha|right; simpl; auto].
    + intros a Ha x Hx. apply in_app_or in Ha. destruct Ha as [Ha|[<-|[]]].
      * apply in_or_app. left. eapply H2; eauto.
      * apply in_or_app. right. simpl in Hx. eapply in_exacts; [left; reflexivity|exact Hx].
Qed.

(* ---------- the walk over the steps, coupled with the model run ---------- *)
Lemma is_idle_true p : is_idle p = true -> p = PIdle.
Proof. destruct p; simpl; try discriminate; reflexivity. Qed.
Lemma is_idle_false p : is_idle p = false -> p <> PIdle.
Proof. intros H ->. discriminate H. Qed.

Lemma exact_revs_app l l' : exact_revs (l ++ l') = exact_revs l ++ exact_revs l'.
Proof. apply flat_map_app. Qed.

Lemma mk_nil t i inv0 cm hd inj queue : mk t i inv0 cm hd inj queue [] = [].
Proof. reflexivity. Qed.

Section Outer.
Variable cidx0 : bool.
Variable lo : N.

Definition bs_of (s : state) (t : tid) (bnd : tid -> list N) (done : list rrec) : list N :=
  if is_idle (thr s t) then exact_revs done else bnd t.

Lemma coupled_rt steps : forall s queues prev sf qf tss i done (bnd : tid -> list N),
  run_steps cidx0 s queues prev steps = Some (sf, qf) ->
  base2 lo s ->
  Forall (fun v => v <= dealt (rs s)) (exact_revs done) ->
  (forall t, Forall (fun v => v <= dealt (rs s)) (bnd t)) ->
  (forall t, W t s (bnd t)) ->
  (forall t j, ts_inv (lookup dflt t tss) = Some j ->
     (j < i)%nat /\ forall a, In a done -> precK a j t = true -> forall x, resp_exact_rev (rr_resp a) = Some x -> In x (bnd t)) ->
  (forall t, ts_inv (lookup dflt t tss) = None -> thr s t = PIdle) ->
  (forall a, In a done -> (rr_ret a < i)%nat) ->
  RTf done (records i tss steps).
Proof.
  induction steps as [|st steps IH]; intros s queues prev sf qf tss i done bnd H B O1 O1' O2 O3 O3' O4; [exact Logic.I|].
  cbn [run_steps] in H. rewrite records_cons.
  set (t := st_t st) in *. set (ts := lookup dflt t tss) in *.
  set (ts1 := step_ts i st ts) in *.
  set (bs0 := bs_of s t bnd done). set (E0 := exact_revs done).
  pose proof B as (I & U & Wv & Hv).
  assert (Hbs0 : Forall (fun v => v <= dealt (rs s)) bs0) by (unfold bs0, bs_of; destruct (is_idle (thr s t)); auto).
  assert (Hw0 : W t s bs0).
  { unfold bs0, bs_of. destruct (is_idle (thr s t)) eqn:Ei; [|apply O2].
    intros Hni. apply is_idle_true in Ei. contradiction. }
  (* the model side of the step *)
  assert (Hstep : exists s2 resps queues',
             run_steps cidx0 s2 queues' (st_sample st) steps = Some (sf, qf) /\
             resps = st_resps st /\ base2 lo s2 /\ dealt (rs s) <= dealt (rs s2) /\
             (forall t', t' <> t -> thr s2 t' = thr s t' /\ cur_dealt t' (log s2) = cur_dealt t' (log s)) /\
             Forall (fun v => v <= dealt (rs s2)) (bs0 ++ E0 ++ exacts resps) /\
             W t s2 (match resps with [] => bs0 | _ => E0 ++ exacts resps end) /\
             RF bs0 E0 resps /\
             (st_kind st = KHold -> thr s t <> PIdle)).
  { destruct (ekind_eqb (st_kind st) KHold) eqn:Ek.
    - match type of H with (if ?c then _ else _) = _ => destruct c eqn:Ec; [|discriminate] end.
      repeat (apply andb_true_iff in Ec; destruct Ec as [Ec ?]).
      destruct (seq_all_ok cidx0 seq_fuel s I) as [_ Hd].
      exists (seq_all cidx0 seq_fuel s), [], queues. split; [exact H|].
      split; [destruct (st_resps st); [reflexivity|discriminate]|].
      split; [apply (seq_all_rel cidx0 (base2 lo)); [intros; apply base2_step; assumption|exact B]|].
      split; [exact Hd|]. split; [intros t' _; apply seq_all_frame|].
      split; [change (exacts []) with (@nil N); rewrite app_nil_r; apply Forall_app; split; eapply le_mono; eauto|].
      split; [destruct (seq_all_frame cidx0 seq_fuel s t) as [A1 A2]; eapply W_frame; eauto|].
      split; [exact Logic.I|]. intros _ E. rewrite E in Ec. discriminate.
    - destruct (resume cidx0 s t (st_env st) (lookup [] t queues)) as [[[s1 qu] resps] ls] eqn:Er.
      match type of H with (if ?c then _ else _) = _ => destruct c eqn:Ec; [|discriminate] end.
      repeat (apply andb_true_iff in Ec; destruct Ec as [Ec ?]).
      assert (R1 : rt_inv lo t E0 bs0 s1 resps).
      { eapply resume_rt; [exact Er|]. split; [exact B|]. split; [|split; [exact Hw0|exact Logic.I]].
        change (exacts []) with (@nil N). rewrite app_nil_r. apply Forall_app. split; assumption. }
      destruct R1 as (B1 & A1 & W1 & F1). pose proof B1 as (I1 & _).
      destruct (resume_ok cidx0 _ _ _ _ _ _ _ _ Er I) as (_ & Hd1 & _).
      destruct (seq_all_ok cidx0 seq_fuel s1 I1) as [_ Hd2].
      exists (seq_all cidx0 seq_fuel s1), resps, (set_assoc t qu queues). split; [exact H|].
      split; [apply list_eqb_resp_eq; assumption|].
      split; [apply (seq_all_rel cidx0 (base2 lo)); [intros; apply base2_step; assumption|exact B1]|].
      split; [lia|]. split.
      { intros t' Hne. destruct (resume_other cidx0 _ _ _ _ _ _ _ _ t' Hne Er) as [A B'].
        destruct (seq_all_frame cidx0 seq_fuel s1 t') as [A' B'']. rewrite A', B'', A, B'. auto. }
      split; [eapply le_mono; [exact Hd2|exact A1]|].
      split; [destruct (seq_all_frame cidx0 seq_fuel s1 t) as [A' B'']; eapply W_frame; eauto|].
      split; [exact F1|]. intros Hk. rewrite Hk in Ek. discriminate. }
  destruct Hstep as (s2 & resps & queues' & Hrun & Hresps & B2 & Hd & Hoth & A2 & W2 & F2 & Hhold).
  clear H.
  destruct (emit t i ts1 (st_resps st)) as [ts2 recs] eqn:Eem.
  assert (Hrecs : recs = mk t i (match ts_inv ts1 with Some j => j | None => i end) (ts_commit ts1) (ts_hold ts1) (ts_inj ts1)
                           (ts_queue ts1) resps).
  { rewrite Hresps. rewrite <- (emit_mk t i (st_resps st) ts1), Eem. reflexivity. }
  assert (Hinv2 : ts_inv ts2 = match resps with [] => ts_inv ts1 | _ => Some i end).
  { rewrite Hresps. rewrite <- (emit_inv t i (st_resps st) ts1), Eem. reflexivity. }
  set (inv0 := match ts_inv ts1 with Some j => j | None => i end) in *.
  assert (Hinv1 : ts_inv ts1 = Some inv0 /\ (inv0 <= i)%nat).
  { unfold inv0, ts1, step_ts. cbn [ts_inv]. destruct (ts_inv ts) as [j|] eqn:Ej; [|split; [reflexivity|lia]].
    split; [reflexivity|]. destruct (O3 t j Ej) as [Hlt _]. lia. }
  (* the bound of the first answer covers everything that precedes it *)
  assert (H1 : forall a, In a done -> precK a inv0 t = true -> forall x, resp_exact_rev (rr_resp a) = Some x -> In x bs0).
  { intros a Ha Hp x Hx. unfold bs0, bs_of. destruct (is_idle (thr s t)) eqn:Ei; [eapply in_exact_revs; eauto|].
    apply is_idle_false in Ei. destruct (ts_inv ts) as [j|] eqn:Ej.
    - assert (inv0 = j) by (unfold inv0, ts1, step_ts; cbn [ts_inv]; rewrite Ej; reflexivity). subst inv0.
      destruct (O3 t j Ej) as [_ Hb]. rewrite H in Hp. eapply Hb; eauto.
    - exfalso. apply Ei. apply O3'. exact Ej. }
  assert (Hfields : forall a, In a recs -> rr_t a = t /\ rr_ret a = i /\ In (rr_resp a) resps).
  { intros a Ha. rewrite Hrecs in Ha. eapply mk_fields; eauto. }
  apply RTf_app. split.
  - rewrite Hrecs. eapply mk_RT; [exact F2|exact H1| |].
    + intros a Ha. left. apply O4, Ha.
    + intros a Ha x Hx. eapply in_exact_revs; eauto.
  - set (bnd' := fun u => if u =? t then (match resps with [] => bs0 | _ => E0 ++ exacts resps end) else bnd u).
    apply Forall_app in A2. destruct A2 as [A2a A2b].
    apply (IH s2 queues' (st_sample st) sf qf (set_assoc t ts2 tss) (S i) (done ++ recs) bnd' Hrun B2).
    + rewrite exact_revs_app. apply Forall_app. split; [apply Forall_app in A2b; apply A2b|].
      apply Forall_forall. intros x Hx. unfold exact_revs in Hx. apply in_flat_map in Hx. destruct Hx as [a [Ha Hx]].
      destruct (resp_exact_rev (rr_resp a)) as [x0|] eqn:Ex; [|contradiction]. destruct Hx as [<-|[]].
      destruct (Hfields a Ha) as (_ & _ & Hr). apply Forall_app in A2b. destruct A2b as [_ A2c].
      rewrite Forall_forall in A2c. apply A2c. eapply in_exacts; eauto.
    + intros u. unfold bnd'. destruct (N.eqb_spec u t) as [->|Hne]; [destruct resps; assumption|].
      eapply le_mono; [exact Hd|apply O1'].
    + intros u. unfold bnd'. destruct (N.eqb_spec u t) as [->|Hne]; [exact W2|].
      destruct (Hoth u Hne) as [X1 X2]. eapply W_frame; eauto.
    + intros u j Hj. destruct (N.eq_dec u t) as [->|Hne].
      * rewrite lookup_set_same in Hj. unfold bnd'. rewrite N.eqb_refl. rewrite Hinv2 in Hj.
        destruct resps as [|r0 resps'].
        -- destruct Hinv1 as [Hi1 Hi2]. rewrite Hi1 in Hj. injection Hj as <-. split; [lia|].
           rewrite Hrecs, mk_nil, app_nil_r. exact H1.
        -- injection Hj as <-. split; [lia|]. intros a Ha _ x Hx. apply in_app_or in Ha. destruct Ha as [Ha|Ha].
           ++ apply in_or_app. left. eapply in_exact_revs; eauto.
           ++ apply in_or_app. right. destruct (Hfields a Ha) as (_ & _ & Hr). eapply in_exacts; eauto.
      * rewrite lookup_set_other in Hj by exact Hne. destruct (O3 u j Hj) as [Hlt Hb]. split; [lia|].
        unfold bnd'. destruct (N.eqb_spec u t); [contradiction|].
        intros a Ha Hp x Hx. apply in_app_or in Ha. destruct Ha as [Ha|Ha]; [eapply Hb; eauto|].
        exfalso. destruct (Hfields a Ha) as (_ & Hr & _). unfold precK in Hp. rewrite Hr in Hp.
        apply orb_true_iff in Hp. destruct Hp as [Hp|Hp].
        -- apply Nat.ltb_lt in Hp. lia.
        -- apply andb_true_iff in Hp. destruct Hp as [Hp _]. apply Nat.eqb_eq in Hp. lia.
    + intros u Hn. destruct (N.eq_dec u t) as [->|Hne].
      * rewrite lookup_set_same, Hinv2 in Hn. destruct resps; [|discriminate].
        destruct Hinv1 as [Hi1 _]. rewrite Hi1 in Hn. discriminate.
      * rewrite lookup_set_other in Hn by exact Hne. destruct (Hoth u Hne) as [X1 _]. rewrite X1. apply O3', Hn.
    + intros a Ha. apply in_app_or in Ha. destruct Ha as [Ha|Ha]; [specialize (O4 a Ha); lia|].
      destruct (Hfields a Ha) as (_ & Hr & _). lia.
Qed.
End Outer.

Lemma init_tss_inv (progs : list (tid * list req)) t :
  ts_inv (lookup dflt t (map (fun tq => (fst tq, {| ts_queue := snd tq; ts_inv := None; ts_commit := None; ts_hold := None; ts_inj := false |})) progs)) = None.
Proof.
  induction progs as [|[t0 q0] progs IH]; simpl; [reflexivity|]. destruct (t0 =? t); [reflexivity|exact IH].
Qed.

(* the clause realtime_ok of rev_ok *)
Theorem sched_realtime_sound c : sched_valid c -> sched_check_core c = true -> realtime_ok (case_records c) = true.
Proof.
  intros V H. unfold sched_check_core in H.
  destruct (run_steps (sc_cidx0 c) _ _ _ _) as [[sf qf]|] eqn:Er; [|discriminate].
  pose proof (sched_valid_wf c V) as Wf.
  apply (RTf_realtime _ []). unfold case_records.
  eapply (coupled_rt (sc_cidx0 c) (sc_d0 c) _ _ _ _ _ _ _ 0%nat [] (fun _ => []) Er).
  - split; [apply kinv_init, Wf|]. split; [apply uinv_init|]. split; [apply winv_init|apply hinv_init].
  - constructor.
  - intros t. constructor.
  - intros t _ x' _. constructor.
  - intros t j Hj. rewrite (init_tss_inv (sc_progs c) t) in Hj. discriminate.
  - intros t _. reflexivity.
  - intros a [].
Qed.

Theorem sched_realtime_sound_checked c : sched_check c = true -> realtime_ok (case_records c) = true.
Proof. intros H. destruct (sched_check_split c H). apply sched_realtime_sound; assumption. Qed.
