(* The explicit failure outcomes of Model/WatchSys.v never occur on a reachable state, for every cache size >= 1 and
   every parameter choice for which catchUpEvents fits (the constants of the code do):
   - no Go panic: Ring.Add on a zero-size ring, a nil event or an out-of-range slice in FindEvents, a send on a closed
     subscriber channel in Stream, the integer division by zero in catchUpEvents;
   - no watcher blocked for ever in catchUpEvents (PhHung). *)
From Coq Require Import ZifyN ZifyNat ZifyBool Sorted.
From KB Require Import Base.Bytes Model.WatchSys Proofs.WatchRing Proofs.WatchSys Proofs.WatchCatchup.
Local Open Scope N_scope.

Definition healthy_phase (w : watcher) : Prop :=
  match w_phase w with PhPanic | PhHung => False | _ => True end.

Definition healthy (s : sys) : Prop := s_panic s = false /\ Forall healthy_phase (s_ws s).

Lemma healthy_upd s i f :
  (forall w, In w (s_ws s) -> healthy_phase w -> healthy_phase (f w)) -> healthy s -> healthy (upd_w s i f).
Proof.
  intros Hf [Hp Hw]. split; [exact Hp|]. unfold upd_w, s_set_ws. cbn [s_ws].
  revert i. induction (s_ws s) as [|h t IH]; intros [|i]; cbn [upd_nth]; try exact Hw.
  - apply Forall_cons_iff in Hw as [Hh Ht]. constructor; [apply Hf; [left; reflexivity|exact Hh]|exact Ht].
  - apply Forall_cons_iff in Hw as [Hh Ht]. constructor; [exact Hh|]. apply IH; [|exact Ht].
    intros w Hin. apply Hf. right. exact Hin.
Qed.

Lemma hp_same w w' : w_phase w' = w_phase w -> healthy_phase w -> healthy_phase w'.
Proof. unfold healthy_phase. intros ->. auto. Qed.

Lemma hp_offer pa item w : healthy_phase w -> healthy_phase (offer pa item w).
Proof. unfold offer. destruct (w_reg w); [|auto]. destruct (_ <? _); apply hp_same; reflexivity. Qed.
Lemma hp_delete w cd : healthy_phase w -> healthy_phase (delete_watcher w cd).
Proof. unfold delete_watcher. destruct (w_reg w); apply hp_same; reflexivity. Qed.
Lemma hp_read s w : healthy_phase w -> healthy_phase (watch_read s w).
Proof.
  unfold watch_read, healthy_phase. destruct (w_phase w) eqn:E; try (rewrite E; auto; fail).
  destruct (w_S w =? 0); [rewrite E; auto|]. cbn. auto.
Qed.
Lemma hp_proc pa w : healthy_phase w -> healthy_phase (proc_step pa w).
Proof.
  unfold proc_step, healthy_phase. destruct (w_phase w) eqn:E; try (rewrite E; auto; fail).
  destruct (w_hold w).
  - destruct (_ <? _); cbn; rewrite ?E; auto.
  - destruct (chan_recv (w_sub w)) as [[b c]|]; [cbn; rewrite ?E; auto|].
    destruct (c_closed (w_sub w)); cbn; rewrite ?E; auto.
Qed.
Lemma hp_consume w : healthy_phase w -> healthy_phase (consume_step w).
Proof.
  unfold consume_step. destruct (chan_recv (w_out w)) as [[b c]|]; [apply hp_same; reflexivity|].
  destruct (c_closed (w_out w)); [apply hp_same; reflexivity|auto].
Qed.

(* Watch neither panics nor hangs: the FindEvents result it decides on is the window specification *)
Lemma hp_spawn pa l s w :
  fits_params pa -> winv l (s_cached s) (s_hub s) w -> healthy_phase w -> healthy_phase (watch_spawn pa s w).
Proof.
  intros Hfit W H. unfold watch_spawn. destruct (w_phase w) eqn:E; try exact H.
  - destruct (w_S w =? 0); [exact I|exact H].
  - destruct (wi_read _ _ _ _ W ret E) as [_ [n [_ Hret]]].
    destruct (decide_never_hangs pa l (firstn n (s_cached s)) (w_S w) (w_P w) (s_committed s) Hfit) as [Hh Hp].
    rewrite <- Hret in Hh, Hp.
    destruct (watch_decide pa (w_S w) (w_P w) ret (s_committed s)); try exact I; congruence.
Qed.

Lemma healthy_step pa l s lb : 0 < l -> fits_params pa -> ginv l s -> healthy s -> healthy (step pa s lb).
Proof.
  intros Hl Hfit G [Hp Hw]. pose proof (gi_ws _ _ G) as HW. rewrite Forall_forall in HW.
  assert (H : healthy s) by (split; assumption).
  unfold step. rewrite Hp.
  destruct lb as [we| | |order|i|sr pf|i|i|i|i|i].
  - destruct (s_cur s); [exact H|]. destruct (_ && _); [|exact H]. split; [first [reflexivity|exact Hp]|exact Hw].
  - destruct (s_cur s) as [e|]; [|exact H].
    destruct (ring_add_inv l (s_cached s) (s_cache s) e (gi_ring _ _ G)) as [r' [Hadd _]]. rewrite Hadd.
    split; [first [reflexivity|exact Hp]|exact Hw].
  - destruct (s_cur s); [exact H|]. destruct (s_pending s); [exact H|]. destruct (_ <? _); [|exact H]. split; [first [reflexivity|exact Hp]|exact Hw].
  - destruct (s_wchan s) as [|item rest]; [exact H|].
    replace (existsb send_panics (s_ws s)) with false.
    + split; [first [reflexivity|exact Hp]|]. cbn [s_ws]. apply Forall_map. eapply Forall_impl; [|exact Hw]. intros w. apply hp_offer.
    + symmetry. apply not_true_is_false. intros Hex. apply existsb_exists in Hex as [w [Hin Hs]].
      unfold send_panics in Hs. apply andb_true_iff in Hs as [Hr Hc]. rewrite (wi_reg _ _ _ _ (HW w Hin) Hr) in Hc. discriminate.
  - apply healthy_upd; [|exact H]. intros w _ Hh. destruct (_ && _); [apply hp_delete|]; exact Hh.
  - split; [first [reflexivity|exact Hp]|]. unfold s_set_ws. cbn [s_ws]. apply Forall_app. split; [exact Hw|]. constructor; [exact I|constructor].
  - apply healthy_upd; [|exact H]. intros w _. apply hp_read.
  - assert (H' : healthy (upd_w s i (watch_spawn pa s))).
    { apply healthy_upd; [|exact H]. intros w Hin. apply (hp_spawn pa l); [exact Hfit|apply HW; exact Hin]. }
    destruct (nth_error (s_ws s) i) as [w|] eqn:En; [|exact H].
    assert (Hh : healthy_phase (watch_spawn pa s w)).
    { apply (hp_spawn pa l); [exact Hfit|apply HW; eapply nth_error_In; exact En|].
      rewrite Forall_forall in Hw. apply Hw. eapply nth_error_In. exact En. }
    unfold healthy_phase in Hh. destruct (w_phase (watch_spawn pa s w)); try exact H'; contradiction.
  - apply healthy_upd; [|exact H]. intros w _. apply hp_proc.
  - apply healthy_upd; [|exact H]. intros w _. apply hp_consume.
  - apply healthy_upd; [|exact H]. intros w _. apply hp_same. reflexivity.
Qed.

Theorem no_panic_no_hang pa l c0 ls :
  0 < l -> fits_params pa ->
  let s := run pa ls (init l c0) in
  s_panic s = false /\ forall i w, nth_error (s_ws s) i = Some w -> w_phase w <> PhPanic /\ w_phase w <> PhHung.
Proof.
  intros Hl Hfit. cbv zeta.
  assert (H : healthy (run pa ls (init l c0))).
  { induction ls as [|lb ls IH] using rev_ind.
    - split; [reflexivity|constructor].
    - rewrite run_snoc. apply (healthy_step pa l); [exact Hl|exact Hfit|apply reachable_inv; exact Hl|exact IH]. }
  destruct H as [Hp Hw]. split; [first [reflexivity|exact Hp]|]. intros i w Hn. rewrite Forall_forall in Hw.
  specialize (Hw w (nth_error_In _ _ Hn)). unfold healthy_phase in Hw.
  destruct (w_phase w); split; try discriminate; contradiction.
Qed.
