(* The C03 oracle accepts every response the model produces on the engine image of a well-formed
   client history without marker values (read level; Get with an explicit revision, List, Count). *)
From KB Require Import Base.Bytes Base.Cases Model.Coder Model.ReadSys Model.C03Cases
  Proofs.Coder Proofs.ReadSys Proofs.ReadSysSnap Proofs.ReadSysThm Proofs.ReadSysSpec.
Local Open Scope N_scope.

Lemma okv_eqb_refl x : okv_eqb x x = true.
Proof. unfold okv_eqb. rewrite !beqb_refl, N.eqb_refl. reflexivity. Qed.
Lemma list_eqb_refl {A} (e : A -> A -> bool) (l : list A) : (forall x, e x x = true) -> list_eqb e l l = true.
Proof. intros H. induction l as [|x l IH]; [reflexivity|]. cbn. rewrite H, IH. reflexivity. Qed.
Lemma vn_opt_refl (x : option (bytes * N)) : opt_eqb vn_eqb x x = true.
Proof. destruct x as [[v r]|]; [|reflexivity]. cbn. unfold vn_eqb. cbn. rewrite beqb_refl, N.eqb_refl. reflexivity. Qed.

(* the response recorded in q is what the model answers on the ideal layout of the history Vs *)
Definition read_is_model (Vs : list (@vrec (option bytes))) (fv : option bytes) (cur : N) (q : c03_read) : Prop :=
  let s := raw_of (enc_store Vs) in
  match q with
  | QGet k rev out => out = get_model s cur k rev
  | QList a b rev limit out => out = list_model s fv single_part cur a b rev limit
  | QCount a b out => out = count_model s fv single_part true cur a b
  | QStream _ _ _ _ => False
  | QEtcd _ _ _ _ _ => False
  end.

(* the reads C03 speaks about, with the alphabet hypothesis of C10 *)
Definition read_valid (fv : option bytes) (cur : N) (q : c03_read) : Prop :=
  match q with
  | QGet k rev _ => alpha k /\ 0 < rev /\ rev < two64
  | QList a b rev limit _ => alpha a /\ alpha b /\ bcmp a b = Lt /\ floor_check fv (eff_rev rev cur) = FOk /\ (0 <= limit < max_i64)%Z
  | QCount a b _ => alpha a /\ alpha b /\ bcmp a b = Lt /\ floor_check fv cur = FOk
  | QStream _ _ _ _ => False
  | QEtcd _ _ _ _ _ => False
  end.

Theorem c03_read_sound Vs fv cur q : wf_store Vs -> no_marker Vs -> read_valid fv cur q -> read_is_model Vs fv cur q ->
  read_meets false in_range Vs cur q = true.
Proof.
  intros WF NM V M. destruct q as [k rev out|a b rev limit out|a b out|a b rev out|a b rev limit out]; cbn [read_valid read_is_model] in *; try contradiction.
  - destruct V as (Ak & H0 & Hr). subst out. rewrite (c03_get Vs cur k rev WF NM Ak Hr).
    cbn [read_meets]. unfold eff_rev. replace (rev =? 0) with false by (symmetry; apply N.eqb_neq; lia).
    destruct (find_key k (snapshot_spec Vs rev)) as [[v r]|]; apply vn_opt_refl.
  - destruct V as (Aa & Ab & Lab & FL & HL). subst out.
    rewrite (c03_range Vs fv cur a b rev limit WF NM Aa Ab Lab FL HL). cbn zeta.
    unfold eff, eff_rev. set (S := in_range a b (snapshot_spec Vs (if rev =? 0 then cur else rev))).
    cbn [read_meets]. unfold eff_rev, limited. fold S.
    destruct (0 <? limit)%Z; rewrite (list_eqb_refl okv_eqb _ okv_eqb_refl), Bool.eqb_reflx; reflexivity.
  - destruct V as (Aa & Ab & Lab & FL). subst out.
    rewrite (c03_count Vs fv cur a b WF NM Aa Ab Lab FL). cbn [read_meets]. apply N.eqb_refl.
Qed.

(* hence the per-read verdict on such a response is "holds" *)
Corollary c03_read_verdict_none Vs compat fv cur floor q : wf_store Vs -> no_marker Vs -> read_valid fv cur q ->
  read_is_model Vs fv cur q -> read_verdict false Vs compat cur floor q = None.
Proof.
  intros WF NM V M. unfold read_verdict. destruct (in_scope compat Vs cur floor q); [|reflexivity]. cbn [negb].
  rewrite (c03_read_sound Vs fv cur q WF NM V M). reflexivity.
Qed.
