(* C01: a request that is answered "condition failed" or with an error has no applied commit. *)
From KB Require Import Model.KeySys Model.C01Cases Proofs.RevSys Proofs.KeySys Proofs.KeySysLog Proofs.KeySysChain.
From Coq Require Import ZifyN ZifyNat ZifyBool Lia.
Local Open Scope N_scope.

(* did thread t's current request (since its latest EInvoke / EReturn) apply a commit? *)
Fixpoint applied_cur (t : tid) (l : list entry) : bool :=
  match l with
  | [] => false
  | EApplied t' _ _ _ _ _ _ _ :: l' => if t' =? t then true else applied_cur t l'
  | EInvoke t' _ :: l' => if t' =? t then false else applied_cur t l'
  | EReturn t' _ :: l' => if t' =? t then false else applied_cur t l'
  | _ :: l' => applied_cur t l'
  end.

Definition pc_success (p : pc) : bool :=
  match p with
  | PNotify _ _ _ ROk _ => true
  | PReturn r => resp_succ r
  | _ => false
  end.

Definition failinv (s : state) : Prop := forall t, applied_cur t (log s) = true -> pc_success (thr s t) = true.

Lemma failinv_set_thr_other s t p :
  failinv s -> pc_success (thr s t) = false -> failinv (set_thr s t p).
Proof.
  intros F H t'. simpl. unfold upd. destruct (N.eqb_spec t' t) as [->|_]; [|apply F].
  intros Ha. specialize (F t Ha). congruence.
Qed.

Lemma failinv_observe s : failinv s -> failinv (observe s).
Proof. intros F t. apply F. Qed.

Lemma failinv_apply s t k a rev i v w k' rev' old :
  failinv s -> failinv (set_thr (apply_write s t k a rev i v) t (PNotify w k' rev' ROk old)).
Proof.
  intros F t'. simpl. unfold upd. rewrite (N.eqb_sym t' t).
  destruct (N.eqb_spec t t') as [<-|_]; [reflexivity|apply F].
Qed.

Lemma failinv_step cidx0 s l : kinv s -> failinv s -> failinv (kstep cidx0 s l).
Proof.
  intros I F. unfold kstep. destruct (rpanic (rs s)) eqn:Hp; [exact F|]. apply failinv_observe.
  destruct l as [t q|t|t e|t|t|].
  - unfold step_invoke. destruct (thr s t) eqn:Ht; try exact F.
    intros t'. simpl. unfold upd. rewrite (N.eqb_sym t' t).
    destruct (N.eqb_spec t t') as [<-|_]; [discriminate|apply F].
  - unfold step_deal.
    destruct (thr s t) eqn:Ht; try exact F; unfold do_deal;
      repeat match goal with |- failinv (if ?x then _ else _) => destruct x end;
      (intros t'; simpl; unfold upd; destruct (N.eqb_spec t' t) as [->|_]; [|apply F];
       intros Ha; specialize (F t Ha); rewrite Ht in F; discriminate).
  - unfold step_engine.
    destruct (thr s t) eqn:Ht; try exact F;
      repeat match goal with
             | |- failinv (match ?x with _ => _ end) => destruct x eqn:?
             | |- failinv (if ?x then _ else _) => destruct x eqn:?
             end;
      try exact F;
      first [apply failinv_apply; exact F | apply failinv_set_thr_other; [exact F|rewrite Ht; reflexivity]].
  - unfold step_notify. destruct (thr s t) eqn:Ht; try exact F.
    assert (Hb : committed (rs s) < rev <= dealt (rs s)) by (apply (held_rev_bounds s t rev I); rewrite Ht; reflexivity).
    match goal with |- context [if rpanic ?x then _ else _] => destruct (rpanic x) end; [exact F|].
    intros t'. simpl. unfold upd. destruct (N.eqb_spec t' t) as [->|_]; [|apply F].
    intros Ha. specialize (F t Ha). rewrite Ht in F. simpl in F. destruct r; try discriminate.
    destruct w; simpl; auto. destruct (N.eqb_spec rev 0); [lia|reflexivity].
  - unfold step_return. destruct (thr s t) eqn:Ht; try exact F.
    intros t'. simpl. unfold upd. rewrite (N.eqb_sym t' t).
    destruct (N.eqb_spec t t') as [<-|_]; [discriminate|apply F].
  - unfold step_seq. destruct (seq_ready (rs s)); exact F.
Qed.

Theorem failinv_reachable cidx0 ls d0 store :
  wf_store d0 store -> failinv (krun cidx0 ls (kinit d0 store)).
Proof.
  intros W. apply (inv_run cidx0 failinv); [apply failinv_step|apply kinv_init, W|].
  intros t. simpl. discriminate.
Qed.

(* the statement in terms of the log: whenever a response without success is logged, the request has
   no applied commit *)
Fixpoint failures_clean (l : list entry) : Prop :=
  match l with
  | [] => True
  | e :: l' =>
      match e with
      | EReturn t r => resp_succ r = false -> applied_cur t l' = false
      | _ => True
      end /\ failures_clean l'
  end.

Record failinv2 (s : state) : Prop := { f_inv : failinv s; f_clean : failures_clean (log s) }.

Lemma failinv2_step cidx0 s l : kinv s -> failinv2 s -> failinv2 (kstep cidx0 s l).
Proof.
  intros I [F C]. split; [apply failinv_step; assumption|].
  destruct (log_move_step cidx0 s l I) as [E1 E2 E3|t q E1 E2 E3|t E1 E2|t q k a rev flag v pred E1 E2
                                          |t w k rev r old Ht E1 E2 E3|t r Ht E1 E2];
    rewrite E1; simpl; auto.
  split; [|exact C]. intros Hs.
  destruct (applied_cur t (log s)) eqn:Ha; [|reflexivity].
  specialize (F t Ha). rewrite Ht in F. simpl in F. congruence.
Qed.

Theorem failures_clean_reachable cidx0 ls d0 store :
  wf_store d0 store -> failures_clean (log (krun cidx0 ls (kinit d0 store))).
Proof.
  intros W. apply f_clean. apply (inv_run cidx0 failinv2); [apply failinv2_step|apply kinv_init, W|].
  split; [intros t; simpl; discriminate|exact Logic.I].
Qed.
