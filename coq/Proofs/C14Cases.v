(* The C14 oracle (stated on the implementation's trace only) accepts every trace the model
   produces: a correspondence case that agrees with the model cannot violate the oracle. *)
From KB Require Import Base.Cases Model.Election Model.C14Cases Proofs.Election.
Local Open Scope N_scope.

Lemma obeq_eq a b : obeq a b = true <-> a = b.
Proof.
  unfold obeq, opt_eqb. destruct a, b; try (split; congruence).
  rewrite beqb_eq. split; congruence.
Qed.
Lemma obeq_refl a : obeq a a = true.
Proof. apply obeq_eq. reflexivity. Qed.

Lemma res_eqb_eq a b : res_eqb a b = true -> a = b.
Proof. destruct a, b; simpl; congruence. Qed.

Lemma res_ok_is_ok st m o : res_ok st m o = true -> res_is_ok o = res_is_ok m.
Proof.
  unfold res_ok. intros H. apply orb_true_iff in H as [H|H]; [apply res_eqb_eq in H; subst; reflexivity|].
  apply andb_true_iff in H as [H Ho]. apply andb_true_iff in H as [_ Hm].
  apply res_eqb_eq in Ho, Hm. subst. reflexivity.
Qed.

(* the relation between a model state and the oracle's trace state *)
Definition R (s : sys) (o : ostate) : Prop :=
  rec_bytes (store s) = o_st o /\ forall c, observed s c = o_obs o c.

Lemma upd_ext {A} (f g : cid -> A) c v : (forall x, f x = g x) -> forall x, upd f c v x = upd g c v x.
Proof. intros H x. unfold upd. destruct (x =? c); [reflexivity|apply H]. Qed.

Lemma orc_step_sound st0 s o x :
  Inv st0 s -> R s o ->
  res_is_ok (s_res x) = res_is_ok (o_res (run_op s (s_label x))) ->
  (match s_label x with LGet _ _ _ => o_observed (run_op s (s_label x)) | _ => None end) = s_got x ->
  rec_bytes (store (step s (s_label x))) = s_stored x ->
  exists o', orc_step o x = Some o' /\ R (step s (s_label x)) o'.
Proof.
  intros I [Rs Ro] Hres Hgot Hst.
  unfold orc_step. rewrite <- Hst, Hres, <- Rs, <- Hgot. clear Hst Hres Hgot.
  destruct (s_label x) as [c e t|c h b e t|c h b e t|c]; unfold step; cbn [run_op lab_cid store observed];
    [| | |cbn [o_store o_observed]; rewrite obeq_refl; eexists; (split; [reflexivity|]); split; cbn [o_st o_obs]; [reflexivity|exact Ro]].
  - (* Get *)
    unfold do_get. destruct e.
    + destruct (store s) as [r|] eqn:S; cbn [rec_bytes option_map].
      * destruct (rholder r) as [hh|]; cbn [o_store o_observed rec_bytes option_map]; rewrite obeq_refl;
          eexists; (split; [reflexivity|]); split; cbn [o_st o_obs store observed o_store o_observed rec_bytes option_map];
          try reflexivity; apply upd_ext; exact Ro.
      * cbn [o_store o_observed rec_bytes option_map]. rewrite obeq_refl.
        eexists; (split; [reflexivity|]); split; cbn [o_st o_obs]; [reflexivity|exact Ro].
    + cbn [o_store o_observed]. rewrite obeq_refl.
      eexists; (split; [reflexivity|]); split; cbn [o_st o_obs]; [reflexivity|exact Ro].
  - (* Create *)
    unfold do_create.
    destruct e; destruct (store s) as [r|] eqn:S; cbn [rec_bytes option_map o_store o_observed o_res rbytes];
      try (rewrite obeq_refl; eexists; (split; [reflexivity|]); split; cbn [o_st o_obs]; [reflexivity|exact Ro]).
    + (* COk on an absent record (CUnknown on an absent record is closed by computation above) *)
      destruct t as [n|]; cbn [may_hide refreshes andb]; rewrite ?obeq_refl; cbn [obeq opt_eqb andb];
        eexists; (split; [reflexivity|]); split; cbn [o_st o_obs]; try reflexivity; apply upd_ext; exact Ro.
  - (* Update *)
    unfold do_update. destruct (tso (cands s c) =? 0) eqn:T.
    + cbn [o_store o_observed o_res]. rewrite obeq_refl.
      eexists; (split; [reflexivity|]); split; cbn [o_st o_obs]; [reflexivity|exact Ro].
    + apply N.eqb_neq in T.
      pose proof (inv_tso _ _ I c T) as Hobs. pose proof (inv_last _ _ I c) as Hlast.
      destruct (observed s c) as [y|] eqn:Oc; [|congruence]. simpl in Hlast.
      assert (J : cas_holds (store s) (lastVal (cands s c)) = true ->
                  forall after, match rec_bytes (store s), o_obs o c with
                                | Some x0, Some y0 => beqb x0 y0 && obeq after after
                                | _, _ => false
                                end = true).
      { intros C after. apply cas_holds_spec in C. rewrite C, <- Ro, Oc, Hlast, beqb_refl, obeq_refl. reflexivity. }
      destruct e; cbn [o_store o_observed o_res];
        try (rewrite obeq_refl; eexists; (split; [reflexivity|]); split; cbn [o_st o_obs]; [reflexivity|exact Ro]).
      * destruct (cas_holds (store s) (lastVal (cands s c))) eqn:C; cbn [o_store o_observed o_res rec_bytes option_map rbytes].
        -- specialize (J eq_refl (Some b)). destruct t as [n|].
           ++ rewrite J. eexists; (split; [reflexivity|]); split; cbn [o_st o_obs]; [reflexivity|exact Ro].
           ++ rewrite J. cbn [may_hide andb].
              destruct (obeq (Some b) (rec_bytes (store s)));
                eexists; (split; [reflexivity|]); split; cbn [o_st o_obs]; try reflexivity; exact Ro.
        -- rewrite obeq_refl. eexists; (split; [reflexivity|]); split; cbn [o_st o_obs]; [reflexivity|exact Ro].
      * destruct (cas_holds (store s) (lastVal (cands s c))) eqn:C; cbn [o_store o_observed o_res rec_bytes option_map rbytes].
        -- specialize (J eq_refl (Some b)). rewrite J. cbn [may_hide andb].
           destruct (obeq (Some b) (rec_bytes (store s)));
             eexists; (split; [reflexivity|]); split; cbn [o_st o_obs]; try reflexivity; exact Ro.
        -- rewrite obeq_refl. eexists; (split; [reflexivity|]); split; cbn [o_st o_obs]; [reflexivity|exact Ro].
      * destruct (cas_holds (store s) (lastVal (cands s c))); cbn [o_store o_observed o_res]; rewrite obeq_refl;
          (eexists; (split; [reflexivity|]); split; cbn [o_st o_obs]; [reflexivity|exact Ro]).
Qed.

Lemma orc_run_sound st0 xs : forall s o,
  Inv st0 s -> R s o -> c14_run s xs = true -> orc_run o xs = true.
Proof.
  induction xs as [|x tl IH]; intros s o I Rr C; [reflexivity|].
  cbn [c14_run] in C.
  apply andb_true_iff in C as [C Ctl]. apply andb_true_iff in C as [C _]. apply andb_true_iff in C as [C Hst].
  apply andb_true_iff in C as [C Hgot]. apply andb_true_iff in C as [C _].
  apply res_ok_is_ok in C. apply obeq_eq in Hst. apply obeq_eq in Hgot.
  destruct (orc_step_sound st0 s o x I Rr C Hgot Hst) as [o' [E R']].
  cbn [orc_run]. rewrite E. eapply IH; [apply inv_step, I|exact R'|assumption].
Qed.

Lemma c14_oracle_sound c : c14_check c = true -> c14_oracle c = None.
Proof.
  unfold c14_check, c14_oracle. intros C.
  rewrite (orc_run_sound (rec_bytes (k_init c)) (k_steps c) (init (k_init c)) _ (inv_init _)); [reflexivity| |exact C].
  split; reflexivity.
Qed.
