(* The metrics decorator (Model/C11Wrap.v) is invisible and truthful, for every decorated adapter and every
   operation sequence. *)
From KB Require Import Model.C11Wrap Proofs.C11Cases.

(* the decorator holds a wrapped iterator exactly when the driver holds an item *)
Definition hinv {A} (w : wstate A) : Prop := w_held w = None <-> w_hw w = None.

Lemma hinv_init A : hinv (w_init A).
Proof. unfold hinv, w_init; cbn. tauto. Qed.

Lemma nth_error_some_of_leb {X} (l : list X) j : Nat.leb (S j) (length l) = true -> nth_error l j <> None.
Proof. intros H. apply Nat.leb_le in H. apply nth_error_Some. exact H. Qed.

Lemma w_step_hinv A (w : wstate A) o : hinv w -> hinv (fst (fst (w_step A w o))).
Proof.
  intros H. unfold hinv in *. destruct o; cbn [w_step].
  - destruct (resolve_all _ _); [destruct (a_batch _ _ _) as [[? ?] ?]|]; cbn; exact H.
  - destruct (a_get _ _ _); cbn; exact H.
  - destruct (a_del _ _ _); cbn; exact H.
  - cbn; exact H.
  - destruct (Nat.leb _ _) eqn:E; cbn [fst w_held w_hw].
    + apply nth_error_some_of_leb in E. split; intros X; [contradiction|discriminate].
    + tauto.
  - destruct (w_held w) eqn:Eh; destruct (w_hw w) eqn:Ew; try (cbn; rewrite Eh, Ew; exact H).
    destruct (a_delcur _ _ _) as [[? ?] ?]; cbn. exact H.
  - destruct (resolve_all _ _); [destruct (a_batch _ _ _) as [[? ?] ?]|]; cbn; exact H.
Qed.

(* one step: the calls that reach the decorated adapter, the held item and the answer are those of the bare adapter *)
Lemma w_step_transparent A (w : wstate A) o : hinv w ->
  a_step A (w_in w) (w_held w) o =
  (w_in (fst (fst (w_step A w o))), w_held (fst (fst (w_step A w o))), snd (fst (w_step A w o))).
Proof.
  intros H. destruct o; cbn [w_step a_step].
  - destruct (resolve_all _ _); [destruct (a_batch _ _ _) as [[? ?] ?]|]; reflexivity.
  - destruct (a_get _ _ _); reflexivity.
  - destruct (a_del _ _ _); reflexivity.
  - reflexivity.
  - destruct (Nat.leb _ _); reflexivity.
  - unfold hinv in H. destruct (w_held w) as [i|] eqn:Eh, (w_hw w) as [b|] eqn:Ew.
    + destruct (a_delcur _ _ _) as [[? ?] ?]. cbn; rewrite ?Eh; reflexivity.
    + exfalso. destruct H as [_ H]. specialize (H eq_refl). discriminate.
    + cbn; rewrite ?Eh; reflexivity.
    + cbn; rewrite ?Eh; reflexivity.
  - destruct (resolve_all _ _); [destruct (a_batch _ _ _) as [[? ?] ?]|]; reflexivity.
Qed.

Lemma w_run_transparent A ops : forall (w : wstate A), hinv w ->
  a_run A (w_in w) (w_held w) ops = (w_in (fst (w_run A w ops)), map fst (snd (w_run A w ops))).
Proof.
  induction ops as [|o rest IH]; intros w H; cbn [a_run w_run]; [reflexivity|].
  rewrite (w_step_transparent A w o H).
  pose proof (w_step_hinv A w o H) as H'.
  destruct (w_step A w o) as [[w' ob] es]. cbn [fst snd] in *.
  rewrite (IH w' H'). destruct (w_run A w' rest) as [wf r]. reflexivity.
Qed.

(* one step is truthful *)
Lemma wtag_eqb_refl t : wtag_eqb t t = true. Proof. destruct t; reflexivity. Qed.

Lemma call_tags_app a b : call_tags (a ++ b) = call_tags a ++ call_tags b.
Proof. induction a as [|e t IH]; cbn [call_tags app]; [reflexivity|]. destruct (emission_call_tag e); cbn; rewrite IH; reflexivity. Qed.

Lemma batch_counts_app a b : batch_counts (a ++ b) = batch_counts a ++ batch_counts b.
Proof. unfold batch_counts. apply flat_map_app. Qed.

Lemma closing_silent (hw : option bool) :
  call_tags (match hw with Some l => close_emissions 0 l | None => [] end) = [] /\
  batch_counts (match hw with Some l => close_emissions 0 l | None => [] end) = [].
Proof. destruct hw; split; reflexivity. Qed.

Lemma w_step_truthful A (w : wstate A) o :
  truthful_step (o, (snd (fst (w_step A w o)), snd (w_step A w o))) = true.
Proof.
  unfold truthful_step. destruct o; cbn [w_step].
  - destruct (resolve_all _ _); [destruct (a_batch _ _ _) as [[? c] ?]|]; cbn [fst snd]; [|reflexivity].
    destruct c; cbn; rewrite ?N.eqb_refl; reflexivity.
  - destruct (a_get _ _ _) as [c ?]; cbn. destruct c; reflexivity.
  - destruct (a_del _ _ _) as [? c]; cbn. destruct c; reflexivity.
  - cbn. reflexivity.
  - destruct (w_hw w); destruct (Nat.leb _ _); reflexivity.
  - destruct (w_held w), (w_hw w); try reflexivity. destruct (a_delcur _ _ _) as [[? c] ?]; cbn. destruct c; reflexivity.
  - destruct (resolve_all _ _); [destruct (a_batch _ _ _) as [[? c] ?]|]; cbn [fst snd]; [|reflexivity].
    destruct c; cbn; rewrite ?N.eqb_refl; reflexivity.
Qed.

Lemma w_run_truthful A ops : forall (w : wstate A),
  forallb truthful_step (combine ops (snd (w_run A w ops))) = true.
Proof.
  induction ops as [|o rest IH]; intros w; cbn [w_run]; [reflexivity|].
  pose proof (w_step_truthful A w o) as T.
  destruct (w_step A w o) as [[w' ob] es]. cbn [fst snd] in T.
  specialize (IH w'). destruct (w_run A w' rest) as [wf r]. cbn [snd combine forallb] in *.
  rewrite T, IH. reflexivity.
Qed.

(* ---------- equality lemmas ---------- *)

Lemma wtag_eqb_eq a b : wtag_eqb a b = true -> a = b.
Proof. destruct a, b; cbn; intros; try discriminate; reflexivity. Qed.
Lemma wop_eqb_eq a b : wop_eqb a b = true -> a = b.
Proof. destruct a, b; cbn; intros; try discriminate; reflexivity. Qed.

Lemma emission_eqb_eq x y : emission_eqb x y = true -> x = y.
Proof.
  destruct x, y; cbn [emission_eqb]; try discriminate; intros E;
  repeat match goal with
  | H : (_ && _)%bool = true |- _ => apply andb_prop in H; destruct H
  | H : wtag_eqb _ _ = true |- _ => apply wtag_eqb_eq in H; subst
  | H : wop_eqb _ _ = true |- _ => apply wop_eqb_eq in H; subst
  | H : Bool.eqb _ _ = true |- _ => apply Bool.eqb_prop in H; subst
  | H : (_ =? _) = true |- _ => apply N.eqb_eq in H; subst
  end; reflexivity.
Qed.

Lemma step_eqb_eq x y : step_eqb x y = true -> x = y.
Proof.
  destruct x as [o es], y as [o' es']. unfold step_eqb. cbn [fst snd]. intros H.
  apply andb_prop in H. destruct H as [H1 H2].
  apply obs_eqb_eq in H1. apply (list_eqb_eq _ _ _ emission_eqb_eq) in H2. subst. reflexivity.
Qed.

Lemma combine_map_fst_snd {X Y} (l : list (X * Y)) : combine (map fst l) (map snd l) = l.
Proof. induction l as [|[a b] t IH]; cbn; [reflexivity|]. rewrite IH. reflexivity. Qed.

(* ---------- a checked KWrapMetrics case ---------- *)

Definition bare (steps : list (sop * (obs * list emission))) : list (sop * obs) :=
  map (fun st => (fst st, fst (snd st))) steps.

Lemma bare_fst steps : map fst (bare steps) = map fst steps.
Proof. unfold bare. rewrite map_map. reflexivity. Qed.
Lemma bare_snd steps : map snd (bare steps) = map fst (map snd steps).
Proof. unfold bare. rewrite !map_map. reflexivity. Qed.

Lemma list_eqb_refl {X} (eqb : X -> X -> bool) (l : list X) : (forall x, eqb x x = true) -> list_eqb eqb l l = true.
Proof. intros H. induction l as [|a t IH]; cbn [list_eqb]; [reflexivity|]. rewrite H, IH. reflexivity. Qed.

(* a checked case is a checked case of the bare engine: whatever C11 proves of the decorated engine's answers holds
   of the answers obtained through the decorator *)
Lemma wrap_check_sound e steps final :
  c11x_check (KWrapMetrics e steps final) = true ->
  a_run (adapter_of e) (a_init (adapter_of e)) None (map fst steps) =
    (w_in (fst (w_run (adapter_of e) (w_init (adapter_of e)) (map fst steps))), map fst (map snd steps)) /\
  a_dump (adapter_of e) (w_in (fst (w_run (adapter_of e) (w_init (adapter_of e)) (map fst steps)))) = final.
Proof.
  cbn [c11x_check]. set (A := adapter_of e). intros H.
  pose proof (w_run_transparent A (map fst steps) (w_init A) (hinv_init A)) as T.
  destruct (w_run A (w_init A) (map fst steps)) as [wf r]. cbn [fst snd] in *.
  apply andb_prop in H. destruct H as [H1 H2].
  apply (list_eqb_eq _ _ _ obs_eqb_eq) in H1. apply store_eqb_eq in H2. rewrite <- H1.
  split; [exact T|exact H2].
Qed.

(* a case whose emission log the model reproduces has truthful emissions *)
Lemma wrap_emissions_truthful e steps final :
  c11x_emissions_check (KWrapMetrics e steps final) = true -> forallb truthful_step steps = true.
Proof.
  cbn [c11x_emissions_check]. set (A := adapter_of e). intros H.
  pose proof (w_run_truthful A (map fst steps) (w_init A)) as U.
  apply (list_eqb_eq _ _ _ step_eqb_eq) in H. rewrite H in U.
  rewrite combine_map_fst_snd in U. exact U.
Qed.

(* ---------- oracle soundness for the extended case type ---------- *)

Lemma rclass_eqb_refl c : rclass_eqb c c = true. Proof. destruct c; reflexivity. Qed.
Lemma conflict_eqb_refl c : conflict_eqb c c = true.
Proof.
  destruct c as [[i k] v]. unfold conflict_eqb. cbn [fst snd]. rewrite Nat.eqb_refl, beqb_refl.
  destruct v as [v|]; cbn; [apply beqb_refl|reflexivity].
Qed.
Lemma opt_conflict_eqb_refl c : opt_eqb conflict_eqb c c = true.
Proof. destruct c as [c|]; cbn; [apply conflict_eqb_refl|reflexivity]. Qed.

Lemma obs_eqb_refl x : obs_eqb x x = true.
Proof.
  destruct x; cbn [obs_eqb];
  rewrite ?rclass_eqb_refl, ?opt_conflict_eqb_refl, ?beqb_refl, ?store_eqb_refl, ?Bool.eqb_reflx; reflexivity.
Qed.

Definition c11x_cleanb (c : c11x_case) : bool :=
  match c with
  | CX c => c11_cleanb c
  | KWrapMetrics e steps final => c11_cleanb (mk_c11 e (bare steps) final)
  end.

(* a checked KWrapMetrics case is a checked ordinary case of the decorated engine *)
Lemma wrap_check_bare e steps final :
  c11x_check (KWrapMetrics e steps final) = true -> c11_check (mk_c11 e (bare steps) final) = true.
Proof.
  intros H. destruct (wrap_check_sound e steps final H) as [R D].
  cbn [c11_check]. rewrite bare_fst, R, bare_snd, D.
  rewrite (list_eqb_refl obs_eqb _ obs_eqb_refl), store_eqb_refl. reflexivity.
Qed.

Lemma c11x_oracle_sound_checked c : c11x_cleanb c = true -> c11x_check c = true -> c11x_oracle c = None.
Proof.
  destruct c as [c|e steps final]; cbn [c11x_cleanb c11x_oracle].
  - intros Hc Hk. apply c11_oracle_sound_checked; assumption.
  - intros Hc Hk.
    pose proof (wrap_check_bare e steps final Hk) as Hb.
    fold (bare steps).
    exact (c11_oracle_sound_checked _ Hc Hb).
Qed.

(* the emissions are tied to the contract: over an adapter that refines the engine contract (sim), a batch is
   reported with state=success exactly when the contract applies it, and with state=cas_failed exactly when the
   contract refuses it — for batches outside the adapter's listed deviations (okb) *)
Lemma batch_emission_truthful A m (S : Proofs.Adapters.sim A m) s c ops l :
  Proofs.Adapters.sim_R A m S s c -> Proofs.Adapters.okb A m S ops ->
  match batch_eval m c ops with
  | Applied _ => batch_emissions l (snd (fst (a_batch A s ops))) = [EBatchCount (N.of_nat l) TSuccess; EBatchDur TSuccess]
  | CondFailed _ _ => batch_emissions l (snd (fst (a_batch A s ops))) = [EBatchCount (N.of_nat l) TCasFailed; EBatchDur TCasFailed]
  end.
Proof.
  intros HR Hok. destruct (Proofs.Adapters.sim_batch A m S s c ops HR Hok) as [P _].
  unfold batch_proj_ok in P. destruct (batch_eval m c ops).
  - apply andb_prop in P. destruct P as [P _]. destruct (snd (fst (a_batch A s ops))); try discriminate. reflexivity.
  - destruct (snd (fst (a_batch A s ops))); try discriminate; try reflexivity.
Qed.

(* ---------- the decorator over a failing engine ---------- *)

Lemma fault_model_passes kind c : (kind < 4)%N -> fault_model kind c = (c, true).
Proof.
  intros H.
  assert (kind = 0 \/ kind = 1 \/ kind = 2 \/ kind = 3)%N as [-> | [-> | [-> | ->]]] by lia;
  destruct c; vm_compute; reflexivity.
Qed.

(* for the kinds the adapter signature can express, the KWrapFault check is equality with the decorator model's answer *)
Lemma wrapfault_check_is_model kind injected observed intact : (kind < 4)%N ->
  c11_check (KWrapFault kind injected observed intact) = true <-> (observed, intact) = fault_model kind injected.
Proof.
  intros H. rewrite (fault_model_passes kind injected H). cbn [c11_check]. split.
  - intros E. apply andb_prop in E. destruct E as [E1 E2]. subst intact.
    destruct observed, injected; try discriminate; reflexivity.
  - intros E. injection E as -> ->. rewrite rclass_eqb_refl. reflexivity.
Qed.
