(* Invariants of the watch pipeline of Model/WatchSys.v, for every label list. *)
From Coq Require Import ZifyN ZifyNat ZifyBool Sorted.
From KB Require Import Base.Bytes Model.WatchSys Proofs.WatchRing.
Local Open Scope N_scope.

(* ------------------------------------------------------------------ prefixes, sorted lists *)

Lemma is_prefix_refl {A} (a : list A) : is_prefix a a.
Proof. exists []. symmetry. apply app_nil_r. Qed.
Lemma is_prefix_app {A} (a t : list A) : is_prefix a (a ++ t).
Proof. exists t. reflexivity. Qed.
Lemma is_prefix_trans {A} (a b c : list A) : is_prefix a b -> is_prefix b c -> is_prefix a c.
Proof. intros [t ->] [u ->]. exists (t ++ u). symmetry. apply app_assoc. Qed.
Lemma is_prefix_app_l {A} (p a b : list A) : is_prefix a b -> is_prefix (p ++ a) (p ++ b).
Proof. intros [t ->]. exists t. apply app_assoc. Qed.
Lemma is_prefix_app_r {A} (a b t : list A) : is_prefix a b -> is_prefix a (b ++ t).
Proof. intros [u ->]. exists (u ++ t). symmetry. apply app_assoc. Qed.
Lemma is_prefix_filter {A} (p : A -> bool) (a b : list A) : is_prefix a b -> is_prefix (filter p a) (filter p b).
Proof. intros [t ->]. rewrite filter_app. apply is_prefix_app. Qed.
Lemma is_prefix_skipn {A} n (a b : list A) : (n <= length a)%nat -> is_prefix a b -> is_prefix (skipn n a) (skipn n b).
Proof. intros H [t ->]. rewrite skipn_app. replace (n - length a)%nat with 0%nat by lia. apply is_prefix_app. Qed.
Lemma is_prefix_length {A} (a b : list A) : is_prefix a b -> (length a <= length b)%nat.
Proof. intros [t ->]. rewrite app_length. lia. Qed.

Definition lt_rev (a b : event) : Prop := e_rev a < e_rev b.
Definition sorted (l : list event) : Prop := StronglySorted lt_rev l.

Lemma sorted_app a b : sorted (a ++ b) <-> sorted a /\ sorted b /\ (forall x y, In x a -> In y b -> lt_rev x y).
Proof.
  unfold sorted. induction a as [|h t IH]; simpl.
  - split; [intros H; repeat split; [constructor|exact H|intros ? ? []]|intros [_ [H _]]; exact H].
  - split.
    + intros H. apply StronglySorted_inv in H as [Hs Hf]. apply IH in Hs as [Ht [Hb Hc]].
      rewrite Forall_app in Hf. destruct Hf as [Hft Hfb]. repeat split.
      * constructor; assumption.
      * exact Hb.
      * intros x y [<-|Hx] Hy; [rewrite Forall_forall in Hfb; apply Hfb; exact Hy|apply Hc; assumption].
    + intros [Ha [Hb Hc]]. apply StronglySorted_inv in Ha as [Ht Hft]. constructor.
      * apply IH. repeat split; [exact Ht|exact Hb|intros x y Hx Hy; apply Hc; [right; exact Hx|exact Hy]].
      * rewrite Forall_app. split; [exact Hft|]. rewrite Forall_forall. intros y Hy. apply Hc; [left; reflexivity|exact Hy].
Qed.

Lemma sorted_nil : sorted [].
Proof. constructor. Qed.
Lemma sorted_single e : sorted [e].
Proof. constructor; constructor. Qed.

Lemma sorted_increasing l : sorted l -> increasing l.
Proof.
  unfold sorted, increasing. induction 1 as [|h t Hs IH Hf]; intros i j Hij Hj; simpl in Hj; [lia|].
  destruct j as [|j]; [lia|]. destruct i as [|i].
  - simpl. rewrite Forall_forall in Hf. apply Hf. apply nth_In. lia.
  - simpl. apply IH; lia.
Qed.

Lemma sorted_concat_in (bs : list (list event)) : sorted (concat bs) -> Forall sorted bs.
Proof.
  induction bs as [|b t IH]; simpl; intros H; [constructor|].
  apply sorted_app in H as [Hb [Ht _]]. constructor; [exact Hb|apply IH; exact Ht].
Qed.

(* all revisions of l are at most hi l, the revision of the last event (0 for the empty list) *)
Definition hi (l : list event) : N := e_rev (last l ev0).

Lemma hi_snoc l e : hi (l ++ [e]) = e_rev e.
Proof. unfold hi. rewrite last_last. reflexivity. Qed.

Lemma sorted_le_hi l x : sorted l -> In x l -> e_rev x <= hi l.
Proof.
  intros Hs Hx. induction l as [|e t IH] using rev_ind; [destruct Hx|].
  rewrite hi_snoc. apply sorted_app in Hs as [Ht [_ Hc]]. apply in_app_iff in Hx as [Hx|[<-|[]]]; [|lia].
  specialize (Hc x e Hx ltac:(left; reflexivity)). unfold lt_rev in Hc. lia.
Qed.

(* ------------------------------------------------------------------ filters *)

Definition fltE (F : N) (P : bytes) (evs : list event) : list event :=
  filter (fun e => (F <=? e_rev e) && has_prefix P (e_key e)) evs.

Lemma fltE_app F P a b : fltE F P (a ++ b) = fltE F P a ++ fltE F P b.
Proof. apply filter_app. Qed.

Lemma filter_all_true {A} (p : A -> bool) l : (forall x, In x l -> p x = true) -> filter p l = l.
Proof.
  induction l as [|h t IH]; intros H; [reflexivity|]. simpl. rewrite (H h) by (left; reflexivity).
  f_equal. apply IH. intros x Hx. apply H. right. exact Hx.
Qed.

Lemma filter_by_revision_sorted b F : sorted b -> filter_by_revision b F = filter (fun e => F <=? e_rev e) b.
Proof.
  unfold sorted. induction 1 as [|h t Hs IH Hf]; [reflexivity|].
  cbn [filter_by_revision filter]. destruct (e_rev h <? F) eqn:E.
  - apply N.ltb_lt in E. replace (F <=? e_rev h) with false by (symmetry; apply N.leb_gt; exact E). exact IH.
  - apply N.ltb_ge in E. replace (F <=? e_rev h) with true by (symmetry; apply N.leb_le; exact E).
    f_equal. symmetry. apply filter_all_true. intros x Hx.
    rewrite Forall_forall in Hf. specialize (Hf x Hx). unfold lt_rev in Hf. apply N.leb_le. lia.
Qed.

Lemma filter_filter {A} (p q : A -> bool) l : filter p (filter q l) = filter (fun x => q x && p x) l.
Proof.
  induction l as [|h t IH]; [reflexivity|]. simpl. destruct (q h); simpl; [destruct (p h)|]; rewrite IH; reflexivity.
Qed.

Lemma flt_sorted b F P : sorted b -> filter_by_prefix (filter_by_revision b F) P = fltE F P b.
Proof. intros H. rewrite filter_by_revision_sorted by exact H. unfold filter_by_prefix, fltE. apply filter_filter. Qed.

Lemma fltE_none F P l : (forall x, In x l -> e_rev x < F) -> fltE F P l = [].
Proof.
  intros H. unfold fltE. induction l as [|h t IH]; [reflexivity|]. simpl.
  replace (F <=? e_rev h) with false by (symmetry; apply N.leb_gt; apply H; left; reflexivity).
  simpl. apply IH. intros x Hx. apply H. right. exact Hx.
Qed.

(* ------------------------------------------------------------------ channels *)

Lemma c_buf_send c x : c_buf (chan_send c x) = c_buf c ++ [x].
Proof. unfold c_buf, chan_send. cbn [c_front c_backR]. rewrite !frev_rev. cbn [rev]. apply app_assoc. Qed.

Lemma c_buf_recv c b c' : chan_recv c = Some (b, c') -> c_buf c = b :: c_buf c' /\ c_closed c' = c_closed c.
Proof.
  unfold chan_recv, c_buf. destruct (c_front c) as [|h t] eqn:Ef.
  - destruct (frev (c_backR c)) as [|h t] eqn:Eb; [discriminate|]. intros H; injection H as <- <-.
    cbn [c_front c_backR c_closed app]. change (frev (@nil (list event))) with (@nil (list event)). rewrite app_nil_r. split; reflexivity.
  - intros H; injection H as <- <-. cbn [c_front c_backR c_closed]. split; reflexivity.
Qed.

Lemma c_buf_recv_none c : chan_recv c = None -> c_buf c = [].
Proof.
  unfold chan_recv, c_buf. destruct (c_front c); [|discriminate].
  destruct (frev (c_backR c)); [reflexivity|discriminate].
Qed.

Lemma c_buf_close c : c_buf (chan_close c) = c_buf c.
Proof. reflexivity. Qed.
Lemma c_buf_of items : c_buf (chan_of items) = items.
Proof. unfold c_buf, chan_of. cbn [c_front c_backR]. apply app_nil_r. Qed.
Lemma c_buf_empty : c_buf empty_chan = [].
Proof. reflexivity. Qed.

(* ------------------------------------------------------------------ the per-watcher invariant *)

Definition hold_list (w : watcher) : list event := match w_hold w with Some h => h | None => [] end.
Definition delivered (w : watcher) : list event := concat (w_got w) ++ concat (c_buf (w_out w)) ++ hold_list w.

Definition prerun (w : watcher) : bool :=
  match w_phase w with PhSub | PhRead _ => true | _ => false end.

Record winv (l : N) (sigma hub : list event) (w : watcher) : Prop := {
  wi_base : (w_base w <= length hub)%nat;
  wi_sorted : Forall sorted (c_buf (w_sub w));
  wi_pipe : exists taken, w_in w = taken ++ concat (c_buf (w_sub w)) /\
                          delivered w = w_catch w ++ fltE (w_filter w) (w_P w) taken;
  wi_nogap : w_gap w = false -> is_prefix (w_in w) (skipn (w_base w) hub);
  wi_live : w_reg w = true -> w_dropped w = false -> w_in w = skipn (w_base w) hub;
  wi_drop : w_dropped w = true -> w_reg w = false;
  wi_unreg : w_reg w = false -> c_closed (w_sub w) = true;
  wi_reg : w_reg w = true -> c_closed (w_sub w) = false;
  wi_read : forall ret, w_phase w = PhRead ret ->
            w_S w <> 0 /\
            exists n, (w_base w <= n <= length sigma)%nat /\ ret = find_spec l (firstn n sigma) (w_S w);
  wi_pre : prerun w = true ->
           w_got w = [] /\ c_buf (w_out w) = [] /\ c_closed (w_out w) = false /\ w_hold w = None /\
           w_catch w = [] /\ w_in w = concat (c_buf (w_sub w));
  wi_acc : accepted w = true ->
           w_catch w ++ fltE (w_filter w) (w_P w) (skipn (w_base w) sigma) = ideal (w_S w) (w_P w) (w_base w) sigma /\
           (w_filter w = w_S w \/ (w_S w <> 0 /\ w_S w <= w_filter w /\ w_filter w <= hi sigma + 1)) /\
           (w_S w <> 0 -> forall e, In e (firstn (w_base w) sigma) -> w_S w <= e_rev e -> In e (w_snap w))
}.

(* global part *)
Record ginv (l : N) (s : sys) : Prop := {
  gi_ring : ring_inv l (s_cached s) (s_cache s);
  gi_sorted : sorted (s_cached s);
  gi_flow : s_cached s = s_hub s ++ concat (s_wchan s) ++ s_pending s;
  gi_comm : hi (s_cached s) <= s_committed s;
  gi_cur : forall e, s_cur s = Some e -> e_rev e = s_committed s /\ hi (s_cached s) < e_rev e;
  gi_ws : Forall (winv l (s_cached s) (s_hub s)) (s_ws s)
}.

(* ------------------------------------------------------------------ reversed logs *)

Lemma frev_cons {A} (x : A) l : frev (x :: l) = frev l ++ [x].
Proof. rewrite !frev_rev. reflexivity. Qed.
Lemma frev_rev_append {A} (a l : list A) : frev (rev_append a l) = frev l ++ a.
Proof. rewrite !frev_rev, rev_append_rev, rev_app_distr, rev_involutive. reflexivity. Qed.
Lemma frev_length {A} (l : list A) : length (frev l) = length l.
Proof. rewrite frev_rev. apply rev_length. Qed.

Lemma chan_recv_nil c : c_buf c = [] -> chan_recv c = None.
Proof.
  unfold c_buf, chan_recv. intros H. apply app_eq_nil in H as [-> H]. rewrite H. reflexivity.
Qed.

(* ------------------------------------------------------------------ sigma grows *)

Lemma firstn_app_le {A} n (a b : list A) : (n <= length a)%nat -> firstn n (a ++ b) = firstn n a.
Proof. intros H. rewrite firstn_app. replace (n - length a)%nat with 0%nat by lia. simpl. apply app_nil_r. Qed.
Lemma skipn_app_le {A} n (a b : list A) : (n <= length a)%nat -> skipn n (a ++ b) = skipn n a ++ b.
Proof. intros H. rewrite skipn_app. replace (n - length a)%nat with 0%nat by lia. reflexivity. Qed.

Lemma hi_le_snoc sigma e : hi sigma < e_rev e -> hi sigma <= hi (sigma ++ [e]).
Proof. rewrite hi_snoc. lia. Qed.

Lemma winv_snoc l sigma hub w e :
  (length hub <= length sigma)%nat -> hi sigma < e_rev e ->
  winv l sigma hub w -> winv l (sigma ++ [e]) hub w.
Proof.
  intros Hlen Hhi [Hbase Hsorted Hpipe Hnogap Hlive Hdrop Hunreg Hreg Hread Hpre Hacc].
  constructor; try assumption.
  - intros ret Hp. destruct (Hread ret Hp) as [HS [n [Hn ->]]]. split; [exact HS|].
    exists n. split; [rewrite app_length; simpl; lia|]. rewrite firstn_app_le by lia. reflexivity.
  - intros Ha. destruct (Hacc Ha) as [Heq [HF Hsnap]]. split; [|split].
    + rewrite skipn_app_le by lia. rewrite fltE_app, app_assoc, Heq.
      unfold ideal. destruct (w_S w =? 0) eqn:ES.
      * apply N.eqb_eq in ES. rewrite skipn_app_le by lia. unfold filter_by_prefix. rewrite filter_app. f_equal.
        destruct HF as [HF|[HF _]]; [|congruence]. rewrite HF, ES. unfold fltE. cbn [filter]. destruct (e_rev e); reflexivity.
      * rewrite filter_app. f_equal. unfold fltE. cbn [filter].
        destruct HF as [->|[_ [H1 H2]]]; [reflexivity|].
        replace (w_filter w <=? e_rev e) with true by (symmetry; apply N.leb_le; lia).
        replace (w_S w <=? e_rev e) with true by (symmetry; apply N.leb_le; lia). reflexivity.
    + destruct HF as [HF|[H0 [H1 H2]]]; [left; exact HF|right]. rewrite hi_snoc. repeat split; [exact H0|exact H1|lia].
    + intros HS x Hx. rewrite firstn_app_le in Hx by lia. apply Hsnap; assumption.
Qed.

(* ------------------------------------------------------------------ hub steps *)

Ltac wsimp :=
  cbn [w_set_phase w_set_ctx w_set_hub w_set_pipe w_set_client start_proc
       w_base w_sub w_inR w_gap w_reg w_dropped w_phase w_S w_P w_catch w_filter w_snap
       w_gotR w_out w_hold w_ctx w_ctxdone w_seen_close].
Ltac wunf := unfold delivered, hold_list, prerun, accepted in *; unfold w_in, w_got in *.

Lemma winv_offer pa l sigma hub item w :
  sorted item -> winv l sigma hub w -> winv l sigma (hub ++ item) (offer pa item w).
Proof.
  intros Hit [Hbase Hsorted Hpipe Hnogap Hlive Hdrop Hunreg Hreg Hread Hpre Hacc].
  assert (Hb' : (w_base w <= length (hub ++ item))%nat) by (rewrite app_length; lia).
  assert (Hsk : skipn (w_base w) (hub ++ item) = skipn (w_base w) hub ++ item) by (apply skipn_app_le; exact Hbase).
  unfold offer. destruct (w_reg w) eqn:Ereg.
  - destruct (chan_len (w_sub w) <? p_hub pa).
    + (* accepted *)
      wunf. constructor; wunf; wsimp.
      * exact Hb'.
      * rewrite c_buf_send. apply Forall_app. split; [exact Hsorted|constructor; [exact Hit|constructor]].
      * destruct Hpipe as [taken [Hin Hdel]]. exists taken. split.
        -- rewrite frev_rev_append, c_buf_send, concat_app. cbn [concat]. rewrite app_nil_r, Hin. symmetry. apply app_assoc.
        -- exact Hdel.
      * intros Hg. apply orb_false_iff in Hg as [Hg Hd]. rewrite frev_rev_append, Hsk, (Hlive eq_refl Hd). apply is_prefix_refl.
      * intros _ Hd. rewrite frev_rev_append, Hsk, (Hlive eq_refl Hd). reflexivity.
      * exact Hdrop.
      * intros Hr; discriminate.
      * intros _. apply Hreg. reflexivity.
      * exact Hread.
      * intros Hp. destruct (Hpre Hp) as [H1 [H2 [H3 [H4 [H5 H6]]]]]. repeat split; try assumption.
        rewrite frev_rev_append, c_buf_send, concat_app. cbn [concat]. rewrite app_nil_r. rewrite H6. reflexivity.
      * exact Hacc.
    + (* dropped and deleted before the next item *)
      wunf. constructor; wunf; wsimp; rewrite ?c_buf_close.
      * exact Hb'.
      * exact Hsorted.
      * exact Hpipe.
      * intros Hg. rewrite Hsk. apply is_prefix_app_r. apply Hnogap. exact Hg.
      * intros Hr; discriminate.
      * intros _. reflexivity.
      * intros _. reflexivity.
      * intros Hr; discriminate.
      * exact Hread.
      * exact Hpre.
      * exact Hacc.
  - constructor; rewrite ?Ereg.
    + exact Hb'.
    + exact Hsorted.
    + exact Hpipe.
    + intros Hg. rewrite Hsk. apply is_prefix_app_r. apply Hnogap. exact Hg.
    + intros Hr. congruence.
    + exact Hdrop.
    + exact Hunreg.
    + exact Hreg.
    + exact Hread.
    + exact Hpre.
    + exact Hacc.
Qed.

Lemma winv_delete l sigma hub w cd :
  winv l sigma hub w -> winv l sigma hub (delete_watcher w cd).
Proof.
  intros [Hbase Hsorted Hpipe Hnogap Hlive Hdrop Hunreg Hreg Hread Hpre Hacc].
  unfold delete_watcher. destruct (w_reg w) eqn:Ereg.
  - wunf. constructor; wunf; wsimp; try rewrite c_buf_close.
    + exact Hbase.
    + exact Hsorted.
    + exact Hpipe.
    + exact Hnogap.
    + intros Hr; discriminate.
    + intros _. reflexivity.
    + intros _. reflexivity.
    + intros Hr; discriminate.
    + exact Hread.
    + exact Hpre.
    + exact Hacc.
  - wunf. constructor; wunf; wsimp.
    + exact Hbase.
    + exact Hsorted.
    + exact Hpipe.
    + exact Hnogap.
    + intros Hr; discriminate.
    + intros _. reflexivity.
    + intros _. apply Hunreg. reflexivity.
    + intros Hr; discriminate.
    + exact Hread.
    + exact Hpre.
    + exact Hacc.
Qed.

(* ------------------------------------------------------------------ the decision of Watch *)

Lemma all_some_map_Some {A} (l : list A) : all_some (map Some l) = Some l.
Proof. induction l as [|h t IH]; [reflexivity|]. simpl. rewrite IH. reflexivity. Qed.

Lemma chunks_concat fuel bs evs cs : chunks fuel bs evs = Some cs -> concat cs = evs.
Proof.
  revert evs cs; induction fuel as [|f IH]; intros evs cs; [discriminate|].
  cbn [chunks]. destruct (bs <? length evs)%nat.
  - destruct (chunks f bs (skipn bs evs)) as [cs'|] eqn:E; [|discriminate].
    intros H; injection H as <-. cbn [concat]. rewrite (IH _ _ E). apply firstn_skipn.
  - intros H; injection H as <-. cbn [concat]. apply app_nil_r.
Qed.

Lemma filter_none {A} (p : A -> bool) l : (forall x, In x l -> p x = false) -> filter p l = [].
Proof.
  induction l as [|h t IH]; intros H; [reflexivity|]. simpl. rewrite (H h) by (left; reflexivity).
  apply IH. intros x Hx. apply H. right. exact Hx.
Qed.

Lemma ideal_pos S P base sigma : S <> 0 -> ideal S P base sigma = fltE S P sigma.
Proof. intros H. unfold ideal. apply N.eqb_neq in H. rewrite H. reflexivity. Qed.

Lemma in_firstn {A} (x : A) n l : In x (firstn n l) -> In x l.
Proof. intros H. rewrite <- (firstn_skipn n l). apply in_app_iff. left. exact H. Qed.
Lemma in_skipn {A} (x : A) n l : In x (skipn n l) -> In x l.
Proof. intros H. rewrite <- (firstn_skipn n l). apply in_app_iff. right. exact H. Qed.

Lemma hd_in {A} (l : list A) d : l <> [] -> In (hd d l) l.
Proof. destruct l; [congruence|]. intros _. left. reflexivity. Qed.

Lemma last_in {A} (l : list A) d : l <> [] -> In (last l d) l.
Proof.
  induction l as [|h t IH]; [congruence|]. intros _. destruct t as [|h' t']; [left; reflexivity|].
  right. apply IH. discriminate.
Qed.

Lemma decide_run pa l sigma n base S P c F cs :
  0 < l -> sorted sigma -> (base <= n <= length sigma)%nat -> S <> 0 ->
  watch_decide pa S P (find_spec l (firstn n sigma) S) c = DRun F cs ->
  concat cs ++ fltE F P (skipn base sigma) = fltE S P sigma /\
  (F = S \/ (S <> 0 /\ S <= F /\ F <= hi sigma + 1)) /\
  (forall e, In e (firstn base sigma) -> S <= e_rev e -> In e (snap_of (find_spec l (firstn n sigma) S))).
Proof.
  intros Hl Hsorted Hn HS.
  set (sr := firstn n sigma). set (sn := skipn n sigma).
  assert (Hsplit : sigma = sr ++ sn) by (symmetry; apply firstn_skipn).
  assert (Hlen : length sr = n) by (unfold sr; rewrite firstn_length; lia).
  assert (Hfb : firstn base sigma = firstn base sr).
  { rewrite Hsplit. apply firstn_app_le. lia. }
  assert (Hsb : skipn base sigma = skipn base sr ++ sn).
  { rewrite Hsplit at 1. apply skipn_app_le. lia. }
  rewrite Hsplit in Hsorted. apply sorted_app in Hsorted as [Hsr [Hsn Hcross]].
  destruct sr as [|e0 t] eqn:Esr.
  { (* empty cache *)
    cbn [find_spec watch_decide]. destruct (c <? S); [|discriminate]. intros H; injection H as <- <-.
    assert (base = 0)%nat by (simpl in Hlen; lia). subst base.
    cbn [concat app skipn snap_of]. repeat split; [left; reflexivity|]. intros e He. destruct He. }
  rewrite <- Esr in *.
  assert (Hne : sr <> []) by (rewrite Esr; discriminate).
  rewrite find_spec_nonempty by (try exact Hne; lia). cbv zeta.
  set (nw := last sr ev0). set (win := lastn (N.to_nat l) sr). set (od := hd ev0 win).
  assert (Hhi_sr : forall x, In x sr -> e_rev x <= e_rev nw) by (intros x Hx; apply (sorted_le_hi sr x Hsr Hx)).
  assert (Hnw_in : In nw sr) by (apply last_in; exact Hne).
  assert (Hsn_gt : forall y, In y sn -> e_rev nw < e_rev y) by (intros y Hy; apply (Hcross nw y Hnw_in Hy)).
  assert (Hhi_sigma : e_rev nw <= hi sigma).
  { apply sorted_le_hi; [rewrite Hsplit; apply sorted_app; repeat split; assumption|].
    rewrite Hsplit. apply in_app_iff. left. exact Hnw_in. }
  assert (Hfb_in : forall x, In x (firstn base sigma) -> In x sr) by (intros x Hx; rewrite Hfb in Hx; eapply in_firstn; exact Hx).
  destruct (e_rev nw <? S) eqn:Ehigh.
  { (* high *)
    apply N.ltb_lt in Ehigh. cbn [watch_decide]. intros H; injection H as <- <-. cbn [concat app snap_of]. repeat split.
    - rewrite <- (firstn_skipn base sigma) at 2. rewrite fltE_app.
      rewrite (fltE_none S P (firstn base sigma)); [reflexivity|].
      intros x Hx. specialize (Hhi_sr x (Hfb_in x Hx)). lia.
    - left; reflexivity.
    - intros e He HSe. specialize (Hhi_sr e (Hfb_in e He)). lia. }
  apply N.ltb_ge in Ehigh.
  destruct (S <? e_rev od) eqn:Elow; [cbn [watch_decide]; discriminate|].
  apply N.ltb_ge in Elow.
  (* replay *)
  assert (Hwin_ne : win <> []).
  { unfold win, lastn. intros E. apply (f_equal (@length event)) in E. rewrite skipn_length in E. cbn [length] in E.
    assert (0 < length sr)%nat by (rewrite Hlen; rewrite Esr in Hlen; cbn [length] in Hlen; lia). lia. }
  assert (Hfw : filter (fun e => S <=? e_rev e) win = filter (fun e => S <=? e_rev e) sr).
  { unfold win, lastn. set (k := (length sr - N.to_nat l)%nat).
    rewrite <- (firstn_skipn k sr) at 2. rewrite filter_app.
    rewrite (filter_none _ (firstn k sr)); [reflexivity|].
    intros x Hx. apply N.leb_gt.
    assert (Hod_in : In od (skipn k sr)) by (apply hd_in; exact Hwin_ne).
    pose proof Hsr as Hsr'. rewrite <- (firstn_skipn k sr) in Hsr'. apply sorted_app in Hsr' as [_ [_ Hc]].
    specialize (Hc x od Hx Hod_in). unfold lt_rev in Hc. lia. }
  cbn [watch_decide]. rewrite all_some_map_Some. rewrite Hfw.
  assert (Hevs : filter_by_prefix (filter (fun e => S <=? e_rev e) sr) P = fltE S P sr).
  { unfold filter_by_prefix, fltE. apply filter_filter. }
  rewrite Hevs.
  assert (Hsnap : forall e, In e (firstn base sigma) -> S <= e_rev e ->
                  In e (snap_of (FEvents nw od (map Some (filter (fun e0 => S <=? e_rev e0) sr))))).
  { intros e He HSe. cbn [snap_of]. rewrite all_some_map_Some. apply filter_In. split; [apply Hfb_in; exact He|apply N.leb_le; exact HSe]. }
  assert (Hsn_S : fltE (e_rev nw + 1) P sn = fltE S P sn).
  { unfold fltE. apply filter_ext_in. intros y Hy. specialize (Hsn_gt y Hy).
    replace (e_rev nw + 1 <=? e_rev y) with true by (symmetry; apply N.leb_le; lia).
    replace (S <=? e_rev y) with true by (symmetry; apply N.leb_le; lia). reflexivity. }
  destruct (fltE S P sr) as [|x xs] eqn:Efl.
  { (* nothing to replay for this prefix *)
    intros H; injection H as <- <-. cbn [concat app]. repeat split; [|left; reflexivity|exact Hsnap].
    rewrite <- (firstn_skipn base sigma) at 2. rewrite fltE_app.
    replace (fltE S P (firstn base sigma)) with (@nil event); [reflexivity|].
    symmetry. apply filter_none. intros y Hy. destruct ((S <=? e_rev y) && has_prefix P (e_key y)) eqn:Ey; [|reflexivity].
    assert (In y (fltE S P sr)) by (apply filter_In; split; [apply Hfb_in; exact Hy|exact Ey]).
    rewrite Efl in H. destruct H. }
  destruct (catchup_batch_size pa _) as [bs|]; [|discriminate].
  destruct (chunks _ _ (x :: xs)) as [cs'|] eqn:Ech; [|discriminate].
  destruct (p_out pa <? N.of_nat (length cs')); [discriminate|].
  intros H; injection H as <- <-. rewrite (chunks_concat _ _ _ _ Ech). rewrite <- Efl. repeat split.
  - rewrite Hsb, fltE_app. rewrite (fltE_none _ P (skipn base sr)).
    + cbn [app]. rewrite Hsn_S. replace (fltE S P sigma) with (fltE S P (sr ++ sn)) by (rewrite <- Hsplit; reflexivity). rewrite fltE_app. reflexivity.
    + intros y Hy. specialize (Hhi_sr y (in_skipn _ _ _ Hy)). lia.
  - right. repeat split; [exact HS|lia|lia].
  - exact Hsnap.
Qed.

(* ------------------------------------------------------------------ watcher steps *)
(* fields of winv in order: base sorted pipe nogap live drop unreg reg read pre acc *)

Lemma winv_read l s w :
  ring_inv l (s_cached s) (s_cache s) -> sorted (s_cached s) -> (length (s_hub s) <= length (s_cached s))%nat ->
  winv l (s_cached s) (s_hub s) w -> winv l (s_cached s) (s_hub s) (watch_read s w).
Proof.
  intros Hring Hsorted Hlen Hw. unfold watch_read.
  destruct (w_phase w) eqn:Eph; try exact Hw.
  destruct (w_S w =? 0) eqn:ES; [exact Hw|]. apply N.eqb_neq in ES.
  destruct Hw as [Hbase Hsrt Hpipe Hnogap Hlive Hdrop Hunreg Hreg Hread Hpre Hacc].
  wunf. rewrite Eph in *. constructor; wunf; wsimp;
    [assumption|assumption|assumption|assumption|assumption|assumption|assumption|assumption| | |].
  - intros ret H. injection H as <-. split; [exact ES|].
    exists (length (s_cached s)). split; [lia|]. rewrite firstn_all.
    apply find_events_spec; [exact Hring|apply sorted_increasing; exact Hsorted].
  - intros _. apply Hpre. reflexivity.
  - intros H; discriminate.
Qed.

Lemma winv_set_ctx l sigma hub w b : winv l sigma hub w -> winv l sigma hub (w_set_ctx w b).
Proof. intros [H1 H2 H3 H4 H5 H6 H7 H8 H9 H10 H11]. constructor; assumption. Qed.

Lemma winv_set_phase_dead l sigma hub w ph :
  match ph with PhRefused | PhHung | PhPanic => True | _ => False end ->
  winv l sigma hub w -> winv l sigma hub (w_set_phase w ph).
Proof.
  intros Hph [H1 H2 H3 H4 H5 H6 H7 H8 H9 H10 H11].
  wunf. constructor; wunf; wsimp;
    [assumption|assumption|assumption|assumption|assumption|assumption|assumption|assumption| | |];
    destruct ph; try contradiction; intros; discriminate.
Qed.

Lemma winv_spawn pa l s w :
  0 < l -> sorted (s_cached s) -> (length (s_hub s) <= length (s_cached s))%nat ->
  winv l (s_cached s) (s_hub s) w -> winv l (s_cached s) (s_hub s) (watch_spawn pa s w).
Proof.
  intros Hl Hsorted Hlen Hw. unfold watch_spawn.
  destruct (w_phase w) eqn:Eph; try exact Hw.
  - (* S = 0 *)
    destruct (w_S w =? 0) eqn:ES; [|exact Hw]. apply N.eqb_eq in ES.
    destruct Hw as [Hbase Hsrt Hpipe Hnogap Hlive Hdrop Hunreg Hreg Hread Hpre Hacc].
    wunf. rewrite Eph in *. destruct (Hpre eq_refl) as [Hg [Ho [Hoc [Hh [Hc Hin]]]]].
    constructor; wunf; wsimp;
      [assumption|assumption| |assumption|assumption|assumption|assumption|assumption| | |].
    + exists []. split; [exact Hin|]. rewrite Hg, c_buf_of. reflexivity.
    + intros ret H; discriminate.
    + intros H; discriminate.
    + intros _. rewrite ES. cbn [concat app]. repeat split.
      * unfold ideal, fltE, filter_by_prefix. cbn [N.eqb]. apply filter_ext. intros e. destruct (e_rev e); reflexivity.
      * left; reflexivity.
      * intros H; congruence.
  - (* after the cache read *)
    pose proof Hw as [Hbase Hsrt Hpipe Hnogap Hlive Hdrop Hunreg Hreg Hread Hpre Hacc].
    destruct (Hread ret Eph) as [HS [n [Hn Hret]]].
    destruct (watch_decide pa (w_S w) (w_P w) ret (s_committed s)) as [|F cs| |] eqn:Edec.
    + apply winv_set_ctx. apply winv_set_phase_dead; [exact I|exact Hw].
    + rewrite Hret in Edec.
      destruct (decide_run pa l (s_cached s) n (w_base w) (w_S w) (w_P w) (s_committed s) F cs Hl Hsorted Hn HS Edec)
        as [Heq [HF Hsn]].
      wunf. rewrite Eph in *. destruct (Hpre eq_refl) as [Hg [Ho [Hoc [Hh [Hc Hin]]]]].
      constructor; wunf; wsimp;
        [assumption|assumption| |assumption|assumption|assumption|assumption|assumption| | |].
      * exists []. split; [exact Hin|]. rewrite Hg, c_buf_of. cbn [concat app]. rewrite !app_nil_r. reflexivity.
      * intros ret' H; discriminate.
      * intros H; discriminate.
      * intros _. rewrite ideal_pos by exact HS. rewrite Hret. split; [exact Heq|split; [exact HF|intros _; exact Hsn]].
    + apply winv_set_phase_dead; [exact I|exact Hw].
    + apply winv_set_phase_dead; [exact I|exact Hw].
Qed.

Lemma winv_proc pa l sigma hub w : winv l sigma hub w -> winv l sigma hub (proc_step pa w).
Proof.
  intros Hw. unfold proc_step. destruct (w_phase w) eqn:Eph; try exact Hw.
  pose proof Hw as [Hbase Hsrt Hpipe Hnogap Hlive Hdrop Hunreg Hreg Hread Hpre Hacc].
  destruct (w_hold w) as [evs|] eqn:Ehold.
  - destruct (chan_len (w_out w) <? p_out pa); [|exact Hw].
    wunf. rewrite Eph, Ehold in *. constructor; wunf; wsimp; rewrite ?Eph;
      [assumption|assumption| |assumption|assumption|assumption|assumption|assumption|assumption| |assumption].
    + destruct Hpipe as [taken [Hin Hdel]]. exists taken. split; [exact Hin|].
      rewrite c_buf_send, concat_app. cbn [concat]. rewrite ?app_nil_r. rewrite <- Hdel. rewrite <- ?app_assoc. reflexivity.
    + intros H; discriminate.
  - destruct (chan_recv (w_sub w)) as [[b sub']|] eqn:Erecv.
    + destruct (c_buf_recv _ _ _ Erecv) as [Hbuf Hcl].
      rewrite Hbuf in Hsrt. apply Forall_cons_iff in Hsrt as [Hb Hsrt'].
      wunf. rewrite Eph, Ehold in *. constructor; wunf; wsimp; rewrite ?Eph, ?Hcl;
        [assumption|assumption| |assumption|assumption|assumption|assumption|assumption|assumption| |assumption].
      * destruct Hpipe as [taken [Hin Hdel]]. exists (taken ++ b). split.
        -- rewrite Hin, Hbuf. cbn [concat]. apply app_assoc.
        -- rewrite flt_sorted by exact Hb. rewrite fltE_app. rewrite (app_assoc (w_catch w)). rewrite <- Hdel.
           rewrite ?app_nil_r. rewrite <- ?app_assoc. f_equal. f_equal.
           destruct (fltE (w_filter w) (w_P w) b); reflexivity.
      * intros H; discriminate.
    + destruct (c_closed (w_sub w)) eqn:Ecl.
      * wunf. rewrite Eph, Ehold in *. constructor; wunf; wsimp; rewrite ?c_buf_close, ?Ecl;
          [assumption|assumption|assumption|assumption|assumption|assumption|assumption|assumption| | |assumption].
        -- intros ret H; discriminate.
        -- intros H; discriminate.
      * exact Hw.
Qed.

Lemma winv_consume l sigma hub w : winv l sigma hub w -> winv l sigma hub (consume_step w).
Proof.
  intros Hw. unfold consume_step.
  destruct (chan_recv (w_out w)) as [[b out']|] eqn:Erecv.
  - destruct (c_buf_recv _ _ _ Erecv) as [Hbuf Hcl].
    destruct Hw as [Hbase Hsrt Hpipe Hnogap Hlive Hdrop Hunreg Hreg Hread Hpre Hacc].
    wunf. constructor; wunf; wsimp;
      [assumption|assumption| |assumption|assumption|assumption|assumption|assumption|assumption| |assumption].
    + destruct Hpipe as [taken [Hin Hdel]]. exists taken. split; [exact Hin|].
      rewrite <- Hdel, Hbuf, frev_cons, concat_app. cbn [concat]. rewrite ?app_nil_r, <- ?app_assoc. reflexivity.
    + intros Hp. destruct (Hpre Hp) as [_ [Ho _]]. rewrite Hbuf in Ho. discriminate.
  - destruct (c_closed (w_out w)) eqn:Ecl; [|exact Hw].
    destruct Hw as [Hbase Hsrt Hpipe Hnogap Hlive Hdrop Hunreg Hreg Hread Hpre Hacc].
    wunf. constructor; wunf; wsimp; assumption.
Qed.

Lemma winv_new l sigma hub S P : winv l sigma hub (new_watcher S P (length hub)).
Proof.
  wunf. constructor; wunf; cbn [new_watcher w_base w_sub w_inR w_gap w_reg w_dropped w_phase w_S w_P w_catch
                                w_filter w_snap w_gotR w_out w_hold].
  - lia.
  - constructor.
  - exists []. split; reflexivity.
  - intros _. exists (skipn (length hub) hub). reflexivity.
  - intros _ _. rewrite skipn_all. reflexivity.
  - intros H; discriminate.
  - intros H; discriminate.
  - intros _. reflexivity.
  - intros ret H; discriminate.
  - intros _. repeat split; reflexivity.
  - intros H; discriminate.
Qed.

(* ------------------------------------------------------------------ the global invariant is preserved *)

Lemma Forall_upd_nth {A} (P : A -> Prop) (f : A -> A) i l :
  Forall P l -> (forall x, P x -> P (f x)) -> Forall P (upd_nth i f l).
Proof.
  intros H Hf. revert i. induction H as [|h t Hh Ht IH]; intros [|i]; simpl; constructor; auto.
Qed.

Lemma ginv_hub_len l s : ginv l s -> (length (s_hub s) <= length (s_cached s))%nat.
Proof. intros G. rewrite (gi_flow _ _ G), app_length. lia. Qed.

Lemma ginv_set_panic l s : ginv l s -> ginv l (s_set_panic s).
Proof. intros [H1 H2 H3 H4 H5 H6]. constructor; assumption. Qed.

Lemma ginv_upd_w l s i f :
  ginv l s -> (forall w, winv l (s_cached s) (s_hub s) w -> winv l (s_cached s) (s_hub s) (f w)) ->
  ginv l (upd_w s i f).
Proof.
  intros [H1 H2 H3 H4 H5 H6] Hf. constructor; try assumption.
  unfold upd_w, s_set_ws, s_cached, s_hub. cbn [s_ws s_cachedR s_hubR]. apply Forall_upd_nth; assumption.
Qed.

Lemma ginv_init l c0 : 0 < l -> ginv l (init l c0).
Proof.
  intros Hl. constructor; unfold s_cached, s_hub; cbn.
  - apply ring_inv_new. exact Hl.
  - constructor.
  - reflexivity.
  - unfold hi. cbn. lia.
  - intros e H; discriminate.
  - constructor.
Qed.

Lemma ginv_step pa l s lb : 0 < l -> ginv l s -> ginv l (step pa s lb).
Proof.
  intros Hl G. unfold step. destruct (s_panic s); [exact G|].
  pose proof (ginv_hub_len l s G) as Hlen.
  destruct lb as [we| | |order|i|sr pf|i|i|i|i|i].
  - (* LSeqTake *)
    destruct (s_cur s) eqn:Ecur; [exact G|].
    destruct (_ && _) eqn:Econd; [|exact G].
    apply andb_true_iff in Econd as [_ Erev]. apply N.eqb_eq in Erev.
    destruct G as [H1 H2 H3 H4 H5 H6]. constructor; unfold s_cached, s_hub in *; cbn [s_cachedR s_hubR s_cache s_wchan s_pending s_committed s_cur s_ws]; try assumption.
    + lia.
    + intros e He. destruct (we_valid we); [|discriminate]. injection He as <-. cbn [to_event e_rev]. split; [reflexivity|lia].
  - (* LSeqCache *)
    destruct (s_cur s) as [e|] eqn:Ecur; [|exact G].
    pose proof G as [H1 H2 H3 H4 H5 H6].
    destruct (H5 e Ecur) as [Hrev Hhi].
    destruct (ring_add_inv l (s_cached s) (s_cache s) e H1) as [r' [Hadd Hinv']].
    rewrite Hadd.
    assert (Hs' : sorted (s_cached s ++ [e])).
    { apply sorted_app. repeat split; [exact H2|apply sorted_single|].
      intros x y Hx [<-|[]]. unfold lt_rev. pose proof (sorted_le_hi _ x H2 Hx). lia. }
    constructor; unfold s_cached, s_hub in *; cbn [s_cachedR s_hubR s_cache s_wchan s_pending s_committed s_cur s_ws]; rewrite ?frev_cons.
    + exact Hinv'.
    + exact Hs'.
    + rewrite H3. rewrite <- !app_assoc. reflexivity.
    + rewrite hi_snoc. lia.
    + intros e' H; discriminate.
    + eapply Forall_impl; [|exact H6]. intros w Hw. apply winv_snoc; assumption.
  - (* LSeqSend *)
    destruct (s_cur s) eqn:Ecur; [exact G|]. destruct (s_pending s) as [|p ps] eqn:Epend; [exact G|].
    destruct (_ <? _); [|exact G].
    destruct G as [H1 H2 H3 H4 H5 H6]. constructor; unfold s_cached, s_hub in *; cbn [s_cachedR s_hubR s_cache s_wchan s_pending s_committed s_cur s_ws]; try assumption.
    + rewrite H3, Epend, concat_app. cbn [concat]. rewrite !app_nil_r. reflexivity.
    + intros e H; discriminate.
  - (* LHubItem *)
    destruct (s_wchan s) as [|item rest] eqn:Ewc; [exact G|].
    destruct (existsb send_panics (s_ws s)); [apply ginv_set_panic; exact G|].
    destruct G as [H1 H2 H3 H4 H5 H6].
    assert (Hit : sorted item).
    { rewrite H3, Ewc in H2. cbn [concat] in H2. apply sorted_app in H2 as [_ [H2 _]].
      apply sorted_app in H2 as [H2 _]. apply sorted_app in H2 as [H2 _]. exact H2. }
    constructor; unfold s_cached, s_hub in *; cbn [s_cachedR s_hubR s_cache s_wchan s_pending s_committed s_cur s_ws]; rewrite ?frev_rev_append; try assumption.
    + rewrite H3, Ewc. cbn [concat]. rewrite <- !app_assoc. reflexivity.
    + apply Forall_map. eapply Forall_impl; [|exact H6]. intros w Hw. apply winv_offer; assumption.
  - (* LCtxDelete *)
    apply ginv_upd_w; [exact G|]. intros w Hw. destruct (_ && _); [apply winv_delete; exact Hw|exact Hw].
  - (* LWatchSub *)
    destruct G as [H1 H2 H3 H4 H5 H6]. constructor; try assumption.
    unfold s_set_ws, s_cached, s_hub in *. cbn [s_ws s_cachedR s_hubR]. apply Forall_app. split; [exact H6|].
    constructor; [|constructor]. rewrite <- (frev_length (s_hubR s)). apply winv_new.
  - (* LWatchRead *)
    apply ginv_upd_w; [exact G|]. intros w Hw. apply winv_read; [apply (gi_ring _ _ G)|apply (gi_sorted _ _ G)|exact Hlen|exact Hw].
  - (* LWatchSpawn *)
    assert (G' : ginv l (upd_w s i (watch_spawn pa s))).
    { apply ginv_upd_w; [exact G|]. intros w Hw. apply winv_spawn; [exact Hl|apply (gi_sorted _ _ G)|exact Hlen|exact Hw]. }
    destruct (nth_error (s_ws s) i); [|exact G].
    destruct (w_phase (watch_spawn pa s w)); try exact G'. apply ginv_set_panic. exact G'.
  - (* LProc *)
    apply ginv_upd_w; [exact G|]. intros w Hw. apply winv_proc. exact Hw.
  - (* LConsume *)
    apply ginv_upd_w; [exact G|]. intros w Hw. apply winv_consume. exact Hw.
  - (* LCancel *)
    apply ginv_upd_w; [exact G|]. intros w Hw. apply winv_set_ctx. exact Hw.
Qed.

Lemma ginv_run pa l ls s : 0 < l -> ginv l s -> ginv l (run pa ls s).
Proof.
  intros Hl. revert s. induction ls as [|lb t IH]; intros s G; [exact G|].
  cbn [run fold_left]. apply IH. apply ginv_step; assumption.
Qed.

Theorem reachable_inv pa l c0 ls : 0 < l -> ginv l (run pa ls (init l c0)).
Proof. intros Hl. apply ginv_run; [exact Hl|apply ginv_init; exact Hl]. Qed.

(* ------------------------------------------------------------------ the C05 theorems over all label lists *)

Lemma winv_of pa l c0 ls i w :
  0 < l -> nth_error (s_ws (run pa ls (init l c0))) i = Some w ->
  winv l (s_cached (run pa ls (init l c0))) (s_hub (run pa ls (init l c0))) w.
Proof.
  intros Hl Hn. pose proof (reachable_inv pa l c0 ls Hl) as G.
  pose proof (gi_ws _ _ G) as Hf. rewrite Forall_forall in Hf. apply Hf. eapply nth_error_In. exact Hn.
Qed.

(* a stream that never accepted a batch after a dropped one is a prefix of the ideal stream *)
Theorem prefix_nogap pa l c0 ls i w :
  0 < l -> nth_error (s_ws (run pa ls (init l c0))) i = Some w ->
  accepted w = true -> w_gap w = false ->
  is_prefix (concat (w_got w)) (ideal (w_S w) (w_P w) (w_base w) (s_cached (run pa ls (init l c0)))).
Proof.
  intros Hl Hn Hacc Hgap. pose proof (reachable_inv pa l c0 ls Hl) as G.
  pose proof (winv_of pa l c0 ls i w Hl Hn) as W. set (s := run pa ls (init l c0)) in *.
  destruct (wi_pipe _ _ _ _ W) as [taken [Hin Hdel]].
  destruct (wi_acc _ _ _ _ W Hacc) as [Heq _]. rewrite <- Heq.
  apply (is_prefix_trans _ (delivered w)); [apply is_prefix_app|]. rewrite Hdel.
  apply is_prefix_app_l. apply is_prefix_filter.
  apply (is_prefix_trans _ (w_in w)); [rewrite Hin; apply is_prefix_app|].
  apply (is_prefix_trans _ (skipn (w_base w) (s_hub s))); [apply (wi_nogap _ _ _ _ W Hgap)|].
  apply is_prefix_skipn; [apply (wi_base _ _ _ _ W)|]. rewrite (gi_flow _ _ G). apply is_prefix_app.
Qed.

(* nothing left to do for the producer, the hub, processEvents and the client, result channel open *)
Definition settled (s : sys) (w : watcher) : Prop :=
  s_cur s = None /\ s_pending s = [] /\ s_wchan s = [] /\
  w_phase w = PhRun /\
  c_buf (w_sub w) = [] /\ c_closed (w_sub w) = false /\ w_hold w = None /\
  c_buf (w_out w) = [] /\ c_closed (w_out w) = false.

Theorem complete_settled pa l c0 ls i w :
  0 < l -> nth_error (s_ws (run pa ls (init l c0))) i = Some w ->
  settled (run pa ls (init l c0)) w ->
  concat (w_got w) = ideal (w_S w) (w_P w) (w_base w) (s_cached (run pa ls (init l c0))).
Proof.
  intros Hl Hn [Hcur [Hpend [Hwc [Hph [Hsub [Hopen [Hhold [Hout Hoc]]]]]]]].
  pose proof (reachable_inv pa l c0 ls Hl) as G.
  pose proof (winv_of pa l c0 ls i w Hl Hn) as W. set (s := run pa ls (init l c0)) in *.
  assert (Hacc : accepted w = true) by (unfold accepted; rewrite Hph; reflexivity).
  destruct (wi_pipe _ _ _ _ W) as [taken [Hin Hdel]].
  destruct (wi_acc _ _ _ _ W Hacc) as [Heq _]. rewrite <- Heq.
  assert (Hreg : w_reg w = true).
  { destruct (w_reg w) eqn:E; [reflexivity|]. rewrite (wi_unreg _ _ _ _ W E) in Hopen. discriminate. }
  assert (Hnd : w_dropped w = false).
  { destruct (w_dropped w) eqn:E; [|reflexivity]. pose proof (wi_drop _ _ _ _ W E). congruence. }
  pose proof (wi_live _ _ _ _ W Hreg Hnd) as Hlive.
  assert (Hhub : s_hub s = s_cached s).
  { rewrite (gi_flow _ _ G), Hwc, Hpend. cbn [concat app]. rewrite app_nil_r. reflexivity. }
  unfold delivered, hold_list in Hdel. rewrite Hout, Hhold in Hdel. cbn [concat app] in Hdel. rewrite app_nil_r in Hdel.
  rewrite Hdel. f_equal. f_equal. rewrite Hsub in Hin. cbn [concat] in Hin. rewrite app_nil_r in Hin.
  rewrite <- Hin, Hlive, Hhub. reflexivity.
Qed.

(* an accepted watch with S > 0 loses nothing: every event fanned out before the subscription (which the
   subscriber will never be offered) with revision >= S was in the cache window read by FindEvents *)
Theorem refusal_sound pa l c0 ls i w :
  0 < l -> nth_error (s_ws (run pa ls (init l c0))) i = Some w ->
  accepted w = true -> w_S w <> 0 ->
  forall e, In e (firstn (w_base w) (s_cached (run pa ls (init l c0)))) -> w_S w <= e_rev e -> In e (w_snap w).
Proof.
  intros Hl Hn Hacc HS. pose proof (winv_of pa l c0 ls i w Hl Hn) as W.
  destruct (wi_acc _ _ _ _ W Hacc) as [_ [_ H]]. exact (H HS).
Qed.

(* the ordering premise of the producer: every event handed to the hub is in the cache already *)
Theorem cache_before_broadcast pa l c0 ls :
  0 < l -> let s := run pa ls (init l c0) in
  s_cached s = s_hub s ++ concat (s_wchan s) ++ s_pending s /\ sorted (s_cached s).
Proof.
  intros Hl s. pose proof (reachable_inv pa l c0 ls Hl) as G. split; [apply (gi_flow _ _ G)|apply (gi_sorted _ _ G)].
Qed.

(* ------------------------------------------------------------------ a dropped subscriber is never offered another batch *)

Definition no_gap (s : sys) : Prop := Forall (fun w => w_gap w = false) (s_ws s).

Lemma gap_upd s i f : (forall w, w_gap (f w) = w_gap w) -> no_gap s -> no_gap (upd_w s i f).
Proof.
  intros Hf H. unfold no_gap, upd_w, s_set_ws in *. cbn [s_ws]. apply Forall_upd_nth; [exact H|].
  intros w Hw. rewrite Hf. exact Hw.
Qed.

Lemma gap_delete w cd : w_gap (delete_watcher w cd) = w_gap w.
Proof. unfold delete_watcher. destruct (w_reg w); reflexivity. Qed.
Lemma gap_read s w : w_gap (watch_read s w) = w_gap w.
Proof. unfold watch_read. destruct (w_phase w); try reflexivity. destruct (w_S w =? 0); reflexivity. Qed.
Lemma gap_spawn pa s w : w_gap (watch_spawn pa s w) = w_gap w.
Proof.
  unfold watch_spawn. destruct (w_phase w); try reflexivity.
  - destruct (w_S w =? 0); reflexivity.
  - destruct (watch_decide _ _ _ _ _); reflexivity.
Qed.
Lemma gap_proc pa w : w_gap (proc_step pa w) = w_gap w.
Proof.
  unfold proc_step. destruct (w_phase w); try reflexivity. destruct (w_hold w).
  - destruct (_ <? _); reflexivity.
  - destruct (chan_recv (w_sub w)) as [[b c]|]; [reflexivity|]. destruct (c_closed (w_sub w)); reflexivity.
Qed.
Lemma gap_consume w : w_gap (consume_step w) = w_gap w.
Proof.
  unfold consume_step. destruct (chan_recv (w_out w)) as [[b c]|]; [reflexivity|]. destruct (c_closed (w_out w)); reflexivity.
Qed.

Lemma gap_step pa l s lb : ginv l s -> no_gap s -> no_gap (step pa s lb).
Proof.
  intros G Hg. unfold step. destruct (s_panic s); [exact Hg|].
  destruct lb as [we| | |order|i|sr pf|i|i|i|i|i].
  - destruct (s_cur s); [exact Hg|]. destruct (_ && _); exact Hg.
  - destruct (s_cur s); [|exact Hg]. destruct (ring_add _ _); exact Hg.
  - destruct (s_cur s); [exact Hg|]. destruct (s_pending s); [exact Hg|]. destruct (_ <? _); exact Hg.
  - destruct (s_wchan s) as [|item rest]; [exact Hg|]. destruct (existsb _ _); [exact Hg|].
    unfold no_gap in *. cbn [s_ws]. apply Forall_map.
    pose proof (gi_ws _ _ G) as Hw. rewrite Forall_forall in *. intros w Hin.
    specialize (Hg w Hin). specialize (Hw w Hin).
    unfold offer. destruct (w_reg w) eqn:Ereg; [|exact Hg]. destruct (_ <? _); [|exact Hg].
    cbn [w_gap]. rewrite Hg. cbn [orb]. destruct (w_dropped w) eqn:Ed; [|reflexivity].
    pose proof (wi_drop _ _ _ _ Hw Ed). congruence.
  - apply gap_upd; [|exact Hg]. intros w. destruct (_ && _); [apply gap_delete|reflexivity].
  - unfold no_gap, s_set_ws in *. cbn [s_ws]. apply Forall_app. split; [exact Hg|]. constructor; [reflexivity|constructor].
  - apply gap_upd; [|exact Hg]. intros w. apply gap_read.
  - assert (H : no_gap (upd_w s i (watch_spawn pa s))) by (apply gap_upd; [intros w; apply gap_spawn|exact Hg]).
    destruct (nth_error (s_ws s) i); [|exact Hg]. destruct (w_phase _); exact H.
  - apply gap_upd; [|exact Hg]. intros w. apply gap_proc.
  - apply gap_upd; [|exact Hg]. intros w. apply gap_consume.
  - apply gap_upd; [|exact Hg]. intros w. reflexivity.
Qed.

Lemma run_snoc pa ls lb s : run pa (ls ++ [lb]) s = step pa (run pa ls s) lb.
Proof. unfold run. rewrite fold_left_app. reflexivity. Qed.

Theorem never_accepts_after_drop pa l c0 ls : 0 < l -> no_gap (run pa ls (init l c0)).
Proof.
  intros Hl. induction ls as [|lb ls IH] using rev_ind.
  - constructor.
  - rewrite run_snoc. apply (gap_step pa l); [apply reachable_inv; exact Hl|exact IH].
Qed.

(* C05_prefix at full strength: every accepted watcher, every interleaving *)
Theorem prefix_full pa l c0 ls i w :
  0 < l -> nth_error (s_ws (run pa ls (init l c0))) i = Some w -> accepted w = true ->
  is_prefix (concat (w_got w)) (ideal (w_S w) (w_P w) (w_base w) (s_cached (run pa ls (init l c0)))).
Proof.
  intros Hl Hn Hacc. apply (prefix_nogap pa l c0 ls i w Hl Hn Hacc).
  pose proof (never_accepts_after_drop pa l c0 ls Hl) as Hg. unfold no_gap in Hg. rewrite Forall_forall in Hg.
  apply Hg. eapply nth_error_In. exact Hn.
Qed.

(* a subscriber whose buffer was found full is closed and unregistered in the same hub step *)
Theorem dropped_is_closed pa l c0 ls i w :
  0 < l -> nth_error (s_ws (run pa ls (init l c0))) i = Some w -> w_dropped w = true ->
  w_reg w = false /\ c_closed (w_sub w) = true.
Proof.
  intros Hl Hn Hd. pose proof (winv_of pa l c0 ls i w Hl Hn) as W.
  pose proof (wi_drop _ _ _ _ W Hd) as Hr. split; [exact Hr|apply (wi_unreg _ _ _ _ W Hr)].
Qed.

(* ------------------------------------------------------------------ decidable prefix, for witnesses *)

Lemma ev_eqb_refl e : ev_eqb e e = true.
Proof.
  unfold ev_eqb. rewrite !N.eqb_refl, !beqb_refl. destruct (e_ty e); reflexivity.
Qed.

Lemma is_prefix_prefixb a b : is_prefix a b -> prefixb a b = true.
Proof.
  intros [t ->]. induction a as [|h a IH]; [reflexivity|]. cbn [prefixb app]. rewrite ev_eqb_refl. exact IH.
Qed.
