(* Lemmas for C18 over Model/Roles.v. *)
From KB Require Import Model.Roles Model.C18Cases.
Local Open Scope N_scope.

(* ------------------------------------------------------------------ the role table *)

Lemma follower_never_writes : forall k proxy l,
  let e := roles_effects k Follower proxy l in
  f_backend e <> BMutate /\ f_backend e <> BWatchCall
  /\ outcome_of e <> ApplyLocal /\ outcome_of e <> WatchLocal.
Proof.
  intros k proxy l; destruct k, proxy, l; cbn; repeat split; discriminate.
Qed.

(* a follower either rejects, forwards, errors, answers with a canned reply, or reads after a sync *)
Lemma follower_outcomes : forall k proxy l,
  match outcome_of (roles_effects k Follower proxy l) with
  | RejectUnavailable | Forward | Error | Stub | Nothing | ServeLocalAt _ => True
  | ApplyLocal | WatchLocal | ServeLocal => False
  end.
Proof. intros k proxy l; destruct k, proxy, l; cbn; exact I. Qed.

(* forwarding happens only with the proxy enabled, and only for etcd transactions and pure watches *)
Lemma forward_only_with_proxy : forall k r proxy l,
  f_forward (roles_effects k r proxy l) <> FNone -> r = Follower /\ proxy = true.
Proof.
  intros k r proxy l; destruct k, r, proxy, l; cbn; intros H; try (exfalso; apply H; reflexivity); split; reflexivity.
Qed.

Lemma leader_only_publishes : forall r proxy l,
  f_resp (roles_effects StatusHandler r proxy l) = RespOk <-> r = Leader.
Proof. intros r proxy l; destruct r; cbn; split; congruence. Qed.

Lemma status_no_side_effect : forall r proxy l,
  let e := roles_effects StatusHandler r proxy l in f_backend e = BNone /\ f_set e = None /\ f_forward e = FNone.
Proof. intros r proxy l; destruct r; cbn; repeat split. Qed.

Definition fetch_succeeds (l : reach) : bool := match l with ReachOk _ => true | _ => false end.

(* the full statement of "read only after a successful sync, fail otherwise" *)
Definition read_after_sync_statement (l : reach) : Prop :=
  forall k proxy, is_read k = true ->
    let e := roles_effects k Follower proxy l in
    (f_backend e = BRead -> exists rev, l = ReachOk rev /\ f_fetch e = true /\ f_set e = Some rev)
    /\ (fetch_succeeds l = false -> f_resp e = RespError /\ f_backend e = BNone /\ f_set e = None).

Lemma read_after_sync : forall l, read_after_sync_statement l.
Proof.
  intros l k proxy Hk. destruct l as [rev| | |];
    destruct k; try discriminate Hk; cbn; split; intros H; try discriminate H;
    try (exists rev; repeat split; reflexivity); repeat split; reflexivity.
Qed.

(* leader: no fetch, no set, ever *)
Lemma leader_never_syncs : forall k proxy l,
  let e := roles_effects k Leader proxy l in f_fetch e = false /\ f_set e = None /\ f_forward e = FNone.
Proof. intros k proxy l; destruct k, proxy, l; cbn; repeat split. Qed.

(* the invalid-key watch is cancelled whatever the configuration *)
Lemma invalid_key_watch : forall r proxy l, outcome_of (roles_effects EWatchInvalidKey r proxy l) = Error.
Proof. intros r proxy l; destruct r; reflexivity. Qed.

(* ------------------------------------------------------------------ interleaved reads *)

(* per-thread invariant, relative to the leader's revision L and the syncer's installed revision S *)
Definition tinv (L S : N) (x : thr) : Prop :=
  t_joined x = false ->
  match t_pc x with
  | PInit => True
  | PJoined => False                           (* a waiting thread is marked as having joined *)
  | PBegun | PWaitLeader => t_begin x <= L
  | PHandled v => t_begin x <= v /\ v <= L
  | PGot v | PBlocked v | PInstalling v => t_begin x <= v
  | PSet => t_begin x <= S
  | PDone => t_begin x <= t_scan x
  end.

(* whatever the thread did: it began no later than now; a thread inside SetCurrentRevision(v) has v > synced *)
Definition winv (L S : N) (x : thr) : Prop :=
  match t_pc x with
  | PInit => True
  | PInstalling v => t_begin x <= L /\ S < v
  | _ => t_begin x <= L
  end.

Definition installing (x : thr) : Prop := match t_pc x with PInstalling _ => True | _ => False end.

Record sinv (s : isys) : Prop := mkSinv {
  si_a : tinv (i_leader s) (i_synced s) (i_a s);
  si_b : tinv (i_leader s) (i_synced s) (i_b s);
  si_wa : winv (i_leader s) (i_synced s) (i_a s);
  si_wb : winv (i_leader s) (i_synced s) (i_b s);
  si_sync : i_synced s <= i_frev s;      (* the backend's read revision is at least what the syncer installed *)
  si_mutex : match i_mutex s with
             | None => ~ installing (i_a s) /\ ~ installing (i_b s)
             | Some TA => ~ installing (i_b s)
             | Some TB => ~ installing (i_a s)
             end
}.

Lemma sinv_init l0 f0 : sinv (i_init l0 f0).
Proof. constructor; cbn; unfold tinv, winv, installing; cbn; auto; lia. Qed.

Lemma run_snoc refetch share s ls l : run refetch share s (ls ++ [l]) = step refetch share (run refetch share s ls) l.
Proof. unfold run. rewrite fold_left_app. reflexivity. Qed.

Ltac projs := cbn [i_leader i_frev i_synced i_mutex i_flight i_a i_b i_sets t_pc t_begin t_got t_scan t_joined
                  get_thr set_thr set_flight set_mutex with_pc other tid_eqb] in *.

Ltac crush :=
  repeat match goal with
         | H : _ /\ _ |- _ => destruct H
         | |- _ /\ _ => split
         end;
  try tauto; try lia; try discriminate; auto.

Ltac fin :=
  constructor; unfold tinv, winv, installing; projs;
  try assumption;
  try (match goal with |- _ = false -> _ => let Hj := fresh "Hj" in intros Hj; try discriminate Hj end);
  repeat match goal with H : ?j = false -> _, Hj : ?j = false |- _ => specialize (H Hj) end;
  repeat (match goal with M : option tid |- _ => destruct M as [[|]|] end);
  repeat match goal with H : _ \/ _ |- _ => destruct H end;
  crush.

Lemma step_preserves refetch share s l : sinv s -> sinv (step refetch share s l).
Proof.
  intros [Ha Hb Wa Wb Hs Hm].
  destruct s as [L F S M FL [pa ba ga sa ja] [pb bb gb sb jb] sets].
  unfold tinv, winv, installing in *. projs.
  destruct l as [|[|]].
  - (* the leader advances *)
    unfold step; projs. destruct pa, pb; fin.
  - (* a step of TA *)
    unfold step, arrive_lock; cbn [get_thr i_a t_pc].
    destruct pa as [| | |v| |v|v|v| |]; projs.
    + fin.
    + destruct FL as [o|]; [destruct share|]; fin.
    + fin.
    + destruct pb as [| | |w| |w|w|w| |]; projs; try destruct refetch; projs; destruct FL as [[|]|]; projs; fin.
    + fin.
    + destruct M as [[|]|]; projs; [| |destruct (N.ltb_spec S v); projs]; fin.
    + fin.
    + assert (HSv : S < v) by crush.
      destruct pb as [| | |w| |w|w|w| |]; projs; try (destruct (N.ltb_spec v w); projs); fin.
    + fin.
    + fin.
  - (* a step of TB *)
    unfold step, arrive_lock; cbn [get_thr i_b t_pc].
    destruct pb as [| | |v| |v|v|v| |]; projs.
    + fin.
    + destruct FL as [o|]; [destruct share|]; fin.
    + fin.
    + destruct pa as [| | |w| |w|w|w| |]; projs; try destruct refetch; projs; destruct FL as [[|]|]; projs; fin.
    + fin.
    + destruct M as [[|]|]; projs; [| |destruct (N.ltb_spec S v); projs]; fin.
    + fin.
    + assert (HSv : S < v) by crush.
      destruct pa as [| | |w| |w|w|w| |]; projs; try (destruct (N.ltb_spec v w); projs); fin.
    + fin.
    + fin.
Qed.

Lemma run_inv refetch share l0 f0 ls : sinv (run refetch share (i_init l0 f0) ls).
Proof.
  induction ls as [|l ls IH] using rev_ind; [apply sinv_init|].
  rewrite run_snoc. apply step_preserves. exact IH.
Qed.

Lemma sinv_thr_fresh s t : sinv s -> t_joined (get_thr s t) = false -> thr_fresh (get_thr s t) = true.
Proof.
  intros H Hj. assert (Ht : tinv (i_leader s) (i_synced s) (get_thr s t)) by (destruct t; [apply (si_a _ H)|apply (si_b _ H)]).
  unfold tinv in Ht. specialize (Ht Hj). unfold thr_fresh. destruct (t_pc (get_thr s t)); try reflexivity. apply N.leb_le. exact Ht.
Qed.

(* with the re-fetch of joiners: only a thread that is still waiting is marked as joined *)
Lemma refetch_joined_waiting : forall share l0 f0 ls t,
  let s := run true share (i_init l0 f0) ls in t_joined (get_thr s t) = true -> t_pc (get_thr s t) = PJoined.
Proof.
  intros share l0 f0 ls. induction ls as [|l ls IH] using rev_ind; [intros [] s H; discriminate H|].
  rewrite run_snoc. cbv zeta in IH |- *. revert IH. generalize (run true share (i_init l0 f0) ls) as s.
  intros s IH. pose proof (IH TA) as Ia. pose proof (IH TB) as Ib. clear IH.
  destruct s as [L F S M FL [pa ba ga sa ja] [pb bb gb sb jb] sets]. projs.
  destruct l as [|[|]]; unfold step, arrive_lock; projs.
  - intros []; assumption.
  - destruct pa as [| | |v| |v|v|v| |]; projs;
      try (destruct FL as [[|]|]; try destruct share; projs);
      try (destruct pb as [| | |w| |w|w|w| |]; projs);
      try (destruct M as [[|]|]; projs);
      try (destruct (S <? v); projs); try (destruct (v <? w); projs);
      intros []; projs; intros H; try discriminate H; auto;
      try (specialize (Ia H); discriminate Ia); try (specialize (Ib H); discriminate Ib).
  - destruct pb as [| | |v| |v|v|v| |]; projs;
      try (destruct FL as [[|]|]; try destruct share; projs);
      try (destruct pa as [| | |w| |w|w|w| |]; projs);
      try (destruct M as [[|]|]; projs);
      try (destruct (S <? v); projs); try (destruct (v <? w); projs);
      intros []; projs; intros H; try discriminate H; auto;
      try (specialize (Ia H); discriminate Ia); try (specialize (Ib H); discriminate Ib).
Qed.

(* joiners of an older flight fetch again: every read is fresh, on every schedule *)
Lemma read_fresh_any : forall share l0 f0 ls, fresh (run true share (i_init l0 f0) ls) = true.
Proof.
  intros share l0 f0 ls. pose proof (run_inv true share l0 f0 ls) as Hinv.
  pose proof (refetch_joined_waiting share l0 f0 ls) as Hj. cbv zeta in Hj.
  set (s := run true share (i_init l0 f0) ls) in *.
  assert (H : forall t, thr_fresh (get_thr s t) = true).
  { intros t. destruct (t_joined (get_thr s t)) eqn:E.
    - unfold thr_fresh. rewrite (Hj t E). reflexivity.
    - apply sinv_thr_fresh; assumption. }
  unfold fresh. change (i_a s) with (get_thr s TA). change (i_b s) with (get_thr s TB). rewrite !H. reflexivity.
Qed.

Lemma read_fresh : forall l0 f0 ls, fresh (run_code (i_init l0 f0) ls) = true.
Proof. intros. apply read_fresh_any. Qed.

(* witnesses: A = TA, B = TB *)
(* the schedule of the former finding C18-F1: A has its revision (10) and is delayed before installing it; the leader
   moves to 12; B fetches and installs 12; A's late install is dropped *)
Definition w_set_race : list label :=
  [LStep TA; LStep TA; LStep TA; LStep TA; LAdv; LAdv; LStep TB; LStep TB; LStep TB; LStep TB; LStep TB; LStep TB; LStep TA; LStep TB; LStep TA].
(* C18-F3: B joins the flight A started before B began *)
Definition w_shared_flight : list label :=
  [LStep TA; LStep TA; LStep TA; LAdv; LAdv; LStep TB; LStep TB; LStep TA; LStep TA; LStep TA; LStep TA; LStep TB; LStep TB].

(* without the re-fetch the shared flight serves a stale read (the former finding C18-F3) *)
Lemma shared_flight_was_stale : fresh (run false true (i_init 10 5) w_shared_flight) = false.
Proof. vm_compute. reflexivity. Qed.

Lemma set_race_harmless :
  let s := run_code (i_init 10 5) w_set_race in
  obs_of_thr (i_a s) = TObs true 10 12 false /\ obs_of_thr (i_b s) = TObs true 12 12 false
  /\ map (fun x => match x with (_, before, v) => (before, v) end) (i_sets s) = [(5, 12)].
Proof. vm_compute. repeat split. Qed.

Lemma shared_flight_refetched :
  let s := run_code (i_init 10 5) [LStep TA; LStep TA; LStep TA; LAdv; LAdv; LStep TB; LStep TB; LStep TA; LStep TA; LStep TB; LStep TB; LStep TB; LStep TA; LStep TB; LStep TB; LStep TA; LStep TB] in
  obs_of_thr (i_a s) = TObs true 10 12 false /\ obs_of_thr (i_b s) = TObs true 12 12 false.
Proof. vm_compute. repeat split. Qed.

(* ------------------------------------------------------------------ oracle soundness *)

Definition c18_valid (c : c18_case) : Prop := True.

Lemma effects_eqb_eq a b : effects_eqb a b = true -> a = b.
Proof.
  destruct a as [ra fa sa ba wa], b as [rb fb sb bb wb]. unfold effects_eqb; cbn. intros H.
  repeat (apply andb_true_iff in H; destruct H as [H ?]).
  assert (ra = rb) by (destruct ra, rb; try discriminate; reflexivity).
  assert (fa = fb) by (apply Bool.eqb_prop; assumption).
  assert (sa = sb) by (destruct sa, sb; cbn in *; try discriminate; try reflexivity; f_equal; apply N.eqb_eq; assumption).
  assert (ba = bb) by (destruct ba, bb; try discriminate; reflexivity).
  assert (wa = wb) by (destruct wa, wb; try discriminate; reflexivity).
  subst. reflexivity.
Qed.

Lemma c18_role_sound : forall k r proxy l obs,
  c18_check (RoleCase k r proxy l obs) = true -> c18_oracle (RoleCase k r proxy l obs) = None.
Proof.
  intros k r proxy l obs H. cbn in H. apply effects_eqb_eq in H. subst obs. cbn [c18_oracle].
  destruct r, k, proxy, l; unfold role_row_ok, set_verdict, role_row_rest; cbn; rewrite ?N.eqb_refl; reflexivity.
Qed.

(* a schedule that runs both reads to completion: both are observed finished and fresh *)
Lemma c18_sched_sound : forall l0 f0 ls a b sets,
  c18_validb (SchedCase l0 f0 ls a b sets) = true ->
  c18_check (SchedCase l0 f0 ls a b sets) = true -> c18_oracle (SchedCase l0 f0 ls a b sets) = None.
Proof.
  intros l0 f0 ls a b sets Hv H. cbn in H, Hv.
  apply andb_true_iff in H; destruct H as [H Hs]. apply andb_true_iff in H; destruct H as [Ha Hb].
  apply andb_true_iff in Hv; destruct Hv as [Da Db].
  pose proof (read_fresh l0 f0 ls) as Hf. set (s := run_code (i_init l0 f0) ls) in *.
  unfold fresh in Hf. apply andb_true_iff in Hf. destruct Hf as [Fa Fb].
  assert (Hfa : tobs_fresh a = true).
  { unfold thr_fresh in Fa. unfold thr_done in Da. unfold obs_of_thr in Ha. destruct (t_pc (i_a s)); try discriminate Da.
    destruct a as [d bg sc j]; cbn in Ha |- *;
      repeat (apply andb_true_iff in Ha; destruct Ha as [Ha ?]); destruct d; try discriminate.
    apply N.eqb_eq in H0; apply N.eqb_eq in H1; subst. exact Fa. }
  assert (Hfb : tobs_fresh b = true).
  { unfold thr_fresh in Fb. unfold thr_done in Db. unfold obs_of_thr in Hb. destruct (t_pc (i_b s)); try discriminate Db.
    destruct b as [d bg sc j]; cbn in Hb |- *;
      repeat (apply andb_true_iff in Hb; destruct Hb as [Hb ?]); destruct d; try discriminate.
    apply N.eqb_eq in H0; apply N.eqb_eq in H1; subst. exact Fb. }
  cbn. rewrite Hfa, Hfb. reflexivity.
Qed.

(* overlapping reads: a failed fetch (incl. an unparsable answer) leaves the other read alone *)
Lemma overlap_failed_fetch : forall r l, fetch_succeeds l = false -> overlap_model r l = (RespError, [r], r).
Proof. intros r l Hf. destruct l; try discriminate Hf; reflexivity. Qed.

Lemma list_eqb_N_eq l1 l2 : list_eqb N.eqb l1 l2 = true -> l1 = l2.
Proof.
  revert l2. induction l1 as [|x l1 IH]; intros [|y l2]; cbn; try discriminate; [reflexivity|].
  intros H. apply andb_true_iff in H. destruct H as [H1 H2]. apply N.eqb_eq in H1. subst. f_equal. auto.
Qed.

Lemma c18_overlap_sound : forall r l b_resp sets a_scan a_nonempty,
  (0 < r)%N ->
  c18_check (OverlapCase r l b_resp sets a_scan a_nonempty) = true ->
  c18_oracle (OverlapCase r l b_resp sets a_scan a_nonempty) = None.
Proof.
  intros r l b_resp sets a_scan a_nonempty Hr H. unfold c18_check in H.
  destruct l as [v| | |]; unfold overlap_model, sync_read in H; unfold c18_oracle;
    repeat (apply andb_true_iff in H; destruct H as [H ?]);
    apply N.eqb_eq in H1; subst a_scan; apply Bool.eqb_prop in H0; subst a_nonempty;
    apply list_eqb_N_eq in H2; subst sets.
  - (* a later successful fetch: the read revision is the larger of the two, whatever the leader reported *)
    assert (E1 : (r <=? N.max r v)%N = true) by (apply N.leb_le; lia).
    assert (E2 : (0 <? N.max r v)%N = true) by (apply N.ltb_lt; lia). rewrite E1, E2. reflexivity.
  - destruct b_resp; try discriminate. cbn. rewrite N.eqb_refl, N.leb_refl.
    assert (E2 : (0 <? r)%N = true) by (apply N.ltb_lt; lia). rewrite E2. reflexivity.
  - destruct b_resp; try discriminate. cbn. rewrite N.eqb_refl, N.leb_refl.
    assert (E2 : (0 <? r)%N = true) by (apply N.ltb_lt; lia). rewrite E2. reflexivity.
  - destruct b_resp; try discriminate. cbn. rewrite N.eqb_refl, N.leb_refl.
    assert (E2 : (0 <? r)%N = true) by (apply N.ltb_lt; lia). rewrite E2. reflexivity.
Qed.

(* explicit-revision reads: whatever the Revision field says, a follower syncs first (the field is overloaded:
   count-only and the partition list answer at the node's read revision) *)
Lemma explicit_revision_reads_sync : forall m v proxy l,
  roles_effects (ERangeAt m v) Follower proxy l = roles_effects ERangeList Follower proxy l.
Proof. reflexivity. Qed.

(* the sequential follower: after a read at r1 and the leader's move to a larger r2, a second read of any kind installs
   r2 and is answered at r2 *)
Lemma follow_model_eq m v r1 r2 : (0 < r1)%N -> (r1 < r2)%N -> follow_model m v r1 r2 = ([r1; r2], r2).
Proof.
  intros H1 H2. unfold follow_model, fn_req, fn_apply, fn_init. cbn [roles_effects read_effects sync_read f_set f_resp fst fn_synced fn_rev fn_sets].
  replace (0 <? r1)%N with true by (symmetry; apply N.ltb_lt; exact H1). cbn [fn_synced fn_rev fn_sets].
  replace (r1 <? r2)%N with true by (symmetry; apply N.ltb_lt; exact H2). cbn [fn_synced fn_rev fn_sets app].
  f_equal. lia.
Qed.

Lemma c18_follow_sound : forall m v r1 r2 sets hdr2, (0 < r1)%N -> (r1 < r2)%N ->
  c18_check (FollowCase m v r1 r2 sets hdr2) = true -> c18_oracle (FollowCase m v r1 r2 sets hdr2) = None.
Proof.
  intros m v r1 r2 sets hdr2 Hr1 Hr2 H. unfold c18_check in H. rewrite (follow_model_eq m v r1 r2 Hr1 Hr2) in H.
  apply andb_true_iff in H. destruct H as [H1 H2]. apply list_eqb_N_eq in H1. subst sets.
  apply N.eqb_eq in H2. subst hdr2. unfold c18_oracle. cbn [rev app]. rewrite N.eqb_refl, N.leb_refl. reflexivity.
Qed.

(* taking over: the leader flag implies that the lock version is installed; before that the node refuses /status,
   so a follower reading through it fails *)
Lemma leader_flag_implies_revision : forall p old version, tk_flag p = true -> (version <= tk_revision p old version)%N.
Proof. intros [] old version H; try discriminate H. cbn. lia. Qed.

Lemma takeover_peer_read : forall p old version,
  match f_backend (tk_peer_read p old version) with
  | BRead => f_set (tk_peer_read p old version) = Some (tk_revision p old version) /\ (version <= tk_revision p old version)%N
  | _ => f_resp (tk_peer_read p old version) = RespError
  end.
Proof. intros [] old version; cbn; try reflexivity. split; [reflexivity|lia]. Qed.

Lemma c18_takeover_sound : forall old version ms ml fr pc,
  c18_check (TakeoverCase old version ms ml fr pc) = true -> c18_oracle (TakeoverCase old version ms ml fr pc) = None.
Proof.
  intros old version ms ml fr pc H. unfold c18_check in H. cbn in H.
  repeat (apply andb_true_iff in H; destruct H as [H ?]).
  destruct ms; [discriminate|]. destruct ml; [discriminate|]. apply N.eqb_eq in H1. subst fr. subst pc.
  unfold c18_oracle. cbn [tk_revision]. assert (E : (version <=? N.max old version)%N = true) by (apply N.leb_le; lia).
  rewrite E. reflexivity.
Qed.

(* a forwarded transaction never installs a revision on the follower, whatever the leader's endpoint does *)
Lemma forward_never_sets : forall k l, (k = ETxnCreate \/ k = ETxnDelete \/ k = ETxnUpdate \/ k = ETxnCompact \/ k = ETxnInvalid) ->
  f_set (roles_effects k Follower true l) = None /\ f_backend (roles_effects k Follower true l) = BNone.
Proof. intros k l [->|[->|[->|[->| ->]]]]; split; reflexivity. Qed.

(* the sequential follower with the proxy: the forwarded transaction leaves the node alone, the first read installs r,
   the second read's fetch of the same r is dropped *)
Lemma forward_model_eq w r : forward_model w r = (if (0 <? r)%N then [r] else [], r, r).
Proof.
  unfold forward_model, fn_req, fn_apply, fn_init. cbn [roles_effects read_effects sync_read f_set f_resp fst fn_synced fn_rev fn_sets].
  destruct (N.ltb_spec 0 r) as [H|H]; cbn [fn_synced fn_rev fn_sets app].
  - rewrite N.ltb_irrefl. cbn [fn_rev fn_sets]. f_equal; [f_equal|]; lia.
  - assert (r = 0)%N by lia. subst r. reflexivity.
Qed.

Lemma c18_forward_sound : forall w r sets h1 h2 c,
  c18_check (ForwardCase w r sets h1 h2 c) = true -> c18_oracle (ForwardCase w r sets h1 h2 c) = None.
Proof.
  intros w r sets h1 h2 c H. unfold c18_check in H. rewrite forward_model_eq in H.
  repeat (apply andb_true_iff in H; destruct H as [H ?]). apply list_eqb_N_eq in H. subst sets.
  apply N.eqb_eq in H2, H1. subst h1 h2 c. unfold c18_oracle. rewrite N.leb_refl.
  destruct (0 <? r)%N; cbn [forallb]; rewrite ?N.eqb_refl; reflexivity.
Qed.

(* soundness for every case kind: Proofs/RolesN.v (the n-read kind needs the n-read theorem) *)

(* "rejects as unavailable or forwards", exactly: a write or a watch on a follower is rejected as unavailable when there
   is no etcd proxy (or the request is not an etcd one); with the proxy an etcd write or watch is forwarded *)
Lemma follower_write_exact : forall k l, is_write k || is_stream k = true ->
  outcome_of (roles_effects k Follower false l) = RejectUnavailable
  /\ (etcd_fwd k <> FNone -> outcome_of (roles_effects k Follower true l) = Forward /\ f_forward (roles_effects k Follower true l) = etcd_fwd k)
  /\ (etcd_fwd k = FNone -> outcome_of (roles_effects k Follower true l) = RejectUnavailable).
Proof.
  intros k l H. destruct k; try discriminate H; cbn; (split; [reflexivity|]); split; intros E; try reflexivity; try (split; reflexivity);
    try discriminate E; try (exfalso; apply E; reflexivity).
Qed.

(* and the leader serves them itself *)
Lemma leader_write_exact : forall k proxy l, is_write k = true -> k <> ETxnCompact -> k <> ETxnInvalid ->
  outcome_of (roles_effects k Leader proxy l) = ApplyLocal.
Proof. intros k proxy l H H1 H2. destruct k; try discriminate H; try reflexivity; congruence. Qed.

(* the oracle's clause for writes and watches on a follower is exact: an acknowledged write that was neither applied by a
   leader nor forwarded is flagged, so is a forward without a proxy *)
Lemma lost_write_flagged :
  c18_oracle (RoleCase BCreate Follower false Unreachable (mkEff RespOk false None BNone FNone)) = Some 0%N
  /\ c18_oracle (RoleCase ETxnCreate Follower false Unreachable (mkEff RespOk false None BNone FNone)) = Some 0%N
  /\ c18_oracle (RoleCase EWatchPure Follower false Unreachable (mkEff RespOk false None BNone FNone)) = Some 0%N
  /\ c18_oracle (RoleCase ETxnCreate Follower false Unreachable (mkEff RespOk false None BNone FTxn)) = Some 0%N
  /\ c18_oracle (SchedCase 10 5 [] (TObs false 0 0 false) (TObs false 0 0 false) []) = Some 0%N.
Proof. vm_compute. repeat split. Qed.
