(* Lemmas for C18 over Model/Roles.v. *)
From KB Require Import Model.Roles Model.C18Cases.
Local Open Scope N_scope.

(* ------------------------------------------------------------------ the role table *)

Lemma follower_never_writes : forall k proxy l,
  let e := roles_effects k Follower proxy l in
  f_backend e <> BMutate /\ f_backend e <> BWatchCall
  /\ outcome_of e <> ApplyLocal /\ outcome_of e <> WatchLocal.
Proof.
  intros k proxy l; destruct k, proxy, l; cbn; repeat split; discriminate.
Qed.

(* a follower either rejects, forwards, errors, answers with a canned reply, or reads after a sync *)
Lemma follower_outcomes : forall k proxy l,
  match outcome_of (roles_effects k Follower proxy l) with
  | RejectUnavailable | Forward | Error | Stub | Nothing | ServeLocalAt _ => True
  | ApplyLocal | WatchLocal | ServeLocal => False
  end.
Proof. intros k proxy l; destruct k, proxy, l; cbn; exact I. Qed.

(* forwarding happens only with the proxy enabled, and only for etcd transactions and pure watches *)
Lemma forward_only_with_proxy : forall k r proxy l,
  f_forward (roles_effects k r proxy l) <> FNone -> r = Follower /\ proxy = true.
Proof.
  intros k r proxy l; destruct k, r, proxy, l; cbn; intros H; try (exfalso; apply H; reflexivity); split; reflexivity.
Qed.

Lemma leader_only_publishes : forall r proxy l,
  f_resp (roles_effects StatusHandler r proxy l) = RespOk <-> r = Leader.
Proof. intros r proxy l; destruct r; cbn; split; congruence. Qed.

Lemma status_no_side_effect : forall r proxy l,
  let e := roles_effects StatusHandler r proxy l in f_backend e = BNone /\ f_set e = None /\ f_forward e = FNone.
Proof. intros r proxy l; destruct r; cbn; repeat split. Qed.

Definition fetch_succeeds (l : reach) : bool := match l with ReachOk _ => true | _ => false end.

(* the full statement of "read only after a successful sync, fail otherwise" *)
Definition read_after_sync_statement (l : reach) : Prop :=
  forall k proxy, is_read k = true ->
    let e := roles_effects k Follower proxy l in
    (f_backend e = BRead -> exists rev, l = ReachOk rev /\ f_fetch e = true /\ f_set e = Some rev)
    /\ (fetch_succeeds l = false -> f_resp e = RespError /\ f_backend e = BNone /\ f_set e = None).

Lemma read_after_sync : forall l, read_after_sync_statement l.
Proof.
  intros l k proxy Hk. destruct l as [rev| | |];
    destruct k; try discriminate Hk; cbn; split; intros H; try discriminate H;
    try (exists rev; repeat split; reflexivity); repeat split; reflexivity.
Qed.

(* leader: no fetch, no set, ever *)
Lemma leader_never_syncs : forall k proxy l,
  let e := roles_effects k Leader proxy l in f_fetch e = false /\ f_set e = None /\ f_forward e = FNone.
Proof. intros k proxy l; destruct k, proxy, l; cbn; repeat split. Qed.

(* the invalid-key watch is cancelled whatever the configuration *)
Lemma invalid_key_watch : forall r proxy l, outcome_of (roles_effects EWatchInvalidKey r proxy l) = Error.
Proof. intros r proxy l; destruct r; reflexivity. Qed.

(* ------------------------------------------------------------------ interleaved reads *)

(* per-thread invariant, relative to the leader's and the follower's current revisions *)
Definition tinv (L F : N) (x : thr) : Prop :=
  t_joined x = false ->
  match t_pc x with
  | PInit => True
  | PJoined => False                           (* a waiting thread is marked as having joined *)
  | PBegun | PWaitLeader => t_begin x <= L
  | PHandled v => t_begin x <= v /\ v <= L
  | PGot v => t_begin x <= v
  | PSet => t_begin x <= F
  | PDone => t_begin x <= t_scan x
  end.

Lemma tinv_mono L F L' F' x : L <= L' -> F <= F' -> tinv L F x -> tinv L' F' x.
Proof.
  unfold tinv; intros HL HF H Hj. specialize (H Hj). destruct (t_pc x); try exact H; try lia.
Qed.

Definition sinv (s : isys) : Prop := tinv (i_leader s) (i_frev s) (i_a s) /\ tinv (i_leader s) (i_frev s) (i_b s).

(* "no set has lowered the revision so far", or sets are monotone by construction *)
Definition nl (mono : bool) (s : isys) : Prop := mono = true \/ lowering_set s = false.

Lemma lowering_app l x : existsb (fun x : tid * N * N => let '(_, before, v) := x in v <? before) (l ++ [x]) = false ->
  existsb (fun x : tid * N * N => let '(_, before, v) := x in v <? before) l = false /\ (let '(_, before, v) := x in v <? before) = false.
Proof.
  rewrite existsb_app. cbn. rewrite orb_false_r. intros H. apply orb_false_iff in H. exact H.
Qed.

Lemma get_set_same s t x : get_thr (set_thr s t x) t = x.
Proof. destruct t; reflexivity. Qed.
Lemma get_set_other s t x : get_thr (set_thr s t x) (other t) = get_thr s (other t).
Proof. destruct t; reflexivity. Qed.

Lemma sinv_get s : sinv s <-> (forall t, tinv (i_leader s) (i_frev s) (get_thr s t)).
Proof.
  unfold sinv; split.
  - intros [Ha Hb] []; assumption.
  - intros H; split; [apply (H TA) | apply (H TB)].
Qed.

Lemma step_sets mono share s l : exists ext, i_sets (step mono share s l) = i_sets s ++ ext.
Proof.
  destruct l as [|t]; [exists []; cbn; rewrite app_nil_r; reflexivity|].
  unfold step. destruct (t_pc (get_thr s t));
    try (exists []; rewrite app_nil_r; destruct t; reflexivity).
  - destruct (i_flight s), share; exists []; rewrite app_nil_r; destruct t; reflexivity.
  - exists []; rewrite app_nil_r.
    destruct t; cbn; [destruct (t_pc (i_b s))|destruct (t_pc (i_a s))]; reflexivity.
  - eexists; destruct t; reflexivity.
Qed.

Lemma step_nl mono share s l : nl mono (step mono share s l) -> nl mono s.
Proof.
  intros [Hm|Hl]; [left; exact Hm|right].
  destruct (step_sets mono share s l) as [ext E]. unfold lowering_set in *. rewrite E, existsb_app in Hl.
  apply orb_false_iff in Hl. apply Hl.
Qed.

Lemma step_preserves mono share s l :
  nl mono (step mono share s l) -> sinv s -> sinv (step mono share s l).
Proof.
  intros Hnl Hinv. pose proof (step_nl _ _ _ _ Hnl) as Hnl0. destruct l as [|t].
  - destruct Hinv as [Ha Hb]. split; cbn; eapply tinv_mono; try eassumption; lia.
  - pose proof (proj1 (sinv_get s) Hinv) as Hall.
    pose proof (Hall t) as Ht. pose proof (Hall (other t)) as Ho.
    unfold step in *. destruct (t_pc (get_thr s t)) eqn:Epc.
    + (* PInit: begin := leader *)
      apply sinv_get. intros u.
      destruct t, u; cbn; try assumption; unfold tinv; cbn; intros _; lia.
    + (* PBegun *)
      unfold tinv in Ht; rewrite Epc in Ht.
      destruct (i_flight s); [destruct share|]; apply sinv_get; intros u;
        destruct t, u; cbn in *; try assumption; unfold tinv; cbn; try (intros Hj; discriminate Hj); exact Ht.
    + (* PWaitLeader: the leader's handler reads its revision *)
      unfold tinv in Ht; rewrite Epc in Ht.
      apply sinv_get; intros u; destruct t, u; cbn in *; try assumption; unfold tinv; cbn; intros Hj; specialize (Ht Hj); lia.
    + (* PHandled: the reply arrives; a joiner wakes with the same value *)
      unfold tinv in Ht; rewrite Epc in Ht.
      apply sinv_get; intros u.
      destruct t, u; cbn in *.
      * destruct (t_pc (i_b s)); cbn; unfold tinv; cbn; intros Hj; specialize (Ht Hj); lia.
      * destruct (t_pc (i_b s)) eqn:Eb; cbn; try exact Ho.
        unfold tinv; cbn. unfold tinv in Ho. rewrite Eb in Ho. intros Hj. destruct (Ho Hj).
      * destruct (t_pc (i_a s)) eqn:Ea; cbn; try exact Ho.
        unfold tinv; cbn. unfold tinv in Ho. rewrite Ea in Ho. intros Hj. destruct (Ho Hj).
      * destruct (t_pc (i_a s)); cbn; unfold tinv; cbn; intros Hj; specialize (Ht Hj); lia.
    + (* PJoined: blocked *)
      exact Hinv.
    + (* PGot v: SetCurrentRevision *)
      assert (Hle : i_frev s <= (if mono then N.max (i_frev s) v else v)).
      { destruct Hnl as [Hm|Hl].
        - subst mono. lia.
        - unfold lowering_set in Hl. destruct t; cbn in Hl;
            rewrite existsb_app in Hl; apply orb_false_iff in Hl; destruct Hl as [_ Hv]; cbn in Hv;
            rewrite orb_false_r in Hv; apply N.ltb_ge in Hv; destruct mono; lia. }
      unfold tinv in Ht; rewrite Epc in Ht.
      apply sinv_get; intros u. destruct t, u; cbn in *.
      * unfold tinv; cbn; intros Hj; specialize (Ht Hj). destruct mono; lia.
      * eapply tinv_mono; [apply N.le_refl|exact Hle|exact Ho].
      * eapply tinv_mono; [apply N.le_refl|exact Hle|exact Ho].
      * unfold tinv; cbn; intros Hj; specialize (Ht Hj). destruct mono; lia.
    + (* PSet: load the read revision and scan *)
      unfold tinv in Ht; rewrite Epc in Ht.
      apply sinv_get; intros u; destruct t, u; cbn in *; try assumption; unfold tinv; cbn; intros Hj; specialize (Ht Hj); lia.
    + exact Hinv.
Qed.

Lemma sinv_init l0 f0 : sinv (i_init l0 f0).
Proof. split; unfold tinv; cbn; auto. Qed.

Lemma run_snoc mono share s ls l : run mono share s (ls ++ [l]) = step mono share (run mono share s ls) l.
Proof. unfold run. rewrite fold_left_app. reflexivity. Qed.

Lemma run_inv mono share l0 f0 ls :
  nl mono (run mono share (i_init l0 f0) ls) -> sinv (run mono share (i_init l0 f0) ls).
Proof.
  induction ls as [|l ls IH] using rev_ind.
  - intros _. apply sinv_init.
  - rewrite run_snoc. intros Hnl. apply step_preserves; [exact Hnl|].
    apply IH. eapply step_nl. exact Hnl.
Qed.

Lemma thr_fresh_of_tinv L F x : tinv L F x -> t_joined x = false -> thr_fresh x = true.
Proof.
  unfold tinv, thr_fresh. intros H Hj. specialize (H Hj). destruct (t_pc x); try reflexivity. apply N.leb_le. exact H.
Qed.

(* every read that fetched for itself is fresh, as long as no set lowered the follower's revision *)
Lemma read_fresh_except : forall l0 f0 ls t,
  let s := run_code (i_init l0 f0) ls in
  lowering_set s = false -> t_joined (get_thr s t) = false -> thr_fresh (get_thr s t) = true.
Proof.
  intros l0 f0 ls t s Hl Hj.
  assert (Hinv : sinv s) by (apply run_inv; right; exact Hl).
  apply sinv_get with (t := t) in Hinv. eapply thr_fresh_of_tinv; eassumption.
Qed.

(* the repaired node: monotone set, no shared flights — every read is fresh, on every schedule *)
Lemma no_join_without_share : forall l0 f0 ls,
  let s := run true false (i_init l0 f0) ls in t_joined (i_a s) = false /\ t_joined (i_b s) = false.
Proof.
  intros l0 f0 ls. induction ls as [|l ls IH] using rev_ind; [split; reflexivity|].
  rewrite run_snoc. cbv zeta in IH. revert IH. generalize (run true false (i_init l0 f0) ls) as s.
  intros s [Ha Hb]. destruct l as [|t]; [split; assumption|].
  unfold step. destruct (t_pc (get_thr s t)) eqn:Epc; try (destruct t; cbn; split; assumption).
  - destruct t; cbn; split; auto.
  - destruct (i_flight s); destruct t; cbn; split; assumption.
  - destruct t; cbn in *; [destruct (t_pc (i_b s))|destruct (t_pc (i_a s))]; cbn; split; assumption.
Qed.

Lemma read_fresh_repaired : forall l0 f0 ls, fresh (run true false (i_init l0 f0) ls) = true.
Proof.
  intros l0 f0 ls.
  assert (Hinv : sinv (run true false (i_init l0 f0) ls)) by (apply run_inv; left; reflexivity).
  destruct (no_join_without_share l0 f0 ls) as [Ha Hb]. destruct Hinv as [Ia Ib].
  unfold fresh. rewrite (thr_fresh_of_tinv _ _ _ Ia Ha), (thr_fresh_of_tinv _ _ _ Ib Hb). reflexivity.
Qed.

(* witnesses: A = TA, B = TB *)
Definition w_set_race : list label :=
  [LStep TA; LStep TA; LStep TA; LStep TA; LAdv; LAdv; LStep TB; LStep TB; LStep TB; LStep TB; LStep TB; LStep TA; LStep TB; LStep TA].
Definition w_shared_flight : list label :=
  [LStep TA; LStep TA; LStep TA; LAdv; LAdv; LStep TB; LStep TB; LStep TA; LStep TA; LStep TA; LStep TB; LStep TB].

Lemma read_fresh_refuted : exists l0 f0 ls, fresh (run_code (i_init l0 f0) ls) = false.
Proof. exists 10, 5, w_set_race. vm_compute. reflexivity. Qed.

Lemma set_race_witness :
  let s := run_code (i_init 10 5) w_set_race in
  obs_of_thr (i_b s) = TObs true 12 10 false /\ lowering_set s = true /\ some_joined s = false.
Proof. vm_compute. repeat split. Qed.

Lemma shared_flight_witness :
  let s := run_code (i_init 10 5) w_shared_flight in
  obs_of_thr (i_b s) = TObs true 12 10 true /\ lowering_set s = false.
Proof. vm_compute. repeat split. Qed.

(* each half of the repair alone is not enough *)
Lemma monotone_set_alone_refuted : exists ls, fresh (run true true (i_init 10 5) ls) = false.
Proof. exists w_shared_flight. vm_compute. reflexivity. Qed.
Lemma private_fetch_alone_refuted : exists ls, fresh (run false false (i_init 10 5) ls) = false.
Proof. exists w_set_race. vm_compute. reflexivity. Qed.

(* ------------------------------------------------------------------ oracle soundness *)

Definition c18_valid (c : c18_case) : Prop := True.

Lemma c18_role_sound : forall k r proxy l obs,
  c18_check (RoleCase k r proxy l obs) = true -> c18_oracle (RoleCase k r proxy l obs) = None.
Proof.
  intros k r proxy l obs H. cbn in H.
  assert (E : role_row_ok k r l obs = role_row_ok k r l (roles_effects k r proxy l)).
  { unfold effects_eqb in H. repeat (apply andb_true_iff in H; destruct H as [H ?]).
    unfold role_row_ok, set_verdict, role_row_rest.
    assert (f_backend (roles_effects k r proxy l) = f_backend obs) as ->
      by (destruct (f_backend (roles_effects k r proxy l)), (f_backend obs); try discriminate; reflexivity).
    assert (f_resp (roles_effects k r proxy l) = f_resp obs) as ->
      by (destruct (f_resp (roles_effects k r proxy l)), (f_resp obs); try discriminate; reflexivity).
    assert (f_fetch (roles_effects k r proxy l) = f_fetch obs) as -> by (apply Bool.eqb_prop; assumption).
    assert (f_set (roles_effects k r proxy l) = f_set obs) as ->.
    { destruct (f_set (roles_effects k r proxy l)), (f_set obs); cbn in *; try discriminate; try reflexivity.
      f_equal. apply N.eqb_eq. assumption. }
    reflexivity. }
  cbn. rewrite E. clear E H.
  destruct r, k, proxy, l; unfold role_row_ok, set_verdict, role_row_rest; cbn; rewrite ?N.eqb_refl; reflexivity.
Qed.

Lemma c18_sched_sound : forall l0 f0 ls a b sets,
  c18_check (SchedCase l0 f0 ls a b sets) = true ->
  match c18_oracle (SchedCase l0 f0 ls a b sets) with
  | None => True
  | Some c => (c = F_set_race /\ lowering_set (run_code (i_init l0 f0) ls) = true)
              \/ (c = F_shared_flight /\ some_joined (run_code (i_init l0 f0) ls) = true)
  end.
Proof.
  intros l0 f0 ls a b sets H. cbn in H.
  apply andb_true_iff in H; destruct H as [H Hs]. apply andb_true_iff in H; destruct H as [Ha Hb].
  set (s := run_code (i_init l0 f0) ls) in *.
  assert (Hsets : existsb (fun x : N * N => snd x <? fst x) sets = lowering_set s).
  { unfold lowering_set. revert Hs. generalize (i_sets s) as l. intros l. revert sets.
    induction l as [|[[t bf] v] l IH]; intros [|[bf' v'] sets]; cbn; try discriminate; auto.
    intros H. apply andb_true_iff in H; destruct H as [H1 H2].
    unfold pair_eqb in H1; cbn in H1. apply andb_true_iff in H1; destruct H1 as [E1 E2].
    apply N.eqb_eq in E1; apply N.eqb_eq in E2; subst. rewrite (IH _ H2). reflexivity. }
  cbn. rewrite Hsets.
  destruct (tobs_fresh a && tobs_fresh b) eqn:Ef; [exact I|].
  destruct (lowering_set s) eqn:El; [left; split; reflexivity|].
  (* no lowering set: a stale thread must have joined *)
  assert (Hfa : t_joined (i_a s) = false -> tobs_fresh a = true).
  { intros Hj. pose proof (read_fresh_except l0 f0 ls TA El Hj) as Hf. cbn in Hf. fold s in Hf.
    unfold thr_fresh in Hf. unfold obs_of_thr in Ha. destruct (t_pc (i_a s)); destruct a as [d bg sc j]; cbn in Ha |- *;
      repeat (apply andb_true_iff in Ha; destruct Ha as [Ha ?]); destruct d; try discriminate; try reflexivity.
    apply N.eqb_eq in H0; apply N.eqb_eq in H1; subst. exact Hf. }
  assert (Hfb : t_joined (i_b s) = false -> tobs_fresh b = true).
  { intros Hj. pose proof (read_fresh_except l0 f0 ls TB El Hj) as Hf. cbn in Hf. fold s in Hf.
    unfold thr_fresh in Hf. unfold obs_of_thr in Hb. destruct (t_pc (i_b s)); destruct b as [d bg sc j]; cbn in Hb |- *;
      repeat (apply andb_true_iff in Hb; destruct Hb as [Hb ?]); destruct d; try discriminate; try reflexivity.
    apply N.eqb_eq in H0; apply N.eqb_eq in H1; subst. exact Hf. }
  assert (Hja : tobs_joined a = t_joined (i_a s)).
  { unfold obs_of_thr in Ha. destruct (t_pc (i_a s)); destruct a as [d bg sc j]; cbn in Ha |- *;
      repeat (apply andb_true_iff in Ha; destruct Ha as [Ha ?]); symmetry; apply Bool.eqb_prop; assumption. }
  assert (Hjb : tobs_joined b = t_joined (i_b s)).
  { unfold obs_of_thr in Hb. destruct (t_pc (i_b s)); destruct b as [d bg sc j]; cbn in Hb |- *;
      repeat (apply andb_true_iff in Hb; destruct Hb as [Hb ?]); symmetry; apply Bool.eqb_prop; assumption. }
  rewrite Hja, Hjb. unfold some_joined.
  destruct (t_joined (i_a s)) eqn:Ja, (t_joined (i_b s)) eqn:Jb; cbn.
  - destruct (tobs_fresh a), (tobs_fresh b); cbn in *; try discriminate; right; split; reflexivity.
  - rewrite (Hfb eq_refl) in *. destruct (tobs_fresh a); cbn in *; try discriminate. right; split; reflexivity.
  - rewrite (Hfa eq_refl) in *. destruct (tobs_fresh b); cbn in *; try discriminate. right; split; reflexivity.
  - rewrite (Hfa eq_refl), (Hfb eq_refl) in Ef. discriminate.
Qed.

(* overlapping reads: a failed fetch (incl. an unparsable answer) leaves the other read alone *)
Lemma overlap_failed_fetch : forall r l, fetch_succeeds l = false -> overlap_model r l = (RespError, [r], r).
Proof. intros r l Hf. destruct l; try discriminate Hf; reflexivity. Qed.

Lemma list_eqb_N_eq l1 l2 : list_eqb N.eqb l1 l2 = true -> l1 = l2.
Proof.
  revert l2. induction l1 as [|x l1 IH]; intros [|y l2]; cbn; try discriminate; [reflexivity|].
  intros H. apply andb_true_iff in H. destruct H as [H1 H2]. apply N.eqb_eq in H1. subst. f_equal. auto.
Qed.

Lemma c18_overlap_sound : forall r l b_resp sets a_scan a_nonempty,
  (0 < r)%N -> (forall v, l = ReachOk v -> (r <= v)%N) ->
  c18_check (OverlapCase r l b_resp sets a_scan a_nonempty) = true ->
  c18_oracle (OverlapCase r l b_resp sets a_scan a_nonempty) = None.
Proof.
  intros r l b_resp sets a_scan a_nonempty Hr Hv H. unfold c18_check in H.
  destruct l as [v| | |]; unfold overlap_model, sync_read in H; unfold c18_oracle;
    repeat (apply andb_true_iff in H; destruct H as [H ?]);
    apply N.eqb_eq in H1; subst a_scan; apply Bool.eqb_prop in H0; subst a_nonempty;
    apply list_eqb_N_eq in H2; subst sets.
  - specialize (Hv v eq_refl).
    assert (E1 : (r <=? v)%N = true) by (apply N.leb_le; lia).
    assert (E2 : (0 <? v)%N = true) by (apply N.ltb_lt; lia). rewrite E1, E2. reflexivity.
  - destruct b_resp; try discriminate. cbn. rewrite N.eqb_refl, N.leb_refl.
    assert (E2 : (0 <? r)%N = true) by (apply N.ltb_lt; lia). rewrite E2. reflexivity.
  - destruct b_resp; try discriminate. cbn. rewrite N.eqb_refl, N.leb_refl.
    assert (E2 : (0 <? r)%N = true) by (apply N.ltb_lt; lia). rewrite E2. reflexivity.
  - destruct b_resp; try discriminate. cbn. rewrite N.eqb_refl, N.leb_refl.
    assert (E2 : (0 <? r)%N = true) by (apply N.ltb_lt; lia). rewrite E2. reflexivity.
Qed.

(* explicit-revision reads: whatever the Revision field says, a follower syncs first (the field is overloaded:
   count-only and the partition list answer at the node's read revision) *)
Lemma explicit_revision_reads_sync : forall m v proxy l,
  roles_effects (ERangeAt m v) Follower proxy l = roles_effects ERangeList Follower proxy l.
Proof. reflexivity. Qed.

Lemma c18_follow_sound : forall m v r1 r2 sets hdr2,
  c18_check (FollowCase m v r1 r2 sets hdr2) = true -> c18_oracle (FollowCase m v r1 r2 sets hdr2) = None.
Proof.
  intros m v r1 r2 sets hdr2 H. unfold c18_check, follow_model in H.
  apply andb_true_iff in H. destruct H as [H1 H2]. apply list_eqb_N_eq in H1. subst sets.
  apply N.eqb_eq in H2. subst hdr2. unfold c18_oracle. cbn [rev app]. rewrite N.eqb_refl, N.leb_refl. reflexivity.
Qed.

(* taking over: the leader flag implies that the lock version is installed; before that the node refuses /status,
   so a follower reading through it fails *)
Lemma leader_flag_implies_revision : forall p old version, tk_flag p = true -> (version <= tk_revision p old version)%N.
Proof. intros [] old version H; try discriminate H. cbn. lia. Qed.

Lemma takeover_peer_read : forall p old version,
  match f_backend (tk_peer_read p old version) with
  | BRead => f_set (tk_peer_read p old version) = Some (tk_revision p old version) /\ (version <= tk_revision p old version)%N
  | _ => f_resp (tk_peer_read p old version) = RespError
  end.
Proof. intros [] old version; cbn; try reflexivity. split; [reflexivity|lia]. Qed.

Lemma c18_takeover_sound : forall old version ms ml fr pc,
  c18_check (TakeoverCase old version ms ml fr pc) = true -> c18_oracle (TakeoverCase old version ms ml fr pc) = None.
Proof.
  intros old version ms ml fr pc H. unfold c18_check in H. cbn in H.
  repeat (apply andb_true_iff in H; destruct H as [H ?]).
  destruct ms; [discriminate|]. destruct ml; [discriminate|]. apply N.eqb_eq in H1. subst fr. subst pc.
  unfold c18_oracle. rewrite N.leb_refl. reflexivity.
Qed.
