(* Lemmas for C16, part 1: the two stores (find/set/sortedness), the simulation relation between the
   backend model and the etcd interpreter, and what a projection compares. *)
From Coq Require Import Sorted.
From KB Require Import Model.Etcd Model.C16Cases Proofs.Coder.
Local Open Scope Z_scope.

(* ------------------------------------------------------------------ bytes order helpers *)

Lemma bltb_lt a b : bltb a b = true <-> bcmp a b = Lt.
Proof. unfold bltb. destruct (bcmp a b); split; congruence. Qed.
Lemma bleb_le a b : bleb a b = true <-> bcmp a b <> Gt.
Proof. unfold bleb. destruct (bcmp a b); split; congruence. Qed.
Lemma bcmp_lt_neq a b : bcmp a b = Lt -> beqb a b = false.
Proof. unfold beqb. intros ->. reflexivity. Qed.
Lemma bcmp_gt_neq a b : bcmp a b = Gt -> beqb a b = false.
Proof. unfold beqb. intros ->. reflexivity. Qed.
Lemma beqb_sym a b : beqb a b = beqb b a.
Proof.
  destruct (beqb a b) eqn:E; symmetry.
  - apply beqb_eq in E; subst. apply beqb_refl.
  - apply beqb_neq. apply beqb_neq in E. congruence.
Qed.

Definition klt (a b : bytes) : Prop := bcmp a b = Lt.

(* ------------------------------------------------------------------ the etcd store *)

Definition esorted (s : estore) : Prop := StronglySorted klt (map k_key s).

Lemma e_find_key k s x : e_find k s = Some x -> k_key x = k.
Proof.
  induction s as [|y s IH]; cbn; [discriminate|].
  destruct (beqb (k_key y) k) eqn:E; [intros [= <-]; apply beqb_eq; exact E|exact IH].
Qed.

Lemma e_find_set n s k : e_find k (e_set n s) = if beqb (k_key n) k then Some n else e_find k s.
Proof.
  induction s as [|y s IH]; cbn.
  - destruct (beqb (k_key n) k); reflexivity.
  - destruct (bcmp (k_key n) (k_key y)) eqn:C; cbn.
    + apply bcmp_eq in C. rewrite <- C. destruct (beqb (k_key n) k); reflexivity.
    + destruct (beqb (k_key n) k); reflexivity.
    + rewrite IH. destruct (beqb (k_key n) k) eqn:E; [|reflexivity].
      apply beqb_eq in E; subst k. rewrite beqb_sym, (bcmp_gt_neq _ _ C). reflexivity.
Qed.

Lemma Forall_klt_set n k s : klt k (k_key n) -> Forall (klt k) (map k_key s) -> Forall (klt k) (map k_key (e_set n s)).
Proof.
  intros Hn. induction s as [|y s IH]; cbn; intros H.
  - constructor; [exact Hn|constructor].
  - inversion H; subst. destruct (bcmp (k_key n) (k_key y)); cbn.
    + constructor; assumption.
    + constructor; [assumption|]. constructor; assumption.
    + constructor; [assumption|]. apply IH; assumption.
Qed.

Lemma esorted_set n s : esorted s -> esorted (e_set n s).
Proof.
  unfold esorted. induction s as [|y s IH]; cbn; intros H.
  - constructor; constructor.
  - inversion H; subst. destruct (bcmp (k_key n) (k_key y)) eqn:C; cbn.
    + apply bcmp_eq in C. rewrite C. constructor; assumption.
    + constructor; [exact H|]. constructor; [exact C|].
      eapply Forall_impl; [|exact H3]. intros a Ha. unfold klt in *. eapply bcmp_lt_trans; eassumption.
    + constructor; [apply IH; assumption|]. apply Forall_klt_set; [apply bcmp_gt_lt; exact C|assumption].
Qed.

Lemma e_find_filter (p : bytes -> bool) k s :
  e_find k (filter (fun x => p (k_key x)) s) = if p k then e_find k s else None.
Proof.
  induction s as [|y s IH]; cbn; [destruct (p k); reflexivity|].
  destruct (p (k_key y)) eqn:P; cbn.
  - destruct (beqb (k_key y) k) eqn:E.
    + apply beqb_eq in E; subst. rewrite P. reflexivity.
    + exact IH.
  - rewrite IH. destruct (beqb (k_key y) k) eqn:E; [|reflexivity].
    apply beqb_eq in E; subst. rewrite P. reflexivity.
Qed.

Lemma esorted_filter (p : kv -> bool) s : esorted s -> esorted (filter p s).
Proof.
  unfold esorted. induction s as [|y s IH]; cbn; intros H; [constructor|].
  inversion H; subst. destruct (p y); cbn; [|auto].
  constructor; [auto|]. clear -H3. induction s as [|z s IH]; cbn; [constructor|].
  inversion H3; subst. destruct (p z); cbn; auto.
Qed.

Lemma e_find_none_of_lt k s : Forall (klt k) (map k_key s) -> e_find k s = None.
Proof.
  induction s as [|y s IH]; cbn; intros H; [reflexivity|]. inversion H; subst.
  rewrite beqb_sym, (bcmp_lt_neq _ _ H2). auto.
Qed.

(* on a store with unique keys the single-key interval is the lookup *)
Lemma e_range_single s k : esorted s -> e_range s k [] = match e_find k s with Some x => [x] | None => [] end.
Proof.
  unfold e_range, esorted. change (fun x : kv => in_range k [] (k_key x)) with (fun x : kv => beqb (k_key x) k).
  induction s as [|y s IH]; cbn [filter e_find map]; intros H; [reflexivity|]. inversion H; subst.
  destruct (beqb (k_key y) k) eqn:E.
  - f_equal. apply beqb_eq in E; subst k.
    assert (Hn : e_find (k_key y) s = None) by (apply e_find_none_of_lt; assumption).
    rewrite IH, Hn by assumption. reflexivity.
  - apply IH. assumption.
Qed.

(* ------------------------------------------------------------------ the backend store *)

Definition bsorted (s : bstore) : Prop := StronglySorted klt (map fst s).

Lemma b_find_set k n s k' : b_find k' (b_set k n s) = if beqb k k' then n else b_find k' s.
Proof.
  induction s as [|[ky y] s IH]; cbn.
  - destruct (beqb k k'); reflexivity.
  - destruct (bcmp k ky) eqn:C; cbn.
    + apply bcmp_eq in C. subst ky. destruct (beqb k k'); reflexivity.
    + destruct (beqb k k'); reflexivity.
    + rewrite IH. destruct (beqb k k') eqn:E; [|reflexivity].
      apply beqb_eq in E; subst k'. rewrite beqb_sym, (bcmp_gt_neq _ _ C). reflexivity.
Qed.

Lemma Forall_klt_bset k0 k n s : klt k0 k -> Forall (klt k0) (map fst s) -> Forall (klt k0) (map fst (b_set k n s)).
Proof.
  intros Hn. induction s as [|[ky y] s IH]; cbn; intros H.
  - constructor; [exact Hn|constructor].
  - inversion H; subst. destruct (bcmp k ky); cbn.
    + constructor; assumption.
    + constructor; [assumption|]. constructor; assumption.
    + constructor; [assumption|]. apply IH; assumption.
Qed.

Lemma bsorted_set k n s : bsorted s -> bsorted (b_set k n s).
Proof.
  unfold bsorted. induction s as [|[ky y] s IH]; cbn; intros H.
  - constructor; constructor.
  - inversion H; subst. destruct (bcmp k ky) eqn:C; cbn.
    + apply bcmp_eq in C. subst. constructor; assumption.
    + constructor; [exact H|]. constructor; [exact C|].
      eapply Forall_impl; [|exact H3]. intros a Ha. unfold klt in *. eapply bcmp_lt_trans; eassumption.
    + constructor; [apply IH; assumption|]. apply Forall_klt_bset; [apply bcmp_gt_lt; exact C|assumption].
Qed.

(* ------------------------------------------------------------------ projected stores as sorted lists *)

Definition pkey (x : pkv) : bytes := fst (fst x).
Definition psorted (l : list pkv) : Prop := StronglySorted klt (map pkey l).

Fixpoint p_find (k : bytes) (l : list pkv) : option pkv :=
  match l with
  | [] => None
  | x :: l' => if beqb (pkey x) k then Some x else p_find k l'
  end.

Lemma p_find_none_of_lt k l : Forall (klt k) (map pkey l) -> p_find k l = None.
Proof.
  induction l as [|y l IH]; cbn; intros H; [reflexivity|]. inversion H; subst.
  rewrite beqb_sym, (bcmp_lt_neq _ _ H2). auto.
Qed.

(* two sorted projected stores with the same lookups are the same list *)
Lemma psorted_ext l1 l2 : psorted l1 -> psorted l2 -> (forall k, p_find k l1 = p_find k l2) -> l1 = l2.
Proof.
  unfold psorted. revert l2. induction l1 as [|x l1 IH]; intros [|y l2] H1 H2 E.
  - reflexivity.
  - specialize (E (pkey y)). cbn in E. rewrite beqb_refl in E. discriminate.
  - specialize (E (pkey x)). cbn in E. rewrite beqb_refl in E. discriminate.
  - cbn in H1, H2. inversion H1; subst. inversion H2; subst.
    assert (Hxy : x = y).
    { pose proof (E (pkey x)) as Ex. pose proof (E (pkey y)) as Ey. cbn in Ex, Ey.
      rewrite beqb_refl in Ex. rewrite beqb_refl in Ey.
      destruct (beqb (pkey y) (pkey x)) eqn:Eyx; [congruence|].
      rewrite beqb_sym, Eyx in Ey.
      (* x is found in l2's tail, y in l1's tail: both keys smaller than themselves *)
      assert (Hx : In (pkey x) (map pkey l2)).
      { clear -Ex. induction l2 as [|z l2 IH]; cbn in *; [discriminate|].
        destruct (beqb (pkey z) (pkey x)) eqn:Ez; [left; apply beqb_eq; exact Ez|right; auto]. }
      assert (Hy : In (pkey y) (map pkey l1)).
      { clear -Ey. induction l1 as [|z l1 IH]; cbn in *; [discriminate|].
        destruct (beqb (pkey z) (pkey y)) eqn:Ez; [left; apply beqb_eq; exact Ez|right; auto]. }
      rewrite Forall_forall in H4, H6. specialize (H4 _ Hy). specialize (H6 _ Hx). unfold klt in *.
      pose proof (bcmp_lt_trans _ _ _ H4 H6) as F. rewrite bcmp_refl in F. discriminate. }
    subst y. f_equal. apply IH; try assumption.
    intros k. specialize (E k). cbn in E. destruct (beqb (pkey x) k) eqn:Ek; [|exact E].
    apply beqb_eq in Ek; subst k. rewrite !p_find_none_of_lt by assumption. reflexivity.
Qed.

Lemma p_find_filter (p : bytes -> bool) k l :
  p_find k (filter (fun x => p (pkey x)) l) = if p k then p_find k l else None.
Proof.
  induction l as [|y l IH]; cbn; [destruct (p k); reflexivity|].
  destruct (p (pkey y)) eqn:P; cbn.
  - destruct (beqb (pkey y) k) eqn:E.
    + apply beqb_eq in E; subst. rewrite P. reflexivity.
    + exact IH.
  - rewrite IH. destruct (beqb (pkey y) k) eqn:E; [|reflexivity].
    apply beqb_eq in E; subst. rewrite P. reflexivity.
Qed.

(* the etcd store, projected *)
Lemma p_find_map_pk k s : p_find k (map pk s) = option_map pk (e_find k s).
Proof. induction s as [|y s IH]; cbn; [reflexivity|]. change (pkey (pk y)) with (k_key y). destruct (beqb (k_key y) k); auto. Qed.

Lemma psorted_map_pk s : esorted s -> psorted (map pk s).
Proof. unfold esorted, psorted. rewrite map_map. cbn. auto. Qed.

(* the backend store at a read revision, projected: what the scanner emits *)
Definition b_entry (rev : N) (e : bytes * bkey) : list pkv :=
  match vers_at (bk_vers (snd e)) rev with
  | Some (r, v) => if beqb v tombstone then [] else [(fst e, v, Z.of_N r)]
  | None => []
  end.
Definition b_proj (s : bstore) (rev : N) : list pkv := flat_map (b_entry rev) s.

Definition b_live (rev : N) (k : bytes) (x : bkey) : option pkv :=
  match vers_at (bk_vers x) rev with
  | Some (r, v) => if beqb v tombstone then None else Some (k, v, Z.of_N r)
  | None => None
  end.

Lemma b_proj_keys_lt k s rev : Forall (klt k) (map fst s) -> Forall (klt k) (map pkey (b_proj s rev)).
Proof.
  induction s as [|[ky y] s IH]; cbn; intros H; [constructor|]. inversion H; subst.
  unfold b_entry at 1; cbn. destruct (vers_at (bk_vers y) rev) as [[r v]|]; [destruct (beqb v tombstone)|]; cbn; auto.
Qed.

Lemma psorted_b_proj s rev : bsorted s -> psorted (b_proj s rev).
Proof.
  unfold bsorted, psorted. induction s as [|[ky y] s IH]; cbn; intros H; [constructor|]. inversion H; subst.
  unfold b_entry at 1; cbn. destruct (vers_at (bk_vers y) rev) as [[r v]|]; [destruct (beqb v tombstone)|]; cbn; auto.
  constructor; [auto|]. apply b_proj_keys_lt. assumption.
Qed.

Lemma p_find_b_proj k s rev : bsorted s -> p_find k (b_proj s rev) = b_live rev k (b_find k s).
Proof.
  unfold bsorted. induction s as [|[ky y] s IH]; cbn [b_proj flat_map b_find map fst]; intros H; [reflexivity|]. inversion H; subst.
  fold (b_proj s rev).
  destruct (beqb ky k) eqn:E.
  - apply beqb_eq in E; subst ky. unfold b_entry, b_live; cbn [fst snd].
    assert (Hn : p_find k (b_proj s rev) = None) by (apply p_find_none_of_lt; apply b_proj_keys_lt; assumption).
    destruct (vers_at (bk_vers y) rev) as [[r v]|]; [destruct (beqb v tombstone)|]; cbn [app p_find]; try exact Hn.
    change (pkey (k, v, Z.of_N r)) with k. rewrite beqb_refl. reflexivity.
  - unfold b_entry; cbn [fst snd].
    destruct (vers_at (bk_vers y) rev) as [[r v]|]; [destruct (beqb v tombstone)|]; cbn [app p_find]; auto.
    change (pkey (ky, v, Z.of_N r)) with ky. rewrite E. auto.
Qed.

(* ------------------------------------------------------------------ takeZ / lenZ *)

Lemma takeZ_all {A} (l : list A) n : lenZ l <= n -> takeZ l n = l.
Proof.
  unfold lenZ. revert n. induction l as [|x l IH]; intros n H; cbn [takeZ]; [reflexivity|].
  cbn [length] in H. rewrite Nat2Z.inj_succ in H.
  destruct (0 <? n) eqn:E; [|apply Z.ltb_ge in E; lia]. f_equal. apply IH. lia.
Qed.

Lemma takeZ_nonpos {A} (l : list A) n : n <= 0 -> takeZ l n = [].
Proof. destruct l; cbn; [reflexivity|]. intros H. destruct (0 <? n) eqn:E; [apply Z.ltb_lt in E; lia|reflexivity]. Qed.

Lemma lenZ_takeZ {A} (l : list A) n : 0 <= n -> lenZ (takeZ l n) = Z.min n (lenZ l).
Proof.
  unfold lenZ. revert n. induction l as [|x l IH]; intros n H; cbn [takeZ length].
  - cbn. lia.
  - destruct (0 <? n) eqn:E.
    + apply Z.ltb_lt in E. cbn [length]. rewrite !Nat2Z.inj_succ, IH by lia. lia.
    + apply Z.ltb_ge in E. cbn. lia.
Qed.

Lemma takeZ_takeZ {A} (l : list A) n m : n <= m -> takeZ (takeZ l m) n = takeZ l n.
Proof.
  revert n m. induction l as [|x l IH]; intros n m H; cbn [takeZ]; [reflexivity|].
  destruct (0 <? m) eqn:Em; destruct (0 <? n) eqn:En; cbn [takeZ]; rewrite ?En; try reflexivity.
  - f_equal. apply IH. lia.
  - apply Z.ltb_ge in Em. apply Z.ltb_lt in En. lia.
Qed.

Lemma takeZ_map {A B} (f : A -> B) (l : list A) n : takeZ (map f l) n = map f (takeZ l n).
Proof. revert n. induction l as [|x l IH]; intros n; cbn; [reflexivity|]. destruct (0 <? n); cbn; [f_equal; apply IH|reflexivity]. Qed.

Lemma lenZ_map {A B} (f : A -> B) (l : list A) : lenZ (map f l) = lenZ l.
Proof. unfold lenZ. rewrite map_length. reflexivity. Qed.

Lemma lenZ_nonneg {A} (l : list A) : 0 <= lenZ l.
Proof. unfold lenZ. lia. Qed.

(* ------------------------------------------------------------------ int64 / uint64 casts *)

Definition two63 : Z := 9223372036854775808.

Lemma i64_of_N_small n : (Z.of_N n < two63) -> i64_of_N n = Z.of_N n.
Proof.
  intros H. unfold i64_of_N, two64. rewrite N.mod_small by (unfold two63 in H; lia).
  unfold two63 in H. destruct (Z.of_N n <? 9223372036854775808) eqn:E; [reflexivity|apply Z.ltb_ge in E; lia].
Qed.

Lemma u64_of_Z_small z : 0 <= z < 18446744073709551616 -> u64_of_Z z = Z.to_N z.
Proof. intros H. unfold u64_of_Z. rewrite Z.mod_small by lia. reflexivity. Qed.

Lemma u64_of_Z_neg z : - two63 <= z < 0 -> Z.of_N (u64_of_Z z) = z + 18446744073709551616.
Proof.
  unfold two63. intros H. unfold u64_of_Z.
  replace (z mod 18446744073709551616) with (z + 18446744073709551616).
  - rewrite Z2N.id by lia. reflexivity.
  - symmetry. rewrite <- (Z.mod_add z 1) by lia. rewrite Z.mod_small by lia. lia.
Qed.

Lemma wrap64_small z : - two63 <= z < two63 -> wrap64 z = z.
Proof.
  unfold two63. intros H. unfold wrap64. destruct (Z.ltb_spec z 0).
  - unfold i64_of_N. rewrite N.mod_small.
    + rewrite u64_of_Z_neg by (unfold two63; lia).
      destruct (z + 18446744073709551616 <? 9223372036854775808) eqn:E; [apply Z.ltb_lt in E; lia|lia].
    + assert (Z.of_N (u64_of_Z z) = z + 18446744073709551616) by (apply u64_of_Z_neg; unfold two63; lia).
      unfold two64. lia.
  - rewrite u64_of_Z_small by lia. rewrite i64_of_N_small; [apply Z2N.id; lia|unfold two63; rewrite Z2N.id; lia].
Qed.
