(* C07, part 1: what a read sees (In-based, order independent), the safe-removal lemma, and the
   invariant relating the store under compaction to the store the pass never touched. *)
From KB Require Import Base.Cases Model.Coder Model.CompactSys Proofs.Coder.
Local Open Scope N_scope.

(* ---------- reads, as a relation on the set of version records ---------- *)

Definition uniq_ver (V : store) : Prop :=
  forall k r v v', In (RVer k r v) V -> In (RVer k r v') V -> v = v'.

Definition is_latest (V : store) (k : bytes) (R r : N) (v : bytes) : Prop :=
  In (RVer k r v) V /\ r <= R /\ forall r' v', In (RVer k r' v') V -> r' <= R -> r' <= r.

(* what Get / List / Count return for key k at revision R *)
Definition visible (V : store) (R : N) (k : bytes) (r : N) (v : bytes) : Prop :=
  is_latest V k R r v /\ v <> tombstone.

(* two stores read the same at every revision >= R *)
Definition veq (R : N) (A B : store) : Prop :=
  forall R', R <= R' -> forall k r v, visible A R' k r v <-> visible B R' k r v.

Lemma veq_refl R A : veq R A A.
Proof. intros R' _ k r v. reflexivity. Qed.

Lemma veq_trans R A B C : veq R A B -> veq R B C -> veq R A C.
Proof. intros H1 H2 R' H k r v. rewrite (H1 R' H k r v). apply H2; exact H. Qed.

Lemma veq_sym R A B : veq R A B -> veq R B A.
Proof. intros H1 R' H k r v. symmetry. apply H1; exact H. Qed.

(* ---------- slots ---------- *)

Lemma is_tomb_spec v : is_tomb v = true <-> v = tombstone.
Proof. unfold is_tomb. apply beqb_eq. Qed.

Lemma same_slot_ver k r v y :
  same_slot (RVer k r v) y = true <-> exists v', y = RVer k r v'.
Proof.
  unfold same_slot. destruct y as [k' r' d'|k' r' v']; cbn [rkey rrev is_ver Bool.eqb].
  - rewrite andb_false_r. split; [discriminate|intros [v' H]; discriminate].
  - rewrite andb_true_r, andb_true_iff, beqb_eq, N.eqb_eq. split.
    + intros [-> ->]. eauto.
    + intros [v'' H]. injection H as -> -> _. auto.
Qed.

Lemma same_slot_idx k r d y :
  same_slot (RIdx k r d) y = true <-> exists r' d', y = RIdx k r' d'.
Proof.
  unfold same_slot. destruct y as [k' r' d'|k' r' v']; cbn [rkey rrev is_ver Bool.eqb].
  - rewrite andb_true_r, andb_true_iff, beqb_eq, N.eqb_eq. split.
    + intros [-> _]. eauto.
    + intros [r'' [d'' H]]. injection H as -> _ _. auto.
  - rewrite andb_false_r. split; [discriminate|intros [? [? H]]; discriminate].
Qed.

Lemma in_del_slot x y V : In y (del_slot x V) <-> In y V /\ same_slot x y = false.
Proof. unfold del_slot. rewrite filter_In, negb_true_iff. reflexivity. Qed.

Lemma in_del_slot_ver k r v k' r' v' V :
  In (RVer k' r' v') (del_slot (RVer k r v) V) <-> In (RVer k' r' v') V /\ (k' <> k \/ r' <> r).
Proof.
  rewrite in_del_slot. split; intros [H1 H2]; split; try exact H1.
  - destruct (same_slot (RVer k r v) (RVer k' r' v')) eqn:E; [discriminate|].
    destruct (list_eq_dec N.eq_dec k' k) as [->|Hk]; [|left; exact Hk].
    destruct (N.eq_dec r' r) as [->|Hr]; [|right; exact Hr].
    exfalso. assert (same_slot (RVer k r v) (RVer k r v') = true) by (apply same_slot_ver; eauto). congruence.
  - destruct (same_slot (RVer k r v) (RVer k' r' v')) eqn:E; [|reflexivity].
    apply same_slot_ver in E as [v'' E]. injection E as -> -> _. destruct H2; congruence.
Qed.

Lemma in_del_slot_idx_ver k r d k' r' v' V :
  In (RVer k' r' v') (del_slot (RIdx k r d) V) <-> In (RVer k' r' v') V.
Proof.
  rewrite in_del_slot. split; [intros [H _]; exact H|intros H; split; [exact H|]].
  destruct (same_slot (RIdx k r d) (RVer k' r' v')) eqn:E; [|reflexivity].
  apply same_slot_idx in E as [? [? E]]. discriminate.
Qed.

(* ---------- C07_safe_remove ---------- *)

(* the premise under which the pass may remove x at compaction revision R from the current store V *)
Definition premise (R : N) (V : store) (x : rec) : Prop :=
  match x with
  | RIdx _ _ _ => True
  | RVer k r v =>
      (forall v', ~ In (RVer k r v') V)                                                    (* nothing there *)
      \/ (exists r2 v2, In (RVer k r2 v2) V /\ r < r2 /\ r2 <= R)                          (* a newer version <= R *)
      \/ (v = tombstone /\ r <= R /\ In (RVer k r v) V /\
          forall r' v', In (RVer k r' v') V -> r <= r')                                    (* tombstone, nothing older left *)
  end.

Lemma uniq_del_slot x V : uniq_ver V -> uniq_ver (del_slot x V).
Proof. intros U k r v v' H1 H2. apply in_del_slot in H1 as [H1 _]. apply in_del_slot in H2 as [H2 _]. eauto. Qed.

Lemma visible_ext A B :
  (forall k r v, In (RVer k r v) A <-> In (RVer k r v) B) ->
  forall R k r v, visible A R k r v <-> visible B R k r v.
Proof.
  intros E R k r v. unfold visible, is_latest.
  split; intros [[H1 [H2 H3]] H4]; (split; [split; [apply E; exact H1|split; [exact H2|]]|exact H4]);
    intros r' v' Hin; apply (H3 r' v'); apply E; exact Hin.
Qed.

Theorem safe_remove R V x : uniq_ver V -> premise R V x -> veq R (del_slot x V) V.
Proof.
  intros U P R' HR k0 r0 v0. destruct x as [k r d|k r v]; cbn [premise] in P.
  - (* an index record: reads never look at it *)
    apply visible_ext. intros k' r' v'. apply in_del_slot_idx_ver.
  - destruct P as [P|[P|P]].
    + (* slot empty: nothing changes *)
      assert (E : forall k' r' v', In (RVer k' r' v') (del_slot (RVer k r v) V) <-> In (RVer k' r' v') V).
      { intros k' r' v'. rewrite in_del_slot_ver. split; [intros [H _]; exact H|intros H; split; [exact H|]].
        destruct (list_eq_dec N.eq_dec k' k) as [->|Hk]; [|left; exact Hk].
        destruct (N.eq_dec r' r) as [->|Hr]; [|right; exact Hr]. exfalso. eapply P; eauto. }
      apply visible_ext. exact E.
    + destruct P as (r2 & v2 & Hin2 & Hlt & Hle).
      unfold visible, is_latest. split; intros [[H1 [H2 H3]] H4]; (split; [|exact H4]).
      * apply in_del_slot_ver in H1 as [H1 Hne]. split; [exact H1|split; [exact H2|]].
        intros r' v' Hin' Hle'.
        destruct (list_eq_dec N.eq_dec k0 k) as [->|Hk].
        -- destruct (N.eq_dec r' r) as [->|Hr].
           ++ (* the removed version itself: below the newer one, which is still there *)
              assert (Hr2 : r2 <= r0).
              { apply (H3 r2 v2); [apply in_del_slot_ver; split; [exact Hin2|right; lia]|lia]. }
              lia.
           ++ apply (H3 r' v'); [apply in_del_slot_ver; split; [exact Hin'|right; exact Hr]|exact Hle'].
        -- apply (H3 r' v'); [apply in_del_slot_ver; split; [exact Hin'|left; exact Hk]|exact Hle'].
      * split; [|split; [exact H2|]].
        -- apply in_del_slot_ver. split; [exact H1|].
           destruct (list_eq_dec N.eq_dec k0 k) as [->|Hk]; [|left; exact Hk]. right.
           intros ->. assert (r2 <= r) by (apply (H3 r2 v2); [exact Hin2|lia]). lia.
        -- intros r' v' Hin' Hle'. apply in_del_slot_ver in Hin' as [Hin' _]. eauto.
    + destruct P as (-> & Hle & Hin & Hold).
      unfold visible, is_latest. split; intros [[H1 [H2 H3]] H4]; (split; [|exact H4]).
      * apply in_del_slot_ver in H1 as [H1 Hne]. split; [exact H1|split; [exact H2|]].
        intros r' v' Hin' Hle'.
        destruct (list_eq_dec N.eq_dec k0 k) as [->|Hk].
        -- destruct (N.eq_dec r' r) as [->|Hr].
           ++ apply (Hold r0 v0). exact H1.
           ++ apply (H3 r' v'); [apply in_del_slot_ver; split; [exact Hin'|right; exact Hr]|exact Hle'].
        -- apply (H3 r' v'); [apply in_del_slot_ver; split; [exact Hin'|left; exact Hk]|exact Hle'].
      * split; [|split; [exact H2|]].
        -- apply in_del_slot_ver. split; [exact H1|].
           destruct (list_eq_dec N.eq_dec k0 k) as [->|Hk]; [|left; exact Hk]. right.
           intros ->. apply H4. eapply U; eauto.
        -- intros r' v' Hin' Hle'. apply in_del_slot_ver in Hin' as [Hin' _]. eauto.
Qed.

(* the hypothesis "tombstone" is needed: removing a live newest version changes reads *)
(* (stated as an Example in Props/C07.v) *)

(* ---------- the pass invariant on (ghost store W, store V) ---------- *)

Record cinv (R : N) (W V : store) : Prop := {
  ci_sub : forall k r v, In (RVer k r v) V -> In (RVer k r v) W;
  ci_high : forall k r v, In (RVer k r v) W -> R < r -> In (RVer k r v) V;
  ci_top : forall k r v, is_latest W k R r v ->
           In (RVer k r v) V \/ (v = tombstone /\ forall r' v', In (RVer k r' v') V -> R < r')
}.

Lemma cinv_refl R V : cinv R V V.
Proof. split; auto. intros k r v [H _]. left; exact H. Qed.

Lemma classic_ex (W : store) k R :
  (exists r v, In (RVer k r v) W /\ r <= R) \/ ~ (exists r v, In (RVer k r v) W /\ r <= R).
Proof.
  induction W as [|x W IH]; [right; intros (r & v & H & _); destruct H|].
  destruct IH as [(r & v & H1 & H2)|IH]; [left; exists r, v; split; [right; exact H1|exact H2]|].
  destruct x as [k0 r0 d0|k0 r0 v0].
  - right. intros (r & v & [E|H1] & H2); [discriminate|apply IH; eauto].
  - destruct (list_eq_dec N.eq_dec k0 k) as [->|Hk].
    + destruct (N.le_gt_cases r0 R) as [Hr0|Hr0].
      * left. exists r0, v0. split; [left; reflexivity|exact Hr0].
      * right. intros (r & v & [E|H1] & H2); [injection E as <- _; lia|apply IH; eauto].
    + right. intros (r & v & [E|H1] & H2); [injection E as E _ _; congruence|apply IH; eauto].
Qed.

(* finite sets of revisions have a maximum: the latest version <= R of a key that has one *)
Lemma latest_exists (W : store) k R :
  (exists r v, In (RVer k r v) W /\ r <= R) -> exists r v, is_latest W k R r v.
Proof.
  induction W as [|x W IH]; intros (r & v & Hin & Hle); [destruct Hin|].
  destruct (classic_ex W k R) as [Hsome|Hnone].
  2:{ (* no candidate in the tail: the head is it *)
    destruct Hin as [->|Hin]; [|exfalso; apply Hnone; eauto].
    exists r, v. split; [left; reflexivity|split; [exact Hle|]].
    intros r' v' [E|Hin'] Hle'; [injection E as <- _; lia|exfalso; apply Hnone; eauto]. }
  destruct (IH Hsome) as (rm & vm & Hm1 & Hm2 & Hm3).
  destruct x as [k0 r0 d0|k0 r0 v0].
  - exists rm, vm. split; [right; exact Hm1|split; [exact Hm2|]].
    intros r' v' [E|Hin'] Hle'; [discriminate|eauto].
  - destruct (list_eq_dec N.eq_dec k0 k) as [->|Hk].
    + destruct (N.le_gt_cases r0 R) as [Hr0|Hr0].
      * destruct (N.le_gt_cases r0 rm) as [Hc|Hc].
        -- exists rm, vm. split; [right; exact Hm1|split; [exact Hm2|]].
           intros r' v' [E|Hin'] Hle'; [injection E as <- _; exact Hc|eauto].
        -- exists r0, v0. split; [left; reflexivity|split; [exact Hr0|]].
           intros r' v' [E|Hin'] Hle'; [injection E as <- _; lia|]. specialize (Hm3 r' v' Hin' Hle'). lia.
      * exists rm, vm. split; [right; exact Hm1|split; [exact Hm2|]].
        intros r' v' [E|Hin'] Hle'; [injection E as <- _; lia|eauto].
    + exists rm, vm. split; [right; exact Hm1|split; [exact Hm2|]].
      intros r' v' [E|Hin'] Hle'; [injection E as E _ _; congruence|eauto].
Qed.
