(* C01_failure_justified: a request answered "condition failed" saw, between its LInvoke and its LReturn,
   a state in which its key differed from its expectation — or it is an unguarded delete and another
   commit landed on its key while it was in flight — or (finding C01-F1) it is a create and the
   asynchronous repair re-stamped the key's tombstone while it was in flight. *)
From KB Require Import Model.KeySys Model.C01Cases.
From KB Require Import Proofs.RevSys Proofs.KeySys Proofs.KeySysLog Proofs.KeySysChain.
From Coq Require Import ZifyN ZifyNat ZifyBool Lia.
Local Open Scope N_scope.

(* ---------- what happened on a key since thread t's request came in (log newest first) ---------- *)

Fixpoint applied_since (t : tid) (k : key) (l : list entry) : bool :=
  match l with
  | [] => false
  | EApplied _ _ k' _ _ _ _ _ :: l' => (k' =? k) || applied_since t k l'
  | EInvoke t' _ :: l' => if t' =? t then false else applied_since t k l'
  | EReturn t' _ :: l' => if t' =? t then false else applied_since t k l'
  | _ :: l' => applied_since t k l'
  end.

Definition is_stamp (a : akind) (flag : bool) : bool :=
  match a with ARewrite => flag | _ => false end.

(* … among them a re-stamping of the key's tombstone by the asynchronous repair *)
Fixpoint stamp_since (t : tid) (k : key) (l : list entry) : bool :=
  match l with
  | [] => false
  | EApplied _ _ k' a _ flag _ _ :: l' => ((k' =? k) && is_stamp a flag) || stamp_since t k l'
  | EInvoke t' _ :: l' => if t' =? t then false else stamp_since t k l'
  | EReturn t' _ :: l' => if t' =? t then false else stamp_since t k l'
  | _ :: l' => stamp_since t k l'
  end.

Definition create_like (q : req) : bool :=
  match q with RqCreate _ _ => true | RqUpdate _ _ prev => prev =? 0 | _ => false end.

Definition unguarded_delete (q : req) : bool :=
  match q with RqDelete _ exp => exp =? 0 | _ => false end.

Definition justified_req (s : state) (t : tid) (q : req) : Prop :=
  seen s t = true
  \/ (unguarded_delete q = true /\ applied_since t (req_key q) (log s) = true)
  \/ (create_like q = true /\ stamp_since t (req_key q) (log s) = true).

(* the program counters on the way to a "condition failed" answer *)
Definition fail_pc (p : pc) : bool :=
  match p with
  | PNotify WRewrite _ _ _ _ => false
  | PNotify _ _ _ RCas _ => true
  | PNotify WDelete _ _ RNotFound _ => true
  | PDeleteMustDeal _ _ RNotFound | PDeleteMustDeal _ _ RCas => true
  | PFailGet _ _ _ _ => true
  | PReturn r => resp_cond_failed r
  | _ => false
  end.

Definition req_val_ok (q : req) : Prop :=
  match q with RqCreate _ v | RqUpdate _ v _ => v <> tombstone | _ => True end.

Definition quiet_label (l : label) : Prop :=
  match l with
  | LEngine _ EnvConflictAbort => False
  | LInvoke _ q => req_val_ok q
  | _ => True
  end.

(* what a thread knows about its key as long as nobody has committed on it since its request came in *)
Definition pc_key_fact (s : state) (t : tid) (q : req) : Prop :=
  let i := k_idx (kv s (req_key q)) in
  match thr s t with
  | PCreatePut _ _ _ rev second => idx_below i rev /\ (second = true -> i = None)
  | PCreateGet _ _ _ rev => idx_below i rev
  | PCreateCas _ _ _ rev old => i = Some (old, true)
  | PDeleteDeal _ _ _ orev | PDeleteCommit _ _ _ _ orev =>
      unguarded_delete q = true -> seen s t = true \/ i = Some (orev, false)
  | _ => True
  end.

Record jinv (s : state) (t : tid) (q : req) : Prop := {
  j_now : seen s t = false -> differs (kv s (req_key q)) q = false;
  j_create : create_like q = true -> applied_since t (req_key q) (log s) = true ->
             seen s t = true \/ stamp_since t (req_key q) (log s) = true;
  j_fact : applied_since t (req_key q) (log s) = false -> pc_key_fact s t q;
  j_fail : fail_pc (thr s t) = true -> justified_req s t q;
  j_guard : match thr s t with
            | PDeleteDeal _ exp _ orev => exp <> 0 -> exp <> orev -> seen s t = true
            | _ => True
            end
}.

Record ginv (s : state) : Prop := {
  g_marker : forall k r v, k_idx (kv s k) = Some (r, false) -> In (r, v) (k_vers (kv s k)) -> v <> tombstone;
  g_vals : forall t q, cur s t = Some q -> req_val_ok q;
  g_j : forall t q, cur s t = Some q -> jinv s t q
}.

(* ---------- frame: which ghost fields a step touches ---------- *)

Definition label_tid (l : label) : option tid :=
  match l with
  | LInvoke t _ | LDeal t | LEngine t _ | LNotify t | LReturn t => Some t
  | LSeqTake => None
  end.

Definition kmid (cidx0 : bool) (s : state) (l : label) : state :=
  match l with
  | LInvoke t q => step_invoke s t q
  | LDeal t => step_deal s t
  | LEngine t e => step_engine cidx0 s t e
  | LNotify t => step_notify s t
  | LReturn t => step_return s t
  | LSeqTake => step_seq s
  end.

Lemma kstep_mid cidx0 s l : rpanic (rs s) = false -> kstep cidx0 s l = observe (kmid cidx0 s l).
Proof. intros H. unfold kstep, kmid. rewrite H. reflexivity. Qed.

Lemma engine_ghost cidx0 s t e :
  cur (step_engine cidx0 s t e) = cur s /\ seen (step_engine cidx0 s t e) = seen s /\
  (forall t', t' <> t -> thr (step_engine cidx0 s t e) t' = thr s t').
Proof.
  assert (H : forall p, cur (set_thr s t p) = cur s /\ seen (set_thr s t p) = seen s /\
                        (forall t', t' <> t -> thr (set_thr s t p) t' = thr s t')).
  { intros p. repeat split. intros t' Hne. simpl. apply upd_other. exact Hne. }
  assert (H2 : forall k a rev i v p,
             cur (set_thr (apply_write s t k a rev i v) t p) = cur s /\
             seen (set_thr (apply_write s t k a rev i v) t p) = seen s /\
             (forall t', t' <> t -> thr (set_thr (apply_write s t k a rev i v) t p) t' = thr s t')).
  { intros. repeat split. intros t' Hne. simpl. apply upd_other. exact Hne. }
  unfold step_engine.
  destruct (thr s t); try (repeat split; reflexivity);
    repeat match goal with
           | |- context [match ?x with _ => _ end] => destruct x
           end;
    first [apply H | apply H2 | repeat split; reflexivity].
Qed.

Lemma deal_ghost s t :
  cur (step_deal s t) = cur s /\ seen (step_deal s t) = seen s /\
  (forall t', t' <> t -> thr (step_deal s t) t' = thr s t') /\ kv (step_deal s t) = kv s.
Proof.
  unfold step_deal.
  destruct (thr s t); try (repeat split; reflexivity); unfold do_deal;
    repeat match goal with |- context [if ?x then _ else _] => destruct x end;
    (repeat split; try reflexivity; intros t' Hne; simpl; apply upd_other; exact Hne).
Qed.

Lemma notify_ghost s t :
  cur (step_notify s t) = cur s /\ seen (step_notify s t) = seen s /\
  (forall t', t' <> t -> thr (step_notify s t) t' = thr s t') /\ kv (step_notify s t) = kv s.
Proof.
  unfold step_notify. destruct (thr s t); try (repeat split; reflexivity).
  destruct (rpanic _); repeat split; try reflexivity. intros t' Hne. simpl. apply upd_other. exact Hne.
Qed.

Lemma seq_ghost s :
  cur (step_seq s) = cur s /\ seen (step_seq s) = seen s /\ thr (step_seq s) = thr s /\
  kv (step_seq s) = kv s /\ log (step_seq s) = log s.
Proof. unfold step_seq. destruct (seq_ready (rs s)); repeat split; reflexivity. Qed.

Definition entry_tid (e : entry) : tid :=
  match e with
  | EInvoke t _ | EDealt t _ | EApplied t _ _ _ _ _ _ _ | ENotified t _ _ | EReturn t _ => t
  end.

Lemma log_entry_tid cidx0 s l :
  log (kmid cidx0 s l) = log s \/
  exists e, log (kmid cidx0 s l) = e :: log s /\ label_tid l = Some (entry_tid e).
Proof.
  destruct l as [t q|t|t e|t|t|]; simpl.
  - unfold step_invoke. destruct (thr s t); try (left; reflexivity). right. eexists. split; reflexivity.
  - unfold step_deal. destruct (thr s t); try (left; reflexivity); unfold do_deal;
      repeat match goal with |- context [if ?x then _ else _] => destruct x end;
      (right; eexists; split; reflexivity).
  - unfold step_engine. destruct (thr s t); try (left; reflexivity);
      repeat match goal with |- context [match ?x with _ => _ end] => destruct x end;
      first [left; reflexivity | right; eexists; split; reflexivity].
  - unfold step_notify. destruct (thr s t); try (left; reflexivity).
    destruct (rpanic _); [left; reflexivity|right; eexists; split; reflexivity].
  - unfold step_return. destruct (thr s t); try (left; reflexivity). right. eexists. split; reflexivity.
  - left. apply seq_ghost.
Qed.

Lemma applied_since_other t k e l :
  entry_tid e <> t -> not_applied e -> applied_since t k (e :: l) = applied_since t k l.
Proof.
  destruct e; simpl; intros Hne Hna; try reflexivity; try contradiction;
    destruct (N.eqb_spec t0 t); try reflexivity; contradiction.
Qed.

Lemma stamp_since_other t k e l :
  entry_tid e <> t -> not_applied e -> stamp_since t k (e :: l) = stamp_since t k l.
Proof.
  destruct e; simpl; intros Hne Hna; try reflexivity; try contradiction;
    destruct (N.eqb_spec t0 t); try reflexivity; contradiction.
Qed.

(* ---------- a step that leaves thread t's program counter alone ---------- *)

Lemma differs_create_like ks q : create_like q = true -> differs ks q = idx_live ks.
Proof. destruct q; simpl; try discriminate; auto. intros ->. reflexivity. Qed.

Lemma jinv_frame s s' t q :
  jinv s t q -> thr s' t = thr s t ->
  seen s' t = seen s t || differs (kv s' (req_key q)) q ->
  (kv s' (req_key q) = kv s (req_key q) /\
   applied_since t (req_key q) (log s') = applied_since t (req_key q) (log s) /\
   stamp_since t (req_key q) (log s') = stamp_since t (req_key q) (log s))
  \/ (exists qa a rev flag v,
        kv s' (req_key q) = k_write (kv s (req_key q)) (rev, flag) rev v /\
        applied_since t (req_key q) (log s') = true /\
        stamp_since t (req_key q) (log s') = is_stamp a flag || stamp_since t (req_key q) (log s) /\
        link_req qa (req_key q) a flag v (k_idx (kv s (req_key q)))) ->
  jinv s' t q.
Proof.
  intros [Jn Jc Jf Jfl Jg] Ht Hs [(Hkv & Ha & Hst)|(qa & a & rev & flag & v & Hkv & Ha & Hst & Hl)].
  - assert (Hseen : seen s' t = seen s t).
    { rewrite Hs, Hkv. destruct (seen s t) eqn:E; [reflexivity|]. simpl. apply Jn. reflexivity. }
    constructor.
    + rewrite Hseen, Hkv. exact Jn.
    + rewrite Ha, Hst, Hseen. exact Jc.
    + rewrite Ha. intros H. specialize (Jf H). unfold pc_key_fact in *. rewrite Ht, Hkv, Hseen. exact Jf.
    + rewrite Ht. intros H. specialize (Jfl H). unfold justified_req in *. rewrite Hseen, Ha, Hst. exact Jfl.
    + rewrite Ht, Hseen. exact Jg.
  - assert (Hmono : seen s t = true -> seen s' t = true) by (intros E; rewrite Hs, E; reflexivity).
    constructor.
    + intros E. rewrite Hs in E. apply orb_false_iff in E. apply E.
    + intros Hc _. rewrite Hst.
      destruct (is_stamp a flag) eqn:Est; [right; reflexivity|]. left.
      destruct flag.
      * (* a deletion needs a live predecessor, which the creator would have seen *)
        apply Hmono. destruct (seen s t) eqn:E; [reflexivity|]. specialize (Jn eq_refl).
        rewrite (differs_create_like _ _ Hc) in Jn. unfold idx_live in Jn.
        destruct qa as [[k' v'|k' v' prev|k' exp|k' prev]|]; simpl in Hl.
        -- destruct Hl as (_ & _ & _ & Hf & _). discriminate.
        -- destruct Hl as (_ & _ & Hf & _). discriminate.
        -- destruct Hl as (_ & _ & _ & _ & p & Hp & _). rewrite Hp in Jn. discriminate.
        -- destruct Hl as (_ & -> & _). simpl in Est. discriminate.
        -- contradiction.
      * rewrite Hs, (differs_create_like _ _ Hc), Hkv. unfold idx_live. simpl. apply orb_true_r.
    + rewrite Ha. discriminate.
    + rewrite Ht. intros H. specialize (Jfl H). unfold justified_req in *.
      destruct Jfl as [E|[[E1 E2]|[E1 E2]]]; [left; auto|right; left; auto|right; right].
      split; [exact E1|]. rewrite Hst, E2. apply orb_true_r.
    + rewrite Ht. destruct (thr s t); auto.
Qed.

Lemma mid_other cidx0 s l t : label_tid l <> Some t ->
  thr (kmid cidx0 s l) t = thr s t /\ cur (kmid cidx0 s l) t = cur s t /\ seen (kmid cidx0 s l) t = seen s t.
Proof.
  intros Hne. destruct l as [ta q0|ta|ta e|ta|ta|]; simpl in *;
    try (assert (Hta : t <> ta) by (intros ->; apply Hne; reflexivity)).
  - unfold step_invoke. destruct (thr s ta); try (repeat split; reflexivity).
    simpl. repeat split; apply upd_other; exact Hta.
  - destruct (deal_ghost s ta) as (A & B & C & _). rewrite A, B. repeat split. apply C. exact Hta.
  - destruct (engine_ghost cidx0 s ta e) as (A & B & C). rewrite A, B. repeat split. apply C. exact Hta.
  - destruct (notify_ghost s ta) as (A & B & C & _). rewrite A, B. repeat split. apply C. exact Hta.
  - unfold step_return. destruct (thr s ta); try (repeat split; reflexivity).
    simpl. repeat split; apply upd_other; exact Hta.
  - destruct (seq_ghost s) as (A & B & C & _). rewrite A, B, C. repeat split.
Qed.

Lemma jinv_other_step cidx0 s l t q :
  kinv s -> reqinv s -> rpanic (rs s) = false -> cur s t = Some q -> jinv s t q ->
  label_tid l <> Some t ->
  cur (kstep cidx0 s l) t = Some q /\ jinv (kstep cidx0 s l) t q.
Proof.
  intros I R Hp Hc J Hne.
  pose proof (kv_move_step cidx0 s l I R) as Hmove.
  rewrite (kstep_mid cidx0 s l Hp) in *.
  destruct (mid_other cidx0 s l t Hne) as (Ht & Hcur & Hseen).
  split; [simpl; rewrite Hcur; exact Hc|].
  apply (jinv_frame s); [exact J|exact Ht| |].
  - simpl. rewrite Hcur, Hc, Hseen. reflexivity.
  - set (k := req_key q).
    destruct Hmove as [A B|e A B C|ta k' a rev flag v A B C D]; simpl in A, B.
    + left. simpl. rewrite A, B. auto.
    + left. simpl. rewrite A, B.
      assert (He : entry_tid e <> t).
      { destruct (log_entry_tid cidx0 s l) as [E|[e' [E E2]]]; rewrite B in E.
        - exfalso. apply (f_equal (@length _)) in E. simpl in E. lia.
        - injection E as ->. intros Heq. apply Hne. rewrite E2, Heq. reflexivity. }
      rewrite applied_since_other, stamp_since_other by assumption. auto.
    + simpl. rewrite A, B. unfold upd. simpl. rewrite (N.eqb_sym k k').
      destruct (N.eqb_spec k' k) as [->|Hk].
      * right. exists (cur s ta), a, rev, flag, v. repeat split; auto.
      * left. simpl. auto.
Qed.

(* ---------- a step of thread t itself ---------- *)

Lemma newest_max l r v : newest l = Some (r, v) -> forall r' v', In (r', v') l -> r' <= r.
Proof.
  revert r v. induction l as [|[r0 v0] l IH]; simpl; [discriminate|].
  intros r v. destruct (newest l) as [[r1 v1]|] eqn:E.
  - destruct (N.ltb_spec r0 r1); intros [= <- <-] r' v' [[= <- <-]|Hin]; try lia.
    + eapply IH; eauto.
    + specialize (IH _ _ eq_refl _ _ Hin). lia.
  - intros [= <- <-] r' v' [[= <- <-]|Hin]; [lia|].
    destruct l as [|[r2 v2] l]; [contradiction|]. simpl in E. destruct (newest l) as [[? ?]|]; [destruct (r2 <? n)|]; discriminate.
Qed.

Lemma newest_none l : newest l = None -> l = [].
Proof.
  destruct l as [|[r v] l]; [reflexivity|]. simpl. destruct (newest l) as [[r' v']|]; [destruct (r <? r')|]; discriminate.
Qed.

Lemma idx_is_refl ks x : k_idx ks = Some x -> idx_is ks x = true.
Proof.
  unfold idx_is, idx_eqb. intros ->. destruct x as [r f]. simpl. rewrite N.eqb_refl. destruct f; reflexivity.
Qed.

(* with a live index record, the point read finds exactly its revision, and (no marker values) a live value *)
Lemma get_live s k r :
  kinv s -> (forall v, In (r, v) (k_vers (kv s k)) -> v <> tombstone) ->
  k_idx (kv s k) = Some (r, false) ->
  exists val, get_latest (kv s k) EnvOk = GOk val r.
Proof.
  intros I Hm Hi. destruct (ki_idx s I k r false Hi) as [[v0 [Hin _]] Hmax].
  unfold get_latest. destruct (newest (k_vers (kv s k))) as [[r' v']|] eqn:En.
  - pose proof (newest_max _ _ _ En _ _ Hin) as H1. pose proof (newest_In _ _ _ En) as Hin'.
    pose proof (Hmax _ _ Hin') as H2. assert (r' = r) by lia. subst r'.
    destruct (beqb v' tombstone) eqn:Eb; [apply beqb_eq in Eb; exfalso; eapply Hm; eauto|].
    exists v'. reflexivity.
  - apply newest_none in En. rewrite En in Hin. contradiction.
Qed.

Lemma jinv_local s s' t q :
  jinv s t q ->
  kv s' (req_key q) = kv s (req_key q) ->
  applied_since t (req_key q) (log s') = applied_since t (req_key q) (log s) ->
  stamp_since t (req_key q) (log s') = stamp_since t (req_key q) (log s) ->
  seen s' t = seen s t || differs (kv s' (req_key q)) q ->
  (applied_since t (req_key q) (log s) = false -> pc_key_fact s' t q) ->
  (fail_pc (thr s' t) = true -> justified_req s t q \/ differs (kv s (req_key q)) q = true) ->
  match thr s' t with
  | PDeleteDeal _ exp _ orev => exp <> 0 -> exp <> orev -> seen s' t = true
  | _ => True
  end ->
  jinv s' t q.
Proof.
  intros [Jn Jc Jf Jfl Jg] Hkv Ha Hst Hs Hfact Hfail Hguard.
  assert (Hseen : seen s' t = seen s t).
  { rewrite Hs, Hkv. destruct (seen s t) eqn:E; [reflexivity|]. simpl. apply Jn. reflexivity. }
  constructor.
  - rewrite Hseen, Hkv. exact Jn.
  - rewrite Ha, Hst, Hseen. exact Jc.
  - rewrite Ha. exact Hfact.
  - intros H. destruct (Hfail H) as [J|D].
    + unfold justified_req in *. rewrite Hseen, Ha, Hst. exact J.
    + left. rewrite Hseen. destruct (seen s t) eqn:E; [reflexivity|]. rewrite (Jn eq_refl) in D. discriminate.
  - exact Hguard.
Qed.

Lemma jinv_self_apply s s' t q a rev flag v w k' rev' old :
  jinv s t q ->
  kv s' (req_key q) = k_write (kv s (req_key q)) (rev, flag) rev v ->
  applied_since t (req_key q) (log s') = true ->
  thr s' t = PNotify w k' rev' ROk old ->
  seen s' t = seen s t || differs (kv s' (req_key q)) q ->
  link_req (Some q) (req_key q) a flag v (k_idx (kv s (req_key q))) ->
  jinv s' t q.
Proof.
  intros [Jn Jc Jf Jfl Jg] Hkv Ha Ht Hs Hl. constructor.
  - intros E. rewrite Hs in E. apply orb_false_iff in E. apply E.
  - intros Hc _. left. rewrite Hs, (differs_create_like _ _ Hc), Hkv. unfold idx_live. simpl.
    assert (flag = false).
    { destruct q; simpl in Hc, Hl; try discriminate.
      - destruct Hl as (_ & _ & _ & Hf & _). exact Hf.
      - destruct Hl as (_ & _ & Hf & _). exact Hf. }
    subst flag. apply orb_true_r.
  - rewrite Ha. discriminate.
  - rewrite Ht. destruct w; discriminate.
  - rewrite Ht. exact I.
Qed.

Lemma seen_observe mid t : seen (observe mid) t =
  seen mid t || match cur mid t with Some q => differs (kv mid (req_key q)) q | None => false end.
Proof. reflexivity. Qed.

Lemma jinv_pc s mid t q :
  jinv s t q -> cur s t = Some q -> cur mid t = cur s t -> seen mid t = seen s t -> kv mid = kv s ->
  applied_since t (req_key q) (log mid) = applied_since t (req_key q) (log s) ->
  stamp_since t (req_key q) (log mid) = stamp_since t (req_key q) (log s) ->
  (applied_since t (req_key q) (log s) = false -> pc_key_fact (observe mid) t q) ->
  (fail_pc (thr mid t) = true -> justified_req s t q \/ differs (kv s (req_key q)) q = true) ->
  match thr mid t with
  | PDeleteDeal _ exp _ orev => exp <> 0 -> exp <> orev -> seen (observe mid) t = true
  | _ => True
  end ->
  jinv (observe mid) t q.
Proof.
  intros J Hc Hcur Hseen Hkv Ha Hst Hfact Hfail Hguard.
  apply (jinv_local s); auto.
  - simpl. rewrite Hkv. reflexivity.
  - rewrite seen_observe, Hcur, Hc, Hseen. reflexivity.
Qed.

Lemma seen_mono s mid t q :
  cur s t = Some q -> cur mid t = cur s t -> seen mid t = seen s t -> seen s t = true -> seen (observe mid) t = true.
Proof. intros Hc Hcur Hseen E. rewrite seen_observe, Hseen, E. reflexivity. Qed.

Lemma jinv_noop s t q : jinv s t q -> cur s t = Some q -> jinv (observe s) t q.
Proof.
  intros J Hc. apply (jinv_pc s s); auto.
  - intros H. pose proof (j_fact _ _ _ J H) as F. unfold pc_key_fact in *. simpl.
    destruct (thr s t); auto. all: intros Hu; destruct (F Hu) as [E|E]; [left|right; exact E];
      rewrite Hc; rewrite E; reflexivity.
  - intros H. left. apply (j_fail _ _ _ J H).
  - pose proof (j_guard _ _ _ J) as G. destruct (thr s t); auto. intros H1 H2. simpl. rewrite (G H1 H2). reflexivity.
Qed.

(* the key named by the program counter is the key of the request *)
Lemma create_req_key w k v q : create_req w k v (Some q) -> req_key q = k /\ create_like q = true.
Proof. intros [[_ [= ->]]|[_ [= ->]]]; simpl; auto. Qed.

Lemma jinv_deal cidx0 s t q :
  kinv s -> reqinv s -> rpanic (rs s) = false -> cur s t = Some q -> jinv s t q ->
  jinv (kstep cidx0 s (LDeal t)) t q.
Proof.
  intros I R Hp Hc J. rewrite (kstep_mid cidx0 s _ Hp). simpl kmid.
  pose proof (R t) as Rt. rewrite Hc in Rt.
  pose proof (ki_local s I t) as L.
  assert (Hd : dealt (rstep (rs s) (RDeal t)) = dealt (rs s) + 1) by (rewrite rstep_deal by exact Hp; reflexivity).
  assert (Hbelow : forall k0, idx_below (k_idx (kv s k0)) (dealt (rs s) + 1)).
  { intros k0. destruct (k_idx (kv s k0)) as [[p f]|] eqn:Ei; simpl; [|exact Logic.I].
    destruct (ki_idx s I k0 p f Ei) as [[v0 [Hin _]] _]. pose proof (ki_le s I _ _ _ Hin). lia. }
  unfold step_deal. destruct (thr s t) eqn:Ht; try (apply jinv_noop; assumption); simpl in Rt, L; unfold do_deal;
    repeat match goal with |- jinv (observe (if ?x then _ else _)) _ _ => destruct x eqn:? end;
    (apply (jinv_pc s); auto;
     [ intros HA; unfold pc_key_fact; simpl; rewrite upd_same
     | simpl; rewrite upd_same; simpl; try discriminate
     | simpl; rewrite upd_same; auto ]).
  - (* PCreateDeal -> PCreatePut *)
    destruct (create_req_key _ _ _ _ Rt) as [-> _]. rewrite Hd. split; [apply Hbelow|discriminate].
  - exact Logic.I.
  - exact Logic.I.
  - (* PDeleteMustDeal e -> PNotify WDelete e *)
    exact Logic.I.
  - intros H. left. apply (j_fail _ _ _ J). rewrite Ht. destruct e; simpl in *; auto; discriminate.
  - exact Logic.I.
  - exact Logic.I.
  - (* PDeleteDeal: expected revision differs from the one read *)
    intros _. left. left. pose proof (j_guard _ _ _ J) as G. rewrite Ht in G.
    apply andb_true_iff in Heqb0. destruct Heqb0 as [H1 H2]. apply N.ltb_lt in H1.
    apply negb_true_iff, N.eqb_neq in H2. apply G; [lia|exact H2].
  - exact Logic.I.
  - (* PDeleteDeal -> PDeleteCommit *)
    intros Hu. pose proof (j_fact _ _ _ J HA) as F. unfold pc_key_fact in F. rewrite Ht in F.
    destruct (F Hu) as [E|E]; [left|right; exact E]. rewrite Hc. rewrite E. reflexivity.
  - exact Logic.I.
Qed.

Lemma fail_after_notify w k rev r old :
  fail_pc (after_notify w k rev r old) = true -> fail_pc (PNotify w k rev r old) = true.
Proof. destruct w, r; simpl; auto. Qed.

Lemma jinv_notify cidx0 s t q :
  rpanic (rs s) = false -> cur s t = Some q -> jinv s t q ->
  jinv (kstep cidx0 s (LNotify t)) t q.
Proof.
  intros Hp Hc J. rewrite (kstep_mid cidx0 s _ Hp). simpl kmid.
  unfold step_notify. destruct (thr s t) eqn:Ht; try (apply jinv_noop; assumption).
  match goal with |- context [if rpanic ?x then _ else _] => destruct (rpanic x) end.
  - apply (jinv_pc s); auto.
    + intros HA. unfold pc_key_fact. simpl. rewrite Ht. exact Logic.I.
    + simpl. rewrite Ht. intros H. left. apply (j_fail _ _ _ J). rewrite Ht. exact H.
    + simpl. rewrite Ht. exact Logic.I.
  - apply (jinv_pc s); auto; try reflexivity.
    + intros HA. unfold pc_key_fact. simpl. rewrite upd_same. destruct w, r; exact Logic.I.
    + simpl. rewrite upd_same. intros H. left. apply (j_fail _ _ _ J). rewrite Ht.
      apply fail_after_notify. exact H.
    + simpl. rewrite upd_same. destruct w, r; exact Logic.I.
Qed.

Lemma fail_other w k rev old : fail_pc (PNotify w k rev ROther old) = false.
Proof. destruct w; reflexivity. Qed.

Lemma fail_ok w k rev old : fail_pc (PNotify w k rev ROk old) = false.
Proof. destruct w; reflexivity. Qed.

(* a create-like request whose commit meets an index record it cannot create over *)
Lemma create_fail_justified s t q k rev (old : N * bool) :
  jinv s t q -> req_key q = k -> create_like q = true -> k_idx (kv s k) = Some old ->
  (applied_since t k (log s) = false -> snd old = true -> fst old < rev) ->
  snd old && (fst old <? rev) = false ->
  justified_req s t q \/ differs (kv s (req_key q)) q = true.
Proof.
  intros J Hk Hc Hi Hbelow Htest. rewrite Hk.
  destruct old as [p f]. simpl in *. destruct f; simpl in Htest.
  - apply N.ltb_ge in Htest.
    destruct (applied_since t k (log s)) eqn:HA.
    + left. rewrite <- Hk in HA. destruct (j_create _ _ _ J Hc HA) as [E|E]; [left; exact E|right; right; rewrite Hk in *; auto].
    + specialize (Hbelow eq_refl eq_refl). lia.
  - right. rewrite <- Hk, (differs_create_like _ _ Hc), Hk. unfold idx_live. rewrite Hi. reflexivity.
Qed.

Ltac fbranch s :=
  apply (jinv_pc s);
  [ assumption | assumption | reflexivity | reflexivity | reflexivity | reflexivity | reflexivity
  | intros HA; unfold pc_key_fact; simpl; rewrite upd_same;
    try match goal with Hk : req_key _ = _ |- _ => rewrite Hk in HA end
  | simpl; rewrite upd_same
  | simpl; rewrite upd_same; auto ].

Section Engine.
Variable cidx0 : bool.
Variables (s : state) (t : tid) (q : req).
Hypothesis I : kinv s.
Hypothesis R : reqinv s.
Hypothesis Hc : cur s t = Some q.
Hypothesis J : jinv s t q.

Lemma self_apply_setup k a rev flag v w k' rev' old :
  req_key q = k ->
  link_req (Some q) k a flag v (k_idx (kv s k)) ->
  jinv (observe (set_thr (apply_write s t k a rev (rev, flag) v) t (PNotify w k' rev' ROk old))) t q.
Proof.
  intros Hk Hl. eapply (jinv_self_apply s) with (a := a) (rev := rev) (flag := flag) (v := v); eauto.
  - simpl. rewrite Hk. unfold upd. rewrite N.eqb_refl. reflexivity.
  - simpl. rewrite Hk, N.eqb_refl. reflexivity.
  - simpl. apply upd_same.
  - rewrite seen_observe. simpl. rewrite Hc. reflexivity.
  - rewrite Hk. exact Hl.
Qed.

Lemma eng_create_put w k v rev second e :
  e <> EnvConflictAbort -> thr s t = PCreatePut w k v rev second ->
  jinv (observe (step_engine cidx0 s t e)) t q.
Proof.
  intros He Ht. pose proof (R t) as Rt. rewrite Ht, Hc in Rt. simpl in Rt.
  destruct (create_req_key _ _ _ _ Rt) as [Hk Hcl].
  unfold step_engine. rewrite Ht. destruct e; [|fbranch s|contradiction].
  - destruct (k_idx (kv s k)) as [old|] eqn:Ei.
    + assert (Hfact : applied_since t k (log s) = false -> idx_below (Some old) rev /\ (second = true -> Some old = None)).
      { intros HA. rewrite <- Hk in HA. pose proof (j_fact _ _ _ J HA) as F. unfold pc_key_fact in F.
        rewrite Ht, Hk, Ei in F. exact F. }
      destruct second; [|destruct cidx0].
      * fbranch s; [exact Logic.I|]. intros _.
        destruct (applied_since t k (log s)) eqn:HA.
        -- left. rewrite <- Hk in HA. destruct (j_create _ _ _ J Hcl HA) as [E|E]; [left; exact E|right; right; auto].
        -- destruct (Hfact eq_refl) as [_ F]. specialize (F eq_refl). discriminate.
      * (* conflict payload decides at once *)
        unfold create_decide. destruct (snd old && (fst old <? rev)) eqn:Et.
        -- fbranch s; [|discriminate]. rewrite Hk, Ei. apply andb_true_iff in Et. destruct Et as [E1 _].
           destruct old as [p f]. simpl in E1. subst f. reflexivity.
        -- fbranch s; [exact Logic.I|]. intros _.
           apply (create_fail_justified s t q k rev old); auto.
           intros HA Hs. destruct (Hfact HA) as [F _]. destruct old as [p f]. simpl in *. exact F.
      * fbranch s; [|discriminate]. rewrite Hk, Ei. apply (Hfact HA).
    + apply self_apply_setup; [exact Hk|]. rewrite Ei.
      destruct Rt as [[-> [= ->]]|[-> [= ->]]]; simpl; auto 10.
  - exact Logic.I.
  - rewrite fail_other. discriminate.
Qed.

Lemma eng_create_get w k v rev e :
  e <> EnvConflictAbort -> thr s t = PCreateGet w k v rev ->
  jinv (observe (step_engine cidx0 s t e)) t q.
Proof.
  intros He Ht. pose proof (R t) as Rt. rewrite Ht, Hc in Rt. simpl in Rt.
  destruct (create_req_key _ _ _ _ Rt) as [Hk Hcl].
  unfold step_engine. rewrite Ht. destruct e; [|fbranch s|contradiction].
  - destruct (k_idx (kv s k)) as [old|] eqn:Ei.
    + assert (Hfact : applied_since t k (log s) = false -> idx_below (Some old) rev).
      { intros HA. rewrite <- Hk in HA. pose proof (j_fact _ _ _ J HA) as F. unfold pc_key_fact in F.
        rewrite Ht, Hk, Ei in F. exact F. }
      unfold create_decide. destruct (snd old && (fst old <? rev)) eqn:Et.
      * fbranch s; [|discriminate]. rewrite Hk, Ei. apply andb_true_iff in Et. destruct Et as [E1 _].
        destruct old as [p f]. simpl in E1. subst f. reflexivity.
      * fbranch s; [exact Logic.I|]. intros _.
        apply (create_fail_justified s t q k rev old); auto.
        intros HA Hs. specialize (Hfact HA). destruct old as [p f]. simpl in *. exact Hfact.
    + fbranch s; [|discriminate]. rewrite Hk, Ei. simpl. auto.
  - exact Logic.I.
  - rewrite fail_other. discriminate.
Qed.

Lemma eng_create_cas w k v rev old e :
  e <> EnvConflictAbort -> thr s t = PCreateCas w k v rev old ->
  jinv (observe (step_engine cidx0 s t e)) t q.
Proof.
  intros He Ht. pose proof (R t) as Rt. rewrite Ht, Hc in Rt. simpl in Rt.
  destruct (create_req_key _ _ _ _ Rt) as [Hk Hcl].
  unfold step_engine. rewrite Ht. destruct e; [|fbranch s|contradiction].
  - destruct (idx_is (kv s k) (old, true)) eqn:Ei.
    + apply idx_is_true in Ei. apply self_apply_setup; [exact Hk|]. rewrite Ei.
      destruct Rt as [[-> [= ->]]|[-> [= ->]]]; simpl; auto 10.
    + fbranch s; [exact Logic.I|]. intros _.
      destruct (applied_since t k (log s)) eqn:HA.
      * left. rewrite <- Hk in HA. destruct (j_create _ _ _ J Hcl HA) as [E|E]; [left; exact E|right; right; auto].
      * rewrite <- Hk in HA. pose proof (j_fact _ _ _ J HA) as F. unfold pc_key_fact in F. rewrite Ht, Hk in F.
        rewrite (idx_is_refl _ _ F) in Ei. discriminate.
  - exact Logic.I.
  - rewrite fail_other. discriminate.
Qed.

Lemma eng_update k v prev rev e :
  e <> EnvConflictAbort -> thr s t = PUpdateCommit k v prev rev ->
  jinv (observe (step_engine cidx0 s t e)) t q.
Proof.
  intros He Ht. pose proof (R t) as Rt. rewrite Ht, Hc in Rt. simpl in Rt. destruct Rt as [Hq Hne].
  injection Hq as Hq. assert (Hk : req_key q = k) by (rewrite Hq; reflexivity).
  unfold step_engine. rewrite Ht. destruct e; [|fbranch s|contradiction].
  - destruct (idx_is (kv s k) (prev, false)) eqn:Ei.
    + apply idx_is_true in Ei. apply self_apply_setup; [exact Hk|]. rewrite Ei, Hq. simpl.
      destruct (N.eqb_spec prev 0); [contradiction|]. auto 10.
    + fbranch s; [exact Logic.I|]. intros _. right. rewrite Hq. simpl.
      destruct (N.eqb_spec prev 0); [contradiction|]. rewrite Ei. reflexivity.
  - exact Logic.I.
  - discriminate.
Qed.
End Engine.

Section Engine2.
Variable cidx0 : bool.
Variables (s : state) (t : tid) (q : req).
Hypothesis I : kinv s.
Hypothesis R : reqinv s.
Hypothesis M : forall k r v, k_idx (kv s k) = Some (r, false) -> In (r, v) (k_vers (kv s k)) -> v <> tombstone.
Hypothesis Hc : cur s t = Some q.
Hypothesis J : jinv s t q.

Lemma seen_observe_differs mid :
  cur mid t = Some q -> differs (kv mid (req_key q)) q = true -> seen (observe mid) t = true.
Proof. intros H1 H2. rewrite seen_observe, H1, H2. apply orb_true_r. Qed.

Lemma eng_delete_get k exp e :
  e <> EnvConflictAbort -> thr s t = PDeleteGet k exp ->
  jinv (observe (step_engine cidx0 s t e)) t q.
Proof.
  intros He Ht. pose proof (R t) as Rt. rewrite Ht, Hc in Rt. simpl in Rt. injection Rt as Hq.
  assert (Hk : req_key q = k) by (rewrite Hq; reflexivity).
  unfold step_engine. rewrite Ht. destruct e; [| |contradiction].
  - destruct (get_latest (kv s k) EnvOk) as [val mr| |] eqn:Eg.
    + (* found (val, mr) *)
      assert (Hlive : forall r, k_idx (kv s k) = Some (r, false) -> r = mr).
      { intros r Hi. destruct (get_live s k r I (fun v => M k r v Hi) Hi) as [val' E]. rewrite E in Eg.
        injection Eg as _ <-. reflexivity. }
      fbranch s.
      * (* unguarded: the key is as the read found it, or it was not live *)
        intros Hu. rewrite Hk. rewrite Hq in Hu. simpl in Hu.
        assert (Hd : idx_live (kv s k) = false -> seen (observe (set_thr s t (PDeleteDeal k exp val mr))) t = true).
        { intros Hnl. apply seen_observe_differs; [exact Hc|]. rewrite Hq. simpl. rewrite Hu, Hnl. reflexivity. }
        destruct (k_idx (kv s k)) as [[r f]|] eqn:Ei.
        -- destruct f.
           ++ left. apply Hd. unfold idx_live. rewrite Ei. reflexivity.
           ++ right. rewrite (Hlive r eq_refl). reflexivity.
        -- left. apply Hd. unfold idx_live. rewrite Ei. reflexivity.
      * discriminate.
      * (* guarded, and the read found another revision *)
        intros H0 Hne. apply seen_observe_differs; [exact Hc|]. simpl. rewrite Hq. simpl.
        destruct (N.eqb_spec exp 0); [contradiction|].
        destruct (idx_is (kv s k) (exp, false)) eqn:Ei; [|reflexivity].
        apply idx_is_true in Ei. specialize (Hlive _ Ei). contradiction.
    + (* not found: the key is not live *)
      assert (Hnl : idx_live (kv s k) = false).
      { unfold idx_live. destruct (k_idx (kv s k)) as [[r f]|] eqn:Ei; [|reflexivity]. destruct f; [reflexivity|].
        destruct (get_live s k r I (fun v => M k r v Ei) Ei) as [val' E]. rewrite E in Eg. discriminate. }
      fbranch s; [exact Logic.I|]. intros _. right. rewrite Hq. simpl.
      destruct (N.eqb_spec exp 0); [rewrite Hnl; reflexivity|].
      destruct (idx_is (kv s k) (exp, false)) eqn:Ei; [|reflexivity].
      apply idx_is_true in Ei. unfold idx_live in Hnl. rewrite Ei in Hnl. discriminate.
    + fbranch s; [exact Logic.I|discriminate].
  - simpl. fbranch s; [exact Logic.I|discriminate].
Qed.

Lemma eng_delete_commit k exp rev oval orev e :
  e <> EnvConflictAbort -> thr s t = PDeleteCommit k exp rev oval orev ->
  jinv (observe (step_engine cidx0 s t e)) t q.
Proof.
  intros He Ht. pose proof (R t) as Rt. rewrite Ht, Hc in Rt. simpl in Rt. destruct Rt as [exp0 [Hq Hexp]].
  injection Hq as Hq. assert (Hk : req_key q = k) by (rewrite Hq; reflexivity).
  pose proof (ki_local s I t) as L. rewrite Ht in L. simpl in L. destruct L as [-> Hlt].
  unfold step_engine. rewrite Ht. destruct e; [|fbranch s|contradiction].
  - destruct (idx_is (kv s k) (orev, false)) eqn:Ei.
    + apply idx_is_true in Ei. apply self_apply_setup; auto. rewrite Ei, Hq. simpl. repeat split; auto.
      exists orev. auto.
    + fbranch s; [exact Logic.I|]. intros _.
      destruct (N.eqb_spec exp0 0) as [E0|E0].
      * (* unguarded *)
        assert (Hu : unguarded_delete q = true) by (rewrite Hq; simpl; rewrite E0; reflexivity).
        destruct (applied_since t k (log s)) eqn:HA.
        -- left. right. left. rewrite Hk. auto.
        -- rewrite <- Hk in HA. pose proof (j_fact _ _ _ J HA) as F. unfold pc_key_fact in F. rewrite Ht, Hk in F.
           destruct (F Hu) as [E|E]; [left; left; exact E|]. rewrite (idx_is_refl _ _ E) in Ei. discriminate.
      * (* guarded: the index record is not the expected one now *)
        right. rewrite Hq. simpl. destruct (N.eqb_spec exp0 0); [contradiction|].
        destruct Hexp as [-> | ->]; [contradiction|]. rewrite Ei. reflexivity.
  - exact Logic.I.
  - discriminate.
Qed.

Lemma eng_rewrite e :
  e <> EnvConflictAbort ->
  (exists k prev, thr s t = PRwGet k prev) \/ (exists k prev v rev, thr s t = PRwCommit k prev v rev) ->
  jinv (observe (step_engine cidx0 s t e)) t q.
Proof.
  intros He [[k [prev Ht]]|[k [prev [v [rev Ht]]]]]; pose proof (R t) as Rt; rewrite Ht, Hc in Rt; simpl in Rt;
    injection Rt as Hq; assert (Hk : req_key q = k) by (rewrite Hq; reflexivity);
    unfold step_engine; rewrite Ht.
  - destruct e; [|fbranch s; [exact Logic.I|discriminate]|contradiction].
    destruct (newest (k_vers (kv s k))) as [[r0 v0]|]; [|fbranch s; [exact Logic.I|discriminate]].
    destruct (negb _); fbranch s; try exact Logic.I; discriminate.
  - destruct e; [|fbranch s; [exact Logic.I|discriminate]|contradiction].
    destruct (idx_is (kv s k) (prev, beqb v tombstone)) eqn:Ei.
    + apply idx_is_true in Ei. apply self_apply_setup; auto. rewrite Ei, Hq. simpl. auto.
    + fbranch s; [exact Logic.I|discriminate].
Qed.

Lemma eng_failget w k rev old e :
  e <> EnvConflictAbort -> thr s t = PFailGet w k rev old ->
  jinv (observe (step_engine cidx0 s t e)) t q.
Proof.
  intros He Ht.
  assert (Hj : justified_req s t q) by (apply (j_fail _ _ _ J); rewrite Ht; reflexivity).
  unfold step_engine. rewrite Ht. destruct e; [| |contradiction]; destruct w;
    try (destruct (get_latest (kv s k) EnvOk)); simpl;
    (fbranch s; try exact Logic.I; try (intros _; left; exact Hj)).
Qed.
End Engine2.

Lemma jinv_engine cidx0 s t q e :
  kinv s -> reqinv s ->
  (forall k r v, k_idx (kv s k) = Some (r, false) -> In (r, v) (k_vers (kv s k)) -> v <> tombstone) ->
  rpanic (rs s) = false -> e <> EnvConflictAbort -> cur s t = Some q -> jinv s t q ->
  jinv (kstep cidx0 s (LEngine t e)) t q.
Proof.
  intros I R M Hp He Hc J. rewrite (kstep_mid cidx0 s _ Hp). simpl kmid.
  destruct (thr s t) eqn:Ht;
    try (unfold step_engine; rewrite Ht; apply jinv_noop; assumption).
  - eapply eng_create_put; eauto.
  - eapply eng_create_get; eauto.
  - eapply eng_create_cas; eauto.
  - eapply eng_update; eauto.
  - eapply eng_delete_get; eauto.
  - eapply eng_delete_commit; eauto.
  - eapply eng_rewrite; eauto.
  - eapply eng_rewrite; eauto 10.
  - eapply eng_failget; eauto.
Qed.

(* ---------- the global invariant ---------- *)

Record ginv2 (s : state) : Prop := {
  g2 : ginv s;
  g_cur : forall t, thr s t <> PIdle -> exists q, cur s t = Some q
}.

Lemma idle_stays cidx0 s t l :
  thr s t = PIdle -> (forall q, l <> LInvoke t q) -> thr (kmid cidx0 s l) t = PIdle.
Proof.
  intros Ht Hl. destruct (label_tid l) as [ta|] eqn:El.
  - destruct (N.eq_dec ta t) as [->|Hne].
    + destruct l as [ta q0|ta|ta e|ta|ta|]; simpl in El; try injection El as ->; simpl.
      * exfalso. apply (Hl q0). reflexivity.
      * unfold step_deal. rewrite Ht. exact Ht.
      * unfold step_engine. rewrite Ht. exact Ht.
      * unfold step_notify. rewrite Ht. exact Ht.
      * unfold step_return. rewrite Ht. exact Ht.
      * discriminate.
    + destruct (mid_other cidx0 s l t) as (A & _); [rewrite El; intros [= E]; contradiction|]. rewrite A. exact Ht.
  - destruct (mid_other cidx0 s l t) as (A & _); [rewrite El; discriminate|]. rewrite A. exact Ht.
Qed.

Lemma label_tid_dec l t : {label_tid l = Some t} + {label_tid l <> Some t}.
Proof.
  destruct (label_tid l) as [ta|]; [|right; discriminate].
  destruct (N.eq_dec ta t) as [->|Hne]; [left; reflexivity|right; intros [= E]; contradiction].
Qed.

Lemma invoke_dec l t : (exists q0, l = LInvoke t q0) \/ (forall q, l <> LInvoke t q).
Proof.
  destruct l as [ta q0|ta|ta e|ta|ta|]; try (right; intros q; discriminate).
  destruct (N.eq_dec ta t) as [->|Hne]; [left; eauto|right; intros q [= E]; contradiction].
Qed.

Lemma ginv2_step cidx0 s l :
  kinv s -> reqinv s -> quiet_label l -> ginv2 s -> ginv2 (kstep cidx0 s l).
Proof.
  intros I R Hq [[M V G] C].
  destruct (rpanic (rs s)) eqn:Hp; [unfold kstep; rewrite Hp; split; [split|]; assumption|].
  pose proof (kv_move_step cidx0 s l I R) as Hmove.
  pose proof (kinv_step cidx0 s l I) as I'.
  (* cur after the step *)
  assert (Hcur : forall t, cur (kstep cidx0 s l) t = cur s t \/
                           (exists q0, l = LInvoke t q0 /\ thr s t = PIdle /\ cur (kstep cidx0 s l) t = Some q0) \/
                           (l = LReturn t /\ cur (kstep cidx0 s l) t = None /\ thr (kstep cidx0 s l) t = PIdle)).
  { intros t. rewrite (kstep_mid cidx0 s l Hp). simpl cur. simpl thr.
    destruct (label_tid_dec l t) as [El|El].
    - destruct l as [ta q0|ta|ta e|ta|ta|]; simpl in El; try injection El as ->; try discriminate; simpl kmid.
      + unfold step_invoke. destruct (thr s t) eqn:Ht; try (left; reflexivity).
        right. left. exists q0. simpl. rewrite upd_same. auto.
      + left. destruct (deal_ghost s t) as (A & _). rewrite A. reflexivity.
      + left. destruct (engine_ghost cidx0 s t e) as (A & _). rewrite A. reflexivity.
      + left. destruct (notify_ghost s t) as (A & _). rewrite A. reflexivity.
      + unfold step_return. destruct (thr s t) eqn:Ht; try (left; reflexivity).
        right. right. simpl. rewrite !upd_same. auto.
    - left. destruct (mid_other cidx0 s l t El) as (_ & A & _). exact A. }
  constructor; [constructor|].
  - (* marker values *)
    intros k r v. destruct Hmove as [A B|e A B C0|ta k' a rev flag v0 A B C0 D]; rewrite A; try apply M.
    unfold upd. destruct (N.eqb_spec k k') as [->|_]; [|apply M].
    simpl. intros [= <- Hflag]. subst flag. rewrite ver_put_In. intros [[_ ->]|[_ Hne]]; [|contradiction].
    destruct (cur s ta) as [[k1 v1|k1 v1 p1|k1 e1|k1 p1]|] eqn:Ec; simpl in D.
    + destruct D as (_ & <- & _). apply (V _ _ Ec).
    + destruct D as (_ & <- & _). apply (V _ _ Ec).
    + destruct D as (_ & _ & Hf & _). discriminate.
    + destruct D as (_ & _ & _ & Hf). intros ->. vm_compute in Hf. discriminate.
    + contradiction.
  - (* request values *)
    intros t q Hc'. destruct (Hcur t) as [E|[[q0 [-> [_ E]]]|[_ [E _]]]].
    + rewrite E in Hc'. apply (V _ _ Hc').
    + rewrite E in Hc'. injection Hc' as <-. exact Hq.
    + rewrite E in Hc'. discriminate.
  - (* per-thread justification invariant *)
    intros t q Hc'.
    destruct (label_tid_dec l t) as [El|El].
    + destruct l as [ta q0|ta|ta e|ta|ta|]; simpl in El; try injection El as ->; try discriminate.
      * (* LInvoke t q0 *)
        rewrite (kstep_mid cidx0 s _ Hp) in *. simpl kmid in *. unfold step_invoke in *.
        destruct (thr s t) eqn:Ht; try (apply jinv_noop; [apply G|]; exact Hc').
        simpl in Hc'. rewrite upd_same in Hc'. injection Hc' as <-.
        assert (Hpc : forall p, p = (match q0 with
                                     | RqCreate k v => PCreateDeal WCreate k v
                                     | RqUpdate k v prev => if prev =? 0 then PCreateDeal WUpdate0 k v else PUpdateDeal k v prev
                                     | RqDelete k exp => PDeleteGet k exp
                                     | RqRewrite k prev => PRwGet k prev
                                     end) ->
                        fail_pc p = false /\
                        match p with PCreatePut _ _ _ _ _ | PCreateGet _ _ _ _ | PCreateCas _ _ _ _ _
                                   | PDeleteDeal _ _ _ _ | PDeleteCommit _ _ _ _ _ => False | _ => True end).
        { intros p ->. destruct q0 as [k0 v0|k0 v0 p0|k0 e0|k0 p0]; simpl; auto. destruct (p0 =? 0); simpl; auto. }
        constructor.
        -- simpl. rewrite !upd_same. simpl. intros E. exact E.
        -- simpl. rewrite N.eqb_refl. discriminate.
        -- intros _. unfold pc_key_fact. simpl thr. rewrite upd_same.
           destruct (Hpc _ eq_refl) as [_ H]. revert H.
           match goal with |- match ?p with _ => _ end -> _ => destruct p end; intros H; try contradiction; exact Logic.I.
        -- simpl thr. rewrite upd_same. destruct (Hpc _ eq_refl) as [H _]. rewrite H. discriminate.
        -- simpl thr. rewrite upd_same. destruct (Hpc _ eq_refl) as [_ H]. revert H.
           match goal with |- match ?p with _ => _ end -> _ => destruct p end; intros H; try contradiction; exact Logic.I.
      * assert (Hc : cur s t = Some q).
        { destruct (Hcur t) as [E|[[q0 [E _]]|[E _]]]; try discriminate. rewrite <- E. exact Hc'. }
        apply jinv_deal; auto.
      * assert (Hc : cur s t = Some q).
        { destruct (Hcur t) as [E|[[q0 [E _]]|[E _]]]; try discriminate. rewrite <- E. exact Hc'. }
        apply jinv_engine; auto. intros ->. exact Hq.
      * assert (Hc : cur s t = Some q).
        { destruct (Hcur t) as [E|[[q0 [E _]]|[E _]]]; try discriminate. rewrite <- E. exact Hc'. }
        apply jinv_notify; auto.
      * (* LReturn t *)
        rewrite (kstep_mid cidx0 s _ Hp) in *. simpl kmid in *. unfold step_return in *.
        destruct (thr s t) eqn:Ht; try (apply jinv_noop; [apply G|]; exact Hc').
        simpl in Hc'. rewrite upd_same in Hc'. discriminate.
    + assert (Hc : cur s t = Some q).
      { destruct (mid_other cidx0 s l t El) as (_ & A & _). rewrite (kstep_mid cidx0 s l Hp) in Hc'. simpl in Hc'.
        rewrite A in Hc'. exact Hc'. }
      apply (jinv_other_step cidx0 s l t q); auto.
  - (* a thread that is not idle serves a request *)
    intros t Hni. destruct (invoke_dec l t) as [[q0 ->]|Hl].
    + rewrite (kstep_mid cidx0 s _ Hp) in *. simpl kmid in *. unfold step_invoke in *.
      destruct (thr s t) eqn:Ht; try (simpl; apply C; rewrite Ht; discriminate).
      exists q0. simpl. apply upd_same.
    + destruct (Hcur t) as [E|[[q0 [Eq _]]|[_ [_ E]]]]; [|exfalso; eapply Hl; eauto|contradiction].
      rewrite E. destruct (thr s t) eqn:Ht; try (apply C; rewrite Ht; discriminate).
      exfalso. apply Hni. rewrite (kstep_mid cidx0 s l Hp). simpl thr. apply idle_stays; assumption.
Qed.

Definition no_marker_store (store : key -> kstate) : Prop :=
  forall k r v, In (r, v) (k_vers (store k)) -> k_idx (store k) = Some (r, false) -> v <> tombstone.

Lemma ginv2_init d0 store : no_marker_store store -> ginv2 (kinit d0 store).
Proof.
  intros Hm. split; [split|]; simpl.
  - intros k r v Hi Hin. eapply Hm; eauto.
  - discriminate.
  - discriminate.
  - intros t H. contradiction.
Qed.

Lemma ginv2_run cidx0 ls : forall s,
  kinv s -> reqinv s -> Forall quiet_label ls -> ginv2 s -> ginv2 (krun cidx0 ls s).
Proof.
  induction ls as [|l ls IH]; intros s I R Hq G; simpl; [exact G|].
  inversion Hq as [|? ? Hl Hls]; subst.
  apply IH; [apply kinv_step, I|apply reqinv_step, R|exact Hls|apply ginv2_step; assumption].
Qed.

(* C01_failure_justified, with the finding's signature as the third alternative *)
Theorem failure_justified cidx0 d0 store ls :
  wf_store d0 store -> no_marker_store store -> Forall quiet_label ls ->
  let s := krun cidx0 ls (kinit d0 store) in
  forall t r, thr s t = PReturn r -> resp_cond_failed r = true ->
    exists q, cur s t = Some q /\ justified_req s t q.
Proof.
  intros W Hm Hq s t r Ht Hr.
  assert (G : ginv2 s).
  { apply ginv2_run; auto; [apply kinv_init, W|intros t'; exact Logic.I|apply ginv2_init, Hm]. }
  destruct (g_cur s G t) as [q Hc]; [rewrite Ht; discriminate|].
  exists q. split; [exact Hc|].
  apply (j_fail _ _ _ (g_j s (g2 s G) t q Hc)). rewrite Ht. exact Hr.
Qed.

(* no re-stamping of the request's key while it was in flight: the failure is justified outright *)
Corollary failure_justified_except_restamp cidx0 d0 store ls :
  wf_store d0 store -> no_marker_store store -> Forall quiet_label ls ->
  let s := krun cidx0 ls (kinit d0 store) in
  forall t r, thr s t = PReturn r -> resp_cond_failed r = true ->
    exists q, cur s t = Some q /\
      (stamp_since t (req_key q) (log s) = false ->
       seen s t = true \/ (unguarded_delete q = true /\ applied_since t (req_key q) (log s) = true)).
Proof.
  intros W Hm Hq s t r Ht Hr. destruct (failure_justified cidx0 d0 store ls W Hm Hq t r Ht Hr) as [q [Hc J]].
  exists q. split; [exact Hc|]. intros Hs. destruct J as [E|[E|[_ E]]]; auto. fold s in E. rewrite Hs in E. discriminate.
Qed.

(* the ghost flag means what it says: it is set exactly by a state, after some step since the request's
   LInvoke, in which the key differs from the request's expectation (Model/KeySys.v, observe); for the
   record: one step never clears it while the request is in flight *)
Lemma seen_step_mono cidx0 s l t q :
  rpanic (rs s) = false -> cur s t = Some q -> cur (kstep cidx0 s l) t = Some q ->
  (forall q0, l <> LInvoke t q0) -> seen s t = true -> seen (kstep cidx0 s l) t = true.
Proof.
  intros Hp Hc Hc' Hl E. rewrite (kstep_mid cidx0 s l Hp) in *. rewrite seen_observe.
  destruct (label_tid_dec l t) as [El|El].
  - destruct l as [ta q0|ta|ta e|ta|ta|]; simpl in El; try injection El as ->; try discriminate; simpl kmid in *.
    + exfalso. eapply Hl. reflexivity.
    + destruct (deal_ghost s t) as (_ & B & _). rewrite B, E. reflexivity.
    + destruct (engine_ghost cidx0 s t e) as (_ & B & _). rewrite B, E. reflexivity.
    + destruct (notify_ghost s t) as (_ & B & _). rewrite B, E. reflexivity.
    + unfold step_return in *. destruct (thr s t); try (rewrite E; reflexivity).
      simpl in Hc'. rewrite upd_same in Hc'. discriminate.
  - destruct (mid_other cidx0 s l t El) as (_ & _ & B). rewrite B, E. reflexivity.
Qed.
