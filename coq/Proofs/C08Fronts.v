(* C08: reads through the etcd front end. pkgH's model of RPCServer.Range + backendShim (Model/Etcd.v: shim_range) routes
   every request with a non-empty range_end that is neither the partition query nor a count to Backend.List, with the
   request's key, range_end, limit and revision, and answers an error exactly when Backend.List does: the c08 driver gives
   such a read the label of the Backend.List it is (CList rev limit). *)
From KB Require Import Base.Cases Model.Coder Model.Etcd.
From Coq Require Import ZArith.
Local Open Scope N_scope.

Lemma etcd_range_is_list st r :
  r_end r <> [] -> r_rev r <> partition_magic -> r_count_only r = false ->
  shim_range st r =
    match b_list st (r_key r) (r_end r) (r_limit r) (u64_of_Z (r_rev r)) with
    | BLErr => RErr
    | BLOk h kvs more => ROk (i64_of_N h) (map shim_kv kvs) (lenZ kvs + (if more then 1 else 0))%Z more
    end.
Proof.
  intros He Hm Hc. unfold shim_range. destruct (r_end r) as [|x e]; [contradiction|].
  apply Z.eqb_neq in Hm. rewrite Hm, Hc. reflexivity.
Qed.

(* ... in particular the single-key range [key, key ++ [0]) is a List, not a point read *)
Lemma etcd_single_key_range_is_list st key limit rev :
  rev <> partition_magic ->
  (shim_range st (mkRange key (key ++ [0]) limit rev false false) = RErr <->
   b_list st key (key ++ [0]) limit (u64_of_Z rev) = BLErr).
Proof.
  intros Hm. rewrite etcd_range_is_list; cbn [r_end r_rev r_count_only r_key r_limit]; [|destruct key; discriminate|exact Hm|reflexivity].
  destruct (b_list st key (key ++ [0]) limit (u64_of_Z rev)); split; intros H; try reflexivity; discriminate.
Qed.
