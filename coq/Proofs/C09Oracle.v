(* C09 oracle soundness, part 3: acknowledged writes and their delivered events; the probe after a drained List;
   the oracle as a whole. *)
From KB Require Import Base.Cases Model.RetrySys Model.C09Cases
  Proofs.RetryBase Proofs.RetryInv1 Proofs.RetryInv2 Proofs.RetryProps Proofs.RetryInv3 Proofs.RetryInvX
  Proofs.C09Cases Proofs.C09Sim.
Local Open Scope N_scope.

(* ---------- a valid event in its result slot ends up in the published stream ---------- *)
Definition acked (s : state) (ev : wevent) : Prop :=
  e_valid ev = true /\ (In ev (s_events s) \/ s_slots s (e_rev ev) = Some ev).

Lemma acked_step s l ev : Inv1 s -> acked s ev -> acked (step s l) ev.
Proof.
  intros I [V A]. split; [exact V|]. destruct l as [t op|t e| |e|d]; unfold step, step_gen.
  - destruct (get_thread t (s_threads s)); exact A.
  - destruct (get_thread t (s_threads s)) as [th|] eqn:G; [|exact A].
    destruct (thread_step s (t_op th) (t_pc th) e) as [[s' p'] u] eqn:TS.
    destruct (thread_step_frame _ _ _ _ _ _ _ TS) as [_ [_ [_ [_ [Hev _]]]]].
    cbn [s_events s_slots set_threads]. rewrite Hev. destruct A as [A|A]; [left; exact A|right].
    destruct (thread_step_effect _ _ _ _ _ _ _ TS) as [_ Hs _ _ | _ Hs _ _ _ | c eo ev1 Ep _ _ _ Hs _]; rewrite Hs; try exact A.
    assert (Pth : pc_rev (t_pc th) = Some (c_rev c)) by (rewrite Ep; reflexivity).
    destruct (i_thr _ I t th _ G Pth) as [_ [Hsl _]].
    rewrite slot_set_other; [exact A|]. intros E. rewrite E in A. congruence.
  - unfold seq_step. destruct (s_seq s) as [|ev0|ev0] eqn:Q; try exact A.
    destruct (s_slots s (s_committed s + 1)) as [ev0|] eqn:SL; [|exact A].
    destruct (i_slot _ I _ _ SL) as [Hr _].
    assert (Hcase : e_rev ev = s_committed s + 1 -> s_slots s (e_rev ev) = Some ev -> ev0 = ev) by (intros E H; rewrite E in H; congruence).
    destruct (e_valid ev0) eqn:V0; [|destruct (e_unc ev0) eqn:U0]; cbn [s_events s_slots set_events set_committed set_slots set_seq].
    + destruct A as [A|A]; [left; right; exact A|].
      destruct (N.eq_dec (e_rev ev) (s_committed s + 1)) as [E|E]; [left; left; apply Hcase; assumption|right; rewrite slot_set_other by exact E; exact A].
    + destruct A as [A|A]; [left; exact A|].
      destruct (N.eq_dec (e_rev ev) (s_committed s + 1)) as [E|E]; [rewrite (Hcase E A) in V0; congruence|right; rewrite slot_set_other by exact E; exact A].
    + destruct A as [A|A]; [left; exact A|].
      destruct (N.eq_dec (e_rev ev) (s_committed s + 1)) as [E|E]; [rewrite (Hcase E A) in V0; congruence|right; rewrite slot_set_other by exact E; exact A].
  - unfold retry_step. destruct (s_retry s) as [|node|node val|node val rev|node rev eo|node st] eqn:R; try exact A.
    + destruct (s_queue s) as [|[node t] rest]; [exact A|]. destruct (s_now s - t <? retry_interval); exact A.
    + destruct e; try exact A. destruct (latest _) as [[modrev val]|]; [destruct (negb (modrev =? e_rev node))|]; exact A.
    + destruct (commit _ _ e). exact A.
    + destruct (i_retry _ I rev) as [_ [Hsl _]]; [rewrite R; reflexivity|].
      assert (Hs : forall X, (In ev (s_events s) \/ slot_set (s_slots s) rev X (e_rev ev) = Some ev)).
      { intros X. destruct A as [A|A]; [left; exact A|right]. rewrite slot_set_other; [exact A|]. intros E. rewrite E in A. congruence. }
      destruct eo as [er|]; [destruct (is_cas er)|]; cbn [s_events s_slots set_retry set_slots set_rlast]; apply Hs.
  - exact A.
Qed.

Lemma acked_leads q s s' ev : reach q s -> leads s s' -> acked s ev -> acked s' ev.
Proof.
  intros R [ls [W ->]]. revert s R. induction W as [|l ls Wl _ IH]; intros s R A; [exact A|].
  change (run s (l :: ls)) with (run (step s l) ls). apply IH; [apply reach_step; assumption|].
  apply acked_step; [apply (reach_inv1 q); exact R|exact A].
Qed.

Lemma acked_published s ev : Inv1 s -> acked s ev -> e_rev ev <= s_committed s -> In ev (s_events s).
Proof. intros I [_ [A|A]] H; [exact A|]. apply (i_slot _ I) in A. lia. Qed.

(* ---------- exactly one delivered event per revision ---------- *)
Lemma filter_rev' {A} (p : A -> bool) l : filter p (rev l) = rev (filter p l).
Proof.
  induction l as [|a l IH]; [reflexivity|]. simpl. rewrite filter_app, IH. simpl. destruct (p a); [reflexivity|apply app_nil_r].
Qed.

Lemma filter_rev_unique evs ev : ev_desc evs -> In ev evs ->
  filter (fun e => e_rev e =? e_rev ev) evs = [ev].
Proof.
  induction evs as [|a l IH]; intros D Hin; [contradiction|]. destruct D as [D1 D2]. simpl.
  destruct Hin as [->|Hin].
  - rewrite N.eqb_refl. f_equal. clear IH. induction l as [|b l IHl]; [reflexivity|]. simpl.
    assert (e_rev b < e_rev ev) by (apply D1; left; reflexivity).
    assert ((e_rev b =? e_rev ev) = false) as -> by (apply N.eqb_neq; lia).
    apply IHl; [intros e' He'; apply D1; right; exact He'|apply D2].
  - assert (e_rev ev < e_rev a) by (apply D1; exact Hin).
    assert ((e_rev a =? e_rev ev) = false) as -> by (apply N.eqb_neq; lia). apply IH; assumption.
Qed.

Lemma evobs_filter evs h :
  filter (fun e : evobs => let '(_, _, _, r, _) := e in r =? h) (map ev_obs evs) = map ev_obs (filter (fun e => e_rev e =? h) evs).
Proof. induction evs as [|a l IH]; [reflexivity|]. simpl. destruct (e_rev a =? h); simpl; rewrite IH; reflexivity. Qed.

Lemma delivered_unique evs ev : ev_desc evs -> In ev evs ->
  filter (fun e : evobs => let '(_, _, _, r, _) := e in r =? e_rev ev) (map ev_obs (rev evs)) = [ev_obs ev].
Proof.
  intros D Hin. rewrite evobs_filter, filter_rev', (filter_rev_unique evs ev D Hin). reflexivity.
Qed.

(* ---------- clause (4a): one delivered event per acknowledged, committed write ---------- *)
Lemma obs_committed m d : o_committed (snd (dstep_run m d)) = s_committed (m_s (fst (dstep_run m d))).
Proof. destruct d; cbn [dstep_run fst snd m_s mk_obs o_committed]; try reflexivity. destruct (s_retry (m_s m)); reflexivity. Qed.

Lemma final_committed_one o : final_committed [o] = o_committed o.
Proof. reflexivity. Qed.
Lemma final_committed_cons o o' os : final_committed (o :: o' :: os) = final_committed (o' :: os).
Proof.
  unfold final_committed. change (rev (o :: o' :: os)) with (rev (o' :: os) ++ [o]).
  destruct (rev (o' :: os)) as [|x l] eqn:E; [|reflexivity].
  apply (f_equal (@length obs)) in E. rewrite rev_length in E. discriminate.
Qed.

Lemma final_committed_run ds : forall m, ds <> [] ->
  final_committed (snd (script_run m ds)) = s_committed (m_s (fst (script_run m ds))).
Proof.
  induction ds as [|d ds IH]; intros m N; [contradiction|]. cbn [script_run].
  pose proof (obs_committed m d) as OC. destruct (dstep_run m d) as [m1 o]. cbn [fst snd] in OC.
  destruct ds as [|d' ds'].
  - cbn [script_run fst snd]. rewrite final_committed_one. exact OC.
  - specialize (IH m1 ltac:(discriminate)). destruct (script_run m1 (d' :: ds')) as [m2 os] eqn:ES. cbn [fst snd] in *.
    destruct os as [|o' os']; [|rewrite final_committed_cons; exact IH].
    exfalso. cbn [script_run] in ES. destruct (dstep_run m1 d'). destruct (script_run m0 ds'). discriminate.
Qed.

Lemma verb_eqb_refl v : verb_eqb v v = true. Proof. destruct v; reflexivity. Qed.

Lemma ack_head q m b op envs gerr hold sF :
  MI q m -> Sim b (m_s m) -> dstep_wf (DWrite op envs gerr hold) ->
  leads (m_s (fst (dstep_run m (DWrite op envs gerr hold)))) sF ->
  ack_event_ok (map ev_obs (rev (s_events sF))) (s_committed sF) (DWrite op envs gerr hold, snd (dstep_run m (DWrite op envs gerr hold))) = true.
Proof.
  intros [MR MF MD] _ W LF. destruct (dstep_wf_write _ _ _ _ W) as [We Wo]. destruct W as [_ OW].
  cbn [dstep_run fst snd m_s] in *. set (s := m_s m) in *. set (t := m_tid m) in *.
  assert (G : get_thread t (s_threads s) = None) by (apply MF; lia).
  destruct (write_run s t op envs gerr G OW We) as [th' [r [c [eo [G' [O' [P' [[Hd [Hc [Hv Hs]]] [HL F']]]]]]]]].
  assert (L1 : leads s (run_thread 12 t envs gerr (step s (LInvoke t op)))).
  { eapply leads_trans; [apply (leads_step s (LInvoke t op)); exact Wo|apply run_thread_leads; exact We]. }
  remember (run_thread 12 t envs gerr (step s (LInvoke t op))) as s1 eqn:Es1.
  assert (Eob : resp_of s1 t = OResp r (t_unk th')) by (unfold resp_of; rewrite G', P'; reflexivity).
  rewrite Eob in *. unfold ack_event_ok. cbn [o_d mk_obs].
  destruct r as [h kv| | |]; try reflexivity.
  destruct eo as [er|]; cbn [link] in HL; [destruct HL as [[_ HL]|[_ [[h' [kv' HL]]|HL]]]; discriminate|].
  injection HL as -> ->.
  destruct (s_committed sF <? s_dealt s + 1) eqn:Efin; [reflexivity|]. apply N.ltb_ge in Efin.
  set (ev0 := mk_ev (s_dealt s + 1) (c_prev c) (op_verb op) (op_key op) (c_val c) None).
  assert (R1 : reach q s1) by (apply (leads_reach q s s1 MR L1)).
  assert (A1 : acked s1 ev0) by (split; [reflexivity|right; rewrite Hs; apply slot_set_same]).
  set (held := if hold && is_unc_resp _ then _ else _) in LF.
  assert (LF' : leads s1 sF) by (eapply leads_trans; [apply (settle_leads seq_fuel held s1)|exact LF]).
  pose proof (acked_leads q s1 sF ev0 R1 LF' A1) as AF.
  pose proof (leads_reach q s1 sF R1 LF') as RF.
  pose proof (acked_published sF ev0 (reach_inv1 q sF RF) AF Efin) as Hin.
  change (s_dealt s + 1) with (e_rev ev0) at 1.
  rewrite (delivered_unique (s_events sF) ev0 (a_sorted _ (reach_inv3 q sF RF)) Hin).
  cbn [ev_obs ev0 mk_ev e_verb e_key e_val e_rev]. rewrite verb_eqb_refl, N.eqb_refl. cbn [andb].
  unfold cv_ok in Hv. destruct (op_value op) as [x|]; [|reflexivity]. rewrite Hv. apply beqb_refl.
Qed.

Lemma ack_other evs fin d o : (forall op envs g h, d <> DWrite op envs g h) -> ack_event_ok evs fin (d, o) = true.
Proof. intros N. unfold ack_event_ok. destruct d; try reflexivity. exfalso. eapply N. reflexivity. Qed.

Lemma ack_fold q ds : forall m b,
  MI q m -> Sim b (m_s m) -> Forall dstep_wf ds ->
  forall x, In x (combine ds (snd (script_run m ds))) ->
  ack_event_ok (map ev_obs (rev (s_events (m_s (fst (script_run m ds)))))) (s_committed (m_s (fst (script_run m ds)))) x = true.
Proof.
  induction ds as [|d ds IH]; intros m b M S W x Hx; [contradiction|].
  inversion W as [|? ? Wd Wds]; subst.
  destruct (dstep_sim q b m d M S Wd) as [M1 [S1 _]].
  pose proof (fun sF => ack_head q m b) as AH.
  cbn [script_run] in *.
  destruct (dstep_run m d) as [m1 o] eqn:ED. cbn [fst snd] in *.
  pose proof (script_run_leads ds m1 Wds) as L2.
  specialize (IH m1 (book_step b (d, o)) M1 S1 Wds).
  destruct (script_run m1 ds) as [m2 os] eqn:ES. cbn [fst snd combine] in *.
  destruct Hx as [<-|Hx]; [|apply IH; exact Hx].
  destruct d; try (apply ack_other; intros; discriminate).
  pose proof (ack_head q m b op envs gerr hold (m_s m2) M S Wd) as H. rewrite ED in H. cbn [fst snd] in H. apply H. exact L2.
Qed.
