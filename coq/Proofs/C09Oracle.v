(* C09 oracle soundness, part 3: acknowledged writes and their delivered events; the probe after a drained List;
   the oracle as a whole. *)
From KB Require Import Base.Cases Model.RetrySys Model.C09Cases
  Proofs.RetryBase Proofs.RetryInv1 Proofs.RetryInv2 Proofs.RetryProps Proofs.RetryInv3 Proofs.RetryInvX
  Proofs.C09Cases Proofs.C09Sim.
Local Open Scope N_scope.

(* ---------- a valid event in its result slot ends up in the published stream ---------- *)
Definition acked (s : state) (ev : wevent) : Prop :=
  e_valid ev = true /\ (In ev (s_events s) \/ s_slots s (e_rev ev) = Some ev).

Lemma acked_step s l ev : Inv1 s -> acked s ev -> acked (step s l) ev.
Proof.
  intros I [V A]. split; [exact V|]. destruct l as [t op|t e| |e|d]; unfold step, step_gen.
  - destruct (get_thread t (s_threads s)); exact A.
  - destruct (get_thread t (s_threads s)) as [th|] eqn:G; [|exact A].
    destruct (thread_step s (t_op th) (t_pc th) e) as [[s' p'] u] eqn:TS.
    destruct (thread_step_frame _ _ _ _ _ _ _ TS) as [_ [_ [_ [_ [Hev _]]]]].
    cbn [s_events s_slots set_threads]. rewrite Hev. destruct A as [A|A]; [left; exact A|right].
    destruct (thread_step_effect _ _ _ _ _ _ _ TS) as [_ Hs _ _ | _ Hs _ _ _ | c eo ev1 Ep _ _ _ Hs _]; rewrite Hs; try exact A.
    assert (Pth : pc_rev (t_pc th) = Some (c_rev c)) by (rewrite Ep; reflexivity).
    destruct (i_thr _ I t th _ G Pth) as [_ [Hsl _]].
    rewrite slot_set_other; [exact A|]. intros E. rewrite E in A. congruence.
  - unfold seq_step. destruct (s_seq s) as [|ev0|ev0] eqn:Q; try exact A.
    destruct (s_slots s (s_committed s + 1)) as [ev0|] eqn:SL; [|exact A].
    destruct (i_slot _ I _ _ SL) as [Hr _].
    assert (Hcase : e_rev ev = s_committed s + 1 -> s_slots s (e_rev ev) = Some ev -> ev0 = ev) by (intros E H; rewrite E in H; congruence).
    destruct (e_valid ev0) eqn:V0; [|destruct (e_unc ev0) eqn:U0]; cbn [s_events s_slots set_events set_committed set_slots set_seq].
    + destruct A as [A|A]; [left; right; exact A|].
      destruct (N.eq_dec (e_rev ev) (s_committed s + 1)) as [E|E]; [left; left; apply Hcase; assumption|right; rewrite slot_set_other by exact E; exact A].
    + destruct A as [A|A]; [left; exact A|].
      destruct (N.eq_dec (e_rev ev) (s_committed s + 1)) as [E|E]; [rewrite (Hcase E A) in V0; congruence|right; rewrite slot_set_other by exact E; exact A].
    + destruct A as [A|A]; [left; exact A|].
      destruct (N.eq_dec (e_rev ev) (s_committed s + 1)) as [E|E]; [rewrite (Hcase E A) in V0; congruence|right; rewrite slot_set_other by exact E; exact A].
  - unfold retry_step. destruct (s_retry s) as [|node|node val|node val rev|node rev eo|node st] eqn:R; try exact A.
    + destruct (s_queue s) as [|[node t] rest]; [exact A|]. destruct (s_now s - t <? retry_interval); exact A.
    + destruct e; try exact A. destruct (latest _) as [[modrev val]|]; [destruct (negb (modrev =? e_rev node))|]; exact A.
    + destruct (commit _ _ e). exact A.
    + destruct (i_retry _ I rev) as [_ [Hsl _]]; [rewrite R; reflexivity|].
      assert (Hs : forall X, (In ev (s_events s) \/ slot_set (s_slots s) rev X (e_rev ev) = Some ev)).
      { intros X. destruct A as [A|A]; [left; exact A|right]. rewrite slot_set_other; [exact A|]. intros E. rewrite E in A. congruence. }
      destruct eo as [er|]; [destruct (is_cas er)|]; cbn [s_events s_slots set_retry set_slots set_rlast]; apply Hs.
  - exact A.
Qed.

Lemma acked_leads q s s' ev : reach q s -> leads s s' -> acked s ev -> acked s' ev.
Proof.
  intros R [ls [W ->]]. revert s R. induction W as [|l ls Wl _ IH]; intros s R A; [exact A|].
  change (run s (l :: ls)) with (run (step s l) ls). apply IH; [apply reach_step; assumption|].
  apply acked_step; [apply (reach_inv1 q); exact R|exact A].
Qed.

Lemma acked_published s ev : Inv1 s -> acked s ev -> e_rev ev <= s_committed s -> In ev (s_events s).
Proof. intros I [_ [A|A]] H; [exact A|]. apply (i_slot _ I) in A. lia. Qed.

(* ---------- exactly one delivered event per revision ---------- *)
Lemma filter_rev' {A} (p : A -> bool) l : filter p (rev l) = rev (filter p l).
Proof.
  induction l as [|a l IH]; [reflexivity|]. simpl. rewrite filter_app, IH. simpl. destruct (p a); [reflexivity|apply app_nil_r].
Qed.

Lemma filter_rev_unique evs ev : ev_desc evs -> In ev evs ->
  filter (fun e => e_rev e =? e_rev ev) evs = [ev].
Proof.
  induction evs as [|a l IH]; intros D Hin; [contradiction|]. destruct D as [D1 D2]. simpl.
  destruct Hin as [->|Hin].
  - rewrite N.eqb_refl. f_equal. clear IH. induction l as [|b l IHl]; [reflexivity|]. simpl.
    assert (e_rev b < e_rev ev) by (apply D1; left; reflexivity).
    assert ((e_rev b =? e_rev ev) = false) as -> by (apply N.eqb_neq; lia).
    apply IHl; [intros e' He'; apply D1; right; exact He'|apply D2].
  - assert (e_rev ev < e_rev a) by (apply D1; exact Hin).
    assert ((e_rev a =? e_rev ev) = false) as -> by (apply N.eqb_neq; lia). apply IH; assumption.
Qed.

Lemma evobs_filter evs h :
  filter (fun e : evobs => let '(_, _, _, r, _) := e in r =? h) (map ev_obs evs) = map ev_obs (filter (fun e => e_rev e =? h) evs).
Proof. induction evs as [|a l IH]; [reflexivity|]. simpl. destruct (e_rev a =? h); simpl; rewrite IH; reflexivity. Qed.

Lemma delivered_unique evs ev : ev_desc evs -> In ev evs ->
  filter (fun e : evobs => let '(_, _, _, r, _) := e in r =? e_rev ev) (map ev_obs (rev evs)) = [ev_obs ev].
Proof.
  intros D Hin. rewrite evobs_filter, filter_rev', (filter_rev_unique evs ev D Hin). reflexivity.
Qed.

(* ---------- clause (4a): one delivered event per acknowledged, committed write ---------- *)
Lemma obs_committed m d : o_committed (snd (dstep_run m d)) = s_committed (m_s (fst (dstep_run m d))).
Proof.
  destruct d; unfold dstep_run; cbv zeta.
  all: try (cbn [fst snd m_s mk_obs o_committed]; reflexivity).
  destruct (s_retry (m_s m)); cbn [fst snd m_s mk_obs o_committed]; reflexivity.
Qed.

Lemma final_committed_one o : final_committed [o] = o_committed o.
Proof. reflexivity. Qed.
Lemma final_committed_cons o o' os : final_committed (o :: o' :: os) = final_committed (o' :: os).
Proof.
  unfold final_committed. change (rev (o :: o' :: os)) with (rev (o' :: os) ++ [o]).
  destruct (rev (o' :: os)) as [|x l] eqn:E; [|reflexivity].
  apply (f_equal (@length obs)) in E. rewrite rev_length in E. discriminate.
Qed.

Lemma final_committed_run ds : forall m, ds <> [] ->
  final_committed (snd (script_run m ds)) = s_committed (m_s (fst (script_run m ds))).
Proof.
  induction ds as [|d ds IH]; intros m N; [contradiction|]. cbn [script_run].
  pose proof (obs_committed m d) as OC. destruct (dstep_run m d) as [m1 o]. cbn [fst snd] in OC.
  destruct ds as [|d' ds'].
  - cbn [script_run fst snd]. rewrite final_committed_one. exact OC.
  - specialize (IH m1 ltac:(discriminate)). destruct (script_run m1 (d' :: ds')) as [m2 os] eqn:ES. cbn [fst snd] in *.
    destruct os as [|o' os']; [|rewrite final_committed_cons; exact IH].
    exfalso. cbn [script_run] in ES. destruct (dstep_run m1 d'). destruct (script_run m0 ds'). discriminate.
Qed.

Lemma verb_eqb_refl v : verb_eqb v v = true. Proof. destruct v; reflexivity. Qed.

Lemma ack_match evs ev fin op envs g hd o kv u :
  ev_desc evs -> In ev evs -> e_rev ev <= fin -> o_d o = OResp (ROk (e_rev ev) kv) u ->
  e_verb ev = op_verb op -> e_key ev = op_key op -> (forall x, op_value op = Some x -> e_val ev = x) ->
  ack_event_ok (map ev_obs (rev evs)) fin (DWrite op envs g hd, o) = true.
Proof.
  intros D Hin Hf Ho Hv Hk Hx. unfold ack_event_ok. rewrite Ho.
  assert ((fin <? e_rev ev) = false) as -> by (apply N.ltb_ge; exact Hf).
  pose proof (delivered_unique evs ev D Hin) as DU. unfold evobs in *. rewrite DU.
  unfold ev_obs. rewrite Hv, Hk, verb_eqb_refl, N.eqb_refl. cbn [andb].
  destruct (op_value op) as [x|]; [|reflexivity]. rewrite (Hx x eq_refl). apply beqb_refl.
Qed.

Lemma ack_head_core q s1 t op envs gerr hold s2 sF d0 sl0 th' r c eo :
  reach q s1 -> get_thread t (s_threads s1) = Some th' -> t_pc th' = PDone r ->
  posted d0 sl0 op s1 c eo -> link d0 c eo r -> leads s1 sF ->
  ack_event_ok (map ev_obs (rev (s_events sF))) (s_committed sF) (DWrite op envs gerr hold, mk_obs (resp_of s1 t) s2) = true.
Proof.
  intros R1 G' P' [Hd [Hc [Hv Hs]]] HL LF.
  assert (Eob : resp_of s1 t = OResp r (t_unk th')) by (unfold resp_of; rewrite G', P'; reflexivity).
  destruct r as [h kv| | |]; try (unfold ack_event_ok; cbn [o_d mk_obs]; rewrite Eob; reflexivity).
  destruct eo as [er|]; cbn [link] in HL; [destruct HL as [[_ HL]|[_ [[h' [kv' HL]]|HL]]]; discriminate|].
  injection HL as -> ->.
  destruct (s_committed sF <? d0 + 1) eqn:Efin; [unfold ack_event_ok; cbn [o_d mk_obs]; rewrite Eob, Efin; reflexivity|].
  apply N.ltb_ge in Efin.
  set (ev0 := mk_ev (d0 + 1) (c_prev c) (op_verb op) (op_key op) (c_val c) None).
  assert (A1 : acked s1 ev0) by (split; [reflexivity|right; rewrite Hs; apply slot_set_same]).
  pose proof (acked_leads q s1 sF ev0 R1 LF A1) as AF.
  pose proof (leads_reach q s1 sF R1 LF) as RF.
  pose proof (acked_published sF ev0 (reach_inv1 q sF RF) AF Efin) as Hin.
  apply (ack_match (s_events sF) ev0 (s_committed sF) op envs gerr hold _ (c_old c) (t_unk th') (a_sorted _ (reach_inv3 q sF RF)) Hin Efin);
    try reflexivity; [exact Eob|].
  intros x Hx. unfold cv_ok in Hv. rewrite Hx in Hv. exact Hv.
Qed.

Lemma ack_head q s t op envs gerr hold s2 sF :
  reach q s -> get_thread t (s_threads s) = None -> op_is_write op = true -> envs_wf envs -> op_wf op ->
  leads s2 sF -> leads (run_thread 12 t envs gerr (step s (LInvoke t op))) s2 ->
  ack_event_ok (map ev_obs (rev (s_events sF))) (s_committed sF)
    (DWrite op envs gerr hold, mk_obs (resp_of (run_thread 12 t envs gerr (step s (LInvoke t op))) t) s2) = true.
Proof.
  intros MR G OW We Wo LF2 LF1. pose proof (leads_trans _ _ _ LF1 LF2) as LF.
  destruct (write_run s t op envs gerr G OW We) as [th' [r [c [eo [G' [O' [P' [HP [HL F']]]]]]]]].
  assert (L1 : leads s (run_thread 12 t envs gerr (step s (LInvoke t op)))).
  { eapply leads_trans; [apply (leads_step s (LInvoke t op)); exact Wo|apply run_thread_leads; exact We]. }
  apply (ack_head_core q _ t op envs gerr hold s2 sF (s_dealt s) (s_slots s) th' r c eo (leads_reach q s _ MR L1) G' P' HP HL LF).
Qed.

Lemma ack_other evs fin d o : (forall op envs g h, d <> DWrite op envs g h) -> ack_event_ok evs fin (d, o) = true.
Proof. intros N. unfold ack_event_ok. destruct d; try reflexivity. exfalso. eapply N. reflexivity. Qed.

(* guide the kernel: compare the macro runners' arguments instead of unfolding them *)
Local Opaque settle run_thread run_retry run_retry_get.

Lemma ack_head_step q m op envs gerr hold sF :
  MI q m -> dstep_wf (DWrite op envs gerr hold) ->
  leads (m_s (fst (dstep_run m (DWrite op envs gerr hold)))) sF ->
  ack_event_ok (map ev_obs (rev (s_events sF))) (s_committed sF) (DWrite op envs gerr hold, snd (dstep_run m (DWrite op envs gerr hold))) = true.
Proof.
  intros M Wd LF. destruct (dstep_wf_write _ _ _ _ Wd) as [We Wo]. destruct Wd as [_ OW].
  unfold dstep_run in *. cbv zeta in *. cbn [fst snd m_s] in *.
  refine (ack_head q (m_s m) (m_tid m) op envs gerr hold _ sF (mi_reach q m M) _ OW We Wo LF _).
  - apply (mi_fresh q m M). lia.
  - apply settle_leads.
Qed.

Lemma ack_fold q ds : forall m b,
  MI q m -> Sim b (m_s m) -> Forall dstep_wf ds ->
  forall x, In x (combine ds (snd (script_run m ds))) ->
  ack_event_ok (map ev_obs (rev (s_events (m_s (fst (script_run m ds)))))) (s_committed (m_s (fst (script_run m ds)))) x = true.
Proof.
  induction ds as [|d ds IH]; intros m b M S W x Hx; [contradiction|].
  inversion W as [|? ? Wd Wds]; subst.
  destruct (dstep_sim q b m d M S Wd) as [M1 [S1 _]].
  pose proof (ack_head_step q m) as AH.
  cbn [script_run] in *.
  destruct (dstep_run m d) as [m1 o] eqn:ED. cbn [fst snd] in *.
  pose proof (script_run_leads ds m1 Wds) as L2.
  specialize (IH m1 (book_step b (d, o)) M1 S1 Wds).
  destruct (script_run m1 ds) as [m2 os] eqn:ES. cbn [fst snd combine] in *.
  destruct Hx as [<-|Hx]; [|apply IH; exact Hx].
  destruct d; try (apply ack_other; intros; discriminate).
  specialize (AH op envs gerr hold (m_s m2) M Wd). rewrite ED in AH. cbn [fst snd] in AH. apply AH. exact L2.
Qed.

(* (4a) every acknowledged write whose revision is committed when the script ends has exactly one delivered event, with
   its verb, key and value   [<- the request's valid event sits in its result slot until the sequencer publishes it] *)
Theorem oracle_clause_ack c : c09_valid c -> c09_check c = true ->
  forallb (ack_event_ok (c_events c) (final_committed (c_obs c))) (combine (c_script c) (c_obs c)) = true.
Proof.
  intros W C. destruct (check_spec c C) as [Eo [Ee _]]. apply forallb_forall. intros x Hx.
  rewrite Eo in Hx |- *. rewrite Ee.
  unfold c09_valid in W. destruct (c_script c) as [|d ds] eqn:Es; [contradiction|].
  rewrite final_committed_run by discriminate.
  apply (ack_fold r0 (d :: ds) minit book0 minit_MI minit_Sim W x Hx).
Qed.

Local Transparent settle run_thread run_retry run_retry_get.

(* ---------- clause (6): the probe after a drained List ---------- *)
Lemma run_thread_ok_iter fuel t s th :
  get_thread t (s_threads s) = Some th -> (forall r, t_pc th <> PDone r) ->
  run_thread (S fuel) t [] false s = run_thread fuel t [] false (step s (LThread t EnvOk)).
Proof.
  intros G N. cbn [run_thread]. unfold pc_of. rewrite G. destruct (t_pc th) eqn:P; try reflexivity.
  - destruct (t_op th); reflexivity.
  - exfalso. apply (N r). reflexivity.
Qed.

Lemma run_thread_stop fuel t s th r :
  get_thread t (s_threads s) = Some th -> t_pc th = PDone r -> run_thread (S fuel) t [] false s = s.
Proof. intros G P. cbn [run_thread]. unfold pc_of. rewrite G, P. reflexivity. Qed.

(* a conditional update whose expected revision is the key's newest, live version, alone in the system *)
Lemma upd_run s t k v p val rest :
  get_thread t (s_threads s) = None ->
  k_vers (s_store s k) = (N.pos p, val) :: rest -> k_idx (s_store s k) = Some (N.pos p, false) -> N.pos p <= s_dealt s ->
  let b := mk_batch k (CIs (N.pos p, false)) (s_dealt s + 1) false v in
  let ev := mk_ev (s_dealt s + 1) (N.pos p) VPut k v None in
  let s1 := run_thread 12 t [] false (step s (LInvoke t (OUpdate k v (N.pos p)))) in
  exists th', get_thread t (s_threads s1) = Some th' /\ t_pc th' = PDone (ROk (s_dealt s + 1) None) /\ t_unk th' = false /\
    s_store s1 = apply_batch (s_store s) b /\ s_dealt s1 = s_dealt s + 1 /\
    s_slots s1 = slot_set (s_slots s) (s_dealt s + 1) (Some ev) /\ thread_frame s s1 t.
Proof.
  intros G Hv Hi Hle. cbv zeta.
  set (op := OUpdate k v (N.pos p)). set (d1 := s_dealt s + 1).
  assert (E : step s (LInvoke t op) = set_threads s (set_thread t {| t_op := op; t_pc := PStart; t_unk := false |} (s_threads s)))
    by (unfold step, step_gen; rewrite G; reflexivity).
  rewrite E. set (th0 := {| t_op := op; t_pc := PStart; t_unk := false |}).
  set (sA := set_threads s (set_thread t th0 (s_threads s))).
  assert (GA : get_thread t (s_threads sA) = Some th0) by apply get_set_same.
  (* Deal *)
  rewrite (run_thread_ok_iter 11 t sA th0 GA) by (cbn; discriminate).
  set (c := mk_ctx d1 (N.pos p) v None). set (b := mk_batch k (CIs (N.pos p, false)) d1 false v).
  assert (TS1 : thread_step sA (t_op th0) (t_pc th0) EnvOk = (set_dealt sA d1, PCommit CFinal c b, false)).
  { cbn [thread_step th0 t_op t_pc op op_key]. cbn [sA s_dealt set_threads]. fold d1.
    assert ((d1 <? N.pos p) = false) as -> by (apply N.ltb_ge; unfold d1; lia). reflexivity. }
  rewrite (step_thread_eq sA t EnvOk th0 _ _ _ GA TS1).
  set (th1 := {| t_op := t_op th0; t_pc := PCommit CFinal c b; t_unk := t_unk th0 || false |}).
  set (sB := set_threads (set_dealt sA d1) (set_thread t th1 (s_threads (set_dealt sA d1)))).
  assert (GB : get_thread t (s_threads sB) = Some th1) by apply get_set_same.
  (* commit *)
  rewrite (run_thread_ok_iter 10 t sB th1 GB) by (cbn; discriminate).
  assert (TS2 : thread_step sB (t_op th1) (t_pc th1) EnvOk = (set_store sB (apply_batch (s_store s) b), PNotify c None, false)).
  { cbn [thread_step th1 t_op t_pc th0]. unfold commit. cbn [b mk_batch b_cond b_key sB sA s_store set_threads set_dealt cond_holds].
    rewrite Hi. assert (idxval_eqb (N.pos p, false) (N.pos p, false) = true) as -> by (apply idxval_eqb_eq; reflexivity). reflexivity. }
  rewrite (step_thread_eq sB t EnvOk th1 _ _ _ GB TS2).
  set (th2 := {| t_op := t_op th1; t_pc := PNotify c None; t_unk := t_unk th1 || false |}).
  set (sC0 := set_store sB (apply_batch (s_store s) b)).
  set (sC := set_threads sC0 (set_thread t th2 (s_threads sC0))).
  assert (GC : get_thread t (s_threads sC) = Some th2) by apply get_set_same.
  (* notify *)
  rewrite (run_thread_ok_iter 9 t sC th2 GC) by (cbn; discriminate).
  set (ev := mk_ev d1 (N.pos p) VPut k v None).
  assert (TS3 : thread_step sC (t_op th2) (t_pc th2) EnvOk = (set_slots sC (slot_set (s_slots s) d1 (Some ev)), PRespond c None, false)) by reflexivity.
  rewrite (step_thread_eq sC t EnvOk th2 _ _ _ GC TS3).
  set (th3 := {| t_op := t_op th2; t_pc := PRespond c None; t_unk := t_unk th2 || false |}).
  set (sD0 := set_slots sC (slot_set (s_slots s) d1 (Some ev))).
  set (sD := set_threads sD0 (set_thread t th3 (s_threads sD0))).
  assert (GD : get_thread t (s_threads sD) = Some th3) by apply get_set_same.
  (* respond *)
  rewrite (run_thread_ok_iter 8 t sD th3 GD) by (cbn; discriminate).
  assert (TS4 : thread_step sD (t_op th3) (t_pc th3) EnvOk = (sD, PDone (ROk d1 None), false)) by reflexivity.
  rewrite (step_thread_eq sD t EnvOk th3 _ _ _ GD TS4).
  set (th4 := {| t_op := t_op th3; t_pc := PDone (ROk d1 None); t_unk := t_unk th3 || false |}).
  set (sE := set_threads sD (set_thread t th4 (s_threads sD))).
  assert (GE : get_thread t (s_threads sE) = Some th4) by apply get_set_same.
  rewrite (run_thread_stop 7 t sE th4 (ROk d1 None) GE eq_refl).
  exists th4. split; [exact GE|]. split; [reflexivity|]. split; [reflexivity|]. split; [reflexivity|]. split; [reflexivity|]. split; [reflexivity|].
  unfold thread_frame, sE, sD, sD0, sC, sC0, sB, sA.
  cbn [s_committed s_seq s_retry s_queue s_events s_now s_threads set_threads set_dealt set_store set_slots].
  repeat split; auto.
  - intros t' Ht'. rewrite !get_set_other by exact Ht'. reflexivity.
  - right. exists th4. rewrite !set_set_thread. reflexivity.
Qed.

(* version revisions are positive *)
Lemma reach_vers_pos q s : reach q s -> forall k r v, In (r, v) (vers s k) -> 0 < r.
Proof.
  induction 1 as [|s l R IH W]; intros k r v H; [contradiction|].
  destruct (step_vers s l k (reach_inv1 q s R) (reach_inv2 q s R) W) as [E|[r1 [v1 [E Hr]]]]; rewrite E in H.
  - apply (IH k r v H).
  - destruct H as [H|H]; [injection H as <- _; lia|apply (IH k r v H)].
Qed.

(* what the oracle remembers between a drained List and the probes that follow it *)
Definition PI (l : list (key * value * N)) (s : state) : Prop :=
  quiescent s /\
  forall k v r, lookup_kv k l = Some (v, r) -> exists rest, vers s k = (r, v) :: rest /\ is_tomb v = false.

Lemma lookup_snap_some s R k v r : lookup_kv k (snap_list s R) = Some (v, r) -> snap s R k = Some (v, r).
Proof.
  intros H. destruct (in_dec N.eq_dec k keys4) as [Hin|Hn]; [rewrite lookup_snap_list in H by exact Hin; exact H|].
  exfalso. unfold snap_list, keys4 in *. cbn [flat_map] in H.
  assert (k <> 0 /\ k <> 1 /\ k <> 2 /\ k <> 3) as [N0 [N1 [N2 N3]]] by (repeat split; intros ->; apply Hn; simpl; auto).
  apply N.eqb_neq in N0, N1, N2, N3.
  destruct (snap s R 0) as [[? ?]|], (snap s R 1) as [[? ?]|], (snap s R 2) as [[? ?]|], (snap s R 3) as [[? ?]|];
    cbn [lookup_kv app] in H; rewrite ?(N.eqb_sym _ k), ?N0, ?N1, ?N2, ?N3 in H; discriminate.
Qed.

Lemma PI_of_list q s : reach q s -> quiescent s -> PI (snap_list s (s_committed s)) s.
Proof.
  intros R Q. split; [exact Q|]. intros k v r H. apply lookup_snap_some in H.
  unfold snap, snap_vers in H. pose proof (v_desc _ (reach_inv2 q s R) k) as D. unfold vers in *.
  destruct Q as [_ [_ [_ [_ Hd]]]].
  destruct (k_vers (s_store s k)) as [|[r1 v1] rest] eqn:EV; [discriminate|].
  assert (r1 <= s_committed s) by (rewrite <- Hd; apply (v_le _ (reach_inv2 q s R) k r1 v1); unfold vers; rewrite EV; left; reflexivity).
  rewrite (latest_le_head _ r1 v1 rest (s_committed s) D eq_refl H0) in H.
  destruct (is_tomb v1) eqn:T; [discriminate|]. injection H as <- <-. exists rest. auto.
Qed.

Lemma lookup_remove k k' l : lookup_kv k' (remove_kv k l) = (if k' =? k then None else lookup_kv k' l).
Proof.
  induction l as [|[[k0 v0] r0] l IH]; cbn [remove_kv lookup_kv]; [destruct (k' =? k); reflexivity|].
  destruct (k0 =? k) eqn:E0.
  - apply N.eqb_eq in E0. subst k0. rewrite IH. destruct (k' =? k) eqn:E; [reflexivity|].
    assert ((k =? k') = false) as -> by (apply N.eqb_neq; apply N.eqb_neq in E; congruence). reflexivity.
  - cbn [lookup_kv]. destruct (k0 =? k') eqn:E1; [|exact IH].
    apply N.eqb_eq in E1. subst k0. assert ((k' =? k) = false) as -> by exact E0. reflexivity.
Qed.

Lemma settle_S f held s :
  settle (S f) held s =
  match s_seq s with
  | SeqIdle => match s_slots s (s_committed s + 1) with None => s | Some _ => settle f held (step s LSeq) end
  | SeqHold ev => match held with
                  | Some r => if r =? e_rev ev then s else settle f held (step s LSeq)
                  | None => settle f held (step s LSeq)
                  end
  | SeqMid _ => settle f held (step s LSeq)
  end.
Proof. reflexivity. Qed.

Lemma probe_hit q m l k v prev val :
  MI q m -> PI l (m_s m) -> lookup_kv k l = Some (val, prev) ->
  (exists u, o_d (snd (dstep_run m (DWrite (OUpdate k v prev) [] false false))) = OResp (ROk (s_dealt (m_s m) + 1) None) u) /\
  PI (remove_kv k l) (m_s (fst (dstep_run m (DWrite (OUpdate k v prev) [] false false)))).
Proof.
  intros [MR MF MD] [Q HL] Hk. set (s := m_s m) in *. set (t := m_tid m).
  pose proof (reach_inv1 q s MR) as I1. pose proof (reach_inv2 q s MR) as I2.
  destruct (HL k val prev Hk) as [rest [Hv Ht]].
  assert (Hpos : 0 < prev) by (apply (reach_vers_pos q s MR k prev val); rewrite Hv; left; reflexivity).
  destruct prev as [|p]; [lia|].
  assert (Hi : k_idx (s_store s k) = Some (N.pos p, false)).
  { pose proof (v_idx _ I2 k) as X. unfold idx_ok in X. unfold vers in Hv. rewrite Hv in X. rewrite Ht in X. exact X. }
  assert (Hle : N.pos p <= s_dealt s) by (apply (v_le _ I2 k (N.pos p) val); rewrite Hv; left; reflexivity).
  assert (G : get_thread t (s_threads s) = None) by (apply MF; unfold t; lia).
  pose proof (upd_run s t k v p val rest G Hv Hi Hle) as UR. cbv zeta in UR.
  unfold dstep_run. cbv zeta. fold s. fold t. cbn [andb].
  remember (run_thread 12 t [] false (step s (LInvoke t (OUpdate k v (N.pos p))))) as s1 eqn:Es1.
  destruct UR as [th' [G' [P' [U' [Hst [Hd [Hs [F1 [F2 [F3 [F4 [F5 [F6 [F7 F8]]]]]]]]]]]]]].
  destruct Q as [NL [Qs [Qr [Qq Qd]]]].
  assert (Eob : resp_of s1 t = OResp (ROk (s_dealt s + 1) None) false) by (unfold resp_of; rewrite G', P', U'; reflexivity).
  cbn [fst snd m_s mk_obs o_d]. split; [rewrite Eob; eauto|].
  (* the sequencer publishes the event and stops *)
  set (ev := mk_ev (s_dealt s + 1) (N.pos p) VPut k v None) in *.
  set (sX := set_slots s1 (slot_set (slot_set (s_slots s) (s_dealt s + 1) (Some ev)) (s_dealt s + 1) None)).
  set (sS := set_events (set_committed sX (e_rev ev)) (ev :: s_events sX)).
  assert (Hc1 : s_committed s1 + 1 = s_dealt s + 1) by (rewrite F1; lia).
  assert (E1 : step s1 LSeq = sS).
  { unfold step, step_gen, seq_step. rewrite F2, Qs, Hc1, Hs, slot_set_same. reflexivity. }
  assert (Eset : settle seq_fuel (m_held m) s1 = sS).
  { change seq_fuel with (S (S 62)). rewrite settle_S, F2, Qs, Hc1, Hs, slot_set_same, E1, settle_S.
    assert (s_seq sS = SeqIdle) as -> by (unfold sS, sX; cbn [s_seq set_events set_committed set_slots]; rewrite F2; exact Qs).
    assert (s_slots sS (s_committed sS + 1) = None) as ->; [|reflexivity].
    unfold sS, sX. cbn [s_slots s_committed set_events set_committed set_slots ev mk_ev e_rev].
    rewrite slot_set_other by lia. rewrite slot_set_other by lia.
    destruct (s_slots s (s_dealt s + 1 + 1)) as [e0|] eqn:SL; [apply (i_slot _ I1) in SL; lia|reflexivity]. }
  rewrite Eset. split.
  - unfold quiescent, no_live_request, sS, sX. cbn [s_threads s_seq s_retry s_queue s_dealt s_committed set_events set_committed set_slots ev mk_ev e_rev].
    split; [|split; [rewrite F2; exact Qs|split; [rewrite F3; exact Qr|split; [rewrite F4; exact Qq|exact Hd]]]].
    intros t0 th0 G0. destruct (N.eq_dec t0 t) as [->|Ne].
    + rewrite G' in G0. injection G0 as <-. rewrite P'. reflexivity.
    + rewrite F7 in G0 by exact Ne. apply (NL t0 th0 G0).
  - intros k' v' r' H'. rewrite lookup_remove in H'. destruct (k' =? k) eqn:Ek; [discriminate|]. apply N.eqb_neq in Ek.
    destruct (HL k' v' r' H') as [rest' [Hv' Ht']]. exists rest'. split; [|exact Ht'].
    unfold vers, sS, sX. cbn [s_store set_events set_committed set_slots]. rewrite Hst, apply_batch_other; [exact Hv'|exact Ek].
Qed.

Lemma conv_step_probe evs a d o :
  (cs_probe (conv_step evs a (d, o)) = None /\ cs_probe_ok (conv_step evs a (d, o)) = cs_probe_ok a)
  \/ (d = DList /\ exists h l, o_d o = OListed h l /\ drained (book_step (cs_book a) (d, o)) o = true /\
      cs_probe (conv_step evs a (d, o)) = Some l /\ cs_probe_ok (conv_step evs a (d, o)) = cs_probe_ok a)
  \/ (exists k v prev l val, d = DWrite (OUpdate k v prev) [] false false /\ cs_probe a = Some l /\
      lookup_kv k l = Some (val, prev) /\ cs_probe (conv_step evs a (d, o)) = Some (remove_kv k l) /\
      cs_probe_ok (conv_step evs a (d, o)) = cs_probe_ok a && match o_d o with OResp (ROk _ _) _ => true | _ => false end).
Proof.
  unfold conv_step.
  repeat match goal with |- context [match ?x with _ => _ end] => destruct x eqn:? end;
    try (left; split; reflexivity).
  all: try (right; left; split; [reflexivity|]; do 2 eexists; repeat split; try reflexivity; eassumption).
  all: right; right;
    match goal with H : (_ =? _) = true |- _ => apply N.eqb_eq in H end; subst;
    do 5 eexists; repeat split; try eassumption; try reflexivity;
    match goal with H : o_d _ = _ |- _ => rewrite H; reflexivity end.
Qed.

Lemma probe_fold q evs ds : forall m a,
  MI q m -> Sim (cs_book a) (m_s m) -> Forall dstep_wf ds ->
  (forall l, cs_probe a = Some l -> PI l (m_s m)) -> cs_probe_ok a = true ->
  cs_probe_ok (fold_left (conv_step evs) (combine ds (snd (script_run m ds))) a) = true.
Proof.
  induction ds as [|d ds IH]; intros m a M S W HP OK; [exact OK|].
  inversion W as [|? ? Wd Wds]; subst.
  destruct (dstep_sim q (cs_book a) m d M S Wd) as [M1 [S1 _]].
  pose proof (probe_hit q m) as PH.
  cbn [script_run].
  destruct (dstep_run m d) as [m1 o] eqn:ED. cbn [fst snd] in *.
  specialize (IH m1 (conv_step evs a (d, o)) M1).
  destruct (script_run m1 ds) as [m2 os] eqn:ES. cbn [fst snd combine fold_left] in *.
  apply IH; clear IH; [rewrite conv_step_book; exact S1|exact Wds| |].
  - intros l Hl. destruct (conv_step_probe evs a d o) as [[H _]|[[-> [h [l' [Ho [Dr [Hp _]]]]]]|[k [v [prev [l' [val [-> [Ha [Hk [Hp _]]]]]]]]]]].
    + rewrite H in Hl. discriminate.
    + rewrite Hp in Hl. injection Hl as <-.
      cbn [dstep_run] in ED. injection ED as <- <-. cbn [mk_obs o_d] in Ho. injection Ho as <- <-.
      apply (PI_of_list q _ (mi_reach _ _ M)). apply quiescentb_spec.
      refine (drained_quiescent_at q m _ _ M S1 _ _ Dr); reflexivity.
    + rewrite Hp in Hl. injection Hl as <-.
      destruct (PH l' k v prev val M (HP l' Ha) Hk) as [_ H]. rewrite ED in H. exact H.
  - destruct (conv_step_probe evs a d o) as [[_ H]|[[-> [h [l' [Ho [Dr [_ H]]]]]]|[k [v [prev [l' [val [-> [Ha [Hk [_ H]]]]]]]]]]]; rewrite H; try exact OK.
    destruct (PH l' k v prev val M (HP l' Ha) Hk) as [[u Hu] _]. rewrite ED in Hu. cbn [snd] in Hu. rewrite Hu, OK. reflexivity.
Qed.

(* (6) after a drained List, a conditional update at the listed revision of a listed key succeeds
   [<- quiescence of the drained state (simulation) + Inv2: the listed revision is the newest version and the index
   agrees with it, so the CAS of the update holds] *)
Theorem oracle_clause_probe c : c09_valid c -> c09_check c = true -> cs_probe_ok (conv_of c) = true.
Proof.
  intros W C. destruct (check_spec c C) as [Eo _]. unfold conv_of. rewrite Eo.
  apply (probe_fold r0 _ (c_script c) minit cs0 minit_MI minit_Sim W); [intros l H; discriminate|reflexivity].
Qed.

(* the oracle is sound on every case inside the stated assumptions whose recorded observation is the model's: all six
   clauses are theorems, so it reports no violation *)
Theorem oracle_sound c : c09_valid c -> c09_check c = true -> c09_oracle c = None.
Proof.
  intros W C. unfold c09_oracle.
  rewrite (valid_not_outside _ W), (oracle_clause_class c W C), (oracle_clause_book c W C),
          (oracle_clause_ack c W C), (oracle_clause_increasing c W C), (oracle_clause_probe c W C),
          (oracle_clause_converges c W C).
  reflexivity.
Qed.

(* validity is evaluated inside the check (Model/C09Cases.v): a case that passes it is either marked outside the stated
   assumptions — then the oracle reports nothing by definition — or valid; no side condition is left *)
Theorem oracle_sound_checked c : c09_check c = true -> c09_oracle c = None.
Proof.
  intros C. destruct (existsb step_outside (c_script c)) eqn:E.
  - unfold c09_oracle. rewrite E. reflexivity.
  - destruct (check_spec c C) as [_ [_ H]]. destruct (H E) as [V _].
    apply oracle_sound; [apply c09_validb_spec; exact V|exact C].
Qed.
